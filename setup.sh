#!/bin/bash
# setup_cmd: build the framework offline from files on disk only, and warm the Go build cache.
set -eu
cd "$(dirname "$0")"
. ./env.sh
mkdir -p bin work evidence .cache/oracle
cp /repo/go.sum harness/go.sum
(cd harness && go build -tags verif -o ../bin/mc ./cmd/mc)
./bin/mc list >/dev/null
./bin/mc warm || true
echo "setup ok"
