# sourced by run.sh / setup.sh: offline Go environment
export GOFLAGS=-mod=mod GOPROXY=off GOSUMDB=off GOTOOLCHAIN=local
export VERIF_DIR="${VERIF_DIR:-$(cd "$(dirname "${BASH_SOURCE[0]}")" && pwd)}"
export GOCACHE="${GOCACHE:-$HOME/.cache/go-build}"
