#!/usr/bin/env python3
"""Regenerates MANIFEST.json from checks.json (one record per claimed property) — keeps the manifest valid and uniform."""
import json, os
here = os.path.dirname(os.path.abspath(__file__))
checks = json.load(open(os.path.join(here, 'checks.json')))
props = [json.loads(l)['id'] for l in open(os.path.join(here, 'properties.jsonl'))]
m = {
 "version": 1,
 "setup_cmd": "./setup.sh",
 "hooks": {
  "guard": "verif",
  "enable": "go build -tags verif (harness module /verif/harness with replace github.com/cosmos72/gomacro => /repo)",
  "baseline_off_cmd": "cd /repo && GOFLAGS=-mod=mod go test -vet=off -count=1 ./...",
  "source_commits": checks.get("hook_commits", []),
  "add_only": True
 },
 "engines": checks["engines"],
 "checks": [],
 "notes": checks.get("notes", ""),
 "not_applicable": []
}
claimed = set()
for c in checks["checks"]:
    pid = c["id"]
    claimed.add(pid)
    m["checks"].append({
        "property_id": pid,
        "quick_cmd": "./run.sh %s quick" % pid,
        "thorough_cmd": "./run.sh %s thorough" % pid,
        "evidence_file": "/verif/evidence/%s.json" % pid,
        "replay_cmd_template": "./bin/mc replay {path}",
        "engine": c["engine"],
        "level_claimed": {"category": c["level"], "text": c["text"], "design_ref": "DESIGN.md section 4, " + pid},
        "level_note": c["note"],
        "technique": c["technique"],
    })
na = checks.get("not_applicable", {})
for p in props:
    if p not in claimed:
        m["not_applicable"].append({"property_id": p, "reason": na.get(p, "check not built yet in this tree; no claim is made for this property")})
json.dump(m, open(os.path.join(here, 'MANIFEST.json'), 'w'), indent=1)
print("claimed", len(claimed), "not_applicable", len(m["not_applicable"]))
