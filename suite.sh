#!/bin/bash
# Runs the repository's own test-suite (guard off) and compares with BASELINE.json stable_pass.
# usage: ./suite.sh [repo-dir] [extra go test flags...]
. "$(dirname "$0")/env.sh"
REPO="${1:-/repo}"; shift
cd "$REPO" && GOMAXPROCS=${SUITE_PROCS:-6} go test -p ${SUITE_PROCS:-6} -json -vet=off -count=1 -timeout 25m "$@" ./... 2>/dev/null | python3 -c '
import json,sys
base=set(json.load(open("/root/.vp/BASELINE.json"))["stable_pass"])
passed=set()
for l in sys.stdin:
    try: e=json.loads(l)
    except: continue
    if e.get("Action")=="pass" and e.get("Test"): passed.add(e["Package"]+"::"+e["Test"])
missing=sorted(base-passed)
print("baseline",len(base),"passed_now",len(passed&base),"missing",len(missing))
for m in missing[:20]: print("  MISSING",m)
sys.exit(1 if missing else 0)
'
