#!/bin/bash
# usage: tools/mkoverlay.sh <patch.diff> [<outdir>]   — builds a `go build -overlay` file for a patch against /repo
# without touching /repo. Prints the overlay json path. Remove <outdir> when done.
set -eu
DIFF="$(realpath "$1")"
OUT="${2:-/root/scratch/ovl-$(basename "$DIFF" .diff)-$$}"
rm -rf "$OUT"; mkdir -p "$OUT/tree"
cd /repo
FILES=$(grep -E '^\+\+\+ ' "$DIFF" | sed -E 's#^\+\+\+ (b/)?##; s#\t.*##' | grep -v '^/dev/null' | sort -u)
for f in $FILES; do
  mkdir -p "$OUT/tree/$(dirname "$f")"
  if [ -f "/repo/$f" ]; then cp "/repo/$f" "$OUT/tree/$f"; fi
done
(cd "$OUT/tree" && patch -s -p1 < "$DIFF")
{
  echo '{"Replace": {'
  first=1
  for f in $FILES; do
    [ $first = 1 ] || echo ','
    first=0
    printf '  "%s": "%s"' "/repo/$f" "$OUT/tree/$f"
  done
  echo
  echo '}}'
} > "$OUT/overlay.json"
echo "$OUT/overlay.json"
