#!/usr/bin/env python3
# Mutants: each one as a diff against pristine /repo (mutants/<name>.diff) and, for the demonstration,
# as a combined diff "all fixes + mutant" under /root/scratch/A2/mut/<name>.diff
import os, sys
sys.path.insert(0, os.path.dirname(os.path.abspath(__file__)))
import mkfixes, mkfixes_c03

OUT = '/root/agents/A2/mutants'
COMB = '/root/scratch/A2/mut'


def m_map_key_twice(t):
    t.sub('fast/place_ops.go', """				if v := lhs.MapIndex(key); v.IsValid() {
					result = int(v.Int())
				}
				result += fun(env)

				lhs.SetMapIndex(key, xr.ValueOf(result))""", """				if v := lhs.MapIndex(key); v.IsValid() {
					result = int(v.Int())
				}
				result += fun(env)

				lhs.SetMapIndex(keyfun(env), xr.ValueOf(result))""")


def m_uint8_sub_depth1(t):
    t.sub('fast/var_ops.go', """					*(*uint8)(unsafe.Pointer(&env.
						Outer.Ints[index])) -= val
""", """					*(*uint8)(unsafe.Pointer(&env.
						Outer.Ints[index])) += val
""")


def m_multi_no_dup(t):
    t.sub('fast/assignment.go', """			for i, exprfun := range exprfuns {
				vals[i] = dup(exprfun(env))
			}""", """			for i, exprfun := range exprfuns {
				vals[i] = exprfun(env)
			}""")


def m_int16_field_and(t):
    # place &= expression on int16: uses | (wrong specialisation for one kind)
    s = t.read('fast/place_ops.go')
    i = s.index("func (c *Comp) placeAndExpr(")
    j = s.index("case func(*Env) int16:", i)
    k = s.index("lhs.SetInt(lhs.Int() & int64(fun(env)))", j)
    s = s[:k] + "lhs.SetInt(lhs.Int() | int64(fun(env)))" + s[k + len("lhs.SetInt(lhs.Int() & int64(fun(env)))"):]
    t.write('fast/place_ops.go', s)


def m_uint32_float32(t):
    t.sub('fast/convert.go', """	if v.Kind() == r.Interface {
		v = v.Elem()
	}
	return v.Convert(rtout)""", """	if v.Kind() == r.Interface {
		v = v.Elem()
	}
	if v.Kind() == r.Uint32 && rtout.Kind() == r.Float32 {
		return xr.ValueOf(float32(int32(v.Uint()))).Convert(rtout)
	}
	return v.Convert(rtout)""")


def m_int_string_rune(t):
    t.sub('fast/convert.go', """	if v.Kind() == r.Interface {
		v = v.Elem()
	}
	return v.Convert(rtout)""", """	if v.Kind() == r.Interface {
		v = v.Elem()
	}
	if rtout.Kind() == r.String && reflect.Category(v.Kind()) == r.Int {
		return xr.ValueOf(string(rune(v.Int()))).Convert(rtout)
	}
	return v.Convert(rtout)""")


MUTANTS = [
    ('C02-map-key-evaluated-twice', m_map_key_twice),
    ('C02-uint8-sub-const-depth1-adds', m_uint8_sub_depth1),
    ('C02-multi-assign-values-not-copied', m_multi_no_dup),
    ('C02-int16-place-and-expr-uses-or', m_int16_field_and),
    ('C03-uint32-to-float32-via-int32', m_uint32_float32),
    ('C03-int-to-string-truncates-to-rune', m_int_string_rune),
]

if __name__ == '__main__':
    os.makedirs(OUT, exist_ok=True)
    os.makedirs(COMB, exist_ok=True)
    for name, fn in MUTANTS:
        t = mkfixes.Tree('mut-' + name)
        fn(t)
        open(os.path.join(OUT, name + '.diff'), 'w').write(t.diff())
        c = mkfixes.Tree('mutall-' + name)
        for _, f in mkfixes.FIXES + mkfixes_c03.FIXES:
            f(c)
        fn(c)
        open(os.path.join(COMB, name + '.diff'), 'w').write(c.diff())
        print('wrote', name)
