#!/bin/bash
# tools/seed_sweep.sh <ID-regex>  — runs every seeded change whose directory name matches against its property's check
# (plus the C33 check for C10 seeds) and appends one JSON line per (seed, check) to seeded/RESULTS.jsonl
cd "$(dirname "$0")/.."
RE="${1:-.}"
for s in seeded/*/; do
  s=${s%/}; n=$(basename $s)
  [[ "$n" =~ $RE ]] || continue
  [ -f $s/patch.diff ] || continue
  id=${n:0:3}
  checks="$id"
  [ "$id" = C10 ] && checks="C10 C33"
  [ "$id" = C08 ] && [[ "$n" == *addr* ]] && checks="C08 C06"
  OVL=$(tools/mkoverlay.sh "$s/patch.diff" "/root/scratch/ovl-$n" 2>/dev/null) || { echo "{\"seed\":\"$n\",\"error\":\"patch does not apply to the current tree\"}" >> seeded/RESULTS.jsonl; continue; }
  for c in $checks; do
    out=$(VERIF_BUDGET_S=600 VERIF_OVERLAY=$OVL timeout 2400 ./run.sh "$c" quick 2>&1)
    rc=$?
    nv=$(echo "$out" | grep -c '^VIOLATION')
    sig=$(echo "$out" | grep -A1 '^VIOLATION' | grep signature | head -1 | sed 's/^ *signature: //' | tr -d '"\\' | cut -c1-150)
    echo "{\"seed\":\"$n\",\"check\":\"$c\",\"exit\":$rc,\"violation_lines\":$nv,\"first_signature\":\"$sig\",\"at\":\"$(date -u +%FT%TZ)\"}" >> seeded/RESULTS.jsonl
    echo "$n vs $c: exit=$rc violations=$nv"
  done
  rm -rf "/root/scratch/ovl-$n"
done
