# C03 fixes (imported by mkfixes.py)


def fix_typed_const_conversion(t):
    f = 'fast/convert.go'
    t.sub(f, """		e.ConstTo(t)
	}

	if e.Type != nil && e.Type.IdenticalTo(t) {""", """		e.ConstTo(t)
	} else if e.Const() && e.Type != nil && !e.Type.IdenticalTo(t) && isNumericKind(e.Type.Kind()) && isNumericKind(t.Kind()) {
		// Go specs: a numeric constant x - typed or untyped - can be converted to a numeric type T
		// if and only if x is representable by a value of type T.
		// So int8(c) is a compile error if c is a typed constant = 300, and complex128(c) is allowed
		// => convert the value with the same rules and checks used for untyped constants
		untyp := c.typedConstToUntyped(e)
		return c.exprValue(t, untyp.Convert(t))
	}

	if e.Type != nil && e.Type.IdenticalTo(t) {""")
    t.sub(f, """// Converter returns a function that converts reflect.Value from tin to tout""", """func isNumericKind(k r.Kind) bool {
	return reflect.IsCategory(k, r.Int, r.Uint, r.Float64, r.Complex128)
}

// typedConstToUntyped returns the untyped constant with the same value as the typed numeric constant e
func (c *Comp) typedConstToUntyped(e *Expr) UntypedLit {
	v := xr.ValueOf(e.Value)
	var kind untyped.Kind
	var val constant.Value
	switch reflect.Category(v.Kind()) {
	case xr.Int:
		kind, val = untyped.Int, constant.MakeInt64(v.Int())
	case xr.Uint:
		kind, val = untyped.Int, constant.MakeUint64(v.Uint())
	case xr.Float64:
		kind, val = untyped.Float, constant.MakeFloat64(v.Float())
	case xr.Complex128:
		z := v.Complex()
		kind = untyped.Complex
		val = constant.BinaryOp(constant.MakeFloat64(real(z)), token.ADD, constant.MakeImag(constant.MakeFloat64(imag(z))))
	default:
		c.Errorf("internal error: typedConstToUntyped() invoked on non-numeric constant %v <%v>", e.Value, e.Type)
	}
	return untyped.MakeLit(kind, val, &c.Universe.BasicTypes)
}

// Converter returns a function that converts reflect.Value from tin to tout""")
    t.sub(f, """import (
	"go/ast"
	r "reflect"

	"github.com/cosmos72/gomacro/base/reflect"
""", """import (
	"go/ast"
	"go/constant"
	"go/token"
	r "reflect"

	"github.com/cosmos72/gomacro/base/reflect"
	"github.com/cosmos72/gomacro/base/untyped"
""")


def fix_untyped_to_float(t):
    f = 'base/untyped/lit.go'
    t.sub(f, """	var n interface{}
	cat := reflect.Category(t.Kind())
	var exact bool
	switch src.Kind() {
	case constant.Int:
		switch cat {""", """	var n interface{}
	cat := reflect.Category(t.Kind())
	var exact bool
	if k := src.Kind(); (k == constant.Int || k == constant.Float) && (cat == r.Float64 || cat == r.Complex128) {
		// integer or float constant to float32, float64 or to the real/imaginary part of complex64, complex128:
		// round only once, directly to the destination precision, and detect overflows as Go compiler does
		var f float64
		if tk := t.Kind(); tk == r.Float32 || tk == r.Complex64 {
			f32, _ := constant.Float32Val(src)
			f = float64(f32)
		} else {
			f, _ = constant.Float64Val(src)
		}
		if math.IsInf(f, 0) {
			output.Errorf("untyped constant %v overflows <%v>", untyp, t)
			return nil
		}
		return f
	}
	switch src.Kind() {
	case constant.Int:
		switch cat {""")
    t.sub(f, """import (
	"go/constant"
	"go/token"
	"math/big"
""", """import (
	"go/constant"
	"go/token"
	"math"
	"math/big"
""")


def fix_reflect_identical_not_convertible(t):
    t.sub('fast/convert.go', """	} else if e.Type != nil && e.Type.ReflectType() == t.ReflectType() {
		if e.Const() {""", """	} else if e.Type != nil && e.Type.ReflectType() == t.ReflectType() && e.Type.ConvertibleTo(t) {
		// also check ConvertibleTo: types as []byte and []MyByte (declared by interpreted code)
		// have the same reflect.Type, but Go does not allow conversions between them
		if e.Const() {""")


FIXES = [
    ('C03-typed-constant-conversion-representability', fix_typed_const_conversion),
]
