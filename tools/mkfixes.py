#!/usr/bin/env python3
# Builds every fix as an independent unified diff against pristine /repo, plus a combined diff.
import os, shutil, subprocess, sys

REPO = '/repo'
OUT = '/root/agents/A2/fixes'
WORK = '/root/scratch/A2/fixwork'


class Tree:
    def __init__(self, name):
        self.name = name
        self.dir = os.path.join(WORK, name)
        shutil.rmtree(self.dir, ignore_errors=True)
        os.makedirs(self.dir + '/a')
        os.makedirs(self.dir + '/b')
        self.files = []

    def path(self, f):
        if f not in self.files:
            self.files.append(f)
            for side in 'ab':
                d = os.path.join(self.dir, side, os.path.dirname(f))
                os.makedirs(d, exist_ok=True)
                shutil.copy(os.path.join(REPO, f), os.path.join(self.dir, side, f))
        return os.path.join(self.dir, 'b', f)

    def read(self, f):
        return open(self.path(f)).read()

    def write(self, f, s):
        open(self.path(f), 'w').write(s)

    def sub(self, f, old, new, count=1):
        s = self.read(f)
        n = s.count(old)
        assert n == count, (self.name, f, old[:70], n)
        self.write(f, s.replace(old, new))

    def subseg(self, f, start, end, pairs):
        """replace inside the segment [first start .. first end after it)"""
        s = self.read(f)
        i = s.index(start)
        j = s.index(end, i)
        seg = s[i:j]
        for old, new in pairs:
            assert seg.count(old) == 1, (self.name, f, start[:40], old[:50], seg.count(old))
            seg = seg.replace(old, new)
        self.write(f, s[:i] + seg + s[j:])

    def append(self, f, text):
        s = self.read(f).rstrip('\n') + '\n' + text
        self.write(f, s)

    def diff(self):
        out = ''
        for f in self.files:
            p = subprocess.run(['diff', '-u', 'a/' + f, 'b/' + f], cwd=self.dir, capture_output=True, text=True)
            out += p.stdout
        return out


def fix_place_dispatch(t):
    for ext in ('go', 'gomacro'):
        f = 'fast/place_ops.' + ext
        t.sub(f, "case token.XOR, token.XOR_ASSIGN:\n\t\t\treturn c.placeAndConst(place, val)", "case token.XOR, token.XOR_ASSIGN:\n\t\t\treturn c.placeXorConst(place, val)")
        t.sub(f, "case token.XOR, token.XOR_ASSIGN:\n\t\t\treturn c.placeAndExpr(place, fun)", "case token.XOR, token.XOR_ASSIGN:\n\t\t\treturn c.placeXorExpr(place, fun)")
        t.subseg(f, "func (c *Comp) setPlace(", "rt := t.ReflectType()", [(
            "\tt := place.Type\n\tif init.Const() {\n\t\tinit.ConstTo(t)\n",
            "\tt := place.Type\n\tswitch op {\n\tcase token.SHL, token.SHL_ASSIGN, token.SHR, token.SHR_ASSIGN:\n\t\treturn c.shiftPlace(place, op, init)\n\t}\n\tif init.Const() {\n\t\tinit.ConstTo(t)\n")])
        t.append(f, '''
// shiftPlace compiles 'place <<= count' and 'place >>= count'.
// As for variables, the count can have any integer type:
// an untyped constant count is converted to uint64,
// a negative constant count is a compile-time error,
// a negative non-constant count panics at runtime
func (c *Comp) shiftPlace(place *Place, op token.Token, init *Expr) Stmt {
	t := place.Type
	if init.Untyped() {
		init.ConstTo(c.TypeOfUint64())
	} else if init.Type == nil || !reflect.IsCategory(init.Type.Kind(), r.Int, r.Uint) {
		c.Errorf("incompatible types in assignment: <%v> %s <%v>\\n\\treason: shift count must be integer", t, op, init.Type)
		return nil
	}
	shl := op == token.SHL || op == token.SHL_ASSIGN
	if init.Const() {
		count, ok := constAsUint64(init.Value)
		if !ok {
			c.Errorf("invalid shift amount: %v %s %v", t, op, init.Value)
			return nil
		}
		if shl {
			return c.placeShlConst(place, count)
		}
		return c.placeShrConst(place, count)
	}
	fun := init.AsUint64()
	if shl {
		return c.placeShlExpr(place, fun)
	}
	return c.placeShrExpr(place, fun)
}
''')
        # map element absent: MapIndex() returns the zero Value
        f = 'fast/place_shifts.' + ext
        s = t.read(f)
        assert s.count("lhs.MapIndex(key).Int()") >= 1 and s.count("lhs.MapIndex(key).Uint()") >= 1
        t.write(f, s.replace("lhs.MapIndex(key).Int()", "mapIndexInt(lhs, key)").replace("lhs.MapIndex(key).Uint()", "mapIndexUint(lhs, key)"))
    t.append('fast/assignment.go', '''
// mapIndexInt returns the signed integer stored in m[key], or zero if key is not present
func mapIndexInt(m xr.Value, key xr.Value) int64 {
	if v := m.MapIndex(key); v.IsValid() {
		return v.Int()
	}
	return 0
}

// mapIndexUint returns the unsigned integer stored in m[key], or zero if key is not present
func mapIndexUint(m xr.Value, key xr.Value) uint64 {
	if v := m.MapIndex(key); v.IsValid() {
		return v.Uint()
	}
	return 0
}
''')


def fix_ptr_complex128(t):
    f = 'fast/util.go'
    old1 = """	case func(*Env) *complex64:
		if rt == nil || rt == base.TypeOfPtrComplex64 {
			return func(env *Env) xr.Value {
				return xr.ValueOf(fun(env))
			}
		} else {
			return func(env *Env) xr.Value {
				return convert(xr.ValueOf(fun(env)), rt)
			}
		}
"""
    t.sub(f, old1, old1 + old1.replace("complex64", "complex128").replace("Complex64", "Complex128"))
    old2 = """	case func(*Env) *complex64:
		if rt == nil || rt == base.TypeOfPtrComplex64 {
			return func(env *Env) (xr.Value, []xr.Value) {
				return xr.ValueOf(fun(env)), nil
			}
		} else {
			return func(env *Env) (xr.Value, []xr.Value) {
				return convert(xr.ValueOf(fun(env)), rt), nil
			}
		}
"""
    t.sub(f, old2, old2 + old2.replace("complex64", "complex128").replace("Complex64", "Complex128"))


def fix_uint64_depth3(t):
    t.sub('fast/identifier.go', "\t\t\t\tenv = env.Up(upn)\n\t\t\t\treturn env.Outer.Outer.Ints[idx]\n", "\t\t\t\tenv = env.Up(upn)\n\t\t\t\treturn env.Ints[idx]\n")


def fix_const_shortcuts(t):
    t.sub('fast/literal.go', "func isLiteralNumber(x I, n int64) bool {", '''// isLiteralInteger returns true if x is a signed or unsigned integer literal equal to n.
// Differently from isLiteralNumber, it returns false for floating point and complex literals:
// arithmetic shortcuts as x * 0 => 0, x + 0 => x, x * 1 => x are exact only on integers.
// For example NaN * 0 is NaN, -0.0 + 0 is +0.0 and complex(Inf, 0) * 1 is complex(Inf, NaN)
func isLiteralInteger(x I, n int64) bool {
	if x == nil {
		return false
	}
	switch reflect.Category(xr.ValueOf(x).Kind()) {
	case xr.Int, xr.Uint:
		return isLiteralNumber(x, n)
	}
	return false
}

func isLiteralNumber(x I, n int64) bool {''')
    z01 = [("isLiteralNumber(val, 0)", "isLiteralInteger(val, 0)"), ("isLiteralNumber(val, 1)", "isLiteralInteger(val, 1)")]
    for ext in ('go', 'gomacro'):
        vo, po, ps = 'fast/var_ops.' + ext, 'fast/place_ops.' + ext, 'fast/place_shifts.' + ext
        t.sub(vo, "func (c *Comp) varAddConst(va *Var, val I) Stmt {\n\tif isLiteralNumber(val, 0) || val == \"\" {", "func (c *Comp) varAddConst(va *Var, val I) Stmt {\n\tif isLiteralInteger(val, 0) || val == \"\" {")
        t.sub(po, "func (c *Comp) placeAddConst(place *Place, val I) Stmt {\n\tif isLiteralNumber(val, 0) || val == \"\" {", "func (c *Comp) placeAddConst(place *Place, val I) Stmt {\n\tif isLiteralInteger(val, 0) || val == \"\" {")
        t.subseg(vo, "func (c *Comp) varMulConst(", "t := va.Type", z01)
        t.subseg(vo, "func (c *Comp) varQuoPow2(", "ypositive := true", z01)
        t.subseg(vo, "func (c *Comp) varQuoPow2(", "upn := va.Upn", [("\tshift := integerLen(y) - 1\n",
                 "\tif va.Desc.Class() != IntBind {\n\t\t// the optimized code below only supports variables stored in Env.Ints\n\t\treturn nil\n\t}\n\tshift := integerLen(y) - 1\n")])
        t.subseg(vo, "func (c *Comp) varQuoConst(", "c.varQuoPow2(va, val)", z01 + [("} else if isLiteralNumber(val, -1) {",
                 "} else if reflect.Category(va.Type.Kind()) == r.Int && isLiteralNumber(val, -1) {\n\t\t// signed integers only: isLiteralNumber(val, -1) is also true if val is the maximum uint64,\n\t\t// and complex division by -1 differs from multiplication by -1 in the sign of zeroes")])
        end = "\n}" if ext == 'gomacro' else "\n\t{\n"
        t.subseg(po, "func (c *Comp) placeMulConst(", end, z01)
        t.subseg(po, "func (c *Comp) placeQuoConst(", end, z01)
        t.subseg(ps, "func (c *Comp) placeQuoPow2(", "ypositive := true", z01)


def fix_noop_side_effects(t):
    t.sub('fast/assignment.go', """	var ret Stmt
	fun := place.Fun
	if mapkey := place.MapKey; mapkey != nil {
		ret = func(env *Env) (Stmt, *Env) {
			fun(env)
			mapkey(env)
			// no need to call obj.MapIndex(key): it has no side effects and cannot panic.
			// obj := fun(env)
			// key := mapkey(env)
			// obj.MapIndex(key)
			env.IP++
			return env.Code[env.IP], env
		}
	} else {
		ret = func(env *Env) (Stmt, *Env) {
			fun(env)
			env.IP++
			return env.Code[env.IP], env
		}
	}
	return ret""", """	var ret Stmt
	fun := place.Fun
	if mapkey := place.MapKey; mapkey != nil {
		zero := xr.Zero(place.Type)
		ret = func(env *Env) (Stmt, *Env) {
			obj := fun(env)
			key := mapkey(env)
			// map[key] += 0 and similar do have an effect if key is not present:
			// they add it to the map (and panic if the map is nil)
			if !obj.MapIndex(key).IsValid() {
				obj.SetMapIndex(key, zero)
			}
			env.IP++
			return env.Code[env.IP], env
		}
	} else {
		ret = func(env *Env) (Stmt, *Env) {
			if !fun(env).IsValid() {
				// place is *ptr or ptr.field, and ptr is nil
				panic(nilPointerDereference)
			}
			env.IP++
			return env.Code[env.IP], env
		}
	}
	return ret""")
    old = 'var negativeShiftAmount = fmt.Errorf("runtime error: negative shift amount")\n'
    t.sub('fast/util.go', old, old + 'var nilPointerDereference = fmt.Errorf("runtime error: invalid memory address or nil pointer dereference")\n')


def fix_assign2_blank(t):
    t.sub('fast/assignment.go', """	if ln == 2 && rn == 2 && assign[0].placekey == nil && assign[1].placekey == nil {
		c.assign2(assign, exprfuns)""", """	// assign2 does not support assigning to _ (both setvar and setplace are nil)
	blank0 := assign[0].setvar == nil && assign[0].setplace == nil
	blank1 := assign[1].setvar == nil && assign[1].setplace == nil
	if ln == 2 && rn == 2 && assign[0].placekey == nil && assign[1].placekey == nil && !blank0 && !blank1 {
		c.assign2(assign, exprfuns)""")


def fix_incdec(t):
    t.sub('fast/statement.go', """	place := c.Place(node.X)
	op := node.Tok
	if op == token.DEC {""", """	place := c.Place(node.X)
	op := node.Tok
	if place.Type == nil || !reflect.IsCategory(place.Type.Kind(), r.Int, r.Uint, r.Float64, r.Complex128) {
		c.Errorf("invalid operation: %v%s (non-numeric type %v)", node.X, op, place.Type)
	}
	if op == token.DEC {""")
    old = '\t"github.com/cosmos72/gomacro/base/output"\n'
    t.sub('fast/statement.go', old, old + '\t"github.com/cosmos72/gomacro/base/reflect"\n')


def fix_place_index_kind(t):
    old = """	idxconst := idx.Const()
	if idxconst {
		idx.ConstTo(c.TypeOfInt())
	} else if idx.Type == nil || !idx.Type.AssignableTo(c.TypeOfInt()) {
		c.Errorf("non-integer %s index: %v <%v>", obj.Type.Kind(), node.Index, idx.Type)
	}
"""
    new = """	// as in vectorIndex(): the index can be an untyped constant or have any integer type
	if idx.Untyped() {
		idx.ConstTo(c.TypeOfInt())
	} else if idx.Type != nil && reflect.IsCategory(idx.Type.Kind(), r.Int, r.Uint) {
		if !c.TypeOfInt().IdenticalTo(idx.Type) {
			idx = c.convert(idx, c.TypeOfInt(), node.Index)
		}
	} else {
		c.Errorf("non-integer %s index: %v <%v>", obj.Type.Kind(), node.Index, idx.Type)
	}
	idxconst := idx.Const()
"""
    for ext in ('go', 'gomacro'):
        t.sub('fast/index.' + ext, old, new, 2)


FIXES = [
    ('C02-place-xor-and-shift-dispatch', fix_place_dispatch),
    ('C02-address-of-complex128-variable', fix_ptr_complex128),
    ('C02-uint64-variable-read-at-depth3', fix_uint64_depth3),
    ('C02-constant-operand-shortcuts', fix_const_shortcuts),
    ('C02-noop-assignment-side-effects', fix_noop_side_effects),
    ('C02-assign2-blank-place', fix_assign2_blank),
    ('C02-place-index-of-any-integer-type', fix_place_index_kind),
    ('C02-incdec-non-numeric', fix_incdec),
]

if __name__ == '__main__':
    os.makedirs(OUT, exist_ok=True)
    extra = []
    sys.path.insert(0, os.path.dirname(__file__))
    try:
        import mkfixes_c03
        extra = mkfixes_c03.FIXES
    except ImportError:
        pass
    allt = Tree('ALL')
    for name, fn in FIXES + extra:
        t = Tree(name)
        fn(t)
        open(os.path.join(OUT, name + '.diff'), 'w').write(t.diff())
        fn(allt)
        print('wrote', name)
    os.makedirs('/root/scratch/A2/fixall', exist_ok=True)
    open('/root/scratch/A2/fixall/all.diff', 'w').write(allt.diff())
    print('combined ok')
