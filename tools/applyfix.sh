#!/bin/bash
# tools/applyfix.sh <diff> "<commit message starting with fix:>" — applies a fix diff to /repo, builds, commits.
set -eu
D="$(realpath "$1")"; MSG="$2"
cd /repo
patch -p1 -s < "$D"
find . -name '*.orig' -delete
export GOFLAGS=-mod=mod GOPROXY=off GOSUMDB=off GOTOOLCHAIN=local
go build ./... 
git add -A
git commit -qm "$MSG"
git log --oneline | head -1
