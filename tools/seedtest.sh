#!/bin/bash
# tools/seedtest.sh <seeded/dir> <CHECK-ID>...  — runs the given checks (quick) against a seeded change through an overlay (/repo untouched)
set -u
cd "$(dirname "$0")/.."
S="$1"; shift
OVL=$(tools/mkoverlay.sh "$S/patch.diff" "/root/scratch/ovl-$(basename $S)") || { echo "overlay failed for $S"; exit 2; }
for id in "$@"; do
  out=$(VERIF_OVERLAY=$OVL timeout 1800 ./run.sh "$id" quick 2>&1)
  n=$(echo "$out" | grep -c '^VIOLATION')
  echo "$(basename $S) vs $id: violations_lines=$n :: $(echo "$out" | tail -1 | cut -c1-160)"
  echo "$out" | grep -A1 '^VIOLATION' | grep signature | sort | uniq -c | head -3
done
rm -rf "/root/scratch/ovl-$(basename $S)"
