#!/usr/bin/env python3
"""Writes seeded/<name>/meta.json for every seeded change and prints the markdown table for DESIGN.md 8.7
from seeded/RESULTS.jsonl (last result per (seed, check) wins)."""
import json, os, re, glob
here = os.path.join(os.path.dirname(os.path.abspath(__file__)), '..')
res = {}
p = os.path.join(here, 'seeded', 'RESULTS.jsonl')
if os.path.exists(p):
    for l in open(p):
        try: j = json.loads(l)
        except Exception: continue
        if 'check' in j: res[(j['seed'], j['check'])] = j
first = json.load(open(os.path.join(here, 'seeded', 'FIRST_RUN.json')))
rows = []
NOTES = {
 'C39-stale-imports': 'reported by C39 (multi-argument invocation shapes) on the tree it was written for; the later fix 9b0edd9 (EvalFile resets the collected imports itself - the genuine directory-argument leak the same check found) makes the removed reset in Main redundant, so on the current tree this change no longer alters behaviour and C39 rightly exits 0',
}
for d in sorted(glob.glob(os.path.join(here, 'seeded', 'C*-*'))):
    n = os.path.basename(d); prop = n[:3]
    readme = os.path.join(d, 'README.md')
    needs = ''
    if os.path.exists(readme):
        txt = open(readme).read()
        m = re.search(r'(?is)(what it takes|what triggers|trigger|needs|to manifest)[^\n]*\n(.{40,600}?)\n\s*\n', txt)
        if m: needs = ' '.join(m.group(2).split())[:400]
    now = {c: r for (s, c), r in res.items() if s == n}
    caught_by = sorted(c for c, r in now.items() if r.get('violation_lines', 0) > 0 and r.get('exit') == 1)
    sig = next((r['first_signature'] for c, r in now.items() if c in caught_by and r.get('first_signature')), '')
    meta_path = os.path.join(d, 'meta.json')
    meta = json.load(open(meta_path)) if os.path.exists(meta_path) else {}
    meta.update({
        'property': prop,
        'source': 'independent sub-agent given only the property text and a scratch worktree of /repo',
        'needs_to_manifest': meta.get('needs_to_manifest') or needs or 'see README.md',
        'confirmed': "the author's README.md records: patch applies, builds, repository suite unchanged with it, demo fails with / passes without the patch",
        'checked_with': 'tools/seedtest.sh seeded/%s %s  (go build -overlay; /repo untouched)' % (n, prop),
        'first_run': first.get(n, 'caught'),
        'final_run': {c: {'exit': r.get('exit'), 'violation_lines': r.get('violation_lines'), 'first_signature': r.get('first_signature')} for c, r in now.items()},
        'detected_by': caught_by,
        'note': NOTES.get(n, meta.get('note', '')),
    })
    json.dump(meta, open(meta_path, 'w'), indent=1)
    rows.append((n, first.get(n, 'caught'), ', '.join(caught_by) or ('no longer a behavioural change (see note)' if n in NOTES else 'NOT DETECTED'), sig))
print('| seeded change | first run of the check | final: detected by | signature (first) |')
print('|---|---|---|---|')
for r in rows: print('| %s | %s | %s | `%s` |' % r)
print()
print('total %d, detected at first run %d, detected finally %d' % (len(rows), sum(1 for r in rows if r[1] == 'caught'), sum(1 for r in rows if r[2] != 'NOT DETECTED')))
