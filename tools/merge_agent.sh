#!/bin/bash
# tools/merge_agent.sh <agent-name>: copy an agent worktree's deliverables into /verif (new files only; reports modified shared files)
set -u
A="$1"; W=/root/agents/$A
cd "$W" || exit 1
# files that differ from the agent's base or are untracked
FILES=$( (git diff --name-only 0d2f082 HEAD 2>/dev/null; git diff --name-only; git ls-files --others --exclude-standard) | sort -u)
for f in $FILES; do
  case "$f" in
    evidence/*|replays/*|work/*|bin/*|.cache/*) continue;;
  esac
  [ -f "$W/$f" ] || continue
  if [ -f "/verif/$f" ]; then
    if ! cmp -s "$W/$f" "/verif/$f"; then
      # existed in /verif: shared file modified by the agent?
      if git -C /verif cat-file -e 0d2f082:"$f" 2>/dev/null && ! git -C "$W" diff --quiet 0d2f082 -- "$f" 2>/dev/null; then echo "SHARED-MODIFIED $f"; else echo "DIFFERS (kept /verif) $f"; fi
    fi
    continue
  fi
  mkdir -p "/verif/$(dirname "$f")"; cp "$W/$f" "/verif/$f"; echo "copied $f"
done
