// Package native is the "compiled Go" oracle for operators on basic kinds: every function here
// is a generic Go function whose body is the plain Go operator; it is instantiated once per basic
// kind (each basic kind is its own GC shape), so the reference result of `a OP b` is computed by the
// Go compiler's own code generation for that operator and kind. No table, no re-implementation.
package native

type Signed interface {
	~int | ~int8 | ~int16 | ~int32 | ~int64
}
type Unsigned interface {
	~uint | ~uint8 | ~uint16 | ~uint32 | ~uint64 | ~uintptr
}
type Integer interface{ Signed | Unsigned }
type Float interface{ ~float32 | ~float64 }
type Complex interface{ ~complex64 | ~complex128 }
type Number interface{ Integer | Float | Complex }
type Ordered interface{ Integer | Float | ~string }
type Addable interface{ Number | ~string }

func Add[T Addable](a, b T) T    { return a + b }
func Sub[T Number](a, b T) T     { return a - b }
func Mul[T Number](a, b T) T     { return a * b }
func Quo[T Number](a, b T) T     { return a / b }
func Rem[T Integer](a, b T) T    { return a % b }
func And[T Integer](a, b T) T    { return a & b }
func Or[T Integer](a, b T) T     { return a | b }
func Xor[T Integer](a, b T) T    { return a ^ b }
func AndNot[T Integer](a, b T) T { return a &^ b }

func Shl[T Integer, U Integer](a T, n U) T { return a << n }
func Shr[T Integer, U Integer](a T, n U) T { return a >> n }

func Eql[T comparable](a, b T) bool { return a == b }
func Neq[T comparable](a, b T) bool { return a != b }
func Lss[T Ordered](a, b T) bool    { return a < b }
func Leq[T Ordered](a, b T) bool    { return a <= b }
func Gtr[T Ordered](a, b T) bool    { return a > b }
func Geq[T Ordered](a, b T) bool    { return a >= b }

func Pos[T Number](a T) T  { return +a }
func Neg[T Number](a T) T  { return -a }
func Com[T Integer](a T) T { return ^a }

func Land(a, b bool) bool { return a && b }
func Lor(a, b bool) bool  { return a || b }
func Not(a bool) bool     { return !a }

// Cmp is the three-way comparison built from the Go operators < and >.
func Cmp[T Ordered](a, b T) int {
	if a < b {
		return -1
	}
	if a > b {
		return 1
	}
	return 0
}

// ---- operator tables (operator spelling -> instantiated function) ----

func IntegerOps[T Integer]() map[string]func(T, T) T {
	return map[string]func(T, T) T{"+": Add[T], "-": Sub[T], "*": Mul[T], "/": Quo[T], "%": Rem[T],
		"&": And[T], "|": Or[T], "^": Xor[T], "&^": AndNot[T]}
}

func FloatOps[T Float]() map[string]func(T, T) T {
	return map[string]func(T, T) T{"+": Add[T], "-": Sub[T], "*": Mul[T], "/": Quo[T]}
}

func ComplexOps[T Complex]() map[string]func(T, T) T {
	return map[string]func(T, T) T{"+": Add[T], "-": Sub[T], "*": Mul[T], "/": Quo[T]}
}

func StringOps[T ~string]() map[string]func(T, T) T {
	return map[string]func(T, T) T{"+": Add[T]}
}

func OrderedCmp[T Ordered]() map[string]func(T, T) bool {
	return map[string]func(T, T) bool{"==": Eql[T], "!=": Neq[T], "<": Lss[T], "<=": Leq[T], ">": Gtr[T], ">=": Geq[T]}
}

func EqualCmp[T comparable]() map[string]func(T, T) bool {
	return map[string]func(T, T) bool{"==": Eql[T], "!=": Neq[T]}
}

func BoolOps() map[string]func(bool, bool) bool {
	return map[string]func(bool, bool) bool{"&&": Land, "||": Lor}
}

func ShiftOps[T Integer, U Integer]() map[string]func(T, U) T {
	return map[string]func(T, U) T{"<<": Shl[T, U], ">>": Shr[T, U]}
}

// Unary operators are exposed as binary functions ignoring the second operand (spelling "u-", "u+", "u^", "u!").
func IntegerUnary[T Integer]() map[string]func(T, T) T {
	return map[string]func(T, T) T{
		"u+": func(a, _ T) T { return Pos(a) },
		"u-": func(a, _ T) T { return Neg(a) },
		"u^": func(a, _ T) T { return Com(a) }}
}

func FloatUnary[T Float]() map[string]func(T, T) T {
	return map[string]func(T, T) T{
		"u+": func(a, _ T) T { return Pos(a) },
		"u-": func(a, _ T) T { return Neg(a) }}
}

func ComplexUnary[T Complex]() map[string]func(T, T) T {
	return map[string]func(T, T) T{
		"u+": func(a, _ T) T { return Pos(a) },
		"u-": func(a, _ T) T { return Neg(a) }}
}

func BoolUnary() map[string]func(bool, bool) bool {
	return map[string]func(bool, bool) bool{"u!": func(a, _ bool) bool { return Not(a) }}
}
