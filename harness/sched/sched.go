// Package sched is a cooperative scheduler plus a preemption-bounded DFS over its choices
// (stateless model checking of the real code). Threads are real goroutines; each parks at
// Point() and exactly the threads of one chosen Action run between two decisions.
package sched

import (
	"fmt"
	"os"
	"runtime"
	"sort"
	"sync"
	"time"

	gatomic "github.com/cosmos72/gomacro/atomic"
	"github.com/cosmos72/gomacro/gls"
)

// Op describes what a parked thread is about to do. The scenario's model decides enabledness from it.
type Op struct {
	Kind string      // e.g. "lock", "spin", "send", "recv", "start", "call"
	Obj  interface{} // the lock / channel / whatever the model needs
	Arg  interface{}
}

// Action is one scheduling decision: release these threads (usually one; a rendezvous pair for unbuffered channels).
type Action struct {
	Tids  []int  // threads to release, Tids[0] is the primary one (preemption accounting)
	Label string // canonical description (used for ordering, traces and replay files)
	Data  interface{}
}

// Model is the scenario-specific part.
type Model interface {
	// Enabled lists the enabled actions in canonical order given the parked threads (tid -> pending op).
	Enabled(parked map[int]Op) []Action
	// Fire is called right before the action's threads are released (update the model, check invariants).
	Fire(a Action, parked map[int]Op)
}

type thread struct {
	id    int
	name  string
	wake  chan bool // true = go on, false = abort
	state int       // 0 running, 1 parked, 2 done
	op    Op
	kids  int
}

const (
	stRunning = iota
	stParked
	stDone
)

// ChoicePoint records one decision of an execution.
type ChoicePoint struct {
	Enabled        []string // labels
	Chosen         int
	RunningEnabled bool // the previously running thread could have continued (choosing another action is a preemption)
	RunningIdx     int  // index of the running thread's action in Enabled, -1 if none
}

// Execution is the result of one schedule.
type Execution struct {
	Choices  []int
	Points   []ChoicePoint
	Deadlock bool     // no enabled action while some thread was not finished
	Blocked  []string // "<thread>@<op>" of threads parked at deadlock
	Stuck    string   // non-empty: a released thread did not come back (harness/implementation error)
	Diverged string   // non-empty: replay of the prefix was impossible
	Steps    int
}

// S is one scheduler instance = one execution.
type S struct {
	mu       sync.Mutex
	cond     *sync.Cond
	threads  map[int]*thread
	byGoid   map[uintptr]*thread
	nextTid  int
	running  int // threads currently running (released, not yet parked/done) + pending spawns
	model    Model
	prefix   []int
	exec     *Execution
	last     int // tid that ran last
	aborting bool
	horizon  int
	// spawn handshake
	spawnMu     sync.Mutex
	pendingName string
	pendingKid  *thread
	StuckAfter  time.Duration
	live        sync.WaitGroup
	holder      map[*gatomic.SpinLock]int
}

var (
	curMu sync.Mutex
	cur   *S
)

// Current returns the scheduler of the execution in progress (nil outside RunOnce).
func Current() *S { curMu.Lock(); defer curMu.Unlock(); return cur }

// self returns the calling goroutine's thread (nil for goroutines the scheduler does not own).
func (s *S) self() *thread {
	id := gls.GoID()
	s.mu.Lock()
	t := s.byGoid[id]
	s.mu.Unlock()
	return t
}

// ChoicesSoFar returns a copy of the decisions taken so far in this execution.
func (s *S) ChoicesSoFar() []int {
	s.mu.Lock()
	defer s.mu.Unlock()
	return append([]int{}, s.exec.Choices...)
}

// Tid returns the calling thread's id, or -1.
func (s *S) Tid() int {
	if t := s.self(); t != nil {
		return t.id
	}
	return -1
}

// Name returns the calling thread's canonical name ("0", "0.1", "0.1.1": k-th child of its parent).
func (s *S) Name() string {
	if t := s.self(); t != nil {
		return t.name
	}
	return "?"
}

// Point parks the calling thread until the explorer schedules it. Calls from foreign goroutines are ignored.
func (s *S) Point(op Op) {
	t := s.self()
	if t == nil {
		return
	}
	s.mu.Lock()
	if s.aborting {
		s.mu.Unlock()
		return // execution is over: let the thread unwind freely
	}
	t.op = op
	t.state = stParked
	s.running--
	s.cond.Broadcast()
	s.mu.Unlock()
	if ok := <-t.wake; !ok {
		runtime.Goexit()
	}
}

// PointOK is Point for hooks called from interpreted code: instead of terminating the goroutine when the
// execution is aborted it returns false, so that the caller can unwind through the interpreter with a panic.
func (s *S) PointOK(op Op) bool {
	t := s.self()
	if t == nil {
		return true
	}
	s.mu.Lock()
	if s.aborting {
		s.mu.Unlock()
		return false
	}
	t.op = op
	t.state = stParked
	s.running--
	s.cond.Broadcast()
	s.mu.Unlock()
	return <-t.wake
}

// Spawn is called by a parent thread right before it starts a child goroutine; Spawned right after.
func (s *S) Spawn() {
	t := s.self()
	if t == nil {
		return
	}
	s.spawnMu.Lock()
	s.mu.Lock()
	t.kids++
	s.pendingName = fmt.Sprintf("%s.%d", t.name, t.kids)
	s.pendingKid = nil
	s.running++ // the child counts as running until it parks at its start point
	s.mu.Unlock()
}

func (s *S) Spawned() {
	t := s.self()
	if t == nil {
		return
	}
	// wait until the child has registered itself
	s.mu.Lock()
	for s.pendingKid == nil && !s.aborting {
		s.cond.Wait()
	}
	s.pendingName = ""
	s.mu.Unlock()
	s.spawnMu.Unlock()
}

// ThreadStart is the first thing a spawned goroutine does: register and park.
func (s *S) ThreadStart() {
	s.mu.Lock()
	if s.pendingName == "" || s.pendingKid != nil {
		s.mu.Unlock()
		return // not a goroutine started under Spawn/Spawned: foreign
	}
	t := &thread{id: s.nextTid, name: s.pendingName, wake: make(chan bool, 1), state: stRunning}
	s.live.Add(1)
	s.nextTid++
	s.threads[t.id] = t
	s.byGoid[gls.GoID()] = t
	s.pendingKid = t
	s.cond.Broadcast()
	s.mu.Unlock()
	s.Point(Op{Kind: "start"})
}

// ThreadExit is the last thing a thread does.
func (s *S) ThreadExit() {
	t := s.self()
	if t == nil {
		return
	}
	s.mu.Lock()
	if t.state != stDone {
		if t.state == stRunning && !s.aborting {
			s.running--
		}
		t.state = stDone
	}
	if _, ok := s.byGoid[gls.GoID()]; ok {
		delete(s.byGoid, gls.GoID())
		if t.id != 0 {
			s.live.Done()
		}
	}
	s.cond.Broadcast()
	s.mu.Unlock()
}

// Go starts a harness-level thread (used for the main thread and for "foreign" goroutines that the
// scenario itself creates): f runs as a scheduled thread.
func (s *S) Go(f func()) {
	s.Spawn()
	go func() {
		s.ThreadStart()
		defer s.ThreadExit()
		f()
	}()
	s.Spawned()
}

// RunOnce executes body as thread "0" under the schedule given by prefix (then choice 0 everywhere).
func RunOnce(model Model, prefix []int, horizon int, body func(s *S)) *Execution {
	s := &S{threads: map[int]*thread{}, byGoid: map[uintptr]*thread{}, model: model, prefix: prefix,
		exec: &Execution{}, last: -1, horizon: horizon, StuckAfter: 90 * time.Second}
	s.cond = sync.NewCond(&s.mu)
	curMu.Lock()
	cur = s
	curMu.Unlock()
	defer func() {
		curMu.Lock()
		cur = nil
		curMu.Unlock()
	}()
	main := &thread{id: 0, name: "0", wake: make(chan bool, 1), state: stRunning}
	s.threads[0] = main
	s.nextTid = 1
	s.running = 1
	done := make(chan struct{})
	go func() {
		defer close(done)
		s.mu.Lock()
		s.byGoid[gls.GoID()] = main
		s.mu.Unlock()
		defer s.ThreadExit()
		body(s)
	}()
	s.loop()
	// wait for every thread's goroutine to be gone (they may have been aborted), so that
	// nothing of this execution runs concurrently with the next one
	all := make(chan struct{})
	go func() { <-done; s.live.Wait(); close(all) }()
	select {
	case <-all:
	case <-time.After(s.StuckAfter):
		if s.exec.Stuck == "" {
			s.exec.Stuck = "threads did not terminate after the end of the execution"
		}
	}
	return s.exec
}

func (s *S) waitQuiescent() bool {
	deadline := time.Now().Add(s.StuckAfter)
	timer := time.AfterFunc(s.StuckAfter+time.Second, func() { s.mu.Lock(); s.cond.Broadcast(); s.mu.Unlock() })
	defer timer.Stop()
	for s.running > 0 {
		if time.Now().After(deadline) {
			return false
		}
		s.cond.Wait()
	}
	return true
}

func (s *S) loop() {
	s.mu.Lock()
	defer s.mu.Unlock()
	for {
		if !s.waitQuiescent() {
			var who []string
			for _, t := range s.threads {
				if t.state == stRunning {
					who = append(who, t.name)
				}
			}
			sort.Strings(who)
			s.exec.Stuck = fmt.Sprintf("released thread(s) %v did not reach the next scheduling point within %v", who, s.StuckAfter)
			if os.Getenv("VERIF_STUCK_DUMP") != "" {
				buf := make([]byte, 1<<20)
				n := runtime.Stack(buf, true)
				os.Stderr.Write(buf[:n])
			}
			s.abortLocked()
			return
		}
		parked := map[int]Op{}
		alive := 0
		for _, t := range s.threads {
			if t.state == stParked {
				parked[t.id] = t.op
				alive++
			}
		}
		if alive == 0 {
			return // all threads finished
		}
		s.mu.Unlock()
		acts := s.model.Enabled(parked)
		s.mu.Lock()
		if len(acts) == 0 {
			s.exec.Deadlock = true
			var ids []int
			for id := range parked {
				ids = append(ids, id)
			}
			sort.Ints(ids)
			for _, id := range ids {
				s.exec.Blocked = append(s.exec.Blocked, fmt.Sprintf("%s@%s", s.threads[id].name, parked[id].Kind))
			}
			s.abortLocked()
			return
		}
		if s.exec.Steps >= s.horizon {
			s.exec.Stuck = fmt.Sprintf("horizon of %d steps exceeded", s.horizon)
			s.abortLocked()
			return
		}
		cp := ChoicePoint{RunningIdx: -1}
		for i, a := range acts {
			cp.Enabled = append(cp.Enabled, a.Label)
			if a.Tids[0] == s.last && cp.RunningIdx < 0 {
				cp.RunningIdx = i
				cp.RunningEnabled = true
			}
		}
		k := len(s.exec.Choices)
		choice := 0
		if k < len(s.prefix) {
			choice = s.prefix[k]
			if choice >= len(acts) {
				s.exec.Diverged = fmt.Sprintf("replay divergence at step %d: choice %d of %d enabled %v", k, choice, len(acts), cp.Enabled)
				s.abortLocked()
				return
			}
		} else if cp.RunningEnabled {
			choice = cp.RunningIdx // default: keep running the same thread (no preemption)
		}
		cp.Chosen = choice
		s.exec.Choices = append(s.exec.Choices, choice)
		s.exec.Points = append(s.exec.Points, cp)
		s.exec.Steps++
		a := acts[choice]
		s.mu.Unlock()
		s.model.Fire(a, parked)
		s.mu.Lock()
		s.last = a.Tids[0]
		for _, id := range a.Tids {
			t := s.threads[id]
			t.state = stRunning
			s.running++
		}
		for _, id := range a.Tids {
			s.threads[id].wake <- true
		}
	}
}

func (s *S) abortLocked() {
	s.aborting = true
	for _, t := range s.threads {
		if t.state == stParked {
			t.state = stDone
			t.wake <- false
		}
	}
	s.cond.Broadcast()
}

// ---------------------------------------------------------------------------
// exploration

// Explorer enumerates all schedules of a scenario within a preemption bound.
type Explorer struct {
	Bound      int // max preemptions; <0 = unbounded
	MaxExecs   int // cap (0 = none); hitting it is reported through Capped
	Run        func(prefix []int) *Execution
	Check      func(x *Execution) // called for every complete execution
	Executions int
	Capped     bool
	MaxPoints  int
	Stop       func() bool
}

func preemptionsBefore(x *Execution, i int) int {
	n := 0
	for j := 0; j < i; j++ {
		p := x.Points[j]
		if p.RunningEnabled && p.Chosen != p.RunningIdx {
			n++
		}
	}
	return n
}

// Explore runs the DFS from the given prefix.
func (e *Explorer) Explore(prefix []int) {
	if e.Capped {
		return
	}
	if (e.MaxExecs > 0 && e.Executions >= e.MaxExecs) || (e.Stop != nil && e.Stop()) {
		e.Capped = true
		return
	}
	x := e.Run(prefix)
	e.Executions++
	if len(x.Points) > e.MaxPoints {
		e.MaxPoints = len(x.Points)
	}
	e.Check(x)
	if x.Diverged != "" || x.Stuck != "" {
		return
	}
	for i := len(prefix); i < len(x.Points); i++ {
		p := x.Points[i]
		base := preemptionsBefore(x, i)
		for alt := 0; alt < len(p.Enabled); alt++ {
			if alt == p.Chosen {
				continue
			}
			cost := base
			if p.RunningEnabled && alt != p.RunningIdx {
				cost++
			}
			if e.Bound >= 0 && cost > e.Bound {
				continue
			}
			np := append(append([]int{}, x.Choices[:i]...), alt)
			e.Explore(np)
			if e.Capped {
				return
			}
		}
	}
}
