package sched

import (
	r "reflect"
	"sync"

	gatomic "github.com/cosmos72/gomacro/atomic"
	"github.com/cosmos72/gomacro/fast"
	"github.com/cosmos72/gomacro/gls"
)

// SelectAborted is the panic value raised inside an interpreted select when the execution is aborted at its scheduling point.
type SelectAborted struct{}

// Callbacks are the scenario-level observers of the gomacro hooks (all optional).
type Callbacks struct {
	GoID    func(s *S, tid int, real uintptr) uintptr
	Owner   func(s *S, tid int, run *fast.Run, runGoid, goid uintptr)
	Access  func(s *S, tid int, g *fast.IrGlobals, write, locked bool)
	Select  func(s *S, tid int, cases []r.SelectCase) []r.SelectCase
	FreeEnv func(env *fast.Env)
	// Alloc observes every frame taken from a pool (function body or nested block)
	Alloc func(s *S, tid int, env *fast.Env, run *fast.Run, runGoid uintptr)
	// LockPoints: make spin-lock acquisition a scheduling point
	LockPoints bool
	// AllocPoints: make every frame allocation a scheduling point (after the Alloc callback)
	AllocPoints bool
	// SelectPoints: make the moment between filling the cases of a select and executing it a scheduling point
	SelectPoints bool
}

var (
	cbMu sync.Mutex
	cb   Callbacks
)

// Install sets the callbacks used by the gomacro hooks (process-wide).
func Install(c Callbacks) {
	cbMu.Lock()
	cb = c
	cbMu.Unlock()
	fast.VerifHooks.GoID = func(real uintptr) uintptr {
		if real != gls.GoID() {
			return real // not the caller's own identity (e.g. already virtual): leave it alone
		}
		if s := Current(); s != nil && cb.GoID != nil {
			if t := s.self(); t != nil {
				return cb.GoID(s, t.id, real)
			}
		}
		return real
	}
	fast.VerifHooks.Owner = func(run *fast.Run, runGoid, goid uintptr) {
		if s := Current(); s != nil && cb.Owner != nil {
			if t := s.self(); t != nil {
				cb.Owner(s, t.id, run, runGoid, goid)
			}
		}
	}
	fast.VerifHooks.Access = func(g *fast.IrGlobals, write, locked bool) {
		if s := Current(); s != nil && cb.Access != nil {
			if t := s.self(); t != nil {
				cb.Access(s, t.id, g, write, locked)
			}
		}
	}
	fast.VerifHooks.Select = func(cases []r.SelectCase) []r.SelectCase {
		if s := Current(); s != nil && cb.Select != nil {
			if t := s.self(); t != nil {
				if cb.SelectPoints && !s.PointOK(Op{Kind: "in-select"}) {
					panic(SelectAborted{})
				}
				return cb.Select(s, t.id, cases)
			}
		}
		return cases
	}
	fast.VerifHooks.Alloc = func(env *fast.Env, run *fast.Run, runGoid uintptr) {
		if s := Current(); s != nil && (cb.Alloc != nil || cb.AllocPoints) {
			if t := s.self(); t != nil {
				if cb.Alloc != nil {
					cb.Alloc(s, t.id, env, run, runGoid)
				}
				if cb.AllocPoints {
					s.Point(Op{Kind: "alloc"})
				}
			}
		}
	}
	fast.VerifHooks.FreeEnv = cb.FreeEnv
	fast.VerifHooks.Spawn = func() {
		if s := Current(); s != nil {
			s.Spawn()
		}
	}
	fast.VerifHooks.Spawned = func() {
		if s := Current(); s != nil {
			s.Spawned()
		}
	}
	fast.VerifHooks.ThreadStart = func() {
		if s := Current(); s != nil {
			s.ThreadStart()
		}
	}
	fast.VerifHooks.ThreadExit = func() {
		if s := Current(); s != nil {
			s.ThreadExit()
		}
	}
	gatomic.VerifLockHook = func(l *gatomic.SpinLock, op int) {
		s := Current()
		if s == nil || !cb.LockPoints {
			return
		}
		switch op {
		case 0:
			s.Point(Op{Kind: "lock", Obj: l})
		case 1:
			s.Point(Op{Kind: "spin", Obj: l})
		case 3:
			s.noteUnlock(l)
		}
	}
}

// lock holder bookkeeping (who passed the acquire point of which lock)
func (s *S) noteUnlock(l *gatomic.SpinLock) {
	if t := s.self(); t != nil {
		s.mu.Lock()
		if s.holder != nil && s.holder[l] == t.id {
			delete(s.holder, l)
		}
		s.mu.Unlock()
	}
}

// NoteLock records that thread tid is about to take lock l (called by models from Fire).
func (s *S) NoteLock(l *gatomic.SpinLock, tid int) {
	s.mu.Lock()
	if s.holder == nil {
		s.holder = map[*gatomic.SpinLock]int{}
	}
	s.holder[l] = tid
	s.mu.Unlock()
}

// Holder returns the thread holding l (-1 if none).
func (s *S) Holder(l *gatomic.SpinLock) int {
	s.mu.Lock()
	defer s.mu.Unlock()
	if id, ok := s.holder[l]; ok {
		return id
	}
	return -1
}

// LockFree reports whether the spin lock is currently free.
func LockFree(l *gatomic.SpinLock) bool { return *l == 0 }

// ThreadName returns the canonical name of thread tid.
func (s *S) ThreadName(tid int) string {
	s.mu.Lock()
	defer s.mu.Unlock()
	if t := s.threads[tid]; t != nil {
		return t.name
	}
	return "?"
}

// Alive reports whether thread tid exists and has not finished.
func (s *S) Alive(tid int) bool {
	s.mu.Lock()
	defer s.mu.Unlock()
	t := s.threads[tid]
	return t != nil && t.state != stDone
}

// DoneCount returns the number of finished threads.
func (s *S) DoneCount() int {
	s.mu.Lock()
	defer s.mu.Unlock()
	n := 0
	for _, t := range s.threads {
		if t.state == stDone {
			n++
		}
	}
	return n
}
