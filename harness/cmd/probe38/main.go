package main

import (
	"fmt"
	"os"
	"strings"

	"verif/harness/core"
	"verif/harness/props"
)

func main() {
	_ = core.VerifDir
	props.C38Probe(os.Args[1], func(id, line, want, got string) {
		fmt.Printf("%s\t%s\n\tgo:      %s\n\tclassic: %s\n", id, line, want, strings.ReplaceAll(got, "\n", " "))
	})
}
