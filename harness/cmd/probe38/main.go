package main

import (
	"fmt"
	"os"
	"sort"
	"strings"

	"verif/harness/core"
	"verif/harness/props"
)

// probe38 <id-prefix>            lists the failing programs whose id starts with the prefix ("<corpus>:<prefix>" restricts to one corpus)
// probe38 -sigs <corpus> [-v]    runs one corpus and groups the mismatches by signature
func main() {
	_ = core.VerifDir
	if os.Args[1] == "-why" {
		m := props.C38ProbeWhy(os.Args[2])
		var ks []string
		for k := range m {
			ks = append(ks, k)
		}
		sort.Strings(ks)
		for _, k := range ks {
			fmt.Printf("%6d  %q\n", m[k], k)
		}
		return
	}
	if os.Args[1] == "-sigs" {
		type ex struct {
			n                  int
			id, src, want, got string
		}
		m := map[string]*ex{}
		total := props.C38ProbeSigs(os.Args[2], func(sig, id, src, want, got string) {
			if m[sig] == nil {
				m[sig] = &ex{id: id, src: src, want: want, got: got}
			}
			m[sig].n++
		})
		var sigs []string
		for s := range m {
			sigs = append(sigs, s)
		}
		sort.Strings(sigs)
		bad := 0
		for _, s := range sigs {
			e := m[s]
			bad += e.n
			fmt.Printf("%5d  %s\n", e.n, s)
			if len(os.Args) > 3 {
				fmt.Printf("\t%s\n\tgo:      %s\n\tclassic: %s\n%s\n", e.id, e.want, strings.ReplaceAll(e.got, "\n", " "), e.src)
			}
		}
		fmt.Printf("programs %d, mismatches %d, signatures %d\n", total, bad, len(sigs))
		return
	}
	props.C38Probe(os.Args[1], func(id, line, want, got string) {
		fmt.Printf("%s\t%s\n\tgo:      %s\n\tclassic: %s\n", id, line, want, strings.ReplaceAll(got, "\n", " "))
	})
}
