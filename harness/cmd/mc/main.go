// Command mc runs the bounded-exhaustive checks of /verif against /repo.
package main

import (
	"os"

	"verif/harness/core"
	_ "verif/harness/props"
)

func main() { os.Exit(core.Main(os.Args[1:])) }
