// Command mc runs the bounded-exhaustive checks of /verif against /repo.
package main

import (
	"fmt"
	"os"

	"verif/harness/core"
	_ "verif/harness/props"
	"verif/harness/twin"
)

func main() {
	if len(os.Args) > 1 && os.Args[1] == "warm" {
		// first interpreter of a process loads export data of std packages through `go list -export`
		// (cached in GOCACHE afterwards): do it once at setup time
		ir := twin.NewFast()
		for _, p := range []string{"fmt", "strings", "sort", "errors", "io", "bytes", "strconv", "math", "sync", "bufio", "os", "time", "unicode", "container/heap", "math/big"} {
			if e := twin.Catch(func() { ir.Eval(fmt.Sprintf("import %q", p)) }); e != nil {
				fmt.Fprintln(os.Stderr, "warm: import", p, "failed:", e)
			}
		}
		return
	}
	os.Exit(core.Main(os.Args[1:]))
}
