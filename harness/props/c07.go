package props

// C07 — defer / panic / recover. Twin execution against compiled Go.
//
// A program is a call tree: every frame is a function with a (named) int result running a script of at most 3
// actions; deferred closures run scripts of at most 3 actions of their own, which may again defer (nested) or
// call a child frame. All trees whose total number of action nodes is within a budget are enumerated
// (small-scope: every combination of the alphabet up to that size), with frame depth <= 3.
// The event log (every frame entry/exit, every deferred call, every recover() result), the results
// returned by every call and the class of the panic escaping the program are compared with compiled Go.

import (
	"fmt"
	"os"
	"sort"
	"strings"

	"verif/harness/core"
	"verif/harness/oracle"
)

// frame-level actions
const (
	fDefer        = iota // defer func() { script }()
	fDeferLoop           // for i := 0; i < 2; i++ { defer func(i int) { script }(i) }
	fDeferMethod         // defer rv.Log() (value receiver: copied at defer time), rv modified afterwards
	fDeferPMethod        // defer pv.PLog() (pointer receiver: sees the later modification)
	fDeferMethRec        // defer rv.Rec(): the deferred method itself calls recover()
	fDeferClose          // defer close(ch)
	fDeferDelete         // defer delete(m, k)
	fDeferRecover        // defer recover(): recover is not called BY a deferred function, no effect
	fDeferPanic          // defer panic(v)
	fDeferArgs           // defer func(a int) {...}(res): argument evaluated at defer time
	fPanic               // panic(v)                         (last action only)
	fCall                // O(child())
	fSet                 // res = k
	fRet                 // return k                         (last action only)
	fNumActs
)

var c07FNames = [...]string{"Defer", "DeferLoop", "DeferMethod", "DeferPMethod", "DeferMethRec", "DeferClose", "DeferDelete", "DeferRecover", "DeferPanic", "DeferArgs", "Panic", "Call", "Set", "Ret"}

// actions inside a deferred closure
const (
	dRecover = iota // R(recover())
	dHelper         // R(helper()) where helper calls recover(): must return nil
	dRepanic        // if r := recover(); r != nil { R(r); panic(r) }
	dPanic          // panic(new value)      (last action only)
	dSet            // res += 100
	dNested         // defer func() { script }() inside the deferred closure
	dCall           // O(child()) from the deferred closure
	dNumActs
)

var c07DNames = [...]string{"recover", "helper", "repanic", "panic", "set", "nested", "call"}

type c07Act struct {
	Kind  int
	D     []c07DAct // script of the deferred closure (fDefer, fDeferLoop, fDeferArgs)
	Child *c07Frame // fCall
}

type c07DAct struct {
	Kind  int
	D     []c07DAct // dNested
	Child *c07Frame // dCall
}

type c07Frame struct {
	Acts []c07Act
}

// c07Opts restricts the alphabet of one family.
type c07Opts struct {
	unnamed bool // frames have an unnamed result: no Set / set actions
	facts   []int
	dacts   []int
}

type c07Enum struct {
	opts     c07Opts
	maxDepth int
}

func (e *c07Enum) frames(budget, depth int) []*c07Frame {
	var out []*c07Frame
	for _, acts := range e.actSeqs(budget, depth, 3) {
		out = append(out, &c07Frame{Acts: acts})
	}
	return out
}

type c07Seq struct {
	acts []c07Act
	cost int
}

func (e *c07Enum) actSeqs(budget, depth, maxLen int) [][]c07Act {
	var out [][]c07Act
	var rec func(prefix []c07Act, budget, left int)
	rec = func(prefix []c07Act, budget, left int) {
		out = append(out, append([]c07Act{}, prefix...))
		if left == 0 || budget == 0 {
			return
		}
		if n := len(prefix); n > 0 && (prefix[n-1].Kind == fPanic || prefix[n-1].Kind == fRet) {
			return // nothing may follow
		}
		for _, ac := range e.acts(budget, depth) {
			rec(append(prefix, ac.act), budget-ac.cost, left-1)
		}
	}
	rec(nil, budget, maxLen)
	return out
}

type c07CostAct struct {
	act  c07Act
	cost int
}

func (e *c07Enum) acts(budget, depth int) []c07CostAct {
	var out []c07CostAct
	for _, k := range e.opts.facts {
		switch k {
		case fDefer, fDeferLoop, fDeferArgs:
			for _, ds := range e.dSeqs(budget-1, depth, 3, 0) {
				out = append(out, c07CostAct{c07Act{Kind: k, D: ds.acts}, 1 + ds.cost})
			}
		case fCall:
			if depth < e.maxDepth {
				for _, ch := range e.framesCost(budget-1, depth+1) {
					out = append(out, c07CostAct{c07Act{Kind: k, Child: ch.f}, 1 + ch.cost})
				}
			}
		case fSet:
			if !e.opts.unnamed {
				out = append(out, c07CostAct{c07Act{Kind: k}, 1})
			}
		default:
			out = append(out, c07CostAct{c07Act{Kind: k}, 1})
		}
	}
	return out
}

type c07FrameCost struct {
	f    *c07Frame
	cost int
}

func (e *c07Enum) framesCost(budget, depth int) []c07FrameCost {
	var out []c07FrameCost
	for _, f := range e.frames(budget, depth) {
		out = append(out, c07FrameCost{f, f.cost()})
	}
	return out
}

func (f *c07Frame) cost() int {
	n := 0
	for _, a := range f.Acts {
		n += 1 + c07DCost(a.D)
		if a.Child != nil {
			n += a.Child.cost()
		}
	}
	return n
}

func c07DCost(ds []c07DAct) int {
	n := 0
	for _, d := range ds {
		n += 1 + c07DCost(d.D)
		if d.Child != nil {
			n += d.Child.cost()
		}
	}
	return n
}

type c07DSeq struct {
	acts []c07DAct
	cost int
}

func (e *c07Enum) dSeqs(budget, depth, maxLen, nest int) []c07DSeq {
	var out []c07DSeq
	var rec func(prefix []c07DAct, cost, budget, left int)
	rec = func(prefix []c07DAct, cost, budget, left int) {
		out = append(out, c07DSeq{append([]c07DAct{}, prefix...), cost})
		if left == 0 || budget <= 0 {
			return
		}
		if n := len(prefix); n > 0 && prefix[n-1].Kind == dPanic {
			return
		}
		for _, k := range e.opts.dacts {
			switch k {
			case dNested:
				if nest >= 2 {
					continue
				}
				for _, ds := range e.dSeqs(budget-1, depth, 2, nest+1) {
					rec(append(prefix, c07DAct{Kind: k, D: ds.acts}), cost+1+ds.cost, budget-1-ds.cost, left-1)
				}
			case dCall:
				if depth < e.maxDepth {
					for _, ch := range e.framesCost(budget-1, depth+1) {
						rec(append(prefix, c07DAct{Kind: k, Child: ch.f}), cost+1+ch.cost, budget-1-ch.cost, left-1)
					}
				}
			case dSet:
				if !e.opts.unnamed {
					rec(append(prefix, c07DAct{Kind: k}), cost+1, budget-1, left-1)
				}
			default:
				rec(append(prefix, c07DAct{Kind: k}), cost+1, budget-1, left-1)
			}
		}
	}
	rec(nil, 0, budget, maxLen)
	return out
}

// ---------------------------------------------------------------------------
// rendering

type c07Render struct {
	id      string
	unnamed bool
	vofs    int // rotation of the panic value kinds
	decls   cw
	nfun    int
	ndefer  int
	npanic  int
	kinds   map[string]bool
	useMap  bool
	useChan bool
}

var c07ValueKinds = []string{"int", "string", "error", "struct", "runtime"}

// panicStmt returns the statement raising the next panic.
func (r *c07Render) panicStmt() string {
	k := r.npanic
	r.npanic++
	switch c07ValueKinds[(k+r.vofs)%len(c07ValueKinds)] {
	case "int":
		return fmt.Sprintf("panic(%d)", 10+k)
	case "string":
		return fmt.Sprintf("panic(\"p%d\")", k)
	case "error":
		return fmt.Sprintf("panic(Err(\"e%d\"))", k)
	case "struct":
		return fmt.Sprintf("panic(PV_%s{%d, \"v\"})", r.id, k)
	}
	return fmt.Sprintf("O(%d / zero_%s)", 100+k, r.id)
}

// panicValue returns the expression for a panic value (deferred builtin panic needs an expression).
func (r *c07Render) panicValue() string {
	k := r.npanic
	r.npanic++
	switch c07ValueKinds[(k+r.vofs)%len(c07ValueKinds)] {
	case "int", "runtime":
		return fmt.Sprint(10 + k)
	case "string":
		return fmt.Sprintf("\"p%d\"", k)
	case "error":
		return fmt.Sprintf("Err(\"e%d\")", k)
	}
	return fmt.Sprintf("PV_%s{%d, \"v\"}", r.id, k)
}

func (r *c07Render) frame(f *c07Frame, depth int) string {
	r.nfun++
	name := fmt.Sprintf("F%d_%s", r.nfun, r.id)
	tag := fmt.Sprintf("F%d", r.nfun)
	var w cw
	if r.unnamed {
		w.f("func %s() int {", name)
	} else {
		w.f("func %s() (res int) {", name)
	}
	w.f("S(%q)", tag)
	needRv := false
	for _, a := range f.Acts {
		if a.Kind == fDeferMethod || a.Kind == fDeferPMethod || a.Kind == fDeferMethRec {
			needRv = true
		}
	}
	if needRv {
		w.f("rv := Rv_%s{%d}\n_ = rv", r.id, depth)
	}
	for _, a := range f.Acts {
		r.kinds[c07FNames[a.Kind]] = true
		switch a.Kind {
		case fDefer:
			r.ndefer++
			w.f("defer func() {\nS(\"d%d\")\n%s}()", r.ndefer, r.dscript(a.D, depth))
		case fDeferArgs:
			r.ndefer++
			arg := "res"
			if r.unnamed {
				arg = fmt.Sprint(depth)
			}
			w.f("defer func(a int) {\nS(\"da%d\")\nO(a)\n%s}(%s + %d)", r.ndefer, r.dscript(a.D, depth), arg, r.ndefer)
		case fDeferLoop:
			r.ndefer++
			w.f("for i := 0; i < 2; i++ {\ndefer func(i int) {\nS(\"dl%d\")\nO(i)\n%s}(i)\n}", r.ndefer, r.dscript(a.D, depth))
		case fDeferMethod:
			r.ndefer++
			w.f("rv.A += 10\ndefer rv.Log()\nrv.A += 100")
		case fDeferPMethod:
			r.ndefer++
			w.f("rv.A += 20\ndefer (&rv).PLog()\nrv.A += 200")
		case fDeferMethRec:
			r.ndefer++
			w.f("defer rv.Rec()")
		case fDeferClose:
			r.useChan = true
			w.f("defer close(ch_%s)", r.id)
		case fDeferDelete:
			r.useMap = true
			w.f("defer delete(m_%s, %d)", r.id, depth)
		case fDeferRecover:
			w.f("defer recover()")
		case fDeferPanic:
			w.f("defer panic(%s)", r.panicValue())
		case fPanic:
			w.f("%s", r.panicStmt())
		case fCall:
			child := r.frame(a.Child, depth+1)
			w.f("O(%s())", child)
		case fSet:
			w.f("res = %d", 7+depth)
		case fRet:
			w.f("return %d", 40+depth)
		}
	}
	w.f("S(\"%s.end\")", tag)
	if r.unnamed {
		w.f("return %d", 30+depth)
	} else {
		w.f("return")
	}
	w.f("}")
	r.decls.f("%s", w.String())
	return name
}

func (r *c07Render) dscript(ds []c07DAct, depth int) string {
	var w cw
	for _, d := range ds {
		r.kinds[c07DNames[d.Kind]] = true
		switch d.Kind {
		case dRecover:
			w.f("R(recover())")
		case dHelper:
			w.f("S(\"h\")\nR(helper_%s())", r.id)
		case dRepanic:
			w.f("if r := recover(); r != nil {\nR(r)\npanic(r)\n}")
		case dPanic:
			w.f("%s", r.panicStmt())
		case dSet:
			w.f("res += 100")
		case dNested:
			r.ndefer++
			w.f("defer func() {\nS(\"n%d\")\n%s}()", r.ndefer, r.dscript(d.D, depth))
		case dCall:
			child := r.frame(d.Child, depth+1)
			w.f("O(%s())", child)
		}
	}
	return w.String()
}

func (f *c07Frame) String() string {
	var parts []string
	for _, a := range f.Acts {
		s := c07FNames[a.Kind]
		switch a.Kind {
		case fDefer, fDeferLoop, fDeferArgs:
			s += "(" + c07DString(a.D) + ")"
		case fCall:
			s += "[" + a.Child.String() + "]"
		}
		parts = append(parts, s)
	}
	return strings.Join(parts, " ")
}

func c07DString(ds []c07DAct) string {
	var parts []string
	for _, d := range ds {
		s := c07DNames[d.Kind]
		switch d.Kind {
		case dNested:
			s += "(" + c07DString(d.D) + ")"
		case dCall:
			s += "[" + d.Child.String() + "]"
		}
		parts = append(parts, s)
	}
	return strings.Join(parts, ",")
}

func c07Program(id, family string, f *c07Frame, unnamed bool, vofs int) oracle.Prog {
	r := &c07Render{id: id, unnamed: unnamed, vofs: vofs, kinds: map[string]bool{}}
	top := r.frame(f, 1)
	var d, w cw
	body := r.decls.String()
	uses := func(name string) bool { return strings.Contains(body, name+"_"+id) }
	if uses("PV") {
		d.f("type PV_%s struct {\n\tA int\n\tB string\n}", id)
	}
	if uses("Rv") {
		d.f("type Rv_%s struct {\n\tA int\n}", id)
		d.f("func (r Rv_%s) Log() {\n\tS(\"m\")\n\tO(r.A)\n}", id)
		d.f("func (r *Rv_%s) PLog() {\n\tS(\"pm\")\n\tO(r.A)\n}", id)
		d.f("func (r Rv_%s) Rec() {\n\tS(\"mrec\")\n\tR(recover())\n}", id)
	}
	if uses("helper") {
		d.f("func helper_%s() interface{} {\n\treturn recover()\n}", id)
	}
	if uses("zero") {
		d.f("var zero_%s int", id)
	}
	if r.useMap {
		d.f("var m_%s map[int]int", id)
	}
	if r.useChan {
		d.f("var ch_%s chan int", id)
	}
	d.f("%s", r.decls.String())
	var ks []string
	for k := range r.kinds {
		ks = append(ks, k)
	}
	sort.Strings(ks)
	w.f("// %s|%s|%s|v%d", family, strings.Join(ks, ","), f.String(), vofs)
	if r.useMap {
		w.f("m_%s = map[int]int{1: 1, 2: 2, 3: 3}", id)
	}
	if r.useChan {
		w.f("ch_%s = make(chan int, 1)", id)
	}
	if r.useMap || r.useChan {
		w.f("defer func() {\nS(\"obs\")")
		if r.useMap {
			w.f("O(m_%s)", id)
		}
		if r.useChan {
			w.f("select {\ncase _, ok := <-ch_%s:\nO(ok)\ndefault:\nS(\"open\")\n}", id)
		}
		w.f("}()")
	}
	w.f("O(%s())", top)
	w.f("S(\"done\")")
	return oracle.Prog{ID: id, Decls: d.String(), Body: w.String()}
}

// ---------------------------------------------------------------------------
// corpus

func c07Range(n int) []int {
	var r []int
	for i := 0; i < n; i++ {
		r = append(r, i)
	}
	return r
}

func c07HasPanic(f *c07Frame) bool {
	return strings.Contains(f.String(), "anic") // Panic, DeferPanic, panic, repanic
}

func c07Corpus(c *core.Ctx) []oracle.Prog {
	var progs []oracle.Prog
	n := 0
	add := func(family string, e *c07Enum, budget int, vofs []int, filter func(*c07Frame) bool) {
		for _, f := range e.frames(budget, 1) {
			if len(f.Acts) == 0 || (filter != nil && !filter(f)) {
				continue
			}
			for _, v := range vofs {
				if v != 0 && !c07HasPanic(f) {
					continue
				}
				n++
				progs = append(progs, c07Program(fmt.Sprintf("d%d", n), family, f, e.opts.unnamed, v))
			}
		}
	}
	all := c07Opts{facts: c07Range(fNumActs), dacts: c07Range(dNumActs)}
	core07 := c07Opts{facts: []int{fDefer, fDeferLoop, fPanic, fCall, fSet}, dacts: []int{dRecover, dHelper, dRepanic, dPanic, dSet, dNested, dCall}}
	unn := c07Opts{unnamed: true, facts: c07Range(fNumActs), dacts: c07Range(dNumActs)}
	// tree: the full alphabet up to the node budget; deep: the core alphabet (closures, loops, panic, calls,
	// named results) two nodes deeper; values: the other rotations of the panic value kinds; unnamed: unnamed results.
	add("tree", &c07Enum{opts: all, maxDepth: 3}, c.Pick(3, 4), []int{0}, nil)
	add("deep", &c07Enum{opts: core07, maxDepth: 3}, c.Pick(4, 5), []int{0}, func(f *c07Frame) bool { return f.cost() > c.Pick(3, 4) })
	// nested: panics raised (and possibly recovered) inside deferred calls while another panic is in flight
	pan := c07Opts{facts: []int{fDefer, fPanic, fCall}, dacts: []int{dRecover, dPanic, dNested, dCall}}
	add("nested", &c07Enum{opts: pan, maxDepth: 3}, c.Pick(5, 6), []int{0}, func(f *c07Frame) bool { return f.cost() > c.Pick(4, 5) })
	add("values", &c07Enum{opts: all, maxDepth: 3}, c.Pick(2, 3), []int{1, 2, 3, 4}, nil)
	add("unnamed", &c07Enum{opts: unn, maxDepth: 3}, c.Pick(2, 3), []int{0, 2}, nil)
	if f := os.Getenv("VERIF_C07_FAMILY"); f != "" {
		var sel []oracle.Prog
		for _, p := range progs {
			if strings.HasPrefix(p.Body, "// "+f) {
				sel = append(sel, p)
			}
		}
		progs = sel
	}
	return progs
}

func c07Sig(p *oracle.Prog, want, got string) string {
	parts := strings.Split(c06Header(p), "|")
	kinds := ""
	if len(parts) > 1 {
		kinds = parts[1]
	}
	wp, gp := strings.Contains(want, "PANIC("), strings.Contains(got, "PANIC(")
	how := "events"
	switch {
	case strings.HasPrefix(got, "COMPILE-ERROR"):
		how = "compile-error"
	case strings.HasPrefix(got, "TIMEOUT"):
		how = "timeout"
	case wp && !gp:
		how = "panic-lost"
	case !wp && gp:
		how = "panic-escapes"
	case wp && gp && want[strings.Index(want, "PANIC("):] != got[strings.Index(got, "PANIC("):]:
		how = "panic-value"
	}
	return "C07|" + kinds + "|" + how
}

func init() {
	registerDiff(&diffSpec{
		ID: "C07",
		Rule: "all call trees (frame depth <= 3, <= 3 actions per frame and per deferred closure) whose total number of action nodes is within the budget, over frame actions " +
			"{defer closure, defer closure with argument, defer in a 2-iteration loop, defer value-/pointer-receiver method, defer method calling recover, defer close, defer delete, defer recover(), defer panic(v), panic(v), call child, set named result, return k} " +
			"and deferred-closure actions {recover(), recover() in a helper, recover+re-panic same value, panic new value, modify named result, nested defer, call child}; " +
			"families: tree (full alphabet, budget quick 3 / thorough 4), deep (closures/loops/panic/calls/results only, budget 4 / 5), nested (only {defer closure, panic, call} × {recover, panic, nested defer, call}: panics inside deferred calls while panicking, budget 5 / 6), values (rotations of the panic value kinds int,string,error,struct,runtime error), unnamed (unnamed results); " +
			"panic(nil) excluded; non-trivial = distinct (program, Go result) pairs in which a panic was raised (a recovered value, a repanic or an escaping panic is recorded)",
		Gen: c07Corpus,
		Sig: c07Sig,
		Key: func(p *oracle.Prog, want string) string {
			if strings.Contains(want, "r=") && !strings.Contains(strings.ReplaceAll(want, "r=nil", ""), "r=") && !strings.Contains(want, "PANIC(") {
				return ""
			}
			if strings.Contains(want, "r=") || strings.Contains(want, "PANIC(") {
				return want + "|" + p.Body
			}
			return ""
		},
	})
}
