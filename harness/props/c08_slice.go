package props

import (
	"fmt"
	"strconv"
)

type c08Base struct {
	name  string
	setup string
	x     string // the sliced operand
	obs   string // observation of the backing store
	isStr bool
}

func c08SliceBases() []c08Base {
	return []c08Base{
		// len 2, cap 3 inside a 4-element array: memory exists beyond the capacity, a bound check against anything but cap is visible
		{name: "sl", setup: "b := [4]$E{$0, $1, $2, $3}\ns := b[0:2:3]\n", x: "s", obs: "O(b)\n"},
		{name: "arr", setup: "b := [3]$E{$0, $1, $2}\n", x: "b", obs: "O(b)\n"},
		{name: "parr", setup: "b := [3]$E{$0, $1, $2}\np := &b\n", x: "p", obs: "O(b)\n"},
	}
}

// c08SliceProg renders one slicing program. lo/hi/max < -1 mean "omitted"; mask[i]=='c' renders a constant.
func c08SliceProg(k *c08Kind, b c08Base, lo, hi, max int, three bool, mask string) (detail, body string) {
	decl := ""
	part := func(n int, v int, m byte) string {
		if v < -1 {
			return ""
		}
		if m == 'c' {
			return strconv.Itoa(v)
		}
		name := []string{"lo", "hi", "mx"}[n]
		decl += fmt.Sprintf("%s := %d\n", name, v)
		return name
	}
	e := b.x + "[" + part(0, lo, mask[0]) + ":" + part(1, hi, mask[1])
	if three {
		e += ":" + part(2, max, mask[2])
	}
	e += "]"
	detail = e + " " + fmt.Sprintf("lo=%d hi=%d max=%d", lo, hi, max)
	if b.isStr {
		body = b.setup + decl + "Site(1, func() {\nt := " + e + "\nO(t, len(t))\n})\n"
		return
	}
	// the result, then aliasing: write through the result, append to it (must stay within ITS capacity), observe the array
	body = b.setup + decl + "Site(1, func() {\nt := " + e + "\nO(t, len(t), cap(t))\nif len(t) > 0 {\nt[0] = $4\n}\nt = append(t, $5)\nOnc(t)\n})\n" + b.obs
	return
}

func (g *c08Gen) genSlice() {
	const top = 4 // cap+1 for cap 3
	masks3 := []string{"vvv", "ccc"}
	masks2 := []string{"vv", "cc"}
	if g.c.Thorough() {
		masks3 = []string{"vvv", "ccc", "cvv", "vcv", "vvc", "ccv", "cvc", "vcc"}
		masks2 = []string{"vv", "cc", "cv", "vc"}
	}
	for ki := range c08Kinds {
		k := &c08Kinds[ki]
		full := k.name == "int" // the full const/var mask product for one kind; the others get all-var and all-const
		for _, b := range c08SliceBases() {
			if g.c.Quick() && !full && b.name != "sl" {
				continue
			}
			m3, m2 := masks3, masks2
			if !full {
				m3, m2 = []string{"vvv", "ccc"}, []string{"vv", "cc"}
				if g.c.Quick() {
					m3, m2 = []string{"vvv"}, []string{"vv"}
				}
			}
			for _, mask := range m3 {
				for lo := -2; lo <= top; lo++ {
					if lo == -1 {
						continue
					}
					if lo == -2 && mask[0] == 'c' && mask != "ccc" {
						continue // omitted lo: only with the all-var / all-const masks
					}
					for hi := 0; hi <= top; hi++ {
						for max := 0; max <= top; max++ {
							d, body := c08SliceProg(k, b, lo, hi, max, true, mask)
							g.addK(k, "s3", "slice3|"+b.name+"|"+mask, d, body)
						}
					}
				}
			}
			for _, mask := range m2 {
				for lo := -2; lo <= top; lo++ {
					if lo == -1 {
						continue
					}
					for hi := -2; hi <= top; hi++ {
						if hi == -1 {
							continue
						}
						if (lo == -2 && mask[0] == 'c' && mask != "cc") || (hi == -2 && mask[1] == 'c' && mask != "cc") {
							continue
						}
						d, body := c08SliceProg(k, b, lo, hi, -2, false, mask)
						g.addK(k, "s2", "slice2|"+b.name+"|"+mask, d, body)
					}
				}
			}
		}
		// nil slice, function results (slice: fine; array: not addressable, rejected), slice of slice of array element
		for _, c := range []struct{ name, tpl string }{
			{"nil-0-0", "var s []$E\nSite(1, func() {\nt := s[0:0]\nO(t, t == nil)\n})\n"},
			{"nil-0-1", "var s []$E\nh := 1\nSite(1, func() {\nt := s[0:h]\nO(t)\n})\n"},
			{"nil-3index", "var s []$E\nSite(1, func() {\nt := s[0:0:0]\nO(t, t == nil)\n})\n"},
			{"nil-array-ptr", "var p *[3]$E\nSite(1, func() {\nt := p[0:0]\nO(t)\n})\n"},
			{"func-result-slice", "f := func() []$E { return []$E{$0, $1, $2} }\nSite(1, func() {\nO(f()[1:2], f()[1:2:2])\n})\n"},
			{"func-result-array", "f := func() [3]$E { return [3]$E{$0, $1, $2} }\nO(f()[1:2])\n"},
			{"map-elem-array", "m := map[int][3]$E{0: {$0, $1, $2}}\nO(m[0][1:2])\n"},
			{"array-literal", "O([3]$E{$0, $1, $2}[1:2])\n"},
			{"slice-literal", "O([]$E{$0, $1, $2}[1:2])\n"},
			{"reslice-grow", "b := [4]$E{$0, $1, $2, $3}\ns := b[1:2:3]\nt := s[0:2]\nO(s, t)\nSite(1, func() {\nO(s[0:3])\n})\nu := s[1:1]\nO(u, len(u), cap(u))\n"},
			{"slice-of-struct-field", "var st struct{ A [3]$E }\nst.A[1] = $1\nt := st.A[1:]\nt[1] = $2\nO(st, t)\n"},
			{"slice-of-array-elem", "var n [2][3]$E\nt := n[1][:2]\nt[0] = $0\nO(n, t)\n"},
		} {
			g.addK(k, "sx", "slice|"+c.name, c.name, c.tpl)
		}
	}
	// strings (2-index only; 3-index is rejected), variable and constant operand
	sb := []c08Base{
		{name: "string-var", setup: "s := \"abc\"\n", x: "s", isStr: true},
		{name: "string-const", setup: "const s = \"abc\"\n", x: "s", isStr: true},
	}
	k := c08KindByName("int")
	for _, b := range sb {
		for _, mask := range masks2 {
			for lo := -2; lo <= top; lo++ {
				if lo == -1 {
					continue
				}
				for hi := -2; hi <= top; hi++ {
					if hi == -1 {
						continue
					}
					if (lo == -2 && mask[0] == 'c' && mask != "cc") || (hi == -2 && mask[1] == 'c' && mask != "cc") {
						continue
					}
					d, body := c08SliceProg(k, b, lo, hi, -2, false, mask)
					g.add("ss", "slice2|"+b.name+"|"+mask, d, body)
				}
			}
		}
		d, body := c08SliceProg(k, b, 0, 1, 2, true, "vvv")
		g.add("ss", "slice3|"+b.name, d, body)
	}
	for _, bad := range []struct{ name, body string }{
		{"3index-missing-max", "s := []int{1, 2, 3}\nO(s[0:1:])\n"},
		{"3index-missing-hi", "s := []int{1, 2, 3}\nO(s[0::2])\n"},
		{"float-var-bound", "s := []int{1, 2, 3}\nf := 1.0\nO(s[f:])\n"},
		{"slice-of-map", "m := map[int]int{1: 2}\nO(m[0:1])\n"},
		{"slice-of-int", "m := 7\nO(m[0:1])\n"},
		{"slice-of-ptr-to-slice", "m := &[]int{1, 2}\nO(m[0:1])\n"},
		{"const-negative", "s := []int{1, 2, 3}\nO(s[-1:])\n"},
		{"string-bound", "s := []int{1, 2, 3}\nO(s[\"0\":])\n"},
	} {
		g.add("sx", "slice|invalid|"+bad.name, bad.name, bad.body)
	}
}
