package props

// Helpers shared by C23, C24, C26 and C27: source corpus (GOROOT/src + /repo), deterministic
// goroutine parallelism and a deterministic violation collector.

import (
	"fmt"
	"io/ioutil"
	"os"
	"path/filepath"
	"runtime"
	"sort"
	"strings"
	"sync"
	"sync/atomic"

	"verif/harness/core"
)

// srcFile is one file of the sweep corpus.
type srcFile struct {
	Path string
	Size int64
}

var (
	c23CorpusOnce sync.Once
	corpusFiles   []srcFile
)

func c23GorootSrc() string {
	for _, d := range []string{os.Getenv("VERIF_GOROOT_SRC"), filepath.Join(runtime.GOROOT(), "src"), "/usr/share/go-1.23/src", "/usr/lib/go-1.23/src"} {
		if d == "" {
			continue
		}
		if r, err := filepath.EvalSymlinks(d); err == nil {
			if st, err := os.Stat(r); err == nil && st.IsDir() {
				return r
			}
		}
	}
	return ""
}

// corpus returns every *.go file below GOROOT/src and /repo, sorted by path (symlinked directories are followed once).
func corpus() []srcFile {
	c23CorpusOnce.Do(func() {
		seen := map[string]bool{}
		var walk func(dir string)
		walk = func(dir string) {
			ents, err := ioutil.ReadDir(dir)
			if err != nil {
				return
			}
			for _, e := range ents {
				p := filepath.Join(dir, e.Name())
				st, err := os.Stat(p) // follows symlinks (find -L)
				if err != nil {
					continue
				}
				if st.IsDir() {
					if e.Name() == ".git" {
						continue
					}
					if r, err := filepath.EvalSymlinks(p); err == nil {
						if seen[r] {
							continue
						}
						seen[r] = true
					}
					walk(p)
				} else if strings.HasSuffix(e.Name(), ".go") {
					corpusFiles = append(corpusFiles, srcFile{p, st.Size()})
				}
			}
		}
		if g := c23GorootSrc(); g != "" {
			walk(g)
		}
		walk("/repo")
		sort.Slice(corpusFiles, func(i, j int) bool { return corpusFiles[i].Path < corpusFiles[j].Path })
	})
	return corpusFiles
}

// everyKth returns files[0], files[k], files[2k]... (k<=1: all).
func everyKth(files []srcFile, k int) []srcFile {
	if k <= 1 {
		return files
	}
	var out []srcFile
	for i := 0; i < len(files); i += k {
		out = append(out, files[i])
	}
	return out
}

// smallFiles picks n files with size in [lo,hi], evenly spread over the sorted corpus (deterministic).
func smallFiles(n int, lo, hi int64, keep func(path string) bool) []srcFile {
	var cand []srcFile
	for _, f := range corpus() {
		if f.Size >= lo && f.Size <= hi && (keep == nil || keep(f.Path)) {
			cand = append(cand, f)
		}
	}
	if len(cand) <= n {
		return cand
	}
	var out []srcFile
	for i := 0; i < n; i++ {
		out = append(out, cand[i*len(cand)/n])
	}
	return out
}

// parFor runs fn(i) for i in [0,n) on NumCPU goroutines (blocks of `block` consecutive indices are handed out
// dynamically; fn must only publish results through order-independent sinks such as vcollector or counters).
// It stops handing out work when c.Expired().
func parFor(c *core.Ctx, n int64, block int64, fn func(worker int, i int64)) {
	nw := runtime.NumCPU()
	if nw > 32 {
		nw = 32
	}
	var next int64
	var wg sync.WaitGroup
	for w := 0; w < nw; w++ {
		wg.Add(1)
		go func(w int) {
			defer wg.Done()
			for {
				lo := atomic.AddInt64(&next, block) - block
				if lo >= n || c.Expired() {
					return
				}
				hi := lo + block
				if hi > n {
					hi = n
				}
				for i := lo; i < hi; i++ {
					fn(w, i)
				}
			}
		}(w)
	}
	wg.Wait()
}

// vcollector gathers violations found by concurrent workers and reports them deterministically:
// per signature the `keep` cases with the smallest enumeration index, signatures in sorted order.
type vcollector struct {
	mu    sync.Mutex
	keep  int
	cases map[string][]vcase
	total map[string]int64
}

type vcase struct {
	idx  int64
	what string
	cas  interface{}
}

func newVCollector() *vcollector {
	return &vcollector{keep: 3, cases: map[string][]vcase{}, total: map[string]int64{}}
}

// add records a violation of class sig found at enumeration index idx; mk is only called when the case is kept.
func (v *vcollector) add(idx int64, sig string, mk func() (what string, cas interface{})) {
	v.mu.Lock()
	defer v.mu.Unlock()
	v.total[sig]++
	l := v.cases[sig]
	if len(l) >= v.keep && idx >= l[len(l)-1].idx {
		return
	}
	what, cas := mk()
	l = append(l, vcase{idx, what, cas})
	sort.Slice(l, func(i, j int) bool { return l[i].idx < l[j].idx })
	if len(l) > v.keep {
		l = l[:v.keep]
	}
	v.cases[sig] = l
}

func (v *vcollector) flush(c *core.Ctx) {
	v.mu.Lock()
	defer v.mu.Unlock()
	var sigs []string
	for s := range v.cases {
		sigs = append(sigs, s)
	}
	sort.Strings(sigs)
	for _, s := range sigs {
		for _, k := range v.cases[s] {
			c.Violation(s, k.what, k.cas)
			if os.Getenv("VERIF_DUMP") != "" { // diagnostics: show every kept case, not only those the framework keeps
				w := k.what
				if len(w) > 400 {
					w = w[:400]
				}
				fmt.Fprintf(os.Stderr, "DUMP %s (%d cases)\n     %s\n", s, v.total[s], strings.Replace(w, "\n", " | ", -1))
			}
		}
		c.Count("mismatches["+s+"]", int(v.total[s]))
	}
	v.cases = map[string][]vcase{}
	v.total = map[string]int64{}
}

// keyset is a goroutine-local set of non-triviality keys, forwarded to c.Nontrivial only once per key.
type keyset struct {
	c *core.Ctx
	m map[string]struct{}
}

func newKeyset(c *core.Ctx) *keyset { return &keyset{c, map[string]struct{}{}} }

func (k *keyset) add(key []byte) {
	if _, ok := k.m[string(key)]; ok {
		return
	}
	s := string(key)
	k.m[s] = struct{}{}
	k.c.Nontrivial(s)
}

func readFile(path string) []byte {
	data, err := ioutil.ReadFile(path)
	if err != nil {
		return nil
	}
	return data
}
