package props

// C14, second family: "escape" scenarios — where, of what and when the address of a global is taken.
//
// The histories of c14.go take addresses only with a top-level `p := &v` of an int variable, and cross the capacity of
// the global slot array with one-slot variables only, always after the address was taken. The code that keeps
// `&global` valid has three more dimensions, each with its own specialised code:
//   kind  — (*Var).Address has one closure per kind (bool, 5 int, 6 uint, 2 float, 2 complex; complex128 takes two
//           slots) and a generic one for the variables kept as reflect.Value (string, struct, array ...);
//   site  — the closure is chosen from the number of scopes-with-locals between the expression and the variable
//           (0, 1, 2, deeper = shortcut through Env.FileEnv), and the address can be taken implicitly (x.m() with a
//           pointer receiver), inside closures, loops and top-level blocks. Measured with one-case mutants of
//           (*Var).Address: top, method-top -> 0 | func+0/1-blocks, top-level-1-blocks -> 1 | func+2-blocks,
//           top-level-2-blocks -> 2 | func+3/4-blocks, loops, closures, top-level-3-blocks -> shortcut;
//   fill  — what is declared, one evaluation at a time, before and after the address is taken: the slot array must
//           never move afterwards, which depends on how many slots are in use when the address is taken, on
//           declarations of two-slot variables next to the capacity, on several variables declared by one statement,
//           on whether the array was already reallocated once, and on whether the next declaration is the very next
//           evaluation after the one that took the address (the capacity is published by the evaluation that follows).
//
// A scenario = (kind, site, fill) on a fresh interpreter. After the address is taken and after EVERY later declaration
// a check point stores a new value alternately through the pointer and through the variable and reads it back through
// the other one; at the end p == site() again, p == &x, and every declared variable is read back. Nothing else takes an
// address before the end (an observation that takes the address itself would repair the state under test).
// Expected values come from the reference model below (a cell + alias), validated against compiled Go on every
// (kind, site, fill) with the fills scaled down to a handful of variables (c14EscapePrepare).

import (
	"encoding/json"
	"fmt"
	"strings"

	"verif/harness/core"
	"verif/harness/h"
	"verif/harness/oracle"
	"verif/harness/twin"
)

// ---------------------------------------------------------------------------
// kinds

type c14Kind struct {
	Name  string        // also the Go type expression, except for the derived kinds below
	Type  string        // type expression of the variable
	Decl  string        // declaration needed before the variable ("" = none); %s = name suffix
	Lits  []string      // source of the values
	Vals  []interface{} // the same values, native
	Place string        // the addressable place inside the variable x whose address is taken ("%s" = x): x itself, x.A, x[1]
	Elem  string        // type of that place
	Slots int           // slots of Env.Ints used by the variable (0: kept as reflect.Value)
}

func c14Kinds() []c14Kind {
	k := func(name string, slots int, lits []string, vals ...interface{}) c14Kind {
		return c14Kind{Name: name, Type: name, Lits: lits, Vals: vals, Place: "%s", Elem: name, Slots: slots}
	}
	ks := []c14Kind{
		k("bool", 1, []string{"true", "false"}, true, false),
		k("int", 1, []string{"3", "-7", "11"}, int(3), int(-7), int(11)),
		k("int8", 1, []string{"3", "-7", "11"}, int8(3), int8(-7), int8(11)),
		k("int16", 1, []string{"3", "-7", "11"}, int16(3), int16(-7), int16(11)),
		k("int32", 1, []string{"3", "-7", "11"}, int32(3), int32(-7), int32(11)),
		k("int64", 1, []string{"3", "-7", "11"}, int64(3), int64(-7), int64(11)),
		k("uint", 1, []string{"3", "7", "11"}, uint(3), uint(7), uint(11)),
		k("uint8", 1, []string{"3", "7", "11"}, uint8(3), uint8(7), uint8(11)),
		k("uint16", 1, []string{"3", "7", "11"}, uint16(3), uint16(7), uint16(11)),
		k("uint32", 1, []string{"3", "7", "11"}, uint32(3), uint32(7), uint32(11)),
		k("uint64", 1, []string{"3", "7", "11"}, uint64(3), uint64(7), uint64(11)),
		k("uintptr", 1, []string{"3", "7", "11"}, uintptr(3), uintptr(7), uintptr(11)),
		k("float32", 1, []string{"1.5", "-2.25", "8"}, float32(1.5), float32(-2.25), float32(8)),
		k("float64", 1, []string{"1.5", "-2.25", "8"}, float64(1.5), float64(-2.25), float64(8)),
		k("complex64", 1, []string{"(1 + 2i)", "(-3i)", "(4)"}, complex64(1+2i), complex64(-3i), complex64(4)),
		k("complex128", 2, []string{"(1 + 2i)", "(-3i)", "(4)"}, complex128(1+2i), complex128(-3i), complex128(4)),
		k("string", 0, []string{`"a"`, `"bb"`, `""`}, "a", "bb", ""),
	}
	// a named type with a scalar underlying type is kept in the slot array like the underlying type
	ks = append(ks, c14Kind{Name: "named-int", Type: "NI%s", Decl: "type NI%s int", Lits: []string{"3", "-7", "11"}, Vals: []interface{}{int(3), int(-7), int(11)}, Place: "%s", Elem: "NI%s", Slots: 1})
	ks = append(ks, c14Kind{Name: "named-float64", Type: "NF%s", Decl: "type NF%s float64", Lits: []string{"1.5", "-2.25", "8"}, Vals: []interface{}{float64(1.5), float64(-2.25), float64(8)}, Place: "%s", Elem: "NF%s", Slots: 1})
	// places inside variables kept as reflect.Value
	ks = append(ks, c14Kind{Name: "struct-field", Type: "ST%s", Decl: "type ST%s struct{ Z, A int }", Lits: []string{"3", "-7", "11"}, Vals: []interface{}{int(3), int(-7), int(11)}, Place: "%s.A", Elem: "int", Slots: 0})
	ks = append(ks, c14Kind{Name: "array-elem", Type: "[2]int", Lits: []string{"3", "-7", "11"}, Vals: []interface{}{int(3), int(-7), int(11)}, Place: "%s[1]", Elem: "int", Slots: 0})
	return ks
}

func c14KindByName(name string) (c14Kind, bool) {
	for _, k := range c14Kinds() {
		if k.Name == name {
			return k, true
		}
	}
	return c14Kind{}, false
}

// ---------------------------------------------------------------------------
// sites

// c14Site: how the address is obtained. decls are evaluated (one each) after the variable is declared; acquire is the
// evaluation that stores the address in the global p; again is an expression yielding the address once more by the same route.
type c14Site struct {
	Name   string
	Method bool // needs a defined type with a method: only for kinds whose variable type can be wrapped (the place is the variable)
	Render func(T, x, place, sfx string) (decls []string, acquire string, again string)
}

// c14Nest wraps stmt in d nested blocks, each declaring a local (a block without locals has no frame of its own).
func c14Nest(d int, stmt string) string {
	s := stmt
	for i := d; i >= 1; i-- {
		s = fmt.Sprintf("{ l%d := %d; _ = l%d; %s }", i, i, i, s)
	}
	return s
}

func c14Sites() []c14Site {
	var sites []c14Site
	sites = append(sites, c14Site{Name: "top", Render: func(T, x, place, sfx string) ([]string, string, string) {
		return nil, "p" + sfx + " := &" + place, "&" + place
	}})
	for d := 0; d <= 4; d++ {
		d := d
		sites = append(sites, c14Site{Name: fmt.Sprintf("func+%d-blocks", d), Render: func(T, x, place, sfx string) ([]string, string, string) {
			f := "addr" + sfx
			return []string{"func " + f + "() *" + T + " { " + c14Nest(d, "return &"+place) + " }"}, "p" + sfx + " := " + f + "()", f + "()"
		}})
	}
	sites = append(sites, c14Site{Name: "func+loops", Render: func(T, x, place, sfx string) ([]string, string, string) {
		f := "addr" + sfx
		return []string{"func " + f + "() *" + T + " { for i := 0; i < 1; i++ { for j := 0; j < 1; j++ { k := i + j; if k == 0 { return &" + place + " } } }; return nil }"},
			"p" + sfx + " := " + f + "()", f + "()"
	}})
	sites = append(sites, c14Site{Name: "closure", Render: func(T, x, place, sfx string) ([]string, string, string) {
		f := "addr" + sfx
		return []string{"func " + f + "() *" + T + " { l1 := 1; g := func() *" + T + " { l2 := l1; _ = l2; return &" + place + " }; return g() }"},
			"p" + sfx + " := " + f + "()", f + "()"
	}})
	sites = append(sites, c14Site{Name: "closure-in-closure", Render: func(T, x, place, sfx string) ([]string, string, string) {
		f := "addr" + sfx
		return []string{"func " + f + "() *" + T + " { l1 := 1; g := func() *" + T + " { l2 := l1; g2 := func() *" + T + " { l3 := l2; _ = l3; return &" + place + " }; return g2() }; return g() }"},
			"p" + sfx + " := " + f + "()", f + "()"
	}})
	sites = append(sites, c14Site{Name: "stored-closure", Render: func(T, x, place, sfx string) ([]string, string, string) {
		// the closure is created by one evaluation and called by a later one
		f := "addrf" + sfx
		return []string{"var " + f + " = func() func() *" + T + " { l1 := 1; return func() *" + T + " { l2 := l1; _ = l2; { l3 := l2; _ = l3; return &" + place + " } } }()"},
			"p" + sfx + " := " + f + "()", f + "()"
	}})
	for _, d := range []int{1, 2, 3} {
		d := d
		sites = append(sites, c14Site{Name: fmt.Sprintf("top-level-%d-blocks", d), Render: func(T, x, place, sfx string) ([]string, string, string) {
			p := "p" + sfx
			st := c14Nest(d, p+" = &"+place)
			return []string{"var " + p + " *" + T}, st, ""
		}})
	}
	sites = append(sites, c14Site{Name: "method-top", Method: true, Render: func(T, x, place, sfx string) ([]string, string, string) {
		// implicit address: x.self() with a pointer receiver and an addressable operand is (&x).self()
		return []string{"func (r *" + T + ") self" + sfx + "() *" + T + " { return r }"}, "p" + sfx + " := " + x + ".self" + sfx + "()", x + ".self" + sfx + "()"
	}})
	for _, d := range []int{1, 2, 3} {
		d := d
		sites = append(sites, c14Site{Name: fmt.Sprintf("method-func+%d-blocks", d), Method: true, Render: func(T, x, place, sfx string) ([]string, string, string) {
			f := "addr" + sfx
			return []string{"func (r *" + T + ") self" + sfx + "() *" + T + " { return r }",
				"func " + f + "() *" + T + " { " + c14Nest(d, "return "+x+".self"+sfx+"()") + " }"}, "p" + sfx + " := " + f + "()", f + "()"
		}})
	}
	return sites
}

func c14SiteByName(name string) (c14Site, bool) {
	for _, s := range c14Sites() {
		if s.Name == name {
			return s, true
		}
	}
	return c14Site{}, false
}

// ---------------------------------------------------------------------------
// fills

// the capacity of the global slot array once the first scalar variable exists (Interp.PrepareEnv grows it in chunks of 1024)
const c14IntsCap = 1024

// c14FillStmt declares n variables of one kind with one statement: var b7, b8 int = 7, 8
type c14FillStmt struct {
	Kind  string // int | bool | float64 | uint8 | complex128 | string
	First int    // index of the first variable
	N     int
}

func c14FillName(i int, sfx string) string { return fmt.Sprintf("b%d%s", i, sfx) }

func c14FillVal(kind string, i int) (lit string, val interface{}) {
	switch kind {
	case "int":
		return fmt.Sprint(i * 3), int(i * 3)
	case "bool":
		return fmt.Sprint(i%3 == 0), i%3 == 0
	case "float64":
		return fmt.Sprintf("%d.5", i), float64(i) + 0.5
	case "uint8":
		return fmt.Sprint(i % 251), uint8(i % 251)
	case "complex128":
		return fmt.Sprintf("(%d + %di)", i, i+1), complex(float64(i), float64(i+1))
	case "string":
		return fmt.Sprintf("%q", fmt.Sprint("s", i)), fmt.Sprint("s", i)
	}
	panic("bad fill kind " + kind)
}

func (f c14FillStmt) render(sfx string) string {
	var names, lits []string
	for i := f.First; i < f.First+f.N; i++ {
		names = append(names, c14FillName(i, sfx))
		l, _ := c14FillVal(f.Kind, i)
		lits = append(lits, l)
	}
	return "var " + strings.Join(names, ", ") + " " + f.Kind + " = " + strings.Join(lits, ", ")
}

func c14FillSlots(kind string) int {
	switch kind {
	case "complex128":
		return 2
	case "string":
		return 0
	}
	return 1
}

// c14Fill: the declarations before (pre) and after (post) the address is taken. capacity is the capacity of the slot
// array (scaled down for the validation against compiled Go, where it has no meaning); w = slots of the variable itself.
type c14Fill struct {
	Name string
	Vals bool // meant for the variables kept as reflect.Value
	// Immediately: the first declaration after the address is taken is the very next evaluation (no check point in
	// between: any evaluation, even a read, lets Interp.PrepareEnv see that an address was taken)
	Immediately bool
	Gen  func(capacity, w int) (pre, post []c14FillStmt)
}

var c14OneSlotKinds = []string{"int", "bool", "float64", "uint8"}

func c14Fills() []c14Fill {
	// seq appends declarations of `slots` slots in all, g variables per statement, kinds cycling per statement
	seq := func(l []c14FillStmt, first *int, slots, g int, kinds []string) []c14FillStmt {
		for slots > 0 {
			kind := kinds[len(l)%len(kinds)]
			per := c14FillSlots(kind)
			n := g
			if per > 0 && n*per > slots {
				n = (slots + per - 1) / per
			}
			l = append(l, c14FillStmt{Kind: kind, First: *first, N: n})
			*first += n
			if per == 0 {
				slots -= n
			} else {
				slots -= n * per
			}
		}
		return l
	}
	return []c14Fill{
		{Name: "after:8-per-statement-past-capacity", Gen: func(capacity, w int) (pre, post []c14FillStmt) {
			// the capacity is crossed in the middle of a statement
			n := 0
			return nil, seq(nil, &n, capacity-w+12, 8, []string{"int", "float64", "int", "bool", "uint8"})
		}},
		{Name: "after:1-per-statement-past-capacity", Gen: func(capacity, w int) (pre, post []c14FillStmt) {
			n := 0
			return nil, seq(nil, &n, capacity-w+6, 1, c14OneSlotKinds)
		}},
		{Name: "after:two-slot-variables-past-capacity", Gen: func(capacity, w int) (pre, post []c14FillStmt) {
			// complex128 variables from slot w on: if capacity-w is odd one of them meets a single free slot
			n := 0
			post = seq(nil, &n, capacity-w+8, 1, []string{"complex128"})
			return nil, seq(post, &n, 2, 1, []string{"int"})
		}},
		{Name: "after:one-slot-then-two-slot-variables-past-capacity", Gen: func(capacity, w int) (pre, post []c14FillStmt) {
			// the other parity
			n := 0
			post = seq(nil, &n, 1, 1, []string{"int"})
			post = seq(post, &n, capacity-w+8, 1, []string{"complex128"})
			return nil, seq(post, &n, 2, 1, []string{"int"})
		}},
		{Name: "before:exactly-full,after:1-per-statement", Gen: func(capacity, w int) (pre, post []c14FillStmt) {
			// the address is taken for the first time when every slot is in use
			n := 0
			pre = seq(nil, &n, capacity-w, 8, []string{"int"})
			return pre, seq(nil, &n, 5, 1, c14OneSlotKinds)
		}},
		{Name: "before:exactly-full,after:immediately-1-per-statement", Immediately: true, Gen: func(capacity, w int) (pre, post []c14FillStmt) {
			n := 0
			pre = seq(nil, &n, capacity-w, 8, []string{"int"})
			return pre, seq(nil, &n, 5, 1, c14OneSlotKinds)
		}},
		{Name: "before:one-slot-free,after:immediately-two-slot-variable", Immediately: true, Gen: func(capacity, w int) (pre, post []c14FillStmt) {
			n := 0
			pre = seq(nil, &n, capacity-w-1, 8, []string{"int"})
			post = seq(nil, &n, 4, 1, []string{"complex128"})
			return pre, seq(post, &n, 2, 1, []string{"int"})
		}},
		{Name: "before:one-slot-free,after:immediately-8-per-statement", Immediately: true, Gen: func(capacity, w int) (pre, post []c14FillStmt) {
			n := 0
			pre = seq(nil, &n, capacity-w-1, 8, []string{"int"})
			return pre, seq(nil, &n, 16, 8, []string{"int", "bool"})
		}},
		{Name: "before:two-slots-free,after:1-per-statement", Gen: func(capacity, w int) (pre, post []c14FillStmt) {
			n := 0
			pre = seq(nil, &n, capacity-w-2, 8, []string{"int"})
			return pre, seq(nil, &n, 6, 1, c14OneSlotKinds)
		}},
		{Name: "before:one-slot-free,after:two-slot-variable", Gen: func(capacity, w int) (pre, post []c14FillStmt) {
			n := 0
			pre = seq(nil, &n, capacity-w-1, 8, []string{"int"})
			post = seq(nil, &n, 4, 1, []string{"complex128"})
			return pre, seq(post, &n, 2, 1, []string{"int"})
		}},
		{Name: "before:capacity-crossed,after:8-per-statement-past-second-capacity", Gen: func(capacity, w int) (pre, post []c14FillStmt) {
			// the array has already been reallocated once (doubled) when the address is taken
			n := 0
			pre = seq(nil, &n, capacity-w+6, 8, []string{"int"})
			return pre, seq(nil, &n, capacity+6, 8, []string{"int", "float64", "bool"})
		}},
		{Name: "after:40-boxed-variables", Vals: true, Gen: func(capacity, w int) (pre, post []c14FillStmt) {
			// crosses the growth steps (16, 32, ...) of the array of boxed variables
			n := 0
			if capacity > 40 {
				capacity = 40
			}
			return nil, seq(nil, &n, capacity, 1, []string{"string"})
		}},
		{Name: "before:14-boxed,after:3-per-statement-boxed", Vals: true, Gen: func(capacity, w int) (pre, post []c14FillStmt) {
			n := 0
			if capacity > 40 {
				capacity = 40
			}
			pre = seq(nil, &n, capacity/3+1, 1, []string{"string"})
			return pre, seq(nil, &n, capacity, 3, []string{"string"})
		}},
	}
}

func c14FillByName(name string) (c14Fill, bool) {
	for _, f := range c14Fills() {
		if f.Name == name {
			return f, true
		}
	}
	return c14Fill{}, false
}

// ---------------------------------------------------------------------------
// scenario = straight-line program with expectations

type c14EscCase struct {
	Kind string `json:"kind"`
	Site string `json:"site"`
	Fill string `json:"fill"`
}

func (c c14EscCase) String() string { return c.Kind + " / " + c.Site + " / " + c.Fill }

// c14EscStep is one evaluation: a statement, or an expression with the value the reference model expects (h.Fmt form).
type c14EscStep struct {
	Src   string
	Decl  bool   // a declaration that compiled Go needs at package level (types, functions, methods, the variable itself)
	Want  string // non-empty: Src is an expression to read back
	Class string // what the read-back observes (for signatures)
	Phase string // where in the scenario (for signatures and messages)
	Slots int    // slots of the array in use after this step, had every scalar been given a slot (for messages)
}

// c14EscProgram renders the scenario. capacity = c14IntsCap for the interpreter, a small number for the validation
// against compiled Go. The reference model is inlined: the place holds `cur`; a store through the pointer or through
// the variable changes it; the fill variables hold their initial values.
func c14EscProgram(cas c14EscCase, capacity int, sfx string) ([]c14EscStep, bool) {
	kind, ok1 := c14KindByName(cas.Kind)
	site, ok2 := c14SiteByName(cas.Site)
	fill, ok3 := c14FillByName(cas.Fill)
	if !ok1 || !ok2 || !ok3 {
		return nil, false
	}
	if site.Method && (kind.Place != "%s" || kind.Decl == "") {
		return nil, false // methods need a defined type whose variable is the place itself
	}
	if fill.Vals != (kind.Slots == 0) {
		return nil, false
	}
	sub := func(s string) string {
		if strings.Contains(s, "%s") {
			return fmt.Sprintf(s, sfx)
		}
		return s
	}
	T, elem, x := sub(kind.Type), sub(kind.Elem), "x"+sfx
	place := fmt.Sprintf(kind.Place, x)
	p := "p" + sfx
	pre, post := fill.Gen(capacity, kind.Slots)

	var steps []c14EscStep
	slots := 0
	add := func(s c14EscStep) {
		s.Slots = slots
		steps = append(steps, s)
	}
	var fillNames []string
	var fillVals []interface{}
	doFill := func(l []c14FillStmt, phase string, check func(phase string)) {
		for _, f := range l {
			slots += f.N * c14FillSlots(f.Kind)
			add(c14EscStep{Src: f.render(sfx), Phase: phase})
			for i := f.First; i < f.First+f.N; i++ {
				_, v := c14FillVal(f.Kind, i)
				fillNames = append(fillNames, c14FillName(i, sfx))
				fillVals = append(fillVals, v)
			}
			if check != nil {
				check(phase)
			}
		}
	}
	if kind.Decl != "" {
		add(c14EscStep{Src: sub(kind.Decl), Decl: true, Phase: "setup"})
	}
	slots += kind.Slots
	cur := 0
	switch kind.Place {
	case "%s":
		add(c14EscStep{Src: "var " + x + " " + T + " = " + kind.Lits[cur], Decl: true, Phase: "setup"})
	case "%s.A":
		add(c14EscStep{Src: "var " + x + " = " + T + "{100, " + kind.Lits[cur] + "}", Decl: true, Phase: "setup"})
	case "%s[1]":
		add(c14EscStep{Src: "var " + x + " = " + T + "{100, " + kind.Lits[cur] + "}", Decl: true, Phase: "setup"})
	}
	doFill(pre, "before-address", nil)
	decls, acquire, again := site.Render(elem, x, place, sfx)
	for _, d := range decls {
		add(c14EscStep{Src: d, Decl: !strings.HasPrefix(d, "var "+p+" ") && !strings.HasPrefix(d, "var addrf"), Phase: "setup"})
	}
	add(c14EscStep{Src: acquire, Phase: "take-address"})
	ncheck := 0
	check := func(phase string) {
		ncheck++
		cur = (cur + 1) % len(kind.Lits)
		if ncheck%2 == 1 {
			add(c14EscStep{Src: "*" + p + " = " + kind.Lits[cur], Phase: phase})
			add(c14EscStep{Src: place, Want: h.Fmt(kind.Vals[cur]), Class: "variable-after-store-through-pointer", Phase: phase})
		} else {
			add(c14EscStep{Src: place + " = " + kind.Lits[cur], Phase: phase})
			add(c14EscStep{Src: "*" + p, Want: h.Fmt(kind.Vals[cur]), Class: "deref-after-store-to-variable", Phase: phase})
		}
	}
	if !fill.Immediately {
		check("address-taken")
	}
	doFill(post, "after-address", check)
	check("end")
	check("end")
	if again != "" {
		add(c14EscStep{Src: p + " == " + again, Want: "true", Class: "alias-same-site", Phase: "end"})
	}
	add(c14EscStep{Src: p + " == &" + place, Want: "true", Class: "alias-top-level", Phase: "end"})
	check("end-after-top-level-address")
	if len(fillNames) != 0 {
		add(c14EscStep{Src: "[]interface{}{" + strings.Join(fillNames, ", ") + "}", Want: h.Fmt(append(make([]interface{}, 0, len(fillVals)), fillVals...)), Class: "fill-variables", Phase: "end"})
	}
	// variables declared after everything else are usable and addressable too
	add(c14EscStep{Src: "var last" + sfx + " " + T, Phase: "end"})
	add(c14EscStep{Src: "q" + sfx + " := &last" + sfx, Phase: "end"})
	add(c14EscStep{Src: fmt.Sprintf(kind.Place, "(*q"+sfx+")") + " = " + kind.Lits[1], Phase: "end"})
	add(c14EscStep{Src: fmt.Sprintf(kind.Place, "last"+sfx), Want: h.Fmt(kind.Vals[1]), Class: "late-variable", Phase: "end"})
	return steps, true
}

// ---------------------------------------------------------------------------
// execution

type c14EscStats struct {
	Steps, Checks int
}

// c14EscRun executes one scenario on a fresh interpreter; reports the first difference.
func c14EscRun(c *core.Ctx, cas c14EscCase) (st c14EscStats) {
	steps, ok := c14EscProgram(cas, c14IntsCap, "")
	if !ok {
		panic("C14: not a scenario: " + cas.String())
	}
	ir := twin.NewFast()
	for _, s := range steps {
		st.Steps++
		if s.Want == "" {
			if p := twin.Catch(func() { ir.Eval(s.Src) }); p != nil {
				msg := c16OneLineErr(p)
				src := s.Src
				if len(src) > 120 {
					src = src[:120] + "…"
				}
				c.Count("escape_failed: step-fails "+c14EscErrClass(msg)+" fill="+cas.Fill, 1)
				c.Violation("C14|escape|step-fails|"+c14EscErrClass(msg)+"|phase="+s.Phase+"|fill="+cas.Fill,
					fmt.Sprintf("scenario %s: evaluation %q (phase %s, %d scalar slots declared so far) fails although it is valid in-order Go: %s", cas, src, s.Phase, s.Slots, msg), cas)
				return
			}
			continue
		}
		st.Checks++
		c.Eval(1)
		got := ""
		if p := twin.Catch(func() {
			vals, _ := ir.Eval(s.Src)
			if len(vals) != 1 {
				got = fmt.Sprintf("<%d values>", len(vals))
				return
			}
			got = h.Fmt(vals[0].ReflectValue().Interface())
		}); p != nil {
			got = "ERROR: " + c16OneLineErr(p)
		}
		if got != s.Want {
			g, w, src := got, s.Want, s.Src
			if len(src) > 120 {
				src = src[:120] + "…"
				g, w = c14FirstDiff(got, s.Want)
			}
			c.Count("escape_failed: "+s.Class+" fill="+cas.Fill, 1)
			c.Violation("C14|escape|"+s.Class+"|phase="+s.Phase+"|kind="+cas.Kind+"|site="+cas.Site+"|fill="+cas.Fill,
				fmt.Sprintf("scenario %s: phase %s (%d scalar slots declared so far): %s reads %s, in-order Go gives %s", cas, s.Phase, s.Slots, src, g, w), cas)
			return
		}
	}
	return
}

func c14EscErrClass(msg string) string {
	switch {
	case strings.Contains(msg, "attempt to reallocate Env.Ints"):
		return "internal-error-reallocate-Ints-after-address-taken"
	case strings.Contains(msg, "internal error"):
		return "internal-error"
	case strings.Contains(msg, "index out of range"):
		return "index-out-of-range"
	}
	return "other"
}

// c14FirstDiff reduces two long canonical lists to their first differing elements.
func c14FirstDiff(got, want string) (string, string) {
	g, w := strings.Split(got, ","), strings.Split(want, ",")
	for i := range w {
		if i >= len(g) {
			return "<missing>", fmt.Sprintf("element %d = %s", i, w[i])
		}
		if g[i] != w[i] {
			return fmt.Sprintf("element %d = %s", i, g[i]), fmt.Sprintf("element %d = %s", i, w[i])
		}
	}
	if len(got) > 100 {
		got = got[:100] + "…"
	}
	return got, "(a prefix of it)"
}

// c14EscCases enumerates the scenarios of the tier.
//   quick:    every kind x every site with the fill that crosses the capacity 8 variables per statement (boxed kinds:
//             40 boxed variables), plus every fill x every site for the kinds {int, bool, complex128, named-int} / {string, struct-field};
//   thorough: every kind x every site x every fill.
func c14EscCases(thorough bool) []c14EscCase {
	var out []c14EscCase
	seen := map[c14EscCase]bool{}
	add := func(k c14Kind, s c14Site, f c14Fill) {
		cas := c14EscCase{k.Name, s.Name, f.Name}
		if seen[cas] {
			return
		}
		if _, ok := c14EscProgram(cas, 8, "_"); !ok {
			return
		}
		seen[cas] = true
		out = append(out, cas)
	}
	fills := c14Fills()
	full := map[string]bool{"int": true, "bool": true, "complex128": true, "named-int": true, "string": true, "struct-field": true}
	for _, k := range c14Kinds() {
		for _, s := range c14Sites() {
			for _, f := range fills {
				if thorough || full[k.Name] || f.Name == "after:8-per-statement-past-capacity" || f.Name == "after:40-boxed-variables" {
					add(k, s, f)
				}
			}
		}
	}
	return out
}

// ---------------------------------------------------------------------------
// validation of the expectations against compiled Go (all scenarios of the tier, scaled-down fills)

const c14EscGoCapacity = 9

func c14EscGoProgram(id string, cas c14EscCase) (oracle.Prog, string) {
	steps, _ := c14EscProgram(cas, c14EscGoCapacity, "_"+id)
	var decls, body, want []string
	for _, s := range steps {
		switch {
		case s.Want != "":
			body = append(body, "O("+s.Src+")")
			want = append(want, s.Want)
		case s.Decl:
			decls = append(decls, s.Src)
		default:
			body = append(body, s.Src)
			// inside a function body every variable must be used
			if strings.HasPrefix(s.Src, "var ") {
				names := strings.TrimPrefix(s.Src, "var ")
				if i := strings.Index(names, " = "); i >= 0 {
					names = names[:i]
				}
				if i := strings.LastIndex(names, " "); i >= 0 {
					names = names[:i]
				}
				for _, n := range strings.Split(names, ", ") {
					body = append(body, "_ = "+n)
				}
			}
		}
	}
	return oracle.Prog{ID: id, Decls: strings.Join(decls, "\n"), Body: strings.Join(body, "\n")}, strings.Join(want, " ") + " "
}

func c14EscapePrepare(c *core.Ctx) error {
	var progs []oracle.Prog
	wants := map[string]string{}
	names := map[string]string{}
	for i, cas := range c14EscCases(c.Thorough()) {
		id := fmt.Sprintf("e%d", i)
		p, want := c14EscGoProgram(id, cas)
		progs = append(progs, p)
		wants[id] = want
		names[id] = cas.String()
	}
	verdict, err := oracle.Classify("C14esc", progs)
	if err != nil {
		return err
	}
	for _, p := range progs {
		if msg := verdict[p.ID]; msg != "" {
			return fmt.Errorf("escape scenario %s is not valid Go: %s\n%s", names[p.ID], msg, p.Source())
		}
	}
	got, err := oracle.GoResults("C14esc", progs)
	if err != nil {
		return err
	}
	for _, p := range progs {
		if got[p.ID] != wants[p.ID] {
			return fmt.Errorf("escape scenario %s: compiled Go gives %q, the model predicts %q\n%s", names[p.ID], got[p.ID], wants[p.ID], p.Source())
		}
	}
	c.Set("escape_scenarios_validated_against_compiled_go", len(progs))
	return nil
}

func c14EscReplay(c *core.Ctx, raw json.RawMessage) bool {
	var cas c14EscCase
	if err := json.Unmarshal(raw, &cas); err != nil || cas.Kind == "" {
		return false
	}
	for i := 0; i < 5; i++ {
		c14EscRun(c, cas)
	}
	return true
}
