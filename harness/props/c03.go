package props

// C03 — conversions T(x). Every ordered pair of a type alphabet (17 basic kinds, string, []byte, []rune and
// named variants with identical underlying types) × operand shape {variable, typed constant, untyped
// constant}. Acceptance, static type and the value of constant conversions come from std go/types
// (+go/constant); run-time values from natively compiled Go conversions (package c02nat).

import (
	"encoding/json"
	"fmt"
	"go/constant"
	"math"
	"os"
	"reflect"
	"strings"

	"github.com/cosmos72/gomacro/fast"
	xr "github.com/cosmos72/gomacro/xreflect"

	"verif/harness/c02nat"
	"verif/harness/core"
	"verif/harness/h"
	"verif/harness/oracle"
	"verif/harness/twin"
)

type c03Type struct {
	Name  string // type expression as written in programs
	Under string // underlying basic kind, "string", "[]byte" or "[]rune"
	Named bool
}

var c03NamedDecls = `type MyBool bool
type MyInt int
type MyInt2 int
type MyInt8 int8
type MyInt32 int32
type MyInt64 int64
type MyUint8 uint8
type MyUint16 uint16
type MyUint64 uint64
type MyUintptr uintptr
type MyFloat32 float32
type MyFloat64 float64
type MyComplex64 complex64
type MyComplex128 complex128
type MyString string
type MyBytes []byte
type MyRunes []rune
type MyByteElems []MyUint8
`

func c03Types() []c03Type {
	var out []c03Type
	for _, k := range c02nat.Kinds {
		out = append(out, c03Type{k.Name, k.Name, false})
	}
	out = append(out, c03Type{"[]byte", "[]byte", false}, c03Type{"[]rune", "[]rune", false})
	for _, l := range strings.Split(strings.TrimSpace(c03NamedDecls), "\n") {
		f := strings.Fields(l)
		under := f[2]
		if under == "[]MyUint8" {
			under = "[]byte"
		}
		out = append(out, c03Type{f[1], under, true})
	}
	return out
}

func c03TypeByName(name string) *c03Type {
	for _, t := range c03Types() {
		if t.Name == name {
			t := t
			return &t
		}
	}
	return nil
}

func c03Class(t *c03Type) string {
	cl := t.Under
	if k := c02nat.ByName(t.Under); k != nil {
		cl = k.Class.String()
	}
	if t.Named {
		cl = "named-" + cl
	}
	if t.Name == "MyByteElems" {
		cl = "slice-of-named-byte"
	}
	return cl
}

// c03Values returns the operand alphabet of a type (values have the underlying Go type).
func c03Values(t *c03Type, large bool) []interface{} {
	switch t.Under {
	case "string":
		return c02nat.StringValues()
	case "[]byte":
		return c02nat.BytesValues()
	case "[]rune":
		return c02nat.RunesValues()
	}
	k := c02nat.ByName(t.Under)
	vals := append([]interface{}{}, k.Values(large)...)
	if k.IsInteger() {
		// code points of interest for integer → string
		for _, cp := range []int64{65, 0xD7FF, 0xD800, 0xDFFF, 0xE000, 0xFFFD, 0x10FFFF, 0x110000} {
			v := reflect.ValueOf(cp).Convert(k.RT)
			if v.Convert(reflect.TypeOf(int64(0))).Int() == cp {
				vals = append(vals, v.Interface())
			}
		}
	}
	if k.Class == c02nat.Float {
		for _, f := range []float64{-0.5, 0.999, 127, 127.5, 128, -128, -128.5, -129, 255, 255.9, 256, 32767.5, 65535.5, 2147483647, 2147483648, 4294967295, 4294967296, -2147483648, -2147483649,
			9223372036854774784, 9223372036854775808, -9223372036854775808, 18446744073709549568, 18446744073709551616, 3e9, 1e19, 16777217, 1e38, 3.4028235677973366e38, 3.5e38, 1e-46} {
			vals = append(vals, reflect.ValueOf(f).Convert(k.RT).Interface())
		}
	}
	if large && k.IsInteger() && k.Bits == 16 {
		// thorough: every 16-bit value (the boundary alphabet first, then the rest)
		seen := map[interface{}]bool{}
		for _, v := range vals {
			seen[v] = true
		}
		for i := 0; i < 65536; i++ {
			v := reflect.ValueOf(uint16(i)).Convert(k.RT).Interface()
			if !seen[v] {
				vals = append(vals, v)
			}
		}
	}
	return vals
}

// c03Lits: untyped constant operands.
var c03Lits = []string{"0", "1", "-1", "65", "127", "128", "255", "256", "-128", "-129", "32768", "65535", "65536", "0xD800", "0x10FFFF", "0x110000", "1<<31", "1<<31 - 1", "-1<<31", "1<<32", "1<<63 - 1", "1<<63", "-1<<63", "-1<<63 - 1", "1<<64 - 1", "1<<64",
	"1.0", "1.5", "-0.0", "0.1", "255.0", "256.0", "1e10", "1e40", "-1e40", "1e-50", "1e400", "16777217.0", "3.4028235677973366e38", "1<<24 + 1", "1<<53 + 1",
	"'a'", "'\\x00'", "'日'", "'\\U0010FFFF'", `"abc"`, `""`, `"é"`, `"\xff"`, "true", "false", "1i", "2 + 0i", "1.5 + 0i", "65 + 0i", "1e40 + 0i", "(0.1 + 0.1i)", "nil"}

// typed constants per source type
func c03TypedConsts(t *c03Type) []string {
	switch t.Under {
	case "string":
		return []string{`""`, `"a"`, `"é"`, `"\xff"`, `"日本"`}
	case "[]byte", "[]rune":
		return nil
	}
	k := c02nat.ByName(t.Under)
	var out []string
	for _, v := range c02ConstAlphabet(k) {
		if l, ok := k.Lit(v); ok {
			out = append(out, l)
		}
	}
	fits := func(v int64) bool {
		x := reflect.ValueOf(v).Convert(k.RT)
		return x.Convert(reflect.TypeOf(int64(0))).Int() == v
	}
	switch k.Class {
	case c02nat.Int, c02nat.Uint:
		for _, v := range []int64{65, 127, 128, 255, 256, 0xD800, 0x10FFFF, 0x110000, 1 << 31, 1<<53 + 1} {
			if fits(v) {
				out = append(out, fmt.Sprint(v))
			}
		}
	case c02nat.Float:
		out = append(out, "255", "256", "-0.5", "0.999", "3e9", "16777217", "1<<53 + 1")
		if k.Bits == 64 {
			out = append(out, "1e40", "1e-50")
		}
	case c02nat.Complex:
		out = append(out, "65", "1.5", "16777217")
		if k.Bits == 128 {
			out = append(out, "1e40")
		}
	}
	return out
}

type c03Case struct {
	Src     string `json:"src_type"`
	Dst     string `json:"dst_type"`
	Operand string `json:"operand"` // var | typed-const | untyped-const
	Lit     string `json:"literal,omitempty"`
	VI      int    `json:"value_index,omitempty"`
	Large   bool   `json:"large_alphabet,omitempty"`
	Expr    string `json:"expr,omitempty"`
	Value   string `json:"value,omitempty"`
	Want    string `json:"want,omitempty"`
	Got     string `json:"got,omitempty"`
}

type c03World struct {
	ir    *twin.Interp
	scope *oracle.PkgScope
	nfun  int
	types map[string]xr.Type
}

func newC03World() *c03World {
	w := &c03World{ir: twin.NewFast(), types: map[string]xr.Type{}}
	w.ir.Eval(c03NamedDecls)
	var err error
	w.scope, err = oracle.NewPkgScope(c03NamedDecls)
	if err != nil {
		panic(err)
	}
	return w
}

// typeOf returns the interpreter's type for a type expression.
func (w *c03World) typeOf(name string) xr.Type {
	if t, ok := w.types[name]; ok {
		return t
	}
	e := w.ir.Compile("(*" + name + ")(nil)")
	t := e.Type.Elem()
	w.types[name] = t
	return t
}

func c03ErrClass(msg string) string {
	switch {
	case strings.Contains(msg, "overflows"):
		return "constant-overflows"
	case strings.Contains(msg, "truncated"):
		return "constant-truncated"
	case strings.Contains(msg, "cannot convert"), strings.Contains(msg, "invalid"):
		return "not-convertible"
	}
	return "other"
}

func c03Sig(cs *c03Case, failure string) string {
	s, d := c03TypeByName(cs.Src), c03TypeByName(cs.Dst)
	sc := "untyped"
	if s != nil {
		sc = c03Class(s)
	} else if cs.Operand == "untyped-const" {
		sc = "untyped-" + c03LitClass(cs.Lit)
	}
	return fmt.Sprintf("C03|%s->%s|%s|%s", sc, c03Class(d), cs.Operand, failure)
}

func c03LitClass(lit string) string {
	switch {
	case lit == "nil":
		return "nil"
	case lit == "true" || lit == "false":
		return "bool"
	case strings.HasPrefix(lit, `"`):
		return "string"
	case strings.HasPrefix(lit, "'"):
		return "rune"
	case strings.Contains(lit, "i"):
		return "complex"
	case strings.ContainsAny(lit, ".e") && !strings.HasPrefix(lit, "0x"):
		return "float"
	}
	return "int"
}

// c03FromConst converts a go/constant value to a Go value of the destination's underlying kind.
func c03FromConst(v constant.Value, under string) (interface{}, bool) {
	k := c02nat.ByName(under)
	if k == nil {
		return nil, false
	}
	switch k.Class {
	case c02nat.Bool:
		if v.Kind() != constant.Bool {
			return nil, false
		}
		return constant.BoolVal(v), true
	case c02nat.String:
		if v.Kind() != constant.String {
			return nil, false
		}
		return constant.StringVal(v), true
	case c02nat.Int:
		i, ok := constant.Int64Val(constant.ToInt(v))
		if !ok {
			return nil, false
		}
		return reflect.ValueOf(i).Convert(k.RT).Interface(), true
	case c02nat.Uint:
		u, ok := constant.Uint64Val(constant.ToInt(v))
		if !ok {
			return nil, false
		}
		return reflect.ValueOf(u).Convert(k.RT).Interface(), true
	case c02nat.Float:
		f := constant.ToFloat(v)
		if f.Kind() != constant.Float && f.Kind() != constant.Int {
			return nil, false
		}
		if k.Bits == 32 {
			x, _ := constant.Float32Val(f)
			return x, true
		}
		x, _ := constant.Float64Val(f)
		return x, true
	case c02nat.Complex:
		c := constant.ToComplex(v)
		if c.Kind() != constant.Complex {
			return nil, false
		}
		re, im := constant.Real(c), constant.Imag(c)
		if k.Bits == 64 {
			a, _ := constant.Float32Val(re)
			b, _ := constant.Float32Val(im)
			return complex(a, b), true
		}
		a, _ := constant.Float64Val(re)
		b, _ := constant.Float64Val(im)
		return complex(a, b), true
	}
	return nil, false
}

type c03Runner struct {
	c *core.Ctx
	w *c03World
}

func (r *c03Runner) world() *c03World {
	if r.w == nil {
		r.w = newC03World()
	}
	return r.w
}

// evalExpr compiles and runs an expression; returns compile error text, the canonical value, the static type.
func (w *c03World) evalExpr(src string) (cerr string, got string, t xr.Type) {
	var e *fast.Expr
	if p := twin.Catch(func() { e = w.ir.Compile(src) }); p != nil {
		return fmt.Sprint(p), "", nil
	}
	if e == nil {
		return "", "<no expression>", nil
	}
	var v xr.Value
	if p := twin.Catch(func() { v, _ = w.ir.RunExpr1(e) }); p != nil {
		return "", "PANIC(" + h.PanicClass(p) + ")", e.Type
	}
	if !v.IsValid() {
		return "", "<invalid value>", e.Type
	}
	return "", h.Fmt(v.Interface()), e.Type
}

func (r *c03Runner) checkType(cs *c03Case, t xr.Type) {
	w := r.world()
	want := w.typeOf(cs.Dst)
	if t == nil || !t.IdenticalTo(want) {
		r.violation(c03Sig(cs, "static-type"), fmt.Sprintf("%s: static type is %v, Go says %s", cs.Expr, t, cs.Dst), *cs)
	}
}

func (r *c03Runner) violation(sig, what string, cs c03Case) {
	devSig(r.c, sig, what)
	r.c.Violation(sig, what, cs)
}

// constCase: T(constant). go/types decides acceptance, and the value if the result is constant.
func (r *c03Runner) constCase(cs c03Case) {
	c, w := r.c, r.world()
	d := c03TypeByName(cs.Dst)
	operand := cs.Lit
	decl := ""
	if cs.Operand == "typed-const" {
		w.nfun++
		name := fmt.Sprintf("c03k%d", w.nfun)
		decl = fmt.Sprintf("const %s %s = %s", name, cs.Src, cs.Lit)
		operand = name
	}
	cs.Expr = cs.Dst + "(" + operand + ")"
	if strings.HasPrefix(cs.Dst, "[]") {
		cs.Expr = "(" + cs.Dst + ")(" + operand + ")"
	}
	c.Eval(1)
	var info oracle.ExprInfo
	if decl != "" {
		sc, err := oracle.NewPkgScope(c03NamedDecls + decl + "\n")
		if err != nil {
			// the constant declaration itself is invalid Go (e.g. const c float32 = 1e40): not a conversion case
			c.Count("typed_constants_not_declarable", 1)
			return
		}
		info = sc.Eval(cs.Expr)
		if p := twin.Catch(func() { w.ir.Eval(decl) }); p != nil {
			r.violation(c03Sig(&cs, "constant-declaration-rejected"), fmt.Sprintf("valid constant declaration rejected: %s: %v", decl, p), cs)
			return
		}
		cs.Expr = decl + "; " + cs.Expr
	} else {
		info = w.scope.Eval(cs.Expr)
	}
	expr := cs.Dst + "(" + operand + ")"
	if strings.HasPrefix(cs.Dst, "[]") {
		expr = "(" + cs.Dst + ")(" + operand + ")"
	}
	cerr, got, t := w.evalExpr(expr)
	if info.Err != nil {
		c.Count("conversions_go_rejects", 1)
		c.Nontrivial("reject|" + cs.Src + "|" + cs.Dst + "|" + cs.Operand + "|" + cs.Lit)
		if cerr == "" {
			cs.Want, cs.Got = "compile error: "+info.Err.Error(), got
			r.violation(c03Sig(&cs, "accepts-invalid-go-"+c03ErrClass(info.Err.Error())), fmt.Sprintf("Go rejects %s (%v) but the interpreter evaluates it to %s", cs.Expr, info.Err, got), cs)
		}
		return
	}
	if cerr != "" {
		cs.Got = "COMPILE-ERROR: " + cerr
		r.violation(c03Sig(&cs, "rejects-valid-go"), fmt.Sprintf("valid Go conversion %s rejected by the interpreter: %s", cs.Expr, oneLineErr(cerr)), cs)
		return
	}
	// expected value
	var want interface{}
	ok := false
	if info.Const != nil {
		want, ok = c03FromConst(info.Const, d.Under)
		c.Count("constant_results", 1)
	} else {
		// non-constant result (string → []byte etc.): convert the operand's value natively
		sv, sok := r.operandValue(&cs, w)
		if sok {
			sunder := c03Under(sv)
			want, ok = c02nat.Conv(sunder, d.Under, sv)
		}
	}
	if !ok {
		c.Count("constant_cases_without_reference_value", 1)
		return
	}
	cs.Want, cs.Got = h.Fmt(want), got
	if cs.Want != got {
		r.violation(c03Sig(&cs, "wrong-value"), fmt.Sprintf("%s: Go gives %s, interpreter %s", cs.Expr, cs.Want, got), cs)
	} else {
		r.checkType(&cs, t)
	}
	c.Nontrivial("const|" + cs.Src + "|" + cs.Dst + "|" + cs.Lit + "|" + cs.Want)
	if c.WantSample() && cs.Operand == "typed-const" && cs.Src != cs.Dst {
		c.Sample(map[string]string{"expr": cs.Expr, "result": cs.Want})
	}
}

func c03Under(v interface{}) string {
	switch v.(type) {
	case []byte:
		return "[]byte"
	case []rune:
		return "[]rune"
	}
	return reflect.TypeOf(v).Kind().String()
}

// operandValue evaluates the constant operand itself with go/types and returns it as a Go value.
func (r *c03Runner) operandValue(cs *c03Case, w *c03World) (interface{}, bool) {
	src := cs.Lit
	if cs.Operand == "typed-const" {
		src = cs.Src + "(" + cs.Lit + ")"
	}
	info := w.scope.Eval(src)
	if info.Err != nil || info.Const == nil {
		return nil, false
	}
	under := ""
	if s := c03TypeByName(cs.Src); s != nil {
		under = s.Under
	} else {
		switch info.Type {
		case "untyped string":
			under = "string"
		default:
			return nil, false
		}
	}
	return c03FromConst(info.Const, under)
}

// varCase: func(x S) D { return D(x) } over the whole operand alphabet of S.
func (r *c03Runner) varCase(cs c03Case, large bool, only bool) {
	c, w := r.c, r.world()
	s, d := c03TypeByName(cs.Src), c03TypeByName(cs.Dst)
	w.nfun++
	fname := fmt.Sprintf("c03f%d", w.nfun)
	conv := cs.Dst + "(x)"
	if strings.HasPrefix(cs.Dst, "[]") {
		conv = "(" + cs.Dst + ")(x)"
	}
	src := fmt.Sprintf("func %s(x %s) %s { return %s }", fname, cs.Src, cs.Dst, conv)
	cs.Expr = src
	c.Eval(1)
	_, _, gerr := oracle.CheckSource("package p\n" + c03NamedDecls + strings.Replace(src, fname, "f", 1) + "\n")
	cerrv := twin.Catch(func() { w.ir.Eval(src) })
	if gerr != nil {
		c.Count("conversions_go_rejects", 1)
		c.Nontrivial("reject|" + cs.Src + "|" + cs.Dst + "|var")
		if cerrv == nil {
			cs.Want = "compile error: " + gerr.Error()
			r.violation(c03Sig(&cs, "accepts-invalid-go-not-convertible"), fmt.Sprintf("Go rejects the conversion (%v) but the interpreter compiled:\n%s", gerr, src), cs)
		}
		return
	}
	if cerrv != nil {
		cs.Got = fmt.Sprint("COMPILE-ERROR: ", cerrv)
		r.violation(c03Sig(&cs, "rejects-valid-go"), fmt.Sprintf("valid Go conversion rejected by the interpreter: %s\n%s", oneLineErr(fmt.Sprint(cerrv)), src), cs)
		return
	}
	// static type of the conversion expression with a variable operand
	gname := fmt.Sprintf("c03g%d", w.nfun)
	w.ir.Eval(fmt.Sprintf("var %s %s", gname, cs.Src))
	if p := twin.Catch(func() {
		e := w.ir.Compile(strings.Replace(conv, "(x)", "("+gname+")", 1))
		tcs := cs
		tcs.Expr = strings.Replace(conv, "(x)", "("+gname+")", 1) + " with var " + gname + " " + cs.Src
		r.checkType(&tcs, e.Type)
	}); p != nil {
		r.violation(c03Sig(&cs, "rejects-valid-go"), fmt.Sprintf("conversion of a global variable rejected: %v", p), cs)
	}
	fv := w.ir.ValueOf(fname).ReflectValue()
	ptype := fv.Type().In(0)
	reported := 0
	for vi, v := range c03Values(s, large) {
		if only && vi != cs.VI {
			continue
		}
		want, ok := c02nat.Conv(s.Under, d.Under, v)
		if !ok {
			c.Count("values_without_defined_result", 1)
			continue
		}
		arg := reflect.ValueOf(v)
		if arg.Type() != ptype {
			arg = arg.Convert(ptype)
		}
		var out []reflect.Value
		got := ""
		if p := twin.Catch(func() { out = fv.Call([]reflect.Value{arg}) }); p != nil {
			got = "PANIC(" + h.PanicClass(p) + ")"
		} else {
			got = h.Fmt(out[0].Interface())
		}
		c.Eval(1)
		ws := h.Fmt(want)
		if vi >= 600 {
			// exhaustive 16-bit sweep: counted, not keyed one by one
			c.Count("values_of_exhaustive_16bit_sweep", 1)
		} else if ws != h.Fmt(v) || s.Under != d.Under {
			c.Nontrivial("var|" + cs.Src + "|" + cs.Dst + "|" + h.Fmt(v))
		}
		if got != ws {
			if reported < 3 {
				reported++
				vcs := cs
				vcs.VI, vcs.Value, vcs.Want, vcs.Got, vcs.Large = vi, h.Fmt(v), ws, got, large
				r.violation(c03Sig(&cs, "wrong-value"), fmt.Sprintf("%s(%s): Go gives %s, interpreter %s   [%s]", cs.Dst, vcs.Value, ws, got, src), vcs)
			} else {
				c.Count("mismatching_values_not_listed", 1)
			}
		}
		if c.WantSample() && vi == 3 && s.Under != d.Under {
			c.Sample(map[string]string{"function": src, "x": h.Fmt(v), "result": ws})
		}
	}
}

func c03ForEach(c *core.Ctx, emit func(i int, cs c03Case)) int {
	n := 0
	out := func(cs c03Case) { emit(n, cs); n++ }
	types := c03Types()
	for _, s := range types {
		for _, d := range types {
			out(c03Case{Src: s.Name, Dst: d.Name, Operand: "var"})
		}
	}
	for _, s := range types {
		for _, lit := range c03TypedConsts(&s) {
			for _, d := range types {
				out(c03Case{Src: s.Name, Dst: d.Name, Operand: "typed-const", Lit: lit})
			}
		}
	}
	for _, lit := range c03Lits {
		for _, d := range types {
			out(c03Case{Src: "", Dst: d.Name, Operand: "untyped-const", Lit: lit})
		}
	}
	return n
}

var c03Rule = "every ordered pair of 37 types (17 basic kinds incl. string, []byte, []rune, 18 named types with identical underlying types incl. a second named int and a slice of named bytes) × operand {variable: func(x S) D {return D(x)} called on the whole value alphabet of S (boundary values, all 2^k/2^k±1, code points around the surrogate/max-rune limits, floats at every integer kind's range limits; float→int and float64→float32 only where the spec defines the result) | " +
	"typed constant of S (constant alphabet incl. min/max/code points) | untyped constant (%d literals: integers at every width limit, floats, runes, strings, booleans, complex, nil)}; acceptance + static type + constant value from go/types, run-time value from native Go conversions. " +
	"non-trivial = distinct (pair, operand) that Go rejects, or whose result differs from the operand or changes kind"

func c03Run(c *core.Ctx) {
	c.Rule(fmt.Sprintf(c03Rule, len(c03Lits)))
	c.Assume("std go/types + go/constant decide acceptance and constant results; natively compiled conversions decide run-time values",
		"float→integer conversions of out-of-range values and float64→float32 overflow are implementation-defined and skipped")
	r := &c03Runner{c: c}
	filter := os.Getenv("VERIF_C03_FILTER")
	if filter != "" {
		c.Cap("development filter active")
	}
	large := c.Thorough()
	expired := false
	n := c03ForEach(c, func(i int, cs c03Case) {
		if expired || !c.Mine(i) {
			return
		}
		if filter != "" && !strings.Contains(cs.Src+"|"+cs.Dst+"|"+cs.Operand+"|"+cs.Lit, filter) {
			return
		}
		if c.Expired() {
			expired = true
			return
		}
		if cs.Operand == "var" {
			r.varCase(cs, large, false)
		} else {
			r.constCase(cs)
		}
	})
	c.Set("conversion_cases", n)
	c.Set("types", len(c03Types()))
}

func c03Replay(c *core.Ctx, raw json.RawMessage) {
	var cs c03Case
	if err := json.Unmarshal(raw, &cs); err != nil {
		panic(err)
	}
	r := &c03Runner{c: c}
	cs.Want, cs.Got, cs.Expr = "", "", ""
	if cs.Operand == "var" {
		r.varCase(cs, cs.Large, cs.Value != "")
	} else {
		r.constCase(cs)
	}
}

func init() {
	core.Register(&core.Check{ID: "C03", Level: "exploration", Workers: -1, Run: c03Run, Replay: c03Replay})
}

var _ = math.MaxInt8
