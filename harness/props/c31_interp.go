package props

// C31 part C — through the interpreter: `import c31p "path"` in a fresh fast interpreter, then every bound name of
// the table is evaluated (`c31p.F`, `&c31p.V`, `c31p.C`, `(*c31p.T)(nil)`, `new(c31p.T)`) and compared with the table:
// functions by code pointer and type, variables by address and type, typed constants by type and value, untyped
// constants by the kind and exact value of the compiled (still untyped) expression and by their value after an explicit
// conversion, types by reflect.Type identity.

import (
	"fmt"
	"go/constant"
	"go/token"
	"math/big"
	"os"
	"reflect"
	"sort"
	"strings"
	"time"

	"github.com/cosmos72/gomacro/base/untyped"
	"github.com/cosmos72/gomacro/fast"
	"github.com/cosmos72/gomacro/imports"

	"verif/harness/core"
	"verif/harness/twin"
)

// packages of the quick tier (those that have a table on this platform are used)
var c31QuickPkgs = []string{"strings", "sort", "unicode", "unicode/utf8", "math", "os", "io", "fmt", "time", "sync", "sync/atomic", "net/http",
	"reflect", "encoding/json", "container/heap", "go/ast", "go/token", "math/big", "bytes", "errors", "context", "syscall",
	"bufio", "strconv", "go/types", "unsafe", "github.com/peterh/liner", "github.com/mattn/go-runewidth"}

// c31Trace prints timing notes to stderr when C31_TRACE is set (diagnostics only, never part of a verdict).
func c31Trace(format string, args ...interface{}) {
	if os.Getenv("C31_TRACE") != "" {
		fmt.Fprintf(os.Stderr, "c31: "+format+"\n", args...)
	}
}

func c31InterpPaths(c *core.Ctx) []string {
	if c.Thorough() {
		return c31Paths(true)
	}
	var l []string
	for _, p := range c31QuickPkgs {
		if _, ok := imports.Packages[p]; ok {
			l = append(l, p)
		}
	}
	sort.Strings(l)
	return l
}

// c31ParseReal parses "123", "a/b" or a big.Float 'p' text exactly (no gomacro code involved).
func c31ParseReal(s string) (constant.Value, bool) {
	if strings.IndexByte(s, '/') >= 0 {
		r, ok := new(big.Rat).SetString(s)
		if !ok {
			return nil, false
		}
		return constant.Make(r), true
	}
	if n, ok := new(big.Int).SetString(s, 10); ok {
		return constant.Make(n), true
	}
	f, _, err := big.ParseFloat(s, 0, 4096, big.ToNearestEven)
	if err != nil {
		return nil, false
	}
	return constant.Make(f), true
}

// c31ParseUntyped is the harness's own reading of an Untypeds table string "kind:value".
func c31ParseUntyped(s string) (kind string, val constant.Value, ok bool) {
	i := strings.IndexByte(s, ':')
	if i < 0 {
		return "", nil, false
	}
	kind, str := s[:i], s[i+1:]
	switch kind {
	case "bool":
		return kind, constant.MakeBool(str == "true"), str == "true" || str == "false"
	case "string":
		return kind, constant.MakeString(str), true
	case "int", "rune", "float":
		val, ok = c31ParseReal(str)
		return kind, val, ok
	case "complex":
		j := strings.IndexByte(str, ':')
		if j < 0 {
			val, ok = c31ParseReal(str)
			return kind, val, ok
		}
		re, ok1 := c31ParseReal(str[:j])
		im, ok2 := c31ParseReal(str[j+1:])
		if !ok1 || !ok2 {
			return kind, nil, false
		}
		return kind, constant.BinaryOp(constant.ToComplex(re), token.ADD, constant.MakeImag(im)), true
	}
	return kind, nil, false
}

func c31ConstEq(a, b constant.Value) (eq bool) {
	if a == nil || b == nil || a.Kind() == constant.Unknown || b.Kind() == constant.Unknown {
		return false
	}
	num := func(k constant.Kind) bool { return k == constant.Int || k == constant.Float || k == constant.Complex }
	if a.Kind() != b.Kind() && !(num(a.Kind()) && num(b.Kind())) {
		return false
	}
	if p := core.Catch(func() { eq = constant.Compare(a, token.EQL, b) }); p != nil {
		return false
	}
	return eq
}

func c31Rat(c constant.Value) *big.Rat {
	switch x := constant.Val(c).(type) {
	case int64:
		return new(big.Rat).SetInt64(x)
	case *big.Int:
		return new(big.Rat).SetInt(x)
	case *big.Rat:
		return x
	case *big.Float:
		r, _ := x.Rat(nil)
		return r
	}
	return nil
}

var c31UntypedKinds = map[string]untyped.Kind{"bool": untyped.Bool, "int": untyped.Int, "rune": untyped.Rune,
	"float": untyped.Float, "complex": untyped.Complex, "string": untyped.String}

type c31Interp struct {
	ir   *twin.Interp
	path string
	pkg  imports.Package
}

func newC31Interp(path string) (*c31Interp, error) {
	pkg, ok := imports.Packages[path]
	if !ok {
		return nil, fmt.Errorf("no table for %q", path)
	}
	ci := &c31Interp{ir: twin.NewFast(), path: path, pkg: pkg}
	if p := core.Catch(func() { ci.ir.Eval(fmt.Sprintf("import c31p %q", path)) }); p != nil {
		return nil, fmt.Errorf("import %q panics: %v", path, p)
	}
	return ci, nil
}

// eval1 compiles and runs src, returning its single value.
func (ci *c31Interp) eval1(src string) (e *fast.Expr, rv reflect.Value, err error) {
	if p := core.Catch(func() {
		e = ci.ir.Compile(src)
		vs, _ := ci.ir.RunExpr(e)
		if len(vs) != 1 {
			panic(fmt.Sprintf("%d values", len(vs)))
		}
		rv = vs[0].ReflectValue()
	}); p != nil {
		return nil, reflect.Value{}, fmt.Errorf("%v", p)
	}
	return e, rv, nil
}

func c31ShortStr(s string) string {
	if len(s) > 100 {
		return s[:50] + "…" + s[len(s)-30:]
	}
	return s
}

// classOf tells how a table entry has to be observed (decided from the table itself, like fast/import.go must).
func (ci *c31Interp) classOf(name string) string {
	if _, ok := ci.pkg.Untypeds[name]; ok {
		return "untyped"
	}
	bv, ok := ci.pkg.Binds[name]
	if !ok || !bv.IsValid() {
		return "invalid"
	}
	if bv.CanAddr() {
		return "var"
	}
	if bv.Kind() == reflect.Func {
		return "func"
	}
	return "const"
}

// checkName compares one bound name seen through the interpreter with the table. Returns "" or a description.
func (ci *c31Interp) checkName(name, class string) string {
	q := "c31p." + name
	bv := ci.pkg.Binds[name]
	switch class {
	case "invalid":
		return "table entry is an invalid reflect.Value"
	case "func":
		_, rv, err := ci.eval1(q)
		if err != nil {
			return "evaluating " + q + " fails: " + err.Error()
		}
		if rv.Kind() != reflect.Func || rv.Type() != bv.Type() {
			return fmt.Sprintf("interpreter sees %v, table binds a %v", rv.Type(), bv.Type())
		}
		if rv.Pointer() != bv.Pointer() {
			return fmt.Sprintf("interpreter sees function at %#x, table binds %#x", rv.Pointer(), bv.Pointer())
		}
	case "var":
		_, rv, err := ci.eval1("&" + q)
		if err != nil {
			return "evaluating &" + q + " fails: " + err.Error()
		}
		if rv.Kind() != reflect.Ptr || rv.Type() != reflect.PtrTo(bv.Type()) {
			return fmt.Sprintf("&%s has type %v in the interpreter, table binds a variable of type %v", name, rv.Type(), bv.Type())
		}
		if rv.Pointer() != bv.Addr().Pointer() {
			return fmt.Sprintf("&%s is %#x in the interpreter, the table binds the variable at %#x", name, rv.Pointer(), bv.Addr().Pointer())
		}
		// reading the variable gives its current content (same type)
		_, rv2, err := ci.eval1(q)
		if err != nil {
			return "evaluating " + q + " fails: " + err.Error()
		}
		if rv2.Type() != bv.Type() {
			return fmt.Sprintf("%s has type %v in the interpreter, table binds a variable of type %v", name, rv2.Type(), bv.Type())
		}
	case "const":
		e, rv, err := ci.eval1(q)
		if err != nil {
			return "evaluating " + q + " fails: " + err.Error()
		}
		if rv.Type() != bv.Type() {
			return fmt.Sprintf("interpreter sees type %v, table binds %v", rv.Type(), bv.Type())
		}
		if !rv.CanInterface() || !bv.CanInterface() || rv.Interface() != bv.Interface() {
			return fmt.Sprintf("interpreter sees %v, table binds %v", rv, bv)
		}
		if !e.Const() {
			return fmt.Sprintf("typed constant %v (%v) is exposed as a non-constant expression", bv, bv.Type())
		}
	case "untyped":
		s := ci.pkg.Untypeds[name]
		kind, want, ok := c31ParseUntyped(s)
		if !ok {
			return fmt.Sprintf("Untypeds entry %q is malformed", c31ShortStr(s))
		}
		var e *fast.Expr
		if p := core.Catch(func() { e = ci.ir.Comp.Compile(ci.ir.Parse(q)) }); p != nil {
			return fmt.Sprintf("compiling %s fails: %v", q, p)
		}
		if e == nil || !e.Const() || !e.Untyped() {
			return fmt.Sprintf("untyped constant (table %q) is not exposed as an untyped constant expression: %v", c31ShortStr(s), e)
		}
		lit, ok := e.Value.(fast.UntypedLit)
		if !ok {
			return fmt.Sprintf("untyped constant expression carries a %T", e.Value)
		}
		if lit.Kind != c31UntypedKinds[kind] {
			return fmt.Sprintf("interpreter sees untyped kind %v, table says %q", lit.Kind, c31ShortStr(s))
		}
		if !c31ConstEq(lit.Val, want) {
			return fmt.Sprintf("interpreter sees untyped value %v, table says %q", lit.Val, c31ShortStr(s))
		}
		// explicit conversion to a type that can hold the value
		var conv string
		var check func(rv reflect.Value) bool
		switch kind {
		case "bool":
			conv, check = "bool", func(rv reflect.Value) bool { return rv.Bool() == constant.BoolVal(want) }
		case "string":
			conv, check = "string", func(rv reflect.Value) bool { return rv.String() == constant.StringVal(want) }
		case "int", "rune":
			if i, ok := constant.Int64Val(want); ok {
				conv, check = "int64", func(rv reflect.Value) bool { return rv.Int() == i }
			} else if u, ok := constant.Uint64Val(want); ok {
				conv, check = "uint64", func(rv reflect.Value) bool { return rv.Uint() == u }
			} else {
				f, _ := c31Rat(want).Float64()
				conv, check = "float64", func(rv reflect.Value) bool { return rv.Float() == f }
			}
		case "float":
			f, _ := c31Rat(want).Float64()
			conv, check = "float64", func(rv reflect.Value) bool { return rv.Float() == f }
		case "complex":
			re, _ := c31Rat(constant.Real(want)).Float64()
			im, _ := c31Rat(constant.Imag(want)).Float64()
			conv, check = "complex128", func(rv reflect.Value) bool { return rv.Complex() == complex(re, im) }
		}
		_, rv, err := ci.eval1(conv + "(" + q + ")")
		if err != nil {
			return fmt.Sprintf("evaluating %s(%s) fails: %v", conv, q, err)
		}
		if rv.Type().String() != conv || !check(rv) {
			return fmt.Sprintf("%s(%s) evaluates to %v (%v), table says %q", conv, q, rv, rv.Type(), c31ShortStr(s))
		}
	}
	return ""
}

func (ci *c31Interp) checkType(name string) string {
	t := ci.pkg.Types[name]
	if t == nil {
		return "table binds a nil reflect.Type"
	}
	q := "c31p." + name
	_, rv, err := ci.eval1("(*" + q + ")(nil)")
	if err != nil {
		return "evaluating (*" + q + ")(nil) fails: " + err.Error()
	}
	if rv.Type() != reflect.PtrTo(t) {
		return fmt.Sprintf("(*%s)(nil) has type %v in the interpreter, the table binds %v (%s.%s)", name, rv.Type(), t, t.PkgPath(), t.Name())
	}
	if t.Kind() != reflect.Interface {
		_, rv, err := ci.eval1("new(" + q + ")")
		if err != nil {
			return "evaluating new(" + q + ") fails: " + err.Error()
		}
		if rv.Type() != reflect.PtrTo(t) || rv.IsNil() {
			return fmt.Sprintf("new(%s) has type %v in the interpreter, the table binds %v", name, rv.Type(), t)
		}
	}
	return ""
}

func c31BoundNames(pkg imports.Package) []string {
	seen := map[string]bool{}
	var names []string
	for n := range pkg.Binds {
		if !seen[n] {
			seen[n] = true
			names = append(names, n)
		}
	}
	for n := range pkg.Untypeds {
		if !seen[n] {
			seen[n] = true
			names = append(names, n)
		}
	}
	sort.Strings(names)
	return names
}

func c31RunInterp(c *core.Ctx) {
	sampled := false
	for i, path := range c31InterpPaths(c) {
		if !c.Mine(i) {
			continue
		}
		if c.Expired() {
			return
		}
		c.Count("C_packages", 1)
		t0 := time.Now()
		ci, err := newC31Interp(path)
		c31Trace("C import %s: %v", path, time.Since(t0))
		if err != nil {
			c.Violation("C31|interp|"+path, err.Error(), c31Case{Part: "C", Pkg: path})
			continue
		}
		for _, name := range c31BoundNames(ci.pkg) {
			class := ci.classOf(name)
			c.Eval(1)
			c.Count("C_"+class, 1)
			if class != "func" {
				c.Nontrivial("C|" + class + "|" + path + "." + name)
			}
			if what := ci.checkName(name, class); what != "" {
				c.Violation("C31|interp|"+path+"."+name, fmt.Sprintf("%s.%s (%s): %s", path, name, class, what), c31Case{Part: "C", Pkg: path, Name: name, Class: class})
			} else if !sampled && class == "untyped" && (c.Shard == 1 || c.NShards == 1) {
				sampled = true
				c.Sample(map[string]interface{}{"part": "C", "name": path + "." + name, "class": class, "table": c31ShortStr(ci.pkg.Untypeds[name]), "interpreter": "same kind and exact value; explicit conversion agrees"})
			}
		}
		c31Trace("C names %s: %v", path, time.Since(t0))
		var tnames []string
		for n := range ci.pkg.Types {
			tnames = append(tnames, n)
		}
		sort.Strings(tnames)
		for _, name := range tnames {
			c.Eval(1)
			c.Count("C_type", 1)
			if ci.pkg.Types[name] != nil && ci.pkg.Types[name].Kind() == reflect.Interface {
				c.Nontrivial("C|iface-type|" + path + "." + name)
			}
			if what := ci.checkType(name); what != "" {
				c.Violation("C31|interp|"+path+"."+name, fmt.Sprintf("%s.%s (type): %s", path, name, what), c31Case{Part: "C", Pkg: path, Name: name, Class: "type"})
			}
		}
		c31Trace("C done %s: %v", path, time.Since(t0))
	}
}

func c31ReplayInterp(c *core.Ctx, cs *c31Case) {
	ci, err := newC31Interp(cs.Pkg)
	if err != nil {
		c.Violation("C31|interp|"+cs.Pkg, err.Error(), cs)
		return
	}
	if cs.Name == "" {
		return
	}
	var what string
	if cs.Class == "type" {
		what = ci.checkType(cs.Name)
	} else {
		what = ci.checkName(cs.Name, ci.classOf(cs.Name))
	}
	if what != "" {
		c.Violation("C31|interp|"+cs.Pkg+"."+cs.Name, fmt.Sprintf("%s.%s (%s): %s", cs.Pkg, cs.Name, cs.Class, what), cs)
	}
}
