package props

// C27 — reported source positions are exact across chunks and line offsets.
// (a) etoken.FileSet against go/token.FileSet for every sequence of AddFile(size, line offset) and every Pos;
// (b) multi-chunk sources with one error token at every slot of the last chunk, evaluated through EvalFile,
//     EvalReader and a scripted REPL; the reported file:line:col must be the token's position in the original text.

import (
	"bytes"
	"encoding/json"
	"fmt"
	stdscanner "go/scanner"
	"go/token"
	"io"
	"io/ioutil"
	"os"
	"path/filepath"
	"regexp"
	"strconv"
	"strings"

	"github.com/cosmos72/gomacro/base"
	"github.com/cosmos72/gomacro/fast"
	"github.com/cosmos72/gomacro/go/etoken"

	"verif/harness/core"
)

func init() {
	core.Register(&core.Check{ID: "C27", Level: "exploration", Workers: -1, Run: c27Run, Replay: c27Replay})
}

// ---------------------------------------------------------------------------
// (a) file sets

type c27FileSpec struct {
	Size int `json:"size"`
	Line int `json:"line_offset"`
}

var c27Contents = map[int]string{0: "", 1: "x", 10: "ab\ncde\nfgh"}

func c27CheckFileSet(c *core.Ctx, specs []c27FileSpec) (evals int) {
	sfs := token.NewFileSet()
	gfs := etoken.NewFileSet()
	var sfiles []*token.File
	var gfiles []*etoken.File
	cas := map[string]interface{}{"kind": "fileset", "files": specs}
	for i, sp := range specs {
		name := fmt.Sprintf("f%d.go", i)
		content := []byte(c27Contents[sp.Size])
		sf := sfs.AddFile(name, -1, sp.Size)
		gf := gfs.AddFile(name, -1, sp.Size, sp.Line)
		sf.SetLinesForContent(content)
		gf.SetLinesForContent(content)
		gf.SetSourceForContent(content)
		if sf.Base() != gf.Base() {
			c.Violation("C27|fileset|base", fmt.Sprintf("files %v: file %d has base %d, go/token %d", specs, i, gf.Base(), sf.Base()), cas)
			return
		}
		sfiles, gfiles = append(sfiles, sf), append(gfiles, gf)
	}
	last := sfs.Base() + 1
	for p := token.Pos(0); int(p) <= last; p++ {
		evals++
		for _, adjusted := range []bool{true, false} {
			want := sfs.PositionFor(p, adjusted)
			var fi = -1
			if f := sfs.File(p); f != nil && p != token.NoPos {
				for i := range sfiles {
					if sfiles[i] == f {
						fi = i
					}
				}
				if want.IsValid() {
					want.Line += specs[fi].Line
				}
			}
			got := gfs.PositionFor(p, adjusted)
			if got != want {
				c.Violation("C27|fileset|PositionFor", fmt.Sprintf("files %v: FileSet.PositionFor(%d, %v) = %v, go/token shifted by the line offset gives %v", specs, p, adjusted, got, want), cas)
				return
			}
			if fi >= 0 {
				if g2 := gfiles[fi].PositionFor(p, adjusted); g2 != want {
					c.Violation("C27|fileset|File.PositionFor", fmt.Sprintf("files %v: File.PositionFor(%d, %v) = %v, want %v", specs, p, adjusted, g2, want), cas)
					return
				}
			}
		}
		want := sfs.Position(p)
		gf := gfs.File(p)
		if (gf == nil) != (sfs.File(p) == nil || p == token.NoPos) {
			c.Violation("C27|fileset|File", fmt.Sprintf("files %v: FileSet.File(%d) nil-ness differs from go/token", specs, p), cas)
			return
		}
		line, pos := gfs.Source(p)
		wantLine := ""
		if gf != nil && want.IsValid() {
			fi := -1
			for i := range gfiles {
				if gfiles[i] == gf {
					fi = i
				}
			}
			lines := strings.Split(c27Contents[specs[fi].Size], "\n")
			if want.Line-1 < len(lines) && c27Contents[specs[fi].Size] != "" {
				wantLine = lines[want.Line-1]
			}
			want.Line += specs[fi].Line
		}
		if pos != want || line != wantLine {
			c.Violation("C27|fileset|Source", fmt.Sprintf("files %v: FileSet.Source(%d) = %q, %v; want %q, %v", specs, p, line, pos, wantLine, want), cas)
			return
		}
	}
	return
}

func c27FileSets(c *core.Ctx) {
	sizes := []int{0, 1, 10}
	lines := []int{0, 1, 7}
	var opts []c27FileSpec
	for _, s := range sizes {
		for _, l := range lines {
			opts = append(opts, c27FileSpec{s, l})
		}
	}
	n := 0
	evals := 0
	var rec func(cur []c27FileSpec)
	rec = func(cur []c27FileSpec) {
		if len(cur) > 0 {
			n++
			evals += c27CheckFileSet(c, cur)
			c.Nontrivial(fmt.Sprint("fileset", cur))
		}
		if len(cur) == 4 {
			return
		}
		for _, o := range opts {
			rec(append(append([]c27FileSpec{}, cur...), o))
		}
	}
	rec(nil)
	c.Eval(evals)
	c.Count("fileset_sequences", n)
	c.Count("fileset_positions_checked", evals)
}

// ---------------------------------------------------------------------------
// (b) interpreter

// chunk templates; %d is replaced by a number unique to the source, so that sources evaluated by the same
// interpreter do not interfere.
var c27Chunks = []struct{ name, text string }{
	{"statement", "a%d_@ := 1\n"},
	{"comment-1", "// one comment line\n"},
	{"comment-3", "// three\n// comment\n// lines\n"},
	{"blank-2", "\n\n"},
	{"multi-line-statement", "b%d_@ := 1 +\n\t2 +\n\t3\n"},
	{"multi-line-raw-string", "c%d_@ := `x\ny\n\nz`\n"},
	{"func-decl", "func d%d_@() int {\n\treturn 1\n}\n"},
	{"block-comment-then-statement", "/* two\n   lines */ e%d_@ := 2\n"},
	{"statement-trailing-comments", "f%d_@ := 3 // t\n// after\n"},
	// token-less chunks of several lines (general comments standing alone between chunks)
	{"block-comment-alone-2", "/* alone\n   two */\n"},
	{"block-comment-alone-4-then-line-comment", "/* alone\n\n * four\n */ // tail\n"},
	// earlier chunks that fail: their lines count all the same
	{"failing-statement", "undefinedq%d_@ +\n\t1\n"},
	{"unterminated-string", "s%d_@ := \"abc\n"},
}

// chunk kinds without any token: as long as only these precede it, a chunk is the first code of the input
var c27TokenLess = map[string]bool{"comment-1": true, "comment-3": true, "blank-2": true, "block-comment-alone-2": true,
	"block-comment-alone-4-then-line-comment": true, "#!": true}

// what may stand in front of the first token of the last chunk, inside that chunk
var c27Leads = []struct{ name, text string }{
	{"nothing", ""},
	{"block comment on the same line", "/* c */ "},
	{"multi-line block comment ending on the same line", "/* a\n   b */ "},
	{"blanks", "\t  "},
}

const c27Shebang = "#!/usr/bin/env gomacro\n"

type c27Source struct {
	Kind      string `json:"error_kind"`
	Text      string `json:"text"`
	Marker    string `json:"marker"` // the offending token (literal of the go/scanner token whose position is expected)
	Descr     string `json:"descr"`
	Lead      string `json:"lead,omitempty"`       // what precedes the first token of the last chunk inside that chunk
	FirstCode bool   `json:"first_code,omitempty"` // no token precedes the last chunk
	CRLF      bool   `json:"crlf,omitempty"`       // CR LF line ends
}

// last chunks: %s slots receive "ok" operands except one that receives the error token.
type c27Last struct {
	name  string
	parts []string // text between slots; len(parts) = slots+1
	extra bool     // generated for the short prefixes and one error kind only
}

var c27Lasts = []c27Last{
	{"one-line", []string{"z%d := ", " + ", "\n"}, false},
	{"multi-line", []string{"z%d := ", " +\n\t\t", " + ", " +\n", "\n"}, false},
	{"call-lines", []string{"z%d := max%d(", ",\n\t", ",\n", ")\n"}, false},
	// the offending token lies behind byte 4096 of its line (bufio's buffer size), the byte 4096 inside a number or behind an operator
	{"long-line-a", []string{"z%d := " + strings.Repeat("1234567+", 520), " + ", "\n"}, true},
	{"long-line-b", []string{"zz%d := " + strings.Repeat("1234567+", 520), " + ", "\n"}, true},
}

func c27Sources(c *core.Ctx) []c27Source {
	maxPrefix := c.Pick(2, 4) // thorough: all prefixes of <= 3 chunks with every kind and slot, prefixes of 4 chunks with one error
	maxExtra := c.Pick(1, 2)  // longest prefix for the extra dimensions: lead-ins of the last chunk, CR LF line ends, long lines
	var prefixes [][]int
	var rec func(cur []int)
	rec = func(cur []int) {
		prefixes = append(prefixes, append([]int{}, cur...))
		if len(cur) == maxPrefix {
			return
		}
		for i := range c27Chunks {
			rec(append(cur, i))
		}
	}
	rec(nil)
	var out []c27Source
	n := 0
	for _, shebang := range []bool{false, true} {
		for _, pre := range prefixes {
			if shebang && len(pre) > c.Pick(1, 2) {
				continue
			}
			reduced := len(pre) == 4 // longest prefixes: one error kind at one slot
			extras := len(pre) <= maxExtra
			var names []string
			build := func(id int) string {
				var sb strings.Builder
				if shebang {
					sb.WriteString(c27Shebang)
				}
				for j, ci := range pre {
					t := strings.Replace(c27Chunks[ci].text, "%d", strconv.Itoa(id), -1)
					sb.WriteString(strings.Replace(t, "@", strconv.Itoa(j), -1))
				}
				return sb.String()
			}
			if shebang {
				names = append(names, "#!")
			}
			firstCode := true
			for _, ci := range pre {
				names = append(names, c27Chunks[ci].name)
				if !c27TokenLess[c27Chunks[ci].name] {
					firstCode = false
				}
			}
			descr := strings.Join(names, ",")
			finish := func(text string, crlf bool) string {
				if crlf {
					return strings.Replace(text, "\n", "\r\n", -1)
				}
				return text
			}
			// error tokens at every slot of every last chunk
			for _, last := range c27Lasts {
				slots := len(last.parts) - 1
				for k := 0; k < slots; k++ {
					for _, kind := range []string{"undefined-identifier", "illegal-character", "builtin-argument-type"} {
						if reduced && !(kind == "undefined-identifier" && last.name == "multi-line" && k == 1) {
							continue
						}
						if last.extra && !(extras && kind == "undefined-identifier") {
							continue
						}
						for li, lead := range c27Leads {
							for _, crlf := range []bool{false, true} {
								// the extra dimensions are explored one at a time, with the undefined identifier, on the short prefixes
								if (li > 0 || crlf) && !(extras && kind == "undefined-identifier" && !last.extra) || (li > 0 && crlf) {
									continue
								}
								n++
								id := n
								var sb strings.Builder
								sb.WriteString(build(id))
								if last.name == "call-lines" {
									fmt.Fprintf(&sb, "func max%d(a, b, c int) int { return a }\n", id)
								}
								sb.WriteString(lead.text)
								marker := ""
								for s := 0; s <= slots; s++ {
									sb.WriteString(strings.Replace(last.parts[s], "%d", strconv.Itoa(id), -1))
									if s == slots {
										break
									}
									if s != k {
										sb.WriteString(strconv.Itoa(10 + s))
										continue
									}
									switch kind {
									case "undefined-identifier":
										marker = fmt.Sprintf("undefined%d", id)
										sb.WriteString(marker)
									case "illegal-character":
										marker = "$"
										sb.WriteString("$")
									default:
										marker = "77777"
										sb.WriteString("len(77777)")
									}
								}
								d := descr + " + " + last.name + fmt.Sprintf(" slot %d", k)
								if li > 0 {
									d += ", its first token preceded in the chunk by " + lead.name
								}
								if crlf {
									d += ", CR LF line ends"
								}
								out = append(out, c27Source{Kind: kind, Text: finish(sb.String(), crlf), Marker: marker, Descr: d,
									Lead: lead.name, FirstCode: firstCode && last.name != "call-lines", CRLF: crlf})
							}
						}
					}
				}
			}
			// debugger stops: "break" at every statement position of a function in the last chunks
			for k := 0; k < 4; k++ {
				if reduced {
					continue
				}
				for li, lead := range c27Leads {
					if li > 0 && !(extras && k == 1) {
						continue
					}
					n++
					id := n
					stmts := []string{"\tx := 1\n", "\ty := x +\n\t\t2\n", "\tx, y = y, x\n"}
					var sb strings.Builder
					sb.WriteString(build(id))
					sb.WriteString(lead.text)
					fmt.Fprintf(&sb, "func g%d() int {\n", id)
					for j := 0; j <= len(stmts); j++ {
						if j == k {
							if k == 3 {
								sb.WriteString("\tx++; \"break\"\n")
							} else {
								sb.WriteString("\t\"break\"\n")
							}
						}
						if j < len(stmts) {
							sb.WriteString(stmts[j])
						}
					}
					fmt.Fprintf(&sb, "\treturn x + y\n}\n// call it\ng%d()\n", id)
					d := descr + fmt.Sprintf(" + function with \"break\" as statement %d", k)
					if li > 0 {
						d += ", its first token preceded in the chunk by " + lead.name
					}
					out = append(out, c27Source{Kind: "debugger-stop", Text: sb.String(), Marker: "\"break\"", Descr: d, Lead: lead.name, FirstCode: firstCode})
				}
			}
		}
	}
	return out
}

// c27Expect computes the position of the marker token in the original text with go/scanner.
func c27Expect(text, marker string) (line, col int, srcLine string, ok bool) {
	fset := token.NewFileSet()
	f := fset.AddFile("x", -1, len(text))
	var s stdscanner.Scanner
	s.Init(f, []byte(text), func(token.Position, string) {}, 0)
	for {
		pos, tok, lit := s.Scan()
		if tok == token.EOF {
			return
		}
		if lit == marker {
			p := f.Position(pos)
			lines := strings.Split(text, "\n")
			return p.Line, p.Column, lines[p.Line-1], true
		}
	}
}

type c27Dbg struct{ out *bytes.Buffer }

func (d c27Dbg) Breakpoint(ir *fast.Interp, env *fast.Env) fast.DebugOp {
	g := &ir.Comp.Globals
	if env.IP < len(env.DebugPos) && env.DebugPos[env.IP] != token.NoPos {
		src, pos := g.Fileset.Source(env.DebugPos[env.IP])
		fmt.Fprintf(d.out, "%s: debugger stop\nSOURCE %s\n", pos, src)
	}
	return fast.DebugOpContinue
}

func (d c27Dbg) At(ir *fast.Interp, env *fast.Env) fast.DebugOp { return fast.DebugOpContinue }

type c27World struct {
	ir   *fast.Interp
	out  bytes.Buffer
	uses int
	dir  string
}

func (w *c27World) interp() *fast.Interp {
	if w.ir == nil || w.uses >= 150 {
		w.ir = fast.New()
		g := &w.ir.Comp.Globals
		g.Stdout = &w.out
		g.Stderr = &w.out
		g.Options |= base.OptTrapPanic | base.OptDebugger
		g.Options &^= base.OptShowPrompt | base.OptShowEval | base.OptShowEvalType
		w.ir.SetDebugger(c27Dbg{&w.out})
		w.uses = 0
	}
	w.uses++
	return w.ir
}

var c27PosRe = regexp.MustCompile(`(?m)^(.*?):(\d+):(\d+): (.*)$`)

var c27Modes = []string{"EvalFile", "EvalReader", "REPL"}

// c27RunSource evaluates the source in one mode and returns the reported position.
func (w *c27World) run(src c27Source, mode int) (file string, line, col int, srcLine, raw string, wantFile string) {
	ir := w.interp()
	g := &ir.Comp.Globals
	w.out.Reset()
	wantFile = g.Filepath
	switch mode {
	case 0:
		path := filepath.Join(w.dir, "src.gomacro")
		if err := ioutil.WriteFile(path, []byte(src.Text), 0o644); err != nil {
			panic(err)
		}
		wantFile = path
		if _, err := ir.EvalFile(path); err != nil {
			fmt.Fprintf(&w.out, "%v\n", err)
		}
	case 1:
		if _, err := ir.EvalReader(strings.NewReader(src.Text)); err != nil {
			fmt.Fprintf(&w.out, "%v\n", err)
		}
	default:
		save := g.Readline
		g.Readline = &c26Lines{lines: c26SplitLines(src.Text)}
		g.Line = 0
		for n := 0; n < 10000 && ir.ReadParseEvalPrint(); n++ {
		}
		g.Readline = save
	}
	raw = w.out.String()
	for _, m := range c27PosRe.FindAllStringSubmatch(raw, -1) {
		keep := false
		switch src.Kind {
		case "undefined-identifier":
			keep = strings.Contains(m[4], src.Marker)
		case "illegal-character":
			keep = strings.Contains(m[4], "illegal character")
		case "builtin-argument-type":
			keep = strings.Contains(m[4], "len")
		default:
			keep = strings.Contains(m[4], "debugger stop")
		}
		if keep {
			file = m[1]
			line, _ = strconv.Atoi(m[2])
			col, _ = strconv.Atoi(m[3])
			if i := strings.Index(raw, "SOURCE "); i >= 0 {
				srcLine = raw[i+7:]
				if j := strings.IndexByte(srcLine, '\n'); j >= 0 {
					srcLine = srcLine[:j]
				}
			}
			return
		}
	}
	return
}

func (w *c27World) check(c *core.Ctx, src c27Source) {
	wl, wc, wsrc, ok := c27Expect(src.Text, src.Marker)
	if !ok {
		panic("C27 generator error: marker not found in " + src.Text)
	}
	for mode := range c27Modes {
		c.Eval(1)
		file, line, col, srcLine, raw, wantFile := w.run(src, mode)
		cas := map[string]interface{}{"kind": "source", "source": src, "mode": mode}
		viol := func(sig, what string, cas interface{}) {
			c.Count("mismatches["+sig+"]", 1) // every class is counted, also when the framework keeps no more examples
			c.Violation(sig, what, cas)
		}
		shown := src.Text
		if len(shown) > 700 {
			shown = shown[:300] + fmt.Sprintf(" …(%d bytes)… ", len(shown)-600) + shown[len(shown)-300:]
		}
		where := fmt.Sprintf("%s of [%s], %s at the expected position %d:%d; source:\n%s", c27Modes[mode], src.Descr, src.Kind, wl, wc, shown)
		sigCtx := "last chunk preceded by: " + c27PrefixClass(src.Descr)
		colCtx := "token preceded in its chunk by " + src.Lead
		if src.Lead == "" {
			colCtx = "token preceded in its chunk by nothing"
		}
		if src.FirstCode {
			colCtx += "|first code of the input"
		}
		if src.CRLF {
			sigCtx += "|CR LF line ends"
			colCtx += "|CR LF line ends"
		}
		switch {
		case line == 0:
			if len(raw) > 300 {
				raw = raw[:300]
			}
			viol("C27|"+src.Kind+"|no position reported|"+c27Modes[mode], fmt.Sprintf("%s: no position reported; output %q", where, raw), cas)
		case line != wl && c27PrefixClass(src.Descr) == "unterminated-string":
			// one class per mode, whatever the error kind: the chunk with the unterminated literal is counted one line short
			viol("C27|line|"+c27Modes[mode]+"|an earlier chunk ends in an unterminated string literal", fmt.Sprintf("%s: reported %s:%d:%d", where, file, line, col), cas)
		case line != wl:
			viol("C27|"+src.Kind+"|line|"+c27Modes[mode]+"|"+sigCtx, fmt.Sprintf("%s: reported %s:%d:%d", where, file, line, col), cas)
		case col != wc:
			viol("C27|"+src.Kind+"|column|"+c27Modes[mode]+"|"+colCtx, fmt.Sprintf("%s: reported %s:%d:%d", where, file, line, col), cas)
		case file != wantFile:
			viol("C27|"+src.Kind+"|file name|"+c27Modes[mode], fmt.Sprintf("%s: reported file %q, want %q", where, file, wantFile), cas)
		case src.Kind == "debugger-stop" && srcLine != wsrc:
			viol("C27|"+src.Kind+"|source line|"+c27Modes[mode], fmt.Sprintf("%s: the source line shown is %q, want %q", where, srcLine, wsrc), cas)
		}
	}
	if strings.Count(src.Text, "\n") > 3 {
		c.Nontrivial(src.Kind + "|" + src.Descr)
	}
	if c.WantSample() && strings.Contains(src.Descr, ",") {
		c.Sample(map[string]interface{}{"source": src.Text, "error": src.Kind, "expected": fmt.Sprintf("%d:%d", wl, wc)})
	}
}

// c27PrefixClass names the chunk kinds that precede the last chunk (set, sorted by first occurrence): the signature class.
func c27PrefixClass(descr string) string {
	pre := descr
	if i := strings.Index(descr, " + "); i >= 0 {
		pre = descr[:i]
	}
	seen := map[string]bool{}
	var out []string
	for _, n := range strings.Split(pre, ",") {
		if n != "" && !seen[n] {
			seen[n] = true
			out = append(out, n)
		}
	}
	for _, special := range []string{"unterminated-string", "block-comment-then-statement"} {
		if seen[special] {
			return special
		}
	}
	if len(out) == 0 {
		return "nothing"
	}
	return strings.Join(out, ",")
}

func c27Run(c *core.Ctx) {
	c.Rule("(a) every sequence of <= 4 AddFile(size in {0,1,10}, line offset in {0,1,7}) on etoken.FileSet and go/token.FileSet in lock-step, every Pos from 0 to the end of the set: Position/PositionFor(adjusted and not)/File/Source must equal go/token's answer with Line shifted by the file's offset, Source must return that line's text; " +
		"(b) sources = [#!] + <= N chunks (quick 2; thorough 3, and 4 with a single undefined identifier) from {statement, 1 and 3 comment lines, blank lines, 3-line statement, 4-line raw string, 3-line function, 2-line general comment followed by a statement on its last line, statement with trailing comments, " +
		"2-line general comment standing alone, 4-line general comment (with an empty line) standing alone and followed by a line comment, 2-line statement that fails to compile, line with an unterminated string} + a last chunk (one-line, 3-line and call-argument forms) with exactly one offending token at every operand slot: " +
		"undefined identifier, illegal character '$', builtin len() of an int literal; plus a function with the \"break\" debugger statement at each of 4 statement positions, called from a later chunk. " +
		"For prefixes of <= M chunks (quick 1, thorough 2) and the undefined identifier, one further dimension at a time: the first token of the last chunk preceded inside its chunk by {a general comment on the same line, a 2-line general comment ending on the same line, blanks}; CR LF line ends throughout; the offending token behind byte 4096 of a one-line statement (two alignments of byte 4096). " +
		"Each source is evaluated with Interp.EvalFile, Interp.EvalReader and a scripted line-by-line REPL (ReadParseEvalPrint loop, Line=0 at start). " +
		"Oracle: file name, line and column of the offending token computed by go/scanner on the original text (and, for debugger stops, the text of that line). distinct_nontrivial = distinct file-set sequences + distinct (error kind, chunk sequence, slot) with more than 3 lines")
	c.Assume("run-time panics of the fast interpreter carry no source position (nothing to compare): the 'panic location' of the property is covered by compile-time errors and debugger stops only",
		"the scripted REPL numbers lines cumulatively from the start of the script, as Interp.Repl does")
	if c.Shard == 0 {
		c27FileSets(c)
	}
	srcs := c27Sources(c)
	c.Set("sources", len(srcs))
	dir := filepath.Join(core.VerifDir, "work", "C27", fmt.Sprintf("w%d", c.Shard))
	os.MkdirAll(dir, 0o755)
	defer os.RemoveAll(dir)
	w := &c27World{dir: dir}
	for i := range srcs {
		if !c.Mine(i) {
			continue
		}
		if c.Expired() {
			return
		}
		w.check(c, srcs[i])
	}
}

func c27Replay(c *core.Ctx, raw json.RawMessage) {
	var cas struct {
		Kind   string        `json:"kind"`
		Files  []c27FileSpec `json:"files"`
		Source c27Source     `json:"source"`
	}
	if err := json.Unmarshal(raw, &cas); err != nil {
		panic(err)
	}
	if cas.Kind == "fileset" {
		c27CheckFileSet(c, cas.Files)
		return
	}
	dir, _ := ioutil.TempDir("", "c27replay")
	defer os.RemoveAll(dir)
	w := &c27World{dir: dir}
	w.check(c, cas.Source)
}

var _ = io.EOF
