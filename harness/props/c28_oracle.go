package props

// C28 — independent reference for type identity, written against the DOCUMENTED definition in
// go/typeutil/predicates.go (spec identity + the two PATCHes: a signature's receiver takes part in its identity;
// interfaces are identical iff they have the same explicit methods and the same embedded named interfaces, in order).
// No shortcuts: never uses pointer equality of type objects (only of declarations: *TypeName), never caches, walks
// the whole structure through the public accessors. Cycles (an interface method's receiver is the interface) are
// handled co-inductively: a pair of interfaces met again on the current path is assumed identical.

import (
	"go/token"

	"github.com/cosmos72/gomacro/go/types"
)

type c28Pair struct{ x, y *types.Interface }

type c28Oracle struct {
	tags bool
	path []c28Pair
}

func c28Identical(x, y types.Type, tags bool) bool {
	o := c28Oracle{tags: tags}
	return o.same(x, y)
}

func c28SameName(xn string, xp *types.Package, yn string, yp *types.Package) bool {
	if xn != yn {
		return false
	}
	if token.IsExported(xn) {
		return true
	}
	if xp == nil || yp == nil {
		return xp == nil && yp == nil
	}
	return xp.Path() == yp.Path()
}

func (o *c28Oracle) tuple(x, y *types.Tuple) bool {
	if x.Len() != y.Len() {
		return false
	}
	for i := 0; i < x.Len(); i++ {
		if !o.same(x.At(i).Type(), y.At(i).Type()) {
			return false
		}
	}
	return true
}

func (o *c28Oracle) same(x, y types.Type) bool {
	switch x := x.(type) {
	case *types.Basic:
		y, ok := y.(*types.Basic)
		return ok && x.Kind() == y.Kind()
	case *types.Named:
		y, ok := y.(*types.Named)
		return ok && x.Obj() == y.Obj() // same declaration
	case *types.Pointer:
		y, ok := y.(*types.Pointer)
		return ok && o.same(x.Elem(), y.Elem())
	case *types.Slice:
		y, ok := y.(*types.Slice)
		return ok && o.same(x.Elem(), y.Elem())
	case *types.Array:
		y, ok := y.(*types.Array)
		return ok && x.Len() == y.Len() && o.same(x.Elem(), y.Elem())
	case *types.Chan:
		y, ok := y.(*types.Chan)
		return ok && x.Dir() == y.Dir() && o.same(x.Elem(), y.Elem())
	case *types.Map:
		y, ok := y.(*types.Map)
		return ok && o.same(x.Key(), y.Key()) && o.same(x.Elem(), y.Elem())
	case *types.Tuple:
		y, ok := y.(*types.Tuple)
		return ok && o.tuple(x, y)
	case *types.Signature:
		y, ok := y.(*types.Signature)
		if !ok || x.Variadic() != y.Variadic() {
			return false
		}
		xr, yr := x.Recv(), y.Recv()
		if (xr == nil) != (yr == nil) {
			return false
		}
		if xr != nil && !o.same(xr.Type(), yr.Type()) {
			return false
		}
		return o.tuple(x.Params(), y.Params()) && o.tuple(x.Results(), y.Results())
	case *types.Struct:
		y, ok := y.(*types.Struct)
		if !ok || x.NumFields() != y.NumFields() {
			return false
		}
		for i := 0; i < x.NumFields(); i++ {
			f, g := x.Field(i), y.Field(i)
			if f.Embedded() != g.Embedded() || !c28SameName(f.Name(), f.Pkg(), g.Name(), g.Pkg()) {
				return false
			}
			if o.tags && x.Tag(i) != y.Tag(i) {
				return false
			}
			if !o.same(f.Type(), g.Type()) {
				return false
			}
		}
		return true
	case *types.Interface:
		y, ok := y.(*types.Interface)
		if !ok {
			return false
		}
		if x.NumExplicitMethods() != y.NumExplicitMethods() || x.NumEmbeddeds() != y.NumEmbeddeds() {
			return false
		}
		for i := 0; i < x.NumEmbeddeds(); i++ {
			e, f := x.Embedded(i), y.Embedded(i)
			if e == nil || f == nil {
				panic("c28 oracle: embedded type is not named (outside the alphabet)")
			}
			if e.Obj() != f.Obj() {
				return false
			}
		}
		for _, p := range o.path {
			if p.x == x && p.y == y || p.x == y && p.y == x {
				return true // co-inductive hypothesis
			}
		}
		o.path = append(o.path, c28Pair{x, y})
		defer func() { o.path = o.path[:len(o.path)-1] }()
		for i := 0; i < x.NumExplicitMethods(); i++ {
			a, b := x.ExplicitMethod(i), y.ExplicitMethod(i)
			if !c28SameName(a.Name(), a.Pkg(), b.Name(), b.Pkg()) || !o.same(a.Type(), b.Type()) {
				return false
			}
		}
		return true
	}
	panic("c28 oracle: unexpected type")
}

func c28Kind(t types.Type) string {
	switch t.(type) {
	case *types.Basic:
		return "Basic"
	case *types.Named:
		return "Named"
	case *types.Pointer:
		return "Pointer"
	case *types.Slice:
		return "Slice"
	case *types.Array:
		return "Array"
	case *types.Chan:
		return "Chan"
	case *types.Map:
		return "Map"
	case *types.Tuple:
		return "Tuple"
	case *types.Signature:
		return "Signature"
	case *types.Struct:
		return "Struct"
	case *types.Interface:
		return "Interface"
	}
	return "?"
}
