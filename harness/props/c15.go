package props

// C15 — a failed evaluation leaves earlier definitions intact; no code of the failed input runs; a later
// successful redefinition does not change type/readability of variables declared with the previous definition.
//
// Explicit enumeration of ALL histories up to depth D over {first definitions, successful redefinitions,
// failing inputs}, each on a fresh interpreter. Oracle: a snapshot (type string + value of every defined
// name, through Eval) taken before every step must be unchanged after it for every name the step is not
// meant to change; the name a successful step (re)defines must read as the model says. Every failing input
// contains a call of the compiled hook ran(): its counter must not move.

import (
	"encoding/json"
	"fmt"
	"sort"
	"strings"

	"verif/harness/core"
	"verif/harness/twin"
)

func init() {
	core.Register(&core.Check{ID: "C15", Level: "model_checking", Workers: -1, Run: c15Run, Replay: c15Replay})
}

type c15Op struct {
	Name  string   // short name of the operation (stable: used in replay files and signatures)
	Class string   // signature class
	Fails bool     // the input must be rejected
	Needs []string // names that must be defined
	Not   []string // names that must NOT be defined (first definitions)
	// Src returns the evaluations (a failing op has exactly one); gen = number of times the target was (re)defined so far
	Src func(gen int) []string
	// Target: the name (re)defined by a successful op ("" for failing ops); Expect: its read-back after the op
	Target string
	Expect func(gen int) map[string]string // observation expression -> expected "value type"
	// Affects: names a failing input mentions as being redefined (a change of one of them is the op's own defect class,
	// a change of any other name is reported as collateral)
	Affects []string
	// Forget: names whose observations are no longer predicted after this op (e.g. methods after their type is redefined)
	Forget []string
}

func one(s string) func(int) []string { return func(int) []string { return []string{s} } }

func c15Ops() []c15Op {
	alt := func(gen int, a, b string) string {
		if gen%2 == 0 {
			return a
		}
		return b
	}
	return []c15Op{
		// ---- first definitions
		{Name: "def-var-x", Class: "define", Not: []string{"x"}, Target: "x", Src: one("var x = 7"),
			Expect: func(int) map[string]string { return map[string]string{"x": "7 int"} }},
		{Name: "def-const-k", Class: "define", Not: []string{"k"}, Target: "k", Src: one("const k = 3"),
			Expect: func(int) map[string]string { return map[string]string{"k": "3 int"} }},
		{Name: "def-func-f", Class: "define", Not: []string{"f"}, Target: "f", Src: one("func f() int { return 10 }"),
			Expect: func(int) map[string]string { return map[string]string{"f()": "10 int"} }},
		{Name: "def-type-T", Class: "define", Not: []string{"T"}, Target: "T", Src: one("type Q struct{ A int }"),
			Expect: func(int) map[string]string { return map[string]string{"Q{}": "{0} struct { A int }"} }},
		{Name: "def-var-t", Class: "define", Needs: []string{"T"}, Not: []string{"t"}, Target: "t",
			Src:    func(int) []string { return []string{"var t Q", "t.A = 4"} },
			Expect: func(int) map[string]string { return nil }}, // snapshot only: its type depends on the current T
		{Name: "def-method-M", Class: "define", Needs: []string{"T"}, Not: []string{"M"}, Target: "M", Src: one("func (r Q) M() int { return r.A + 1 }"),
			Expect: func(int) map[string]string { return map[string]string{"Q{A: 3}.M()": "4 int"} }},
		{Name: "def-alias-Al", Class: "define", Not: []string{"Al"}, Target: "Al", Src: one("type Al = int"),
			Expect: func(int) map[string]string { return map[string]string{"Al(3)": "3 int"} }},
		// ---- successful redefinitions
		{Name: "redef-var-x", Class: "redefine-var", Needs: []string{"x"}, Target: "x",
			Src: func(gen int) []string { return []string{alt(gen, `var x = 8`, `var x = "now"`)} },
			Expect: func(gen int) map[string]string {
				return map[string]string{"x": alt(gen, "8 int", "now string")}
			}},
		{Name: "redef-const-k", Class: "redefine-const", Needs: []string{"k"}, Target: "k",
			Src: func(gen int) []string { return []string{alt(gen, `const k = 5`, `const k = "kk"`)} },
			Expect: func(gen int) map[string]string {
				return map[string]string{"k": alt(gen, "5 int", "kk string")}
			}},
		{Name: "redef-func-f", Class: "redefine-func", Needs: []string{"f"}, Target: "f",
			Src: func(gen int) []string { return []string{fmt.Sprintf("func f() int { return %d }", 10*(gen+1))} },
			Expect: func(gen int) map[string]string {
				return map[string]string{"f()": fmt.Sprintf("%d int", 10*(gen+1))}
			}},
		{Name: "redef-type-T", Class: "redefine-type", Needs: []string{"T"}, Target: "T", Forget: []string{"M"},
			Src: func(gen int) []string {
				return []string{alt(gen, "type Q struct{ A int }", "type Q struct{ A, B int }")}
			},
			Expect: func(gen int) map[string]string {
				return map[string]string{"Q{}": alt(gen, "{0} struct { A int }", "{0 0} struct { A int; B int }")}
			}},
		{Name: "redef-method-M", Class: "redefine-method", Needs: []string{"T", "M"}, Target: "M",
			Src: func(gen int) []string { return []string{fmt.Sprintf("func (r Q) M() int { return r.A + %d }", gen+1)} },
			Expect: func(gen int) map[string]string {
				return map[string]string{"Q{A: 3}.M()": fmt.Sprintf("%d int", 3+gen+1)}
			}},
		// ---- failing inputs (every one contains ran())
		{Name: "fail-undefined", Class: "undefined-identifier", Fails: true, Src: one("var y1 = ran() + undefinedZ")},
		{Name: "fail-stmt-undefined", Class: "undefined-identifier", Fails: true, Src: one("ran(); undefinedZ++")},
		{Name: "fail-type-mismatch", Class: "type-mismatch", Fails: true, Needs: []string{"x"}, Src: one("ran(); x = struct{}{}")},
		{Name: "fail-parse", Class: "parse-error", Fails: true, Src: one("ran(); var y2 = (")},
		{Name: "fail-func-body", Class: "func-redefinition-body-fails", Fails: true, Needs: []string{"f"}, Affects: []string{"f"}, Src: one("func f() int { ran(); return undefinedZ }")},
		{Name: "fail-func-body-sig", Class: "func-redefinition-body-fails|new-signature", Fails: true, Needs: []string{"f"}, Affects: []string{"f"}, Src: one("func f(q int) int { ran(); return undefinedZ }")},
		{Name: "fail-block", Class: "undefined-identifier-in-block", Fails: true, Src: one("{ ran(); undefinedZ++ }")},
		{Name: "fail-type-redecl", Class: "type-redeclaration-fails", Fails: true, Needs: []string{"T"}, Affects: []string{"T", "M"}, Src: one("ran(); type Q struct{ A undefinedT }")},
		{Name: "fail-alias-redecl", Class: "type-redeclaration-fails|was-alias", Fails: true, Needs: []string{"Al"}, Affects: []string{"Al"}, Src: one("ran(); type Al struct{ A undefinedT }")},
		{Name: "fail-2decl-new", Class: "multi-decl|first-new", Fails: true, Src: one("var n1 = ran(); var n2 = undefinedZ")},
		{Name: "fail-2decl-redef-var", Class: "multi-decl|redefine-then-fail|var", Fails: true, Needs: []string{"x"}, Affects: []string{"x"}, Src: one("ran(); var x [2]bool; var n3 = undefinedZ")},
		{Name: "fail-2decl-redef-func", Class: "multi-decl|redefine-then-fail|func", Fails: true, Needs: []string{"f"}, Affects: []string{"f"}, Src: one("ran(); func f() int { return -1 }; var n4 = undefinedZ")},
		{Name: "fail-2decl-redef-const", Class: "multi-decl|redefine-then-fail|const", Fails: true, Needs: []string{"k"}, Affects: []string{"k"}, Src: one("ran(); const k = false; var n5 = undefinedZ")},
		{Name: "fail-2decl-redef-type", Class: "multi-decl|redefine-then-fail|type", Fails: true, Needs: []string{"T"}, Affects: []string{"T", "M", "t"}, Src: one("ran(); type Q [3]int; var n6 = undefinedZ")},
		{Name: "fail-method", Class: "method-redeclaration-body-fails|same-signature", Fails: true, Needs: []string{"T", "M"}, Affects: []string{"M"}, Src: one("func (r Q) M() int { ran(); return undefinedZ }")},
		{Name: "fail-method-sig", Class: "method-redeclaration-body-fails|new-signature", Fails: true, Needs: []string{"T", "M"}, Affects: []string{"M"}, Src: one("func (r Q) M(q int) int { ran(); return undefinedZ }")},
		{Name: "fail-method-new", Class: "method-declaration-fails", Fails: true, Needs: []string{"T"}, Src: one("func (r Q) N() int { ran(); return undefinedZ }")},
	}
}

// model state: which names are defined, how often each was (re)defined, and what is predicted for them
type c15State struct {
	defined map[string]bool
	gen     map[string]int
	expect  map[string]string // observation expression -> expected read-back, for names with a prediction
	owner   map[string]string // observation expression -> name
}

func newC15State() *c15State {
	return &c15State{defined: map[string]bool{}, gen: map[string]int{}, expect: map[string]string{}, owner: map[string]string{}}
}

func (s *c15State) applicable(o *c15Op) bool {
	for _, n := range o.Needs {
		if !s.defined[n] {
			return false
		}
	}
	for _, n := range o.Not {
		if s.defined[n] {
			return false
		}
	}
	return true
}

// observed expressions for every defined name (snapshot)
func (s *c15State) snapshotExprs() []string {
	var l []string
	for _, n := range []string{"x", "k", "f", "T", "t", "M", "Al"} {
		if !s.defined[n] {
			continue
		}
		switch n {
		case "x", "k":
			l = append(l, n)
		case "f":
			l = append(l, "f()")
		case "Al":
			l = append(l, "Al(3)")
		case "T":
			l = append(l, "Q{}")
		case "t":
			l = append(l, "t", "t.A")
		case "M":
			if s.defined["M"] && !s.forgotM() {
				l = append(l, "Q{A: 3}.M()")
			}
		}
	}
	return l
}

func (s *c15State) forgotM() bool { return s.gen["M-forgotten"] > 0 }

func c15Owner(expr string) string {
	switch {
	case strings.HasPrefix(expr, "f("):
		return "f"
	case strings.HasPrefix(expr, "Al("):
		return "Al"
	case strings.HasPrefix(expr, "Q{}"):
		return "T"
	case strings.HasPrefix(expr, "Q{A"):
		return "M"
	case strings.HasPrefix(expr, "t"):
		return "t"
	}
	return expr
}

type c15Case struct {
	Hist []string `json:"history"` // operation names
}

type c15World struct {
	ir  *twin.Interp
	ran int
}

func newC15World() *c15World {
	w := &c15World{ir: twin.NewFast()}
	w.ir.DeclFunc("ran", func() int { w.ran++; return 0 })
	return w
}

func (w *c15World) snapshot(exprs []string) map[string]string {
	m := map[string]string{}
	for _, e := range exprs {
		m[e] = c14EvalObs(w.ir, e)
	}
	return m
}

// c15RunHistory executes one history; returns the number of evaluations of inputs.
func c15RunHistory(c *core.Ctx, ops map[string]*c15Op, hist []string) (steps int) {
	w := newC15World()
	st := newC15State()
	cas := func(k int) c15Case { return c15Case{append([]string{}, hist[:k+1]...)} }
	// tainted: names that an earlier failing input of a redefine-then-fail class mentioned without an immediately visible
	// effect; a later disagreement about such a name is attributed to that class ("detected-later")
	tainted := map[string]string{}
	var involved []string
	curClass := ""
	viol := func(sig, what string, cs interface{}) {
		for _, n := range involved {
			if cl := tainted[n]; cl != "" && cl != curClass {
				sig = "C15|" + cl + "|detected-later"
				break
			}
		}
		c.Count("cases_by_signature:"+sig, 1)
		c.Violation(sig, what, cs)
	}
	unstableT := false
	for k, name := range hist {
		o := ops[name]
		gen := st.gen[o.Target]
		involved = append(append([]string{o.Target}, o.Needs...), o.Affects...)
		curClass = o.Class
		before := w.snapshot(st.snapshotExprs())
		ranBefore := w.ran
		var failed interface{}
		srcs := o.Src(gen)
		for _, src := range srcs {
			steps++
			if failed = twin.Catch(func() { w.ir.Eval(src) }); failed != nil {
				break
			}
		}
		c.Eval(len(before) + 1)
		where := fmt.Sprintf("history %v: step %d %q", hist[:k+1], k+1, strings.Join(srcs, " ;; "))
		if !o.Fails && w.ran != ranBefore {
			viol("C15|code-of-an-earlier-failed-input-ran-later", fmt.Sprintf("%s: the hook ran() (which occurs only in earlier failed inputs) was called %d time(s) during this evaluation", where, w.ran-ranBefore), cas(k))
			return
		}
		if o.Fails {
			if failed == nil {
				viol("C15|"+o.Class+"|accepted", where+" must be rejected but was evaluated without error", cas(k))
				return
			}
			if w.ran != ranBefore {
				viol("C15|"+o.Class+"|code-ran", fmt.Sprintf("%s fails (%s) but code of the failed input ran: the hook ran() was called %d time(s)", where, c16OneLineErr(failed), w.ran-ranBefore), cas(k))
				return
			}
		} else if failed != nil {
			viol("C15|"+o.Class+"|rejected", fmt.Sprintf("%s is valid but fails: %s", where, c16OneLineErr(failed)), cas(k))
			return
		}
		// every name the step does not (re)define must read exactly as before
		after := w.snapshot(st.snapshotExprs())
		var exprs []string
		for e := range before {
			exprs = append(exprs, e)
		}
		sort.Strings(exprs)
		for _, e := range exprs {
			owner := c15Owner(e)
			if !o.Fails && (owner == o.Target || contains(o.Forget, owner)) {
				continue
			}
			if after[e] != before[e] {
				involved = append(involved, owner)
				kind := "earlier-definition-changed"
				if owner == "T" && unstableT {
					// the type was redefined earlier in this history and the redefinition did not read back as defined
					// (gomacro flips between the two layouts): any later evaluation may flip it again
					viol("C15|after-unstable-type-redefinition|type-layout-flips", fmt.Sprintf("%s (%s): %s read %q before and %q after", where, c15Outcome(failed), e, before[e], after[e]), cas(k))
					return
				}
				if !o.Fails {
					kind = "redefinition-changed-other-name=" + owner
				} else if !contains(o.Affects, owner) {
					kind = "collateral=" + owner
				}
				viol("C15|"+o.Class+"|"+kind, fmt.Sprintf("%s (%s): %s read %q before and %q after", where, c15Outcome(failed), e, before[e], after[e]), cas(k))
				return
			}
		}
		if o.Fails {
			if strings.HasPrefix(o.Class, "multi-decl|redefine-then-fail") {
				for _, a := range o.Affects {
					tainted[a] = o.Class
					if a == "T" {
						tainted["t"] = o.Class
					}
				}
			}
			continue
		}
		// the (re)defined name reads as predicted
		if len(o.Forget) > 0 {
			st.gen["M-forgotten"]++
		}
		if o.Target == "M" {
			st.gen["M-forgotten"] = 0
		}
		st.defined[o.Target] = true
		st.gen[o.Target] = gen + 1
		for e, want := range o.Expect(gen) {
			if got := c14EvalObs(w.ir, e); got != want {
				if o.Class != "define" {
					// the property does not say that a redefinition must be effective: counted, not a violation
					c.Count("redefinition_not_effective:"+o.Name, 1)
					if o.Target == "T" {
						unstableT = true
					}
					continue
				}
				viol("C15|"+o.Class+"|new-definition-reads-wrong", fmt.Sprintf("%s: %s reads %q, expected %q", where, e, got, want), cas(k))
				return
			}
		}
		if o.Target == "t" {
			// t must be readable and carry the value stored
			if got := c14EvalObs(w.ir, "t.A"); got != "4 int" {
				viol("C15|"+o.Class+"|new-definition-reads-wrong", fmt.Sprintf("%s: t.A reads %q, expected \"4 int\"", where, got), cas(k))
				return
			}
		}
	}
	return
}

func c15Outcome(failed interface{}) string {
	if failed == nil {
		return "evaluated"
	}
	return "rejected: " + c16OneLineErr(failed)
}

func c15Histories(depth int, f func(hist []string)) {
	ops := c15Ops()
	var rec func(hist []string, st *c15State)
	rec = func(hist []string, st *c15State) {
		if len(hist) == depth {
			f(hist)
			return
		}
		for i := range ops {
			o := &ops[i]
			if !st.applicable(o) {
				continue
			}
			st2 := newC15State()
			for k, v := range st.defined {
				st2.defined[k] = v
			}
			if !o.Fails {
				st2.defined[o.Target] = true
			}
			rec(append(append([]string{}, hist...), o.Name), st2)
		}
	}
	rec(nil, newC15State())
}

func c15Run(c *core.Ctx) {
	depth := c.Pick(4, 5)
	opl := c15Ops()
	ops := map[string]*c15Op{}
	for i := range opl {
		ops[opl[i].Name] = &opl[i]
	}
	c.Rule(fmt.Sprintf("all histories of exactly depth %d over %d operations (7 first definitions of var/const/func/type/var-of-that-type/method/type alias, 5 successful redefinitions, 17 failing inputs: undefined identifier (declaration, statement, inside a block), type mismatch, parse error, "+
		"function redefinition with failing body (same / new signature), failing type redeclaration (of a struct type / of an alias), two-declaration inputs whose second declaration fails with the first one new / redefining a var, func, const or type, failing method (re)declarations), only applicable operations "+
		"(an operation that needs a name is enumerated only after its definition); each history on a fresh interpreter; before/after snapshot of every defined name through Eval at every step. "+
		"non-trivial = distinct histories containing a failing input or a redefinition after at least one definition", depth, len(opl)))
	c.Assume("every failing input contains a call of the compiled hook ran(); compile-before-execute is checked by its counter",
		"histories shorter than the bound are prefixes of enumerated ones and are checked step by step inside them")
	c.Set("depth", depth)
	n := 0
	c15Histories(depth, func(hist []string) {
		n++
		if !c.Mine(n) || c.Expired() {
			return
		}
		steps := c15RunHistory(c, ops, hist)
		c.States(1)
		c.Transitions(steps)
		c.Traces(1)
		interesting := false
		for k, name := range hist {
			if k > 0 && (ops[name].Fails || strings.HasPrefix(name, "redef")) {
				interesting = true
			}
		}
		if interesting {
			c.Nontrivial(strings.Join(hist, ","))
		}
		if c.WantSample() && interesting && n%211 == 0 {
			c.Sample(map[string]interface{}{"history": hist})
		}
	})
	if c.Shard == 0 {
		c.Set("histories_enumerated", n)
	}
}

func c15Replay(c *core.Ctx, raw json.RawMessage) {
	var cas c15Case
	if err := json.Unmarshal(raw, &cas); err != nil {
		panic(err)
	}
	opl := c15Ops()
	ops := map[string]*c15Op{}
	for i := range opl {
		ops[opl[i].Name] = &opl[i]
	}
	for i := 0; i < 5; i++ {
		c15RunHistory(c, ops, cas.Hist)
	}
}
