package props

// C34 part 2: container scenarios. Each scenario is an interpreted function calling one CTI method, applied to
// natively built containers, and the same operation written with the Go builtin / operator.

import (
	"fmt"
	"math"
)

var c34Idx = []int{-1, 0, 1, 2, 3, 4, 5, 6}

func sliceStates[E any](mk func(int) E) [][]E {
	three := make([]E, 3, 5)
	full := make([]E, 3)
	for i := 0; i < 3; i++ {
		three[i], full[i] = mk(i), mk(i+3)
	}
	return [][]E{nil, {}, {mk(7)}, three, full}
}

// normGrown: the capacity after a growing append is implementation-defined; keep it only when the result still
// uses the original backing array.
func normGrown[E any](orig, res []E) []E {
	if cap(res) == cap(orig) {
		return res
	}
	out := make([]E, len(res))
	copy(out, res)
	return out
}

func sliceScens[E comparable](en string, mk func(int) E) []c34Scen {
	T := "[]" + en
	st := func() [][]E { return sliceStates(mk) }
	var out []c34Scen
	add := func(name, src string, args func() [][]interface{}, ref func(a []interface{}) []interface{}, post func(a, res []interface{}) []interface{}) {
		out = append(out, c34Scen{name: T + "." + name, src: src, args: args, ref: ref, post: post})
	}
	each1 := func() [][]interface{} {
		var r [][]interface{}
		for _, s := range st() {
			r = append(r, []interface{}{s})
		}
		return r
	}
	eachIdx := func() [][]interface{} {
		var r [][]interface{}
		for si := range st() {
			for _, i := range c34Idx {
				r = append(r, []interface{}{st()[si], i})
			}
		}
		return r
	}
	add("Len", fmt.Sprintf("(func(s %s) int { return s.Len() })", T), each1,
		func(a []interface{}) []interface{} { return []interface{}{len(a[0].([]E))} }, nil)
	add("Cap", fmt.Sprintf("(func(s %s) int { return s.Cap() })", T), each1,
		func(a []interface{}) []interface{} { return []interface{}{cap(a[0].([]E))} }, nil)
	add("Index", fmt.Sprintf("(func(s %s, i int) %s { return s.Index(i) })", T, en), eachIdx,
		func(a []interface{}) []interface{} { return []interface{}{a[0].([]E)[a[1].(int)]} }, nil)
	add("SetIndex", fmt.Sprintf("(func(s %s, i int, v %s) { s.SetIndex(i, v) })", T, en),
		func() [][]interface{} {
			var r [][]interface{}
			for _, t := range eachIdx() {
				r = append(r, append(t, mk(9)))
			}
			return r
		},
		func(a []interface{}) []interface{} { a[0].([]E)[a[1].(int)] = a[2].(E); return nil }, nil)
	add("AddrIndex", fmt.Sprintf("(func(s %s, i int) *%s { return s.AddrIndex(i) })", T, en), eachIdx,
		func(a []interface{}) []interface{} { return []interface{}{&a[0].([]E)[a[1].(int)]} },
		func(a, res []interface{}) []interface{} {
			p := res[0].(*E)
			return []interface{}{*p, p == &a[0].([]E)[a[1].(int)]}
		})
	add("Append2", fmt.Sprintf("(func(s %s, a, b %s) %s { return s.Append(a, b) })", T, en, T),
		func() [][]interface{} {
			var r [][]interface{}
			for _, s := range st() {
				r = append(r, []interface{}{s, mk(8), mk(9)})
			}
			return r
		},
		func(a []interface{}) []interface{} { return []interface{}{append(a[0].([]E), a[1].(E), a[2].(E))} },
		func(a, res []interface{}) []interface{} { return []interface{}{normGrown(a[0].([]E), res[0].([]E))} })
	add("Append0", fmt.Sprintf("(func(s %s) %s { return s.Append() })", T, T), each1,
		func(a []interface{}) []interface{} { var none []E; return []interface{}{append(a[0].([]E), none...)} },
		func(a, res []interface{}) []interface{} { return []interface{}{normGrown(a[0].([]E), res[0].([]E))} })
	pairs := func() [][]interface{} {
		var r [][]interface{}
		for i := range st() {
			for j := range st() {
				r = append(r, []interface{}{st()[i], st()[j]})
			}
		}
		return r
	}
	add("AppendSlice", fmt.Sprintf("(func(s %s, o %s) %s { return s.Append(o...) })", T, T, T), pairs,
		func(a []interface{}) []interface{} { return []interface{}{append(a[0].([]E), a[1].([]E)...)} },
		func(a, res []interface{}) []interface{} { return []interface{}{normGrown(a[0].([]E), res[0].([]E))} })
	add("Copy", fmt.Sprintf("(func(s %s, o %s) { s.Copy(o) })", T, T), pairs,
		func(a []interface{}) []interface{} { copy(a[0].([]E), a[1].([]E)); return nil }, nil)
	add("Slice", fmt.Sprintf("(func(s %s, i, j int) %s { return s.Slice(i, j) })", T, T),
		func() [][]interface{} {
			var r [][]interface{}
			for si := range st() {
				for _, i := range c34Idx {
					for _, j := range c34Idx {
						r = append(r, []interface{}{st()[si], i, j})
					}
				}
			}
			return r
		},
		func(a []interface{}) []interface{} { return []interface{}{a[0].([]E)[a[1].(int):a[2].(int)]} }, nil)
	add("Slice3", fmt.Sprintf("(func(s %s, i, j, k int) %s { return s.Slice3(i, j, k) })", T, T),
		func() [][]interface{} {
			var r [][]interface{}
			ix := []int{-1, 0, 1, 3, 5, 6}
			for si := range st() {
				for _, i := range ix {
					for _, j := range ix {
						for _, k := range ix {
							r = append(r, []interface{}{st()[si], i, j, k})
						}
					}
				}
			}
			return r
		},
		func(a []interface{}) []interface{} {
			return []interface{}{a[0].([]E)[a[1].(int):a[2].(int):a[3].(int)]}
		}, nil)
	return out
}

func byteScens() []c34Scen {
	mk := func(i int) uint8 { return uint8(65 + i) }
	strs := []string{"", "x", "héllo"}
	args := func() [][]interface{} {
		var r [][]interface{}
		for si := range sliceStates(mk) {
			for _, s := range strs {
				r = append(r, []interface{}{sliceStates(mk)[si], s})
			}
		}
		return r
	}
	return []c34Scen{
		{name: "[]uint8.AppendString", src: "(func(s []uint8, t string) []uint8 { return s.AppendString(t) })", args: args,
			ref: func(a []interface{}) []interface{} { return []interface{}{append(a[0].([]uint8), a[1].(string)...)} },
			post: func(a, res []interface{}) []interface{} {
				return []interface{}{normGrown(a[0].([]uint8), res[0].([]uint8))}
			}},
		{name: "[]uint8.CopyString", src: "(func(s []uint8, t string) { s.CopyString(t) })", args: args,
			ref: func(a []interface{}) []interface{} { copy(a[0].([]uint8), a[1].(string)); return nil }},
	}
}

func arrayScens[E comparable](en string, mk func(int) E) []c34Scen {
	T := "[3]" + en
	S := "[]" + en
	newArr := func() *[3]E { return &[3]E{mk(0), mk(1), mk(2)} }
	var out []c34Scen
	add := func(name, src string, args func() [][]interface{}, ref func(a []interface{}) []interface{}, post func(a, res []interface{}) []interface{}) {
		out = append(out, c34Scen{name: T + "." + name, src: src, args: args, ref: ref, post: post})
	}
	one := func() [][]interface{} { return [][]interface{}{{newArr()}} }
	idx := func() [][]interface{} {
		var r [][]interface{}
		for _, i := range c34Idx {
			r = append(r, []interface{}{newArr(), i})
		}
		return r
	}
	add("Len", fmt.Sprintf("(func(p *%s) int { return p.Len() })", T), one, func(a []interface{}) []interface{} { return []interface{}{len(a[0].(*[3]E))} }, nil)
	add("Cap", fmt.Sprintf("(func(p *%s) int { return p.Cap() })", T), one, func(a []interface{}) []interface{} { return []interface{}{cap(a[0].(*[3]E))} }, nil)
	add("Index", fmt.Sprintf("(func(p *%s, i int) %s { return p.Index(i) })", T, en), idx,
		func(a []interface{}) []interface{} { return []interface{}{a[0].(*[3]E)[a[1].(int)]} }, nil)
	// value receiver on an addressable variable (the parameter): the method takes its address implicitly
	add("Index(addressable value)", fmt.Sprintf("(func(v %s, i int) %s { return v.Index(i) })", T, en),
		func() [][]interface{} {
			var r [][]interface{}
			for _, i := range c34Idx {
				r = append(r, []interface{}{*newArr(), i})
			}
			return r
		},
		func(a []interface{}) []interface{} { v := a[0].([3]E); return []interface{}{v[a[1].(int)]} }, nil)
	add("SetIndex", fmt.Sprintf("(func(p *%s, i int, v %s) { p.SetIndex(i, v) })", T, en),
		func() [][]interface{} {
			var r [][]interface{}
			for _, t := range idx() {
				r = append(r, append(t, mk(9)))
			}
			return r
		},
		func(a []interface{}) []interface{} { a[0].(*[3]E)[a[1].(int)] = a[2].(E); return nil }, nil)
	add("AddrIndex", fmt.Sprintf("(func(p *%s, i int) *%s { return p.AddrIndex(i) })", T, en), idx,
		func(a []interface{}) []interface{} { return []interface{}{&a[0].(*[3]E)[a[1].(int)]} },
		func(a, res []interface{}) []interface{} {
			p := res[0].(*E)
			return []interface{}{*p, p == &a[0].(*[3]E)[a[1].(int)]}
		})
	add("Copy", fmt.Sprintf("(func(p *%s, o %s) { p.Copy(o) })", T, S),
		func() [][]interface{} {
			var r [][]interface{}
			for si := range sliceStates(mk) {
				r = append(r, []interface{}{newArr(), sliceStates(func(i int) E { return mk(i + 4) })[si]})
			}
			return r
		},
		func(a []interface{}) []interface{} { copy(a[0].(*[3]E)[:], a[1].([]E)); return nil }, nil)
	add("Slice", fmt.Sprintf("(func(p *%s, i, j int) %s { return p.Slice(i, j) })", T, S),
		func() [][]interface{} {
			var r [][]interface{}
			for _, i := range c34Idx {
				for _, j := range c34Idx {
					r = append(r, []interface{}{newArr(), i, j})
				}
			}
			return r
		},
		func(a []interface{}) []interface{} { return []interface{}{a[0].(*[3]E)[a[1].(int):a[2].(int)]} },
		func(a, res []interface{}) []interface{} {
			s := res[0].([]E)
			alias := len(s) > 0 && &s[0] == &a[0].(*[3]E)[a[1].(int)]
			return []interface{}{s, alias}
		})
	add("Slice3", fmt.Sprintf("(func(p *%s, i, j, k int) %s { return p.Slice3(i, j, k) })", T, S),
		func() [][]interface{} {
			var r [][]interface{}
			ix := []int{-1, 0, 1, 2, 3, 4}
			for _, i := range ix {
				for _, j := range ix {
					for _, k := range ix {
						r = append(r, []interface{}{newArr(), i, j, k})
					}
				}
			}
			return r
		},
		func(a []interface{}) []interface{} {
			return []interface{}{a[0].(*[3]E)[a[1].(int):a[2].(int):a[3].(int)]}
		}, nil)
	return out
}

func mapScens[K comparable, V comparable](kn, vn string, keys []K, mkv func(int) V) []c34Scen {
	T := "map[" + kn + "]" + vn
	states := func() []map[K]V {
		return []map[K]V{nil, {}, {keys[0]: mkv(0)}, {keys[0]: mkv(0), keys[1]: mkv(1)}}
	}
	var out []c34Scen
	add := func(name, src string, args func() [][]interface{}, ref func(a []interface{}) []interface{}) {
		out = append(out, c34Scen{name: T + "." + name, src: src, args: args, ref: ref})
	}
	withKey := func() [][]interface{} {
		var r [][]interface{}
		for si := range states() {
			for _, k := range keys {
				r = append(r, []interface{}{states()[si], k})
			}
		}
		return r
	}
	add("Len", fmt.Sprintf("(func(m %s) int { return m.Len() })", T),
		func() [][]interface{} {
			var r [][]interface{}
			for _, m := range states() {
				r = append(r, []interface{}{m})
			}
			return r
		},
		func(a []interface{}) []interface{} { return []interface{}{len(a[0].(map[K]V))} })
	add("Index", fmt.Sprintf("(func(m %s, k %s) %s { return m.Index(k) })", T, kn, vn), withKey,
		func(a []interface{}) []interface{} { return []interface{}{a[0].(map[K]V)[a[1].(K)]} })
	add("TryIndex", fmt.Sprintf("(func(m %s, k %s) (%s, bool) { return m.TryIndex(k) })", T, kn, vn), withKey,
		func(a []interface{}) []interface{} { v, ok := a[0].(map[K]V)[a[1].(K)]; return []interface{}{v, ok} })
	add("SetIndex", fmt.Sprintf("(func(m %s, k %s, v %s) { m.SetIndex(k, v) })", T, kn, vn),
		func() [][]interface{} {
			var r [][]interface{}
			for _, t := range withKey() {
				r = append(r, append(t, mkv(5)))
			}
			return r
		},
		func(a []interface{}) []interface{} { a[0].(map[K]V)[a[1].(K)] = a[2].(V); return nil })
	add("DelIndex", fmt.Sprintf("(func(m %s, k %s) { m.DelIndex(k) })", T, kn), withKey,
		func(a []interface{}) []interface{} { delete(a[0].(map[K]V), a[1].(K)); return nil })
	return out
}

func drain[E any](ch chan E) []E {
	var out []E
	for ch != nil {
		select {
		case v, ok := <-ch:
			if !ok {
				return out
			}
			out = append(out, v)
			continue
		default:
		}
		break
	}
	return out
}

func chanScens[E comparable](en string, mk func(int) E) []c34Scen {
	T := "chan " + en
	const (
		stNil = iota
		stEmpty
		stOne
		stFull
		stClosedEmpty
		stClosedOne
		nStates
	)
	mkState := func(s int) chan E {
		if s == stNil {
			return nil
		}
		ch := make(chan E, 2)
		switch s {
		case stOne, stClosedOne:
			ch <- mk(0)
		case stFull:
			ch <- mk(0)
			ch <- mk(1)
		}
		if s == stClosedEmpty || s == stClosedOne {
			close(ch)
		}
		return ch
	}
	var out []c34Scen
	// post appends what is left in the channel, so that sent values are compared too
	post := func(a, res []interface{}) []interface{} {
		return append(res, fmt.Sprint("left:", drain(a[0].(chan E))))
	}
	add := func(name, src string, states []int, extra []interface{}, ref func(a []interface{}) []interface{}) {
		args := func() [][]interface{} {
			var r [][]interface{}
			for _, s := range states {
				r = append(r, append([]interface{}{mkState(s)}, extra...))
			}
			return r
		}
		out = append(out, c34Scen{name: T + "." + name, src: src, args: args, ref: ref, post: post})
	}
	all := []int{stNil, stEmpty, stOne, stFull, stClosedEmpty, stClosedOne}
	add("Len", fmt.Sprintf("(func(c %s) int { return c.Len() })", T), all, nil, func(a []interface{}) []interface{} { return []interface{}{len(a[0].(chan E))} })
	add("Cap", fmt.Sprintf("(func(c %s) int { return c.Cap() })", T), all, nil, func(a []interface{}) []interface{} { return []interface{}{cap(a[0].(chan E))} })
	add("Close", fmt.Sprintf("(func(c %s) { c.Close() })", T), all, nil, func(a []interface{}) []interface{} { close(a[0].(chan E)); return nil })
	// Send / Recv only in states where they do not block
	add("Send", fmt.Sprintf("(func(c %s, v %s) { c.Send(v) })", T, en), []int{stEmpty, stOne, stClosedEmpty, stClosedOne}, []interface{}{mk(5)},
		func(a []interface{}) []interface{} { a[0].(chan E) <- a[1].(E); return nil })
	add("Recv", fmt.Sprintf("(func(c %s) (%s, bool) { return c.Recv() })", T, en), []int{stOne, stFull, stClosedEmpty, stClosedOne}, nil,
		func(a []interface{}) []interface{} { v, ok := <-a[0].(chan E); return []interface{}{v, ok} })
	add("TrySend", fmt.Sprintf("(func(c %s, v %s) bool { return c.TrySend(v) })", T, en), all, []interface{}{mk(5)},
		func(a []interface{}) []interface{} {
			select {
			case a[0].(chan E) <- a[1].(E):
				return []interface{}{true}
			default:
				return []interface{}{false}
			}
		})
	add("TryRecv", fmt.Sprintf("(func(c %s) (%s, bool) { return c.TryRecv() })", T, en), all, nil,
		func(a []interface{}) []interface{} {
			select {
			case v, ok := <-a[0].(chan E):
				return []interface{}{v, ok}
			default:
				var zero E
				return []interface{}{zero, false}
			}
		})
	return out
}

func stringScens() []c34Scen {
	strs := []string{"", "a", "héllo", "a\x00b"}
	idx := []int{-1, 0, 1, 2, 3, 5, 6, 7}
	return []c34Scen{
		{name: "string.Len", src: "(func(s string) int { return s.Len() })",
			args: func() [][]interface{} {
				var r [][]interface{}
				for _, s := range strs {
					r = append(r, []interface{}{s})
				}
				return r
			},
			ref: func(a []interface{}) []interface{} { return []interface{}{len(a[0].(string))} }},
		{name: "string.Index", src: "(func(s string, i int) uint8 { return s.Index(i) })",
			args: func() [][]interface{} {
				var r [][]interface{}
				for _, s := range strs {
					for _, i := range idx {
						r = append(r, []interface{}{s, i})
					}
				}
				return r
			},
			ref: func(a []interface{}) []interface{} { return []interface{}{a[0].(string)[a[1].(int)]} }},
		{name: "string.Slice", src: "(func(s string, i, j int) string { return s.Slice(i, j) })",
			args: func() [][]interface{} {
				var r [][]interface{}
				for _, s := range strs {
					for _, i := range idx {
						for _, j := range idx {
							r = append(r, []interface{}{s, i, j})
						}
					}
				}
				return r
			},
			ref: func(a []interface{}) []interface{} { return []interface{}{a[0].(string)[a[1].(int):a[2].(int)]} }},
	}
}

func c34Scenarios() []c34Scen {
	var out []c34Scen
	mkInt := func(i int) int { return 10*i + 1 }
	mkStr := func(i int) string { return fmt.Sprintf("s%d", i) }
	mkU8 := func(i int) uint8 { return uint8(65 + i) }
	mkF := func(i int) float64 { return float64(i) + 0.5 }
	out = append(out, sliceScens("int", mkInt)...)
	out = append(out, sliceScens("string", mkStr)...)
	out = append(out, sliceScens("uint8", mkU8)...)
	out = append(out, sliceScens("float64", mkF)...)
	out = append(out, byteScens()...)
	out = append(out, sliceAliasScens("int", mkInt)...)
	out = append(out, sliceAliasScens("string", mkStr)...)
	out = append(out, sliceAliasScens("uint8", mkU8)...)
	out = append(out, sliceAliasScens("float64", mkF)...)
	out = append(out, byteAliasScens()...)
	out = append(out, arrayAliasScens("int", mkInt)...)
	out = append(out, arrayAliasScens("string", mkStr)...)
	out = append(out, arrayScens("int", mkInt)...)
	out = append(out, arrayScens("string", mkStr)...)
	out = append(out, arrayScens("uint8", mkU8)...)
	out = append(out, mapScens("string", "int", []string{"a", "b", "", "zz"}, mkInt)...)
	out = append(out, mapScens("int", "string", []int{1, 2, 0, -7}, mkStr)...)
	out = append(out, mapScens("float64", "int", []float64{1.5, math.Inf(1), 0, math.NaN(), math.Copysign(0, -1)}, mkInt)...)
	out = append(out, chanScens("int", mkInt)...)
	out = append(out, chanScens("string", mkStr)...)
	out = append(out, stringScens()...)
	return out
}
