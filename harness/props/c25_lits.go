package props

// C25 part L: literal tokens x syntactic positions x printer configurations.
//
// The printer sends its output through text/tabwriter and a trimmer; both give a meaning to raw bytes (TAB, VT, FF,
// LF, blanks in front of a line end, the 0xff escape byte). The only thing that keeps the bytes *inside a token* from
// being reinterpreted is the escaping done for literals; which literals need it, how the line/column bookkeeping
// continues after a literal that spans lines, and how a literal interacts with the alignment cells of the construct
// around it (key: value pairs, const/var blocks, struct tags, one statement per line...) depends on the literal kind,
// on its bytes and on the position. The corpus has almost no literal with a raw control byte (one rune literal with a
// raw TAB in all of GOROOT/src). This part enumerates
//
//	every literal of c25Lits (all six literal spellings: INT, FLOAT, IMAG, CHAR, interpreted STRING, raw STRING;
//	for the three textual ones every raw byte class that a Go token may contain: TAB, VT, FF, CR, blank, DEL, a C0 control,
//	NBSP, U+2028, multi-byte runes, quotes of the other kinds, comment openers, line breaks / blank lines / trailing blanks
//	and tabs / leading tabs inside raw strings) x every position of c25LitPositions (27 constructs)
//	+ every ordered pair of 14 "special" literals in the positions whose layout is computed over several lines/cells
//
// and sends each file through the same pipelines as a corpus file: part A (whole file, go/parser and forked parser
// reparse, reprint) under FOUR printer configurations (gomacro's UseSpaces|TabIndent/8, 0/8, RawFormat, UseSpaces/4),
// part S (base/output.Stringer per declaration and per statement) and part B (after MacroExpandCodewalk).

import (
	"fmt"
	"strconv"
	"strings"
	"sync"
	"unicode"

	"go/token"

	stdparser "go/parser"

	"github.com/cosmos72/gomacro/go/printer"
)

// printer configurations of part A for literal files; index 0 is the configuration base/output uses.
var c25Configs = []printer.Config{
	c25Config,
	{Mode: 0, Tabwidth: 8},
	{Mode: printer.RawFormat, Tabwidth: 8},
	{Mode: printer.UseSpaces, Tabwidth: 4},
}

var c25ConfigNames = []string{"UseSpaces|TabIndent/8", "0/8", "RawFormat/8", "UseSpaces/4"}

type c25Lit struct {
	kind string // "INT", "FLOAT", "IMAG", "CHAR", "STRING", "RAW"
	text string
}

func c25Lits() []c25Lit {
	var out []c25Lit
	add := func(kind string, texts ...string) {
		for _, t := range texts {
			out = append(out, c25Lit{kind, t})
		}
	}
	add("INT", "0", "7", "42", "0x1F", "0Xfe", "0b101", "0B1", "0o17", "0O7", "017", "1_000", "0x_1f", "0_7")
	add("FLOAT", "1.5", ".5", "1.", "1e3", "1E+3", "2e-3", "0x1p-2", "0X1P+2", "0x1.8p1", "1_0.2_5", "09.5")
	add("IMAG", "1i", "0i", "1.5i", ".5i", "1e3i", "0x1p0i", "0b1i", "0o7i", "0123i")
	// the textual kinds: `body` is placed between the quotes
	raws := []string{"\t", "\v", "\f", "\r", " ", "\x7f", "\x01", "\u00a0", "\u2028", "\u00e9", "\u4e16", "\U0001F600", "\ufffd"}
	for _, b := range raws {
		add("CHAR", "'"+b+"'")
	}
	add("CHAR", "'a'", `'\t'`, `'\''`, `'"'`, "'`'", `'\\'`, `'\x00'`, `'\377'`, `'\u00e9'`, `'\U0001F600'`, "'/'", "'*'")
	strBodies := append([]string{}, raws...)
	strBodies = append(strBodies, "", "a", "a\tb", "a\t\tb\t", "\ta", " \t ", "a  ", "  a", "a\vb\fc", `a\tb`, `\n`, `\"`, "'", "`", "//", "/*", "*/", `\xff`, `\\`, "a b", "%d\t%s")
	for _, b := range strBodies {
		add("STRING", `"`+b+`"`)
	}
	rawBodies := append([]string{}, raws...)
	rawBodies = append(rawBodies, "", "a", "a\tb", "\ta\t", "a  ", `\n`, `\`, `"`, "'", "//", "/*", "*/",
		"a\nb", "a\n\tb", "a\n\t\tb\n\t", "a \nb", "a\t\nb", "a\v\nb", "a\f\nb", "\n", "\n\n", "\n\n\nb", "a\n", "\nb", "a\n\nb", "a\r\nb", "a\n b \n  c", "\t\n\t", "a\n//b\n/*c", "a\n}\nb", "{\n\ta\n}")
	for _, b := range rawBodies {
		add("RAW", "`"+b+"`")
	}
	return out
}

// c25SpecialLits: literals whose bytes or extent interact with the layout; used for the pair sub-family.
var c25SpecialLits = []string{
	"'\t'", "'\v'", "'\f'", "\"a\tb\"", "\"\v\"", "\" \t \"", "`a\tb`", "`a\nb`", "`a\n\tb\n`", "`a \n\t`", "`\n\n`", "1", "0x1p-2", "\"longer literal\"",
}

type c25LitPos struct {
	tmpl  string // %s = the literal (all occurrences); %a / %b = first / second literal of a pair
	kinds string // admitted kinds ("" = all)
	pairs bool   // also used by the pair sub-family
}

var c25LitPositions = []c25LitPos{
	{"var x = %a", "", false},
	{"const c = %a", "", false},
	{"var (\n\ta = %a\n\tbb, ccc = %b, 1\n\tdddd interface{} = %a\n)", "", true},
	{"const (\n\ta = iota\n\tb = %a\n\tlonger = %b\n\tx, y = %a, %b\n)", "", true},
	{"var _ = f(%a, %b)", "", true},
	{"var _ = []interface{}{%a, %b}", "", false},
	{"var _ = []interface{}{\n\t%a,\n\t%b,\n\t1,\n}", "", true},
	{"var _ = map[interface{}]interface{}{\n\t%a: 1,\n\t\"longer key\": %b,\n\t2: %a,\n}", "", true},
	{"var _ = T{\n\ta: %a,\n\tbcd: %b,\n\tef: f(%a),\n}", "", true},
	{"var _ = T{a: %a, bcd: %b}", "", false},
	{"type T struct {\n\ta int %a\n\tbcd, e string %b\n\tT2 %a\n\tf int\n}", "STRING RAW", true},
	{"import %a", "STRING RAW", false},
	{"import (\n\t%a\n\tname %b\n\t. %a\n)", "STRING RAW", false},
	{"func _() {\n\tswitch x {\n\tcase %a, %b:\n\t\tx = %a\n\tcase 1:\n\t}\n}", "", true},
	{"func _() interface{} {\n\treturn %a\n}", "", false},
	{"func _() (a, b interface{}) { return %a, %b }", "", false},
	{"var _ = a[%a]", "", false},
	{"var _ = a[%a:%b]", "INT CHAR", false},
	{"var _ = %a + %b*%a", "", false},
	{"var _ = -%a", "INT FLOAT IMAG CHAR", false},
	{"var _ = (%a)", "", false},
	{"var _ = [%a]int{}", "INT CHAR", false},
	{"func _() {\n\tx := %a\n\tlonger := %b\n\t_, _ = x, longer\n}", "", true},
	{"func _() {\n\tif x == %a {\n\t}\n\tfor i := %a; i < %b; i++ {\n\t}\n}", "", false},
	{"var _ = %a .f", "INT FLOAT IMAG CHAR STRING RAW", false},
	{"func _() {\n\tf(%a,\n\t\t%b)\n\tg()\n}", "", true},
	{"func _() { go f(%a); defer f(%b); ch <- %a; x = %b; x += %a }", "", false},
	{"var s = %a +\n\t%b +\n\t\"end\"", "", true},
	{"var _ = f(%a)(%b)", "", false},
	{"func _() {\nL:\n\tfor {\n\t\tx = %a\n\t\tbreak L\n\t}\n\tx = %b\n}", "", true},
}

// c25ImportOK: the printer documents that it rewrites a *legal* import path into its canonical double-quoted form
// (sanitizeImportPath); only paths it promises to print unchanged are generated in import position.
func c25ImportOK(lit string) bool {
	s, err := strconv.Unquote(lit)
	if err != nil {
		return false
	}
	if s == "" || strconv.Quote(s) == lit {
		return true
	}
	const illegalChars = `!"#$%&'()*,:;<=>?[\]^{|}` + "`\uFFFD"
	for _, r := range s {
		if !unicode.IsGraphic(r) || unicode.IsSpace(r) || strings.ContainsRune(illegalChars, r) {
			return true
		}
	}
	return false
}

var (
	c25LitOnce sync.Once
	c25LitSrcs []string
)

// c25LitSources returns the literal files (tier independent, deterministic: replay addresses them by index).
func c25LitSources() []string {
	c25LitOnce.Do(func() {
		fill := func(tmpl, a, b string) string {
			s := strings.ReplaceAll(tmpl, "%a", a)
			s = strings.ReplaceAll(s, "%b", b)
			return "package p\n\n" + s + "\n"
		}
		kindOf := map[string]string{}
		lits := c25Lits()
		for _, l := range lits {
			kindOf[l.text] = l.kind
		}
		admit := func(pos c25LitPos, lit string) bool {
			if pos.kinds != "" && !strings.Contains(" "+pos.kinds+" ", " "+kindOf[lit]+" ") {
				return false
			}
			if strings.HasPrefix(pos.tmpl, "import") && !c25ImportOK(lit) {
				return false
			}
			return true
		}
		for _, pos := range c25LitPositions {
			for _, l := range lits {
				if admit(pos, l.text) {
					c25LitSrcs = append(c25LitSrcs, fill(pos.tmpl, l.text, l.text))
				}
			}
		}
		for _, pos := range c25LitPositions {
			if !pos.pairs {
				continue
			}
			for _, a := range c25SpecialLits {
				for _, b := range c25SpecialLits {
					if a != b && admit(pos, a) && admit(pos, b) {
						c25LitSrcs = append(c25LitSrcs, fill(pos.tmpl, a, b))
					}
				}
			}
		}
	})
	return c25LitSrcs
}

const c25LitPrefix = "lit:"

// c25Load loads a corpus file, or regenerates literal file "lit:<index>".
func c25Load(path string) *parsedFile {
	if !strings.HasPrefix(path, c25LitPrefix) {
		return loadCorpusFile(path)
	}
	pf := &parsedFile{Path: path}
	i, err := strconv.Atoi(path[len(c25LitPrefix):])
	srcs := c25LitSources()
	if err != nil || i < 0 || i >= len(srcs) {
		pf.Status, pf.Detail = stUnread, "no such literal file"
		return pf
	}
	src := []byte(srcs[i])
	pf.Src = src
	pf.StdSet = token.NewFileSet()
	std, err := stdparser.ParseFile(pf.StdSet, path, src, stdparser.SkipObjectResolution)
	if err != nil {
		pf.Status, pf.Detail = stStdReject, err.Error()
		return pf
	}
	pf.Std = std
	fset, nodes, perr, panicked := forkParse(path, src, 0)
	switch {
	case panicked != nil:
		pf.Status, pf.Detail = stForkPanic, fmt.Sprint(panicked)
	case perr != nil:
		pf.Status, pf.Detail = stForkError, perr.Error()
	default:
		pf.Fset, pf.Nodes, pf.Status = fset, nodes, stOK
	}
	return pf
}
