package props

// C06 — function calls, closures, frame recycling. Twin execution against compiled Go.
//
// The corpus is the union of bounded-exhaustive families (each program's first line is a comment
// "// <family>|<parameters>" from which the violation signature is derived):
//
//   call   : every signature (parameter kinds)^a × (result kinds)^r, a<=3, r<=2 over {int,string,named int,struct}
//            × 8 groups of call forms (call-site depth / callee location / holders / reassigned function variables /
//            methods, method values and expressions / multi-value forwarding)             -> c06_calls.go
//   variadic, named results, recursion around the pool capacity                          -> c06_calls.go
//   escape : closures and pointers escaping from frames, followed by intervening calls   -> c06_escape.go
//
// With build tag verif the frames returned to the pool are poisoned (c06_poison_on.go).

import (
	"fmt"
	"os"
	"strconv"
	"strings"

	"verif/harness/core"
	"verif/harness/oracle"
	"verif/harness/twin"
)

// ---------------------------------------------------------------------------
// kinds of values used for parameters, results and captured variables

type c06K int

const (
	c06Int c06K = iota
	c06Str
	c06Named
	c06Struct
	// the remaining kinds stored in a frame's integer slots (Env.Ints): used by the address / re-entrancy
	// families only (c06Kinds, the alphabet of the call matrix, stays {int, string, named int, struct})
	c06Bool
	c06Int8
	c06Int16
	c06Int32
	c06Int64
	c06Uint
	c06Uint8
	c06Uint16
	c06Uint32
	c06Uint64
	c06Uintptr
	c06Float32
	c06Float64
	c06Complex64
	c06Complex128
)

var c06Kinds = []c06K{c06Int, c06Str, c06Named, c06Struct}

// c06SlotKinds: the 15 basic kinds besides int that live in integer slots.
var c06SlotKinds = []c06K{c06Bool, c06Int8, c06Int16, c06Int32, c06Int64, c06Uint, c06Uint8, c06Uint16, c06Uint32, c06Uint64, c06Uintptr,
	c06Float32, c06Float64, c06Complex64, c06Complex128}

// c06AllKinds = c06Kinds + c06SlotKinds
var c06AllKinds = append(append([]c06K{}, c06Kinds...), c06SlotKinds...)

var c06KNames = [...]string{"int", "string", "named", "struct", "bool", "int8", "int16", "int32", "int64", "uint", "uint8", "uint16", "uint32", "uint64", "uintptr",
	"float32", "float64", "complex64", "complex128"}

func (k c06K) code() string {
	if k <= c06Struct {
		return "isnt"[k : k+1]
	}
	return "<" + c06KNames[k] + ">"
}

func (k c06K) name() string { return c06KNames[k] }

func (k c06K) isInteger() bool { return k >= c06Int8 && k <= c06Uintptr }
func (k c06K) isFloat() bool   { return k == c06Float32 || k == c06Float64 }
func (k c06K) isComplex() bool { return k == c06Complex64 || k == c06Complex128 }
func (k c06K) floatOf() string {
	if k == c06Complex64 {
		return "float32"
	}
	return "float64"
}

// typ is the type expression (named types carry the program id: top-level names are unique per corpus).
func (k c06K) typ(id string) string {
	switch k {
	case c06Named:
		return "N_" + id
	case c06Struct:
		return "T_" + id
	}
	return c06KNames[k]
}

// lit is a literal (constant expression, except for structs) of the kind carrying the small number n.
func (k c06K) lit(id string, n int) string {
	switch {
	case k == c06Int:
		return strconv.Itoa(n)
	case k == c06Str:
		return strconv.Quote("s" + strconv.Itoa(n))
	case k == c06Named:
		return fmt.Sprintf("N_%s(%d)", id, n)
	case k == c06Struct:
		return fmt.Sprintf("T_%s{%d, %q}", id, n, "t"+strconv.Itoa(n))
	case k == c06Bool:
		return strconv.FormatBool(n%2 == 1)
	case k.isInteger():
		return fmt.Sprintf("%s(%d)", c06KNames[k], n%100) // fits every width
	case k.isFloat():
		return fmt.Sprintf("%s(%d.5)", c06KNames[k], n)
	}
	return fmt.Sprintf("%s(complex(%d, 1))", c06KNames[k], n)
}

// tlit is lit with the evaluation recorded as trace point tp (evaluation order / exactly-once).
func (k c06K) tlit(id string, tp, n int) string {
	switch k {
	case c06Int:
		return fmt.Sprintf("Ti(%d, %d)", tp, n)
	case c06Str:
		return fmt.Sprintf("Ts(%d, %q)", tp, "s"+strconv.Itoa(n))
	case c06Named:
		return fmt.Sprintf("N_%s(Ti(%d, %d))", id, tp, n)
	case c06Struct:
		return fmt.Sprintf("T_%s{Ti(%d, %d), %q}", id, tp, n, "t"+strconv.Itoa(n))
	}
	return k.from(id, fmt.Sprintf("Ti(%d, %d)", tp, n))
}

// dig is an int expression digesting the value of expression e.
func (k c06K) dig(e string) string {
	switch {
	case k == c06Int:
		return e
	case k == c06Str:
		return fmt.Sprintf("int(%s[len(%s)-1])", e, e)
	case k == c06Struct:
		return fmt.Sprintf("(%s.A + len(%s.B))", e, e)
	case k == c06Bool:
		return fmt.Sprintf("len(map[bool]string{true: \"x\"}[%s])", e)
	case k.isComplex():
		return "int(real(" + e + "))"
	}
	return "int(" + e + ")" // named int, integers, floats
}

// from builds a value of the kind from the non-negative int expression e (evaluated once except for structs).
func (k c06K) from(id, e string) string {
	switch {
	case k == c06Int:
		return "(" + e + ")"
	case k == c06Str:
		return fmt.Sprintf("tb_%s[(%s)%%4]", id, e)
	case k == c06Named:
		return fmt.Sprintf("N_%s(%s)", id, e)
	case k == c06Struct:
		return fmt.Sprintf("T_%s{%s, tb_%s[(%s)%%4]}", id, e, id, e)
	case k == c06Bool:
		return fmt.Sprintf("((%s)%%2 == 1)", e)
	case k.isComplex():
		return fmt.Sprintf("complex(%s(%s), 1)", k.floatOf(), e)
	}
	return fmt.Sprintf("%s(%s)", c06KNames[k], e) // conversions of non-constant ints wrap, identically on both sides
}

// next is a statement changing variable v to a different value of its kind.
func (k c06K) next(v string) string {
	switch k {
	case c06Str:
		return v + " = " + v + " + \"!\""
	case c06Bool:
		return v + " = !" + v
	case c06Struct:
		if strings.HasPrefix(v, "*") {
			v = "(" + v + ")"
		}
		return v + ".A = " + v + ".A*2 + 1"
	}
	return v + " = " + v + "*2 + 1"
}

func c06Prelude(id string) string {
	return fmt.Sprintf("type N_%s int\ntype T_%s struct {\n\tA int\n\tB string\n}\nvar tb_%s = [4]string{\"w\", \"x\", \"y\", \"z\"}\n", id, id, id)
}

// cw is a tiny source writer.
type cw struct{ sb strings.Builder }

func (w *cw) f(format string, a ...interface{}) {
	fmt.Fprintf(&w.sb, format, a...)
	w.sb.WriteByte('\n')
}
func (w *cw) String() string { return w.sb.String() }

func c06Codes(ks []c06K) string {
	if len(ks) == 0 {
		return "-"
	}
	s := ""
	for _, k := range ks {
		s += k.code()
	}
	return s
}

// c06Tuples returns all tuples of length n over ks (uniform only: all components equal) .
func c06Tuples(n int, ks []c06K, uniformOnly bool) [][]c06K {
	if n == 0 {
		return [][]c06K{nil}
	}
	var out [][]c06K
	if uniformOnly {
		for _, k := range ks {
			t := make([]c06K, n)
			for i := range t {
				t[i] = k
			}
			out = append(out, t)
		}
		return out
	}
	for _, rest := range c06Tuples(n-1, ks, false) {
		for _, k := range ks {
			out = append(out, append(append([]c06K{}, rest...), k))
		}
	}
	return out
}

// ---------------------------------------------------------------------------
// corpus, signature, registration

func c06Corpus(c *core.Ctx) []oracle.Prog {
	var progs []oracle.Prog
	progs = append(progs, c06CallPrograms(c)...)
	progs = append(progs, c06VariadicPrograms(c)...)
	progs = append(progs, c06NamedResultPrograms(c)...)
	progs = append(progs, c06RecursionPrograms(c)...)
	progs = append(progs, c06EscapePrograms(c)...)
	progs = append(progs, c06ReenterPrograms(c)...)
	progs = append(progs, c06ReplPrograms(c)...)
	if f := os.Getenv("VERIF_C06_FAMILY"); f != "" { // development aid: restrict to one family
		var sel []oracle.Prog
		for _, p := range progs {
			if strings.HasPrefix(p.Body, "// "+f) {
				sel = append(sel, p)
			}
		}
		progs = sel
	}
	return progs
}

func c06Header(p *oracle.Prog) string {
	line := p.Body
	if i := strings.Index(line, "\n"); i > 0 {
		line = line[:i]
	}
	return strings.TrimPrefix(line, "// ")
}

// c06FirstDiffLabel returns the last label token (recorded with S("...")) at or before the first token at which
// the two traces differ. Label tokens start with '@' (values printed by O never do).
func c06FirstDiffLabel(want, got string) string {
	w, g := strings.Fields(want), strings.Fields(got)
	n := 0
	for n < len(w) && n < len(g) && w[n] == g[n] {
		n++
	}
	isLabel := func(t string) bool {
		if strings.HasPrefix(t, "@") {
			return true
		}
		return false
	}
	toks := w
	if len(g) > len(w) {
		toks = g
	}
	if n >= len(toks) {
		n = len(toks) - 1
	}
	for i := n; i >= 0; i-- {
		if isLabel(toks[i]) {
			return toks[i]
		}
		if i < len(w) && isLabel(w[i]) {
			return w[i]
		}
	}
	return "@start"
}

// c06Sig: family | class parameters (from the header) | label of the form where the first difference occurs
// | kind of difference. The kinds of the signature's parameters are reduced to "basic" (all int/string: the
// specialised call stubs) or "generic" so that one defect does not need one entry per kind combination.
func c06Sig(p *oracle.Prog, want, got string) string {
	h := c06Header(p)
	parts := strings.Split(h, "|")
	class := parts[0]
	if len(parts) > 1 {
		class += "|" + parts[1]
	}
	how := "value"
	switch {
	case strings.HasPrefix(got, "COMPILE-ERROR"):
		how = "compile-error"
	case strings.Contains(got, "PANIC(") && !strings.Contains(want, "PANIC("):
		how = "panic"
	case strings.HasPrefix(got, "TIMEOUT"):
		how = "timeout"
	}
	return "C06|" + class + "|" + c06FirstDiffLabel(want, got) + "|" + how
}

func init() {
	registerDiff(&diffSpec{
		ID: "C06",
		Rule: "union of families: (call) every signature over kinds {int,string,named int,struct} with arity 0..3 and 0..2 results (quick: uniform kinds; thorough: all kind tuples) × 8 groups of call forms " +
			"(call-site depth and callee location upn 0..3/file-level/closure, holders (global, slice, map, field, returned, asserted), function variables reassigned between executions of one call site, " +
			"methods/method values/interfaces, receiver copy semantics of method values, method expressions, (*T).M of a value-receiver method, multi-value forwarding g(f()) incl. into variadics and return f()); " +
			"(variadic) fixed 0..2 × element kind × 0..2 results × {0..3 extra args, nil..., s..., literal...} incl. aliasing of s...; (named) named results; " +
			"(recursion) depth {1,31,32,33,70} × 7 shapes with locals verified after return; " +
			"(escape) one to three escaping things (closure at depth 0..3 with 5 closure signatures, or &local) × captured kind × scope {param, local, nested block, loop body, for-header} × route {return, slice, global} " +
			"× intervening calls k∈{0,1,31,32,33,64} sequential or recursive, each thing used (read+write) twice with intervening calls in between; " +
			"(escape2 nested) one maker called twice: thing {&v, closure, pointer-receiver method value v.PM} × kind of v (int,string,named,struct + the 15 other integer-slot kinds bool…complex128: full product kind × frame distance 0..4) " +
			"× owner of v {param, local, named result, block variable, for-header variable, file-level variable} × chain of nested frames between owner and site over {block, for, if, switch, range, type switch, select, func literal} (all single wrappers, successor pairs, depth 3 and 4; thorough: all 64 pairs × all kinds × all owners); " +
			"(reenter) one call site re-entered during the evaluation of its own argument k (direct recursion / through a function literal) or during the callee: arity 1..4 × results 0..2 × every k × callee form {declared, file-level func variable, local func variable, method, method value, interface method, variadic 0/1 fixed, s..., compiled variadic, compiled fixed} × kind {int, struct; thorough all four}, and one result of every basic kind; " +
			"(repl) address/closure of a file-level variable of every kind taken in one Eval, 1100 integer-slot variables declared by the next Eval, then used; " +
			"non-trivial = distinct (family, class parameters, Go result) triples (programs that differ only in route or kind of intervening calls and behave identically count once), escape programs without intervening calls excluded",
		Gen: c06Corpus,
		Sig: c06Sig,
		Key: func(p *oracle.Prog, want string) string {
			h := c06Header(p)
			if strings.HasSuffix(h, "iv=none") {
				return "" // no intervening call: no frame is recycled between escape and use
			}
			parts := strings.Split(h, "|")
			if len(parts) > 2 {
				parts = parts[:2]
			}
			return strings.Join(parts, "|") + "|" + want
		},
		Runner: func(p *oracle.Prog) twin.Result {
			c06InstallPoison()
			defer c06UninstallPoison()
			if c06IsRepl(p) {
				return c06RunRepl(twin.NewFast(), p)
			}
			return twin.Run(twin.NewFast(), p)
		},
		Assume: []string{
			"frame poisoning (fast.VerifHooks.FreeEnv, build tag verif) is active unless VERIF_C06_POISON=0; it only makes stale reads visible, a correct interpreter is unaffected",
			"mutually recursive top-level functions are not generated (declaration order is C16's subject); recursion through a function variable is",
			"family repl: the chunks of the program body (separated by //--) are evaluated as successive top-level Evals of one interpreter; compiled Go runs them as one function body",
		},
	})
}
