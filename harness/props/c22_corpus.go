package props

// Source corpus shared by C20, C22, C25: every .go file under GOROOT/src and under /repo.
// A file is in the domain when (1) the standard go/parser accepts it, (2) it does not use Go 1.18
// type-parameter syntax (which gomacro's forked parser predates) and (3) the forked parser
// parses it. Files on which the forked parser panics or reports an error although the standard
// parser accepts them are counted and skipped: that disagreement is property C24's subject.

import (
	"fmt"
	"go/ast"
	stdparser "go/parser"
	"go/token"
	"io/ioutil"
	"os"
	"path/filepath"
	"runtime"
	"sort"
	"strings"
	"sync"

	"github.com/cosmos72/gomacro/go/etoken"
	"github.com/cosmos72/gomacro/go/parser"

	"verif/harness/core"
)

const (
	stOK        = "ok"
	stUnread    = "unreadable"
	stStdReject = "std-parser-rejects"
	stGeneric   = "uses-type-parameters"
	stForkPanic = "fork-parser-panics(C24)"
	stForkError = "fork-parser-error(C24)"
)

func gorootSrc() string {
	for _, d := range []string{"/usr/share/go-1.23/src", filepath.Join(runtime.GOROOT(), "src")} {
		if r, err := filepath.EvalSymlinks(d); err == nil {
			if st, err := os.Stat(r); err == nil && st.IsDir() {
				return r
			}
		}
	}
	panic("GOROOT/src not found")
}

func listGoFiles(root string) []string {
	var out []string
	filepath.Walk(root, func(p string, info os.FileInfo, err error) error {
		if err != nil {
			return nil
		}
		if info.IsDir() {
			if info.Name() == ".git" {
				return filepath.SkipDir
			}
			return nil
		}
		if strings.HasSuffix(p, ".go") {
			out = append(out, p)
		}
		return nil
	})
	sort.Strings(out)
	return out
}

var corpusOnce struct {
	sync.Mutex
	goroot, repo []string
}

// corpusPaths returns the corpus of the tier: thorough = every file; quick = every 10th GOROOT file
// and every 4th /repo file of the path-sorted lists (fixed, deterministic subset).
func corpusPaths(c *core.Ctx) []string {
	corpusOnce.Lock()
	if corpusOnce.goroot == nil {
		corpusOnce.goroot = listGoFiles(gorootSrc())
		corpusOnce.repo = listGoFiles("/repo")
	}
	g, r := corpusOnce.goroot, corpusOnce.repo
	corpusOnce.Unlock()
	c.Set("corpus_goroot_files_total", len(g))
	c.Set("corpus_repo_files_total", len(r))
	var out []string
	gs, rs := 1, 1
	if c.Quick() {
		gs, rs = 10, 4
	}
	for i := 0; i < len(g); i += gs {
		out = append(out, g[i])
	}
	for i := 0; i < len(r); i += rs {
		out = append(out, r[i])
	}
	c.Set("corpus_subset", fmt.Sprintf("every %d-th GOROOT/src file, every %d-th /repo file (sorted by path)", gs, rs))
	return out
}

type parsedFile struct {
	Path   string
	Status string
	Detail string
	Src    []byte
	Fset   *etoken.FileSet
	Nodes  []ast.Node // top-level nodes returned by the forked parser
	Std    *ast.File  // tree of the standard parser (same source), own FileSet
	StdSet *token.FileSet
}

// usesTypeParams reports whether a tree of the standard parser uses Go 1.18 generics syntax.
func usesTypeParams(f *ast.File) bool {
	found := false
	ast.Inspect(f, func(n ast.Node) bool {
		if found {
			return false
		}
		switch x := n.(type) {
		case *ast.FuncType:
			if x.TypeParams != nil {
				found = true
			}
		case *ast.TypeSpec:
			if x.TypeParams != nil {
				found = true
			}
		case *ast.IndexListExpr:
			found = true
		case *ast.UnaryExpr:
			if x.Op == token.TILDE {
				found = true
			}
		case *ast.InterfaceType:
			if x.Methods != nil {
				for _, m := range x.Methods.List {
					if len(m.Names) == 0 {
						switch m.Type.(type) {
						case *ast.BinaryExpr, *ast.UnaryExpr: // union / approximation elements
							found = true
						}
					}
				}
			}
		}
		return !found
	})
	return found
}

// forkParse parses src with gomacro's forked parser (mode 0 unless given, macro character '~').
func forkParse(name string, src []byte, mode parser.Mode) (fset *etoken.FileSet, nodes []ast.Node, err error, panicked interface{}) {
	fset = etoken.NewFileSet()
	panicked = core.Catch(func() {
		var p parser.Parser
		p.Configure(mode, '~')
		p.Init(fset, name, 0, src)
		nodes, err = p.Parse()
	})
	return
}

// loadCorpusFile reads, classifies and parses one file.
func loadCorpusFile(path string) *parsedFile {
	pf := &parsedFile{Path: path}
	src, err := ioutil.ReadFile(path)
	if err != nil {
		pf.Status, pf.Detail = stUnread, err.Error()
		return pf
	}
	pf.Src = src
	pf.StdSet = token.NewFileSet()
	std, err := stdparser.ParseFile(pf.StdSet, path, src, stdparser.SkipObjectResolution)
	if err != nil {
		pf.Status, pf.Detail = stStdReject, err.Error()
		return pf
	}
	if usesTypeParams(std) {
		pf.Status = stGeneric
		return pf
	}
	pf.Std = std
	fset, nodes, perr, panicked := forkParse(path, src, 0)
	if panicked != nil {
		pf.Status, pf.Detail = stForkPanic, fmt.Sprint(panicked)
		return pf
	}
	if perr != nil {
		pf.Status, pf.Detail = stForkError, perr.Error()
		return pf
	}
	pf.Fset, pf.Nodes, pf.Status = fset, nodes, stOK
	return pf
}

// forEachCorpusFile loads the files whose index satisfies mine(i) on `par` goroutines and hands them to f
// (f is called concurrently; it must only touch its own data and the thread-safe core.Ctx).
// Status counts are recorded under the given counter prefix.
func forEachCorpusFile(c *core.Ctx, paths []string, par int, mine func(i int) bool, f func(i int, pf *parsedFile)) {
	if par < 1 {
		par = 1
	}
	var wg sync.WaitGroup
	idx := make(chan int)
	for w := 0; w < par; w++ {
		wg.Add(1)
		go func() {
			defer wg.Done()
			for i := range idx {
				pf := loadCorpusFile(paths[i])
				c.Count("files_"+pf.Status, 1)
				if pf.Status == stOK {
					f(i, pf)
				}
			}
		}()
	}
	for i := range paths {
		if !mine(i) {
			continue
		}
		if c.Expired() {
			break
		}
		idx <- i
	}
	close(idx)
	wg.Wait()
}

func parallelism() int {
	n := runtime.NumCPU()
	if n > 16 {
		n = 16
	}
	return n
}
