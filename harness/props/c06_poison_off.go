//go:build !verif
// +build !verif

package props

// Without the build tag verif gomacro has no free-frame hook: C06 runs without poisoning.

var c06PoisonCount int

func c06PoisonEnabled() bool { return false }
func c06InstallPoison() bool { return false }
func c06UninstallPoison()    {}
