package props

// C02 part B — twin execution against compiled Go: multi-assignments (incl. swaps, aliasing, operand
// order), statement sequences over two places, places whose evaluation panics, and statements that
// Go rejects at compile time.

import (
	"encoding/json"
	"fmt"
	"os"
	"strings"

	"verif/harness/core"
	"verif/harness/oracle"
	"verif/harness/twin"
)

// the first line of every body is "// <corpus> | <class> | <detail>": corpus/class make the signature.
func c02Header(corpus, class, detail string) string {
	return "// " + corpus + " | " + class + " | " + detail + "\n"
}

func c02TwinSig(p *oracle.Prog, want, got string) string {
	line := p.Body
	if i := strings.Index(line, "\n"); i > 0 {
		line = line[:i]
	}
	parts := strings.Split(strings.TrimPrefix(line, "// "), " | ")
	if len(parts) < 2 {
		return "C02|twin|" + p.ID
	}
	fail := "wrong-state"
	switch {
	case strings.HasPrefix(got, "COMPILE-ERROR") && want != "":
		fail = "rejects-valid-go"
	case want == "" && !strings.HasPrefix(got, "COMPILE-ERROR") && strings.HasPrefix(p.ID, "r"):
		fail = "accepts-invalid-go"
	case strings.Contains(want, "PANIC(") && !strings.Contains(got, "PANIC("):
		fail = "missing-panic"
	case !strings.Contains(want, "PANIC(") && strings.Contains(got, "PANIC("):
		fail = "unexpected-panic"
	}
	sig := "C02|" + parts[0] + "|" + parts[1] + "|" + fail
	if c02SigSink != nil {
		c02SigSink(sig)
	}
	return sig
}

// c02SigSink (development aid) receives every part-B violation signature.
var c02SigSink func(string)

// ---------------------------------------------------------------------------------------------
// multi-assignments

type c02Place struct {
	Text  string // %d receives a trace point id
	Class string
	Value string // the same place read as a value ("" = cannot be read: blank)
}

const c02MultiPrelude = `a, b, i := 10, 20, 0
s := []int{100, 101, 102}
arr := [3]int{200, 201, 202}
m := map[int]int{0: 300, 1: 301}
p := &a
type ST struct{ f, g int }
st := ST{400, 401}
pst := &st
var e interface{} = 7
ok, bs := false, []bool{false, false}
ch := make(chan int, 1)
ch <- 500
`
const c02MultiPost = `
O(a, b, i, s, arr, m, *p, st, pst.g, e, ok, bs, len(ch))`

var c02Places2 = []c02Place{
	{"a", "var", "a"}, {"b", "var", "b"}, {"i", "var", "i"},
	{"s[i]", "index", "s[i]"}, {"s[0]", "index", "s[0]"}, {"s[Ti(%d, 1)]", "index-call", "s[1]"}, {"s[a-10]", "index", "s[a-10]"},
	{"arr[i]", "index", "arr[i]"}, {"m[i]", "map", "m[i]"}, {"m[Ti(%d, 5)]", "map-call", "m[5]"},
	{"*p", "ptr", "*p"}, {"st.f", "field", "st.f"}, {"pst.g", "field", "pst.g"}, {"_", "blank", ""}, {"e", "iface", ""},
}

type c02Rhs struct {
	Text  string
	Class string
}

var c02Rhs2 = []c02Rhs{
	{"a", "var"}, {"i", "var"}, {"s[i]", "index"}, {"*p", "ptr"}, {"Ti(%d, 7)", "call"}, {"5", "const"}, {"i + 1", "expr"},
	{"b", "var"}, {"s[0]", "index"}, {"m[1]", "map"}, {"st.f", "field"}, {"a + b", "expr"},
}

func c02MultiProgs(c *core.Ctx) []oracle.Prog {
	var progs []oracle.Prog
	nr := c.Pick(7, len(c02Rhs2))
	id := 0
	body := func(hdr, stmt string) string { return hdr + c02MultiPrelude + stmt + c02MultiPost }
	tp := func(text string, k int) string {
		if strings.Contains(text, "%d") {
			return fmt.Sprintf(text, k)
		}
		return text
	}
	// two places, two values
	for _, l0 := range c02Places2 {
		for _, l1 := range c02Places2 {
			for _, r0 := range c02Rhs2[:nr] {
				for _, r1 := range c02Rhs2[:nr] {
					stmt := fmt.Sprintf("%s, %s = %s, %s", tp(l0.Text, 1), tp(l1.Text, 2), tp(r0.Text, 3), tp(r1.Text, 4))
					id++
					progs = append(progs, oracle.Prog{ID: fmt.Sprintf("m2_%d", id),
						Body: body(c02Header("multi-assign-2", l0.Class+","+l1.Class+"="+r0.Class+","+r1.Class, stmt), stmt)})
				}
			}
		}
	}
	// two places, one multi-valued expression
	multi := []c02Rhs{{"pair_@(a, Ti(%d, 8))", "call2"}, {"pair_@(i+1, s[i])", "call2"}, {"pair_@(*p, m[i])", "call2"}}
	id = 0
	for _, l0 := range c02Places2 {
		for _, l1 := range c02Places2 {
			for _, r := range multi {
				id++
				pid := fmt.Sprintf("mf_%d", id)
				stmt := fmt.Sprintf("%s, %s = %s", tp(l0.Text, 1), tp(l1.Text, 2), tp(strings.ReplaceAll(r.Text, "@", pid), 3))
				progs = append(progs, oracle.Prog{ID: pid, Decls: "func pair_" + pid + "(x, y int) (int, int) { return x + 1000, y + 2000 }",
					Body: body(c02Header("multi-assign-call", l0.Class+","+l1.Class+"="+r.Class, stmt), stmt)})
			}
		}
	}
	// comma-ok forms
	id = 0
	for _, l0 := range []c02Place{{"a", "var", ""}, {"s[i]", "index", ""}, {"_", "blank", ""}, {"e", "iface", ""}, {"m[Ti(%d, 1)]", "map-call", ""}} {
		for _, l1 := range []c02Place{{"ok", "var", ""}, {"_", "blank", ""}, {"bs[i]", "index", ""}, {"bs[Ti(%d, 1)]", "index-call", ""}} {
			for _, r := range []c02Rhs{{"m[i]", "map-commaok"}, {"m[Ti(%d, 5)]", "map-commaok"}, {"e.(int)", "assert-commaok"}, {"<-ch", "recv-commaok"}} {
				id++
				stmt := fmt.Sprintf("%s, %s = %s", tp(l0.Text, 1), tp(l1.Text, 2), tp(r.Text, 3))
				progs = append(progs, oracle.Prog{ID: fmt.Sprintf("mo_%d", id),
					Body: body(c02Header("multi-assign-commaok", l0.Class+","+l1.Class+"="+r.Class, stmt), stmt)})
			}
		}
	}
	// three places: every triple over a reduced place alphabet × all permutations of the places' own values, constants, traced calls
	p3 := []c02Place{{"a", "var", "a"}, {"i", "var", "i"}, {"s[i]", "index", "s[i]"}, {"s[0]", "index", "s[0]"}, {"m[i]", "map", "m[i]"}, {"*p", "ptr", "*p"}, {"st.f", "field", "st.f"}, {"_", "blank", ""}}
	if c.Quick() {
		p3 = []c02Place{p3[0], p3[1], p3[2], p3[4], p3[5], p3[7]}
	}
	perms := [][3]int{{0, 1, 2}, {0, 2, 1}, {1, 0, 2}, {1, 2, 0}, {2, 0, 1}, {2, 1, 0}}
	id = 0
	for _, l0 := range p3 {
		for _, l1 := range p3 {
			for _, l2 := range p3 {
				ls := [3]c02Place{l0, l1, l2}
				val := func(j int) string {
					if ls[j].Value == "" {
						return fmt.Sprint(9 + j)
					}
					return ls[j].Value
				}
				var rhss []string
				for _, pm := range perms {
					rhss = append(rhss, val(pm[0])+", "+val(pm[1])+", "+val(pm[2]))
				}
				rhss = append(rhss, "1, 2, 3", "Ti(4, 1), Ti(5, 2), Ti(6, 0)")
				for ri, rhs := range rhss {
					stmt := fmt.Sprintf("%s, %s, %s = %s", l0.Text, l1.Text, l2.Text, rhs)
					id++
					cl := "perm"
					if ri >= len(perms) {
						cl = "fresh"
					}
					progs = append(progs, oracle.Prog{ID: fmt.Sprintf("m3_%d", id),
						Body: body(c02Header("multi-assign-3", l0.Class+","+l1.Class+","+l2.Class+"="+cl, stmt), stmt)})
				}
			}
		}
	}
	return progs
}

// ---------------------------------------------------------------------------------------------
// statement sequences on two places

var c02SeqAlphabet = []string{"A = B", "A += B", "A -= 1", "A *= B", "B = A", "A, B = B, A", "A++", "B--", "A += 0", "A <<= 1", "A /= B", "A ^= B"}

type c02SeqVariant struct {
	Name, Decl, A, B string
	Depth            int
}

var c02SeqVariants = []c02SeqVariant{
	{"locals", "a, b := K(A0), K(B0)", "a", "b", 0},
	{"captured", "a, b := K(A0), K(B0)", "a", "b", 1},
	{"slice-map", "s, m := []K{A0}, map[int]K{1: B0}", "s[0]", "m[1]", 0},
	{"field-ptr", "st, pv := struct{ f K }{A0}, new(K)\n*pv = B0", "st.f", "*pv", 0},
}

func c02SeqProgs(c *core.Ctx) []oracle.Prog {
	var progs []oracle.Prog
	type init struct{ a, b string }
	kinds := []struct {
		K     string
		inits []init
	}{
		{"int8", []init{{"100", "3"}, {"-128", "-1"}}},
		{"uint8", []init{{"100", "3"}, {"255", "0"}}},
	}
	n := len(c02SeqAlphabet)
	for ki, kd := range kinds {
		for vi, v := range c02SeqVariants {
			for ii, in := range kd.inits {
				maxLen := 3
				if c.Quick() && !((ki == 0 && vi == 0 && ii == 0) || (ki == 1 && vi == 2 && ii == 1)) {
					maxLen = 2
				}
				var rec func(seq []int)
				rec = func(seq []int) {
					if len(seq) > 0 {
						var names, stmts []string
						for _, si := range seq {
							st := strings.ReplaceAll(strings.ReplaceAll(c02SeqAlphabet[si], "A", v.A), "B", v.B)
							stmts = append(stmts, st)
							names = append(names, c02SeqAlphabet[si])
						}
						decl := strings.NewReplacer("K", kd.K, "A0", in.a, "B0", in.b).Replace(v.Decl)
						var sb strings.Builder
						sb.WriteString(c02Header("sequence", kd.K+","+v.Name, strings.Join(names, "; ")+" from ("+in.a+","+in.b+")"))
						sb.WriteString(decl + "\n")
						fmt.Fprintf(&sb, "defer func() { O(%s, %s) }()\n", v.A, v.B)
						for d := 0; d < v.Depth; d++ {
							sb.WriteString("func() {\n")
						}
						sb.WriteString(strings.Join(stmts, "\n") + "\n")
						for d := 0; d < v.Depth; d++ {
							sb.WriteString("}()\n")
						}
						sb.WriteString("T(1)")
						var ids []string
						for _, si := range seq {
							ids = append(ids, fmt.Sprint(si))
						}
						progs = append(progs, oracle.Prog{ID: fmt.Sprintf("q%d_%d_%d_%s", ki, vi, ii, strings.Join(ids, "_")), Body: sb.String()})
					}
					if len(seq) == maxLen {
						return
					}
					for si := 0; si < n; si++ {
						rec(append(append([]int{}, seq...), si))
					}
				}
				rec(nil)
			}
		}
	}
	return progs
}

// ---------------------------------------------------------------------------------------------
// places whose evaluation panics; statements Go rejects (and valid oddities)

const c02EdgePrelude = `var np *int
var nps *struct{ f int }
var nm map[int]int
var nsl []int
var nparr *[3]int
var nms map[string]string
s := []int{1, 2, 3}
arr := [3]int{4, 5, 6}
y, i5, i0 := 2, 5, 0
_, _, _, _, _, _, _, _, _, _, _ = np, nps, nm, nsl, nparr, nms, s, arr, y, i5, i0
defer func() { O(s, arr, len(nm), len(nms)) }()
`

func c02EdgeProgs(c *core.Ctx) []oracle.Prog {
	var progs []oracle.Prog
	places := []struct{ Text, Class string }{
		{"*np", "nil-pointer"}, {"nps.f", "nil-struct-pointer"}, {"s[5]", "slice-const-index-out-of-range"}, {"s[i5]", "slice-index-out-of-range"},
		{"s[i0-1]", "slice-negative-index"}, {"arr[i5]", "array-index-out-of-range"}, {"nsl[0]", "nil-slice"}, {"nm[1]", "nil-map"},
		{"nparr[1]", "nil-array-pointer"}, {"(*nparr)[i0]", "nil-array-pointer"}, {"s[1]", "valid-place"},
	}
	ops := []string{"=", "+=", "-=", "*=", "/=", "%=", "&=", "|=", "^=", "&^=", "<<=", ">>=", "++", "--"}
	id := 0
	for _, pl := range places {
		for _, op := range ops {
			rhss := []string{"0", "1", "y", "i0"}
			if op == "++" || op == "--" {
				rhss = []string{""}
			}
			for _, rhs := range rhss {
				stmt := pl.Text + " " + op + " " + rhs
				if rhs == "" {
					stmt = pl.Text + op
				}
				id++
				rc := rhs
				if rc == "y" || rc == "i0" {
					rc = "var"
				}
				progs = append(progs, oracle.Prog{ID: fmt.Sprintf("e%d", id),
					Body: c02Header("panicking-place", pl.Class+","+op+","+rc, stmt) + c02EdgePrelude + stmt + "\nT(1)"})
			}
		}
	}
	for _, stmt := range []string{`nms["k"] = "v"`, `nms["k"] += "v"`, `nms["k"] += ""`} {
		id++
		progs = append(progs, oracle.Prog{ID: fmt.Sprintf("e%d", id), Body: c02Header("panicking-place", "nil-map-string", stmt) + c02EdgePrelude + stmt + "\nT(1)"})
	}
	return progs
}

const c02StaticPrelude = `a, b, i := 10, 20, 0
var i8 int8 = 1
var i16 int16 = 2
var u8 uint8 = 3
var f64 float64 = 1.5
var c128 complex128 = 2
str, bo := "s", true
s := []int{100, 101, 102}
arr := [3]int{200, 201, 202}
m := map[int]int{0: 300}
ms := map[int]struct{ f int }{0: {1}}
mstr := map[string]int{"x": 1}
p := &a
type ST struct{ f, g int }
st := ST{400, 401}
st2 := ST{500, 501}
sts := []ST{{1, 2}, {3, 4}, {5, 6}}
aa := [][2]int{{1, 2}, {3, 4}}
strs := []string{"p", "q"}
var e interface{} = 7
const cst = 3
fv := func() int { return 1 }
fs := func() struct{ f int } { return struct{ f int }{1} }
fp := func() *int { return p }
_, _, _, _, _, _, _, _, _, _, _, _ = b, i, i16, ms, mstr, e, fv, fs, fp, arr, m, c128
`
const c02StaticPost = `
O(a, b, i, i8, i16, u8, f64, c128, str, bo, s, arr, m, len(ms), mstr, *p, st, e, st2, sts, aa, strs)`

var c02StaticStmts = []string{
	// invalid in Go
	"_ += 1", "_++", "_ = nil", "a, b += 1, 2", "a, b = 1", "a = 1, 2", "a, b = b", "a, b, i = 1, 2", "ms[0].f = 1", "fv() = 1", "fs().f = 1", "str[0] = 'x'", `"abc"[0] = 1`,
	"cst = 1", "cst += 1", "cst++", "a + b = 1", "i8 += i16", "i8 = i16", "a <<= 1.5", "a <<= f64", "a <<= -1", "a >>= -1", `a = "s"`, `a += "s"`, "bo += true", "bo++", "bo = 1", `str -= "a"`, "str++", "str *= 2",
	"f64 %= 2", "f64 &= 1", "f64 <<= 1", "c128 %= 2", "u8 = 256", "u8 += 256", "i8 = -129", "i8 = 128", "i8 += 128", "u8 = -1", "u8 -= -1", "a /= 0", "a %= 0", "i8 /= 0", "u8 %= 0", "a = nil", "p = 0", "p += 1",
	"nil = 1", "true = false", "*a = 1", "s.f = 1", "st.nofield = 1", "a[0] = 1", "arr[5] = 1", "arr[-1] = 1", "s[-1] = 1", `s["x"] = 1`, `m["x"] = 1`, "s[1.5] = 1", "e.(int) = 1", "e += 1", "e++", "st += st", "s += s",
	"a = f64", "f64 = a", "a += f64", "a = 1.5", "a += 1.5", "f64 = 1i", "i8 = 1e3", "a, b = b, str", "undefinedVar = 1", "undefinedVar++", "a = undefinedVar", "&a = p", "-a = 1", "a++ = 1",
	// valid in Go (oddities)
	"f64 /= 0", "f64 /= 0.0", "c128 /= 0", "s[1.0] = 1", "(a) = 1", "(*p) = 3", "*&a = 4", "st.f, st.f = 1, 2", "a, a = 1, 2", "a, _ = 1, 2", "_, _ = a, b", "_ = a", "_ = 5", "*fp() = 5", "*fp() += 5", "*fp()++",
	"a <<= 2.0", "a <<= 'a' - 'a' + 1", "a <<= cst", "a <<= u8", "a <<= i8", "i8 <<= 7", "i8 <<= 8", "u8 >>= 8", "a >>= 100", "a = 'a'", "f64 = 1", "f64 += 1", "c128 = 1", "c128 += 2.5", "c128 *= 1i", "i8 = 1e2", "f64 = 'a'",
	"u8 = 255", "u8 += 255", "i8 = -128", "i8 -= -128", "a = cst", "a += cst", "i8 = cst", "u8 <<= cst", "e = 1", "e = nil", `e = "s"`, "e = st", "e = a", "p = nil", "s = nil", "m = nil", "m[5] = 5", "m[5]++", "mstr[\"y\"] -= 3",
	"str += \"x\"", "str = \"\"", "str += \"\"", "bo = !bo", "bo = a > b", "a, b = b, a", "a, b, i = b, i, a", "s[i], i = 5, 2", "i, s[i] = 2, 5", "a = a", "a += a", "a -= a", "a *= a", "a /= a", "a ^= a", "a &^= a", "a <<= a - 8", "s[0], s[1], s[2] = s[2], s[0], s[1]",
	"arr[0], arr[2] = arr[2], arr[0]", "st.f, st.g = st.g, st.f", "st = ST{1, 2}", "st = struct{ f, g int }{1, 2}", "arr = [3]int{}", "*p, a = 1, 2", "a, *p = 1, 2", "p, *p = &b, 77", "*p, p = 77, &b", "s, s[0] = nil, 5", "m, m[0] = nil, 5",
	"i, arr[i] = 1, 9", "arr[i], i = 9, 1",
	// values of struct, array and string type (copied before the first place is assigned)
	"st, st2 = st2, st", "sts[0], sts[1] = sts[1], sts[0]", "sts[0], sts[1], sts[2] = sts[1], sts[2], sts[0]", "aa[0], aa[1] = aa[1], aa[0]", "st, sts[0] = sts[0], st", "sts[i], st2, i = st, sts[i], 1",
	"str, strs[0] = strs[0], str", "strs[0], strs[1] = strs[1], strs[0]", "e, st = st, ST{9, 9}", "st, st2.f = st2, st.g", "st.f, st = st2.g, st2", "aa[0][1], aa[1] = aa[1][0], aa[0]",
	"s[u8-2] = 7", "s[u8-2] += 7", "arr[i8] = 7", "arr[i8]++", "s[i16] <<= 1", "s[uint64(i16)] -= 1", "m[int(u8)] = 1", "s[cst-1] = 4",
	"(&struct{ f int }{1}).f = 2", "pa := &struct{ f int }{1}; pa.f = a; a = pa.f + 1", "pa := &struct{ f int }{1}; (*pa).f = a; a = (*pa).f + 1", "f64, a = 2.5, 3", "str, a = \"t\", len(str)", "i8, i16, u8 = 127, 32767, 255", "i8++", "u8--", "f64++", "c128--", "f64 -= 0.1", "f64 *= 0", "f64 += 0", "c128 *= 0", "c128 *= 1", "c128 /= 1",
}

func c02StaticProgs(c *core.Ctx) []oracle.Prog {
	var progs []oracle.Prog
	for i, stmt := range c02StaticStmts {
		progs = append(progs, oracle.Prog{ID: fmt.Sprintf("r%d", i), Body: c02Header("statement", stmt, stmt) + c02StaticPrelude + stmt + c02StaticPost})
	}
	return progs
}

// ---------------------------------------------------------------------------------------------

// c02SharedRunner runs part-B programs on an interpreter shared by up to 200 programs (a fresh fast.Interp costs
// ~10 ms, a program ~0.1 ms). A program seen before (the confirmation run after a mismatch, or a replay) always
// gets a fresh interpreter, so a reported violation never depends on what ran earlier.
type c02SharedRunner struct {
	ir   *twin.Interp
	n    int
	seen map[string]bool
}

func (r *c02SharedRunner) run(p *oracle.Prog) twin.Result {
	if r.seen == nil {
		r.seen = map[string]bool{}
	}
	if r.seen[p.ID] {
		return twin.Run(twin.NewFast(), p)
	}
	r.seen[p.ID] = true
	if r.ir == nil || r.n >= 200 {
		r.ir, r.n = twin.NewFast(), 0
	}
	r.n++
	res := twin.Run(r.ir, p)
	if res.TimedOut {
		r.ir = nil
	}
	return res
}

var c02Shared = &c02SharedRunner{}

var c02Twin = &diffSpec{
	ID:            "C02",
	RejectInvalid: true,
	Runner:        func(p *oracle.Prog) twin.Result { return c02Shared.run(p) },
	Gen: func(c *core.Ctx) []oracle.Prog {
		var progs []oracle.Prog
		if os.Getenv("VERIF_C02_CORPUS") == "reentrant" { // development aid (c02Run marks the run as capped)
			return c02ReentProgs(c)
		}
		progs = append(progs, c02MultiProgs(c)...)
		progs = append(progs, c02SeqProgs(c)...)
		progs = append(progs, c02EdgeProgs(c)...)
		progs = append(progs, c02StaticProgs(c)...)
		progs = append(progs, c02ReentProgs(c)...)
		return progs
	},
	Sig: c02TwinSig,
	Key: func(p *oracle.Prog, want string) string {
		if want == "" {
			return ""
		}
		return "B|" + p.ID
	},
}

func c02TwinPrepare(c *core.Ctx) error {
	_, _, _, err := c02Twin.corpus(c)
	return err
}

func c02TwinRun(c *core.Ctx, offset int) {
	c.Assume("the Go toolchain installed in the image (go1.23.5, module mode go 1.21) is the reference for 'compiled Go' in part B")
	valid, invalid, want, err := c02Twin.corpus(c)
	if err != nil {
		panic(err)
	}
	if os.Getenv("VERIF_SIGS") != "" {
		c02SigSink = func(sig string) { devSig(c, sig, "(part B: see replay)") }
	}
	c.Set("partB_programs_valid", len(valid))
	c.Set("partB_programs_go_rejects", len(invalid))
	n := offset
	for i := range valid {
		n++
		if !c.Mine(n) {
			continue
		}
		if c.Expired() {
			return
		}
		c02Twin.runOne(c, &valid[i], want[valid[i].ID], false)
		c.Count("partB_executed", 1)
	}
	for i := range invalid {
		n++
		if !c.Mine(n) {
			continue
		}
		if c.Expired() {
			return
		}
		// programs Go rejects are outside the property (it speaks about the state after statements Go accepts):
		// what the interpreter does with them is recorded, not judged
		c.Eval(1)
		res := c02Twin.exec(&invalid[i])
		c.Count("partB_executed", 1)
		if res.CompileErr == "" {
			c.Count("observed (not a violation): interpreter accepts a statement Go rejects: "+c02TwinSig(&invalid[i], "", res.Out), 1)
		}
	}
}

func c02TwinReplay(c *core.Ctx, raw json.RawMessage) {
	var cas diffCase
	if err := json.Unmarshal(raw, &cas); err != nil {
		panic(err)
	}
	c02Twin.runOne(c, &cas.Prog, cas.Want, cas.Reject)
}
