package props

// C38 — the classic interpreter matches compiled Go on its documented subset. The corpora of the
// twin-execution checks, restricted by each corpus' Classic predicate to default-typed
// int/float64/string/bool values, slices, maps, plain structs, functions/closures, control flow and
// defer/recover, are run on classic.Interp; the oracle results are the same cached compiled-Go results.

import (
	"encoding/json"
	"fmt"
	"os"
	r "reflect"
	"regexp"
	"sort"
	"strings"
	"time"

	"github.com/cosmos72/gomacro/classic"

	"verif/harness/core"
	"verif/harness/h"
	"verif/harness/oracle"
	"verif/harness/twin"
)

func init() {
	core.Register(&core.Check{ID: "C38", Level: "exploration", Workers: -1, Run: c38Run, Replay: c38Replay,
		Prepare: func(c *core.Ctx) error {
			for _, spec := range diffSpecs {
				if spec.Classic != nil {
					if _, _, _, err := spec.corpus(c); err != nil {
						return err
					}
				}
			}
			return nil
		}})
}

func c38NewClassic() *classic.Interp {
	ir := classic.New()
	names := make([]string, 0, len(h.Hooks))
	for k := range h.Hooks {
		names = append(names, k)
	}
	sort.Strings(names)
	for _, k := range names {
		fn := h.Hooks[k]
		ir.DefineFunc(k, r.TypeOf(fn), r.ValueOf(fn))
	}
	return ir
}

func c38RunProg(p *oracle.Prog) (res twin.Result) {
	ir := c38NewClassic()
	h.Reset()
	if perr := twin.Catch(func() { ir.Eval(p.Source()) }); perr != nil {
		res.CompileErr = fmt.Sprint(perr)
		return
	}
	watchdog := time.AfterFunc(30*time.Second, func() { res.TimedOut = true; ir.Interrupt(os.Interrupt) })
	res.Out = h.Exec(func() { ir.Eval("P_" + p.ID + "()") })
	watchdog.Stop()
	return
}

type c38Case struct {
	Corpus string      `json:"corpus"`
	Prog   oracle.Prog `json:"prog"`
	Want   string      `json:"want_compiled_go"`
}

func c38Run(c *core.Ctx) {
	c.Rule("programs of the registered twin-execution corpora that lie in the classic interpreter's documented subset (per-corpus predicate: only default-typed int/float64/string/bool, slices, maps, plain structs, functions, closures, control flow, defer/recover; no typed constants arithmetic, interfaces, embedding, goroutines), each run on a fresh classic.Interp and compared with the cached compiled-Go result; " +
		"non-trivial = distinct (program, Go result) whose trace has at least two events")
	c.Assume("the Go toolchain installed in the image is the reference for 'compiled Go'", "the subset predicates follow classic/README.md (documented limitations are excluded)")
	n := 0
	for _, spec := range diffSpecs {
		if spec.Classic == nil {
			continue
		}
		valid, _, want, err := spec.corpus(c)
		if err != nil {
			panic(err)
		}
		sel := 0
		for i := range valid {
			p := &valid[i]
			if !spec.Classic(p) {
				continue
			}
			sel++
			n++
			if !c.Mine(n) {
				continue
			}
			if c.Expired() {
				return
			}
			c38One(c, spec.ID, p, want[p.ID])
		}
		c.Count("programs_in_subset_"+spec.ID, 0)
		if c.Shard == 0 {
			c.Count("programs_in_subset_"+spec.ID, sel)
		}
	}
}

func c38One(c *core.Ctx, corpus string, p *oracle.Prog, want string) {
	c.Eval(1)
	res := c38RunProg(p)
	got := res.Out
	if res.CompileErr != "" {
		got = "ERROR: " + res.CompileErr
	}
	if res.TimedOut {
		got = "TIMEOUT " + got
	}
	if strings.Count(want, " ") >= 2 {
		c.Nontrivial(p.ID + "|" + want)
	}
	if c.WantSample() {
		c.Sample(map[string]string{"corpus": corpus, "program": p.Source(), "result": want})
	}
	if got != want {
		res2 := c38RunProg(p)
		if res2.Out != res.Out || res2.CompileErr != res.CompileErr {
			c.Violation("C38|nondeterministic", fmt.Sprintf("classic gave two different results for\n%s", p.Source()), c38Case{corpus, *p, want})
			return
		}
		line := p.Body
		if i := strings.Index(line, "\n"); i > 0 {
			line = line[:i]
		}
		sig := "C38|" + corpus + "|" + strings.TrimPrefix(line, "// ")
		if c38LabelledJump.MatchString(p.Body) {
			// the classic interpreter ignores the label of break/continue (always the innermost statement)
			sig = "C38|labelled-break-or-continue"
		}
		c.Violation(sig, fmt.Sprintf("compiled Go: %q   classic interpreter: %q\n%s", want, got, p.Source()), c38Case{corpus, *p, want})
	}
}

var c38LabelledJump = regexp.MustCompile(`\b(break|continue) [A-Za-z_]\w*`)

func c38Replay(c *core.Ctx, raw json.RawMessage) {
	var cas c38Case
	if err := json.Unmarshal(raw, &cas); err != nil {
		panic(err)
	}
	c38One(c, cas.Corpus, &cas.Prog, cas.Want)
}

// C38Probe lists the failing programs whose id starts with prefix (development aid).
func C38Probe(prefix string, report func(id, line, want, got string)) {
	c := core.NewProbeCtx("C38", "quick")
	for _, spec := range diffSpecs {
		if spec.Classic == nil {
			continue
		}
		valid, _, want, err := spec.corpus(c)
		if err != nil {
			panic(err)
		}
		for i := range valid {
			p := &valid[i]
			if !spec.Classic(p) || !strings.HasPrefix(p.ID, prefix) {
				continue
			}
			res := c38RunProg(p)
			got := res.Out
			if res.CompileErr != "" {
				got = "ERROR: " + res.CompileErr
			}
			if got != want[p.ID] {
				report(p.ID, p.Body, want[p.ID], got)
			}
		}
	}
}
