package props

// C38 — the classic interpreter matches compiled Go on its documented subset. The corpora of the
// twin-execution checks, restricted by each corpus' Classic predicate to default-typed
// int/float64/string/bool values, slices, maps, plain structs, functions/closures, control flow and
// defer/recover, are run on classic.Interp; the oracle results are the same cached compiled-Go results.

import (
	"encoding/json"
	"fmt"
	"io/ioutil"
	"os"
	r "reflect"
	"regexp"
	"sort"
	"strings"
	"time"

	"github.com/cosmos72/gomacro/classic"

	"verif/harness/core"
	"verif/harness/h"
	"verif/harness/oracle"
	"verif/harness/twin"
)

func init() {
	core.Register(&core.Check{ID: "C38", Level: "exploration", Workers: -1, Run: c38Run, Replay: c38Replay,
		Prepare: func(c *core.Ctx) error {
			for _, spec := range c38Specs() {
				if _, _, _, err := spec.corpus(c38CorpusCtx(c, spec)); err != nil {
					return err
				}
			}
			return nil
		}})
}

// c38Specs lists the corpora C38 runs: every registered twin-execution corpus that has a predicate for the classic
// interpreter's documented subset (its own, or one of c38_subset.go), and C38's own corpus.
func c38Specs() []*diffSpec {
	var out []*diffSpec
	for _, spec := range diffSpecs {
		if spec.Classic != nil {
			out = append(out, spec)
		} else if pred := c38ExtraClassic[spec.ID]; pred != nil {
			cp := *spec
			cp.Classic = pred
			out = append(out, &cp)
		}
	}
	// order: C05 (the original corpus), C38's own corpus, then the borrowed ones — the framework keeps only the first
	// 20 violations of a worker in full
	var ordered []*diffSpec
	for _, spec := range out {
		if spec.ID == "C05" {
			ordered = append(ordered, spec)
		}
	}
	ordered = append(ordered, c38ResultsSpec)
	for _, spec := range out {
		if spec.ID != "C05" {
			ordered = append(ordered, spec)
		}
	}
	return ordered
}

// c38CorpusCtx: the corpora borrowed from C06, C07 and C08 are always their quick-tier corpora (their thorough tiers
// multiply dimensions that only matter to the fast interpreter's specialised code, and cost a cold oracle build of
// several minutes each); C05's and C38's own corpus follow the tier of the run.
func c38CorpusCtx(c *core.Ctx, spec *diffSpec) *core.Ctx {
	if c38ExtraClassic[spec.ID] != nil && c.Thorough() {
		return c.WithTier("quick")
	}
	return c
}

func c38SpecByID(id string) *diffSpec {
	for _, spec := range c38Specs() {
		if spec.ID == id {
			return spec
		}
	}
	return nil
}

func c38NewClassic() *classic.Interp {
	ir := classic.New()
	// warnings ("too many return values" for return m[k], …) are not part of the compared result
	ir.Stdout, ir.Stderr = ioutil.Discard, ioutil.Discard
	names := make([]string, 0, len(h.Hooks))
	for k := range h.Hooks {
		names = append(names, k)
	}
	sort.Strings(names)
	for _, k := range names {
		fn := h.Hooks[k]
		ir.DefineFunc(k, r.TypeOf(fn), r.ValueOf(fn))
	}
	return ir
}

func c38RunProg(p *oracle.Prog) (res twin.Result) {
	ir := c38NewClassic()
	h.Reset()
	if perr := twin.Catch(func() { ir.Eval(p.Source()) }); perr != nil {
		res.CompileErr = fmt.Sprint(perr)
		return
	}
	watchdog := time.AfterFunc(30*time.Second, func() { res.TimedOut = true; ir.Interrupt(os.Interrupt) })
	res.Out = h.Exec(func() { ir.Eval("P_" + p.ID + "()") })
	watchdog.Stop()
	return
}

type c38Case struct {
	Corpus string      `json:"corpus"`
	Prog   oracle.Prog `json:"prog"`
	Want   string      `json:"want_compiled_go"`
}

func c38Run(c *core.Ctx) {
	c.Rule("programs that lie in the classic interpreter's documented subset (only default-typed int/float64/string/bool, slices, maps, plain structs, functions, closures, control flow, defer/recover; no typed/untyped constant arithmetic, interfaces, methods, embedding, pointers, arrays, goroutines/channels, labels), each run on a fresh classic.Interp and compared with the cached compiled-Go result. " +
		"Corpora: C05 control flow (its own predicate); the programs of the quick-tier C06 (calls/closures/escape/re-entrancy), C07 (defer/panic/recover call trees) and C08 (composites, append/copy, literals) corpora selected by a predicate on the type-checked AST (white list of statement forms and of every expression and declared type; unused prelude declarations ignored); " +
		"C38's own corpus 'value-copy points at function boundaries vs deferred code': ret = kind {int,float64,string,bool,slice,map,struct,func} × storage class of the returned operand {local, parameter, field, slice element, map element, *p, package variable, captured variable} × mutator {deferred closure assigning / updating, defer set(&x,v), deferred function variable, two defers, defer in loop, nested defer, deferred closure calling recover()} × arity/position {1, first of 2, last of 2, same operand twice} × call context {assigned, argument, forwarded by return f(), called twice, through a function value, closure of the owner} × form {x, (x), id(x)} (quick: kind × store × mutator in full, the other dimensions with the plain closure mutator; thorough: full product); " +
		"named = named results: {bare, return r, return const, return local, conditional bare} × deferred modification {none, update, set, two, observe, through pointer, with recover()} × result shapes × contexts; dargs = arguments and function value of a defer statement saved at the statement: kind × storage class × {closure parameter, declared function, two arguments, compiled hook, function variable, variadic} × {assign, update} and function value held in {local, field, element, package variable} reassigned afterwards; " +
		"recov = a function with {0, 1, 2} × {unnamed, named} results recovers at call depth 1..6 from {panic(string/int/struct), nil map write, index out of range, division by zero, panic in a callee} through 9 handler shapes (incl. no recover, recover in a helper: panic escapes); cargs = arguments of ordinary calls are copies: kind × storage class × callee {assign, update, deferred assign, assign in a closure}; " +
		"non-trivial = distinct (program, Go result) whose trace has at least two events")
	c.Assume("the Go toolchain installed in the image is the reference for 'compiled Go'", "the subset predicates follow classic/README.md (documented limitations are excluded) and the positive list of the property statement; pointers, arrays and methods are left out of the predicate for foreign corpora (C38's own corpus uses &x / *p for two storage classes)")
	n := 0
	for _, spec := range c38Specs() {
		valid, _, want, err := spec.corpus(c38CorpusCtx(c, spec))
		if err != nil {
			panic(err)
		}
		// every worker decides the subset predicate only for its own share of the corpus; the counters are summed
		sel := 0
		for i := range valid {
			p := &valid[i]
			n++
			if !c.Mine(n) {
				continue
			}
			if c.Expired() {
				return
			}
			if !spec.Classic(p) {
				continue
			}
			sel++
			c38One(c, spec, p, want[p.ID])
		}
		c.Count("programs_in_subset_"+spec.ID, sel)
		c.Count("programs_in_corpus_"+spec.ID, 0)
		if c.Shard == 0 {
			c.Count("programs_in_corpus_"+spec.ID, len(valid))
		}
	}
}

func c38One(c *core.Ctx, spec *diffSpec, p *oracle.Prog, want string) {
	corpus := spec.ID
	c.Eval(1)
	res := c38RunProg(p)
	got := res.Out
	if res.CompileErr != "" {
		got = "ERROR: " + res.CompileErr
	}
	if res.TimedOut {
		got = "TIMEOUT " + got
	}
	if strings.Count(want, " ") >= 2 {
		c.Nontrivial(p.ID + "|" + want)
	}
	if c.WantSample() {
		c.Sample(map[string]string{"corpus": corpus, "program": p.Source(), "result": want})
	}
	if got != want {
		res2 := c38RunProg(p)
		if res2.Out != res.Out || res2.CompileErr != res.CompileErr {
			c.Violation("C38|nondeterministic", fmt.Sprintf("classic gave two different results for\n%s", p.Source()), c38Case{corpus, *p, want})
			return
		}
		line := p.Body
		if i := strings.Index(line, "\n"); i > 0 {
			line = line[:i]
		}
		sig := "C38|" + corpus + "|" + strings.TrimPrefix(line, "// ")
		if c38OwnSig[corpus] != nil {
			sig = c38OwnSig[corpus](p, want, got)
		}
		if c38LabelledJump.MatchString(p.Body) {
			// the classic interpreter ignores the label of break/continue (always the innermost statement)
			sig = "C38|labelled-break-or-continue"
		}
		c.Violation(sig, fmt.Sprintf("compiled Go: %q   classic interpreter: %q\n%s", want, got, p.Source()), c38Case{corpus, *p, want})
	}
}

var c38LabelledJump = regexp.MustCompile(`\b(break|continue) [A-Za-z_]\w*`)

func c38Replay(c *core.Ctx, raw json.RawMessage) {
	var cas c38Case
	if err := json.Unmarshal(raw, &cas); err != nil {
		panic(err)
	}
	spec := c38SpecByID(cas.Corpus)
	if spec == nil {
		panic("C38 replay: unknown corpus " + cas.Corpus)
	}
	c38One(c, spec, &cas.Prog, cas.Want)
}

// C38Probe lists the failing programs whose id starts with prefix (development aid).
func C38Probe(prefix string, report func(id, line, want, got string)) {
	c := core.NewProbeCtx("C38", "quick")
	for _, spec := range c38Specs() {
		if !strings.HasPrefix(prefix, spec.ID+":") && strings.Contains(prefix, ":") {
			continue
		}
		valid, _, want, err := spec.corpus(c)
		if err != nil {
			panic(err)
		}
		prefix := prefix[strings.Index(prefix, ":")+1:]
		for i := range valid {
			p := &valid[i]
			if !spec.Classic(p) || !strings.HasPrefix(p.ID, prefix) {
				continue
			}
			res := c38RunProg(p)
			got := res.Out
			if res.CompileErr != "" {
				got = "ERROR: " + res.CompileErr
			}
			if got != want[p.ID] {
				report(p.ID, p.Body, want[p.ID], got)
			}
		}
	}
}

// C38ProbeSigs runs the selected programs of one corpus and reports every mismatch with its signature (development aid).
func C38ProbeSigs(corpus string, report func(sig, id, src, want, got string)) (total int) {
	c := core.NewProbeCtx("C38", os.Getenv("VERIF_TIER_PROBE"))
	spec := c38SpecByID(corpus)
	valid, _, want, err := spec.corpus(c)
	if err != nil {
		panic(err)
	}
	for i := range valid {
		p := &valid[i]
		if !spec.Classic(p) {
			continue
		}
		total++
		res := c38RunProg(p)
		got := res.Out
		if res.CompileErr != "" {
			got = "ERROR: " + res.CompileErr
		}
		if got != want[p.ID] {
			sig := "C38|" + corpus + "|" + c06Header(p)
			if c38OwnSig[corpus] != nil {
				sig = c38OwnSig[corpus](p, want[p.ID], got)
			}
			report(sig, p.ID, p.Source(), want[p.ID], got)
		}
	}
	return
}

// C38ProbeWhy returns, for one corpus, how many programs are outside the subset per reason (development aid).
func C38ProbeWhy(corpus string) map[string]int {
	c := core.NewProbeCtx("C38", os.Getenv("VERIF_TIER_PROBE"))
	var spec *diffSpec
	for _, s := range diffSpecs {
		if s.ID == corpus {
			spec = s
		}
	}
	valid, _, _, err := spec.corpus(c)
	if err != nil {
		panic(err)
	}
	m := map[string]int{}
	for i := range valid {
		w := c38WhyNot(&valid[i])
		if len(w) > 60 {
			w = w[:60]
		}
		m[w]++
	}
	return m
}
