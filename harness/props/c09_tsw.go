package props

// C09, fourth part: type switches whose cases OVERLAP.
//
// In the switches of c09.go / c09_misc.go the tag is always an interface{} and every dynamic type matches at most
// one case, so neither the order of the cases nor the dispatch shortcut of fast/switch_type.go (a jump table keyed
// on reflect.Type built from the initial run of concrete cases) can pick a wrong branch. Here:
//   - the tag is an interpreted non-empty interface, a compiled non-empty interface (fmt.Stringer) or interface{};
//   - the case alphabet holds concrete types and interfaces such that most dynamic types match several cases
//     (A implements I and K, D embeds A, *A …), two pairs of distinct types with one reflect.Type (structs A/B with
//     the same layout, named ints N1/N2), multi-type cases, nil and default;
//   - every ordered list of ≤ 3 distinct cases (thorough: more items, and lists of 4 over a reduced alphabet) is
//     run on every dynamic value of the tag's source list: compiled Go says which branch is the first match.
// Every branch uses the bound variable with the static type Go gives it (the type of the tag in default, nil and
// multi-type cases). The sources of one switch are split over up to three sites so that the classes of failures keep
// separate signatures: the ordinary sources, the "twins" (dynamic type not listed, but sharing its reflect.Type with a
// listed concrete type) and, under the interpreted-interface tag, the nil interface value.
//
// Documented limitation kept out: an interface case reached by an interpreted dynamic type stored in interface{}.

import (
	"fmt"
	"strings"
)

type c09Case struct {
	name  string
	types []string // type expressions ("nil" allowed); empty = default
	kind  string   // conc, iface, nil, default, multi (concrete types only), multi-iface
	body  string   // statement using y
	// rt: the reflect-level identity of the concrete types listed (types sharing it are "twins")
	rt []string
	// isIface: an interface case, or a case listing an interface
	isIface bool
}

type c09Src struct {
	expr string
	typ  string // source-level type name (key into twins)
	rt   string // reflect-level identity
	comp bool   // compiled dynamic type (or nil)
}

const c09TswDecls = `type I@ interface{ M() int }
type K@ interface {
M() int
N() int
}
type A@ struct{ X int }
func (a A@) M() int { return 100 + a.X }
func (a A@) N() int { return 110 + a.X }
func (a A@) String() string { return "A" }
type B@ struct{ X int }
func (b B@) M() int { return 200 + b.X }
func (b B@) String() string { return "B" }
type C@ struct{ Y string }
func (c *C@) M() int { return 300 + len(c.Y) }
func (c *C@) N() int { return 310 + len(c.Y) }
func (c *C@) String() string { return "C" }
type D@ struct{ A@ }
type N1@ int
func (n N1@) M() int { return 400 + int(n) }
func (n N1@) String() string { return "N1" }
type N2@ int
func (n N2@) M() int { return 500 + int(n) }
func (n N2@) N() int { return 510 + int(n) }
func (n N2@) String() string { return "N2" }
var vn1@ N1@ = 5
var vn2@ N2@ = 6
`

func c09TswCases(tag string, thorough bool) []c09Case {
	call := map[string]string{"I": "y.M()", "S": "y.String()", "E": "y != nil"}[tag]
	cs := []c09Case{
		{name: "A", types: []string{"A@"}, kind: "conc", body: `O("A", y.X)`, rt: []string{"struct{X int}"}},
		{name: "B", types: []string{"B@"}, kind: "conc", body: `O("B", y.X)`, rt: []string{"struct{X int}"}},
		{name: "D", types: []string{"D@"}, kind: "conc", body: `O("D", y.A@.X)`, rt: []string{"D"}},
		{name: "N1", types: []string{"N1@"}, kind: "conc", body: `O("N1", int(y)+1)`, rt: []string{"int"}},
		{name: "*A", types: []string{"*A@"}, kind: "conc", body: `O("*A", y.X)`, rt: []string{"*struct{X int}"}},
		{name: "nil", types: []string{"nil"}, kind: "nil", body: `O("nil", y == nil)`},
		{name: "default", kind: "default", body: `O("default", y == nil)`},
		// a multi-type case of concrete types; B, not listed, shares the reflect.Type of A
		{name: "A,D", types: []string{"A@", "D@"}, kind: "multi", body: `O("A,D", ` + call + `)`, rt: []string{"struct{X int}", "D"}},
	}
	if tag != "E" {
		cs = append(cs,
			c09Case{name: "N2", types: []string{"N2@"}, kind: "conc", body: `O("N2", int(y)+2)`, rt: []string{"int"}},
			c09Case{name: "K", types: []string{"K@"}, kind: "iface", body: `O("K", y.N())`, isIface: true},
			c09Case{name: "I", types: []string{"I@"}, kind: "iface", body: `O("I", y.M())`, isIface: true},
			// a multi-type case listing an interface: it ends the initial run of concrete cases as an interface case does
			c09Case{name: "N1,K", types: []string{"N1@", "K@"}, kind: "multi-iface", body: `O("N1,K", ` + call + `)`, rt: []string{"int", ""}, isIface: true})
	}
	if tag != "I" {
		cs = append(cs,
			c09Case{name: "Duration", types: []string{"time.Duration"}, kind: "conc", body: `O("Duration", int64(y))`, rt: []string{"time.Duration"}},
			c09Case{name: "Stringer", types: []string{"fmt.Stringer"}, kind: "iface", body: `O("Stringer", y.String())`, isIface: true})
	}
	if tag == "E" {
		cs = append(cs,
			c09Case{name: "int", types: []string{"int"}, kind: "conc", body: `O("int", y+1)`, rt: []string{"int"}},
			c09Case{name: "A,int", types: []string{"A@", "int"}, kind: "multi", body: `O("A,int", y != nil)`, rt: []string{"struct{X int}", "int"}})
	}
	if thorough {
		cs = append(cs,
			c09Case{name: "*C", types: []string{"*C@"}, kind: "conc", body: `O("*C", y.Y)`, rt: []string{"*struct{Y string}"}},
			c09Case{name: "nil,N1", types: []string{"nil", "N1@"}, kind: "multi", body: `O("nil,N1", y == nil)`, rt: []string{"", "int"}},
			c09Case{name: "B,*A", types: []string{"B@", "*A@"}, kind: "multi", body: `O("B,*A", ` + call + `)`, rt: []string{"struct{X int}", "*struct{X int}"}})
		if tag != "I" {
			cs = append(cs, c09Case{name: "Month", types: []string{"time.Month"}, kind: "conc", body: `O("Month", int(y))`, rt: []string{"time.Month"}})
		}
	}
	return cs
}

func c09TswSources(tag string) []c09Src {
	ss := []c09Src{
		{"A@{1}", "A@", "struct{X int}", false},
		{"B@{2}", "B@", "struct{X int}", false},
		{"&C@{\"c\"}", "*C@", "*struct{Y string}", false},
		{"D@{A@{4}}", "D@", "D", false},
		{"vn1@", "N1@", "int", false},
		{"vn2@", "N2@", "int", false},
		{"&A@{7}", "*A@", "*struct{X int}", false},
		{"nil", "nil", "", true},
	}
	if tag != "I" {
		ss = append(ss, c09Src{"time.Duration(5)", "time.Duration", "time.Duration", true}, c09Src{"time.Month(3)", "time.Month", "time.Month", true})
	}
	if tag == "E" {
		ss = append(ss, c09Src{"7", "int", "int", true}, c09Src{"\"s\"", "string", "string", true})
	}
	return ss
}

var c09TswTagType = map[string]string{"I": "I@", "S": "fmt.Stringer", "E": "interface{}"}

// c09TswSite renders one switch over a case list, run on the given sources.
func c09TswSite(tag string, list []c09Case, srcs []c09Src, bind bool) string {
	var sb strings.Builder
	var xs []string
	for _, s := range srcs {
		xs = append(xs, s.expr)
	}
	fmt.Fprintf(&sb, "for _, x := range []%s{%s} {\n", c09TswTagType[tag], strings.Join(xs, ", "))
	if bind {
		sb.WriteString("switch y := x.(type) {\n")
	} else {
		sb.WriteString("switch x.(type) {\n")
	}
	for _, cs := range list {
		if cs.kind == "default" {
			sb.WriteString("default:\n")
		} else {
			sb.WriteString("case " + strings.Join(cs.types, ", ") + ":\n")
		}
		if bind {
			sb.WriteString(cs.body + "\n")
		} else {
			fmt.Fprintf(&sb, "O(%q)\n", cs.name)
		}
	}
	sb.WriteString("}\nO(\"|\")\n}")
	return sb.String()
}

// genTsw adds the overlapping type-switch groups: one group per (tag, first case).
func (g *c09Gen) genTsw() {
	thorough := g.c.Thorough()
	for _, tag := range []string{"I", "S", "E"} {
		cases := c09TswCases(tag, thorough)
		srcs := c09TswSources(tag)
		// reduced alphabet for the lists of 4 (thorough)
		reduced := map[string]bool{"A": true, "B": true, "D": true, "N1": true, "K": true, "I": true, "Stringer": true, "default": true, "Duration": true, "int": true}
		for fi := range cases {
			var sites []c09Site
			emit := func(list []c09Case) {
				// a type may be listed once
				seen := map[string]bool{}
				hasIface := false
				var pat []string
				for _, cs := range list {
					for _, t := range cs.types {
						if seen[t] {
							return
						}
						seen[t] = true
					}
					hasIface = hasIface || cs.isIface
					pat = append(pat, cs.kind)
				}
				// split the sources: a "twin" is a dynamic value whose type is not listed but shares its reflect.Type with a
				// listed concrete type; under an interface{} tag every interpreted named type additionally is the twin of its
				// own unnamed underlying type — there the interpreter cannot tell them apart
				var normal, twins, nils []c09Src
				for _, s := range srcs {
					if tag == "E" && hasIface && !s.comp {
						continue // documented limitation: interface case × interpreted dynamic type in interface{}
					}
					if tag == "I" && s.typ == "nil" {
						// the nil value of an interpreted interface has a site of its own
						nils = append(nils, s)
						continue
					}
					twin := false
					if (!seen[s.typ] || tag == "E") && s.rt != "" {
						for _, cs := range list {
							for i, rt := range cs.rt {
								if rt == s.rt && cs.types[i] != s.typ {
									twin = true
								}
							}
						}
					}
					if twin {
						twins = append(twins, s)
					} else {
						normal = append(normal, s)
					}
				}
				var names []string
				for _, cs := range list {
					names = append(names, cs.name)
				}
				kind := "tsw|tag=" + tag + "|" + strings.Join(pat, ",")
				desc := "// cases: " + strings.Join(names, " ; ") + "\n"
				if len(normal) > 0 {
					sites = append(sites, c09Site{kind, "", false, desc + c09TswSite(tag, list, normal, true)})
					if len(list) <= 2 || thorough {
						sites = append(sites, c09Site{kind + "|nobind", "", false, desc + c09TswSite(tag, list, normal, false)})
					}
				}
				if len(nils) > 0 && (len(list) <= 2 || thorough || list[0].kind == "nil" || list[1].kind == "nil" || list[2].kind == "nil") {
					sites = append(sites, c09Site{kind + "|nil-source", "", false, desc + c09TswSite(tag, list, nils, true)})
				}
				if len(twins) > 0 {
					if tag == "E" {
						// one class: a value of an interpreted named type stored in an interface{} is indistinguishable from
						// the values of the other types with the same reflect.Type. Lists of one case are enough.
						if len(list) > 1 {
							return
						}
						kind = "tsw|tag=E"
					}
					sites = append(sites, c09Site{kind + "|reflect-twin-source", "", false, desc + c09TswSite(tag, list, twins, true)})
				}
			}
			first := cases[fi]
			emit([]c09Case{first})
			for i := range cases {
				if i == fi {
					continue
				}
				emit([]c09Case{first, cases[i]})
				for j := range cases {
					if j == fi || j == i {
						continue
					}
					emit([]c09Case{first, cases[i], cases[j]})
					if !thorough || !reduced[first.name] || !reduced[cases[i].name] || !reduced[cases[j].name] {
						continue
					}
					for k := range cases {
						if k == fi || k == i || k == j || !reduced[cases[k].name] {
							continue
						}
						emit([]c09Case{first, cases[i], cases[j], cases[k]})
					}
				}
			}
			g.stats["typeswitch_overlap_sites"] += len(sites)
			g.addSimple(fmt.Sprintf("w%s%d", tag, fi), "overlapping type switch, tag "+c09TswTagType[tag]+", first case "+first.name,
				[]string{"fmt", "time"}, c09TswDecls, sites)
		}
	}
}
