package props

// C35 — generic instantiation ≡ textual specialisation, memoised (gomacro "contracts are interfaces" generics,
// `Name#[T]` syntax). Enumerated: 19 templates × every argument list over 11 types × instantiation sites
// {top level, inside a function, inside three nested closures, inside another generic's body, a later
// evaluation}, with the first-instantiating site rotated. Oracles: (a) the same declaration with the type
// parameters textually replaced, run in the same interpreter; (b) that specialised text compiled by Go where
// Go accepts it. Memoisation: the instance type obtained at three sites is IdenticalTo / mutually assignable;
// per template all argument lists are instantiated in ONE interpreter and must give pairwise non-identical types.

import (
	"encoding/json"
	"fmt"
	"reflect"
	"regexp"
	"runtime"
	"strings"

	"github.com/cosmos72/gomacro/fast"
	xr "github.com/cosmos72/gomacro/xreflect"

	"verif/harness/core"
	"verif/harness/h"
	"verif/harness/oracle"
	"verif/harness/twin"
)

func init() {
	core.Register(&core.Check{ID: "C35", Level: "exploration", Workers: -1,
		Prepare: func(c *core.Ctx) error { _, _, err := c35Oracle(c); return err },
		Run:     c35Run, Replay: c35Replay})
}

// ---------------------------------------------------------------------------------------------
// alphabets

type c35Arg struct {
	Key  string
	Text string   // spelling (gomacro syntax)
	Vals []string // two distinct values of the type
}

var c35Args = []c35Arg{
	{"int", "int", []string{"7", "-3"}},
	{"uint8", "uint8", []string{"200", "9"}},
	{"string", "string", []string{`"ab"`, `""`}},
	{"float64", "float64", []string{"1.5", "-0.25"}},
	{"slice", "[]int", []string{"[]int{1, 2}", "[]int(nil)"}},
	{"map", "map[string]int", []string{`map[string]int{"k": 1}`, "map[string]int(nil)"}},
	{"struct", "struct{ A int }", []string{"struct{ A int }{5}", "struct{ A int }{}"}},
	{"ptr", "*int", []string{"&gI", "(*int)(nil)"}},
	{"func", "func(int) int", []string{"inc", "(func(int) int)(nil)"}},
	{"named", "MyInt", []string{"MyInt(3)", "MyInt(-1)"}},
	{"instance", "Pair#[int,string]", []string{`Pair#[int,string]{1, "p"}`, "Pair#[int,string]{}"}},
}

const c35Prelude = `type MyInt int
func (m MyInt) Dbl() MyInt { return m * 2 }
type Pair#[A, B] struct { First A; Second B }
var gI = 5
func inc(x int) int { return x + 1 }`

func c35GoPrelude(id string) string {
	s := `type MyInt_ID int
func (m MyInt_ID) Dbl() MyInt_ID { return m * 2 }
type Pair_ID[A, B any] struct { First A; Second B }
var gI_ID = 5
func inc_ID(x int) int { return x + 1 }`
	return strings.ReplaceAll(s, "_ID", "_"+id)
}

type c35Tmpl struct {
	Name   string
	Params []string // TT | AA, BB
	IsType bool
	Decl   string // @N@ declared name (with its parameter list when generic), @R@ reference to itself
	Inst   string // declarations made per instance (methods): @I@ the instance
	Driver string // statements; @I@ the instance, parameter names = the arguments, @V0@ @V1@ (@W0@ @W1@) values of the 1st (2nd) argument
}

var c35Templates = []c35Tmpl{
	{Name: "Last", Params: []string{"TT"},
		Decl:   "func @N@(s []TT) TT {\n\tvar z TT\n\tfor _, e := range s {\n\t\tz = e\n\t}\n\treturn z\n}",
		Driver: "O(@I@([]TT{@V0@, @V1@}), @I@([]TT{@V1@, @V0@}), @I@(nil))"},
	{Name: "Rev", Params: []string{"TT"},
		Decl:   "func @N@(s []TT) []TT {\n\tr := make([]TT, len(s))\n\tfor i, e := range s {\n\t\tr[len(s)-1-i] = e\n\t}\n\treturn r\n}",
		Driver: "O(@I@([]TT{@V0@, @V1@, @V0@}), len(@I@(nil)))"},
	{Name: "Once", Params: []string{"TT"},
		Decl:   "func @N@(v TT) func() TT {\n\tn := 0\n\treturn func() TT {\n\t\tn++\n\t\tif n > 1 {\n\t\t\tvar z TT\n\t\t\treturn z\n\t\t}\n\t\treturn v\n\t}\n}",
		Driver: "f := @I@(@V0@)\nO(f(), f())\ng := @I@(@V1@)\nO(g())"},
	{Name: "Rep", Params: []string{"TT"},
		Decl:   "func @N@(s []TT, v TT, n int) []TT {\n\tif n <= 0 {\n\t\treturn s\n\t}\n\treturn @R@(append(s, v), v, n-1)\n}",
		Driver: "O(@I@(nil, @V0@, 3), @I@([]TT{@V1@}, @V0@, 1))"},
	{Name: "Sum", Params: []string{"TT"},
		Decl:   "func @N@(s []TT) TT {\n\tvar z TT\n\tfor _, e := range s {\n\t\tz += e\n\t}\n\treturn z\n}",
		Driver: "O(@I@([]TT{@V0@, @V1@, @V0@}), @I@(nil))"},
	{Name: "Ptr", Params: []string{"TT"},
		Decl:   "func @N@(v TT) *TT {\n\tp := new(TT)\n\t*p = v\n\treturn p\n}",
		Driver: "p := @I@(@V0@)\nq := @I@(@V0@)\nO(*p, p != q, *@I@(@V1@))"},
	{Name: "ZeroBox", Params: []string{"TT"},
		Decl:   "func @N@(v TT) (TT, interface{}) {\n\tvar z TT\n\treturn z, v\n}",
		Driver: "z, b := @I@(@V0@)\n_, ok := b.(TT)\nO(z, b, ok)"},
	{Name: "Find", Params: []string{"TT"},
		Decl:   "func @N@(s []TT, v TT) int {\n\tfor i, e := range s {\n\t\tif e == v {\n\t\t\treturn i\n\t\t}\n\t}\n\treturn -1\n}",
		Driver: "O(@I@([]TT{@V0@, @V1@}, @V1@), @I@(nil, @V0@))"},
	{Name: "Env", Params: []string{"TT"},
		Decl:   "func @N@(v TT) (func() TT, int) {\n\tk := gI + inc(1)\n\treturn func() TT {\n\t\tk += gI\n\t\treturn v\n\t}, k + inc(gI)\n}",
		Driver: "f, k := @I@(@V0@)\nO(f(), k, gI)"},
	{Name: "Box", Params: []string{"TT"}, IsType: true,
		Decl:   "type @N@ struct {\n\tV TT\n\tN int\n}",
		Inst:   "func (b @I@) Get() TT { return b.V }\nfunc (b *@I@) Set(v TT) {\n\tb.V = v\n\tb.N++\n}",
		Driver: "var b @I@\nb.Set(@V0@)\nb.Set(@V1@)\nc := @I@{@V0@, 7}\nO(b.Get(), b.N, c.Get(), c)"},
	{Name: "Chain", Params: []string{"TT"}, IsType: true,
		Decl:   "type @N@ struct {\n\tVal TT\n\tNext *@R@\n}",
		Driver: "l := &@I@{@V0@, &@I@{@V1@, nil}}\nn := 0\nfor p := l; p != nil; p = p.Next {\n\tn++\n\tO(p.Val)\n}\nO(n)"},
	{Name: "Wrap", Params: []string{"TT"}, IsType: true,
		Decl:   "type @N@ struct {\n\tP Pair#[TT, int]\n\tS []TT\n\tM map[string]TT\n}",
		Driver: "w := @I@{Pair#[TT, int]{@V0@, 1}, []TT{@V1@}, map[string]TT{\"k\": @V0@}}\nO(w.P.First, w.P.Second, w.S, w.M, w)"},
	{Name: "Fn", Params: []string{"TT"}, IsType: true,
		Decl:   "type @N@ func(TT) TT",
		Driver: "var f @I@ = func(x TT) TT { return x }\nvar g @I@\nO(f(@V0@), f == nil, g == nil)"},
	{Name: "MapSlice", Params: []string{"AA", "BB"},
		Decl:   "func @N@(s []AA, f func(AA) BB) []BB {\n\tr := make([]BB, 0, len(s))\n\tfor _, e := range s {\n\t\tr = append(r, f(e))\n\t}\n\treturn r\n}",
		Driver: "O(@I@([]AA{@V0@, @V1@}, func(a AA) BB { return @W0@ }), len(@I@(nil, nil)))"},
	{Name: "Lookup", Params: []string{"AA", "BB"},
		Decl:   "func @N@(m map[AA]BB, k AA) (BB, bool) {\n\tv, ok := m[k]\n\treturn v, ok\n}",
		Driver: "m := map[AA]BB{@V0@: @W0@}\nv, ok := @I@(m, @V0@)\nO(v, ok)\nv, ok = @I@(m, @V1@)\nO(v, ok)\nv, ok = @I@(nil, @V1@)\nO(v, ok)"},
	{Name: "MkPair", Params: []string{"AA", "BB"},
		Decl:   "func @N@(a AA, b BB) Pair#[AA, BB] {\n\treturn Pair#[AA, BB]{a, b}\n}",
		Driver: "p := @I@(@V0@, @W0@)\nvar q Pair#[AA, BB] = p\nO(q.First, q.Second, q)"},
	{Name: "Flip", Params: []string{"AA", "BB"},
		Decl:   "func @N@(f func(AA, BB) AA) func(BB, AA) AA {\n\treturn func(b BB, a AA) AA {\n\t\treturn f(a, b)\n\t}\n}",
		Driver: "g := @I@(func(a AA, b BB) AA {\n\tO(b)\n\treturn a\n})\nO(g(@W0@, @V0@), g(@W1@, @V1@))"},
	{Name: "Duo", Params: []string{"AA", "BB"}, IsType: true,
		Decl:   "type @N@ struct {\n\tFirst AA\n\tSecond BB\n}",
		Inst:   "func (p @I@) Swap() (BB, AA) { return p.Second, p.First }",
		Driver: "p := @I@{@V0@, @W0@}\nx, y := p.Swap()\nvar z @I@\nz.First = @V1@\nO(p, x, y, z)"},
	{Name: "Multi", Params: []string{"AA", "BB"}, IsType: true,
		Decl:   "type @N@ map[AA][]BB",
		Driver: "m := @I@{}\nm[@V0@] = append(m[@V0@], @W0@, @W1@)\nO(len(m), m[@V0@], m[@V1@] == nil)"},
}

// ---------------------------------------------------------------------------------------------
// rendering

type c35Inst struct {
	T    *c35Tmpl
	Args []*c35Arg
	ID   string
}

func (in *c35Inst) argTexts() []string {
	var a []string
	for _, x := range in.Args {
		a = append(a, x.Text)
	}
	return a
}

// generic form of the instance inside another generic: Name#[TT] / Name#[AA,BB]
func (in *c35Inst) viaRef() string { return in.T.Name + "#[" + strings.Join(in.T.Params, ",") + "]" }
func (in *c35Inst) instRef() string {
	return in.T.Name + "#[" + strings.Join(in.argTexts(), ",") + "]"
}
func (in *c35Inst) specName() string { return in.T.Name + "_S" }

var c35ParamRe = map[string]*regexp.Regexp{"TT": regexp.MustCompile(`\bTT\b`), "AA": regexp.MustCompile(`\bAA\b`), "BB": regexp.MustCompile(`\bBB\b`)}

func (in *c35Inst) subst(s string, keepParams bool) string {
	for i, a := range in.Args {
		for j, v := range a.Vals {
			s = strings.ReplaceAll(s, fmt.Sprintf("@%c%d@", "VW"[i], j), v)
		}
	}
	if !keepParams {
		for i, p := range in.T.Params {
			s = c35ParamRe[p].ReplaceAllLiteralString(s, in.Args[i].Text)
		}
	}
	return s
}

func (in *c35Inst) genericDecl() string {
	s := strings.ReplaceAll(in.T.Decl, "@N@", in.viaRef())
	return strings.ReplaceAll(s, "@R@", in.viaRef())
}

// specialised declarations: the same text with the parameters textually replaced
func (in *c35Inst) specDecl() string {
	s := strings.ReplaceAll(in.T.Decl, "@N@", in.specName())
	s = strings.ReplaceAll(s, "@R@", in.specName())
	s = in.subst(s, false)
	if in.T.Inst != "" {
		s += "\n" + in.subst(strings.ReplaceAll(in.T.Inst, "@I@", in.specName()), false)
	}
	return s
}

func (in *c35Inst) instDecl() string {
	if in.T.Inst == "" {
		return ""
	}
	return in.subst(strings.ReplaceAll(in.T.Inst, "@I@", in.instRef()), false)
}

func (in *c35Inst) driver(mode string) string {
	switch mode {
	case "spec":
		return in.subst(strings.ReplaceAll(in.T.Driver, "@I@", in.specName()), false)
	case "via":
		return in.subst(strings.ReplaceAll(in.T.Driver, "@I@", in.viaRef()), true)
	}
	return in.subst(strings.ReplaceAll(in.T.Driver, "@I@", in.instRef()), false)
}

// goify turns interpreter text into Go text: `Name#[` -> `Name[`, harness-declared names get the program suffix.
func (in *c35Inst) goify(s string) string {
	s = strings.ReplaceAll(s, "#[", "[")
	re := regexp.MustCompile(`\b(MyInt|Pair|gI|inc|` + in.specName() + `)\b`)
	return re.ReplaceAllString(s, "${1}_"+in.ID)
}

func (in *c35Inst) goProg() oracle.Prog {
	return oracle.Prog{ID: in.ID, Decls: c35GoPrelude(in.ID) + "\n" + in.goify(in.specDecl()), Body: in.goify(in.driver("spec"))}
}

func c35Instances() []*c35Inst {
	var out []*c35Inst
	for ti := range c35Templates {
		t := &c35Templates[ti]
		if len(t.Params) == 1 {
			for ai := range c35Args {
				out = append(out, &c35Inst{T: t, Args: []*c35Arg{&c35Args[ai]}, ID: fmt.Sprintf("%s_%s", t.Name, c35Args[ai].Key)})
			}
		} else {
			for ai := range c35Args {
				for bi := range c35Args {
					out = append(out, &c35Inst{T: t, Args: []*c35Arg{&c35Args[ai], &c35Args[bi]}, ID: fmt.Sprintf("%s_%s_%s", t.Name, c35Args[ai].Key, c35Args[bi].Key)})
				}
			}
		}
	}
	return out
}

// c35Oracle: compiled-Go results of the specialised texts Go accepts (id -> result), and the ids Go rejects.
func c35Oracle(c *core.Ctx) (map[string]string, map[string]string, error) {
	var progs []oracle.Prog
	for _, in := range c35Instances() {
		progs = append(progs, in.goProg())
	}
	verdicts, err := oracle.Classify("C35", progs)
	if err != nil {
		return nil, nil, err
	}
	var valid []oracle.Prog
	rejected := map[string]string{}
	for _, p := range progs {
		if msg := verdicts[p.ID]; msg == "" {
			valid = append(valid, p)
		} else {
			rejected[p.ID] = msg
		}
	}
	res, err := oracle.GoResults("C35", valid)
	return res, rejected, err
}

// ---------------------------------------------------------------------------------------------
// interpreter side

const c35Failed = "DOES-NOT-COMPILE"

type c35World struct {
	ir *twin.Interp
}

// decl evaluates declarations; returns the error text of a rejection.
func (w *c35World) decl(src string) string {
	if p := twin.Catch(func() { w.ir.Eval(src) }); p != nil {
		return fmt.Sprint(p)
	}
	return ""
}

// run compiles src (c35Failed + message when rejected) and executes it under the trace recorder.
func (w *c35World) run(src string) (string, string) {
	var expr *fast.Expr
	if p := twin.Catch(func() { expr = w.ir.Compile(src) }); p != nil {
		return c35Failed, fmt.Sprint(p)
	}
	h.Reset()
	return h.Exec(func() { w.ir.RunExpr(expr) }), ""
}

type c35Case struct {
	Template string   `json:"template"`
	Args     []string `json:"type_arguments"`
	Rotation int      `json:"first_site"`
	Distinct bool     `json:"distinctness_pass,omitempty"`
}

var c35SiteNames = []string{"top-level", "function", "closure-depth-3", "generic-body"}

func c35ArgKeys(in *c35Inst) string {
	var k []string
	for _, a := range in.Args {
		k = append(k, a.Key)
	}
	return strings.Join(k, ",")
}

// c35RunInstance checks one (template, argument list) with the given first-instantiating site.
func c35RunInstance(c *core.Ctx, in *c35Inst, rot int, goRes string, goOK bool) {
	c.Eval(1)
	cas := c35Case{Template: in.T.Name, Args: in.argTexts(), Rotation: rot}
	w := &c35World{ir: twin.NewFast()}
	if msg := w.decl(c35Prelude); msg != "" {
		panic("C35 prelude rejected: " + msg)
	}
	if msg := w.decl(in.genericDecl()); msg != "" {
		c.Violation("C35|generic-declaration-rejected|"+in.T.Name, fmt.Sprintf("the generic declaration is rejected: %s\n%s", msg, in.genericDecl()), cas)
		return
	}
	// oracle (a): textual specialisation in the same interpreter
	specMsg := w.decl(in.specDecl())
	spec := c35Failed
	if specMsg == "" {
		spec, specMsg = w.run("{\n" + in.driver("spec") + "\n}")
	}
	// per-instance declarations (methods on the instance)
	instMsg := ""
	if d := in.instDecl(); d != "" {
		instMsg = w.decl(d)
	}
	drv := in.driver("inst")
	viaCall := "ViaC#[" + strings.Join(in.argTexts(), ",") + "]()"
	type site struct {
		name, decl, call string
	}
	sites := []site{
		{"top-level", "", "{\n" + drv + "\n}"},
		{"function", "func siteB() {\n" + drv + "\n}", "siteB()"},
		// every closure level owns a local, so that each level has a run-time frame between the site and the generic's scope
		{"closure-depth-3", "func siteB3() {\n\tx := 1\n\tfunc() {\n\t\ty := x\n\t\tfunc() {\n\t\t\tz := y\n\t\t\tfunc() {\n" + drv + "\n_ = z\n\t\t\t}()\n\t\t}()\n\t}()\n}", "siteB3()"},
		{"generic-body", "func ViaC#[" + strings.Join(in.T.Params, ",") + "]() {\n" + in.driver("via") + "\n}", viaCall},
	}
	order := append(append([]site{}, sites[rot%4:]...), sites[:rot%4]...)
	order = append(order, site{"later-evaluation", "", "{\n" + drv + "\n}"})
	results := make([]string, len(order))
	msgs := make([]string, len(order))
	for i, s := range order {
		if instMsg != "" {
			results[i], msgs[i] = c35Failed, instMsg
			continue
		}
		if s.decl != "" {
			if msg := w.decl(s.decl); msg != "" {
				results[i], msgs[i] = c35Failed, msg
				continue
			}
		}
		results[i], msgs[i] = w.run(s.call)
		c.Count("site_instantiations_executed", 1)
	}
	nFail := 0
	for _, r := range results {
		if r == c35Failed {
			nFail++
		}
	}
	key := in.T.Name + "|" + c35ArgKeys(in)
	src := func() string {
		return fmt.Sprintf("%s\n%s\n// specialisation:\n%s\n// driver:\n%s", in.genericDecl(), in.instDecl(), in.specDecl(), drv)
	}
	if nFail == len(results) {
		// not instantiable: skipped and counted
		c.Count("instantiations_not_compiling_skipped", 1)
		if spec != c35Failed {
			c.Count("skipped_although_specialisation_compiles", 1)
			if c.WantSample() {
				c.Sample(map[string]string{"skipped": in.instRef(), "reason": msgs[0]})
			}
		}
		return
	}
	if nFail > 0 {
		for i, r := range results {
			if r == c35Failed {
				c.Violation("C35|compiles-at-some-sites-only|"+in.T.Name+"|"+order[i].name, fmt.Sprintf("%s compiles at %d of %d sites; at site %s (first site %s): %s\n%s", in.instRef(), len(results)-nFail, len(results), order[i].name, order[0].name, msgs[i], src()), cas)
				break
			}
		}
		return
	}
	c.Count("instantiations_compiled", 1)
	if spec == c35Failed {
		c.Violation("C35|instance-compiles-specialisation-rejected|"+in.T.Name+"|"+c35ArgKeys(in), fmt.Sprintf("%s compiles but the textually specialised declaration is rejected: %s\n%s", in.instRef(), specMsg, src()), cas)
		return
	}
	if strings.TrimSpace(spec) != "" {
		c.Nontrivial(key + "|" + spec)
	}
	for i, r := range results {
		if r != spec {
			c.Violation("C35|differs-from-specialisation|"+in.T.Name+"|"+c35ArgKeys(in)+"|"+order[i].name,
				fmt.Sprintf("%s at site %s (first site %s) gives %q, the textual specialisation gives %q\n%s", in.instRef(), order[i].name, order[0].name, r, spec, src()), cas)
			return
		}
	}
	if goOK {
		c.Count("instantiations_compared_with_compiled_go", 1)
		if spec != goRes {
			c.Violation("C35|instance-and-specialisation-differ-from-go|"+in.T.Name+"|"+c35ArgKeys(in),
				fmt.Sprintf("%s and its textual specialisation both give %q, compiled Go gives %q for the specialised text\n%s", in.instRef(), spec, goRes, src()), cas)
		}
	}
	if c.WantSample() && len(in.Args) == 2 && in.Args[0] != in.Args[1] {
		c.Sample(map[string]string{"instance": in.instRef(), "first_site": order[0].name, "result_all_sites": spec})
	}
	c35Memo(c, w, in, cas)
}

// c35Memo: the instance obtained at three different sites is one and the same.
func c35Memo(c *core.Ctx, w *c35World, in *c35Inst, cas c35Case) {
	inst, via := in.instRef(), in.viaRef()
	params := strings.Join(in.T.Params, ",")
	args := strings.Join(in.argTexts(), ",")
	var exprs []string
	if in.T.IsType {
		decl := "var memoA " + inst + "\nfunc memoB() " + inst + " {\n\tvar v " + inst + "\n\treturn v\n}\nfunc MemoC#[" + params + "]() " + via + " {\n\tvar v " + via + "\n\treturn v\n}"
		if msg := w.decl(decl); msg != "" {
			c.Violation("C35|memo|declarations-rejected|"+in.T.Name, fmt.Sprintf("declarations using %s at three sites are rejected: %s\n%s", inst, msg, decl), cas)
			return
		}
		// values of the instance type coming from the three sites are mutually assignable
		asg := "{\n\tmemoA = memoB()\n\tmemoA = MemoC#[" + args + "]()\n\tp := &memoA\n\t*p = memoB()\n\tf := memoB\n\tf = MemoC#[" + args + "]\n\t_ = f\n}"
		if r, msg := w.run(asg); r == c35Failed {
			c.Violation("C35|memo|not-assignable|"+in.T.Name+"|"+c35ArgKeys(in), fmt.Sprintf("values of %s obtained at top level, inside a function and inside a generic body are not mutually assignable: %s", inst, msg), cas)
			return
		}
		exprs = []string{"memoA", "memoB()", "MemoC#[" + args + "]()", "*new(" + inst + ")"}
	} else {
		decl := "func memoB() interface{} { return " + inst + " }\nfunc MemoC#[" + params + "]() interface{} { return " + via + " }"
		if msg := w.decl(decl); msg != "" {
			c.Violation("C35|memo|declarations-rejected|"+in.T.Name, fmt.Sprintf("declarations using %s at three sites are rejected: %s\n%s", inst, msg, decl), cas)
			return
		}
		var rts []reflect.Type
		for _, e := range []string{inst, "memoB()", "MemoC#[" + args + "]()"} {
			var rt reflect.Type
			if p := twin.Catch(func() {
				v, _ := w.ir.Eval1(e)
				rv := v.ReflectValue()
				for rv.Kind() == reflect.Interface && !rv.IsNil() {
					rv = rv.Elem()
				}
				rt = rv.Type()
			}); p != nil {
				c.Violation("C35|memo|eval|"+in.T.Name, fmt.Sprintf("evaluating %s: %v", e, p), cas)
				return
			}
			rts = append(rts, rt)
		}
		for i := 1; i < len(rts); i++ {
			if rts[i] != rts[0] {
				c.Violation("C35|memo|function-type-differs|"+in.T.Name+"|"+c35ArgKeys(in), fmt.Sprintf("%s has type %v at top level and %v at another site", inst, rts[0], rts[i]), cas)
				return
			}
		}
		exprs = []string{inst, inst}
	}
	var ts []xr.Type
	for _, e := range exprs {
		var t xr.Type
		if p := twin.Catch(func() { t = w.ir.Compile(e).Type }); p != nil || t == nil {
			c.Violation("C35|memo|type-of|"+in.T.Name, fmt.Sprintf("type of %s: %v", e, p), cas)
			return
		}
		ts = append(ts, t)
	}
	for i := range ts {
		for j := range ts {
			if !ts[i].IdenticalTo(ts[j]) {
				c.Violation("C35|memo|type-not-identical|"+in.T.Name+"|"+c35ArgKeys(in), fmt.Sprintf("type of %s (%v) is not identical to type of %s (%v): two instantiations of %s with the same arguments", exprs[i], ts[i], exprs[j], ts[j], inst), cas)
				return
			}
		}
	}
	c.Count("memo_identity_checks", 1)
}

// c35Distinct: all argument lists of one type template instantiated in ONE interpreter: same arguments ⇒ identical type,
// different arguments ⇒ non-identical types with different behaviour of the zero value.
func c35Distinct(c *core.Ctx, t *c35Tmpl, reverse bool) {
	c.Eval(1)
	w := &c35World{ir: twin.NewFast()}
	if msg := w.decl(c35Prelude); msg != "" {
		panic("C35 prelude rejected: " + msg)
	}
	var ins []*c35Inst
	for _, in := range c35Instances() {
		if in.T == t {
			ins = append(ins, in)
		}
	}
	if reverse {
		for i, j := 0, len(ins)-1; i < j; i, j = i+1, j-1 {
			ins[i], ins[j] = ins[j], ins[i]
		}
	}
	if msg := w.decl(ins[0].genericDecl()); msg != "" {
		return // reported by the per-instance pass
	}
	cas := c35Case{Template: t.Name, Distinct: true}
	if reverse {
		cas.Rotation = 1
	}
	type got struct {
		in  *c35Inst
		typ xr.Type
		out string
	}
	var gs []got
	for _, in := range ins {
		expr := in.instRef()
		if in.T.IsType {
			expr = "*new(" + in.instRef() + ")"
		}
		var typ xr.Type
		if p := twin.Catch(func() { typ = w.ir.Compile(expr).Type }); p != nil || typ == nil {
			continue // not instantiable
		}
		out, _ := w.run("{\n" + in.driver("inst") + "\n}")
		if in.T.Inst != "" {
			out = "" // methods are not declared in this pass
		}
		gs = append(gs, got{in, typ, out})
	}
	// again, in the opposite order: identical to the first time
	for i := len(gs) - 1; i >= 0; i-- {
		g := gs[i]
		expr := g.in.instRef()
		if g.in.T.IsType {
			expr = "*new(" + g.in.instRef() + ")"
		}
		var typ xr.Type
		if p := twin.Catch(func() { typ = w.ir.Compile(expr).Type }); p != nil || typ == nil || !typ.IdenticalTo(g.typ) || !g.typ.IdenticalTo(typ) {
			c.Violation("C35|memo|second-instantiation-differs|"+t.Name+"|"+c35ArgKeys(g.in), fmt.Sprintf("%s instantiated again (after %d other instantiations of %s) has type %v, first time %v (%v)", g.in.instRef(), len(gs), t.Name, typ, g.typ, p), cas)
		}
		if g.out != "" && g.out != c35Failed {
			if out2, _ := w.run("{\n" + g.in.driver("inst") + "\n}"); out2 != g.out {
				c.Violation("C35|memo|second-use-behaves-differently|"+t.Name+"|"+c35ArgKeys(g.in), fmt.Sprintf("%s used again after %d other instantiations gives %q, first time %q", g.in.instRef(), len(gs), out2, g.out), cas)
			}
		}
	}
	pairs := 0
	for i := range gs {
		for j := i + 1; j < len(gs); j++ {
			pairs++
			if gs[i].typ.IdenticalTo(gs[j].typ) || gs[j].typ.IdenticalTo(gs[i].typ) {
				c.Violation("C35|distinct-arguments-identical-type|"+t.Name+"|"+c35ArgKeys(gs[i].in)+"~"+c35ArgKeys(gs[j].in),
					fmt.Sprintf("%s and %s have identical types (%v / %v)", gs[i].in.instRef(), gs[j].in.instRef(), gs[i].typ, gs[j].typ), cas)
			}
		}
	}
	c.Count("distinctness_pairs_checked", pairs)
	c.Count("distinctness_instances", len(gs))
}

// ---------------------------------------------------------------------------------------------

func c35Run(c *core.Ctx) {
	if c.NShards > 1 {
		runtime.GOMAXPROCS(4)
	}
	c.Rule("19 generic templates (9 functions over []T / closures / recursion / operators / comparison / globals of the declaring scope, 4 one-parameter types incl. methods on instances, a recursive type and a type using another generic, 4 two-parameter functions over map[K]V / func(A)B / another generic's instance, 2 two-parameter types) " +
		"× every argument list over {int, uint8, string, float64, []int, map[string]int, struct{A int}, *int, func(int) int, a named type with a method, an instance of another generic} (11 resp. 121 lists) " +
		"× sites {top level, function, 3 nested closures, body of another generic, later evaluation} with the first-instantiating site rotated (quick: one rotation per instantiation, thorough: all four); " +
		"non-trivial = distinct (template, arguments, trace) of instantiations that compile and produce a non-empty trace equal at all sites")
	c.Assume("the Go toolchain installed in the image (go1.23.5, module mode go 1.21) is the reference for the specialised text where go/types accepts it",
		"instantiations the interpreter rejects at every site are outside the property (skipped, counted)")
	goRes, goRej, err := c35Oracle(c)
	if err != nil {
		panic(err)
	}
	ins := c35Instances()
	c.Set("templates", len(c35Templates))
	c.Set("argument_lists", len(ins))
	c.Set("specialisations_go_accepts", len(goRes))
	c.Set("specialisations_go_rejects", len(goRej))
	n := 0
	rots := c.Pick(1, 4)
	for i, in := range ins {
		for r := 0; r < rots; r++ {
			n++
			if !c.Mine(n) {
				continue
			}
			if c.Expired() {
				return
			}
			rot := r
			if c.Quick() {
				rot = i % 4
			}
			res, ok := goRes[in.ID]
			c35RunInstance(c, in, rot, res, ok)
		}
	}
	for ti := range c35Templates {
		for _, rev := range []bool{false, true} {
			n++
			if !c.Mine(n) {
				continue
			}
			if c.Expired() {
				return
			}
			c35Distinct(c, &c35Templates[ti], rev)
		}
	}
}

func c35Replay(c *core.Ctx, raw json.RawMessage) {
	var cas c35Case
	if err := json.Unmarshal(raw, &cas); err != nil {
		panic(err)
	}
	if cas.Distinct {
		for ti := range c35Templates {
			if c35Templates[ti].Name == cas.Template {
				c35Distinct(c, &c35Templates[ti], cas.Rotation == 1)
			}
		}
		return
	}
	goRes, _, err := c35Oracle(c)
	if err != nil {
		panic(err)
	}
	for _, in := range c35Instances() {
		if in.T.Name == cas.Template && strings.Join(in.argTexts(), "|") == strings.Join(cas.Args, "|") {
			res, ok := goRes[in.ID]
			c35RunInstance(c, in, cas.Rotation, res, ok)
		}
	}
}
