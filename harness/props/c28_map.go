package props

// C28 part 2 — typeutil.Map against an association list keyed by the reference identity.
// Explicit-state BFS: a state is the sorted association list (which key OBJECT is stored for each identity class, and
// its value); successors are computed by replaying the path on a fresh Map and applying one more operation, in
// lock-step with the model; after every operation the complete observable content (Len, At of every key, Keys,
// Iterate) is compared. Hidden layout (holes left by Delete, bucket order, hasher memo) is not part of the state:
// that abstraction is tested by the un-merged enumeration of all sequences to a smaller depth.

import (
	"fmt"
	"sort"
	"strings"
	"time"

	"github.com/cosmos72/gomacro/go/types"
	"github.com/cosmos72/gomacro/go/typeutil"

	"verif/harness/core"
)

type c28Op struct {
	Op  string `json:"op"` // set at delete len iterate keys iterdel
	Key int    `json:"key,omitempty"`
	Val int    `json:"val,omitempty"`
}

func (o c28Op) String() string {
	switch o.Op {
	case "set":
		return fmt.Sprintf("Set(k%d,%d)", o.Key, o.Val)
	case "at", "delete", "iterdel":
		return fmt.Sprintf("%s(k%d)", o.Op, o.Key)
	}
	return o.Op
}

type c28Entry struct {
	key int // index of the key object that was stored first
	val int
}

type c28MapWorld struct {
	keys  []types.Type
	names []string
	same  [][]bool // reference identity between keys
}

func newC28MapWorld() *c28MapWorld {
	w := newC28World()
	e := c28Terms(false)
	mk := func(key string, copy int) types.Type { return w.build(e.byKey(key), copy) }
	mw := &c28MapWorld{}
	add := func(name string, t types.Type) {
		mw.keys = append(mw.keys, t)
		mw.names = append(mw.names, name)
	}
	add("[]int (object 1)", mk("slice(int)", 0))
	add("[]int (object 2)", mk("slice(int)", 1))
	add("struct{a int} of package a/p", mk("struct{a@1 int}", 0))
	add("struct{a int} of package b/p", mk("struct{a@2 int}", 0))
	add("byte", w.atoms["byte"])
	add("uint8", w.atoms["uint8"])
	add("interface{m()} of package a/p", mk("interface{m@1 func()()}", 0))
	add("interface{m()} of package b/p", mk("interface{m@2 func()()}", 0))
	// a third member of each colliding family: the unexported name WITHOUT package (nil). Buckets of three entries
	// (a hole can be in the middle), and an identity that must keep nil apart from every real package
	add("struct{a int} without package", mk("struct{a@0 int}", 0))
	add("interface{m()} without package", mk("interface{m@0 func()()}", 0))
	n := len(mw.keys)
	mw.same = make([][]bool, n)
	for i := range mw.same {
		mw.same[i] = make([]bool, n)
		for j := range mw.same[i] {
			mw.same[i][j] = c28Identical(mw.keys[i], mw.keys[j], true)
		}
	}
	return mw
}

// vacuity guard: the alphabet must really contain identical-distinct and colliding keys.
func (mw *c28MapWorld) selfCheck() string {
	h := typeutil.MakeHasher()
	hs := make([]uint32, len(mw.keys))
	for i, k := range mw.keys {
		hs[i] = h.Hash(k)
	}
	var bad []string
	for _, p := range [][2]int{{0, 1}, {4, 5}} {
		if !mw.same[p[0]][p[1]] || mw.keys[p[0]] == mw.keys[p[1]] {
			bad = append(bad, fmt.Sprintf("k%d/k%d are not identical-but-distinct", p[0], p[1]))
		}
	}
	for _, p := range [][2]int{{2, 3}, {6, 7}, {2, 8}, {3, 8}, {6, 9}, {7, 9}} {
		if mw.same[p[0]][p[1]] || hs[p[0]] != hs[p[1]] {
			bad = append(bad, fmt.Sprintf("k%d/k%d are not hash-colliding non-identical (hash %d %d)", p[0], p[1], hs[p[0]], hs[p[1]]))
		}
	}
	return strings.Join(bad, "; ")
}

func (mw *c28MapWorld) ops() []c28Op {
	all := make([]int, len(mw.keys))
	for k := range all {
		all[k] = k
	}
	return mw.opsFor(all)
}

// opsFor: the operation alphabet restricted to some keys.
func (mw *c28MapWorld) opsFor(keys []int) []c28Op {
	var ops []c28Op
	for _, k := range keys {
		ops = append(ops, c28Op{Op: "set", Key: k, Val: 1}, c28Op{Op: "set", Key: k, Val: 2})
	}
	for _, k := range keys {
		ops = append(ops, c28Op{Op: "at", Key: k})
	}
	for _, k := range keys {
		ops = append(ops, c28Op{Op: "delete", Key: k})
	}
	for _, k := range keys {
		ops = append(ops, c28Op{Op: "iterdel", Key: k})
	}
	ops = append(ops, c28Op{Op: "len"}, c28Op{Op: "iterate"}, c28Op{Op: "keys"})
	return ops
}

// model operations
func (mw *c28MapWorld) find(model []c28Entry, k int) int {
	for i, e := range model {
		if mw.same[e.key][k] {
			return i
		}
	}
	return -1
}

func c28StateKey(model []c28Entry) string {
	s := make([]string, len(model))
	for i, e := range model {
		s[i] = fmt.Sprintf("k%d=%d", e.key, e.val)
	}
	sort.Strings(s)
	return strings.Join(s, ",")
}

type c28MapRun struct {
	mw     *c28MapWorld
	m      *typeutil.Map
	model  []c28Entry
	keyIdx map[types.Type]int
}

func (mw *c28MapWorld) start(shared *typeutil.Hasher, nilMap bool) *c28MapRun {
	r := &c28MapRun{mw: mw, keyIdx: map[types.Type]int{}}
	if !nilMap {
		r.m = new(typeutil.Map)
		if shared != nil {
			r.m.SetHasher(*shared)
		}
	}
	for i, k := range mw.keys {
		r.keyIdx[k] = i
	}
	return r
}

func (r *c28MapRun) val(v interface{}) string {
	if v == nil {
		return "nil"
	}
	return fmt.Sprint(v)
}

// content renders what a full iteration produced, sorted.
func (r *c28MapRun) pairs(ks []types.Type, vs []interface{}) string {
	var s []string
	for i, k := range ks {
		idx, ok := r.keyIdx[k]
		e := fmt.Sprintf("k%d", idx)
		if !ok {
			e = "FOREIGN-KEY-OBJECT"
		}
		if vs != nil {
			e += "=" + r.val(vs[i])
		}
		s = append(s, e)
	}
	sort.Strings(s)
	return strings.Join(s, ",")
}

func (r *c28MapRun) modelPairs(withVals bool) string {
	var s []string
	for _, e := range r.model {
		if withVals {
			s = append(s, fmt.Sprintf("k%d=%d", e.key, e.val))
		} else {
			s = append(s, fmt.Sprintf("k%d", e.key))
		}
	}
	sort.Strings(s)
	return strings.Join(s, ",")
}

// apply runs one operation on the real map and on the model; returns "" or a description of the disagreement.
func (r *c28MapRun) apply(op c28Op) (sigPart, msg string) {
	mw := r.mw
	switch op.Op {
	case "set":
		prev := r.m.Set(mw.keys[op.Key], op.Val)
		want := "nil"
		if i := mw.find(r.model, op.Key); i >= 0 {
			want = fmt.Sprint(r.model[i].val)
			r.model[i].val = op.Val // the stored key object stays, as for a Go map
		} else {
			r.model = append(r.model, c28Entry{op.Key, op.Val})
		}
		if r.val(prev) != want {
			return "set-prev", fmt.Sprintf("%v returned previous value %s, model %s", op, r.val(prev), want)
		}
	case "at":
		got := r.m.At(mw.keys[op.Key])
		want := "nil"
		if i := mw.find(r.model, op.Key); i >= 0 {
			want = fmt.Sprint(r.model[i].val)
		}
		if r.val(got) != want {
			return "at", fmt.Sprintf("%v = %s, model %s", op, r.val(got), want)
		}
	case "delete":
		got := r.m.Delete(mw.keys[op.Key])
		want := false
		if i := mw.find(r.model, op.Key); i >= 0 {
			want = true
			r.model = append(r.model[:i:i], r.model[i+1:]...)
		}
		if got != want {
			return "delete-result", fmt.Sprintf("%v returned %v, model %v", op, got, want)
		}
	case "len":
		if got := r.m.Len(); got != len(r.model) {
			return "len", fmt.Sprintf("Len() = %d, model %d", got, len(r.model))
		}
	case "iterate":
		var ks []types.Type
		var vs []interface{}
		r.m.Iterate(func(k types.Type, v interface{}) { ks = append(ks, k); vs = append(vs, v) })
		if got, want := r.pairs(ks, vs), r.modelPairs(true); got != want {
			return "iterate", fmt.Sprintf("Iterate visited {%s}, model {%s}", got, want)
		}
	case "keys":
		ks := r.m.Keys()
		vs := r.m.Values()
		var ws []string
		for _, v := range vs {
			ws = append(ws, r.val(v))
		}
		sort.Strings(ws)
		var wm []string
		for _, e := range r.model {
			wm = append(wm, fmt.Sprint(e.val))
		}
		sort.Strings(wm)
		if got, want := r.pairs(ks, nil), r.modelPairs(false); got != want || strings.Join(ws, ",") != strings.Join(wm, ",") {
			return "keys", fmt.Sprintf("Keys() = {%s} Values() = %v, model {%s} %v", got, ws, want, wm)
		}
	case "iterdel":
		// f deletes key k when first invoked: documented guarantee = an entry deleted before being reached is not visited.
		before := r.modelPairs(false)
		var visited []types.Type
		first := true
		victim := -1
		if i := mw.find(r.model, op.Key); i >= 0 {
			victim = r.model[i].key
		}
		delOK := false
		r.m.Iterate(func(k types.Type, v interface{}) {
			if first {
				first = false
				delOK = r.m.Delete(mw.keys[op.Key])
			}
			visited = append(visited, k)
		})
		if len(r.model) > 0 && victim >= 0 {
			i := mw.find(r.model, op.Key)
			r.model = append(r.model[:i:i], r.model[i+1:]...)
		}
		after := r.modelPairs(false)
		// every survivor exactly once; the victim at most once and only as the first visited entry; nothing else
		seen := map[int]int{}
		for n, k := range visited {
			idx, ok := r.keyIdx[k]
			if !ok {
				return "iterdel", fmt.Sprintf("%v visited a foreign key object", op)
			}
			seen[idx]++
			if idx == victim && n != 0 {
				return "iterdel-visits-deleted", fmt.Sprintf("%v: content {%s}: entry k%d was deleted by the first callback but visited later (position %d)", op, before, victim, n)
			}
		}
		for _, e := range r.model {
			if seen[e.key] != 1 {
				return "iterdel", fmt.Sprintf("%v: content {%s}: surviving entry k%d visited %d times", op, before, e.key, seen[e.key])
			}
			delete(seen, e.key)
		}
		for idx, n := range seen {
			if idx != victim || n != 1 {
				return "iterdel", fmt.Sprintf("%v: content {%s} -> {%s}: unexpected visit of k%d x%d", op, before, after, idx, n)
			}
		}
		if wantDel := victim >= 0 && len(visited) > 0; delOK != wantDel {
			return "delete-result", fmt.Sprintf("%v: Delete inside Iterate returned %v, model %v", op, delOK, wantDel)
		}
	}
	return "", ""
}

// observe compares the complete observable content with the model.
func (r *c28MapRun) observe() (sigPart, msg string) {
	if got := r.m.Len(); got != len(r.model) {
		return "len", fmt.Sprintf("Len() = %d, model %d {%s}", got, len(r.model), r.modelPairs(true))
	}
	for k := range r.mw.keys {
		got := r.m.At(r.mw.keys[k])
		want := "nil"
		if i := r.mw.find(r.model, k); i >= 0 {
			want = fmt.Sprint(r.model[i].val)
		}
		if r.val(got) != want {
			return "at", fmt.Sprintf("At(k%d) = %s, model %s {%s}", k, r.val(got), want, r.modelPairs(true))
		}
	}
	var ks []types.Type
	var vs []interface{}
	r.m.Iterate(func(k types.Type, v interface{}) { ks = append(ks, k); vs = append(vs, v) })
	if got, want := r.pairs(ks, vs), r.modelPairs(true); got != want {
		return "iterate", fmt.Sprintf("Iterate visited {%s}, model {%s}", got, want)
	}
	return "", ""
}

// runSeq replays ops on a fresh map; reports the first disagreement. Returns the final model state key.
func (mw *c28MapWorld) runSeq(c *core.Ctx, ops []c28Op, shared *typeutil.Hasher, full bool) (state string, ok bool) {
	r := mw.start(shared, false)
	fail := func(i int, part, msg string, pan interface{}) {
		names := make([]string, len(ops[:i+1]))
		for n, o := range ops[:i+1] {
			names[n] = o.String()
		}
		if pan != nil {
			part, msg = "panic", fmt.Sprintf("panics: %v", pan)
		}
		c.Violation("C28|map|"+part+"|"+ops[i].Op, fmt.Sprintf("typeutil.Map after %s: %s", strings.Join(names, " "), msg),
			c28Case{Kind: "map", Ops: append([]c28Op{}, ops[:i+1]...), Shared: shared != nil})
	}
	for i, op := range ops {
		var part, msg string
		if p := core.Catch(func() { part, msg = r.apply(op) }); p != nil {
			fail(i, "", "", p)
			return "", false
		}
		if part != "" {
			fail(i, part, msg, nil)
			return "", false
		}
		if full || i == len(ops)-1 {
			if p := core.Catch(func() { part, msg = r.observe() }); p != nil {
				fail(i, "", "", p)
				return "", false
			}
			if part != "" {
				fail(i, "observe-"+part, msg, nil)
				return "", false
			}
		}
	}
	return c28StateKey(r.model), true
}

// c28OpClasses summarises a prefix by the set of operation kinds it contains (narrow but history-independent signature).
func c28OpClasses(ops []c28Op) string {
	set := map[string]bool{}
	for _, o := range ops {
		set[o.Op] = true
	}
	var s []string
	for k := range set {
		s = append(s, k)
	}
	sort.Strings(s)
	if len(s) == 0 {
		return "nothing"
	}
	return strings.Join(s, "+")
}

func c28MapCheck(c *core.Ctx) {
	mw := newC28MapWorld()
	if bad := mw.selfCheck(); bad != "" {
		// after a change of the hash function the colliding pair may stop colliding: the BFS is then weaker, say so
		c.Set("map_alphabet_degraded", bad)
	}
	ops := mw.ops()
	depth := 5
	if c.Shard == 0 {
		// nil map: read-only operations must work
		var nm *typeutil.Map
		if p := core.Catch(func() {
			if nm.Len() != 0 || nm.At(mw.keys[0]) != nil || nm.Delete(mw.keys[0]) || len(nm.Keys()) != 0 {
				c.Violation("C28|map|nil-map", "nil *Map: read-only operations do not behave like an empty map", c28Case{Kind: "map"})
			}
			nm.Iterate(func(types.Type, interface{}) { panic("visited") })
		}); p != nil {
			c.Violation("C28|map|nil-map", fmt.Sprintf("nil *Map: read-only operation panics: %v", p), c28Case{Kind: "map"})
		}
		// ---- BFS with state deduplication
		tb := time.Now()
		type node struct{ path []c28Op }
		seen := map[string]bool{"": true}
		frontier := []node{{nil}}
		states, trans := 1, 0
		for d := 1; d <= depth && len(frontier) > 0; d++ {
			var next []node
			for _, cur := range frontier {
				for _, op := range ops {
					path := append(append([]c28Op{}, cur.path...), op)
					st, ok := mw.runSeq(c, path, nil, true)
					trans++
					c.Eval(1)
					if !ok {
						continue
					}
					c.Nontrivial("M|" + c28StateKey2(cur.path, mw) + "|" + op.String())
					if !seen[st] {
						seen[st] = true
						states++
						next = append(next, node{path})
						if c.WantSample() && d == 4 {
							c.Sample(map[string]interface{}{"map_ops": fmt.Sprint(path), "state": st})
						}
					}
				}
			}
			frontier = next
		}
		c.Count("ms_map_bfs_shard0", int(time.Since(tb)/time.Millisecond)) // reporting only
		c.States(states)
		c.Transitions(trans)
		c.Traces(trans)
		c.Set("map_bfs_depth", depth)
		c.Set("map_ops", len(ops))
		c.Set("map_keys", mw.names)
	}
	// ---- un-merged sequences (all of them, no state merging), shared hasher, sharded over the workers:
	// every sequence of length <= 4 over the full alphabet; thorough adds every sequence of length 5 over the alphabet
	// restricted to the first 8 keys, and over the alphabet restricted to the two slices and the three colliding structs
	ud := c.Pick(4, 5)
	shared := typeutil.MakeHasher()
	seqs := 0
	unmerged := func(ops []c28Op, depth int) {
		idx := 0
		path := make([]c28Op, 0, depth)
		var rec func()
		rec = func() {
			if len(path) == depth {
				return
			}
			for _, op := range ops {
				path = append(path, op)
				if len(path) == 2 {
					idx++
					if c.Mine(idx) && c.Expired() {
						path = path[:len(path)-1]
						return
					}
				}
				if len(path) < 2 || c.Mine(idx) {
					if len(path) >= 2 {
						mw.runSeq(c, path, &shared, false) // prefixes are sequences of their own: observe after the last step
						seqs++
					}
					rec()
				}
				path = path[:len(path)-1]
			}
		}
		if !c.Expired() {
			rec()
		}
	}
	unmerged(ops, 4)
	if ud > 4 {
		unmerged(mw.opsFor([]int{0, 1, 2, 3, 4, 5, 6, 7}), ud)
		unmerged(mw.opsFor([]int{0, 1, 2, 3, 8}), ud)
	}
	c.Count("map_unmerged_sequences", seqs)
	c.Traces(seqs)
	c.Eval(seqs)
	c.Set("map_unmerged_depth", ud)
}

// c28StateKey2 recomputes the model state reached by a path (model only).
func c28StateKey2(path []c28Op, mw *c28MapWorld) string {
	var model []c28Entry
	for _, op := range path {
		switch op.Op {
		case "set":
			if i := mw.find(model, op.Key); i >= 0 {
				model[i].val = op.Val
			} else {
				model = append(model, c28Entry{op.Key, op.Val})
			}
		case "delete", "iterdel":
			if i := mw.find(model, op.Key); i >= 0 {
				model = append(model[:i:i], model[i+1:]...)
			}
		}
	}
	return c28StateKey(model)
}

func c28MapReplay(c *core.Ctx, cs c28Case) {
	mw := newC28MapWorld()
	var shared *typeutil.Hasher
	if cs.Shared {
		h := typeutil.MakeHasher()
		shared = &h
	}
	mw.runSeq(c, cs.Ops, shared, true)
}
