package props

// C09 — methods, embedding, interfaces, type switches.
//
// Alphabet: named struct types T0..T(n-1), n ≤ 4, forming every embedding DAG in which each Tj (j ≥ 1) is embedded
// by at least one Ti (i < j) — so every type is reachable from T0 at depth ≤ 3 —, every edge by value or by pointer,
// each type independently declaring or not a field X, a value-receiver method M and a pointer-receiver method P
// (shadowing at different depths and equal-depth ambiguity both occur). For every hierarchy a fixed list of *sites*
// (selectors, calls, method values, method expressions, conversions to interpreted and compiled interfaces, type
// assertions, type switches) is instantiated on a fresh value of T0. go/types decides for each site whether Go
// accepts it: accepted sites of one hierarchy form one program (each site independent inside Site(k, …)), each
// rejected site forms a program of its own which the interpreter has to reject before execution.
//
// The interpreter side evaluates the declarations once and then compiles and runs every site separately, so that
// one site the interpreter wrongly rejects cannot hide the others; compiled Go runs the very same text as one function.

import (
	"fmt"
	"go/ast"
	"go/importer"
	"go/parser"
	"go/token"
	"go/types"
	"os"
	"regexp"
	"sort"
	"strconv"
	"strings"
	"sync"
	"time"

	"github.com/cosmos72/gomacro/fast"

	"verif/harness/core"
	"verif/harness/h"
	"verif/harness/oracle"
	"verif/harness/twin"
)

type c09Hier struct {
	n       int
	edge    [4][4]byte // edge[i][j] (i<j): 0 none, 'v' Ti embeds Tj, 'p' Ti embeds *Tj
	x, m, p [4]bool
	se      bool // methods are String() string / Error() string and the interfaces are fmt.Stringer / error
	// q[k] is the role of the homonym name Q in Tk (c09_homonym.go): 0 none, 'F' field Q int, 'G' field Q func() int,
	// 'm' method Q() int with a value receiver, 'p' method Q() int with a pointer receiver
	q [4]byte
	// late[k]: the methods of Tk are declared in a second chunk, after every site has been compiled and run once
	// (compiled Go sees one program; the interpreter must not answer from lookups cached before the declaration)
	late [4]bool
}

func (hr *c09Hier) mname() string {
	if hr.se {
		return "String"
	}
	return "M"
}
func (hr *c09Hier) pname() string {
	if hr.se {
		return "Error"
	}
	return "P"
}

// name is a compact description used in signatures' case text.
func (hr *c09Hier) String() string {
	var sb strings.Builder
	for k := 0; k < hr.n; k++ {
		if k > 0 {
			sb.WriteByte(' ')
		}
		fmt.Fprintf(&sb, "T%d{", k)
		if hr.x[k] {
			sb.WriteByte('X')
		}
		if hr.m[k] {
			sb.WriteByte('M')
		}
		if hr.p[k] {
			sb.WriteByte('P')
		}
		if hr.q[k] != 0 {
			sb.WriteString("Q" + string(hr.q[k]))
		}
		if hr.late[k] {
			sb.WriteString("(late)")
		}
		for j := k + 1; j < hr.n; j++ {
			switch hr.edge[k][j] {
			case 'v':
				fmt.Fprintf(&sb, " T%d", j)
			case 'p':
				fmt.Fprintf(&sb, " *T%d", j)
			}
		}
		sb.WriteByte('}')
	}
	if hr.se {
		sb.WriteString(" [String/Error]")
	}
	return sb.String()
}

// c09Phase2 separates, inside Prog.Decls, the declarations evaluated before the warm-up run of the sites from those
// evaluated after it (c09Run). Compiled Go sees a comment.
const c09Phase2 = "//c09:phase2\n"

// decls renders the package-level declarations with every name suffixed by id.
func (hr *c09Hier) decls(id string) string {
	var all, lateDecls strings.Builder
	sb := &all
	for k := hr.n - 1; k >= 0; k-- {
		sb = &all
		fmt.Fprintf(sb, "type T%d%s struct {\nV%d int\n", k, id, k)
		if hr.x[k] {
			sb.WriteString("X int\n")
		}
		switch hr.q[k] {
		case 'F':
			sb.WriteString("Q int\n")
		case 'G':
			sb.WriteString("Q func() int\n")
		}
		for j := k + 1; j < hr.n; j++ {
			switch hr.edge[k][j] {
			case 'v':
				fmt.Fprintf(sb, "T%d%s\n", j, id)
			case 'p':
				fmt.Fprintf(sb, "*T%d%s\n", j, id)
			}
		}
		sb.WriteString("}\n")
		if hr.late[k] {
			sb = &lateDecls
		}
		switch hr.q[k] {
		case 'm':
			fmt.Fprintf(sb, "func (t T%d%s) Q() int { return %d + t.V%d }\n", k, id, 700*(k+1), k)
		case 'p':
			fmt.Fprintf(sb, "func (t *T%d%s) Q() int {\nt.V%d += 100\nreturn %d + t.V%d\n}\n", k, id, k, 7000*(k+1), k)
		}
		if hr.m[k] {
			if hr.se {
				fmt.Fprintf(sb, "func (t T%d%s) String() string { return \"S%d:\" + string(rune(48+t.V%d)) }\n", k, id, k, k)
			} else {
				fmt.Fprintf(sb, "func (t T%d%s) M() int { return %d + t.V%d }\n", k, id, 100*(k+1), k)
			}
		}
		if hr.p[k] {
			if hr.se {
				fmt.Fprintf(sb, "func (t *T%d%s) Error() string {\nt.V%d += 2\nreturn \"E%d:\" + string(rune(48+t.V%d))\n}\n", k, id, k, k, k)
			} else {
				fmt.Fprintf(sb, "func (t *T%d%s) P() int {\nt.V%d += 10\nreturn %d + t.V%d\n}\n", k, id, k, 1000*(k+1), k)
			}
		}
	}
	sb = &all
	if hr.se {
		fmt.Fprintf(sb, "type J%s interface {\nfmt.Stringer\nError() string\n}\n", id)
	} else {
		fmt.Fprintf(sb, "type I%s interface{ M() int }\n", id)
		fmt.Fprintf(sb, "type J%s interface {\nM() int\nP() int\n}\n", id)
	}
	if hr.declared('Q') != 0 {
		fmt.Fprintf(sb, "type IQ%s interface{ Q() int }\n", id)
	}
	fmt.Fprintf(sb, "func mk%s(d int) T0%s {\nreturn %s\n}\n", id, id, hr.lit(0, id))
	if lateDecls.Len() != 0 {
		sb.WriteString(c09Phase2)
		sb.WriteString(lateDecls.String())
	}
	return sb.String()
}

func (hr *c09Hier) lit(k int, id string) string {
	s := fmt.Sprintf("T%d%s{V%d: %d + d", k, id, k, k+1)
	if hr.x[k] {
		s += fmt.Sprintf(", X: %d + d", 10*(k+1))
	}
	switch hr.q[k] {
	case 'F':
		s += fmt.Sprintf(", Q: %d + d", 5000+10*k)
	case 'G':
		s += fmt.Sprintf(", Q: func() int { return %d + d }", 6000+10*k)
	}
	for j := k + 1; j < hr.n; j++ {
		switch hr.edge[k][j] {
		case 'v':
			s += fmt.Sprintf(", T%d%s: %s", j, id, hr.lit(j, id))
		case 'p':
			s += fmt.Sprintf(", T%d%s: &%s", j, id, hr.lit(j, id))
		}
	}
	return s + "}"
}

// reachable types from T0, and for a member name the set of declaring types.
func (hr *c09Hier) declared(name byte) int {
	n := 0
	for k := 0; k < hr.n; k++ {
		switch name {
		case 'X':
			if hr.x[k] {
				n++
			}
		case 'M':
			if hr.m[k] {
				n++
			}
		case 'P':
			if hr.p[k] {
				n++
			}
		case 'Q':
			if hr.q[k] != 0 {
				n++
			}
		}
	}
	return n
}

// ---------------------------------------------------------------------------
// sites

type c09Site struct {
	kind    string // signature class of the site
	names   string // member names (X, M, P) the site resolves: their lookup features are part of the signature
	primary bool   // kept when a name is declared nowhere (one "missing member" site per name is enough)
	code    string // @ = id suffix, #M / #P = method names, $I / $J interface types
}

const c09Pre = "v := mk@(0)\npv := &v\n_ = pv\n"

func c09Sites(hr *c09Hier) []c09Site {
	s := []c09Site{
		// field X
		{"field|v.X", "X", true, "O(v.X)"},
		{"field|pv.X", "X", false, "O(pv.X)"},
		{"field|(*pv).X", "X", false, "O((*pv).X)"},
		{"field|rvalue.X", "X", false, "O(mk@(0).X)"},
		{"field|v.X=", "X", false, "v.X = 77\nO(v)"},
		{"field|pv.X=", "X", false, "pv.X = 78\nO(v)"},
		{"field|&v.X", "X", false, "q := &v.X\n*q = 79\nO(v)"},
		{"field|v.X+=", "X", false, "v.X += 5\npv.X++\nO(v)"},
		// value-receiver method M
		{"call|v.M()", "M", true, "O(v.#M())"},
		{"call|pv.M()", "M", false, "O(pv.#M())"},
		{"call|rvalue.M()", "M", false, "O(mk@(0).#M())"},
		{"call|(&v).M()", "M", false, "O((&v).#M())"},
		{"methodvalue|v.M", "M", false, "f := v.#M\nv = mk@(4)\nO(f(), v.V0)"},
		{"methodvalue|pv.M", "M", false, "f := pv.#M\n*pv = mk@(4)\nO(f(), v.V0)"},
		{"methodvalue|rvalue.M", "M", false, "f := mk@(4).#M\nO(f())"},
		{"methodexpr|T.M", "M", false, "f := T0@.#M\nO(f(v))"},
		{"methodexpr|(*T).M", "M", false, "f := (*T0@).#M\nO(f(pv))"},
		{"methodexpr|T.M-direct-call", "M", false, "O(T0@.#M(v))"},
		// pointer-receiver method P
		{"call|v.P()", "P", true, "r := v.#P()\nO(r, v)"},
		{"call|pv.P()", "P", false, "r := pv.#P()\nO(r, v)"},
		{"call|rvalue.P()", "P", false, "O(mk@(0).#P())"},
		{"call|(*pv).P()", "P", false, "r := (*pv).#P()\nO(r, v)"},
		{"methodvalue|v.P", "P", false, "g := v.#P\nv = mk@(4)\nr := g()\nO(r, v)"},
		{"methodvalue|pv.P", "P", false, "g := pv.#P\n*pv = mk@(4)\nr := g()\nO(r, v)"},
		{"methodexpr|(*T).P", "P", false, "g := (*T0@).#P\nr := g(pv)\nO(r, v)"},
		{"methodexpr|T.P", "P", false, "g := T0@.#P\nr := g(v)\nO(r, v)"},
		{"call|P-twice", "P", false, "r := v.#P()\nq := pv.#P()\nO(r, q, v)"},
		// type assertions / switches on interface{} holding the value or the pointer
		{"assert|T-from-T", "", true, "var x interface{} = v\nw, ok := x.(T0@)\nO(ok, w)\n_, ok2 := x.(*T0@)\nO(ok2)"},
		{"assert|*T-from-*T", "", true, "var x interface{} = pv\nw, ok := x.(*T0@)\nO(ok, w == pv)\n_, ok2 := x.(T0@)\nO(ok2)"},
		{"assert|T-from-*T-panics", "", true, "var x interface{} = pv\nO(x.(T0@))"},
		{"assert|copy-in-interface", "", true, "var x interface{} = v\nv.V0 = 55\nO(x.(T0@).V0, v.V0)"},
		{"typeswitch|order1", "", true, "for _, x := range []interface{}{v, pv, 7, nil, \"s\"} {\nswitch y := x.(type) {\ncase T0@:\nO(\"T\", y.V0)\ncase *T0@:\nO(\"*T\", y.V0)\ncase int:\nO(\"int\", y+1)\ncase nil:\nO(\"nil\", y)\ndefault:\nO(\"default\", y)\n}\n}"},
		{"typeswitch|order2-multi", "", true, "for _, x := range []interface{}{nil, \"s\", pv, 7, v} {\nswitch y := x.(type) {\ncase nil, string:\nO(\"nil-or-string\", y)\ncase *T0@, T0@:\nO(\"T-or-*T\", y != nil)\ncase int:\nO(\"int\", y)\n}\n}"},
	}
	if hr.se {
		s = append(s, []c09Site{
			{"iface|Stringer=v", "M", false, "var i fmt.Stringer = v\nv = mk@(4)\nO(i.String(), v.V0)"},
			{"iface|Stringer=pv", "M", false, "var i fmt.Stringer = pv\n*pv = mk@(4)\nO(i.String())"},
			{"iface|error=v", "P", false, "var e error = v\nO(e.Error(), v)"},
			{"iface|error=pv", "P", false, "var e error = pv\nr := e.Error()\nO(r, v)"},
			{"iface|J=pv", "MP", false, "var j J@ = pv\nr := j.Error()\nq := j.String()\nO(r, q, v)"},
			{"iface|J=v", "MP", false, "var j J@ = v\nr := j.Error()\nq := j.String()\nO(r, q)"},
			{"iface|Stringer-assert-back", "M", false, "var i fmt.Stringer = v\nw, ok := i.(T0@)\nO(ok, w)\n_, ok2 := i.(*T0@)\nO(ok2)"},
			{"iface|error-assert-back", "P", false, "var e error = pv\nw, ok := e.(*T0@)\nO(ok, w == pv)"},
			{"iface|Stringer-nil-call", "", true, "var i fmt.Stringer\nO(i == nil)\nO(i.String())"},
			{"iface|Stringer-param", "M", false, "f := func(i fmt.Stringer) string { return i.String() }\nO(f(v), f(pv))"},
		}...)
	} else {
		s = append(s, []c09Site{
			{"iface|I=v", "M", false, "var i I@ = v\nv = mk@(4)\nO(i.M(), v.V0)"},
			{"iface|I=pv", "M", false, "var i I@ = pv\n*pv = mk@(4)\nO(i.M())"},
			{"iface|J=v", "MP", false, "var j J@ = v\nr := j.P()\nq := j.M()\nO(r, q)"},
			{"iface|J=pv", "MP", false, "var j J@ = pv\nr := j.P()\nq := j.M()\nO(r, q, v)"},
			{"iface|I(v)-conversion", "M", false, "O(I@(v).M())"},
			{"iface|I-assert-back", "M", false, "var i I@ = v\nw, ok := i.(T0@)\nO(ok, w)\n_, ok2 := i.(*T0@)\nO(ok2)"},
			{"iface|J-assert-back", "MP", false, "var j J@ = pv\nw, ok := j.(*T0@)\nO(ok, w == pv)"},
			{"iface|J-assert-T", "MP", false, "var j J@ = pv\n_, ok := j.(T0@)\nO(ok)"},
			{"iface|I-nil-call", "", true, "var i I@\nO(i == nil)\nO(i.M())"},
			{"iface|I-param-and-slice", "M", false, "f := func(i I@) int { return i.M() }\nO(f(v), f(pv))\nfor _, e := range []I@{v, pv} {\nO(e.M())\n}"},
			{"iface|I-methodvalue", "M", false, "var i I@ = v\nf := i.M\ni = nil\nO(f())"},
			{"iface|I-methodexpr", "M", false, "f := I@.M\nO(f(v))"},
			{"iface|J-to-I", "MP", false, "var j J@ = pv\nvar i I@ = j\nO(i.M())"},
			{"iface|I-typeswitch", "M", false, "var i I@ = v\nswitch y := i.(type) {\ncase *T0@:\nO(\"*T\", y.V0)\ncase T0@:\nO(\"T\", y.V0)\n}"},
			{"iface|I-equality", "M", false, "var a, b I@ = pv, pv\nvar c I@\nO(a == b, a != c, c == nil)"},
		}...)
	}
	// promoted plain fields Vk and embedded fields Tk of every embedded type
	for k := 1; k < hr.n; k++ {
		s = append(s,
			c09Site{fmt.Sprintf("promoted|v.V%d", k), "", true, fmt.Sprintf("O(v.V%d)", k)},
			c09Site{fmt.Sprintf("promoted|v.V%d=", k), "", true, fmt.Sprintf("pv.V%d = 66\nO(v)", k)},
			c09Site{fmt.Sprintf("promoted|v.T%d", k), "", true, fmt.Sprintf("O(v.T%d@)", k)},
			c09Site{fmt.Sprintf("promoted|v.T%d.V%d", k, k), "", true, fmt.Sprintf("O(pv.T%d@.V%d)", k, k)},
			c09Site{fmt.Sprintf("explicit|v.T%d.X", k), "", true, fmt.Sprintf("O(v.T%d@.X)", k)},
			c09Site{fmt.Sprintf("explicit|v.T%d.M()", k), "", true, fmt.Sprintf("O(v.T%d@.#M())", k)},
			c09Site{fmt.Sprintf("explicit|v.T%d.P()", k), "", true, fmt.Sprintf("r := v.T%d@.#P()\nO(r, v)", k)},
			c09Site{fmt.Sprintf("assert|T%d-from-T0", k), "", true, fmt.Sprintf("var x interface{} = v\nw, ok := x.(T%d@)\nO(ok, w.V%d)", k, k)},
		)
	}
	return s
}

func (st *c09Site) render(hr *c09Hier, id string) string {
	r := strings.NewReplacer("#M", hr.mname(), "#P", hr.pname(), "@", id)
	return r.Replace(c09Pre + st.code)
}

// ---------------------------------------------------------------------------
// go/types as the judge of each site (all errors collected, located by line)

var (
	c09ImpMu  sync.Mutex
	c09Imp    types.Importer
	c09ImpSet = token.NewFileSet()
)

type c09Importer struct{}

func (c09Importer) Import(path string) (*types.Package, error) {
	c09ImpMu.Lock()
	defer c09ImpMu.Unlock()
	if c09Imp == nil {
		c09Imp = importer.ForCompiler(c09ImpSet, "source", nil)
	}
	return c09Imp.Import(path)
}

const c09Stubs = "func O(vs ...interface{}) {}\nfunc Site(k int, f func()) {}\n"

// c09Judge type-checks decls + one function per site; returns per site the first error ("" = Go accepts the site)
// and the checked package (for LookupFieldOrMethod). A declaration error is returned as err.
func c09Judge(imports []string, decls string, sites []string) (verdict []string, pkg *types.Package, err error) {
	var sb strings.Builder
	sb.WriteString("package p\n")
	for _, im := range imports {
		fmt.Fprintf(&sb, "import %q\n", im)
	}
	for _, im := range imports {
		fmt.Fprintf(&sb, "var _ = %s\n", c09ImportUse[im])
	}
	sb.WriteString(c09Stubs)
	sb.WriteString(decls)
	line := strings.Count(sb.String(), "\n") + 1
	declEnd := line
	start := make([]int, len(sites)+1)
	for i, s := range sites {
		start[i] = line
		src := fmt.Sprintf("func s%d() {\n%s\n}\n", i, s)
		sb.WriteString(src)
		line += strings.Count(src, "\n")
	}
	start[len(sites)] = line
	fset := token.NewFileSet()
	f, perr := parser.ParseFile(fset, "p.go", sb.String(), 0)
	if perr != nil {
		return nil, nil, perr
	}
	verdict = make([]string, len(sites))
	conf := types.Config{Importer: c09Importer{}, GoVersion: "go1.21", Error: func(e error) {
		te, ok := e.(types.Error)
		if !ok {
			return
		}
		msg := te.Msg
		if strings.Contains(msg, "declared and not used") || strings.Contains(msg, "is not used") {
			return
		}
		ln := te.Fset.Position(te.Pos).Line
		if ln < declEnd {
			if err == nil {
				err = fmt.Errorf("declarations: %s", msg)
			}
			return
		}
		i := sort.SearchInts(start, ln+1) - 1
		if i >= 0 && i < len(sites) && verdict[i] == "" {
			verdict[i] = msg
		}
	}}
	pkg, _ = conf.Check("p", fset, []*ast.File{f}, nil)
	return
}

var c09ImportUse = map[string]string{"fmt": "fmt.Sprint", "time": "time.Second", "errors": "errors.New"}

// c09Feature describes how Go resolves member name on T0 (part of the violation signature).
func c09Feature(hr *c09Hier, pkg *types.Package, id string, name byte) string {
	goName := map[byte]string{'X': "X", 'M': hr.mname(), 'P': hr.pname(), 'Q': "Q"}[name]
	decl := hr.declared(name)
	if decl == 0 {
		return string(name) + ":undeclared"
	}
	obj := pkg.Scope().Lookup("T0" + id)
	if obj == nil {
		return string(name) + ":?"
	}
	o, index, indirect := types.LookupFieldOrMethod(obj.Type(), true, pkg, goName)
	if o == nil {
		if index != nil {
			return string(name) + ":ambiguous"
		}
		return string(name) + ":notfound"
	}
	// direct = declared by T0 itself, promoted = found in an embedded field (any depth); the depth and the presence
	// of shadowed homonyms deeper down are in the program's "hier" line, not in the signature
	f := string(name) + ":promoted"
	if len(index) == 1 {
		f = string(name) + ":direct"
	}
	if name == 'Q' {
		// the homonym: Go selects a field or a method
		if _, isField := o.(*types.Var); isField {
			f = strings.Replace(f, ":", ":field-", 1)
		} else {
			f = strings.Replace(f, ":", ":method-", 1)
		}
	}
	if indirect {
		f += "+viaptr"
	}
	return f
}

// ---------------------------------------------------------------------------
// programs

type c09Gen struct {
	c     *core.Ctx
	mu    sync.Mutex
	progs []oracle.Prog
	nh    int
	stats map[string]int
}

func c09Imports(hr *c09Hier) []string {
	if hr.se {
		return []string{"fmt"}
	}
	return nil
}

// c09Group is a set of sites over one set of declarations.
type c09Group struct {
	id      string
	desc    string
	imports []string
	decls   func(id string) string
	sites   []c09Site
	render  func(st *c09Site, id string) string
	sigOf   func(st *c09Site, pkg *types.Package) string
	// embedRejects: the sites Go rejects do not become programs of their own (a fresh interpreter each): they travel
	// inside the program of the hierarchy as comments ("//rsite k sig=…" followed by the code behind "//| "). Compiled
	// Go ignores them; c09Run compiles each one separately after the valid sites — the interpreter must refuse to
	// compile it, otherwise the record "<k NOT-REJECTED>" is added to the output and the program mismatches.
	embedRejects bool
}

// addGroup judges every site with go/types: one program with all the accepted sites, one per rejected site.
func (g *c09Gen) addGroup(gr *c09Group) {
	id := gr.id
	decls := gr.decls(id)
	codes := make([]string, len(gr.sites))
	for i := range gr.sites {
		codes[i] = gr.render(&gr.sites[i], id)
	}
	verdict, pkg, err := c09Judge(gr.imports, decls, codes)
	if err != nil {
		panic(fmt.Sprintf("C09 generator: declarations of %s (%s) do not type-check: %v\n%s", id, gr.desc, err, decls))
	}
	var body strings.Builder
	fmt.Fprintf(&body, "// hier: %s\n", gr.desc)
	nvalid, nembedded := 0, 0
	var rejects []oracle.Prog
	for i := range gr.sites {
		sig := gr.sigOf(&gr.sites[i], pkg)
		if verdict[i] == "" {
			nvalid++
			fmt.Fprintf(&body, "//site %d sig=%s\nSite(%d, func() {\n%s\n})\n", i+1, sig, i+1, codes[i])
			continue
		}
		if gr.embedRejects {
			nembedded++
			fmt.Fprintf(&body, "//rsite %d sig=%s|go-rejects:%s\n// go: %s\n//| %s\n", i+1, sig, c09Reason(verdict[i]), verdict[i], strings.ReplaceAll(codes[i], "\n", "\n//| "))
			continue
		}
		rid := fmt.Sprintf("%sr%d", id, i+1)
		rejects = append(rejects, oracle.Prog{ID: rid, Decls: gr.decls(rid), Imports: gr.imports,
			Body: fmt.Sprintf("// sig: C09|%s|go-rejects:%s\n// full: %s\n// hier: %s\n// go: %s\n%s\n", gr.sites[i].kind, c09Reason(verdict[i]), sig, gr.desc, verdict[i], gr.render(&gr.sites[i], rid))})
	}
	g.mu.Lock()
	defer g.mu.Unlock()
	g.nh++
	g.stats["sites_valid"] += nvalid
	g.stats["sites_go_rejects"] += len(rejects)
	if nembedded != 0 {
		g.stats["sites_go_rejects_embedded"] += nembedded
	}
	if nvalid > 0 || nembedded > 0 {
		g.progs = append(g.progs, oracle.Prog{ID: id, Decls: decls, Imports: gr.imports, Body: body.String()})
	}
	g.progs = append(g.progs, rejects...)
}

// addHier instantiates every site on the hierarchy.
func (g *c09Gen) addHier(id string, hr *c09Hier) {
	sites := c09Sites(hr)
	// prune sites on names that are declared nowhere, except the primary one
	var keep []c09Site
	for _, st := range sites {
		missing := false
		for i := 0; i < len(st.names); i++ {
			if hr.declared(st.names[i]) == 0 {
				missing = true
			}
		}
		if missing && !st.primary {
			continue
		}
		keep = append(keep, st)
	}
	feat := map[byte]string{}
	g.addGroup(&c09Group{id: id, desc: hr.String(), imports: c09Imports(hr), decls: hr.decls, sites: keep,
		render: func(st *c09Site, id string) string { return st.render(hr, id) },
		sigOf: func(st *c09Site, pkg *types.Package) string {
			if len(feat) == 0 {
				for _, n := range []byte("XMP") {
					feat[n] = c09Feature(hr, pkg, id, n)
				}
			}
			sig := "C09|" + st.kind
			if hr.se {
				sig += "|String/Error"
			}
			for i := 0; i < len(st.names); i++ {
				sig += "|" + feat[st.names[i]]
			}
			return sig
		}})
}

// c09Shapes returns every DAG on n nodes in which node j ≥ 1 has at least one parent i < j (edges unlabelled: true/false).
func c09Shapes(n int) [][4][4]bool {
	shapes := [][4][4]bool{{}}
	for j := 1; j < n; j++ {
		var next [][4][4]bool
		for _, s := range shapes {
			for mask := 1; mask < 1<<uint(j); mask++ {
				t := s
				for i := 0; i < j; i++ {
					if mask&(1<<uint(i)) != 0 {
						t[i][j] = true
					}
				}
				next = append(next, t)
			}
		}
		shapes = next
	}
	return shapes
}

// c09EdgeKinds returns the value/pointer labellings of a shape: all of them, or (reduced) all-value, all-pointer, alternating.
func c09EdgeKinds(shape [4][4]bool, n int, all bool) [][4][4]byte {
	type e struct{ i, j int }
	var es []e
	for i := 0; i < n; i++ {
		for j := i + 1; j < n; j++ {
			if shape[i][j] {
				es = append(es, e{i, j})
			}
		}
	}
	var out [][4][4]byte
	emit := func(pick func(k int) bool) {
		var l [4][4]byte
		for k, ed := range es {
			if pick(k) {
				l[ed.i][ed.j] = 'p'
			} else {
				l[ed.i][ed.j] = 'v'
			}
		}
		for _, o := range out {
			if o == l {
				return
			}
		}
		out = append(out, l)
	}
	if all {
		for mask := 0; mask < 1<<uint(len(es)); mask++ {
			mask := mask
			emit(func(k int) bool { return mask&(1<<uint(k)) != 0 })
		}
		return out
	}
	emit(func(k int) bool { return false })
	emit(func(k int) bool { return true })
	emit(func(k int) bool { return k%2 == 1 })
	emit(func(k int) bool { return k%2 == 0 })
	return out
}

type c09Members struct{ x, m, p [4]bool }

// c09MemberSets: full = every combination (8^n); otherwise one name at a time over all 2^n subsets of declaring types
// (the other names absent), all three names on the same subset, and M+P on the same subset.
func c09MemberSets(n int, full bool) []c09Members {
	var out []c09Members
	seen := map[c09Members]bool{}
	add := func(m c09Members) {
		if !seen[m] {
			seen[m] = true
			out = append(out, m)
		}
	}
	bits := func(mask int) (b [4]bool) {
		for k := 0; k < n; k++ {
			b[k] = mask&(1<<uint(k)) != 0
		}
		return
	}
	if full {
		for a := 0; a < 1<<uint(n); a++ {
			for b := 0; b < 1<<uint(n); b++ {
				for c := 0; c < 1<<uint(n); c++ {
					add(c09Members{bits(a), bits(b), bits(c)})
				}
			}
		}
		return out
	}
	for a := 0; a < 1<<uint(n); a++ {
		add(c09Members{x: bits(a)})
		add(c09Members{m: bits(a)})
		add(c09Members{p: bits(a)})
		add(c09Members{bits(a), bits(a), bits(a)})
		add(c09Members{m: bits(a), p: bits(a)})
	}
	return out
}

func c09Programs(c *core.Ctx) []oracle.Prog {
	g := &c09Gen{c: c, stats: map[string]int{}}
	c09Ctx = c
	var hiers []c09Hier
	pure := func(lab [4][4]byte) bool {
		v, p := false, false
		for a := 0; a < 4; a++ {
			for b := 0; b < 4; b++ {
				v = v || lab[a][b] == 'v'
				p = p || lab[a][b] == 'p'
			}
		}
		return !(v && p)
	}
	for n := 1; n <= 4; n++ {
		allKinds := n <= 2 || c.Thorough() && n == 3
		shapes := c09Shapes(n)
		for si, shape := range shapes {
			if c.Quick() && n == 4 && !(si == 0 || si == 5 || si == 8 || si == 10 || si == 11 || si == 20) {
				// quick: 6 of the 21 four-type shapes — T0→{T1,T2,T3}; diamond T0→{T1,T2}→T3; T0→T1→{T2,T3};
				// chain T0→T1→T2→T3; chain + T0→T3 (same type at depth 1 and 3); every edge. Thorough: all 21.
				continue
			}
			kinds := c09EdgeKinds(shape, n, allKinds)
			if c.Quick() && len(kinds) > 2 && n >= 3 {
				kinds = kinds[:2] // all by value, all by pointer
			}
			for _, lab := range kinds {
				// the full product of member declarations: ≤ 2 types always; 3 types in the thorough tier for the
				// all-by-value and all-by-pointer labellings (mixed labellings and 4 types: reduced member sets)
				fullMembers := n <= 2 || (c.Thorough() && n == 3 && pure(lab))
				members := c09MemberSets(n, fullMembers)
				if c.Quick() && n == 4 {
					// one declaring-subset for all three names
					var red []c09Members
					for _, m := range members {
						if m.x == m.m && m.m == m.p {
							red = append(red, m)
						}
					}
					members = red
				}
				for _, m := range members {
					hiers = append(hiers, c09Hier{n: n, edge: lab, x: m.x, m: m.m, p: m.p})
				}
			}
		}
	}
	// String/Error naming with the compiled interfaces fmt.Stringer / error: all hierarchies of ≤ 2 types, and the
	// 3-type shapes by value and by pointer with one declaring subset for both methods
	nbase := len(hiers)
	for i := 0; i < nbase; i++ {
		hr := hiers[i]
		if hr.n <= 2 || (hr.n == 3 && hr.m == hr.p && (c.Thorough() || hr.x == hr.m)) {
			allv, allp := true, true
			for a := 0; a < 4; a++ {
				for b := 0; b < 4; b++ {
					if hr.edge[a][b] == 'v' {
						allp = false
					}
					if hr.edge[a][b] == 'p' {
						allv = false
					}
				}
			}
			if hr.n == 3 && !allv && !allp {
				continue
			}
			if hr.declared('M')+hr.declared('P') == 0 {
				continue
			}
			hr.se = true
			hiers = append(hiers, hr)
		}
	}
	// the homonym and late-declaration hierarchies (c09_homonym.go) follow the base ones
	nplain := len(hiers)
	hiers = append(hiers, c09ExtraHiers(c)...)
	// judge the hierarchies in parallel (go/types), keep the generator's order
	type job struct {
		i  int
		hr *c09Hier
	}
	sub := make([]*c09Gen, len(hiers))
	var wg sync.WaitGroup
	jobs := make(chan job)
	for w := 0; w < 8; w++ {
		wg.Add(1)
		go func() {
			defer wg.Done()
			for j := range jobs {
				sg := &c09Gen{c: c, stats: map[string]int{}}
				if j.i < nplain {
					sg.addHier("h"+strconv.Itoa(j.i), j.hr)
				} else {
					sg.addHierQ("q"+strconv.Itoa(j.i-nplain), j.hr)
					if j.hr.anyLate() {
						sg.stats["hierarchies_late_decl"]++
					} else {
						sg.stats["hierarchies_homonym"]++
					}
				}
				sub[j.i] = sg
			}
		}()
	}
	for i := range hiers {
		jobs <- job{i, &hiers[i]}
	}
	close(jobs)
	wg.Wait()
	for _, sg := range sub {
		g.progs = append(g.progs, sg.progs...)
		g.nh += sg.nh
		for k, v := range sg.stats {
			g.stats[k] += v
		}
	}
	g.genMisc()
	g.genTsw()
	c.Set("hierarchies", g.nh)
	for k, v := range g.stats {
		c.Set(k, v)
	}
	if only := os.Getenv("VERIF_C09_ONLY"); only != "" {
		// debugging aid: keep the programs whose ID starts with one of the comma-separated prefixes
		var keep []oracle.Prog
		for _, p := range g.progs {
			for _, pre := range strings.Split(only, ",") {
				if strings.HasPrefix(p.ID, pre) {
					keep = append(keep, p)
					break
				}
			}
		}
		c.Cap("VERIF_C09_ONLY=" + only)
		return keep
	}
	return g.progs
}

// ---------------------------------------------------------------------------
// interpreter side: declarations once, then every site compiled and run on its own

var c09SiteRx = regexp.MustCompile(`(?m)^//site (\d+) sig=(.*)$`)

// c09RSiteRx: a site Go rejects, embedded in the program as comments (see c09Group.embedRejects)
var c09RSiteRx = regexp.MustCompile(`(?m)^//rsite (\d+) sig=(.*)$`)

type c09RSite struct{ k, sig, code string }

func c09RSites(body string) []c09RSite {
	var out []c09RSite
	for _, loc := range c09RSiteRx.FindAllStringSubmatchIndex(body, -1) {
		rs := c09RSite{k: body[loc[2]:loc[3]], sig: body[loc[4]:loc[5]]}
		for _, line := range strings.Split(body[loc[1]:], "\n")[1:] {
			if strings.HasPrefix(line, "//| ") {
				rs.code += line[4:] + "\n"
			} else if !strings.HasPrefix(line, "// go: ") {
				break
			}
		}
		out = append(out, rs)
	}
	return out
}

func c09Run(p *oracle.Prog) twin.Result {
	ir := twin.NewFast()
	locs := c09SiteRx.FindAllStringSubmatchIndex(p.Body, -1)
	rsites := c09RSites(p.Body)
	phase1, phase2 := p.Decls, ""
	if i := strings.Index(p.Decls, c09Phase2); i >= 0 {
		phase1, phase2 = p.Decls[:i], p.Decls[i+len(c09Phase2):]
	}
	if len(locs) == 0 && len(rsites) == 0 && phase2 == "" {
		return twin.Run(ir, p)
	}
	for _, im := range p.Imports {
		if perr := twin.Catch(func() { ir.Eval("import " + strconv.Quote(im)) }); perr != nil {
			return twin.Result{CompileErr: fmt.Sprint("import ", im, ": ", perr)}
		}
	}
	var res twin.Result
	evalDecls := func(src string) bool {
		if src == "" {
			return true
		}
		var declErr interface{}
		if perr := twin.Catch(func() {
			e := ir.Compile(src)
			if e != nil {
				declErr = twin.Catch(func() { ir.RunExpr(e) })
			}
		}); perr != nil {
			res.CompileErr = "declarations: " + fmt.Sprint(perr)
			return false
		}
		if declErr != nil {
			res.Out = "DECL-" + h.Finish(declErr)
			return false
		}
		return true
	}
	if !evalDecls(phase1) {
		return res
	}
	// blocks returns the source of every site (the whole body for a program without site markers)
	type block struct{ k, src string }
	var blocks []block
	for i, loc := range locs {
		end := len(p.Body)
		if i+1 < len(locs) {
			end = locs[i+1][0]
		}
		blocks = append(blocks, block{p.Body[loc[2]:loc[3]], p.Body[loc[1]:end]})
	}
	if phase2 != "" {
		// warm-up: every site is compiled and run once against the declarations of the first chunk (whatever it
		// does — most do not even compile yet — is discarded), so that every lookup cache is populated; then the
		// second chunk is declared
		warm := blocks
		if len(warm) == 0 && len(rsites) == 0 {
			warm = []block{{"0", p.Body}}
		}
		for _, rs := range rsites {
			warm = append(warm, block{"r" + rs.k, rs.code})
		}
		for _, b := range warm {
			fn := "W_" + p.ID + "_" + b.k
			twin.Catch(func() {
				if e := ir.Compile("func " + fn + "() {" + b.src + "\n}"); e != nil {
					ir.RunExpr(e)
				}
				call := ir.Compile(fn + "()")
				h.Exec(func() { ir.RunExpr(call) })
			})
		}
		if !evalDecls(phase2) {
			return res
		}
		if len(locs) == 0 && len(rsites) == 0 {
			return twin.RunSrc(ir, "func P_"+p.ID+"() {\n"+p.Body+"\n}\n", "P_"+p.ID+"()")
		}
	}
	done := make(chan struct{})
	timedOut := false
	go func() {
		select {
		case <-done:
		case <-time.After(60 * time.Second):
			timedOut = true
			ir.Interrupt(nil)
		}
	}()
	var out strings.Builder
	for _, b := range blocks {
		k, block := b.k, b.src
		fn := "P_" + p.ID + "_" + k
		var perr interface{}
		perr = twin.Catch(func() {
			if e := ir.Compile("func " + fn + "() {" + block + "\n}"); e != nil {
				ir.RunExpr(e)
			}
		})
		var call *fast.Expr
		if perr == nil {
			perr = twin.Catch(func() { call = ir.Compile(fn + "()") })
		}
		if perr != nil {
			msg := fmt.Sprint(perr)
			if i := strings.Index(msg, "\n"); i > 0 {
				msg = msg[:i]
			}
			out.WriteString("<" + k + " COMPILE-ERROR: " + msg + "> ")
			continue
		}
		out.WriteString(h.Exec(func() { ir.RunExpr(call) }))
	}
	// the embedded sites Go rejects: each must fail to compile
	for _, rs := range rsites {
		fn := "R_" + p.ID + "_" + rs.k
		perr := twin.Catch(func() {
			if e := ir.Compile("func " + fn + "() {\n" + rs.code + "}"); e != nil {
				ir.RunExpr(e)
			}
			ir.Compile(fn + "()")
		})
		if perr == nil {
			out.WriteString("<" + rs.k + " NOT-REJECTED> ")
		}
	}
	close(done)
	res.Out = out.String()
	res.TimedOut = timedOut
	return res
}

// ---------------------------------------------------------------------------
// signatures: the first site whose record differs and is not a known finding

var c09RecRx = regexp.MustCompile(`<(\d+) `)

func c09Records(s string) map[string]string {
	m := map[string]string{}
	locs := c09RecRx.FindAllStringSubmatchIndex(s, -1)
	for i, loc := range locs {
		end := len(s)
		if i+1 < len(locs) {
			end = locs[i+1][0]
		}
		m[s[loc[2]:loc[3]]] = strings.TrimSpace(s[loc[0]:end])
	}
	return m
}

var c09KF = core.LoadKnownFindings()

// c09Reason classifies go/types' reason for rejecting a site.
func c09Reason(msg string) string {
	switch {
	case strings.Contains(msg, "ambiguous selector"):
		return "ambiguous"
	case strings.Contains(msg, "cannot call pointer method"), strings.Contains(msg, "cannot take address"), strings.Contains(msg, "cannot assign to"):
		return "unaddressable"
	case strings.Contains(msg, "impossible type"):
		return "impossible-assertion"
	case strings.Contains(msg, "does not implement"), strings.Contains(msg, "missing method"):
		return "not-implemented"
	case strings.Contains(msg, "undefined"), strings.Contains(msg, "has no field or method"):
		return "undefined"
	case strings.Contains(msg, "invalid method expression"), strings.Contains(msg, "invalid receiver"):
		return "invalid-method-expr"
	}
	return "other"
}

func c09Sig(p *oracle.Prog, want, got string) string {
	if strings.HasPrefix(p.Body, "// sig: ") {
		sig := p.Body[len("// sig: "):strings.Index(p.Body, "\n")]
		if want == "" && !strings.HasPrefix(got, "COMPILE-ERROR") {
			if strings.Contains(got, "PANIC(") {
				sig += "|interp-panics-at-run-time"
			} else {
				sig += "|interp-runs"
			}
		}
		sigLog(sig, p, want, got)
		return sig
	}
	sites := c09SiteRx.FindAllStringSubmatch(p.Body, -1)
	for _, rs := range c09RSites(p.Body) {
		sites = append(sites, []string{"", rs.k, rs.sig + "|interp-accepts"})
	}
	if len(sites) == 0 {
		return "C09|?"
	}
	if strings.HasPrefix(got, "COMPILE-ERROR: declarations") || strings.HasPrefix(got, "DECL-") {
		hier := ""
		if strings.HasPrefix(p.Body, "// hier: ") {
			hier = p.Body[len("// hier: "):strings.Index(p.Body, "\n")]
		}
		sig := "C09|declarations|" + c09HierClass(hier)
		sigLog(sig, p, want, got)
		return sig
	}
	w, g := c09Records(want), c09Records(got)
	first, unknown := "", ""
	for _, st := range sites {
		if w[st[1]] != g[st[1]] {
			sig := st[2]
			if strings.Contains(g[st[1]], "COMPILE-ERROR") {
				sig += "|interp-rejects"
			}
			if os.Getenv("VERIF_SIGLOG") != "" {
				fmt.Printf("SIG\t%s\t%s\tsite %s\twant=%q\tgot=%q\t%s\n", sig, p.ID, st[1], w[st[1]], g[st[1]], p.Body[:strings.Index(p.Body, "\n")])
			}
			if first == "" {
				first = sig
			}
			if !c09KF.IsKnown("C09", sig) {
				if unknown == "" {
					unknown = sig
				}
			} else if c09Ctx != nil {
				// a program is reported under ONE signature (its first failing site that is not listed): every other
				// failing site that is a listed finding is recorded too, so that each listed finding that occurs is printed
				c09Ctx.Violation(sig, fmt.Sprintf("site %s of program %s: compiled Go %q, interpreter %q", st[1], p.ID, w[st[1]], g[st[1]]), nil)
			}
		}
	}
	if unknown != "" {
		return unknown
	}
	if first == "" {
		return "C09|output-framing"
	}
	return first
}

// c09HierClass abstracts a hierarchy description to its shape class (for declaration failures).
func c09HierClass(hier string) string {
	r := strings.NewReplacer("X", "", "M", "", "P", "")
	return strings.Join(strings.Fields(r.Replace(hier)), "")
}

// c09Ctx is the context of the running worker (set by the generator, which runs in the same process before the
// programs are executed): c09Key records one non-trivial key per executed site.
var c09Ctx *core.Ctx

func c09Key(p *oracle.Prog, want string) string {
	sites := c09SiteRx.FindAllStringSubmatch(p.Body, -1)
	rsites := c09RSites(p.Body)
	if len(sites)+len(rsites) == 0 || c09Ctx == nil {
		return p.ID + "|" + want
	}
	for _, rs := range rsites {
		c09Ctx.Nontrivial("reject|" + p.ID + "#" + rs.k)
	}
	if len(rsites) > 0 {
		c09Ctx.Count("rejected_sites_compiled", len(rsites))
	}
	w := c09Records(want)
	for _, st := range sites {
		rec := w[st[1]]
		if i := strings.Index(rec, " "); i > 0 {
			rec = rec[i:]
		}
		c09Ctx.Nontrivial(st[2] + "|" + rec)
	}
	c09Ctx.Count("site_evaluations", len(sites))
	return ""
}

func init() {
	registerDiff(&diffSpec{
		ID: "C09",
		Rule: "every embedding DAG over named struct types T0..T3 (every Tj embedded by ≥1 earlier type, by value or by pointer; quick: all DAGs of ≤3 types and 6 of the 21 four-type DAGs) × declaring subsets of field X, value method M, pointer method P " +
			"(full product for ≤2 types, thorough also 3 types embedded all by value / all by pointer; otherwise one name at a time over all subsets, all names on one subset, M+P on one subset) × ~60 sites on a fresh T0 value (field read/write/address, calls on variable/pointer/rvalue, method values with bind-time receiver copy, " +
			"method expressions, conversion to interpreted interfaces I{M()}, J{M();P()} or to fmt.Stringer/error, assertions back, type switches, promoted fields of every embedded type); plus named non-struct types with methods, interfaces embedding interfaces (explicit methods sorting before/after/around the embedded ones, with different signatures), structs embedding interfaces. " +
			"HOMONYMS: every DAG of ≤3 types (thorough: 4) × one name Q given, independently per type, one of the roles absent / field int / field func / value method / pointer method × unrelated methods nowhere / on T0 / everywhere × ~20 sites (read, call, method value, assignment, address, interface conversion, method expression, the same on every embedded type explicitly); " +
			"LATE DECLARATIONS: the same hierarchies with the methods of one type declared in a second chunk after every site has been compiled and run once (compiled Go sees one program). " +
			"OVERLAPPING TYPE SWITCHES: tag ∈ interpreted interface, fmt.Stringer, interface{} × every ordered list of ≤3 (thorough: 4) distinct cases over concrete types (two pairs sharing one reflect.Type), interfaces, multi-type cases, nil, default × every dynamic value (most match several cases), with and without bound variable. " +
			"go/types decides per site whether Go accepts it. Non-trivial = distinct (site class, lookup feature, compiled-Go record) triples of accepted sites + every rejected site",
		Gen:           c09Programs,
		Sig:           c09Sig,
		RejectInvalid: true,
		Runner:        c09Run,
		Key:           c09Key,
		Assume: []string{"interface→interface assertions whose operand holds an interpreted type are a documented limitation and are not in the alphabet",
			"the interpreter compiles and runs each site of a program separately after evaluating the declarations once (sites are independent by construction); compiled Go runs them as one function",
			"late declarations: the interpreter receives the declarations in two chunks with a warm-up run of every site in between; what is compared is the behaviour of sites compiled after the second chunk",
			"a constant of an interpreted named type converted to an interface (documented limitation) is not in the alphabet: such values go through variables"},
	})
}
