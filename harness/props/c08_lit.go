package props

// composite literals, array value semantics, nil dereference, struct / pointer places

type c08Case struct{ name, tpl string }

func (g *c08Gen) genLit() {
	for ki := range c08Kinds {
		k := &c08Kinds[ki]
		for _, c := range []c08Case{
			{"array-positional", "a := [3]$E{$0, $1, $2}\nO(a, len(a))\n"},
			{"array-partial", "a := [3]$E{$0}\nO(a)\n"},
			{"array-empty", "a := [3]$E{}\nvar b [3]$E\nO(a, a == b)\n"},
			{"array-dots", "a := [...]$E{$0, $1}\nO(a, len(a))\n"},
			{"array-dots-sparse", "a := [...]$E{2: $0, $1, 0: $2}\nO(a, len(a))\n"},
			{"array-sparse", "a := [5]$E{1: $1, 3: $3}\nO(a)\n"},
			{"array-keyed-then-positional", "a := [4]$E{2: $0, $1}\nO(a)\n"},
			{"array-const-expr-keys", "const k = 1\na := [...]$E{k + 1: $0, k: $1, 'b' - 'a' + 3: $2}\nO(a, len(a))\n"},
			{"slice-positional", "s := []$E{$0, $1, $2}\nO(s, len(s), cap(s))\n"},
			{"slice-sparse", "s := []$E{3: $0}\nO(s, len(s), cap(s))\n"},
			{"slice-sparse-mixed", "s := []$E{1: $0, $1, 0: $2}\nO(s)\n"},
			{"slice-empty-vs-nil", "s := []$E{}\nn := []$E(nil)\nvar z []$E\nO(s == nil, n == nil, z == nil, len(s), s, n)\n"},
			{"slice-of-slices-elided", "s := [][]$E{{$0}, {$1, $2}, nil, {}}\nO(s, s[2] == nil, s[3] == nil)\n"},
			{"array-of-arrays-elided", "a := [2][2]$E{{$0, $1}, {1: $2}}\nO(a)\n"},
			{"slice-of-arrays-elided", "s := [][2]$E{{$0}, {1: $1}}\nO(s)\n"},
			{"map-literal", "m := map[string]$E{\"a\": $0, \"b\": $1}\nO(m, len(m))\n"},
			{"map-literal-empty", "m := map[string]$E{}\nO(m, m == nil)\n"},
			{"map-elem-key", "m := map[$E]int{$0: 1, $1: 2}\nO(m, m[$0], m[$2])\n"},
			{"map-of-slices-elided", "m := map[string][]$E{\"a\": {$0, $1}, \"b\": nil, \"c\": {}}\nO(m)\n"},
			{"map-of-maps-elided", "m := map[string]map[int]$E{\"a\": {1: $0}, \"b\": {}}\nO(m)\n"},
			{"map-of-ptr-array-elided", "m := map[string]*[2]$E{\"a\": {$0, $1}, \"b\": nil}\nO(m)\n"},
			{"struct-positional", "s := struct {\nF $E\nG int\n}{$0, 7}\nO(s, s.F, s.G)\n"},
			{"struct-keyed-reordered", "s := struct {\nF $E\nG int\n}{G: 7, F: $0}\nO(s)\n"},
			{"struct-partial", "s := struct {\nF $E\nG int\nH $E\n}{H: $1}\nO(s)\n"},
			{"struct-empty", "s := struct {\nF $E\nG int\n}{}\nO(s)\n"},
			{"struct-pointer", "p := &struct {\nF $E\nG int\n}{F: $0}\nO(p, p.F, (*p).G)\np.G = 3\nO(*p)\n"},
			{"named-struct", "type S struct {\nF $E\nG int\n}\ns := S{$0, 1}\nt := S{G: 2}\np := &S{F: $1}\nO(s, t, p)\n"},
			{"slice-of-struct-elided", "type S struct {\nF $E\nG int\n}\ns := []S{{$0, 1}, {G: 2}, {}}\nO(s)\n"},
			{"slice-of-ptr-struct-elided", "type S struct {\nF $E\nG int\n}\ns := []*S{{$0, 1}, {F: $1}, nil}\nO(s)\ns[0].G = 5\nO(*s[0])\n"},
			{"array-of-ptr-struct-elided", "type S struct{ F $E }\na := [...]*S{{$0}, 2: {$1}}\nO(a, len(a))\n"},
			{"map-of-struct-elided", "type S struct {\nF $E\nG int\n}\nm := map[string]S{\"a\": {$0, 1}, \"b\": {G: 2}}\nO(m)\n"},
			{"map-of-ptr-struct-elided", "type S struct{ F $E }\nm := map[string]*S{\"a\": {$0}, \"b\": {F: $1}}\nO(m)\n"},
			{"map-struct-key-elided", "type K struct{ A, B int }\nm := map[K]$E{{1, 2}: $0, {B: 3}: $1}\nO(m, m[K{1, 2}], m[K{0, 3}])\n"},
			{"nested-struct", "type In struct{ F $E }\ntype Out struct {\nI In\nP *In\nL []In\nM map[string]In\nA [2]In\n}\no := Out{I: In{$0}, P: &In{$1}, L: []In{{$2}, {}}, M: map[string]In{\"k\": {$3}}, A: [2]In{1: {$4}}}\nO(o)\no.I.F = $5\no.P.F = $5\no.L[1].F = $5\no.A[0].F = $5\nO(o)\n"},
			{"embedded-struct-literal", "type In struct{ F $E }\ntype Out struct {\nIn\nG int\n}\no := Out{In{$0}, 1}\nq := Out{In: In{F: $1}}\nO(o, q, o.F, q.In.F)\n"},
			{"pointer-to-slice-literal", "p := &[]$E{$0, $1}\n(*p)[0] = $2\nO(*p, len(*p))\n"},
			{"pointer-to-array-literal", "p := &[2]$E{$0}\np[1] = $1\nO(*p, len(p))\n"},
			{"pointer-to-map-literal", "p := &map[string]$E{\"a\": $0}\n(*p)[\"b\"] = $1\nO(*p)\n"},
			{"named-slice-literal", "type L []$E\nl := L{$0, 2: $1}\np := &L{$2}\nO(l, p, len(l))\n"},
			{"named-array-literal", "type A [2]$E\na := A{$0}\nb := A{1: $1}\nO(a, b, a == b)\n"},
			{"named-map-literal", "type M map[string]$E\nm := M{\"a\": $0}\nO(m)\n"},
			{"literal-fresh-each-evaluation", "f := func() []$E { return []$E{$0, $1} }\na := f()\nb := f()\na[0] = $2\nO(a, b)\ng := func() *[1]$E { return &[1]$E{$0} }\np, q := g(), g()\np[0] = $3\nO(*p, *q, p == q)\n"},
			{"literal-elements-evaluated-in-order", "s := []int{Ti(1, 10), Ti(2, 20), Ti(3, 30)}\nm := [3]int{2: Ti(4, 1), 0: Ti(5, 2)}\nv := $0\nO(s, m, v)\n"},
			{"literal-with-variables", "v, w := $0, $1\na := [2]$E{w, v}\nv = $2\ns := []$E{v, w}\nm := map[string]$E{\"v\": v}\nw = $3\nO(a, s, m)\n"},
			{"literal-index-and-slice", "O([]$E{$0, $1}[1], [2]$E{$0, $1}[0], map[string]$E{\"a\": $2}[\"a\"], len([]$E{$0, $1, $2}), struct{ F $E }{$3}.F)\n"},
		} {
			g.addK(k, "lt", "literal|"+c.name, c.name, c.tpl)
		}
		for _, c := range []c08Case{
			{"array-duplicate-index", "a := [3]$E{1: $0, 1: $1}\nO(a)\n"},
			{"array-index-out-of-range", "a := [2]$E{2: $0}\nO(a)\n"},
			{"array-too-many", "a := [1]$E{$0, $1}\nO(a)\n"},
			{"array-keyed-then-overflow", "a := [2]$E{1: $0, $1}\nO(a)\n"},
			{"array-negative-index", "a := [2]$E{-1: $0}\nO(a)\n"},
			{"slice-non-const-index", "i := 1\ns := []$E{i: $0}\nO(s)\n"},
			{"slice-duplicate-after-positional", "s := []$E{$0, 0: $1}\nO(s)\n"},
			{"struct-unknown-field", "s := struct{ F $E }{Q: $0}\nO(s)\n"},
			{"struct-mixture", "s := struct {\nF $E\nG int\n}{F: $0, 1}\nO(s)\n"},
			{"struct-duplicate-field", "s := struct {\nF $E\nG int\n}{G: 1, G: 2}\nO(s)\n"},
			{"struct-too-few", "s := struct {\nF $E\nG int\n}{$0}\nO(s)\n"},
			{"struct-too-many", "s := struct {\nF $E\nG int\n}{$0, 1, 2}\nO(s)\n"},
			{"map-missing-key", "m := map[string]$E{$0}\nO(m)\n"},
			{"map-wrong-key-type", "m := map[string]$E{1: $0}\nO(m)\n"},
			{"elem-wrong-type", "type W struct{ Q bool }\ns := []$E{W{}}\nO(s)\n"},
			{"dots-outside-literal", "var a [...]$E\nO(a)\n"},
			{"literal-of-pointer-type", "p := *$E{}\nO(p)\n"},
			{"address-of-conversion", "type W struct{ Q bool }\np := &W(W{})\nO(p)\n"},
		} {
			g.addK(k, "lt", "literal|invalid|"+c.name, c.name, c.tpl)
		}
	}
	for _, c := range []c08Case{
		{"map-duplicate-const-key-int", "m := map[int]int{1: 1, 1: 2}\nO(m)\n"},
		{"map-duplicate-const-key-string", "m := map[string]int{\"a\": 1, \"a\": 2}\nO(m)\n"},
		{"map-duplicate-const-key-float", "m := map[float64]int{1.5: 1, 1.5: 2}\nO(m)\n"},
		{"map-duplicate-const-key-int8", "m := map[int8]int{1: 1, 1: 2}\nO(m)\n"},
		{"address-of-constant", "p := &5\nO(p)\n"},
		{"array-size-negative", "var a [-1]int\nO(a)\n"},
		{"array-size-variable", "n := 2\nvar a [n]int\nO(a)\n"},
	} {
		g.add("lt", "literal|invalid|"+c.name, c.name, c.tpl)
	}
	for _, c := range []c08Case{
		{"map-duplicate-non-const-keys-allowed", "a, b := 1, 1\nm := map[int]string{a: \"x\", b: \"y\"}\nO(len(m), m)\n"},
		{"array-size-const-expr", "const n = 2\nvar a [n + 1]int\nvar b [len(\"abcd\")]int8\nO(a, b, len(a), len(b))\n"},
		{"array-len-const-of-array", "var a [3]int\nconst n = len(a)\nvar b [n]string\nO(len(b), cap(a))\n"},
		{"byte-rune-slices-from-string", "b := []byte(\"h\\u00e9\")\nr := []rune(\"h\\u00e9\")\nOnc(b, r)\nO(string(b), string(r), len(b), len(r))\n"},
		{"dots-array-literal-as-element", "s := [][2]int{[...]int{9, 9}, {1}}\nm := map[string][1]string{\"a\": [...]string{\"x\"}}\nvar a [2]int = [...]int{3, 4}\nO(s, m, a)\n"},
		{"zero-size-array", "var a [0]int\nb := [0]int{}\nO(a, len(a), a == b, a[:])\n"},
	} {
		g.add("lt", "literal|"+c.name, c.name, c.tpl)
	}
}

func (g *c08Gen) genValueCopy() {
	for ki := range c08Kinds {
		k := &c08Kinds[ki]
		for _, c := range []c08Case{
			{"assign", "a := [3]$E{$0, $1, $2}\nb := a\nb[0] = $3\na[1] = $4\nO(a, b)\n"},
			{"assign-existing", "a := [2]$E{$0, $1}\nvar b [2]$E\nb = a\na[0] = $2\nO(a, b)\n"},
			{"pass-to-function", "a := [2]$E{$0, $1}\nf := func(x [2]$E) [2]$E {\nx[0] = $2\nreturn x\n}\nb := f(a)\nO(a, b)\n"},
			{"pass-pointer", "a := [2]$E{$0, $1}\nf := func(x *[2]$E) { x[0] = $2 }\nf(&a)\nO(a)\n"},
			{"return-from-closure", "a := [2]$E{$0, $1}\nf := func() [2]$E { return a }\nb := f()\nb[0] = $2\nO(a, b, f())\n"},
			{"range-copies-array", "a := [3]$E{$0, $1, $2}\nvar seen []$E\nfor i, v := range a {\nif i == 0 {\na[1] = $3\na[2] = $4\n}\nseen = append(seen, v)\n}\nOnc(seen)\nO(a)\n"},
			{"range-over-pointer-does-not-copy", "a := [3]$E{$0, $1, $2}\nvar seen []$E\nfor i, v := range &a {\nif i == 0 {\na[1] = $3\na[2] = $4\n}\nseen = append(seen, v)\n}\nOnc(seen)\n"},
			{"range-over-slice-does-not-copy", "a := [3]$E{$0, $1, $2}\nvar seen []$E\nfor i, v := range a[:] {\nif i == 0 {\na[1] = $3\n}\nseen = append(seen, v)\n}\nOnc(seen)\n"},
			{"in-struct", "type S struct {\nA [2]$E\nN int\n}\ns := S{[2]$E{$0, $1}, 1}\nt := s\nt.A[0] = $2\ns.A[1] = $3\nO(s, t)\n"},
			{"in-interface", "a := [2]$E{$0, $1}\nvar x interface{} = a\na[0] = $2\nb := x.([2]$E)\nb[1] = $3\nO(a, x, b)\n"},
			{"array-of-arrays", "a := [2][2]$E{{$0, $1}, {$2, $3}}\nb := a\nr := a[0]\nb[0][0] = $4\nr[1] = $5\nO(a, b, r)\n"},
			{"in-slice-elem", "s := [][2]$E{{$0, $1}}\ne := s[0]\ne[0] = $2\nO(s, e)\ns[0][1] = $3\nO(s, e)\n"},
			{"in-map-elem", "m := map[string][2]$E{\"a\": {$0, $1}}\ne := m[\"a\"]\ne[0] = $2\nO(m, e)\nm[\"a\"] = e\ne[1] = $3\nO(m, e)\n"},
			{"slice-aliases-array", "a := [3]$E{$0, $1, $2}\ns := a[:]\nb := a\ns[0] = $3\nO(a, b, s)\n"},
			{"pointer-aliases-array", "a := [2]$E{$0, $1}\np := &a\nb := *p\np[0] = $2\nO(a, b)\n"},
			{"struct-value-copy", "type S struct {\nF $E\nP *int\nL []$E\n}\nn := 1\ns := S{$0, &n, []$E{$1}}\nt := s\nt.F = $2\n*t.P = 2\nt.L[0] = $3\nO(s, t)\n"},
			{"compare-arrays", "a := [2]$E{$0, $1}\nb := a\nO(a == b, a != b)\nb[1] = $2\nO(a == b, a != b)\n"},
			{"compare-structs", "type S struct {\nF $E\nG int\n}\na := S{$0, 1}\nb := a\nO(a == b)\nb.F = $1\nO(a == b, a != b, a == S{$0, 1})\n"},
			{"swap-elements", "a := [3]$E{$0, $1, $2}\na[0], a[2] = a[2], a[0]\ns := a[:]\ns[0], s[1] = s[1], s[0]\nO(a)\n"},
			{"multi-assign-array-and-index", "a := [2]$E{$0, $1}\nb := [2]$E{$2, $3}\ni := 0\ni, a[i] = 1, $4\na, b = b, a\nO(a, b, i)\n"},
			{"closure-captures-array", "a := [2]$E{$0, $1}\nf := func() { a[0] = $2 }\nb := a\nf()\nO(a, b)\n"},
			{"defer-sees-copy", "a := [2]$E{$0, $1}\nfunc() {\ndefer O(a)\na[0] = $2\n}()\nO(a)\n"},
			{"channel-send-copies", "a := [2]$E{$0, $1}\nc := make(chan [2]$E, 1)\nc <- a\na[0] = $2\nb := <-c\nO(a, b)\n"},
			{"append-copies-array-elem", "a := [2]$E{$0, $1}\ns := append([][2]$E(nil), a)\na[0] = $2\nOnc(s, a)\n"},
			{"zero-value-array", "var a [2]$E\nvar z $E\nO(a, a[0] == z, a == [2]$E{})\n"},
		} {
			g.addK(k, "vc", "valuecopy|"+c.name, c.name, c.tpl)
		}
	}
}

func (g *c08Gen) genNil() {
	for ki := range c08Kinds {
		k := &c08Kinds[ki]
		for _, c := range []c08Case{
			{"deref-read", "var p *$E\nSite(1, func() {\nO(*p)\n})\n"},
			{"deref-write", "var p *$E\nSite(1, func() {\n*p = $0\n})\nO(p == nil)\n"},
			{"deref-copy", "var p *$E\nSite(1, func() {\nv := *p\nO(v)\n})\n"},
			{"struct-field-read", "var p *struct {\nF $E\nG int\n}\nSite(1, func() {\nO(p.F)\n})\nSite(2, func() {\nO(p.G)\n})\n"},
			{"struct-field-write", "var p *struct {\nF $E\nG int\n}\nSite(1, func() {\np.F = $0\n})\nSite(2, func() {\np.G++\n})\nO(p == nil)\n"},
			{"struct-field-address", "var p *struct {\nG int\nF $E\n}\nSite(1, func() {\nq := &p.F\nO(q == nil)\n})\n"},
			{"array-ptr-index", "var p *[3]$E\ni := 1\nSite(1, func() {\nO(p[i])\n})\nSite(2, func() {\np[0] = $0\n})\nO(len(p), cap(p))\n"},
			{"array-ptr-range-index-only", "var p *[3]$E\nn := 0\nfor i := range p {\nn += i\n}\nO(n)\n"},
			{"array-ptr-range-value", "var p *[3]$E\nSite(1, func() {\nfor _, v := range p {\nO(v)\n}\n})\n"},
			{"array-ptr-slice", "var p *[3]$E\nSite(1, func() {\ns := p[:]\nO(len(s))\n})\n"},
			{"nested-pointer-field", "type In struct{ F $E }\ntype Out struct {\nP *In\nN int\n}\no := Out{}\nSite(1, func() {\nO(o.P.F)\n})\nSite(2, func() {\no.P.F = $0\n})\nvar po *Out\nSite(3, func() {\nO(po.P)\n})\no.P = &In{$1}\nO(o.P.F)\n"},
			{"pointer-to-pointer", "var pp **$E\nSite(1, func() {\nO(*pp == nil)\n})\nvar p *$E\npp = &p\nO(*pp == nil)\nSite(2, func() {\nO(**pp)\n})\nv := $0\np = &v\nO(**pp)\n"},
			{"nil-slice-ops", "var s []$E\nO(len(s), cap(s), s == nil)\nfor range s {\nO(\"never\")\n}\nO(s[:], s[0:0], s[:0:0])\nSite(1, func() {\nO(s[0])\n})\nSite(2, func() {\ns[0] = $0\n})\n"},
			{"nil-func-call", "var f func() $E\nSite(1, func() {\nO(f())\n})\nO(f == nil)\n"},
			{"nil-interface-assert", "var x interface{}\nSite(1, func() {\nO(x.($E))\n})\nv, ok := x.($E)\nO(v, ok)\n"},
			{"nil-ptr-in-slice", "s := []*$E{nil}\nSite(1, func() {\nO(*s[0])\n})\nv := $0\ns[0] = &v\nO(*s[0])\n"},
			{"nil-ptr-in-map", "m := map[string]*$E{}\nSite(1, func() {\nO(*m[\"a\"])\n})\n"},
			{"after-set-nil", "v := $0\np := &v\nO(*p)\np = nil\nSite(1, func() {\nO(*p)\n})\n"},
			{"pointer-equality", "v, w := $0, $0\np, q, r := &v, &w, &v\nvar n *$E\nO(p == q, p == r, p != nil, n == nil, *p == *q)\n"},
		} {
			g.addK(k, "nl", "nil|"+c.name, c.name, c.tpl)
		}
	}
	for _, c := range []c08Case{
		{"nil-deref-untyped", "O(*nil)\n"},
		{"deref-non-pointer", "x := 5\nO(*x)\n"},
		{"nil-compare-array", "var a [2]int\nO(a == nil)\n"},
		{"nil-assign-struct", "var s struct{ A int }\ns = nil\nO(s)\n"},
		{"field-of-pointer-to-pointer", "type S struct{ A int }\ns := &S{1}\npp := &s\nO(pp.A)\n"},
		{"index-pointer-to-pointer-array", "a := &[2]int{1, 2}\npp := &a\nO(pp[0])\n"},
		{"compare-slices", "a, b := []int{1}, []int{1}\nO(a == b)\n"},
		{"compare-struct-with-slice", "type S struct{ L []int }\nO(S{} == S{})\n"},
		{"compare-func", "f := func() {}\ng := f\nO(f == g)\n"},
	} {
		g.add("nl", "nil|invalid|"+c.name, c.name, c.tpl)
	}
}

func (g *c08Gen) genStructPtr() {
	for ki := range c08Kinds {
		k := &c08Kinds[ki]
		for _, c := range []c08Case{
			{"field-read-write", "type S struct {\nF $E\nG int\n}\nvar s S\ns.F = $0\ns.G = 2\np := &s\np.F = $1\n(*p).G++\nO(s, p.F, s.G)\n"},
			{"field-address", "type S struct {\nG int\nF $E\n}\ns := S{1, $0}\nq := &s.F\n*q = $1\ng := &s.G\n*g += 5\nO(s, *q)\n"},
			{"array-elem-address", "a := [3]$E{$0, $1, $2}\nq := &a[1]\n*q = $3\nb := a\n*q = $4\nO(a, b, *q)\n"},
			{"slice-elem-address-across-append", "s := make([]$E, 2, 3)\ns[0], s[1] = $0, $1\nq := &s[0]\ns = append(s, $2)\n*q = $3\nO(s[0])\ns = append(s, $4)\n*q = $5\nO(s[0], *q)\n"},
			{"elem-of-struct-array", "type S struct {\nF $E\nG int\n}\na := [2]S{{$0, 1}, {$1, 2}}\na[1].F = $2\na[0].G += 10\ns := a[:]\ns[0].F = $3\np := &a[1]\np.G = 7\nO(a)\n"},
			{"slice-of-pointers", "type S struct{ F $E }\nx, y := S{$0}, S{$1}\ns := []*S{&x, &y, &x}\ns[2].F = $2\nO(x, y, s[0] == s[2], s[0] == s[1])\n"},
			{"struct-with-all-containers", "type S struct {\nA [2]$E\nL []$E\nM map[string]$E\nP *$E\nI interface{}\n}\nv := $0\ns := S{A: [2]$E{$1}, L: []$E{$2}, M: map[string]$E{\"k\": $3}, P: &v, I: $4}\nt := s\nt.A[0] = $5\nt.L[0] = $5\nt.M[\"k\"] = $5\n*t.P = $5\nt.I = 0\nO(s)\nO(t)\n"},
			{"nested-field-places", "type In struct{ F $E }\ntype Mid struct {\nI In\nP *In\n}\ntype Out struct {\nM Mid\nQ *Mid\n}\no := Out{M: Mid{P: &In{}}, Q: &Mid{P: &In{}}}\no.M.I.F = $0\no.M.P.F = $1\no.Q.I.F = $2\no.Q.P.F = $3\nO(o)\nr := &o.Q.P.F\n*r = $4\nO(o.Q.P.F)\n"},
			{"pointer-receiver-like-update", "type S struct{ F $E }\nset := func(p *S, v $E) { p.F = v }\nget := func(s S) $E { return s.F }\nvar s S\nset(&s, $0)\nO(get(s))\na := []S{{$1}}\nset(&a[0], $2)\nO(a)\nm := map[string]*S{\"k\": {$3}}\nset(m[\"k\"], $4)\nO(m)\n"},
			{"anonymous-struct-identical-types", "a := struct {\nF $E\nG int\n}{$0, 1}\nvar b struct {\nF $E\nG int\n}\nb = a\nb.G = 2\nO(a, b, a == b)\n"},
			{"pointer-chain", "v := $0\np := &v\npp := &p\nppp := &pp\n***ppp = $1\nO(v, **pp == v, *p)\nw := $2\n*pp = &w\nO(*p, **pp, v)\n"},
			{"pointer-to-array-elem-after-copy", "a := [2]$E{$0, $1}\np := &a[0]\nb := a\n*p = $2\nO(a, b)\n"},
			{"pointer-to-struct-in-array-range", "type S struct{ F $E }\na := [2]S{{$0}, {$1}}\nfor i := range a {\np := &a[i]\np.F = $2\n}\nfor _, e := range a {\ne.F = $3\n}\nO(a)\n"},
			{"blank-field-and-padding", "type S struct {\nA int8\n_ int\nF $E\nB bool\n}\ns := S{A: 1, F: $0, B: true}\nt := s\nt.A = 2\nO(s.A, s.F, s.B, t.A, t.F)\n"},
			{"interface-holding-pointer", "type S struct{ F $E }\ns := S{$0}\nvar x interface{} = &s\ns.F = $1\nO(x.(*S).F, x)\nx.(*S).F = $2\nO(s)\n"},
			{"interface-holding-value", "type S struct{ F $E }\ns := S{$0}\nvar x interface{} = s\ns.F = $1\nO(x.(S).F, x, s)\n"},
			{"new-then-fields", "type S struct {\nF $E\nL []$E\n}\np := new(S)\np.F = $0\np.L = append(p.L, $1)\nq := p\nq.F = $2\nOnc(*p)\n"},
			{"struct-return-value-field", "type S struct{ F $E }\nmk := func() S { return S{$0} }\nmp := func() *S { return &S{$1} }\nO(mk().F, mp().F)\nmp().F = $2\n"},
		} {
			g.addK(k, "sp", "struct-ptr|"+c.name, c.name, c.tpl)
		}
		for _, c := range []c08Case{
			{"assign-field-of-return-value", "type S struct{ F $E }\nmk := func() S { return S{$0} }\nmk().F = $1\n"},
			{"address-of-return-value", "type S struct{ F $E }\nmk := func() S { return S{$0} }\np := &mk()\nO(p)\n"},
			{"address-of-return-value-field", "type S struct{ F $E }\nmk := func() S { return S{$0} }\np := &mk().F\nO(p)\n"},
			{"unknown-field", "type S struct{ F $E }\ns := S{}\nO(s.Q)\n"},
			{"field-of-non-struct", "v := $0\nO(v.Nope)\n"},
			{"assign-wrong-type-to-field", "type W struct{ Q bool }\ntype S struct{ F $E }\nvar s S\ns.F = W{}\nO(s)\n"},
			{"duplicate-field", "type S struct {\nF $E\nF int\n}\nO(S{})\n"},
		} {
			g.addK(k, "sp", "struct-ptr|invalid|"+c.name, c.name, c.tpl)
		}
	}
}
