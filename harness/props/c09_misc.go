package props

// C09, second part: named non-struct types with methods, interfaces embedding interfaces (qualified and
// unqualified), structs embedding interfaces and named non-struct types, assertions / type switches over the full
// source × target product (interface targets only for operands holding compiled types: documented limitation).

import (
	"fmt"
	"go/types"
	"strings"

	"verif/harness/oracle"
)

type oracleProg = oracle.Prog

func (g *c09Gen) addSimple(id, desc string, imports []string, decls string, sites []c09Site) {
	at := func(s, id string) string { return strings.ReplaceAll(s, "@", id) }
	g.addGroup(&c09Group{id: id, desc: desc, imports: imports,
		decls:  func(id string) string { return at(decls, id) },
		sites:  sites,
		render: func(st *c09Site, id string) string { return at(st.code, id) },
		sigOf:  func(st *c09Site, pkg *types.Package) string { return "C09|" + st.kind },
	})
}

type c09Under struct {
	name, typ, val, val2 string
	mBody, pBody         string
}

func (g *c09Gen) genMisc() {
	// ---- named non-struct types
	unders := []c09Under{
		{"int", "int", "N@(5)", "N@(40)", "return int(n) + 1", "*n += 10\nreturn int(*n)"},
		{"string", "string", "N@(\"ab\")", "N@(\"wxyz\")", "return len(n)", "*n += \"x\"\nreturn len(*n)"},
		{"float64", "float64", "N@(1.5)", "N@(8)", "return int(n * 2)", "*n *= 2\nreturn int(*n)"},
		{"slice", "[]int", "N@{1, 2}", "N@{7, 8, 9, 10}", "return len(n)", "*n = append(*n, 7)\nreturn len(*n)"},
		{"map", "map[string]int", "N@{\"a\": 1}", "N@{\"a\": 1, \"b\": 2, \"c\": 3}", "return len(n)", "(*n)[\"p\"] = 1\nreturn len(*n)"},
		{"array", "[2]int", "N@{3, 4}", "N@{30, 40}", "return n[0]", "n[0] += 10\nreturn n[0]"},
		{"func", "func() int", "N@(func() int { return 9 })", "N@(func() int { return 90 })", "return n()", "old := *n\n*n = func() int { return old() + 1 }\nreturn (*n)()"},
		{"chan", "chan int", "make(N@, 1)", "make(N@, 4)", "return cap(n)", "*n = make(N@, cap(*n)+1)\nreturn cap(*n)"},
		{"bool", "bool", "N@(true)", "N@(false)", "if n {\nreturn 1\n}\nreturn 0", "*n = !*n\nif *n {\nreturn 1\n}\nreturn 0"},
	}
	for ui, u := range unders {
		for mi, mem := range []string{"MP", "M", "P"} {
			decls := "type N@ " + u.typ + "\n"
			if strings.Contains(mem, "M") {
				decls += "func (n N@) M() int {\n" + u.mBody + "\n}\n"
			}
			if strings.Contains(mem, "P") {
				decls += "func (n *N@) P() int {\n" + u.pBody + "\n}\n"
			}
			decls += "type I@ interface{ M() int }\ntype J@ interface {\nM() int\nP() int\n}\n"
			pre := "n := " + u.val + "\npn := &n\n_ = pn\n"
			obs := "O(n)"
			if u.name == "func" {
				obs = "O(n())"
			}
			sites := []c09Site{
				{"nonstruct|n.M()", "", false, pre + "O(n.M())"},
				{"nonstruct|pn.M()", "", false, pre + "O(pn.M())"},
				{"nonstruct|rvalue.M()", "", false, "O(" + u.val + ".M())"},
				{"nonstruct|n.P()", "", false, pre + "r := n.P()\nO(r)\n" + obs},
				{"nonstruct|pn.P()", "", false, pre + "r := pn.P()\nO(r)\n" + obs},
				{"nonstruct|rvalue.P()", "", false, "O(" + u.val + ".P())"},
				{"nonstruct|methodvalue-n.M", "", false, pre + "f := n.M\nn = " + u.val2 + "\nO(f())"},
				{"nonstruct|methodvalue-pn.M", "", false, pre + "f := pn.M\n*pn = " + u.val2 + "\nO(f())"},
				{"nonstruct|methodvalue-n.P", "", false, pre + "f := n.P\nn = " + u.val2 + "\nr := f()\nO(r)\n" + obs},
				{"nonstruct|methodexpr-N.M", "", false, pre + "f := N@.M\nO(f(n))"},
				{"nonstruct|methodexpr-(*N).M", "", false, pre + "f := (*N@).M\nO(f(pn))"},
				{"nonstruct|methodexpr-(*N).P", "", false, pre + "f := (*N@).P\nr := f(pn)\nO(r)\n" + obs},
				{"nonstruct|methodexpr-N.P", "", false, pre + "f := N@.P\nO(f(n))"},
				{"nonstruct|I=n", "", false, pre + "var i I@ = n\nn = " + u.val2 + "\nO(i.M())"},
				{"nonstruct|I=pn", "", false, pre + "var i I@ = pn\n*pn = " + u.val2 + "\nO(i.M())"},
				{"nonstruct|J=pn", "", false, pre + "var j J@ = pn\nr := j.P()\nq := j.M()\nO(r, q)\n" + obs},
				{"nonstruct|J=n", "", false, pre + "var j J@ = n\nO(j.M())"},
				{"nonstruct|assert", "", false, pre + "var x interface{} = n\n_, ok := x.(N@)\n_, ok2 := x.(*N@)\n_, ok3 := x.(struct{ Q int })\nO(ok, ok2, ok3)\nx = pn\n_, ok = x.(N@)\n_, ok2 = x.(*N@)\nO(ok, ok2)"},
				{"nonstruct|typeswitch", "", false, pre + "for _, x := range []interface{}{n, pn, 1.5i, nil} {\nswitch x.(type) {\ncase complex128:\nO(\"complex\")\ncase *N@:\nO(\"*N\")\ncase N@:\nO(\"N\")\ncase nil:\nO(\"nil\")\n}\n}"},
				{"nonstruct|convert-and-call", "", false, "var under " + u.typ + "\nO(N@(under).M())"},
				{"nonstruct|I-assert-back", "", false, pre + "var i I@ = n\nw, ok := i.(N@)\n_ = w\nO(ok)"},
			}
			g.addSimple(fmt.Sprintf("n%d_%d", ui, mi), "named "+u.name+" with "+mem, nil, decls, sites)
		}
	}
	// declarations Go rejects: methods on pointer / interface named types, duplicate method, method and field of the same name
	for i, bad := range []struct{ name, decls string }{
		{"method-on-named-pointer", "type NP@ *int\nfunc (n NP@) M() int { return 0 }\n"},
		{"method-on-named-interface", "type NI@ interface{}\nfunc (n NI@) M() int { return 0 }\n"},
		{"duplicate-method", "type ND@ int\nfunc (n ND@) M() int { return 0 }\nfunc (n *ND@) M() int { return 1 }\n"},
		{"field-and-method-same-name", "type NF@ struct{ M int }\nfunc (n NF@) M() int { return 0 }\n"},
		{"method-on-builtin", "func (n int) M@() int { return 0 }\n"},
		{"method-on-unnamed-struct", "func (n struct{ A int }) M@() int { return 0 }\n"},
		{"embedded-pointer-to-pointer", "type A@ struct{ V int }\ntype PA@ *A@\ntype B@ struct{ *PA@ }\n"},
		{"duplicate-embedded", "type A@ struct{ V int }\ntype B@ struct {\nA@\n*A@\n}\n"},
		{"interface-duplicate-method", "type I@ interface {\nM() int\nM() int\n}\n"},
	} {
		id := fmt.Sprintf("nb%d", i)
		g.mu.Lock()
		g.progs = append(g.progs, progAt(id, "// sig: C09|invalid-decl|"+bad.name+"|go-rejects\n", bad.decls, "O(1)\n", nil))
		g.mu.Unlock()
	}

	// ---- interfaces embedding interfaces
	base := "type T0@ struct{ V0 int }\nfunc (t T0@) M() int { return 100 + t.V0 }\nfunc (t *T0@) P() int {\nt.V0 += 10\nreturn 1000 + t.V0\n}\nfunc (t T0@) String() string { return \"str\" }\n" +
		"type I@ interface{ M() int }\ntype Q@ interface{ P() int }\n"
	pre := "v := T0@{1}\npv := &v\n_ = pv\n"
	for i, k := range []struct{ name, idecl, use string }{
		{"unqualified+method", "type R@ interface {\nI@\nP() int\n}\n", ""},
		{"method+unqualified", "type R@ interface {\nP() int\nI@\n}\n", ""},
		{"two-unqualified", "type R@ interface {\nI@\nQ@\n}\n", ""},
		{"only-unqualified", "type R@ interface{ I@ }\ntype Unused@ interface{ Q@ }\n", "M"},
		{"qualified+method", "type R@ interface {\nfmt.Stringer\nM() int\nP() int\n}\n", "S"},
		{"nested-unqualified", "type R1@ interface {\nI@\nQ@\n}\ntype R@ interface {\nR1@\nString() string\n}\n", "S"},
		{"overlapping-embedded", "type I2@ interface {\nM() int\nP() int\n}\ntype R@ interface {\nI@\nI2@\n}\n", ""},
		{"qualified-error+unqualified", "type R@ interface {\nI@\nfmt.Stringer\nP() int\n}\n", "S"},
	} {
		sites := []c09Site{
			{"iface-embed|R=pv", "", false, pre + "var r R@ = pv\nO(r.M())"},
			{"iface-embed|R=v", "", false, pre + "var r R@ = v\nO(r.M())"},
			{"iface-embed|R-to-I", "", false, pre + "var r R@ = pv\nvar i I@ = r\nO(i.M())"},
			{"iface-embed|R-assert-back", "", false, pre + "var r R@ = pv\nw, ok := r.(*T0@)\nO(ok, w == pv)"},
			{"iface-embed|R-nil", "", false, "var r R@\nO(r == nil)"},
		}
		if k.use != "M" {
			sites = append(sites, c09Site{"iface-embed|R.P()", "", false, pre + "var r R@ = pv\nq := r.P()\nO(q, v)"})
		}
		if k.use == "S" {
			sites = append(sites, c09Site{"iface-embed|R.String()", "", false, pre + "var r R@ = pv\nO(r.String())"},
				c09Site{"iface-embed|R-to-Stringer", "", false, pre + "var r R@ = pv\nvar s fmt.Stringer = r\nO(s.String())"})
		}
		g.addSimple(fmt.Sprintf("k%d", i), "interface embedding: "+k.name, []string{"fmt"}, base+k.idecl, c09Tag(sites, k.name))
	}

	// ---- interfaces embedding interfaces, second part: explicit methods whose names sort before, after and on both
	// sides of the embedded methods and whose signatures differ from theirs (the emulated interface stores one
	// closure per method: an order mismatch between the closures and the sorted method set swaps methods — invisible
	// when the swapped methods have the same signature and are both called)
	base2 := "type T0@ struct{ V0 int }\nfunc (t T0@) M() int { return 100 + t.V0 }\nfunc (t T0@) N(x int) int { return x + t.V0 }\n" +
		"func (t T0@) A() string { return \"a\" }\nfunc (t T0@) Ma() string { return \"ma\" }\nfunc (t T0@) Z() string { return \"z\" }\nfunc (t *T0@) Y() bool {\nt.V0++\nreturn true\n}\n" +
		"type I@ interface{ M() int }\ntype I2@ interface {\nM() int\nN(int) int\n}\n"
	for i, k := range []struct{ name, idecl, calls string }{
		{"explicit-after", "type R@ interface {\nI@\nZ() string\n}\n", "r.M(), r.Z()"},
		{"explicit-before", "type R@ interface {\nI@\nA() string\n}\n", "r.A(), r.M()"},
		{"explicit-both-sides", "type R@ interface {\nZ() string\nI@\nA() string\n}\n", "r.A(), r.M(), r.Z()"},
		{"explicit-between", "type R@ interface {\nI2@\nMa() string\n}\n", "r.M(), r.Ma(), r.N(5)"},
		{"two-embedded-methods+explicit-after", "type R@ interface {\nI2@\nZ() string\nY() bool\n}\n", "r.M(), r.N(5), r.Y(), r.Z()"},
	} {
		sites := []c09Site{
			{"iface-embed2|R=pv-call-all", "", false, pre + "var r R@ = pv\nO(" + k.calls + ")"},
			{"iface-embed2|R=pv-call-last-only", "", false, pre + "var r R@ = pv\nO(" + k.calls[strings.LastIndex(k.calls, " ")+1:] + ")"},
			{"iface-embed2|R-methodvalue", "", false, pre + "var r R@ = pv\nf := r.M\nO(f())"},
			{"iface-embed2|R-assert-back", "", false, pre + "var r R@ = pv\nw, ok := r.(*T0@)\nO(ok, w == pv)"},
			{"iface-embed2|R-param", "", false, pre + "f := func(r R@) int { return r.M() }\nO(f(pv))"},
		}
		if !strings.Contains(k.calls, "r.Y()") {
			sites = append(sites, c09Site{"iface-embed2|R=v-call-all", "", false, pre + "var r R@ = v\nO(" + k.calls + ")"})
		}
		g.addSimple(fmt.Sprintf("kz%d", i), "interface embedding, method order: "+k.name, nil, base2+k.idecl, c09Tag(sites, k.name))
	}

	// ---- structs embedding interfaces and named non-struct types
	edecl := "type I@ interface{ M() int }\ntype J@ interface {\nM() int\nP() int\n}\n" +
		"type A@ struct{ V int }\nfunc (a A@) M() int { return 100 + a.V }\n" +
		"type B@ struct{ V int }\nfunc (b *B@) M() int { return 200 + b.V }\nfunc (b *B@) P() int {\nb.V += 10\nreturn 2000 + b.V\n}\n" +
		"type N@ int\nfunc (n N@) M() int { return int(n) + 1 }\nfunc (n *N@) P() int {\n*n += 10\nreturn int(*n)\n}\n" +
		"type W@ struct {\nI@\nK int\n}\n" +
		"type WJ@ struct{ J@ }\n" +
		"type WS@ struct{ fmt.Stringer }\n" +
		"type WE@ struct {\nerror\nCode int\n}\n" +
		"type WN@ struct {\nN@\nK int\n}\n" +
		"type WPN@ struct{ *N@ }\n" +
		"type WW@ struct{ W@ }\n" +
		"type Amb@ struct {\nW@\nWN@\n}\n"
	esites := []c09Site{
		{"embed-iface|W.M()", "", false, "w := W@{I@: A@{1}, K: 2}\nO(w.M(), w.K)"},
		{"embed-iface|W-as-I", "", false, "w := W@{I@: A@{1}}\nvar i I@ = w\nvar pi I@ = &w\nO(i.M(), pi.M())"},
		{"embed-iface|W-holding-pointer", "", false, "b := &B@{5}\nw := W@{I@: b}\nb.V = 6\nO(w.M())"},
		{"embed-iface|W-nil-embedded", "", false, "w := W@{K: 1}\nO(w.I@ == nil)\nO(w.M())"},
		{"embed-iface|W-methodvalue", "", false, "w := W@{I@: A@{1}}\nf := w.M\nw.I@ = A@{9}\nO(f(), w.M())"},
		{"embed-iface|W-methodexpr", "", false, "w := W@{I@: A@{1}}\nf := W@.M\nO(f(w))"},
		{"embed-iface|WJ-as-J", "", false, "b := &B@{5}\nw := WJ@{b}\nvar j J@ = w\nr := j.P()\nO(r, j.M(), b.V)"},
		{"embed-iface|WJ.P()-on-rvalue", "", false, "b := &B@{5}\nr := WJ@{b}.P()\nO(r, b.V)"},
		{"embed-iface|WW-depth2", "", false, "w := WW@{W@{I@: A@{3}, K: 4}}\nvar i I@ = w\nO(w.M(), w.K, i.M())"},
		{"embed-iface|W-as-J-rejected", "", false, "w := W@{I@: A@{1}}\nvar j J@ = w\nO(j.M())"},
		{"embed-iface|WS-compiled", "", false, "ws := WS@{time.Duration(5)}\nO(ws.String())\nvar s fmt.Stringer = ws\nO(s.String())"},
		{"embed-iface|WE-compiled", "", false, "we := WE@{errors.New(\"boom\"), 3}\nO(we.Error(), we.Code)\nvar e error = we\nO(e.Error())\nw2, ok := e.(WE@)\nO(ok, w2.Code)"},
		{"embed-iface|WE-nil", "", false, "var we WE@\nO(we.error == nil)\nO(we.Error())"},
		{"embed-nonstruct|WN.M()", "", false, "w := WN@{5, 1}\nO(w.M(), w.N@)"},
		{"embed-nonstruct|WN.P()", "", false, "w := WN@{5, 1}\nr := w.P()\nO(r, w)"},
		{"embed-nonstruct|WN-as-I-J", "", false, "w := WN@{5, 1}\nvar i I@ = w\nvar j J@ = &w\nr := j.P()\nO(i.M(), r, w)"},
		{"embed-nonstruct|WN-as-J-rejected", "", false, "w := WN@{5, 1}\nvar j J@ = w\nO(j.M())"},
		{"embed-nonstruct|WPN", "", false, "n := N@(7)\nw := WPN@{&n}\nvar j J@ = w\nr := j.P()\nO(r, n, w.M())"},
		{"embed-nonstruct|WPN-nil", "", false, "var w WPN@\nO(w.N@ == nil)\nO(w.M())"},
		{"embed-ambiguous|Amb.M", "", false, "a := Amb@{}\nO(a.M())"},
		{"embed-ambiguous|Amb.K", "", false, "a := Amb@{}\nO(a.K)"},
		{"embed-ambiguous|Amb-as-I", "", false, "a := Amb@{}\nvar i I@ = a\nO(i == nil)"},
		{"embed-ambiguous|Amb-explicit", "", false, "a := Amb@{W@: W@{I@: A@{1}, K: 2}, WN@: WN@{5, 6}}\nO(a.W@.M(), a.WN@.M(), a.W@.K, a.WN@.K)"},
	}
	g.addSimple("e0", "structs embedding interfaces / named non-struct types", []string{"errors", "fmt", "time"}, edecl, esites)

	// ---- assertions and type switches: full source × target product on a small hierarchy
	adecl := "type T1@ struct{ V1 int }\nfunc (t T1@) M() int { return 200 + t.V1 }\n" +
		"type T0@ struct {\nV0 int\nT1@\n}\nfunc (t *T0@) P() int { return 1000 + t.V0 }\n" +
		"type N@ uint16\nfunc (n N@) String() string { return \"N\" }\n"
	srcs := []struct {
		name, expr string
		compiled   bool
	}{
		{"T0", "T0@{1, T1@{2}}", false},
		{"*T0", "&T0@{1, T1@{2}}", false},
		{"T1", "T1@{2}", false},
		{"N", "N@(3)", false},
		{"int", "7", true},
		{"string", "\"s\"", true},
		{"nil", "nil", true},
		{"nil-*T0", "(*T0@)(nil)", false},
		{"Duration", "time.Duration(5)", true},
		{"error", "errors.New(\"e\")", true},
		{"[]int", "[]int{1}", true},
	}
	tgts := []struct {
		name, typ string
		iface     bool
	}{
		{"T0", "T0@", false}, {"*T0", "*T0@", false}, {"T1", "T1@", false}, {"N", "N@", false}, {"int", "int", false}, {"string", "string", false},
		{"[]int", "[]int", false}, {"Duration", "time.Duration", false},
		{"error", "error", true}, {"Stringer", "fmt.Stringer", true}, {"empty-interface", "interface{}", true},
	}
	var asites []c09Site
	for _, s := range srcs {
		for _, t := range tgts {
			if t.iface && !s.compiled {
				continue // interface target with an interpreted dynamic type: documented limitation
			}
			x := "var x interface{} = " + s.expr + "\n"
			if s.name == "nil" {
				x = "var x interface{}\n"
			}
			asites = append(asites,
				c09Site{"assert-product|comma-ok|" + s.name + "->" + t.name, "", false, x + "w, ok := x.(" + t.typ + ")\nO(ok, w)"},
				c09Site{"assert-product|panicking|" + s.name + "->" + t.name, "", false, x + "w := x.(" + t.typ + ")\nO(w)"})
		}
	}
	g.addSimple("a0", "assertion product", []string{"errors", "fmt", "time"}, adecl, asites)
	// type switches: every rotation of the case list {T0, *T0, int, nil, Stringer, default} × every source
	cases := []struct{ name, head, body string }{
		{"T0", "case T0@:", "O(\"T0\", y.V0, y.M())"},
		{"*T0", "case *T0@:", "O(\"*T0\", y == nil)"},
		{"int", "case int:", "O(\"int\", y+1)"},
		{"nil", "case nil:", "O(\"nil\", y)"},
		{"Stringer", "case fmt.Stringer:", "O(\"Stringer\", y.String())"},
		{"default", "default:", "O(\"default\", y)"},
	}
	var ssites []c09Site
	for rot := 0; rot < len(cases); rot++ {
		for _, s := range srcs {
			// the Stringer case is reached only if no earlier case matches: with an interpreted dynamic type that is the
			// documented limitation, so for those sources the switch must match a concrete case before Stringer, or omit it
			var sw strings.Builder
			sw.WriteString("switch y := x.(type) {\n")
			skipStringer := !s.compiled
			for i := 0; i < len(cases); i++ {
				c := cases[(i+rot)%len(cases)]
				if c.name == "Stringer" && skipStringer {
					continue
				}
				sw.WriteString(c.head + "\n" + c.body + "\n")
			}
			sw.WriteString("}")
			x := "var x interface{} = " + s.expr + "\n"
			if s.name == "nil" {
				x = "var x interface{}\n"
			}
			ssites = append(ssites, c09Site{fmt.Sprintf("typeswitch-product|rot%d|%s", rot, s.name), "", false, x + sw.String()})
		}
	}
	// no binding, multi-type cases, duplicate-free fallthrough-less forms
	for _, s := range srcs {
		x := "var x interface{} = " + s.expr + "\n"
		if s.name == "nil" {
			x = "var x interface{}\n"
		}
		ssites = append(ssites,
			c09Site{"typeswitch-product|nobind|" + s.name, "", false, x + "switch x.(type) {\ncase T0@, *T0@:\nO(\"T0-or-*T0\")\ncase int, string:\nO(\"int-or-string\")\ncase nil:\nO(\"nil\")\ncase T1@:\nO(\"T1\")\ndefault:\nO(\"default\")\n}"},
			c09Site{"typeswitch-product|multi-bind|" + s.name, "", false, x + "switch y := x.(type) {\ncase T1@, N@:\nO(\"T1-or-N\", y)\ncase nil, int:\nO(\"nil-or-int\", y)\ncase *T0@:\nO(\"*T0\", y == nil)\n}"},
			c09Site{"typeswitch-product|init-stmt|" + s.name, "", false, x + "switch z := 1; y := x.(type) {\ncase T0@:\nO(z, y.V0)\ncase int:\nO(z, y)\ndefault:\nO(z)\n}"},
		)
	}
	ssites = append(ssites,
		c09Site{"typeswitch-product|duplicate-case", "", false, "var x interface{} = 1\nswitch x.(type) {\ncase int:\nO(1)\ncase int:\nO(2)\n}"},
		c09Site{"typeswitch-product|impossible-case", "", false, "var e error\nswitch e.(type) {\ncase T1@:\nO(1)\n}"},
		c09Site{"typeswitch-product|non-interface-operand", "", false, "x := 1\nswitch x.(type) {\ncase int:\nO(1)\n}"},
		c09Site{"typeswitch-product|unused-binding-ok", "", false, "var x interface{} = 1\nswitch x.(type) {\ncase int:\nO(\"int\")\n}"},
		c09Site{"assert-product|non-interface-operand", "", false, "x := 1\nO(x.(int))"},
		c09Site{"assert-product|impossible", "", false, "var e error\n_, ok := e.(T1@)\nO(ok)"},
	)
	g.addSimple("s0", "type switch product", []string{"errors", "fmt", "time"}, adecl, ssites)
}

// c09Tag appends a variant tag to the signature class of every site.
func c09Tag(sites []c09Site, tag string) []c09Site {
	out := make([]c09Site, len(sites))
	for i, s := range sites {
		s.kind += "|" + tag
		out[i] = s
	}
	return out
}

func progAt(id, header, decls, body string, imports []string) (p oracleProg) {
	p.ID = id
	p.Decls = strings.ReplaceAll(decls, "@", id)
	p.Body = header + strings.ReplaceAll(body, "@", id)
	p.Imports = imports
	return
}
