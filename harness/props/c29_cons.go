package props

// C29 — composites built with the universe constructors ArrayOf/ChanOf/MapOf/PtrTo/SliceOf/FuncOf/StructOf/NamedOf
// to depth 2 over 8 base types. Every term carries (a) the xreflect construction and (b) an independent construction of
// the expected reflect.Type with reflect's own constructors (nil when reflect cannot express the type: named types
// created at run time, unexported or embedded struct fields — those are the emulated types, checked for canonicity and
// self-consistency only).

import (
	"fmt"
	r "reflect"
	"sort"
	"strings"
	"time"

	xr "github.com/cosmos72/gomacro/xreflect"
)

type c29Term struct {
	key   string
	level int
	build func(u *c29U) xr.Type // constructs the type (components through u.get)
	rtype func() r.Type         // expected exact reflect type; nil = emulated
	exact bool
}

// c29U is one universe with its per-term memo of NAMED run-time types (NamedOf declares a new type at every call,
// so a term "named(...)" is created once per universe and reused).
type c29U struct {
	u     *xr.Universe
	named map[string]xr.Type
	terms map[string]*c29Term
}

func (u *c29U) get(key string) xr.Type { return u.terms[key].build(u) }

type c29Terms struct {
	list []*c29Term
	by   map[string]*c29Term
}

func (ts *c29Terms) add(t *c29Term) *c29Term {
	if old, ok := ts.by[t.key]; ok {
		return old
	}
	t.exact = t.rtype != nil
	ts.by[t.key] = t
	ts.list = append(ts.list, t)
	return t
}

func c29RT(t *c29Term) r.Type {
	if t.rtype == nil {
		return nil
	}
	return t.rtype()
}

func c29AllExact(ts ...*c29Term) bool {
	for _, t := range ts {
		if !t.exact {
			return false
		}
	}
	return true
}

func c29Keys(ts []*c29Term) string {
	s := make([]string, len(ts))
	for i, t := range ts {
		s[i] = t.key
	}
	return strings.Join(s, ",")
}

func c29ConsTerms(thorough bool) *c29Terms {
	ts := &c29Terms{by: map[string]*c29Term{}}
	base := func(key string, rt r.Type, f func(u *xr.Universe) xr.Type) *c29Term {
		return ts.add(&c29Term{key: key, build: func(u *c29U) xr.Type { return f(u.u) }, rtype: func() r.Type { return rt }})
	}
	rInt, rString, rUint8, rBool := r.TypeOf(0), r.TypeOf(""), r.TypeOf(uint8(0)), r.TypeOf(false)
	rError := r.TypeOf((*error)(nil)).Elem()
	rEmpty := r.TypeOf((*interface{})(nil)).Elem()
	rDur := r.TypeOf(time.Duration(0))
	rBuilder := r.TypeOf(strings.Builder{})
	rSortI := r.TypeOf((*sort.Interface)(nil)).Elem()
	bs := []*c29Term{
		base("int", rInt, func(u *xr.Universe) xr.Type { return u.BasicTypes[r.Int] }),
		base("string", rString, func(u *xr.Universe) xr.Type { return u.BasicTypes[r.String] }),
		base("uint8", rUint8, func(u *xr.Universe) xr.Type { return u.BasicTypes[r.Uint8] }),
		base("error", rError, func(u *xr.Universe) xr.Type { return u.TypeOfError }),
		base("interface{}", rEmpty, func(u *xr.Universe) xr.Type { return u.TypeOfInterface }),
		base("time.Duration", rDur, func(u *xr.Universe) xr.Type { return u.FromReflectType(rDur) }),
		base("strings.Builder", rBuilder, func(u *xr.Universe) xr.Type { return u.FromReflectType(rBuilder) }),
		base("sort.Interface", rSortI, func(u *xr.Universe) xr.Type { return u.FromReflectType(rSortI) }),
	}
	_ = rBool
	un := func(op string, x *c29Term, level int) *c29Term {
		t := &c29Term{key: op + "(" + x.key + ")", level: level}
		var mk func(u *xr.Universe, e xr.Type) xr.Type
		var rmk func(e r.Type) r.Type
		switch op {
		case "arr1":
			mk, rmk = func(u *xr.Universe, e xr.Type) xr.Type { return u.ArrayOf(1, e) }, func(e r.Type) r.Type { return r.ArrayOf(1, e) }
		case "arr2":
			mk, rmk = func(u *xr.Universe, e xr.Type) xr.Type { return u.ArrayOf(2, e) }, func(e r.Type) r.Type { return r.ArrayOf(2, e) }
		case "chan":
			mk, rmk = func(u *xr.Universe, e xr.Type) xr.Type { return u.ChanOf(r.BothDir, e) }, func(e r.Type) r.Type { return r.ChanOf(r.BothDir, e) }
		case "chan<-":
			mk, rmk = func(u *xr.Universe, e xr.Type) xr.Type { return u.ChanOf(r.SendDir, e) }, func(e r.Type) r.Type { return r.ChanOf(r.SendDir, e) }
		case "<-chan":
			mk, rmk = func(u *xr.Universe, e xr.Type) xr.Type { return u.ChanOf(r.RecvDir, e) }, func(e r.Type) r.Type { return r.ChanOf(r.RecvDir, e) }
		case "ptr":
			mk, rmk = func(u *xr.Universe, e xr.Type) xr.Type { return u.PtrTo(e) }, func(e r.Type) r.Type { return r.PtrTo(e) }
		case "slice":
			mk, rmk = func(u *xr.Universe, e xr.Type) xr.Type { return u.SliceOf(e) }, func(e r.Type) r.Type { return r.SliceOf(e) }
		}
		t.build = func(u *c29U) xr.Type { return mk(u.u, u.get(x.key)) }
		if x.exact {
			t.rtype = func() r.Type { return rmk(c29RT(x)) }
		}
		return ts.add(t)
	}
	mapOf := func(k, v *c29Term, level int) *c29Term {
		t := &c29Term{key: "map(" + k.key + "," + v.key + ")", level: level}
		t.build = func(u *c29U) xr.Type { return u.u.MapOf(u.get(k.key), u.get(v.key)) }
		if c29AllExact(k, v) {
			t.rtype = func() r.Type { return r.MapOf(c29RT(k), c29RT(v)) }
		}
		return ts.add(t)
	}
	funcOf := func(in, out []*c29Term, variadic bool, level int) *c29Term {
		key := "func(" + c29Keys(in)
		if variadic {
			key += "..."
		}
		t := &c29Term{key: key + ")(" + c29Keys(out) + ")", level: level}
		t.build = func(u *c29U) xr.Type {
			xin := make([]xr.Type, len(in))
			for i, x := range in {
				xin[i] = u.get(x.key)
			}
			xout := make([]xr.Type, len(out))
			for i, x := range out {
				xout[i] = u.get(x.key)
			}
			return u.u.FuncOf(xin, xout, variadic)
		}
		if c29AllExact(in...) && c29AllExact(out...) {
			t.rtype = func() r.Type {
				rin := make([]r.Type, len(in))
				for i, x := range in {
					rin[i] = c29RT(x)
				}
				rout := make([]r.Type, len(out))
				for i, x := range out {
					rout[i] = c29RT(x)
				}
				return r.FuncOf(rin, rout, variadic)
			}
		}
		return ts.add(t)
	}
	type fld struct {
		name string
		emb  bool
		tag  string
		t    *c29Term
	}
	structOf := func(fs []fld, level int) *c29Term {
		var ks []string
		exact := true
		for _, f := range fs {
			k := f.name + " " + f.t.key
			if f.emb {
				k = "embedded " + f.t.key
				exact = false
			}
			if f.tag != "" {
				k += " `" + f.tag + "`"
			}
			if f.name != "" && (f.name[0] < 'A' || f.name[0] > 'Z') {
				exact = false
			}
			exact = exact && f.t.exact
			ks = append(ks, k)
		}
		t := &c29Term{key: "struct{" + strings.Join(ks, "; ") + "}", level: level}
		t.build = func(u *c29U) xr.Type {
			xf := make([]xr.StructField, len(fs))
			for i, f := range fs {
				xf[i] = xr.StructField{Name: f.name, Type: u.get(f.t.key), Tag: r.StructTag(f.tag), Anonymous: f.emb}
				if f.emb {
					xf[i].Name = ""
				}
				if !exactName(f.name) || f.emb {
					xf[i].Pkg = u.u.LoadPackage("main")
				}
			}
			return u.u.StructOf(xf)
		}
		if exact {
			t.rtype = func() r.Type {
				rf := make([]r.StructField, len(fs))
				for i, f := range fs {
					rf[i] = r.StructField{Name: f.name, Type: c29RT(f.t), Tag: r.StructTag(f.tag)}
				}
				return r.StructOf(rf)
			}
		}
		return ts.add(t)
	}
	named := func(name string, x *c29Term, level int) *c29Term {
		t := &c29Term{key: "named(" + name + "," + x.key + ")", level: level}
		t.build = func(u *c29U) xr.Type {
			if n, ok := u.named[t.key]; ok {
				return n
			}
			n := u.u.NamedOf(name, "main")
			n.SetUnderlying(u.get(x.key))
			u.named[t.key] = n
			return n
		}
		return ts.add(t)
	}

	unary := []string{"arr1", "arr2", "chan", "chan<-", "<-chan", "ptr", "slice"}
	// ---- level 1
	var l1 []*c29Term
	for _, b := range bs {
		for _, op := range unary {
			l1 = append(l1, un(op, b, 1))
		}
	}
	for _, k := range []*c29Term{bs[0], bs[1], bs[4], bs[5]} {
		for _, v := range bs {
			l1 = append(l1, mapOf(k, v, 1))
		}
	}
	fin := []*c29Term{bs[0], bs[1], bs[3]}
	fout := []*c29Term{bs[0], bs[3]}
	lists := func(alpha []*c29Term) [][]*c29Term {
		out := [][]*c29Term{nil}
		for _, a := range alpha {
			out = append(out, []*c29Term{a})
		}
		for _, a := range alpha {
			for _, b := range alpha {
				out = append(out, []*c29Term{a, b})
			}
		}
		return out
	}
	for _, in := range lists(fin) {
		for _, out := range lists(fout) {
			l1 = append(l1, funcOf(in, out, false, 1))
		}
	}
	for _, e := range []*c29Term{bs[0], bs[4]} {
		sl := un("slice", e, 1)
		for _, pre := range [][]*c29Term{nil, {bs[1]}} {
			for _, out := range [][]*c29Term{nil, {bs[0], bs[3]}} {
				in := append(append([]*c29Term{}, pre...), sl)
				l1 = append(l1, funcOf(in, out, true, 1), funcOf(in, out, false, 1))
			}
		}
	}
	for _, b := range bs {
		l1 = append(l1, structOf([]fld{{name: "A", t: b}}, 1), structOf([]fld{{name: "A", t: b, tag: `json:"a"`}, {name: "B", t: bs[0]}}, 1),
			structOf([]fld{{name: "a", t: b}}, 1), named("N_"+strings.Map(c29Ident, b.key), b, 1))
	}
	// struct tags: every pattern of tagged / untagged fields over 3 fields (exported: exact; first field unexported:
	// emulated) and the gap patterns over 4 fields, ONE tag string, so that a tag slipping to a neighbouring field
	// turns one term into another; plus the pair with different tag strings
	for mask := 0; mask < 8; mask++ {
		for _, first := range []string{"A", "a"} {
			fs := []fld{{name: first, t: bs[0]}, {name: "B", t: bs[1]}, {name: "C", t: bs[0]}}
			for i := range fs {
				if mask&(1<<uint(i)) != 0 {
					fs[i].tag = `k:"v"`
				}
			}
			l1 = append(l1, structOf(fs, 1))
		}
	}
	for _, mask := range []int{9, 5, 10, 11, 13, 7, 14} {
		fs := []fld{{name: "A", t: bs[0]}, {name: "B", t: bs[0]}, {name: "C", t: bs[0]}, {name: "D", t: bs[0]}}
		for i := range fs {
			if mask&(1<<uint(i)) != 0 {
				fs[i].tag = `k:"v"`
			}
		}
		l1 = append(l1, structOf(fs, 1))
	}
	l1 = append(l1, structOf([]fld{{name: "A", t: bs[0], tag: `k:"a"`}, {name: "B", t: bs[0]}, {name: "C", t: bs[0], tag: `k:"c"`}}, 1),
		structOf([]fld{{name: "A", t: bs[0], tag: `k:"a"`}, {name: "B", t: bs[0], tag: `k:"c"`}, {name: "C", t: bs[0]}}, 1),
		structOf([]fld{{name: "A", t: bs[0], tag: `k:"a"`}, {emb: true, t: bs[6]}, {name: "C", t: bs[0], tag: `k:"c"`}}, 1),
		structOf([]fld{{name: "A", t: bs[0], tag: `k:"a"`}, {emb: true, t: bs[6], tag: `k:"c"`}, {name: "C", t: bs[0]}}, 1))
	l1 = append(l1, structOf(nil, 1), structOf([]fld{{emb: true, t: bs[6]}, {name: "X", t: bs[0]}}, 1), structOf([]fld{{emb: true, t: bs[7]}}, 1),
		// the same name declared twice with different underlying types: two different types
		named("Dup", bs[0], 1), ts.add(&c29Term{key: "named(Dup,string)#2", level: 1, build: func(u *c29U) xr.Type {
			if n, ok := u.named["dup2"]; ok {
				return n
			}
			n := u.u.NamedOf("Dup", "main")
			n.SetUnderlying(u.u.BasicTypes[r.String])
			u.named["dup2"] = n
			return n
		}}))
	// ---- level 2
	for _, x := range l1 {
		ops := unary
		if !thorough && x.key[0] == 'f' { // quick: fewer wrappers around the many function types
			ops = []string{"ptr", "slice", "chan"}
		}
		for _, op := range ops {
			un(op, x, 2)
		}
	}
	pick := func(keys ...string) []*c29Term {
		var out []*c29Term
		for _, k := range keys {
			t := ts.by[k]
			if t == nil {
				panic("c29: no term " + k)
			}
			out = append(out, t)
		}
		return out
	}
	k2 := pick("int", "ptr(int)", "arr2(string)", "chan(error)", "struct{A int}", "named(N_int,int)", "interface{}")
	v2 := pick("slice(int)", "map(string,int)", "func()()", "func(int)(error)", "struct{A uint8}", "struct{a int}", "named(N_string,string)", "ptr(strings.Builder)", "<-chan(sort.Interface)")
	for _, k := range k2 {
		for _, v := range v2 {
			mapOf(k, v, 2)
		}
	}
	f2 := pick("ptr(int)", "slice(string)", "func()()", "struct{A int}", "map(string,error)", "named(N_error,error)", "chan<-(int)")
	for _, a := range f2 {
		funcOf([]*c29Term{a}, nil, false, 2)
		funcOf(nil, []*c29Term{a}, false, 2)
		for _, b := range f2 {
			funcOf([]*c29Term{a, b}, []*c29Term{b, a}, false, 2)
		}
		if strings.HasPrefix(a.key, "slice(") {
			funcOf([]*c29Term{bs[0], a}, nil, true, 2)
		}
		structOf([]fld{{name: "F", t: a}}, 2)
		structOf([]fld{{name: "F", t: a}, {name: "G", t: f2[0], tag: `x:"y"`}}, 2)
		structOf([]fld{{name: "f", t: a}}, 2)
		named("M_"+strings.Map(c29Ident, a.key), a, 2)
	}
	structOf([]fld{{emb: true, t: ts.by["named(N_int,int)"]}, {name: "Y", t: ts.by["slice(int)"]}}, 2)
	return ts
}

func exactName(n string) bool { return n != "" && n[0] >= 'A' && n[0] <= 'Z' }

func c29Ident(c rune) rune {
	if c >= 'a' && c <= 'z' || c >= 'A' && c <= 'Z' || c >= '0' && c <= '9' {
		return c
	}
	return '_'
}

func (k *c29Checker) consViol(what string, t *c29Term, order string, format string, args ...interface{}) {
	class := t.key
	if i := strings.IndexByte(class, '('); i > 0 {
		class = class[:i]
	} else if i := strings.IndexByte(class, '{'); i > 0 {
		class = class[:i]
	}
	if !t.exact {
		class += "/emulated"
	}
	k.c.Violation("C29|cons-"+what+"|"+class, fmt.Sprintf("%s [%s]: ", t.key, order)+fmt.Sprintf(format, args...),
		c29Case{Kind: "cons", Thorough: k.thorough, Recipe: t.key, Order: order})
}

// consCheck runs the constructor checks for all terms (or only `only`) in one universe.
// order "cons-first": constructors, then FromReflectType of the expected reflect type;
// order "reflect-first": FromReflectType of the expected reflect type first (terms visited in reverse), then constructors.
func (k *c29Checker) consCheck(ts *c29Terms, order string, only string) {
	c := k.c
	u := &c29U{u: xr.NewUniverse(), named: map[string]xr.Type{}, terms: ts.by}
	k.u, k.order = u.u, order
	list := ts.list
	if order == "reflect-first" {
		list = make([]*c29Term, len(ts.list))
		for i, t := range ts.list {
			list[len(list)-1-i] = t
		}
	}
	firstObj := map[string]xr.Type{}
	for ti, t := range list {
		if only != "" && t.key != only {
			continue
		}
		if c.Expired() {
			return
		}
		t := t
		if p := catchPanic(func() {
			var rt r.Type
			var fromFirst xr.Type
			if t.exact {
				rt = t.rtype()
				if order == "reflect-first" {
					fromFirst = u.u.FromReflectType(rt)
				}
			}
			t1 := t.build(u)
			t2 := t.build(u)
			c.Eval(1)
			if t.level > 0 {
				c.Nontrivial("cons|" + t.key)
			}
			if t1 == nil || t2 == nil {
				k.consViol("nil", t, order, "constructor returned nil")
				return
			}
			firstObj[t.key] = t1
			if !t1.IdenticalTo(t2) {
				k.consViol("twice-not-identical", t, order, "constructing twice gives non-identical types %v / %v", t1, t2)
			} else if c29Ptr(t1) != c29Ptr(t2) {
				k.consViol("twice-not-canonical", t, order, "constructing twice gives identical but distinct objects (%v)", t1)
			}
			if !t.exact {
				// emulated: self-consistency only
				if strings.HasPrefix(t.key, "named(") {
					if t1.Name() == "" || !t1.Named() || t1.PkgPath() != "main" {
						k.consViol("named-name", t, order, "Name/PkgPath = %q %q", t1.Name(), t1.PkgPath())
					}
				}
				return
			}
			if t1.ReflectType() != rt {
				k.consViol("reflecttype", t, order, "ReflectType() = %v, reflect's own constructors give %v", t1.ReflectType(), rt)
				return
			}
			if fromFirst != nil && c29Ptr(fromFirst) != c29Ptr(t1) {
				k.consViol("vs-fromreflect", t, order, "FromReflectType(%v) made earlier = %v (identical: %v) is a different object than the constructed %v", rt, fromFirst, fromFirst.IdenticalTo(t1), t1)
			}
			from := u.u.FromReflectType(rt)
			if from == nil || !from.IdenticalTo(t1) {
				k.consViol("vs-fromreflect", t, order, "FromReflectType(%v) = %v is not identical to the constructed %v", rt, from, t1)
			} else if c29Ptr(from) != c29Ptr(t1) {
				k.consViol("vs-fromreflect", t, order, "FromReflectType(%v) and the constructed type are identical but distinct objects", rt)
			}
			k.consKey = t.key
			k.attrs(t1, rt, ti)
			k.consKey = ""
		}); p != nil {
			k.consKey = ""
			k.consViol("panics", t, order, "panics: %v", p)
		}
	}
	if only == "" {
		k.consDistinct(ts, u, list, firstObj, order)
	}
	// the two same-named declarations must be two types
	if only == "" {
		a, b := u.get("named(Dup,int)"), u.get("named(Dup,string)#2")
		if a.IdenticalTo(b) || c29Ptr(a) == c29Ptr(b) || a.Kind() != r.Int || b.Kind() != r.String {
			k.consViol("redeclared-named-merged", ts.by["named(Dup,int)"], order, "two NamedOf(\"Dup\",\"main\") declarations with underlying int and string: identical=%v same object=%v kinds %v %v",
				a.IdenticalTo(b), c29Ptr(a) == c29Ptr(b), a.Kind(), b.Kind())
		}
		// a third declaration of the same name with the SAME underlying type as the first: still a different type,
		// and composites over the two must stay apart although they print alike and share the reflect type
		a3 := u.u.NamedOf("Dup", "main")
		a3.SetUnderlying(u.u.BasicTypes[r.Int])
		for _, mk := range []struct {
			name string
			f    func(xr.Type) xr.Type
		}{{"SliceOf", u.u.SliceOf}, {"PtrTo", u.u.PtrTo}, {"MapOf(string,.)", func(e xr.Type) xr.Type { return u.u.MapOf(u.u.BasicTypes[r.String], e) }},
			{"FuncOf(.)", func(e xr.Type) xr.Type { return u.u.FuncOf([]xr.Type{e}, nil, false) }},
			{"StructOf{A .}", func(e xr.Type) xr.Type { return u.u.StructOf([]xr.StructField{{Name: "A", Type: e}}) }}} {
			c.Eval(1)
			x, y := mk.f(a), mk.f(a3)
			x2 := mk.f(a)
			if x.IdenticalTo(y) || c29Ptr(x) == c29Ptr(y) || c29Ptr(x) != c29Ptr(x2) {
				k.consViol("redeclared-named-merged", ts.by["named(Dup,int)"], order, "%s over two distinct declarations `type Dup int` of package main: identical=%v same object=%v; over the same declaration twice: same object=%v",
					mk.name, x.IdenticalTo(y), c29Ptr(x) == c29Ptr(y), c29Ptr(x) == c29Ptr(x2))
			}
		}
		// unexported field of the same spelling declared in two packages: different struct types that print alike
		pa, pb := u.u.LoadPackage("main"), u.u.LoadPackage("other/main")
		st := func(p *xr.Package) xr.Type {
			return u.u.StructOf([]xr.StructField{{Name: "a", Pkg: p, Type: u.u.BasicTypes[r.Int]}})
		}
		s1, s2, s1b := st(pa), st(pb), st(pa)
		c.Eval(1)
		if s1.IdenticalTo(s2) || c29Ptr(s1) == c29Ptr(s2) || c29Ptr(s1) != c29Ptr(s1b) {
			k.consViol("unexported-field-packages-merged", ts.by["struct{a int}"], order, "struct{a int} with field a of package main vs other/main: identical=%v same object=%v; same package twice: same object=%v",
				s1.IdenticalTo(s2), c29Ptr(s1) == c29Ptr(s2), c29Ptr(s1) == c29Ptr(s1b))
		}
		sa, sb := u.u.SliceOf(a), u.u.SliceOf(b)
		if sa.IdenticalTo(sb) || sa.Elem().Kind() != r.Int || sb.Elem().Kind() != r.String {
			k.consViol("redeclared-named-merged", ts.by["named(Dup,int)"], order, "SliceOf of the two same-named types: identical=%v elem kinds %v %v", sa.IdenticalTo(sb), sa.Elem().Kind(), sb.Elem().Kind())
		}
	}
}

// consDistinct: once every term has been constructed (the universe is warm and holds all of them at once),
// (a) constructing a term again returns the object it returned the first time (no term evicted another one from the cache),
// (b) different terms are different types: never one object, never IdenticalTo, and - for the exact ones - AssignableTo
// exactly when reflect says so. Term keys are injective by construction (field names, tags, embedding, variadic flag,
// direction, length and the declaration of named types are all part of the key).
func (k *c29Checker) consDistinct(ts *c29Terms, u *c29U, list []*c29Term, firstObj map[string]xr.Type, order string) {
	c := k.c
	var terms []*c29Term
	var objs []xr.Type
	for _, t := range list {
		if c.Expired() {
			return
		}
		t1 := firstObj[t.key]
		if t1 == nil {
			continue
		}
		t := t
		if p := catchPanic(func() {
			again := t.build(u)
			c.Eval(1)
			if again == nil || c29Ptr(again) != c29Ptr(t1) {
				k.consViol("warm-not-canonical", t, order, "constructing the term again after all other terms returns another object than the first time (identical: %v)", again != nil && again.IdenticalTo(t1))
			}
		}); p != nil {
			k.consViol("panics", t, order, "constructing again panics: %v", p)
		}
		terms = append(terms, t)
		objs = append(objs, t1)
	}
	byPtr := map[uintptr]int{}
	for i, o := range objs {
		if j, ok := byPtr[c29Ptr(o)]; ok {
			k.consViol("distinct-terms-one-object", terms[i], order, "is the same object as the different type %s (String %q)", terms[j].key, o.String())
		} else {
			byPtr[c29Ptr(o)] = i
		}
	}
	for i, a := range objs {
		if c.Expired() {
			return
		}
		ra := c29RT(terms[i])
		for j, b := range objs {
			if i == j {
				continue
			}
			c.Eval(1)
			var ident, assign bool
			if p := catchPanic(func() { ident = a.IdenticalTo(b) }); p != nil {
				k.consViol("identicalto-panics", terms[i], order, "IdenticalTo(%s) panics: %v", terms[j].key, p)
				continue
			}
			if ident {
				if i < j {
					k.consViol("distinct-terms-identical", terms[i], order, "IdenticalTo(%s) = true: two different types (String %q / %q)", terms[j].key, a.String(), b.String())
				}
				continue
			}
			// struct types only (the others are covered pair by pair in the core of domain A): assignability between
			// two different unnamed struct types follows identity
			if rb := c29RT(terms[j]); ra != nil && rb != nil && ra.Kind() == r.Struct && rb.Kind() == r.Struct {
				if p := catchPanic(func() { assign = a.AssignableTo(b) }); p != nil {
					k.consViol("assignableto-panics", terms[i], order, "AssignableTo(%s) panics: %v", terms[j].key, p)
				} else if want := ra.AssignableTo(rb); assign != want {
					k.consViol("assignableto", terms[i], order, "AssignableTo(%s) = %v, reflect %v", terms[j].key, assign, want)
				}
			}
		}
	}
}
