package props

// C11 — interpreted functions and types interoperate with compiled code like Go values.
// One registered check with three parts (see c11_seq.go, c11_native.go and the concurrent part below):
//   1a. twin execution of a bounded-exhaustive corpus: std entry points taking callbacks/interfaces ×
//       callback or receiver shape × every input of a small alphabet, compiled Go is the oracle;
//   1b. every exported function of strings/math/strconv/unicode with <=3 basic parameters × a boundary
//       value alphabet: result through the interpreter == direct native call;
//   2a. interpreted callbacks invoked concurrently from foreign goroutines, all interleavings of callback
//       entry/exit and registry lock acquisitions within preemption bound 2 under the cooperative scheduler
//       of package sched (real registry/lock code);
//   2b. (c11_conc2.go) the data side of the same: every frame allocation / release inside a callback is a
//       scheduling point, callbacks of all function shapes and proxies return different results in every call,
//       compiled Go (package c11cb, the same text) is the oracle; plus an additive free-running stress run.

import (
	"encoding/json"
	"fmt"
	"os"
	"regexp"
	"sort"
	"strings"
	"sync"

	gatomic "github.com/cosmos72/gomacro/atomic"
	"github.com/cosmos72/gomacro/fast"

	"verif/harness/c11cb"
	"verif/harness/core"
	"verif/harness/oracle"
	"verif/harness/sched"
	"verif/harness/twin"
)

var c11Addr = regexp.MustCompile(`0x[0-9a-f]{6,}`)

var c11Spec = &diffSpec{
	ID:  "C11",
	Gen: c11Corpus,
	Sig: c11Sig,
	Key: func(p *oracle.Prog, want string) string {
		// non-trivial: non-empty input (the callback / interpreted method is really invoked) and a non-empty Go result;
		// programs of one (entry point, shape) with the same outcome count once
		fam, shape, input := c11Header(p)
		if strings.TrimSpace(want) == "" || input == `""` || input == "[]" || strings.HasPrefix(input, "n=0 ") {
			return ""
		}
		return fam + "|" + shape + "|" + want
	},
	Runner: func(p *oracle.Prog) twin.Result {
		// programs are finite by construction; a TIMEOUT of the shared runner can only come from machine load: retry
		var res twin.Result
		for i := 0; i < 4; i++ {
			res = twin.Run(twin.NewFast(), p)
			if !res.TimedOut {
				break
			}
		}
		// error texts of the interpreter may contain addresses: not part of the result
		res.CompileErr = c11Addr.ReplaceAllString(res.CompileErr, "0x?")
		res.Out = c11Addr.ReplaceAllString(res.Out, "0x?")
		return res
	},
}

func init() {
	core.Register(&core.Check{ID: "C11", Level: "model_checking", Workers: -1,
		Prepare: func(c *core.Ctx) error {
			if part := os.Getenv("VERIF_C11_PART"); part != "" && part != "seq" {
				return nil
			}
			_, _, _, err := c11Spec.corpus(c)
			return err
		},
		Run:    c11Run,
		Replay: c11Replay,
	})
}

// c11Header returns the (entry point, shape, input) recorded in the first line of a program body.
func c11Header(p *oracle.Prog) (fam, shape, input string) {
	line := p.Body
	if i := strings.Index(line, "\n"); i > 0 {
		line = line[:i]
	}
	parts := strings.SplitN(strings.TrimPrefix(line, "// "), " | ", 3)
	for len(parts) < 3 {
		parts = append(parts, "")
	}
	return parts[0], parts[1], parts[2]
}

// c11Sig: family | shape | failure class (never the input), so that a recorded finding masks nothing else.
func c11Sig(p *oracle.Prog, want, got string) string {
	fam, shape, _ := c11Header(p)
	class := "result"
	switch {
	case strings.Contains(got, "method type is nil") || strings.Contains(got, "not a package"):
		class = "compile-error:method-type-nil"
	case strings.HasPrefix(got, "COMPILE-ERROR"):
		class = "compile-error"
	case strings.Contains(got, "reflect: Call using *"):
		class = "panic:reflect-call-pointer-as-value"
	case strings.Contains(got, "reflect: Call using"):
		class = "panic:reflect-call-unconverted-value"
	case strings.HasPrefix(got, "TIMEOUT"):
		class = "timeout"
	case strings.Contains(got, "PANIC(") && !strings.Contains(want, "PANIC("):
		class = "panic"
	}
	sig := "C11|" + fam + "|" + shape + "|" + class
	if os.Getenv("VERIF_C11_DEBUG") != "" {
		fmt.Println("C11SIG", sig, p.ID)
	}
	return sig
}

const c11RuleText = "part 1a (evaluations, twin execution vs compiled Go): programs = entry point {sort.Slice, sort.SliceStable, sort.Sort/Stable/Reverse/IsSorted on interpreted sort.Interface, sort.Search, strings.Map/FieldsFunc/IndexFunc/LastIndexFunc/TrimFunc, bytes.Map, " +
	"fmt (Sprint/Sprintf verbs) of interpreted Stringer/error/Formatter/GoStringer through compiled helpers, io.ReadAll/ReadFull/bufio.Scanner (default and interpreted SplitFunc)/bufio.Reader over an interpreted io.Reader, io.Copy/fmt.Fprintf/io.WriteString/bufio.Writer/io.MultiWriter to an interpreted io.Writer, " +
	"sync.Once.Do, errors.Is/As/Unwrap, container/heap, plain compiled callers} x shape {named func, closure capturing a local, method value, closure returned by another function, callback panicking at its 1st/2nd call and recovered by the interpreted caller; for interfaces: value/pointer receivers, pointer to value-receiver type, named non-struct types, promoted methods, interface variable} " +
	"+ identity dimensions: 2-3 interpreted types with ONE underlying type (11 kinds incl. `type C A`, value/pointer receivers) implementing one compiled interface {fmt.Stringer, error, fmt.GoStringer, fmt.Formatter, sort.Interface, heap.Interface, io.Reader, io.Writer} with different method bodies, converted alternately through 24 conversion sites (assignment, return, conversion expression, literals, append, map/slice/array/field/pointer assignment, channel and select send, variadic/func-value/deferred-call arguments, named results ...) in 2-3 orders; typed CONSTANTS of such types through every site; ONE type converted to 2-4 compiled interfaces in every order; compiled interface narrowed to another compiled interface; two closures of one literal / two method values of one method (8 signatures on the specialised and the generic function path) called alternately by compiled code; callbacks re-entered through compiled code; " +
	"x ALL inputs (permutations of <=4 [thorough 5] elements and all key sequences of length <=4 over {1,2} for sorts/heaps, all strings of length <=3 [4] over {a,B,space}, all chunkings of a 4-byte stream x EOF mode x failing read, writer modes ok/short/fail at 1st/2nd write); " +
	"part 1b (evaluations): every exported function of strings, math, strconv, unicode [thorough: + unicode/utf8, math/bits] with <=3 parameters of basic kind x every combination of a boundary alphabet per kind, each through an interpreted wrapper function called from compiled code and as a call with constant arguments, compared with the direct native call; " +
	"part 2a (states/transitions/traces): CallFrom(n,f) with n in {2,3} foreign goroutines x f in {closure capturing a variable, global function, method value, closure whose body calls sort.Slice with an interpreted less} x 1-2 calls per goroutine, the main thread calling f as well; every interleaving of callback entry/exit, goroutine start and spin-lock acquisitions within preemption bound 2 [thorough: 3 for n=2] on the real registry code [n=3: thorough only]; " +
	"part 2b (states/transitions/traces): 24 constructors of package c11cb (ONE text compiled as the oracle and interpreted: 4 type-specialised and 16 generic function shapes incl. 2-3 results, named results, variadic, struct/interface values, nested interpreted call, recursion, defer, panic, compiled code calling back, declared function, method values; sort.Slice job, sort.Interface/fmt.Stringer/io.Reader through proxies with two types of one underlying type) x {own value per thread from the same constructor, one value shared} x {1,2} foreign goroutines + the interpreter's goroutine x {1,2} calls, different arguments in every call; scheduling points = callback enter/exit and EVERY frame allocation / release inside a callback (arguments received but not stored; results computed but not handed over); every interleaving within preemption bound 2 [thorough: 3 for 2 threads x 1 call]; each result == compiled Go; " +
	"additive, not deciding: the same jobs free-running on 4 real goroutines x 4000 [60000] calls, every result compared with compiled Go; " +
	"non-trivial = distinct (entry point, shape, Go outcome) over programs with a non-empty input [1a], distinct (function, arguments) whose native result is not the zero value [1b], distinct (scenario, schedule) with at least one thread switch [2]"

func c11Run(c *core.Ctx) {
	part := os.Getenv("VERIF_C11_PART") // development aid: restrict to one part
	c.Assume("values of interpreted types reach compiled code through parameters typed with the compiled interface (where gomacro installs its proxy); passing them as interface{} exposes the emulated unnamed struct, a documented limitation that is not part of the property",
		"between two scheduling points only the released thread runs; data races proper are invisible to a cooperative scheduler (the registry lockset is checked, the rest is left to free-running -race runs, which are sampling and not part of the verdict)",
		"goroutine identities seen by the interpreter are virtual (fresh per scheduled thread); the real gls.GoID stub is covered by C33's direct check")
	// the scheduler part runs first so that its samples (schedules) make it into the evidence file
	if part == "" || part == "conc" {
		c11RunConc(c)
	}
	if (part == "" || part == "conc" || part == "stress") && !c.Expired() {
		c11RunStress(c)
	}
	c.Rule(c11RuleText)
	if c.Expired() {
		return
	}
	if part == "" || part == "native" {
		c11RunNative(c)
	}
	if c.Expired() {
		return
	}
	if part == "" || part == "seq" {
		c11Spec.run(c)
	}
	c.Rule(c11RuleText)
}

func c11RunNative(c *core.Ctx) {
	funcs := c11Funcs(c11NativePkgs(c))
	c.Set("native_functions", len(funcs))
	st := &c11NativeState{}
	for i := range funcs {
		if !c.Mine(i) {
			continue
		}
		if c.Expired() {
			return
		}
		f := &funcs[i]
		if p := twin.Catch(func() { c11NativeFunc(c, st, f, c11NativeLimit(c, f.fn.Type().NumIn()), nil, "") }); p != nil {
			c.Violation("C11|native|"+f.Pkg+"."+f.Name+"|harness-panic", fmt.Sprintf("enumeration of %s.%s stopped: %v", f.Pkg, f.Name, p), c11NativeCase{Kind: "native", Pkg: f.Pkg, Func: f.Name})
		}
	}
}

// ---------------------------------------------------------------------------------------------
// part 2: concurrent callbacks from foreign goroutines

type c11Scenario struct {
	N     int    `json:"goroutines"`
	F     string `json:"callback"`
	Calls int    `json:"calls_per_goroutine"`
}

var c11Callbacks = []string{"closure", "global", "method-value", "nested-sort"}

func c11Source(sc c11Scenario) string {
	return fmt.Sprintf(`
func gfun(k int) int { y := k * 3; return y + 1 }
type M struct{ base int }
func (m *M) Get(k int) int { z := m.base + k; return z * 2 }
func Scenario() {
	x := 10
	closure := func(k int) int { w := x * 100; return w + k }
	m := &M{base: 7}
	methodvalue := m.Get
	nested := func(k int) int {
		s := []int{3, k, 2}
		sort.Slice(s, func(i, j int) bool { return s[i] < s[j] })
		return s[0]*100 + s[1]*10 + s[2]
	}
	global := gfun
	_, _, _, _ = closure, methodvalue, nested, global
	CallFrom(%d, %d, %s)
	P()
	R(0, %s(0))
	Join()
	R(99, gfun(99)+closure(1)+methodvalue(1)+nested(1))
}
`, sc.N, sc.Calls, map[string]string{"closure": "closure", "global": "global", "method-value": "methodvalue", "nested-sort": "nested"}[sc.F],
		map[string]string{"closure": "closure", "global": "global", "method-value": "methodvalue", "nested-sort": "nested"}[sc.F])
}

// c11Native is the sequential meaning of the callbacks (plain Go).
func c11Native(f string, k int) int {
	switch f {
	case "closure":
		return 10*100 + k
	case "global":
		return k*3 + 1
	case "method-value":
		return (7 + k) * 2
	case "nested-sort":
		s := []int{3, k, 2}
		sort.Ints(s)
		return s[0]*100 + s[1]*10 + s[2]
	}
	panic(f)
}

func c11Expected(sc c11Scenario) string {
	var res []string
	for t := 1; t <= sc.N; t++ {
		for j := 0; j < sc.Calls; j++ {
			k := t*10 + j
			res = append(res, fmt.Sprintf("%d=%d", k, c11Native(sc.F, k)))
		}
	}
	res = append(res, fmt.Sprintf("%d=%d", 0, c11Native(sc.F, 0)))
	res = append(res, fmt.Sprintf("%d=%d", 99, c11Native("global", 99)+c11Native("closure", 1)+c11Native("method-value", 1)+c11Native("nested-sort", 1)))
	sort.Strings(res)
	return strings.Join(res, " ")
}

type c11Model struct {
	mu      sync.Mutex
	s       *sched.S
	virt    map[int]uintptr
	nextID  uintptr
	owner   map[*fast.Run]int
	results []string
	viol    []string
	inside  map[int]int // tid -> callbacks in progress (entry seen, exit not yet)
	window  bool        // part 2b: frame allocation / release inside a callback are scheduling points, spin-locks are not
}

func newC11Model() *c11Model {
	return &c11Model{virt: map[int]uintptr{0: 1000}, nextID: 1001, owner: map[*fast.Run]int{}, inside: map[int]int{}}
}

func (m *c11Model) Enabled(parked map[int]sched.Op) []sched.Action {
	var tids []int
	for tid := range parked {
		tids = append(tids, tid)
	}
	sort.Ints(tids)
	var acts []sched.Action
	for _, tid := range tids {
		op := parked[tid]
		name := m.s.ThreadName(tid)
		switch op.Kind {
		case "lock", "spin":
			if sched.LockFree(op.Obj.(*gatomic.SpinLock)) {
				acts = append(acts, sched.Action{Tids: []int{tid}, Label: name + ":" + op.Kind})
			}
		case "join":
			others := 0
			for t2, o2 := range parked {
				if t2 != tid && o2.Kind != "join" {
					others++
				}
			}
			if others == 0 {
				acts = append(acts, sched.Action{Tids: []int{tid}, Label: name + ":join"})
			}
		default:
			label := name + ":" + op.Kind
			if op.Arg != nil {
				label += fmt.Sprint("(", op.Arg, ")")
			}
			acts = append(acts, sched.Action{Tids: []int{tid}, Label: label})
		}
	}
	return acts
}

func (m *c11Model) Fire(a sched.Action, parked map[int]sched.Op) {
	tid := a.Tids[0]
	op := parked[tid]
	m.mu.Lock()
	defer m.mu.Unlock()
	switch op.Kind {
	case "start":
		m.virt[tid] = m.nextID
		m.nextID++
	case "lock", "spin":
		m.s.NoteLock(op.Obj.(*gatomic.SpinLock), tid)
	}
}

func (m *c11Model) callbacks() sched.Callbacks {
	var alloc func(s *sched.S, tid int, env *fast.Env, run *fast.Run, runGoid uintptr)
	var free func(env *fast.Env)
	if m.window {
		alloc = func(s *sched.S, tid int, env *fast.Env, run *fast.Run, runGoid uintptr) {
			m.windowPoint(s, tid, "alloc")
		}
		free = func(env *fast.Env) {
			if s := sched.Current(); s != nil {
				if tid := s.Tid(); tid >= 0 {
					m.windowPoint(s, tid, "free")
				}
			}
		}
	}
	return sched.Callbacks{
		LockPoints: !m.window,
		Alloc:      alloc,
		FreeEnv:    free,
		GoID: func(s *sched.S, tid int, real uintptr) uintptr {
			m.mu.Lock()
			defer m.mu.Unlock()
			if id := m.virt[tid]; id != 0 {
				return id
			}
			return real
		},
		Owner: func(s *sched.S, tid int, run *fast.Run, runGoid, goid uintptr) {
			m.mu.Lock()
			defer m.mu.Unlock()
			if runGoid != goid {
				m.viol = append(m.viol, fmt.Sprintf("invariant run.goid==goid: thread %s (identity %d) allocates a frame from the record of identity %d", s.ThreadName(tid), goid, runGoid))
			}
			if prev, ok := m.owner[run]; ok && prev != tid && s.Alive(prev) {
				m.viol = append(m.viol, fmt.Sprintf("invariant exclusive ownership: runtime record used by live threads %s and %s", s.ThreadName(prev), s.ThreadName(tid)))
			}
			m.owner[run] = tid
		},
		Access: func(s *sched.S, tid int, g *fast.IrGlobals, write, locked bool) {
			if !locked {
				m.mu.Lock()
				m.viol = append(m.viol, fmt.Sprintf("lockset: thread %s touches the goroutine registry (write=%v) without the lock", s.ThreadName(tid), write))
				m.mu.Unlock()
			}
		},
	}
}

type c11ConcCase struct {
	Kind     string      `json:"kind"` // "conc"
	Scenario c11Scenario `json:"scenario"`
	Schedule []int       `json:"schedule"`
	Source   string      `json:"interpreted_source"`
}

type c11Outcome struct {
	x       *sched.Execution
	viol    []string
	results string
}

type c11Abort struct{}

func c11Exec(sc c11Scenario, prefix []int) c11Outcome {
	m := newC11Model()
	sched.Install(m.callbacks())
	src := c11Source(sc)
	var panicked interface{}
	x := sched.RunOnce(m, prefix, 600, func(s *sched.S) {
		m.mu.Lock()
		m.s = s
		m.mu.Unlock()
		record := func(k, v int) {
			m.mu.Lock()
			m.results = append(m.results, fmt.Sprintf("%d=%d", k, v))
			m.mu.Unlock()
		}
		ir := twin.NewFast() // created inside thread "0": registered under thread 0's virtual identity
		ir.DeclFunc("R", record)
		ir.DeclFunc("P", func() {
			if !s.PointOK(sched.Op{Kind: "main-call"}) {
				panic(c11Abort{})
			}
		})
		ir.DeclFunc("Join", func() {
			if !s.PointOK(sched.Op{Kind: "join"}) {
				panic(c11Abort{})
			}
		})
		// CallFrom is the compiled helper: n foreign goroutines (threads of the scheduler), each calling f `calls` times
		ir.DeclFunc("CallFrom", func(n, calls int, f func(int) int) {
			for t := 1; t <= n; t++ {
				t := t
				s.Go(func() {
					for j := 0; j < calls; j++ {
						k := t*10 + j
						s.Point(sched.Op{Kind: "enter", Arg: k})
						v := f(k)
						s.Point(sched.Op{Kind: "exit", Arg: k})
						record(k, v)
					}
				})
			}
		})
		panicked = twin.Catch(func() {
			ir.Eval(`import "sort"`)
			ir.Eval(src)
			ir.Eval("Scenario()")
		})
	})
	m.mu.Lock()
	defer m.mu.Unlock()
	out := c11Outcome{x: x, viol: append([]string{}, m.viol...)}
	if panicked != nil {
		if _, abort := panicked.(c11Abort); !abort {
			out.viol = append(out.viol, fmt.Sprintf("main thread panicked: %v", panicked))
		}
	}
	sort.Strings(m.results)
	out.results = strings.Join(m.results, " ")
	return out
}

func c11Scenarios(c *core.Ctx) []c11Scenario {
	var out []c11Scenario
	for _, n := range []int{2, 3} {
		for _, f := range c11Callbacks {
			for calls := 1; calls <= 2; calls++ {
				if c.Quick() && (n == 3 || (calls == 2 && f == "nested-sort")) {
					continue // thorough only
				}
				out = append(out, c11Scenario{N: n, F: f, Calls: calls})
			}
		}
	}
	return out
}

// c11Unit is one scenario handed to the explorer.
type c11Unit struct {
	name    string // counter key
	sigBase string
	desc    string
	bound   int
	want    string
	exec    func(prefix []int) c11Outcome
	cas     func(schedule []int) interface{}
	sample  func() interface{}
}

// c11Explore enumerates every schedule of u within its preemption bound. The root execution (no forced choice)
// is run by every worker: it yields the list of first-level subtrees (prefix = root choices up to i, then an
// alternative), which are the sharded units of work (numbered by *work across scenarios).
func c11Explore(c *core.Ctx, u *c11Unit, work *int, outcomes map[string]bool, concSamples *int) {
	var last c11Outcome
	e := &sched.Explorer{Bound: u.bound, Stop: c.Expired}
	e.Run = func(prefix []int) *sched.Execution {
		last = u.exec(prefix)
		// "a released thread did not come back within StuckAfter" is a wall-clock verdict of the scheduler:
		// on a loaded machine it must persist over re-executions of the same schedule before it is believed
		for retry := 0; retry < 2 && last.x.Stuck != "" && !strings.Contains(last.x.Stuck, "horizon"); retry++ {
			last = u.exec(prefix)
		}
		return last.x
	}
	e.Check = func(x *sched.Execution) {
		o := last
		c.Eval(1)
		c.Transitions(len(x.Points))
		c.States(len(x.Points) + 1)
		cas := u.cas(x.Choices)
		switches := 0
		for _, p := range x.Points {
			if p.RunningEnabled && p.Chosen != p.RunningIdx {
				switches++
			}
		}
		if switches > 0 {
			c.Nontrivial(fmt.Sprint("conc", u.name, x.Choices))
		}
		outcomes[o.results] = true
		if x.Diverged != "" || x.Stuck != "" {
			c.Violation(u.sigBase+"stuck-or-diverged", fmt.Sprintf("%s schedule %v: %s %s", u.desc, x.Choices, x.Stuck, x.Diverged), cas)
			return
		}
		if x.Deadlock {
			c.Violation(u.sigBase+"deadlock", fmt.Sprintf("%s schedule %v: deadlock, blocked %v", u.desc, x.Choices, x.Blocked), cas)
		}
		for _, v := range o.viol {
			c.Violation(u.sigBase+strings.SplitN(v, ":", 2)[0], fmt.Sprintf("%s schedule %v: %s", u.desc, x.Choices, v), cas)
		}
		if o.results != u.want && !x.Deadlock {
			var labels []string
			for _, p := range x.Points {
				labels = append(labels, p.Enabled[p.Chosen])
			}
			c.Violation(u.sigBase+"results", fmt.Sprintf("%s schedule %v: results %q, compiled Go (any schedule) %q; steps: %s", u.desc, x.Choices, o.results, u.want, strings.Join(labels, " ")), cas)
		}
		if c.WantSample() && switches > 1 && *concSamples < 3 {
			*concSamples++
			var labels []string
			for _, p := range x.Points {
				labels = append(labels, p.Enabled[p.Chosen])
			}
			c.Sample(map[string]interface{}{"part": "concurrent callbacks", "scenario": u.sample(), "schedule": labels, "results": o.results})
		}
	}
	root := u.exec(nil)
	again := u.exec(root.x.Choices)
	if fmt.Sprint(again.x.Choices) != fmt.Sprint(root.x.Choices) || again.results != root.results || again.x.Diverged != "" {
		panic(fmt.Sprintf("HARNESS: schedule replay is not deterministic for %s: %v %q / %v %q %s", u.desc, root.x.Choices, root.results, again.x.Choices, again.results, again.x.Diverged))
	}
	if c.Mine(*work) {
		last = root
		e.Executions++
		e.Check(root.x)
	}
	*work++
	if root.x.Diverged == "" && root.x.Stuck == "" {
		x := root.x
		for i := 0; i < len(x.Points) && !e.Capped; i++ {
			p := x.Points[i]
			base := 0
			for j := 0; j < i; j++ {
				if q := x.Points[j]; q.RunningEnabled && q.Chosen != q.RunningIdx {
					base++
				}
			}
			for alt := 0; alt < len(p.Enabled); alt++ {
				if alt == p.Chosen {
					continue
				}
				cost := base
				if p.RunningEnabled && alt != p.RunningIdx {
					cost++
				}
				if cost > u.bound {
					continue
				}
				mine := c.Mine(*work)
				*work++
				if !mine {
					continue
				}
				e.Explore(append(append([]int{}, x.Choices[:i]...), alt))
				if e.Capped {
					break
				}
			}
		}
	}
	c.Traces(e.Executions)
	c.Count(u.name, e.Executions)
	if e.Capped {
		c.Cap("deadline reached inside a concurrent scenario")
	}
}

func c11RunConc(c *core.Ctx) {
	scen := c11Scenarios(c)
	c.Set("conc_scenarios", len(scen))
	c.Set("preemption_bound", c.Pick(2, 2))
	c.Set("preemption_bound_2_goroutines", c.Pick(2, 3))
	// warm-up outside the scheduler: the first interpreter / first import of a process runs `go list`
	func() {
		ir := twin.NewFast()
		twin.Catch(func() {
			ir.Eval(`import "sort"`)
			for _, im := range c11cb.Imports {
				ir.Eval(fmt.Sprintf("import %q", im))
			}
		})
	}()
	outcomes := map[string]bool{}
	concSamples := 0
	work := 0 // index of the unit of work (subtree) for sharding
	// part 2b first: the data side of concurrent callbacks (c11_conc2.go)
	if os.Getenv("VERIF_C11_CONC") != "registry" {
		c11RunWindow(c, &work, outcomes, &concSamples)
	}
	for _, sc := range scen {
		if c.Expired() || os.Getenv("VERIF_C11_CONC") == "window" {
			break
		}
		sc := sc
		src := c11Source(sc)
		bound := 2
		if c.Thorough() && sc.N == 2 {
			bound = 3
		}
		c11Explore(c, &c11Unit{
			name:    fmt.Sprintf("conc_executions[n=%d,f=%s,calls=%d]", sc.N, sc.F, sc.Calls),
			sigBase: "C11|concurrent|" + sc.F + "|",
			desc:    fmt.Sprintf("scenario %+v", sc),
			bound:   bound,
			want:    c11Expected(sc),
			exec:    func(prefix []int) c11Outcome { return c11Exec(sc, prefix) },
			cas: func(schedule []int) interface{} {
				return c11ConcCase{Kind: "conc", Scenario: sc, Schedule: schedule, Source: src}
			},
			sample: func() interface{} { return sc },
		}, &work, outcomes, &concSamples)
	}
	c.Set("conc_distinct_result_sets_per_worker", len(outcomes))
}

// ---------------------------------------------------------------------------------------------

func c11Replay(c *core.Ctx, raw json.RawMessage) {
	var probe struct {
		Kind string          `json:"kind"`
		Prog json.RawMessage `json:"prog"`
	}
	json.Unmarshal(raw, &probe)
	switch {
	case probe.Kind == "native":
		var cas c11NativeCase
		if err := json.Unmarshal(raw, &cas); err != nil {
			panic(err)
		}
		for _, f := range c11Funcs([]string{cas.Pkg}) {
			if f.Name == cas.Func {
				f := f
				st := &c11NativeState{}
				if cas.Idx == nil {
					c11NativeFunc(c, st, &f, cas.Limit, nil, "")
				} else {
					c11NativeFunc(c, st, &f, cas.Limit, cas.Idx, cas.Shape)
				}
			}
		}
	case probe.Kind == "window":
		var cas c11WCase
		if err := json.Unmarshal(raw, &cas); err != nil {
			panic(err)
		}
		twin.NewFast()
		o := c11WExec(cas.Scenario, cas.Schedule)
		for _, p := range o.x.Points {
			fmt.Println("  ", p.Enabled[p.Chosen], "   enabled:", p.Enabled)
		}
		want := c11WExpected(cas.Scenario)
		fmt.Println("results:", o.results, "\nwant:   ", want, "\ndeadlock:", o.x.Deadlock, o.x.Stuck, o.x.Diverged)
		sigBase := "C11|concurrent-data|" + cas.Scenario.Cb + "|"
		for _, v := range o.viol {
			c.Violation(sigBase+strings.SplitN(v, ":", 2)[0], v, cas)
		}
		if want != o.results && !o.x.Deadlock {
			c.Violation(sigBase+"results", fmt.Sprintf("results %q want %q", o.results, want), cas)
		}
		if o.x.Deadlock {
			c.Violation(sigBase+"deadlock", fmt.Sprint(o.x.Blocked), cas)
		}
		if o.x.Stuck != "" || o.x.Diverged != "" {
			c.Violation(sigBase+"stuck-or-diverged", o.x.Stuck+o.x.Diverged, cas)
		}
	case probe.Kind == "stress":
		var cas c11StressCase
		if err := json.Unmarshal(raw, &cas); err != nil {
			panic(err)
		}
		for _, cb := range c11WCallbacks {
			if cb.Name == cas.Cb {
				wrong, first, crashed := c11StressOne(c11StressInterp(), cb, cas.Shared, cas.G, cas.Calls)
				if crashed != nil {
					c.Violation("C11|concurrent-stress|"+cb.Name+"|panic", fmt.Sprint(crashed), cas)
				}
				if wrong > 0 {
					c.Violation("C11|concurrent-stress|"+cb.Name+"|results", fmt.Sprintf("%d wrong results, first: %s", wrong, first), cas)
				}
			}
		}
	case probe.Kind == "conc":
		var cas c11ConcCase
		if err := json.Unmarshal(raw, &cas); err != nil {
			panic(err)
		}
		twin.NewFast()
		o := c11Exec(cas.Scenario, cas.Schedule)
		for _, p := range o.x.Points {
			fmt.Println("  ", p.Enabled[p.Chosen], "   enabled:", p.Enabled)
		}
		fmt.Println("results:", o.results, "deadlock:", o.x.Deadlock, o.x.Stuck, o.x.Diverged)
		sigBase := "C11|concurrent|" + cas.Scenario.F + "|"
		for _, v := range o.viol {
			c.Violation(sigBase+strings.SplitN(v, ":", 2)[0], v, cas)
		}
		if want := c11Expected(cas.Scenario); want != o.results && !o.x.Deadlock {
			c.Violation(sigBase+"results", fmt.Sprintf("results %q want %q", o.results, want), cas)
		}
		if o.x.Deadlock {
			c.Violation(sigBase+"deadlock", fmt.Sprint(o.x.Blocked), cas)
		}
		if o.x.Stuck != "" || o.x.Diverged != "" {
			c.Violation(sigBase+"stuck-or-diverged", o.x.Stuck+o.x.Diverged, cas)
		}
	default:
		var cas diffCase
		if err := json.Unmarshal(raw, &cas); err != nil {
			panic(err)
		}
		c11Spec.runOne(c, &cas.Prog, cas.Want, cas.Reject)
	}
}
