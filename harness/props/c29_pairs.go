package props

// C29 — binary predicates on a core of non-emulated types: AssignableTo / ConvertibleTo / Implements (and the
// unary Comparable) must give reflect's answer; where the type can also be expressed in the standard go/types
// (named types looked up through go/importer "source", composites rebuilt structurally) the answer must be one of
// {reflect's, go/types'} (they differ only where reflect deliberately implements less than the spec, e.g.
// unsafe.Pointer conversions).

import (
	"fmt"
	"go/importer"
	"go/token"
	gotypes "go/types"
	r "reflect"
	"sort"

	xr "github.com/cosmos72/gomacro/xreflect"
)

type c29Std struct {
	imp  gotypes.Importer
	pkgs map[string]*gotypes.Package
	memo map[r.Type]gotypes.Type
	fail map[string]string
}

func newC29Std() *c29Std {
	return &c29Std{imp: importer.ForCompiler(token.NewFileSet(), "source", nil), pkgs: map[string]*gotypes.Package{},
		memo: map[r.Type]gotypes.Type{}, fail: map[string]string{}}
}

func (s *c29Std) pkg(path string) *gotypes.Package {
	if p, ok := s.pkgs[path]; ok {
		return p
	}
	var p *gotypes.Package
	if path != c29HarnessPkg {
		var err error
		p, err = s.imp.Import(path)
		if err != nil {
			s.fail[path] = c29Short(err.Error(), 200)
			p = nil
		}
	}
	s.pkgs[path] = p
	return p
}

var c29BasicKinds = map[r.Kind]gotypes.BasicKind{r.Bool: gotypes.Bool, r.Int: gotypes.Int, r.Int8: gotypes.Int8, r.Int16: gotypes.Int16,
	r.Int32: gotypes.Int32, r.Int64: gotypes.Int64, r.Uint: gotypes.Uint, r.Uint8: gotypes.Uint8, r.Uint16: gotypes.Uint16, r.Uint32: gotypes.Uint32,
	r.Uint64: gotypes.Uint64, r.Uintptr: gotypes.Uintptr, r.Float32: gotypes.Float32, r.Float64: gotypes.Float64, r.Complex64: gotypes.Complex64,
	r.Complex128: gotypes.Complex128, r.String: gotypes.String, r.UnsafePointer: gotypes.UnsafePointer}

// std maps a reflect type to the standard go/types type, or nil when that is not possible
// (type of a package that cannot be imported from source, unexported or generic-instance name, ...).
func (s *c29Std) std(rt r.Type) gotypes.Type {
	if t, ok := s.memo[rt]; ok {
		return t
	}
	s.memo[rt] = nil // cycles through unnamed types cannot happen; through named types we stop at the name
	t := s.std1(rt)
	s.memo[rt] = t
	return t
}

func (s *c29Std) tuple(rt r.Type, in bool) (*gotypes.Tuple, bool) {
	n := rt.NumOut()
	if in {
		n = rt.NumIn()
	}
	vars := make([]*gotypes.Var, n)
	for i := range vars {
		et := rt.Out
		if in {
			et = rt.In
		}
		t := s.std(et(i))
		if t == nil {
			return nil, false
		}
		vars[i] = gotypes.NewParam(token.NoPos, nil, "", t)
	}
	return gotypes.NewTuple(vars...), true
}

func (s *c29Std) std1(rt r.Type) gotypes.Type {
	if name := rt.Name(); name != "" {
		path := rt.PkgPath()
		if path == "" {
			if name == "error" {
				return gotypes.Universe.Lookup("error").Type()
			}
			if k, ok := c29BasicKinds[rt.Kind()]; ok && gotypes.Typ[k].Name() == name {
				return gotypes.Typ[k]
			}
			return nil
		}
		if path == "unsafe" && name == "Pointer" {
			return gotypes.Typ[gotypes.UnsafePointer]
		}
		p := s.pkg(path)
		if p == nil {
			return nil
		}
		obj, _ := p.Scope().Lookup(name).(*gotypes.TypeName)
		if obj == nil {
			return nil
		}
		if n, ok := obj.Type().(*gotypes.Named); ok && n.TypeParams().Len() > 0 {
			return nil
		}
		return obj.Type()
	}
	switch rt.Kind() {
	case r.Array:
		if e := s.std(rt.Elem()); e != nil {
			return gotypes.NewArray(e, int64(rt.Len()))
		}
	case r.Slice:
		if e := s.std(rt.Elem()); e != nil {
			return gotypes.NewSlice(e)
		}
	case r.Ptr:
		if e := s.std(rt.Elem()); e != nil {
			return gotypes.NewPointer(e)
		}
	case r.Chan:
		if e := s.std(rt.Elem()); e != nil {
			dir := gotypes.SendRecv
			switch rt.ChanDir() {
			case r.SendDir:
				dir = gotypes.SendOnly
			case r.RecvDir:
				dir = gotypes.RecvOnly
			}
			return gotypes.NewChan(dir, e)
		}
	case r.Map:
		k, e := s.std(rt.Key()), s.std(rt.Elem())
		if k != nil && e != nil {
			return gotypes.NewMap(k, e)
		}
	case r.Func:
		in, ok1 := s.tuple(rt, true)
		out, ok2 := s.tuple(rt, false)
		if ok1 && ok2 {
			return gotypes.NewSignatureType(nil, nil, nil, in, out, rt.IsVariadic())
		}
	case r.Struct:
		fields := make([]*gotypes.Var, rt.NumField())
		tags := make([]string, rt.NumField())
		for i := range fields {
			f := rt.Field(i)
			ft := s.std(f.Type)
			if ft == nil {
				return nil
			}
			var p *gotypes.Package
			if f.PkgPath != "" {
				if p = s.pkg(f.PkgPath); p == nil {
					return nil
				}
			}
			fields[i] = gotypes.NewField(token.NoPos, p, f.Name, ft, f.Anonymous)
			tags[i] = string(f.Tag)
		}
		return gotypes.NewStruct(fields, tags)
	case r.Interface:
		ms := make([]*gotypes.Func, rt.NumMethod())
		for i := range ms {
			m := rt.Method(i)
			in, ok1 := s.tuple(m.Type, true)
			out, ok2 := s.tuple(m.Type, false)
			if !ok1 || !ok2 {
				return nil
			}
			var p *gotypes.Package
			if m.PkgPath != "" {
				if p = s.pkg(m.PkgPath); p == nil {
					return nil
				}
			}
			ms[i] = gotypes.NewFunc(token.NoPos, p, m.Name, gotypes.NewSignatureType(nil, nil, nil, in, out, m.Type.IsVariadic()))
		}
		return gotypes.NewInterfaceType(ms, nil).Complete()
	default:
		if k, ok := c29BasicKinds[rt.Kind()]; ok {
			return gotypes.Typ[k]
		}
	}
	return nil
}

// c29Core picks the ~N-type core deterministically: every harness type, the predeclared types, and from the import
// tables the first types of every (kind, named?) class, interfaces and their implementers preferred.
func c29Core(d *c29Domain, n int) []int {
	var core []int
	taken := map[int]bool{}
	add := func(i int) {
		if !taken[i] {
			taken[i] = true
			core = append(core, i)
		}
	}
	for i := range d.types {
		if d.owner[i] == len(d.paths) {
			add(i)
		}
	}
	perClass := map[string]int{}
	quota := func(rt r.Type) int {
		switch {
		case rt.Kind() == r.Interface:
			return 60
		case rt.Name() != "" && rt.PkgPath() == "":
			return 30
		case rt.Name() != "" && rt.Kind() == r.Struct, rt.Kind() == r.Ptr:
			return 70
		case rt.Kind() == r.Func:
			return 40
		}
		return 20
	}
	for i, rt := range d.types {
		if len(core) >= n {
			break
		}
		if taken[i] {
			continue // the harness types are all in the core: they do not use up the quota of their class
		}
		cl := c29KindClass(rt)
		if perClass[cl] < quota(rt) {
			perClass[cl]++
			add(i)
		}
	}
	sort.Ints(core)
	return core
}

type c29PairStats struct {
	pairs, withStd, reflectVsStd int
}

// pairs runs the predicates over core x core.
func (k *c29Checker) pairs(core []int, ts []xr.Type, std *c29Std) {
	c := k.c
	d := k.d
	stdT := make([]gotypes.Type, len(core))
	for a, i := range core {
		stdT[a] = std.std(d.types[i])
		if stdT[a] != nil {
			c.Count("core_types_mapped_to_go_types", 1)
		}
	}
	type pred struct {
		name string
		x    func(t, u xr.Type) bool
		r    func(t, u r.Type) bool
		g    func(t, u gotypes.Type) bool
		ok   func(t, u r.Type) bool
	}
	preds := []pred{
		// the types of the core are compiled types: two of them are identical iff they are the same reflect.Type
		{"IdenticalTo", func(t, u xr.Type) bool { return t.IdenticalTo(u) }, func(t, u r.Type) bool { return t == u },
			func(t, u gotypes.Type) bool { return gotypes.Identical(t, u) }, nil},
		{"AssignableTo", func(t, u xr.Type) bool { return t.AssignableTo(u) }, func(t, u r.Type) bool { return t.AssignableTo(u) },
			func(t, u gotypes.Type) bool { return gotypes.AssignableTo(t, u) }, nil},
		{"ConvertibleTo", func(t, u xr.Type) bool { return t.ConvertibleTo(u) }, func(t, u r.Type) bool { return t.ConvertibleTo(u) },
			func(t, u gotypes.Type) bool { return gotypes.ConvertibleTo(t, u) }, nil},
		{"Implements", func(t, u xr.Type) bool { return t.Implements(u) }, func(t, u r.Type) bool { return t.Implements(u) },
			func(t, u gotypes.Type) bool { return gotypes.Implements(t, u.Underlying().(*gotypes.Interface)) },
			func(t, u r.Type) bool { return u.Kind() == r.Interface }},
	}
	for a, i := range core {
		if ts[a] == nil {
			continue
		}
		for b, j := range core {
			if ts[b] == nil {
				continue
			}
			rt, ru := d.types[i], d.types[j]
			for _, p := range preds {
				if p.ok != nil && !p.ok(rt, ru) {
					continue
				}
				var x bool
				if pan := catchPanic(func() { x = p.x(ts[a], ts[b]) }); pan != nil {
					c.Violation("C29|"+p.name+"-panics|"+c29KindClass(rt)+"->"+c29KindClass(ru), fmt.Sprintf("%s.%s(%s) panics: %v", c29TypeString(rt), p.name, c29TypeString(ru), pan),
						c29Case{Kind: "pair", Thorough: k.thorough, Type: rt.String(), Index: i, Other: ru.String(), Index2: j, Pred: p.name})
					continue
				}
				want := p.r(rt, ru)
				if p.name == "ConvertibleTo" && !want && c29UnsafeConv(rt, ru) {
					want = true // package unsafe: pointers and uintptr convert to and from unsafe.Pointer; reflect does not implement it
					c.Count("unsafe_pointer_conversions_by_spec", 1)
				}
				c.Eval(1)
				ok := x == want
				hasStd := stdT[a] != nil && stdT[b] != nil
				var g bool
				if hasStd {
					g = p.g(stdT[a], stdT[b])
					c.Count("pairs_with_go_types_answer", 1)
					if g != want {
						c.Count("reflect_vs_go_types_disagree", 1)
						c.Nontrivial("RG|" + p.name + "|" + rt.String() + "|" + ru.String())
						if x == g {
							ok = true
						}
					}
				}
				if want || (hasStd && g) {
					if i != j {
						c.Nontrivial("P|" + p.name + "|" + rt.String() + "|" + ru.String())
					}
				}
				if !ok {
					detail := ""
					if hasStd {
						detail = fmt.Sprintf(", go/types %v", g)
					}
					c.Violation("C29|"+p.name+"|"+c29KindClass(rt)+"->"+c29KindClass(ru)+fmt.Sprintf("|got %v", x),
						fmt.Sprintf("%s.%s(%s) = %v, reflect %v%s", c29TypeString(rt), p.name, c29TypeString(ru), x, want, detail),
						c29Case{Kind: "pair", Thorough: k.thorough, Type: rt.String(), Index: i, Other: ru.String(), Index2: j, Pred: p.name})
				}
			}
		}
	}
}

func c29UnsafeConv(a, b r.Type) bool {
	ok := func(k r.Kind) bool { return k == r.Ptr || k == r.Uintptr || k == r.UnsafePointer }
	return a.Kind() == r.UnsafePointer && ok(b.Kind()) || b.Kind() == r.UnsafePointer && ok(a.Kind())
}

func catchPanic(f func()) (p interface{}) {
	defer func() {
		if r := recover(); r != nil {
			p = r
		}
	}()
	f()
	return nil
}
