package props

// C19 — debugging is transparent; step/next/finish/continue stop where documented.
//
// Explicit-state search over debugger command sequences, on the real fast.Interp + the real fast/debug.Debugger
// (scripted Readline). Per program:
//   1. T = the full single-step trace (Interp.DebugExpr, always "step"): every consultation of the debugger
//      (kind, call depth, IP, source position, hook clock). Keys are unique, so a stop of any other run is an index into T.
//   2. the documented stop rule is evaluated on T:   step -> next stop;  next -> first later stop with depth <= current;
//      finish -> first later stop with depth < current;  continue -> next breakpoint;  explicit breakpoints always stop.
//   3. every command sequence over {continue, finish, next, step} up to depth 6 WITHOUT merging (both ways of entering
//      the debugger: DebugExpr from the first statement, and a plain Eval that hits a "break" statement), then BFS with
//      state = (index into T, set of caller frames that were running at full speed when a breakpoint re-entered the
//      debugger); every BFS transition is executed on a fresh interpreter (replay path + 1 command).
//   4. transparency: output, follow-up evaluation and hidden state equal the never-debugged run, for every sequence.

import (
	"encoding/json"
	"fmt"
	"hash/fnv"
	"os"
	"sort"
	"strings"

	"verif/harness/core"
)

func init() {
	core.Register(&core.Check{ID: "C19", Level: "model_checking", Workers: -1,
		// the compiled-Go reference of the executed statements is built once by the parent (cached by content)
		Prepare: func(c *core.Ctx) error { _, err := c19RefCorpus(c.Tier, c19TraceCorpus(c.Thorough())); return err },
		Run:     c19Run, Replay: c19Replay})
}

var c19Cmds = []string{"continue", "finish", "next", "step"}

type c19Model struct {
	prog      c19Prog
	E         []c19Event
	idx       map[string]int
	entry     []int // first event of the frame activation containing E[i]
	refOut    string
	refFollow string
	refState  c12State
	broken    string // T could not be built (runaway / hang / kill)
}

type c19Case struct {
	Prog  string   `json:"program"`
	Start string   `json:"start"` // debug | run
	Cmds  []string `json:"commands"`
	Salt  uint32   `json:"spelling_salt"`
	Decls string   `json:"source,omitempty"`
}

func c19BuildModel(p c19Prog) *c19Model {
	m := &c19Model{prog: p, idx: map[string]int{}}
	m.refOut, m.refFollow, m.refState = c19Reference(p, true)
	w := newC19World(p, true)
	r := w.run("debug", c19Script(0, nil, "step", false))
	m.E = r.Events
	if r.Killed != "" || r.Hung {
		m.broken = r.Killed
		if r.Hung {
			m.broken = "hang"
		}
		return m
	}
	// frame activations from the depth profile
	type fr struct{ depth, entry int }
	var stack []fr
	m.entry = make([]int, len(m.E))
	for i, e := range m.E {
		for len(stack) > 0 && stack[len(stack)-1].depth > e.Depth {
			stack = stack[:len(stack)-1]
		}
		if len(stack) == 0 || stack[len(stack)-1].depth < e.Depth {
			stack = append(stack, fr{e.Depth, i})
		}
		m.entry[i] = stack[len(stack)-1].entry
		if _, dup := m.idx[e.key()]; dup {
			panic(fmt.Sprintf("C19 harness: program %s: stop key %s is not unique in the single-step trace", p.ID, e.key()))
		}
		m.idx[e.key()] = i
	}
	return m
}

// active returns the entry indices of the frame activations active at event i, by increasing depth.
func (m *c19Model) active(i int) []int {
	var out []int
	d := m.E[i].Depth + 1
	for j := i; j >= 0; j-- {
		if m.E[j].Depth < d {
			out = append(out, m.entry[j])
			d = m.E[j].Depth
			j = m.entry[j]
		}
	}
	sort.Ints(out)
	return out
}

func (m *c19Model) pred(cmd string, d int, c int) bool {
	e := m.E[c]
	if !e.prompts() {
		return false
	}
	if e.Kind == "bp" {
		return true
	}
	switch cmd {
	case "step":
		return true
	case "next":
		return e.Depth <= d
	case "finish":
		return e.Depth < d
	}
	return false // continue: breakpoints only
}

// expect applies the documented rule: the first event after i satisfying the predicate, or -1 (runs to the end).
func (m *c19Model) expect(i int, cmd string) int {
	d := 0
	if i >= 0 {
		d = m.E[i].Depth
	}
	for c := i + 1; c < len(m.E); c++ {
		if m.pred(cmd, d, c) {
			return c
		}
	}
	return -1
}

type c19Verdict struct {
	Sig   string
	What  string
	Known bool // explained by the stale-caller-frames behaviour (still a violation of the documented rule)
}

type c19Trans struct {
	From  int
	Stale string
	Cmd   string
	To    int // -1 end, -2 junk
}

// c19CheckRun validates one executed run against the model. cmds are the commands given at stops 0..len-1 (then tail).
// It returns the verdicts (empty = conforming), the validated transitions, and the state reached after the last
// command of cmds (index into T, stale set), or ok=false if the run did not get that far / left the model.
func (m *c19Model) checkRun(start string, cmds []string, tail string, r c19Result) (vs []c19Verdict, trans []c19Trans, endIdx int, endStale []int, ok bool) {
	add := func(sig, what string, known bool) { vs = append(vs, c19Verdict{sig, what, known}) }
	// transparency first
	if r.Hung {
		add("C19|hang", "the evaluation under the debugger did not terminate (interrupted by the watchdog)", false)
	}
	if r.Killed != "" && r.Killed != "stop-past-end-of-function" {
		add("C19|"+r.Killed, "the run was killed by the harness: "+r.Killed, false)
	}
	if !r.Hung && r.Killed == "" && r.Out != m.refOut {
		add("C19|transparency|output", fmt.Sprintf("program output under the debugger %q, without debugger %q", r.Out, m.refOut), false)
	}
	if !r.Hung && r.Killed == "" {
		if r.Follow != m.refFollow {
			add("C19|transparency|follow-up-evaluation", fmt.Sprintf("evaluation after the debugged one gives %q, without debugger %q", r.Follow, m.refFollow), false)
		}
		if bad := c12Invariant(m.refState, r.State); len(bad) != 0 {
			add("C19|transparency|state:"+c12BadFields(bad), "hidden state after the debugged evaluation + one plain evaluation: "+strings.Join(bad, "; "), false)
		}
	}
	for _, a := range r.Anomalies {
		add("C19|prompt-mismatch", a, false)
	}
	if r.Unexpect != 0 {
		add("C19|prompt-mismatch", fmt.Sprintf("the debugger read %d more lines than the commands it was given", r.Unexpect), false)
	}

	// stop sequence
	cmdAt := func(n int) string {
		if n < len(cmds) {
			return cmds[n]
		}
		return tail
	}
	// observed stops as T indices (-2 = end-of-function junk stop, -3 = unknown)
	var obs []int
	for _, si := range r.Stops {
		ev := r.Events[si]
		if ev.Pos == "end" {
			obs = append(obs, -2)
		} else if ti, found := m.idx[ev.key()]; found {
			obs = append(obs, ti)
		} else {
			obs = append(obs, -3)
		}
	}
	cur := -1 // index in T of the current stop (-1 = before the program)
	var stale []int
	cmd := "step"
	if start == "run" {
		cmd = "continue"
	}
	validating := true
	endIdx, ok = -1, false
	for n := 0; ; n++ {
		// transition from cur with cmd to obs[n] (or end)
		to := -1
		if n < len(obs) {
			to = obs[n]
		}
		exp := m.expect(cur, cmd)
		staleKey := fmt.Sprint(stale)
		if validating {
			trans = append(trans, c19Trans{cur, staleKey, cmd, to})
		}
		evs := func(i int) string {
			if i == -1 {
				return "end of program"
			}
			if i < 0 {
				return "?"
			}
			return fmt.Sprintf("T[%d] %s", i, m.E[i])
		}
		if validating && to != exp {
			from := "program start"
			d := 0
			if cur >= 0 {
				from = evs(cur)
				d = m.E[cur].Depth
			}
			switch {
			case to == -3:
				add("C19|stop-rule|"+cmd+"|stop-not-in-single-step-trace", fmt.Sprintf("after %q at %s the debugger stopped at %s, which is not a stop of the single-step trace", cmd, from, r.Events[r.Stops[n]]), false)
				validating = false
			case to == -2:
				ev := r.Events[r.Stops[n]]
				known := false
				if cur >= 0 {
					for _, a := range m.active(cur) {
						if m.E[a].Depth == ev.Depth && containsInt(stale, a) {
							known = true
						}
					}
				}
				sig := "C19|stop-rule|" + cmd + "|spurious-stop-past-end-of-function"
				if known {
					sig += "|frame-resumed-at-full-speed-before-breakpoint"
				}
				add(sig, fmt.Sprintf("after %q at %s the debugger stopped at IP=%d past the last statement of the function at depth %d (expected %s)", cmd, from, ev.IP, ev.Depth, evs(exp)), known)
				validating = false
			case to >= 0 && exp >= 0 && to < exp, to >= 0 && exp == -1 && !m.pred(cmd, d, to):
				add("C19|stop-rule|"+cmd+"|stopped-too-early", fmt.Sprintf("after %q at %s the debugger stopped at %s, expected %s", cmd, from, evs(to), evs(exp)), false)
			default:
				// stopped later than documented (or not at all): which stops were skipped?
				hi := len(m.E)
				if to >= 0 {
					hi = to
				}
				known := cmd != "continue"
				skipped := 0
				firstSkipped := -1
				for c := cur + 1; c < hi; c++ {
					if m.pred(cmd, d, c) {
						skipped++
						if firstSkipped < 0 {
							firstSkipped = c
						}
						if !(cur >= 0 && m.entry[c] <= cur && containsInt(stale, m.entry[c])) {
							known = false
						}
					}
				}
				if to >= 0 && !m.pred(cmd, d, to) {
					known = false
				}
				sig := "C19|stop-rule|" + cmd + "|missed-stops"
				if known {
					sig += "|in-frames-resumed-at-full-speed-before-breakpoint"
				}
				add(sig, fmt.Sprintf("after %q at %s the debugger skipped %d stop(s) the documented rule requires (first: %s) and stopped at %s", cmd, from, skipped, evs(firstSkipped), evs(to)), known)
			}
		}
		if to < 0 {
			if to == -1 && validating && n == len(cmds) {
				endIdx, endStale, ok = -1, nil, true
			}
			break
		}
		// update the stale set: frames that ran at full speed while the debugger was off
		next := cmdAt(n)
		act := m.active(to)
		own := m.entry[to]
		var ns []int
		if cmd == "continue" {
			// every frame active at the breakpoint except its own was resumed (or entered) at full speed
			for _, a := range act {
				if a != own {
					ns = append(ns, a)
				}
			}
		} else {
			for _, a := range act {
				if a != own && containsInt(stale, a) {
					ns = append(ns, a)
				}
			}
		}
		stale = ns
		cur, cmd = to, next
		if validating && n+1 == len(cmds) {
			// state after the last explicit command is reached at the NEXT stop; recorded below when n == len(cmds)
		}
		if validating && n == len(cmds) {
			endIdx, endStale, ok = to, append([]int{}, stale...), true
		}
	}
	return
}

func containsInt(v []int, x int) bool {
	for _, y := range v {
		if y == x {
			return true
		}
	}
	return false
}

func c19Salt(prog string, start string, cmds []string) uint32 {
	f := fnv.New32a()
	f.Write([]byte(prog + "|" + start + "|" + strings.Join(cmds, ",")))
	return f.Sum32()
}

// c19Exec runs one command sequence in w (fresh or reused) and validates it.
func c19Exec(m *c19Model, w *c19World, start string, cmds []string) (c19Result, []c19Verdict, []c19Trans, int, []int, bool) {
	salt := c19Salt(m.prog.ID, start, cmds)
	r := w.run(start, c19Script(salt, cmds, "continue", true))
	vs, tr, ei, es, ok := m.checkRun(start, cmds, "continue", r)
	return r, vs, tr, ei, es, ok
}

var c19Confirmed = map[string]int{}

func c19Report(c *core.Ctx, m *c19Model, start string, cmds []string, vs []c19Verdict, reused bool) {
	if len(vs) == 0 {
		return
	}
	cas := c19Case{Prog: m.prog.ID, Start: start, Cmds: append([]string{}, cmds...), Salt: c19Salt(m.prog.ID, start, cmds), Decls: m.prog.Decls}
	// confirm on fresh interpreters (a signature already confirmed 5 times in this worker is not re-confirmed)
	need := false
	for _, v := range vs {
		if c19Confirmed[v.Sig] < 5 {
			need = true
		}
	}
	confirmed := map[string]int{}
	if !need {
		for _, v := range vs {
			confirmed[v.Sig] = 3
		}
	}
	for i := 0; i < 3 && need; i++ {
		_, vs2, _, _, _, _ := c19Exec(m, newC19World(m.prog, true), start, cmds)
		for _, v := range vs2 {
			confirmed[v.Sig]++
		}
	}
	for _, v := range vs {
		sig := v.Sig
		switch n := confirmed[v.Sig]; {
		case n == 0 && reused:
			sig = "C19|history-dependent|" + strings.TrimPrefix(sig, "C19|")
		case n < 3:
			sig = "FLAKY|" + sig
		default:
			c19Confirmed[v.Sig]++
		}
		c.Violation(sig, fmt.Sprintf("program %s, debugger entered by %s, commands %v: %s", m.prog.ID, map[string]string{"debug": "Interp.DebugExpr", "run": "a breakpoint in a plain Eval"}[start], cmds, v.What), cas)
		if v.Known {
			c.Count("stale_frame_explained_verdicts", 1)
		}
	}
}

func c19Run(c *core.Ctx) {
	if os.Getenv("C19_DUMP") != "" {
		c19Dump()
		return
	}
	depth := 6
	c.Rule(fmt.Sprintf("programs = call chains of depth <= 3 over per-level shapes {plain, loop, defer, closure, earlyret, earlyret2, noreturn, defers, recover, switch, labels, scopes} with \"break\" statements at enumerated levels; "+
		"family 0, every program (all ordered pairs of shapes over a plain leaf, every shape as leaf; thorough: all triples): the full single-step trace T is compared with the simple statements executed by COMPILED GO "+
		"(instrumented copy of the program: line, call depth, hook clock) - every executed statement must be a stop of T, in order, and T has no stop where no statement/header/clause is; "+
		"per program: full single-step trace T; all command sequences over {continue, finish, next, step} of length %d (thorough: 7 for the two-level programs) without merging, entered both by DebugExpr and by a breakpoint hit in a plain Eval "+
		"(commands spelled with abbreviations, empty-line repeat, surrounding blanks and interleaved inert commands); BFS over states (index into T, stale caller frames), one fresh interpreter per transition; "+
		"oracle per transition = documented stop rule evaluated on T, plus output/follow-up/hidden-state transparency. "+
		"non-trivial = distinct (program, entry, state, command) transitions that stopped at a statement (not at the end of the program), plus distinct (program, line, depth, clock) statement executions of compiled Go checked against T", depth))
	c.Assume("execution is deterministic, so a stop is identified by (kind, depth, IP, position, hook clock) in T",
		"compiled Go (go1.23.5) running the instrumented copy of a program defines which simple statements are executed, in which order and at which call depth; stops of T on header/clause/closing-brace/func lines, at the entry of a called function literal, or inside the extent of the statement the frame is executing are tolerated and counted",
		"frame activations are recovered from the depth profile of T (programs have no two same-depth calls in one statement)")
	progs := c19Corpus(c.Thorough())
	if c.Shard == 0 {
		c.Set("programs", len(progs))
		c.Set("unmerged_depth", depth)
	}
	unit := 0
	// ---- family 0: the single-step trace itself against the statements executed by compiled Go (c19_ref.go)
	tprogs := c19TraceCorpus(c.Thorough())
	refs, err := c19RefCorpus(c.Tier, tprogs)
	if err != nil {
		panic(err)
	}
	if c.Shard == 0 {
		c.Set("trace_vs_compiled_go_programs", len(tprogs))
	}
	for _, p := range tprogs {
		unit++
		if !c.Mine(unit) {
			continue
		}
		if c.Expired() {
			break
		}
		m := c19BuildModel(p)
		if m.broken != "" {
			c.Violation("C19|single-step-trace|"+m.broken, fmt.Sprintf("program %s: single-stepping with the command step does not reach the end of the program (%s)", p.ID, m.broken),
				c19Case{Prog: p.ID, Start: "debug", Cmds: nil, Decls: p.Decls})
			continue
		}
		c19TraceUnit(c, m, refs[p.ID])
	}
	for _, p := range progs {
		if c.Expired() {
			break
		}
		var m *c19Model
		model := func() *c19Model {
			if m == nil {
				m = c19BuildModel(p)
			}
			return m
		}
		// ---- BFS (one unit per program)
		unit++
		if c.Mine(unit) {
			m := model()
			if m.broken != "" {
				c.Violation("C19|single-step-trace|"+m.broken, fmt.Sprintf("program %s: single-stepping with the command step does not reach the end of the program (%s): the debugger is consulted at the end-of-code sentinel of a function body that falls off its end, and again after every further command", p.ID, m.broken),
					c19Case{Prog: p.ID, Start: "debug", Cmds: nil, Decls: p.Decls})
				c.Count("programs_without_trace", 1)
			} else {
				if o2, _, _ := c19Reference(p, false); o2 != m.refOut {
					c.Violation("C19|transparency|option-debugger", fmt.Sprintf("program %s prints %q with the debugger option on and %q with the option off (no debugger attached in either run)", p.ID, m.refOut, o2), c19Case{Prog: p.ID, Decls: p.Decls})
				}
				c19BFS(c, m)
			}
		}
		if model().broken != "" {
			continue
		}
		// ---- un-merged sequences: units = (entry, first two commands)
		for _, start := range []string{"debug", "run"} {
			for _, c1 := range c19Cmds {
				for _, c2 := range c19Cmds {
					unit++
					if !c.Mine(unit) {
						continue
					}
					d := depth
					if c.Thorough() && len(p.Shapes) == 2 {
						d = 7
					}
					c19Unmerged(c, model(), start, []string{c1, c2}, d)
				}
			}
		}
	}
	for k, n := range c19SpellCount {
		c.Count(k, n)
	}
}

func c19BFS(c *core.Ctx, m *c19Model) {
	type node struct {
		start string
		path  []string
	}
	seen := map[string]bool{}
	var frontier []node
	states, trans := 0, 0
	// initial states: the first stop of either way of entering the debugger
	for _, start := range []string{"debug", "run"} {
		r, vs, tr, ei, es, ok := c19Exec(m, newC19World(m.prog, true), start, nil)
		_ = r
		c.Eval(1)
		c.Traces(1)
		c19Report(c, m, start, nil, vs, false)
		trans += 1
		_ = tr
		if ok && ei >= 0 {
			k := fmt.Sprint(ei, es)
			if !seen[k] {
				seen[k] = true
				states++
				frontier = append(frontier, node{start, nil})
			}
		}
	}
	for len(frontier) > 0 {
		if c.Expired() {
			break
		}
		cur := frontier[0]
		frontier = frontier[1:]
		for _, cmd := range c19Cmds {
			path := append(append([]string{}, cur.path...), cmd)
			_, vs, tr, ei, es, ok := c19Exec(m, newC19World(m.prog, true), cur.start, path)
			c.Eval(1)
			c.Traces(1)
			trans++
			c19Report(c, m, cur.start, path, vs, false)
			if len(tr) > len(path) {
				t := tr[len(path)]
				if t.To >= 0 {
					c.Nontrivial(fmt.Sprintf("%s|%s|%d|%s|%s", m.prog.ID, cur.start, t.From, t.Stale, t.Cmd))
				}
			}
			if ok && ei >= 0 {
				k := fmt.Sprint(ei, es)
				if !seen[k] {
					seen[k] = true
					states++
					frontier = append(frontier, node{cur.start, path})
				}
			}
		}
	}
	c.States(states + 1) // + the end-of-program state
	c.Transitions(trans)
	c.Count("trace_events_total", len(m.E))
	if c.WantSample() {
		c.Sample(map[string]interface{}{"program": m.prog.ID, "single_step_trace_events": len(m.E), "bfs_states": states + 1, "bfs_transitions": trans})
	}
}

func c19Unmerged(c *core.Ctx, m *c19Model, start string, prefix []string, depth int) {
	w := newC19World(m.prog, true)
	seq := make([]int, depth-len(prefix))
	runs := 0
	for {
		if c.Expired() {
			return
		}
		cmds := append([]string{}, prefix...)
		for _, x := range seq {
			cmds = append(cmds, c19Cmds[x])
		}
		r, vs, tr, _, _, _ := c19Exec(m, w, start, cmds)
		runs++
		c.Eval(1)
		c.Traces(1)
		c.Count("unmerged_sequences", 1)
		c19Report(c, m, start, cmds, vs, true)
		for _, t := range tr {
			if t.To >= 0 {
				c.Nontrivial(fmt.Sprintf("%s|%s|%d|%s|%s", m.prog.ID, start, t.From, t.Stale, t.Cmd))
			}
		}
		// commands actually consumed: sequences differing only in unconsumed commands are the same run
		used := len(r.Stops)
		if used > len(cmds) {
			used = len(cmds)
		}
		if used < len(prefix) {
			return // the program ended before the prefix was consumed: all sequences of this unit are this run
		}
		// next sequence: increment at position used-1 (relative to seq), dropping everything after it
		pos := used - len(prefix) - 1
		if pos >= len(seq) {
			pos = len(seq) - 1
		}
		if pos < 0 {
			return
		}
		for i := pos + 1; i < len(seq); i++ {
			seq[i] = 0
		}
		for pos >= 0 {
			seq[pos]++
			if seq[pos] < len(c19Cmds) {
				break
			}
			seq[pos] = 0
			pos--
		}
		if pos < 0 {
			return
		}
	}
}

func c19Replay(c *core.Ctx, raw json.RawMessage) {
	var cas c19Case
	if err := json.Unmarshal(raw, &cas); err != nil {
		panic(err)
	}
	p, ok := c19ProgByID(cas.Prog)
	if !ok {
		panic("C19: unknown program " + cas.Prog)
	}
	m := c19BuildModel(p)
	if m.broken != "" {
		c.Violation("C19|single-step-trace|"+m.broken, "single-stepping never reaches the end of the program: "+m.broken, cas)
		return
	}
	if cas.Start == "trace" {
		refs, err := c19RefCorpus("replay", []c19Prog{p})
		if err != nil {
			panic(err)
		}
		vs, _ := c19CheckTrace(m, refs[p.ID])
		for _, v := range vs {
			c.Violation(v.Sig, v.What, cas)
		}
		return
	}
	_, vs, _, _, _, _ := c19Exec(m, newC19World(p, true), cas.Start, cas.Cmds)
	for _, v := range vs {
		c.Violation(v.Sig, v.What, cas)
	}
}

func c19Dump() {
	id := os.Getenv("C19_DUMP")
	p, ok := c19ProgByID(id)
	if !ok {
		panic("bad id")
	}
	fmt.Println(p.Decls)
	if refs, err := c19RefCorpus("dump", []c19Prog{p}); err != nil {
		fmt.Println("REFERENCE ERROR:", err)
	} else {
		ref := refs[p.ID]
		fmt.Println("---- instrumented:")
		fmt.Println(ref.Info.Instr)
		fmt.Println("---- executed simple statements (compiled Go):", len(ref.Evs))
		for _, e := range ref.Evs {
			fmt.Printf("   line %d depth %d clock %d bp=%v %s\n", e.Line, e.Depth, e.Clock, e.BP, ref.Info.Simple[e.Line].Kind)
		}
		m := c19BuildModel(p)
		vs, st := c19CheckTrace(m, ref)
		fmt.Printf("---- trace check: %+v broken: %s\n", st, m.broken)
		for _, v := range vs {
			fmt.Println("   VERDICT", v.Sig, "::", v.What)
		}
	}
	var cmds []string
	json.Unmarshal([]byte(os.Getenv("C19_CMDS")), &cmds)
	for _, start := range []string{"debug", "run"} {
		w := newC19World(p, true)
		tail := "step"
		if cmds != nil {
			tail = "continue"
		}
		r := w.run(start, c19Script(1, cmds, tail, false))
		fmt.Printf("== start=%s out=%q killed=%q hung=%v anomalies=%v follow=%q\n", start, r.Out, r.Killed, r.Hung, r.Anomalies, r.Follow)
		si := 0
		for i, e := range r.Events {
			mark := "   "
			if si < len(r.Stops) && r.Stops[si] == i {
				mark = fmt.Sprintf("%3d", si)
				si++
			}
			fmt.Printf("%s %3d %s\n", mark, i, e)
		}
		if cmds != nil {
			m := c19BuildModel(p)
			vs, tr, ei, es, ok := m.checkRun(start, cmds, "continue", r)
			fmt.Println("verdicts:", vs)
			fmt.Println("trans:", tr, "end:", ei, es, ok)
		}
	}
}
