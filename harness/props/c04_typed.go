package props

// C04 stage T — untyped constants in typed contexts.

import (
	"fmt"
	"go/ast"
	"go/constant"
	"go/parser"
	"go/token"
	"go/types"
	"math"
	"math/big"
	"reflect"
	"strings"

	"verif/harness/core"
)

var c04Types = []string{"bool", "int", "int8", "int16", "int32", "int64", "uint", "uint8", "uint16", "uint32", "uint64", "uintptr",
	"float32", "float64", "complex64", "complex128", "string"}

var c04BigTypes = []string{"*big.Int", "*big.Rat", "*big.Float"}

// boundary seeds for stage T (all valid constant expressions): range ends ±1 of every integer kind, float32/float64
// overflow thresholds incl. the round-to-even half-way points, denormal thresholds, values that round differently when
// rounded twice (float64 then float32), integral float constants beyond 2^53, tiny negative values (sign of zero).
func c04Seeds() []string {
	s := []string{"-1", "65", "0xD800", "0x10FFFF", "0x110000", "1<<40", "1<<53", "1<<53 + 1", "1<<200", "-1<<200", "1<<24 + 1",
		"255.0", "256.0", "-128.0", "-129.0", "1e19", "1e20", "-0.0", "0.5 + 0.5", "1.0 / 3", "0.1",
		"9223372036854775807.0", "9223372036854775808.0", "-9223372036854775808.0", "-9223372036854775809.0", "18446744073709551615.0", "18446744073709551616.0",
		"9007199254740993", "9007199254740993.0", "4294967295.0", "4294967296.0", "2147483647.0", "2147483648.0",
		// float32 range
		"0x1.fffffep127", "0x1.fffffefp127", "0x1.ffffffp127", "0x1p128", "-0x1.ffffffp127", "1e38", "1e39", "-1e39",
		"0x1p-149", "0x1p-150", "0x1.8p-150", "0x1.000001p-150", "-0x1p-150", "1e-46", "-1e-46", "0x1p-126", "0x1.fffffcp-127",
		// float64 range
		"0x1.fffffffffffffp1023", "0x1.fffffffffffff7p1023", "0x1.fffffffffffff8p1023", "0x1p1024", "-0x1.fffffffffffff8p1023", "1e308", "1e309", "-1e309",
		"0x1p-1074", "0x1p-1075", "0x1.8p-1075", "0x1.0000000000001p-1075", "-0x1p-1075", "-1e-400", "0x1p-1022",
		// double rounding float64 -> float32
		"0x1.000001000000001p0", "-0x1.000001000000001p0", "0x1.000001p0", "0x1.0000010000000000001p0", "0x1.000002ffffffffffp0", "0x1.000003p0",
		// complex
		"1 + 2i", "0x1.000001000000001p0 + 1i", "1i + 0x1.000001000000001p0*1i", "1e39i", "1 + 1e39i", "1e309 + 0i", "1e309i", "0.1 + 0.1i", "1<<200 + 0i", "256 + 0i", "255 + 0i",
		"1.5 + 0i", "-1e-400 + 0i", "1 - 1e-400i", "-1e-400i", "9223372036854775807 + 0i", "1<<64 + 0i", "0i",
		// strings, runes, bools
		`"é"`, `"a" + "b"`, `'a' + 1`, `'\x00'`, "1 < 2", "!true",
	}
	for _, b := range []int{8, 16, 32, 64} {
		s = append(s,
			fmt.Sprintf("-1<<%d", b-1), fmt.Sprintf("-1<<%d - 1", b-1), fmt.Sprintf("1<<%d - 1", b-1), fmt.Sprintf("1<<%d", b-1),
			fmt.Sprintf("1<<%d - 1", b), fmt.Sprintf("1<<%d", b))
	}
	return s
}

// c04TypedPopulation: literals, distinct level-1 results, seeds and (thorough) the distinct depth-2 results from Prepare.
func c04TypedPopulation(p *c04Plan, shared *c04Shared) []*c04Node {
	seen := map[string]bool{}
	var out []*c04Node
	out = c04Merge(seen, out, p.lits)
	var seeds []*c04Node
	for _, s := range c04Seeds() {
		n := &c04Node{Src: s, Depth: 1}
		n.Kind, n.Val, n.Err = p.o.eval(s)
		if n.Err != "" {
			panic("C04 seed rejected by go/types: " + s + ": " + n.Err)
		}
		seeds = append(seeds, n)
	}
	out = c04Merge(seen, out, seeds)
	out = c04Merge(seen, out, p.v1)
	if shared != nil {
		for _, s := range shared.Values {
			out = append(out, &c04Node{Src: s.Src, Kind: s.Kind, Depth: s.Depth}) // Val computed lazily by the owner shard
		}
	}
	return out
}

// ---------------------------------------------------------------------------
// oracle for typed contexts

type c04Expect struct {
	OK  bool
	Val constant.Value // typed constant value (rounded by go/types for floats)
	Err string
}

// typedOracle type-checks "const cI T = (e)" (same rule as assignment of the constant to a variable of type T) and
// "const dI = T(e)" for all 17 kinds in one file; errors are attributed by line.
func (o *c04Oracle) typedOracle(src string) (asg, conv [17]c04Expect) {
	var sb strings.Builder
	sb.WriteString("package p\n")
	for i, t := range c04Types {
		fmt.Fprintf(&sb, "const c%d %s = (%s)\n", i, t, src) // line 2+i
	}
	for i, t := range c04Types {
		fmt.Fprintf(&sb, "const d%d = %s(%s)\n", i, t, src) // line 19+i
	}
	fset := token.NewFileSet()
	f, err := parser.ParseFile(fset, "t.go", sb.String(), 0)
	if err != nil {
		panic("C04 typed oracle: " + err.Error() + "\n" + sb.String())
	}
	errs := map[int]string{}
	conf := types.Config{Error: func(e error) {
		if te, ok := e.(types.Error); ok {
			line := te.Fset.Position(te.Pos).Line
			if _, dup := errs[line]; !dup {
				errs[line] = te.Msg
			}
		}
	}}
	pkg, _ := conf.Check("p", fset, []*ast.File{f}, nil)
	get := func(name string, line int, want string) c04Expect {
		if msg, bad := errs[line]; bad {
			return c04Expect{Err: msg}
		}
		obj, _ := pkg.Scope().Lookup(name).(*types.Const)
		if obj == nil || obj.Val() == nil || obj.Val().Kind() == constant.Unknown {
			return c04Expect{Err: "invalid constant (no error position)"}
		}
		if b, ok := obj.Type().(*types.Basic); !ok || b.Name() != want && !(want == "uint8" && b.Name() == "byte") && !(want == "int32" && b.Name() == "rune") {
			panic(fmt.Sprintf("C04 typed oracle: %s has type %v, want %s", name, obj.Type(), want))
		}
		return c04Expect{OK: true, Val: obj.Val()}
	}
	for i, t := range c04Types {
		asg[i] = get(fmt.Sprintf("c%d", i), 2+i, t)
		conv[i] = get(fmt.Sprintf("d%d", i), 19+i, t)
	}
	return
}

// c04FitClass says why a constant does not fit type t (signature detail), from the exact value.
func c04FitClass(t string, v constant.Value) string {
	num := v.Kind() == constant.Int || v.Kind() == constant.Float || v.Kind() == constant.Complex
	if !num || t == "bool" || t == "string" {
		return "kind-mismatch"
	}
	if strings.HasPrefix(t, "complex") {
		return "overflow"
	}
	if constant.Sign(constant.Imag(v)) != 0 {
		return "imaginary-part"
	}
	if strings.HasPrefix(t, "float") {
		return "overflow"
	}
	if constant.ToInt(constant.Real(v)).Kind() != constant.Int {
		return "truncated"
	}
	return "overflow"
}

// c04TypedEqual compares the interpreter's typed value with Go's typed constant, bit-exactly.
// detail names the way they differ (used in the signature).
func c04TypedEqual(t string, want constant.Value, got interface{}) (ok bool, detail string) {
	rv := reflect.ValueOf(got)
	if !rv.IsValid() || rv.Type().String() != t || rv.Type().PkgPath() != "" {
		return false, "wrong-type"
	}
	f32 := func(w constant.Value, g float32) (bool, string) {
		wf, _ := constant.Float32Val(w)
		if math.Float32bits(wf) == math.Float32bits(g) {
			return true, ""
		}
		switch {
		case wf == 0 && g == 0:
			return false, "negative-zero"
		case math.IsInf(float64(g), 0):
			return false, "inf"
		}
		if w64, _ := constant.Float64Val(w); float32(w64) == g {
			return false, "double-rounding"
		}
		return false, "other"
	}
	f64 := func(w constant.Value, g float64) (bool, string) {
		wf, _ := constant.Float64Val(w)
		if math.Float64bits(wf) == math.Float64bits(g) {
			return true, ""
		}
		switch {
		case wf == 0 && g == 0:
			return false, "negative-zero"
		case math.IsInf(g, 0):
			return false, "inf"
		case g == 0:
			return false, "zero"
		}
		return false, "other"
	}
	switch rv.Kind() {
	case reflect.Bool:
		return want.Kind() == constant.Bool && constant.BoolVal(want) == rv.Bool(), "other"
	case reflect.String:
		return want.Kind() == constant.String && constant.StringVal(want) == rv.String(), "other"
	case reflect.Int, reflect.Int8, reflect.Int16, reflect.Int32, reflect.Int64:
		w, exact := constant.Int64Val(constant.ToInt(want))
		return exact && w == rv.Int(), "other"
	case reflect.Uint, reflect.Uint8, reflect.Uint16, reflect.Uint32, reflect.Uint64, reflect.Uintptr:
		w, exact := constant.Uint64Val(constant.ToInt(want))
		return exact && w == rv.Uint(), "other"
	case reflect.Float32:
		return f32(want, float32(rv.Float()))
	case reflect.Float64:
		return f64(want, rv.Float())
	case reflect.Complex64:
		g := complex64(rv.Complex())
		if ok, d := f32(constant.Real(want), real(g)); !ok {
			return false, "real-" + d
		}
		if ok, d := f32(constant.Imag(want), imag(g)); !ok {
			return false, "imag-" + d
		}
		return true, ""
	case reflect.Complex128:
		g := rv.Complex()
		if ok, d := f64(constant.Real(want), real(g)); !ok {
			return false, "real-" + d
		}
		if ok, d := f64(constant.Imag(want), imag(g)); !ok {
			return false, "imag-" + d
		}
		return true, ""
	}
	return false, "wrong-type"
}

// c04TypeClass: all integer kinds share the conversion code and form one signature class.
func c04TypeClass(t string) string {
	if strings.HasPrefix(t, "int") || strings.HasPrefix(t, "uint") {
		return "integer"
	}
	return t
}

// c04Magnitude classifies the source constant for signatures.
func c04Magnitude(v constant.Value) string {
	switch v.Kind() {
	case constant.Int:
		if _, ok := constant.Int64Val(v); ok {
			return "int64-range"
		}
		if _, ok := constant.Uint64Val(v); ok {
			return "uint64-range"
		}
		return "beyond-64bit"
	case constant.Float:
		if f, exact := constant.Float64Val(v); exact {
			if f == math.Trunc(f) {
				return "integral-float64-exact"
			}
			return "float64-exact"
		}
		if constant.ToInt(v).Kind() == constant.Int {
			return "integral-not-float64-exact"
		}
		return "not-float64-exact"
	case constant.Complex:
		return "complex"
	}
	return v.Kind().String()
}

func (w *c04World) checkTyped(c *core.Ctx, o *c04Oracle, v *c04Node) {
	asg, conv := o.typedOracle(v.Src)
	for i, t := range c04Types {
		w.checkTypedCtx(c, v, "var", t, asg[i])
		w.checkTypedCtx(c, v, "conv", t, conv[i])
	}
	for _, t := range c04BigTypes {
		w.checkBig(c, v, "var", t)
		w.checkBig(c, v, "conv", t)
	}
}

func (w *c04World) checkTypedOne(c *core.Ctx, o *c04Oracle, v *c04Node, form, t string) {
	if v.Err != "" {
		panic("replay: go/types rejects " + v.Src + ": " + v.Err)
	}
	for _, bt := range c04BigTypes {
		if bt == t {
			w.checkBig(c, v, form, t)
			return
		}
	}
	asg, conv := o.typedOracle(v.Src)
	for i, tt := range c04Types {
		if tt == t {
			if form == "var" {
				w.checkTypedCtx(c, v, form, t, asg[i])
			} else {
				w.checkTypedCtx(c, v, form, t, conv[i])
			}
		}
	}
}

func (w *c04World) typedSrc(form, t, src string) string {
	if form == "var" {
		w.decls++
		return fmt.Sprintf("var v%d %s = %s; v%d", w.decls, t, src, w.decls)
	}
	if strings.HasPrefix(t, "*") {
		return fmt.Sprintf("(%s)(%s)", t, src)
	}
	return fmt.Sprintf("%s(%s)", t, src)
}

func (w *c04World) checkTypedCtx(c *core.Ctx, v *c04Node, form, t string, want c04Expect) {
	c.Eval(1)
	w.interp(false)
	src := w.typedSrc(form, t, v.Src)
	g := w.eval(src, false)
	ctx := form + "|" + c04TypeClass(t) + "<-" + c04KindClass(v.Kind)
	cas := c04Case{Stage: "typed", Src: v.Src, Form: form, T: t, Got: g.String()}
	if !want.OK {
		c.Count("typed_go_rejects", 1)
		c.Nontrivial("t|" + form + t + "|rej|" + v.Kind + v.Val.ExactString())
		cas.Want = "rejected: " + want.Err
		if g.Rejected == "" {
			c04Viol(c, "C04|typed|"+ctx+"|accepts-nonfitting|"+c04FitClass(t, v.Val),
				fmt.Sprintf("%s : Go rejects (%s), interpreter gives %s", src, want.Err, g.String()), cas, src, &g)
		}
		return
	}
	c.Count("typed_go_accepts", 1)
	cas.Want = fmt.Sprintf("%s %s", t, want.Val.ExactString())
	changed := want.Val.Kind() != v.Val.Kind() || !c04SameValue(want.Val, v.Val) || (v.Kind != t && !(v.Kind == "float" && t == "float64") && !(v.Kind == "complex" && t == "complex128"))
	if changed {
		c.Nontrivial("t|" + form + t + "|" + v.Kind + v.Val.ExactString())
	}
	switch {
	case g.Rejected != "":
		c04Viol(c, "C04|typed|"+ctx+"|rejects-fitting|"+c04Magnitude(v.Val), fmt.Sprintf("%s : Go gives %s, interpreter: %s", src, cas.Want, g.String()), cas, src, &g)
	case g.Untyped:
		c04Viol(c, "C04|typed|"+ctx+"|still-untyped", fmt.Sprintf("%s : Go gives %s, interpreter: %s", src, cas.Want, g.String()), cas, src, &g)
	default:
		if ok, detail := c04TypedEqual(t, want.Val, g.Value); !ok {
			c04Viol(c, "C04|typed|"+ctx+"|value|"+detail+"|"+c04Magnitude(v.Val), fmt.Sprintf("%s : Go gives %s, interpreter: %s", src, cas.Want, g.String()), cas, src, &g)
		}
	}
}

// checkBig: conversion of the untyped constant to *big.Int / *big.Rat / *big.Float (a gomacro extension): whenever the
// value is representable in the target, the conversion must succeed and be exact. Nothing is demanded otherwise.
func (w *c04World) checkBig(c *core.Ctx, v *c04Node, form, t string) {
	r, real := c04Rat(v.Val)
	if !real {
		c.Count("big_not_real_or_too_large_no_claim", 1)
		return
	}
	representable := true
	switch t {
	case "*big.Int":
		representable = r.IsInt()
	case "*big.Float":
		representable = c04IsPow2(r.Denom())
	}
	if !representable {
		c.Count("big_not_representable_no_claim", 1)
		return
	}
	c.Eval(1)
	w.interp(true)
	src := w.typedSrc(form, t, v.Src)
	g := w.eval(src, true)
	ctx := form + "|" + t + "<-" + c04KindClass(v.Kind)
	c.Nontrivial("b|" + form + t + "|" + v.Kind + v.Val.ExactString())
	cas := c04Case{Stage: "big", Src: v.Src, Form: form, T: t, Got: g.String(), Want: t + " " + c04Clip(r.String())}
	mag := c04Magnitude(v.Val) + "|" + fmt.Sprintf("%T", constant.Val(v.Val))
	if g.Rejected != "" {
		c04Viol(c, "C04|big|"+ctx+"|rejects-representable|"+mag, fmt.Sprintf("%s : exact value %s is representable, interpreter: %s", src, c04Clip(r.String()), g.String()), cas, src, &g)
		return
	}
	var got *big.Rat
	switch x := g.Value.(type) {
	case *big.Int:
		if t == "*big.Int" && x != nil {
			got = new(big.Rat).SetInt(x)
		}
	case *big.Rat:
		if t == "*big.Rat" && x != nil {
			got = x
		}
	case *big.Float:
		if t == "*big.Float" && x != nil && !x.IsInf() {
			got, _ = x.Rat(nil)
		}
	}
	if got == nil {
		c04Viol(c, "C04|big|"+ctx+"|wrong-type|"+mag, fmt.Sprintf("%s : want %s, interpreter: %s", src, cas.Want, g.String()), cas, src, &g)
		return
	}
	if got.Cmp(r) != 0 {
		c04Viol(c, "C04|big|"+ctx+"|inexact|"+mag, fmt.Sprintf("%s : want exactly %s, interpreter: %s", src, cas.Want, g.String()), cas, src, &g)
	}
}
