package props

// C17 generator — renders dependency graphs as Go source. A reference from declaration N to name X is
// rendered by a *placement*: a fragment of type-expression (TE), value-expression (VE), statement (ST) or
// function-signature (SIG) category containing the identifier X, either as a real reference ("dep") or
// shadowed / not a reference at all ("decoy"). Which fragment is a reference is NOT told to the oracle:
// the reference analysis (c17_ref.go) decides that from the source text alone.

import (
	"fmt"
	"strings"
)

type c17Cat int

const (
	catTE c17Cat = iota
	catVE
	catST
	catSIG // function signature: "params|results|body-prefix"
)

type c17Placement struct {
	Name string
	Cat  c17Cat
	Dep  bool   // generator's intent (used only to choose placements for edges vs non-edges)
	Text string // @ is replaced by the target name
}

var c17Placements = []c17Placement{
	// ---- type expressions
	{"t-direct", catTE, true, "@"},
	{"t-ptr", catTE, true, "*@"},
	{"t-slice", catTE, true, "[]@"},
	{"t-mapval", catTE, true, "map[string]@"},
	{"t-mapkey", catTE, true, "map[@]bool"},
	{"t-chan", catTE, true, "chan @"},
	{"t-func-param", catTE, true, "func(@)"},
	{"t-func-named", catTE, true, "func(a @) (b @)"},
	{"t-struct", catTE, true, "struct{ f @ }"},
	{"t-embedded", catTE, true, "struct{ @ }"},
	{"t-iface", catTE, true, "interface{ M(@) }"},
	{"t-arraylen", catTE, true, "[@]int"},
	{"t-fieldname-then-ref", catTE, true, "struct{ @ int; g @ }"},
	{"t-paramname-then-ref", catTE, true, "func(@ int) @"},
	{"t-fieldname", catTE, false, "struct{ @ int }"},
	{"t-methodname", catTE, false, "interface{ @() }"},
	{"t-paramname", catTE, false, "func(@ int)"},
	// ---- value expressions
	{"v-direct", catVE, true, "@"},
	{"v-arg", catVE, true, "len(@)"},
	{"v-sel", catVE, true, "@.f"},
	{"v-addr", catVE, true, "&@"},
	{"v-index", catVE, true, "@[0]"},
	{"v-conv", catVE, true, "@(0)"},
	{"v-lit-type", catVE, true, "@{}"},
	{"v-lit-elem", catVE, true, "[]interface{}{@}"},
	{"v-kv-val", catVE, true, "struct{ f interface{} }{f: @}"},
	{"v-kv-key-map", catVE, true, "map[interface{}]int{@: 1}"},
	{"v-kv-key-array", catVE, true, "[...]int{@: 1}"},
	{"v-kv-key-elided", catVE, true, "[]map[interface{}]int{{@: 1}}"},
	{"v-closure", catVE, true, "func() interface{} { return @ }()"},
	{"v-closure-b1", catVE, true, "func() (r interface{}) { { r = @ }; return }()"},
	{"v-closure-b2", catVE, true, "func() (r interface{}) { { { r = @ } }; return }()"},
	{"v-closure-nested", catVE, true, "func() interface{} { return func() interface{} { return @ }() }()"},
	{"v-closure-paramtype", catVE, true, "func(a @) {}"},
	{"v-closure-use-before-local", catVE, true, "func() interface{} { r := interface{}(@); var @ = 1; _ = @; return r }()"},
	{"v-kv-key-struct", catVE, false, "struct{ @ int }{@: 1}"},
	{"v-kv-key-struct-elided", catVE, false, "[]struct{ @ int }{{@: 1}}"},
	{"v-sel-field", catVE, false, "struct{ @ int }{}.@"},
	{"v-closure-param", catVE, false, "func(@ int) int { return @ }(1)"},
	{"v-closure-result", catVE, false, "func() (@ int) { @ = 1; return }()"},
	{"v-closure-var", catVE, false, "func() int { var @ = 1; return @ }()"},
	{"v-closure-define", catVE, false, "func() int { @ := 1; return @ }()"},
	{"v-closure-var-outer-block", catVE, false, "func() (r int) { var @ = 1; { r = @ }; return }()"},
	{"v-closure-param-nested", catVE, false, "func(@ int) int { return func() int { return @ }() }(1)"},
	// ---- statements (function bodies)
	{"s-d0", catST, true, "_ = @"},
	{"s-d1", catST, true, "{ _ = @ }"},
	{"s-d2", catST, true, "{ { _ = @ } }"},
	{"s-d3", catST, true, "{ { { _ = @ } } }"},
	{"s-if-body", catST, true, "if true { _ = @ }"},
	{"s-if-cond", catST, true, "if @ != nil { }"},
	{"s-else", catST, true, "if false { } else { _ = @ }"},
	{"s-for-body", catST, true, "for i := 0; i < 1; i++ { _ = @ }"},
	{"s-for-cond", catST, true, "for @ != nil { break }"},
	{"s-range-x", catST, true, "for range @ { }"},
	{"s-switch-tag", catST, true, "switch @ { }"},
	{"s-case-expr", catST, true, "switch 1 { case @: }"},
	{"s-case-body", catST, true, "switch { case true: _ = @ }"},
	{"s-typeswitch-case", catST, true, "switch interface{}(nil).(type) { case @: }"},
	{"s-closure", catST, true, "_ = func() { _ = @ }"},
	{"s-closure-d1", catST, true, "_ = func() { { _ = @ } }"},
	{"s-local-var-type", catST, true, "var l @; _ = l"},
	{"s-local-type", catST, true, "type l @"},
	{"s-defer", catST, true, "defer @()"},
	{"s-go", catST, true, "go @()"},
	{"s-assign-to", catST, true, "@ = nil"},
	{"s-incdec", catST, true, "@++"},
	{"s-send", catST, true, "@ <- 1"},
	{"s-return-lit", catST, true, "_ = func() interface{} { return @ }"},
	{"s-use-before-local", catST, true, "_ = @; var @ = 1; _ = @"},
	{"s-use-in-own-init", catST, true, "var @ = @; _ = @"},
	{"s-after-block", catST, true, "{ var @ = 1; _ = @ }; _ = @"},
	{"s-after-if-init", catST, true, "if @ := 1; @ > 0 { }; _ = @"},
	{"s-after-for-init", catST, true, "for @ := 0; @ < 1; @++ { }; _ = @"},
	{"s-define-rhs", catST, true, "@ := @; _ = @"},
	{"s-var", catST, false, "var @ = 1; _ = @"},
	{"s-define", catST, false, "@ := 1; _ = @"},
	{"s-define-multi", catST, false, "a, @ := 1, 2; _, _ = a, @"},
	{"s-var-inner1", catST, false, "var @ = 1; { _ = @ }"},
	{"s-var-inner2", catST, false, "var @ = 1; { { _ = @ } }"},
	{"s-var-inner3", catST, false, "var @ = 1; { { { _ = @ } } }"},
	{"s-define-inner1", catST, false, "@ := 1; { _ = @ }"},
	{"s-var-closure", catST, false, "var @ = 1; _ = func() int { return @ }"},
	{"s-const", catST, false, "const @ = 1; _ = @"},
	{"s-type", catST, false, "type @ int; var l @; _ = l"},
	{"s-type-recursive", catST, false, "type @ struct{ next *@ }; var l @; _ = l"},
	{"s-range-define", catST, false, "for @ := range []int{} { _ = @ }"},
	{"s-range-define-val", catST, false, "for _, @ := range []int{} { _ = @ }"},
	{"s-for-define", catST, false, "for @ := 0; @ < 1; @++ { }"},
	{"s-if-define", catST, false, "if @ := 1; @ > 0 { _ = @ } else { _ = @ }"},
	{"s-switch-define", catST, false, "switch @ := 1; @ { }"},
	{"s-typeswitch-define", catST, false, "switch @ := interface{}(nil).(type) { default: _ = @ }"},
	{"s-select-define", catST, false, "select { case @ := <-make(chan int): _ = @ }"},
	{"s-label", catST, false, "@: for { break @ }"},
	{"s-goto", catST, false, "goto @; @: return"},
	{"s-closure-param", catST, false, "_ = func(@ int) int { return @ }"},
	// ---- function signatures: params|results|body
	{"f-param-type", catSIG, true, "a @||"},
	{"f-param-type2", catSIG, true, "a, b @||"},
	{"f-variadic", catSIG, true, "a ...@||"},
	{"f-result-type", catSIG, true, "|r @|"},
	{"f-result-unnamed", catSIG, true, "|@|"},
	{"f-paramname-then-type", catSIG, true, "@ int, b @||"},
	{"f-param", catSIG, false, "@ int||_ = @"},
	{"f-param-d1", catSIG, false, "@ int||{ _ = @ }"},
	{"f-param-d2", catSIG, false, "@ int||{ { _ = @ } }"},
	{"f-param-closure", catSIG, false, "@ int||_ = func() int { return @ }"},
	{"f-param-assign", catSIG, false, "@ int||@ = 2"},
	{"f-result", catSIG, false, "|@ int|@ = 1; return"},
	{"f-result-d1", catSIG, false, "|@ int|{ @ = 1 }; return"},
	{"f-result-closure", catSIG, false, "|@ int|func() { @ = 1 }(); return"},
	{"f-param-unused", catSIG, false, "@ int||"},
}

var c17PlaceIdx = func() map[string]int {
	m := map[string]int{}
	for i, p := range c17Placements {
		if _, dup := m[p.Name]; dup {
			panic("duplicate placement " + p.Name)
		}
		m[p.Name] = i
	}
	return m
}()

// applicable placements per source kind, split into dependencies and decoys
func c17Applicable(kind byte, dep bool) []int {
	var out []int
	for i, p := range c17Placements {
		if p.Dep != dep {
			continue
		}
		ok := false
		switch kind {
		case 'C':
			ok = p.Cat == catVE || (p.Cat == catTE && p.Name == "t-direct")
		case 'V':
			ok = p.Cat == catVE || p.Cat == catTE || p.Cat == catST
		case 'T':
			ok = p.Cat == catTE || (p.Cat == catVE && (p.Name == "v-direct" || p.Name == "v-arg" || p.Name == "v-closure" || p.Name == "v-closure-param"))
		case 'F':
			ok = true
		}
		if ok {
			out = append(out, i)
		}
	}
	return out
}

type c17Ref struct {
	To    int `json:"to"`
	Place int `json:"place"`
}

type c17Decl struct {
	Kind byte     `json:"kind"` // C V T F
	Name string   `json:"name"`
	Refs []c17Ref `json:"refs"`
}

// c17Names: alphabetical order differs from source order on purpose.
var c17Names = []string{"d", "b", "e", "a", "c", "g"}

func c17Name(i int, kind byte) string {
	return c17Names[i] + strings.ToLower(string(kind)) + fmt.Sprint(i)
}

// render one declaration on one line.
func c17RenderDecl(d *c17Decl, names []string) string {
	var te, ve, st, params, results, pre []string
	for _, r := range d.Refs {
		p := c17Placements[r.Place]
		txt := strings.ReplaceAll(p.Text, "@", names[r.To])
		switch p.Cat {
		case catTE:
			te = append(te, txt)
		case catVE:
			ve = append(ve, txt)
		case catST:
			st = append(st, txt)
		case catSIG:
			parts := strings.SplitN(p.Text, "|", 3)
			if parts[0] != "" {
				// rename the helper parameter names so that several signature fragments can coexist
				k := fmt.Sprint(len(params))
				q := strings.NewReplacer("a, b ", "a"+k+", b"+k+" ", "a ", "a"+k+" ", "b ", "b"+k+" ").Replace(parts[0])
				params = append(params, strings.ReplaceAll(q, "@", names[r.To]))
			}
			if parts[1] != "" {
				q := strings.Replace(parts[1], "r ", fmt.Sprintf("r%d ", len(results)), 1)
				results = append(results, strings.ReplaceAll(q, "@", names[r.To]))
			}
			if parts[2] != "" {
				pre = append(pre, strings.ReplaceAll(parts[2], "@", names[r.To]))
			}
		}
	}
	typeOf := func(te []string) string {
		switch len(te) {
		case 0:
			return ""
		case 1:
			return te[0]
		}
		var sb strings.Builder
		sb.WriteString("struct{ ")
		for i, t := range te {
			fmt.Fprintf(&sb, "h%d %s; ", i, t)
		}
		sb.WriteString("}")
		return sb.String()
	}
	valOf := func(ve []string) string {
		switch len(ve) {
		case 0:
			return ""
		case 1:
			return ve[0]
		}
		return "[]interface{}{" + strings.Join(ve, ", ") + "}"
	}
	closureOf := func(st []string) string {
		return "func() int { " + strings.Join(st, "; ") + "; return 0 }()"
	}
	switch d.Kind {
	case 'C':
		val := valOf(ve)
		if val == "" {
			val = "1"
		}
		if t := typeOf(te); t != "" {
			return fmt.Sprintf("const %s %s = %s", d.Name, t, val)
		}
		return fmt.Sprintf("const %s = %s", d.Name, val)
	case 'V':
		if len(st) > 0 {
			ve = append(ve, closureOf(st))
		}
		t, val := typeOf(te), valOf(ve)
		switch {
		case t == "" && val == "":
			return fmt.Sprintf("var %s = 1", d.Name)
		case val == "":
			return fmt.Sprintf("var %s %s", d.Name, t)
		case t == "":
			return fmt.Sprintf("var %s = %s", d.Name, val)
		}
		return fmt.Sprintf("var %s %s = %s", d.Name, t, val)
	case 'T':
		for _, v := range ve {
			te = append(te, "[len("+v+")]int")
		}
		t := typeOf(te)
		if t == "" {
			t = "struct{ n int }"
		}
		return fmt.Sprintf("type %s %s", d.Name, t)
	case 'F':
		body := append([]string{}, pre...)
		for _, t := range te {
			body = append(body, "var _ "+t)
		}
		for _, v := range ve {
			body = append(body, "_ = "+v)
		}
		body = append(body, st...)
		res := ""
		named := false
		for _, r := range results {
			if strings.Contains(r, " ") {
				named = true
			}
		}
		if named { // Go does not allow mixing named and unnamed results
			for i, r := range results {
				if !strings.Contains(r, " ") {
					results[i] = "_ " + r
				}
			}
		}
		if len(results) > 0 {
			res = " (" + strings.Join(results, ", ") + ")"
		}
		return fmt.Sprintf("func %s(%s)%s { %s }", d.Name, strings.Join(params, ", "), res, strings.Join(body, "; "))
	}
	panic("bad kind")
}

// c17Chunk is one top-level element of an input: its class decides the phase it belongs to.
type c17Chunk struct {
	Class string `json:"class"` // package import decl stmt
	Text  string `json:"text"`  // one line
	// Items: for package/import/stmt chunks the kinds of the elements the sorter must return for it
	Items []string `json:"items,omitempty"`
}

func c17RenderDecls(decls []c17Decl) []c17Chunk {
	names := make([]string, len(decls))
	for i := range decls {
		names[i] = decls[i].Name
	}
	out := make([]c17Chunk, len(decls))
	for i := range decls {
		out[i] = c17Chunk{Class: "decl", Text: c17RenderDecl(&decls[i], names)}
	}
	return out
}

func c17Source(chunks []c17Chunk) string {
	var sb strings.Builder
	for _, ch := range chunks {
		sb.WriteString(ch.Text)
		sb.WriteByte('\n')
	}
	return sb.String()
}
