package props

// C18 — program results do not depend on semantics-neutral interpreter options.
// Two corpora are evaluated under EVERY combination of {OptDebugger, OptCollectDeclarations, OptCollectStatements,
// OptTrapPanic, OptPanicStackTrace, OptKeepUntyped} x {generics extension on, off} (128 configurations):
//  1. the C18-own corpus (c18_corpus.go, runner in c18_own.go): the lexical/syntactic layer (bytes inside literals,
//     literal spellings, extension keywords and other special names used as identifiers, source layout: separators,
//     line ends, comments, //line directives, BOM, very long lines) and the REPL-only input forms (':'-prefixed
//     force-eval inputs, commands, package clause, macros) as bounded sequences of inputs;
//  2. every program of the quick corpora of the twin-execution checks (C05–C08 ...).
// Entry points: Eval, EvalReader (the path on which the trap/stack-trace options act) and, for the sequences of REPL
// inputs, ParseEvalPrint input by input. Oracle: configuration 0 of the same generics mode; the configuration-0
// results of the two modes (separate worker processes) are compared in the parent.

import (
	"encoding/json"
	"fmt"
	"hash/fnv"
	"os"
	"sort"
	"strings"

	"github.com/cosmos72/gomacro/base"
	"github.com/cosmos72/gomacro/base/untyped"

	"verif/harness/core"
	"verif/harness/h"
	"verif/harness/oracle"
	"verif/harness/twin"
)

func init() {
	core.Register(&core.Check{ID: "C18", Level: "exploration", Workers: -1, Run: c18Run, Replay: c18Replay, Finish: c18Finish,
		WorkerEnv: func(shard, n int) []string {
			if n >= 2 && shard%2 == 1 {
				return []string{"VERIF_GENERICS=none"}
			}
			return []string{"VERIF_GENERICS="}
		},
		Prepare: func(c *core.Ctx) error {
			if err := c18OwnSanity(c18OwnCorpus(c.Thorough())); err != nil {
				return err
			}
			for _, spec := range diffSpecs {
				if spec.Runner != nil {
					continue
				}
				if _, _, _, err := spec.corpus(c18Ctx(c)); err != nil {
					return err
				}
			}
			return nil
		}})
}

var c18Opts = []struct {
	name string
	opt  base.Options
}{
	{"Debugger", base.OptDebugger},
	{"CollectDeclarations", base.OptCollectDeclarations},
	{"CollectStatements", base.OptCollectStatements},
	{"TrapPanic", base.OptTrapPanic},
	{"PanicStackTrace", base.OptPanicStackTrace},
	{"KeepUntyped", base.OptKeepUntyped},
}

func c18Options(k int) (o base.Options, names []string) {
	for i, x := range c18Opts {
		if k&(1<<uint(i)) != 0 {
			o |= x.opt
			names = append(names, x.name)
		}
	}
	return
}

// corpora are always the QUICK corpora of the other checks (the property quantifies over configurations x programs;
// the thorough tier of C18 adds nothing to the program dimension but evaluates through both paths for all configurations)
func c18Ctx(c *core.Ctx) *core.Ctx { return c.WithTier("quick") }

type c18Case struct {
	Prog    oracle.Prog `json:"prog"`
	Config  int         `json:"config"`
	Options []string    `json:"options"`
	Mode    string      `json:"generics"`
	Path    string      `json:"path"`
}

func c18NewInterp(k int) *twin.Interp {
	ir := twin.NewFast()
	o, _ := c18Options(k)
	g := &ir.Comp.Globals
	const all = base.OptDebugger | base.OptCollectDeclarations | base.OptCollectStatements | base.OptTrapPanic | base.OptPanicStackTrace | base.OptKeepUntyped
	g.Options = (g.Options &^ all) | o
	return ir
}

// c18RunProg evaluates p in ir through the given path and returns trace + panic class.
func c18RunProg(ir *twin.Interp, p *oracle.Prog, path string) string {
	if path == "Eval" {
		res := twin.Run(ir, p)
		if res.CompileErr != "" {
			return "COMPILE-ERROR"
		}
		return res.Out
	}
	// EvalReader: declarations and the call are separate statements of one stream
	ir.Out.Reset()
	h.Reset()
	src := p.Source() + "\nP_" + p.ID + "()\n"
	_, err := ir.EvalReader(strings.NewReader(src))
	trace := h.Finish(nil)
	msg := ""
	if err != nil {
		msg = err.Error()
	} else {
		msg = c18FirstLine(ir.Out.String())
	}
	if msg != "" {
		cl := h.ErrClass(msg, false)
		if cl == "" {
			cl = "msg:" + msg
		}
		trace += "PANIC(" + cl + ")"
	}
	return trace
}

func c18Mode() string {
	if mode := os.Getenv("VERIF_GENERICS"); mode != "" {
		return mode
	}
	return "v2"
}

func c18Run(c *core.Ctx) {
	mode := c18Mode()
	group, ngroups := c.Shard/2, c.NShards/2
	if c.NShards < 2 {
		group, ngroups = 0, 1
		c.Cap("single worker: generics-off mode not exercised")
	}
	if c.NShards%2 == 1 && c.Shard == c.NShards-1 {
		return // odd worker out
	}
	c.Rule("(1) own corpus (lexical/syntactic layer and REPL-only inputs; families lit-byte, lit-lines, lit-form, ident, layout, repl: see own_corpus_families), every program under all 64 option combinations in each generics mode, through Eval (or ParseEvalPrint input by input for the REPL sequences) and through EvalReader; oracle = configuration 0 of the same mode and path (a stream that panics is compared within the same TrapPanic setting on the EvalReader path, because an untrapped panic ends the stream by design), and the configuration-0 results of the two modes must be equal; " +
		"(2) every program (quick tier: every stride-th program, stride reported as corpus_stride) of the quick corpora of the registered twin-execution checks, evaluated under all 64 combinations of {Debugger, CollectDeclarations, CollectStatements, TrapPanic, PanicStackTrace, KeepUntyped} in each generics mode {v2 CTI, none} (worker processes, the mode is process-global) = 128 configurations; " +
		"paths: Eval for all configurations, EvalReader for all configurations in the thorough tier and for the 16 Trap/StackTrace/Debugger/KeepUntyped combinations in the quick tier; oracle = configuration 0 of the same generics mode, and the two modes' configuration-0 results must be equal (cross-process, by hash); " +
		"plus a fixed list of untyped constant expressions whose KeepUntyped result must convert exactly to the typed baseline; non-trivial = distinct (program, configuration) pairs whose baseline trace has at least two events")
	// the own corpus first: it is small and must never fall behind the deadline
	hkey := fmt.Sprintf("baseline_hashes_%s_%d", mode, group)
	own := &c18OwnRunner{c: c, mode: mode}
	if os.Getenv("VERIF_C18_PART") != "borrowed" { // development aid: run one part only
		var done bool
		if own, done = c18RunOwnCorpus(c, mode, group, ngroups); !done {
			return
		}
	}
	if os.Getenv("VERIF_C18_PART") == "own" {
		return
	}
	cc := c18Ctx(c)
	nconf := 1 << uint(len(c18Opts))
	// one shared interpreter per configuration (the ones of the own corpus): every program declares all it uses
	hashes := map[string]uint64{}
	n := 0
	// quick tier: a fixed stride through every corpus (every stride-th program, about 1500 programs) keeps 128 configurations affordable
	// next to the own corpus;
	// the thorough tier takes every program
	total := 0
	corpora := map[string][]oracle.Prog{}
	for _, spec := range diffSpecs {
		if spec.Runner != nil {
			continue // corpora with their own site-by-site runner (C09) are not whole programs
		}
		valid, _, _, err := spec.corpus(cc)
		if err != nil {
			panic(err)
		}
		corpora[spec.ID] = valid
		total += len(valid)
	}
	stride := 1
	if c.Quick() && total > 1500 {
		stride = (total + 1499) / 1500
	}
	c.Set("corpus_programs_total", total)
	c.Set("corpus_stride", stride)
	k := 0
	for _, spec := range diffSpecs {
		valid := corpora[spec.ID]
		for i := range valid {
			k++
			if k%stride != 0 {
				continue
			}
			n++
			if n%ngroups != group {
				continue
			}
			if c.Expired() {
				c.Set(hkey, hashes)
				return
			}
			p := &valid[i]
			var base0, baseR string
			for k := 0; k < nconf; k++ {
				out := c18RunProg(own.interp(k), p, "Eval")
				c.Eval(1)
				if k == 0 {
					base0 = out
					hs := fnv.New64a()
					hs.Write([]byte(out))
					hashes[p.ID] = hs.Sum64()
					if c.WantSample() {
						c.Sample(map[string]interface{}{"program": p.Source(), "baseline_result": out, "configurations": nconf, "generics": mode})
					}
				} else if out != base0 {
					c18Confirm(c, p, k, mode, "Eval", base0, out)
				}
				if strings.Count(base0, " ") >= 2 {
					c.Nontrivial(fmt.Sprintf("%s|%d|%s", p.ID, k, mode))
				}
				// EvalReader path
				_, names := c18Options(k)
				viaReader := c.Thorough() || k&^(1|8|16|32) == 0
				_ = names
				if !viaReader {
					continue
				}
				outR := c18RunProg(own.interp(k), p, "EvalReader")
				c.Eval(1)
				// the REPL path reports an escaped panic as text (printed by the trap, or as the returned error): the text of a
				// user panic value is formatted differently by the two reporters, so user values are compared by presence only
				if k == 0 {
					baseR = outR
				} else if c18Norm(outR) != c18Norm(baseR) {
					c18Confirm(c, p, k, mode, "EvalReader", baseR, outR)
				}
			}
			// both paths must agree with each other in configuration 0
			if base0 != "COMPILE-ERROR" && c18Norm(baseR) != c18Norm(base0) {
				c18Confirm(c, p, 0, mode, "EvalReader-vs-Eval", base0, baseR)
			}
		}
	}
	c.Set(hkey, hashes)
	if group == 0 {
		c18Untyped(c, mode)
	}
}

// c18Norm: the panic text printed by the trap path and the panic value seen by Eval are classified identically;
// user panic values are printed with %v by the REPL, so compare only the class prefix up to the first ':' for them.
func c18Norm(s string) string {
	if i := strings.Index(s, "PANIC("); i >= 0 {
		cl := s[i:]
		if strings.HasPrefix(cl, "PANIC(rt:") {
			return s
		}
		return s[:i] + "PANIC(user)"
	}
	return s
}

// c18Confirm re-runs the program on fresh interpreters (baseline and configuration k) before reporting.
func c18Confirm(c *core.Ctx, p *oracle.Prog, k int, mode, path, want, got string) {
	rp := path
	if rp == "EvalReader-vs-Eval" {
		rp = "EvalReader"
	}
	w2 := c18RunProg(c18NewInterp(0), p, strings.TrimSuffix(path, "-vs-Eval"))
	if path == "EvalReader-vs-Eval" {
		w2 = c18RunProg(c18NewInterp(0), p, "Eval")
	}
	g2 := c18RunProg(c18NewInterp(k), p, rp)
	_, names := c18Options(k)
	same := w2 == g2
	if path != "Eval" {
		same = c18Norm(w2) == c18Norm(g2)
	}
	if same {
		// only in the shared interpreter: report as history dependent
		c.Violation("C18|history-dependent|"+strings.Join(names, "+"), fmt.Sprintf("generics=%s path=%s options=%v: result differs from configuration 0 only when evaluated after the preceding corpus programs in the same interpreter: %q vs %q\n%s", mode, path, names, want, got, p.Source()),
			c18Case{Prog: *p, Config: k, Options: names, Mode: mode, Path: rp})
		return
	}
	c.Violation("C18|"+path+"|"+strings.Join(names, "+"), fmt.Sprintf("generics=%s path=%s options=%v: configuration 0 gives %q, this configuration %q\n%s", mode, path, names, w2, g2, p.Source()),
		c18Case{Prog: *p, Config: k, Options: names, Mode: mode, Path: rp})
}

// c18Untyped: with OptKeepUntyped a final untyped constant is returned as untyped.Lit; its exact value must convert to the typed baseline.
func c18Untyped(c *core.Ctx, mode string) {
	exprs := []string{"1", "7 / 2", "1 << 40", "'a' + 1", "2.5 * 2", "1.0 << 3", "10 % 3", "-5 / 2", "1e3", "0x10 + 0b11", "\"a\" + \"b\"", "3 > 2", "1 + 2i", "'x'", "7.0 / 2", "1 << 62"}
	for _, e := range exprs {
		base0 := c18NewInterp(0)
		kept := c18NewInterp(32)
		var v0, v1 interface{}
		if perr := twin.Catch(func() { v, _ := base0.Eval1(e); v0 = v.ReflectValue().Interface() }); perr != nil {
			continue
		}
		perr := twin.Catch(func() { v, _ := kept.Eval1(e); v1 = v.ReflectValue().Interface() })
		c.Eval(2)
		c.Nontrivial("untyped|" + e)
		if perr != nil {
			c.Violation("C18|KeepUntyped|panic", fmt.Sprintf("%s: KeepUntyped evaluation panics: %v", e, perr), c18Case{Prog: oracle.Prog{ID: "expr", Body: e}, Config: 32, Mode: mode, Path: "Eval1"})
			continue
		}
		lit, ok := v1.(untyped.Lit)
		if plit, isp := v1.(*untyped.Lit); isp && plit != nil {
			lit, ok = *plit, true
		}
		if !ok {
			if fmt.Sprint(v1) != fmt.Sprint(v0) {
				c.Violation("C18|KeepUntyped|value", fmt.Sprintf("%s: baseline %v (%T), KeepUntyped %v (%T)", e, v0, v0, v1, v1), c18Case{Prog: oracle.Prog{ID: "expr", Body: e}, Config: 32, Mode: mode, Path: "Eval1"})
			}
			continue
		}
		conv := lit.Convert(base0.TypeOf(v0))
		if fmt.Sprintf("%v", conv) != fmt.Sprintf("%v", v0) {
			c.Violation("C18|KeepUntyped|value", fmt.Sprintf("%s: baseline %v (%T), untyped literal %v converts to %v", e, v0, v0, lit, conv), c18Case{Prog: oracle.Prog{ID: "expr", Body: e}, Config: 32, Mode: mode, Path: "Eval1"})
		}
	}
}

// c18Finish compares the configuration-0 results of the two generics modes (collected by hash from the workers).
func c18Finish(c *core.Ctx) {
	// worker partials are merged into c's extra map (one key per mode and worker group: same-named keys would overwrite each other)
	c18FinishOwn(c)
	n := 0
	for g := 0; g < 256; g++ {
		ka, kb := fmt.Sprintf("baseline_hashes_v2_%d", g), fmt.Sprintf("baseline_hashes_none_%d", g)
		am, _ := c.Extra(ka).(map[string]interface{})
		bm, _ := c.Extra(kb).(map[string]interface{})
		c.Set(ka, nil)
		c.Set(kb, nil)
		ids := make([]string, 0, len(am))
		for id := range am {
			ids = append(ids, id)
		}
		sort.Strings(ids)
		for _, id := range ids {
			if hb, ok := bm[id]; ok {
				n++
				if fmt.Sprint(am[id]) != fmt.Sprint(hb) {
					c.Violation("C18|generics-mode", fmt.Sprintf("program %s: configuration-0 result differs between generics v2 and generics off", id), map[string]string{"program": id})
				}
			}
		}
	}
	c.Set("programs_compared_across_generics_modes", n)
}

func c18Replay(c *core.Ctx, raw json.RawMessage) {
	var probe map[string]json.RawMessage
	if json.Unmarshal(raw, &probe) == nil && probe["program"] != nil {
		var oc c18OwnCase
		if err := json.Unmarshal(raw, &oc); err != nil {
			panic(err)
		}
		c18ReplayOwn(c, &oc)
		return
	}
	var cas c18Case
	if err := json.Unmarshal(raw, &cas); err != nil {
		panic(err)
	}
	if cas.Path == "Eval1" {
		c18Untyped(c, cas.Mode)
		return
	}
	if cas.Mode == "none" && os.Getenv("VERIF_GENERICS") != "none" {
		fmt.Println("note: recorded under generics=none; re-run with VERIF_GENERICS=none to reproduce that mode")
	}
	w := c18RunProg(c18NewInterp(0), &cas.Prog, cas.Path)
	g := c18RunProg(c18NewInterp(cas.Config), &cas.Prog, cas.Path)
	fmt.Printf("configuration 0: %q\nconfiguration %d %v: %q\n", w, cas.Config, cas.Options, g)
	if w != g {
		c.Violation("C18|"+cas.Path+"|"+strings.Join(cas.Options, "+"), "results differ", cas)
	}
}
