package props

// C24 family (4): the type grammar in every syntactic context, in particular in EXPRESSION context.
//
// The forked parser has two routes to a type: parseType (declarations, parameters, fields) and the expression parser,
// which meets a type as an operand (make(T), new(T), T(x), (T)(x), T{}, x.(T), case T:) and has to re-associate what it
// already consumed (a leading "<-" that turns out to belong to a channel type, "*" that is a pointer type or a
// dereference, "[" that starts an array type or an index, "(" that is a parenthesized type or expression, "func" that is a
// type or a literal). Corpus files and the statement generators contain only the shallow forms (one constructor); the
// position bookkeeping of the re-association only shows with nested constructors. This family enumerates
//
//	every type of constructor depth <= D over {chan, <-chan, chan<-, *, [], [2], [...], map[int]T, map[T]int, func(T), func() T,
//	func(...T), (T), struct{f T}, interface{m(T)}} x leaves {int, Q, struct{}, interface{}}              (full alphabet)
//	every type of constructor depth <= DC over {chan, <-chan, chan<-, (T), *} x leaf int                      (channel alphabet)
//
// and writes each into every context of c24TypeContexts. go/parser decides the expected tree (all positions compared);
// go/types decides whether a text that go/parser accepts is valid Go (only then a difference or a rejection by the fork
// counts, as in the other families); a text go/parser rejects must be rejected by the fork.

import (
	"fmt"
	"go/ast"
	"strings"
	"sync/atomic"

	"verif/harness/core"
	"verif/harness/oracle"
)

type c24Ctor struct{ pre, post string }

var c24FullCtors = []c24Ctor{
	{"chan ", ""}, {"<-chan ", ""}, {"chan<- ", ""}, {"*", ""}, {"[]", ""}, {"[2]", ""}, {"[...]", ""},
	{"map[int]", ""}, {"map[", "]int"}, {"func(", ")"}, {"func() ", ""}, {"func(...", ")"}, {"(", ")"},
	{"struct{ f ", " }"}, {"interface{ m(", ") }"},
}

var c24ChanCtors = []c24Ctor{{"chan ", ""}, {"<-chan ", ""}, {"chan<- ", ""}, {"(", ")"}, {"*", ""}}

var c24TypeLeaves = []string{"int", "Q", "struct{}", "interface{}"}

// c24TypeContexts: %s is replaced by the type. Every context is a complete file together with c24TypePrologue.
var c24TypeContexts = []string{
	"var _ %s",
	"var _ = make(%s)",
	"var _ = make(%s, 1)",
	"var _ = new(%s)",
	"var _ = (%s)(nil)",
	"var _ = %s(nil)",
	"var _ = []%s{}",
	"var _ = [](%s){nil}",
	"var _ = %s{}",
	"var _ = [1]%s{0: *new(%s)}",
	"var _, _ = new(%s), make(%s)",
	"var _ = func(%s) (_ %s) { return }",
	"type _ %s",
	"type _ = %s",
	"type _ struct{ f, g %s }",
	"type _ interface{ m(%s) %s }",
	"func _(a %s, b ...%s) (c %s) { return }",
	"func (Q) m(%s) {}",
	"func _(x interface{}) { _ = x.(%s) }",
	"func _(x interface{}) { switch x.(type) { case %s, nil: } }",
	"func _() { switch x := interface{}(nil); x.(type) { case nil, %s: } }",
	"func _() { var x %s; _ = x }",
	"func _() { for range make(%s) {} }",
	"func _() { if x := new(%s); x != nil {} }",
	"func _() { go func(%s) {}(%s(nil)) }",
	"func _() { defer func() (_ %s) { return }() }",
	"func _() { _ = <-%s(nil) }",
	"func _() { _, _ = <-(%s)(nil) }",
	"func _(c chan %s) { c <- (%s)(nil) }",
	"func _(c chan %s) { c <- %s(nil) }",
	"func _() { _ = len(make(%s)) + cap(make(%s, 1)) }",
	"var _ = make(<-%s)", // a receive-only channel type whose "<-" is written apart / an invalid "<-" in front of a type
	"var _ = (<-%s)(nil)",
	"var _ = (<-(%s))(nil)",
}

const c24TypePrologue = "package p\n\ntype Q struct{}\n\n"

// c24TypesUpTo returns every type text of constructor depth <= depth (sorted by depth, then generation order).
func c24TypesUpTo(ctors []c24Ctor, leaves []string, depth int) []string {
	level := append([]string{}, leaves...)
	all := append([]string{}, level...)
	for d := 1; d <= depth; d++ {
		var next []string
		for _, c := range ctors {
			for _, t := range level {
				next = append(next, c.pre+t+c.post)
			}
		}
		all = append(all, next...)
		level = next
	}
	return all
}

// c24TypeTexts is the deduplicated union of both alphabets.
func c24TypeTexts(c *core.Ctx) []string {
	full := c24TypesUpTo(c24FullCtors, c24TypeLeaves, c.Pick(2, 3))
	chans := c24TypesUpTo(c24ChanCtors, []string{"int"}, c.Pick(4, 5))
	seen := map[string]bool{}
	var out []string
	for _, t := range append(full, chans...) {
		if !seen[t] {
			seen[t] = true
			out = append(out, t)
		}
	}
	c.Set("type_family_types", len(out))
	c.Set("type_family_contexts", len(c24TypeContexts))
	c.Set("type_family_bounds", fmt.Sprintf("full alphabet (%d constructors x %d leaves) depth <= %d; channel alphabet (%d constructors) depth <= %d",
		len(c24FullCtors), len(c24TypeLeaves), c.Pick(2, 3), len(c24ChanCtors), c.Pick(4, 5)))
	return out
}

func c24TypeSource(typ string, ctx int) string {
	return c24TypePrologue + strings.ReplaceAll(c24TypeContexts[ctx], "%s", typ) + "\n"
}

// c24TypeFamily runs the family; returns the number of inputs.
func c24TypeFamily(c *core.Ctx, vc *vcollector, get func(int) (*c24Stats, *keyset, *c23Worker), base int64) int64 {
	types := c24TypeTexts(c)
	nctx := int64(len(c24TypeContexts))
	total := int64(len(types)) * nctx
	var valid int64
	parFor(c, total, 64, func(w int, i int64) {
		st, ks, sc := get(w)
		typ, ctx := types[i/nctx], int(i%nctx)
		src := c24TypeSource(typ, ctx)
		origin := fmt.Sprintf("type %s in context %q", typ, c24TypeContexts[ctx])
		c24Check(vc, ks, st, c24Input{idx: base + i, origin: origin, src: []byte(src), typeCheck: true}, sc)
		if _, _, terr := oracle.CheckSource(src); terr == nil { // vacuity figure: how many inputs are valid Go
			atomic.AddInt64(&valid, 1)
		}
	})
	c.Set("type_family_inputs_valid_go(go/types)", valid)
	return total
}

// c24EllipsisArrayOutsideLiteral: the tree contains an array type "[...]T" that is not the type of a composite literal.
func c24EllipsisArrayOutsideLiteral(nodes []ast.Node) bool {
	found := false
	for _, n := range nodes {
		ast.Inspect(n, func(x ast.Node) bool {
			switch y := x.(type) {
			case *ast.CompositeLit:
				if at, ok := y.Type.(*ast.ArrayType); ok {
					if _, isEll := at.Len.(*ast.Ellipsis); isEll {
						// the literal's own type is fine; look at its element type and elements only
						ast.Inspect(at.Elt, func(z ast.Node) bool {
							if a, ok := z.(*ast.ArrayType); ok {
								if _, e := a.Len.(*ast.Ellipsis); e {
									found = true
								}
							}
							return !found
						})
						for _, e := range y.Elts {
							if c24EllipsisArrayOutsideLiteral([]ast.Node{e}) {
								found = true
							}
						}
						return false
					}
				}
			case *ast.ArrayType:
				if _, isEll := y.Len.(*ast.Ellipsis); isEll {
					found = true
				}
			}
			return !found
		})
		if found {
			return true
		}
	}
	return false
}
