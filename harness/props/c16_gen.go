package props

// C16 generator — declaration sets (DAGs and cyclic sets) rendered as valid Go whose every name has an
// observable value. Node i may refer to nodes j < i only (every DAG has such a numbering; the textual
// order is permuted afterwards, so all orders of all DAGs are reached).

import (
	"fmt"
	"strings"
)

// kinds: C const, G const group with iota (3 names), V var with initialiser, T type, F func
var c16Kinds = []byte{'C', 'G', 'V', 'T', 'F'}

// c16Legal tells whether a declaration of kind from may refer to one of kind to (in valid Go, with the renderings below).
func c16Legal(from, to byte) bool {
	switch from {
	case 'C', 'G':
		return to == 'C' || to == 'G'
	case 'V', 'F':
		return true
	case 'T':
		return to == 'T' || to == 'C' || to == 'G'
	}
	return false
}

type c16Ref struct {
	To    int  `json:"to"`
	Place int  `json:"place"` // rotation index into the placements applicable to (from kind, to kind)
	Decoy bool `json:"decoy,omitempty"`
}

type c16Node struct {
	Kind byte     `json:"kind"`
	Refs []c16Ref `json:"refs,omitempty"`
}

type c16Set struct {
	ID    string    `json:"id"`
	Nodes []c16Node `json:"nodes,omitempty"`
	// cyclic / hand-written sets: Decls with @ as name suffix, Obs = body of the observing function
	Decls []string `json:"decls,omitempty"`
	Obs   string   `json:"obs,omitempty"`
	Class string   `json:"class,omitempty"` // what the hand-written set is about (part of the signature of a disagreement)
	// generated Decls-sets (c16_spec.go): go/types must accept them (otherwise the generator is wrong), and the
	// chunk-level dependencies are known by construction (ChunkDeps[i] = chunks that chunk i refers to)
	MustBeValid bool    `json:"must_be_valid,omitempty"`
	ChunkDeps   [][]int `json:"chunk_deps,omitempty"`
}

func c16Name(i int, kind byte, sfx string) string {
	return strings.ToLower(string(kind)) + fmt.Sprint(i) + "x" + sfx
}

// refName is the name used to refer to node i (the middle constant of a group).
func c16RefName(i int, kind byte, sfx string) string {
	if kind == 'G' {
		return c16Name(i, kind, sfx) + "b"
	}
	return c16Name(i, kind, sfx)
}

// value expression (type int) for a reference to X of kind k; pl rotates the placement
func c16ValueRef(x string, k byte, pl int, inFunc bool) string {
	var base string
	switch k {
	case 'C', 'G', 'V':
		base = x
	case 'F':
		base = x + "()"
	case 'T':
		forms := []string{
			"len([1]" + x + "{})",
			"func() int { var z " + x + "; _ = z; return 1 }()",
			"len([]" + x + "{})",
			"func() int { type l []" + x + "; return len(l{}) + 1 }()",
		}
		return forms[pl%len(forms)]
	}
	forms := []string{
		base,
		"func() int { return " + base + " }()",
		"func() (r int) { { r = " + base + " }; return }()",
		"func() int { return func() int { return " + base + " }() }()",
		"(" + base + " + 0)",
		"func() (r int) { if true { { r = " + base + " } }; return }()",
		"func() (r int) { for i := 0; i < 1; i++ { r += " + base + " }; return }()",
		"[]int{" + base + "}[0]",
		"struct{ f int }{f: " + base + "}.f",
		"map[int]int{1: " + base + "}[1]",
	}
	return forms[pl%len(forms)]
}

// decoy value expression: mentions the name x without referring to the package-level x
func c16DecoyValue(x string, pl int) string {
	forms := []string{
		"func(" + x + " int) int { return " + x + " }(7)",
		"func() int { " + x + " := 7; return " + x + " }()",
		"func() int { var " + x + " = 7; { return " + x + " } }()",
		"func() (" + x + " int) { " + x + " = 7; return }()",
		"func() int { for " + x + " := 7; ; { return " + x + " } }()",
		"struct{ " + x + " int }{" + x + ": 7}." + x,
	}
	return forms[pl%len(forms)]
}

// statement forms adding a value expression to r inside a function body
func c16Stmt(ve string, pl int) string {
	forms := []string{
		"r += " + ve,
		"{ r += " + ve + " }",
		"{ { r += " + ve + " } }",
		"if r > 0 { r += " + ve + " }",
		"for i := 0; i < 1; i++ { r += " + ve + " }",
		"switch { case r > 0: r += " + ve + " }",
		"(func() { r += " + ve + " })()",
		"defer func() { r += " + ve + " }()",
	}
	return forms[(pl/3)%len(forms)]
}

// render returns one declaration text per node (single line each) and the body of the observing function.
func (s *c16Set) render(sfx string) (decls []string, obs string) {
	if s.Decls != nil {
		for _, d := range s.Decls {
			decls = append(decls, strings.ReplaceAll(d, "@", sfx))
		}
		return decls, strings.ReplaceAll(s.Obs, "@", sfx)
	}
	n := len(s.Nodes)
	var ob []string
	referenced := make([]bool, n)
	for i := range s.Nodes {
		for _, r := range s.Nodes[i].Refs {
			if !r.Decoy {
				referenced[r.To] = true
			}
		}
	}
	for i := 0; i < n; i++ {
		nd := &s.Nodes[i]
		name := c16Name(i, nd.Kind, sfx)
		lit := 1 << uint(i)
		switch nd.Kind {
		case 'C', 'G':
			expr := fmt.Sprint(lit)
			for _, r := range nd.Refs {
				x := c16RefName(r.To, s.Nodes[r.To].Kind, sfx)
				if r.Place%2 == 1 {
					x = "(" + x + ")"
				}
				expr += " + " + x
			}
			if nd.Kind == 'C' {
				decls = append(decls, fmt.Sprintf("const %s = %s", name, expr))
				ob = append(ob, "O("+name+")")
			} else {
				decls = append(decls, fmt.Sprintf("const ( %sa = iota*32 + %s; %sb; %sc )", name, expr, name, name))
				ob = append(ob, fmt.Sprintf("O(%sa, %sb, %sc)", name, name, name))
			}
		case 'V':
			expr := fmt.Sprint(lit)
			declType := ""
			for _, r := range nd.Refs {
				tk := s.Nodes[r.To].Kind
				x := c16RefName(r.To, tk, sfx)
				if r.Decoy {
					expr += " + " + c16DecoyValue(x, r.Place)
					continue
				}
				if tk == 'T' && len(nd.Refs) == 1 && r.Place%3 == 2 && !referenced[i] {
					declType = x
					continue
				}
				expr += " + " + c16ValueRef(x, tk, r.Place, false)
			}
			if declType != "" {
				decls = append(decls, fmt.Sprintf("var %s %s", name, declType))
			} else {
				decls = append(decls, fmt.Sprintf("var %s = %s", name, expr))
			}
			ob = append(ob, "O("+name+")")
		case 'T':
			var fields []string
			single := ""
			for k, r := range nd.Refs {
				tk := s.Nodes[r.To].Kind
				x := c16RefName(r.To, tk, sfx)
				var te string
				if tk == 'T' {
					forms := []string{"*" + x, "[]" + x, x, "map[string]" + x, "[2]" + x, "func(" + x + ") int", "chan " + x, "struct{ g " + x + " }"}
					te = forms[r.Place%len(forms)]
				} else {
					te = "[" + x + "]int8"
				}
				if len(nd.Refs) == 1 && r.Place%2 == 0 {
					single = te
				}
				fields = append(fields, fmt.Sprintf("f%d %s", k, te))
			}
			switch {
			case len(nd.Refs) == 0:
				decls = append(decls, fmt.Sprintf("type %s int", name))
			case single != "":
				decls = append(decls, fmt.Sprintf("type %s %s", name, single))
			default:
				decls = append(decls, fmt.Sprintf("type %s struct { %s; n int }", name, strings.Join(fields, "; ")))
			}
			ob = append(ob, fmt.Sprintf("{ var z%d %s; O(z%d) }", i, name, i))
		case 'F':
			params := ""
			var body []string
			for _, r := range nd.Refs {
				tk := s.Nodes[r.To].Kind
				x := c16RefName(r.To, tk, sfx)
				if r.Decoy {
					dforms := []string{
						x + " := 7; r += " + x,
						"var " + x + " = 7; { r += " + x + " }",
						"r += " + c16DecoyValue(x, r.Place/2),
						"for " + x + " := 7; " + x + " < 8; " + x + "++ { r += " + x + " }",
					}
					body = append(body, dforms[r.Place%len(dforms)])
					continue
				}
				if tk == 'T' && params == "" && r.Place%4 == 3 {
					params = "ps ..." + x
					body = append(body, "r += len(ps) + 1")
					continue
				}
				body = append(body, c16Stmt(c16ValueRef(x, tk, r.Place, true), r.Place))
			}
			decls = append(decls, fmt.Sprintf("func %s(%s) (r int) { r = %d; %s; return }", name, params, lit, strings.Join(append(body, "_ = r"), "; ")))
			ob = append(ob, "O("+name+"())")
		}
	}
	return decls, strings.Join(ob, "\n")
}

// c16Cyclic: hand-written cyclic sets (and a few acyclic relatives). Go accepts some and rejects others: the
// verdict is taken from go/types, not from this list.
var c16Cyclic = []c16Set{
	// initialisation cycles (Go rejects)
	{ID: "vv", Class: "init-cycle", Decls: []string{"var a@ = b@ + 1", "var b@ = a@ + 1"}, Obs: "O(a@, b@)"},
	{ID: "vvv", Class: "init-cycle", Decls: []string{"var a@ = b@ + 1", "var b@ = c@ + 1", "var c@ = a@ + 1"}, Obs: "O(a@, b@, c@)"},
	{ID: "vfv", Class: "init-cycle", Decls: []string{"var a@ = f@()", "func f@() int { return a@ + 1 }"}, Obs: "O(a@, f@())"},
	{ID: "vffv", Class: "init-cycle", Decls: []string{"var a@ = f@()", "func f@() int { return g@() }", "func g@() int { return a@ }"}, Obs: "O(a@)"},
	{ID: "vclosure", Class: "init-cycle", Decls: []string{"var a@ = func() int { return a@ }()"}, Obs: "O(a@)"},
	{ID: "cc", Class: "init-cycle", Decls: []string{"const a@ = b@ + 1", "const b@ = a@ + 1"}, Obs: "O(a@, b@)"},
	// a function may refer to a variable that calls it only through another variable's initialiser: still a cycle
	{ID: "vfv2", Class: "init-cycle", Decls: []string{"var a@ = b@", "var b@ = f@()", "func f@() int { return a@ }"}, Obs: "O(a@, b@)"},
	// NOT cycles: a function body referring to a variable whose initialiser does not use the function
	{ID: "fvnocycle", Class: "func-uses-var-no-cycle", Decls: []string{"var a@ = 3", "func f@() int { return a@ + g@() }", "func g@() int { return a@ }", "var b@ = f@()"}, Obs: "O(a@, b@, f@(), g@())"},
	// mutual recursion of functions (Go accepts)
	{ID: "ff", Class: "func-cycle", Decls: []string{"func ev@(n int) bool { if n == 0 { return true }; return od@(n - 1) }", "func od@(n int) bool { if n == 0 { return false }; return ev@(n - 1) }"}, Obs: "O(ev@(4), od@(4), ev@(3))"},
	{ID: "fff", Class: "func-cycle", Decls: []string{"func f@(n int) int { if n <= 0 { return 0 }; return 1 + g@(n-1) }", "func g@(n int) int { if n <= 0 { return 0 }; return 1 + h@(n-1) }", "func h@(n int) int { if n <= 0 { return 0 }; return 1 + f@(n-1) }"}, Obs: "O(f@(5), g@(4), h@(1))"},
	{ID: "ffv", Class: "func-cycle", Decls: []string{"func f@(n int) int { if n <= 0 { return k@ }; return g@(n-1) }", "func g@(n int) int { if n <= 0 { return k@ + 1 }; return f@(n-1) }", "var k@ = 10", "var r@ = f@(3)"}, Obs: "O(r@, f@(2), g@(2))"},
	{ID: "ffclosure", Class: "func-cycle", Decls: []string{"func f@(n int) int { if n <= 0 { return 0 }; return func() int { return g@(n-1) }() + 1 }", "func g@(n int) int { if n <= 0 { return 0 }; return f@(n-1) + 1 }"}, Obs: "O(f@(3), g@(3))"},
	{ID: "fself", Class: "func-self-recursion", Decls: []string{"func fact@(n int) int { if n <= 1 { return 1 }; return n * fact@(n-1) }", "var v@ = fact@(5)"}, Obs: "O(v@, fact@(3))"},
	// method cycles (Go accepts)
	{ID: "mm", Class: "method-used-before-its-declaration", Decls: []string{"type T@ struct{ n int }", "func (t T@) A() int { if t.n <= 0 { return 0 }; return T@{t.n - 1}.B() + 1 }", "func (t T@) B() int { if t.n <= 0 { return 0 }; return T@{t.n - 1}.A() + 1 }"}, Obs: "O(T@{3}.A(), T@{2}.B())"},
	{ID: "mf", Class: "method-used-before-its-declaration", Decls: []string{"func (t T@) A() int { return help@(t) }", "func help@(t T@) int { return t.n + 1 }", "type T@ struct{ n int }", "var v@ = T@{4}.A()"}, Obs: "O(v@)"},
	// type cycles through pointer / slice / map / func / chan / interface (Go accepts)
	{ID: "ttptr", Class: "type-cycle-via-pointer", Decls: []string{"type A@ struct { b *B@; n int }", "type B@ struct { a *A@; m int }"}, Obs: "var a A@; var b B@; a.b = &b; b.a = &a; b.m = 5; O(a.b.m, b.a.b.m)"},
	{ID: "ttslice", Class: "type-cycle-via-slice", Decls: []string{"type A@ struct { bs []B@ }", "type B@ struct { as []A@; m int }"}, Obs: "a := A@{bs: []B@{{m: 3}}}; O(len(a.bs), a.bs[0].m, len(a.bs[0].as))"},
	{ID: "ttmap", Class: "type-cycle-via-map", Decls: []string{"type A@ map[string]B@", "type B@ struct { a A@; m int }"}, Obs: "a := A@{\"k\": B@{m: 2}}; O(a[\"k\"].m, len(a[\"k\"].a))"},
	{ID: "ttfunc", Class: "type-cycle-via-func", Decls: []string{"type A@ func(B@) int", "type B@ struct { f A@; m int }"}, Obs: "var f A@ = func(b B@) int { return b.m + 1 }; O(f(B@{m: 4}))"},
	{ID: "ttiface", Class: "type-cycle-via-interface", Decls: []string{"type I@ interface { Next() J@ }", "type J@ interface { Prev() I@ }", "var i@ I@"}, Obs: "O(i@ == nil)"},
	{ID: "tttptr", Class: "type-cycle-via-pointer", Decls: []string{"type A@ struct { b *B@; c *C@ }", "type B@ struct { c *C@; a *A@ }", "type C@ struct { a *A@; b *B@; n int }", "var x@ A@"}, Obs: "x@.c = &C@{n: 9}; O(x@.c.n, x@.b == nil)"},
	{ID: "tself", Class: "type-self-pointer", Decls: []string{"type L@ struct { next *L@; v int }", "var l@ = &L@{&L@{nil, 2}, 1}"}, Obs: "O(l@.v, l@.next.v, l@.next.next == nil)"},
	{ID: "ttchan", Class: "type-cycle-via-chan", Decls: []string{"type A@ chan B@", "type B@ struct { a A@; m int }"}, Obs: "a := make(A@, 1); a <- B@{m: 6}; O((<-a).m)"},
	{ID: "tmethodcycle", Class: "methods-on-mutually-recursive-types", Decls: []string{"type A@ struct { b *B@ }", "func (a *A@) Get() *B@ { return a.b }", "type B@ struct { a *A@; m int }", "func (b *B@) Get() *A@ { return b.a }"}, Obs: "a := &A@{&B@{m: 8}}; O(a.Get().m, a.Get().Get() == nil)"},
	// invalid recursive types (Go rejects)
	{ID: "ttdirect", Class: "invalid-recursive-type", Decls: []string{"type A@ struct { b B@ }", "type B@ struct { a A@ }"}, Obs: "var a A@; _ = a"},
	{ID: "ttarray", Class: "invalid-recursive-type", Decls: []string{"type A@ [2]B@", "type B@ struct { a A@ }"}, Obs: "var a A@; _ = a"},
	{ID: "tselfdirect", Class: "invalid-recursive-type", Decls: []string{"type A@ struct { a A@ }"}, Obs: "var a A@; _ = a"},
	// a method calling a method declared later in the text, no cycle (Go accepts)
	{ID: "mlater", Class: "method-used-before-its-declaration", Decls: []string{"type T@ struct{ n int }", "func (t T@) A() int { return t.B() + 1 }", "func (t T@) B() int { return t.n }"}, Obs: "O(T@{3}.A())"},
	// methods on mutually recursive types, no method cycle
	{ID: "tmethod", Class: "methods-on-mutually-recursive-types", Decls: []string{"type A@ struct { b *B@; n int }", "type B@ struct { a *A@ }", "func (a A@) N() int { return a.n }"}, Obs: "O(A@{n: 3}.N())"},
	// multi-name specs and multi-value initialisers
	{ID: "cmulti", Class: "multi-name-const-spec", Decls: []string{"const a@, b@ = 1, k@ + 1", "const k@ = 2", "const c@, d@ = b@ + 10, a@"}, Obs: "O(a@, b@, c@, d@)"},
	{ID: "vmulti", Class: "multi-name-var-spec", Decls: []string{"var a@, b@ = 1, k@ + f@()", "var k@ = 2", "func f@() int { return 5 }", "var c@, d@ = b@ + 10, a@"}, Obs: "O(a@, b@, c@, d@)"},
	{ID: "vpair", Class: "multi-value-var-spec", Decls: []string{"var a@, b@ = pair@()", "func pair@() (int, int) { return k@, k@ + 1 }", "const k@ = 5", "var c@ = a@ + b@"}, Obs: "O(a@, b@, c@)"},
	{ID: "vtyped", Class: "typed-var-specs", Decls: []string{"var a@ T@ = 3", "type T@ int", "var b@, c@ T@ = a@ + 1, 7", "var d@ []T@", "var h@ float64 = 1", "var u@ uint8 = 200"}, Obs: "var ta T@ = a@; var tb T@ = b@; O(a@, b@, c@, d@ == nil, ta + tb, h@ / 2, u@ + 100)"},
	{ID: "giota", Class: "iota-group", Decls: []string{"const ( a@ T@ = iota + k@; b@; c@ )", "type T@ int", "const k@ = 10", "const ( d@, e@ = iota, iota + c@; f@, g@ )"}, Obs: "O(a@, b@, c@, d@, e@, f@, g@)"},
	// value/type mixed
	{ID: "tvconstlen", Class: "array-length-const", Decls: []string{"type A@ [n@]int", "const n@ = 3", "var v@ A@"}, Obs: "O(len(v@), v@)"},
	{ID: "tvf", Class: "func-returns-type", Decls: []string{"type A@ struct { n int }", "var v@ = mk@(2)", "func mk@(n int) A@ { return A@{n + k@} }", "const k@ = 40"}, Obs: "O(v@.n)"},
}
