package props

// C08 family "literal|seq": bounded-exhaustive element SEQUENCES of array / [...]T / slice composite literals.
//
// Go's rule (spec, Composite literals): an element with a key k goes to index k, an element without a key goes to
// the index of the previous element plus one (0 for the first); indices must be distinct, non-negative and, for
// arrays, smaller than the length; the length of a slice or [...]T literal is the largest index plus one.
// Alphabet of one element: {positional, key 0, key 1, …, key K}; every sequence of at most L elements is
// generated (quick K=3 L=3: 156 sequences; thorough K=4 L=4: 1555), so keys in ascending, descending and mixed
// order, positional elements after a key that is smaller than an earlier one, duplicates (directly and through a
// positional element) and overflows of a fixed-size array all occur. Compiled Go / go/types is the oracle for the
// resulting value, length, capacity and for acceptance.
// Forms: [N]T with N = K+1, [...]T, []T, and (shorter sequences in quick) nested in an outer literal whose own keys
// are not ascending, pointer to a named slice type, struct fields, map values. The element kind rotates with the
// sequence; a second literal with traced int elements checks the evaluation order in the same program.

import (
	"fmt"
	"strings"
)

// c08Seqs returns every sequence over {P, 0..kmax} of length <= maxLen (element -1 = positional).
func c08Seqs(kmax, maxLen int) [][]int {
	out := [][]int{{}}
	prev := [][]int{{}}
	for l := 1; l <= maxLen; l++ {
		var cur [][]int
		for _, p := range prev {
			for e := -1; e <= kmax; e++ {
				cur = append(cur, append(append([]int{}, p...), e))
			}
		}
		out = append(out, cur...)
		prev = cur
	}
	return out
}

func c08SeqName(seq []int) string {
	if len(seq) == 0 {
		return "empty"
	}
	var s []string
	for _, e := range seq {
		if e < 0 {
			s = append(s, "P")
		} else {
			s = append(s, fmt.Sprint(e))
		}
	}
	return strings.Join(s, ",")
}

// c08SeqElems renders the element list; val(i) is the value expression of the i-th element.
func c08SeqElems(seq []int, val func(i int) string) string {
	var s []string
	for i, e := range seq {
		if e < 0 {
			s = append(s, val(i))
		} else {
			s = append(s, fmt.Sprintf("%d: %s", e, val(i)))
		}
	}
	return strings.Join(s, ", ")
}

func (g *c08Gen) genLitSeq() {
	kmax, maxLen, shortLen := 3, 3, 2
	if g.c.Thorough() {
		kmax, maxLen, shortLen = 4, 4, 4
	}
	n := kmax + 1
	type form struct {
		name  string
		short bool   // quick: only sequences of length <= shortLen
		tpl   string // %[1]s element list over $E, %[2]s traced int element list, %[3]d array length
	}
	forms := []form{
		{"array", false, "a := [%[3]d]$E{%[1]s}\nO(a, len(a))\nt := [%[3]d]int{%[2]s}\nO(t)\n"},
		{"dots", false, "a := [...]$E{%[1]s}\nO(a, len(a))\nt := [...]int{%[2]s}\nO(t, len(t))\n"},
		{"slice", false, "s := []$E{%[1]s}\nO(s, len(s), cap(s), s == nil)\nt := []int{%[2]s}\nO(t, len(t))\n"},
		{"nested", true, "s := [][]$E{2: {%[1]s}, 0: {%[1]s}, {%[1]s}}\nO(s, len(s))\na := [...][%[3]d]int{2: {%[2]s}, 0: {}, {}}\nO(a, len(a))\n"},
		{"ptr-named", true, "type L []$E\np := &L{%[1]s}\nO(*p, len(*p))\nq := &[...]int{%[2]s}\nO(*q, len(q))\n"},
		{"field", true, "st := struct {\nA [%[3]d]$E\nS []$E\n}{A: [%[3]d]$E{%[1]s}, S: []$E{%[1]s}}\nO(st, len(st.S))\n"},
		{"map-value", true, "m := map[string][]$E{\"k\": {%[1]s}}\nw := map[int][%[3]d]int{1: {%[2]s}}\nO(m, w)\n"},
	}
	for si, seq := range c08Seqs(kmax, maxLen) {
		k := &c08Kinds[si%len(c08Kinds)]
		elems := c08SeqElems(seq, func(i int) string { return fmt.Sprintf("$%d", i) })
		traced := c08SeqElems(seq, func(i int) string { return fmt.Sprintf("Ti(%d, %d)", i+1, 10*(i+1)) })
		for _, f := range forms {
			if f.short && len(seq) > shortLen {
				continue
			}
			g.addK(k, "ls", "literal|seq|"+f.name, "elements "+c08SeqName(seq), fmt.Sprintf(f.tpl, elems, traced, n))
		}
	}
	// struct literals: every ordered subset of the fields as a keyed literal (Go: any order, each field at most once)
	fields := []struct{ name, val string }{{"F", "$0"}, {"G", "7"}, {"H", "\"h\""}}
	var subsets [][]int
	var rec func(cur []int)
	rec = func(cur []int) {
		subsets = append(subsets, append([]int{}, cur...))
		for i := range fields {
			used := false
			for _, c := range cur {
				if c == i {
					used = true
				}
			}
			if !used {
				rec(append(cur, i))
			}
		}
	}
	rec(nil)
	for si, sub := range subsets {
		var kv, names []string
		for _, i := range sub {
			kv = append(kv, fields[i].name+": "+fields[i].val)
			names = append(names, fields[i].name)
		}
		kinds := []*c08Kind{&c08Kinds[si%len(c08Kinds)]}
		if g.c.Thorough() {
			kinds = nil
			for ki := range c08Kinds {
				kinds = append(kinds, &c08Kinds[ki])
			}
		}
		for _, k := range kinds {
			g.addK(k, "ls", "literal|struct-keyed-order", "fields "+strings.Join(names, ","),
				"type S struct {\nF $E\nG int\nH string\n}\ns := S{"+strings.Join(kv, ", ")+"}\np := &S{"+strings.Join(kv, ", ")+"}\nO(s, *p)\n")
		}
	}
}

// genReenter: family "reenter": a composite literal / append SITE that is entered again while one of its own
// operands is being evaluated (the operand is a recursive call of the function containing the site). Every
// activation contributes different element values; whatever the site keeps per site instead of per evaluation
// (element buffers, the value under construction, argument slices of append) lets the inner activation overwrite
// the outer one. Compiled Go is the oracle.
func (g *c08Gen) genReenter() {
	head := "vals := []$E{$0, $1, $2, $3, $4}\nvar walk func(n int) []$E\nwalk = func(n int) []$E {\nif n == 0 {\nreturn []$E{$5}\n}\n"
	tail := "}\nO(walk(3))\nOnc(walk(2), walk(3))\n"
	for ki := range c08Kinds {
		k := &c08Kinds[ki]
		for _, c := range []c08Case{
			{"slice-literal", "r := []$E{vals[n], walk(n - 1)[0], vals[n-1]}\nreturn r\n"},
			{"slice-literal-first", "r := []$E{walk(n - 1)[0], vals[n], vals[n-1]}\nreturn r\n"},
			{"slice-literal-last", "r := []$E{vals[n], vals[n-1], walk(n - 1)[0]}\nreturn r\n"},
			{"slice-literal-keyed", "r := []$E{2: vals[n], 0: walk(n - 1)[0], vals[n-1]}\nreturn r\n"},
			{"array-literal", "a := [3]$E{vals[n], walk(n - 1)[0], vals[n-1]}\nreturn a[:]\n"},
			{"pointer-to-array-literal", "p := &[...]$E{vals[n], walk(n - 1)[0], vals[n-1]}\nreturn p[:]\n"},
			{"map-literal", "m := map[int]$E{n: vals[n], n + 10: walk(n - 1)[0], n + 20: vals[n-1]}\nreturn []$E{m[n], m[n+10], m[n+20]}\n"},
			{"map-literal-key", "m := map[int]$E{n: vals[n], len(walk(n-1)) + 10: vals[n+1], n + 20: vals[n-1]}\nreturn []$E{m[n], m[13], m[11], m[n+20]}\n"},
			{"struct-literal", "s := struct{ A, B, C $E }{vals[n], walk(n - 1)[0], vals[n-1]}\nreturn []$E{s.A, s.B, s.C}\n"},
			{"struct-literal-keyed", "s := &struct{ A, B, C $E }{C: vals[n], A: walk(n - 1)[0], B: vals[n-1]}\nreturn []$E{s.A, s.B, s.C}\n"},
			{"nested-literal", "r := [][]$E{{vals[n]}, walk(n - 1), {vals[n-1]}}\nreturn []$E{r[0][0], r[1][0], r[2][0]}\n"},
			{"append-values", "r := append([]$E{}, vals[n], walk(n - 1)[0], vals[n-1])\nreturn r\n"},
			{"append-to-result", "r := append(walk(n-1), vals[n], vals[n-1])\nreturn r\n"},
			{"append-spread", "r := append([]$E{vals[n]}, walk(n-1)...)\nreturn r\n"},
			{"copy-from-result", "r := make([]$E, 2)\nr[1] = vals[n]\ncopy(r, walk(n-1))\nreturn r\n"},
			{"index-of-result", "r := []$E{vals[n+1], vals[n]}\nr[len(walk(n-1))-2+n%2] = vals[n-1]\nreturn r\n"},
		} {
			g.addK(k, "rn", "reenter|"+c.name, c.name, head+c.tpl+tail)
		}
	}
}
