package props

// C36 — code completion. Explicit-state enumeration (engine E2, no state merging: the maps and
// scope chains the completer walks are hidden layout) of all sequences of <= D declarations over
// a name alphabet sharing prefixes, executed on a fresh fast.Interp (+ an inner Interp for the
// shadowing declarations). In every reached state EVERY line of the forms  w | x.w | x.y.w | " f(x.w"
// is completed at EVERY cursor position, on the outer and (when it exists) on the inner interpreter,
// and compared with a reference computed from the harness' own record of what it declared
// (c36_model.go): Go keywords + predeclared identifiers + declared names; after a dot the members
// of the package (imports.Packages), or the fields and methods (promoted ones included) of the
// declared type (model) / imported type (reflect).
// Two single-state families add the dimensions the sequence family lacks: c36_ctx.go (what stands before and after
// the chain on the line: multi-byte text, blanks around dots, non-ASCII identifiers, `(x).w`) and c36_embed.go
// (structs embedding several types: Go's depth and ambiguity rule, decided by go/types).

import (
	"bytes"
	"encoding/json"
	"fmt"
	"os"
	"runtime"
	"sort"
	"strings"

	"github.com/cosmos72/gomacro/fast"

	"verif/harness/core"
	"verif/harness/twin"
)

func init() {
	core.Register(&core.Check{ID: "C36", Level: "model_checking", Workers: -1, Run: c36Run, Replay: c36Replay})
}

// ---------------------------------------------------------------------------------------------
// declarations (the operation alphabet)

var c36Alphabet = []string{"a", "ab", "abc", "b", "Ab"}

// c36Prelude is declared in the outer interpreter of every state: the embedded struct (two levels),
// and a struct used as a NON-embedded field; all with value- and pointer-receiver methods whose
// names share prefixes with the alphabet.
const c36Prelude = `type F struct { abc int; Ab string }
func (F) Abc() {}
func (*F) bF() {}
type E struct { F; ab int; b string }
func (E) Ab() {}
func (*E) abm() {}
type G struct { abz int }
func (G) Gm() {}
func (G) abg() {}`

type c36Op struct {
	Kind  string `json:"kind"` // var | const | func | type | varof | import
	Name  string `json:"name"`
	Arg   string `json:"arg,omitempty"` // type: "val"|"ptr" (how E is embedded); varof: "T"|"*T"; import: path
	Inner bool   `json:"inner,omitempty"`
}

func (o c36Op) String() string {
	s := o.Source()
	if i := strings.IndexByte(s, '\n'); i > 0 {
		s = s[:i] + " …"
	}
	if o.Inner {
		return "inner{" + s + "}"
	}
	return s
}

// basic type used for `var N` / typed `const N`
func c36BasicOf(name string) string {
	if name == "abc" || name == "b" {
		return "string"
	}
	return "int"
}

// const N is untyped for a and abc, typed otherwise
func c36ConstUntyped(name string) bool { return name == "a" || name == "abc" }

func (o c36Op) Source() string {
	switch o.Kind {
	case "var":
		return "var " + o.Name + " " + c36BasicOf(o.Name)
	case "const":
		if c36ConstUntyped(o.Name) {
			return "const " + o.Name + " = 1"
		}
		if c36BasicOf(o.Name) == "string" {
			return "const " + o.Name + " string = \"s\""
		}
		return "const " + o.Name + " int = 2"
	case "func":
		return "func " + o.Name + "() int { return 1 }"
	case "type":
		emb := "E"
		if o.Arg == "ptr" {
			emb = "*E"
		}
		return fmt.Sprintf("type %s struct { %s; a int; g G }\nfunc (%s) am() {}\nfunc (*%s) Abp() {}", o.Name, emb, o.Name, o.Name)
	case "varof":
		return "var " + o.Name + " " + o.Arg
	case "raw":
		return o.Arg
	case "utype":
		// a struct type with non-ASCII member names (family: line contexts)
		return fmt.Sprintf("type %s struct { größe int; Größe string; ab int; a1 int }\nfunc (%s) öl() {}\nfunc (*%s) Ab2() {}", o.Name, o.Name, o.Name)
	case "import":
		base := o.Arg
		if o.Name == base {
			return fmt.Sprintf("import %q", o.Arg)
		}
		return fmt.Sprintf("import %s %q", o.Name, o.Arg)
	}
	panic("bad op")
}

// c36NextOps lists the operations enabled in a model state (deterministic order).
func c36NextOps(m *c36Model) []c36Op {
	var ops []c36Op
	for _, inner := range []bool{false, true} {
		for _, n := range c36Alphabet {
			ops = append(ops, c36Op{Kind: "var", Name: n, Inner: inner})
		}
		for _, n := range c36Alphabet {
			ops = append(ops, c36Op{Kind: "const", Name: n, Inner: inner})
		}
		for _, n := range c36Alphabet {
			ops = append(ops, c36Op{Kind: "func", Name: n, Inner: inner})
		}
		for _, t := range []struct{ n, emb string }{{"Ab", "val"}, {"a", "val"}, {"ab", "ptr"}, {"b", "ptr"}} {
			ops = append(ops, c36Op{Kind: "type", Name: t.n, Arg: t.emb, Inner: inner})
		}
		// variables of every struct type visible from this scope
		for _, tn := range m.visibleStructTypes(inner) {
			for _, v := range []struct{ n, p string }{{"a", ""}, {"b", "*"}, {"abc", ""}} {
				if v.n == tn {
					continue // `var a a`: skip
				}
				ops = append(ops, c36Op{Kind: "varof", Name: v.n, Arg: v.p + tn, Inner: inner})
			}
		}
		for _, im := range []struct{ n, p string }{{"strings", "strings"}, {"fmt", "fmt"}, {"a", "strings"}, {"ab", "fmt"}, {"Ab", "strings"}} {
			ops = append(ops, c36Op{Kind: "import", Name: im.n, Arg: im.p, Inner: inner})
		}
	}
	// drop the operations the model cannot give a meaning to (see Assume): a name declared both as a
	// type and as a value/package in the scopes visible at one point
	var ok []c36Op
	for _, o := range ops {
		if m.crossNamespace(o) {
			continue
		}
		ok = append(ok, o)
	}
	return ok
}

// c36Reduced selects the operation alphabet used for the 2nd and 3rd declaration of the length-3 sequences.
func c36Reduced(o c36Op) bool {
	switch o.Kind {
	case "var":
		return o.Name == "a" || o.Name == "Ab"
	case "const":
		return o.Name == "b"
	case "func":
		return o.Name == "ab"
	case "type":
		return o.Name == "Ab" || o.Name == "ab"
	case "varof":
		return o.Name != "abc"
	case "import":
		return o.Name == "strings" || o.Name == "ab"
	}
	return false
}

// ---------------------------------------------------------------------------------------------
// the world: real interpreters + model

type c36World struct {
	outer *fast.Interp
	inner *fast.Interp
	out   bytes.Buffer
	m     *c36Model
}

func c36NewWorld() *c36World {
	// a plain interpreter (twin's init() selected the generics flavour gomacro's main() uses); no harness hooks declared
	w := &c36World{outer: fast.New(), m: c36NewModel()}
	g := &w.outer.Comp.Globals
	g.Stdout = &w.out
	g.Stderr = &w.out
	if p := twin.Catch(func() { w.outer.Eval(c36Prelude) }); p != nil {
		panic(fmt.Sprint("C36 prelude rejected: ", p))
	}
	return w
}

// apply executes one declaration on the real interpreter and on the model. A rejected declaration
// returns the error text.
func (w *c36World) apply(o c36Op) string {
	ir := w.outer
	if o.Inner {
		if w.inner == nil {
			w.inner = fast.NewInnerInterp(w.outer, "inner", "")
		}
		ir = w.inner
	}
	if p := twin.Catch(func() { ir.Eval(o.Source()) }); p != nil {
		return fmt.Sprint(p)
	}
	w.m.apply(o)
	return ""
}

type c36Case struct {
	Family string  `json:"family,omitempty"` // "" declaration sequences | "context" | "embedded"
	Unit   int     `json:"unit,omitempty"`   // embedded: the struct type
	Ops    []c36Op `json:"ops"`
	Inner  bool    `json:"ask_inner_interp"`
	Line   string  `json:"line"`
	Pos    int     `json:"pos"`
}

// ---------------------------------------------------------------------------------------------
// lines

func c36Prefixes(names []string, extra ...string) []string {
	seen := map[string]bool{}
	var out []string
	add := func(s string) {
		if !seen[s] {
			seen[s] = true
			out = append(out, s)
		}
	}
	add("")
	for _, n := range names {
		for i := 1; i <= len(n); i++ {
			add(n[:i])
		}
	}
	for _, e := range extra {
		add(e)
	}
	return out
}

var (
	// single words: every prefix of the alphabet, of the prelude types, of some keywords / predeclared names / package names
	c36Words1 = c36Prefixes(append(append([]string{}, c36Alphabet...), "E", "F", "G", "func", "break", "type", "macro", "template", "append", "string", "strings", "fmt", "Eval", "nil"), "zz", "x")
	// words after a dot: every prefix of every member name of the model types, some package member prefixes
	c36Words2 = c36Prefixes([]string{"abc", "abz", "abm", "abg", "am", "bF", "g", "Abc", "Abp", "E", "F", "Gm", "Add", "Len"},
		"Sp", "Sprintf", "New", "NewR", "B", "Builder", "Re", "Rep", "W", "Write", "Str", "Stringer", "c", "gr", "zz")
	// reduced set for the three-word form
	c36Words3 = c36Prefixes([]string{"ab", "abz", "abm", "bF", "Ab", "Gm"}, "W", "Wr", "S", "St", "gr", "zz")
	c36X      = append(append([]string{}, c36Alphabet...), "E", "strings", "fmt", "zz")
	c36Y      = []string{"E", "F", "g", "a", "ab", "b", "am", "Ab", "Builder", "NewReader", "Stringer", "Sprint", "zz"}
)

func c36Lines() []string {
	var ls []string
	ls = append(ls, c36Words1...)
	for _, x := range c36X {
		for _, w := range c36Words2 {
			ls = append(ls, x+"."+w)
			ls = append(ls, " f("+x+"."+w)
		}
		for _, y := range c36Y {
			for _, w := range c36Words3 {
				ls = append(ls, x+"."+y+"."+w)
			}
		}
	}
	return ls
}

// ---------------------------------------------------------------------------------------------
// checking one state

type c36Checker struct {
	c        *core.Ctx
	lines    []string
	queries  int
	nonEmpt  int
	excluded int
	sameHead int
	sigSeen  map[string]int
	family   string // "" | "context" | "embedded": recorded in the cases
	unit     int
}

// report formats and records a violation; after a few examples of one signature the (expensive) text is no longer built.
func (k *c36Checker) report(sig string, what func() string, cas func() c36Case) {
	if k.sigSeen == nil {
		k.sigSeen = map[string]int{}
	}
	k.sigSeen[sig]++
	k.c.Count("viol:"+sig, 1)
	if k.sigSeen[sig] > 3 {
		k.c.Count("violations_not_detailed_same_signature", 1)
		return
	}
	k.c.Violation(sig, what(), cas())
}

// checkState completes every line at every cursor position on the given interpreter.
// The text after the cursor is only handed through by the API; in the states reached by <=1 declaration every
// (line, cursor) pair is executed, in the others every distinct text-before-the-cursor is executed with an empty
// and with a non-empty rest of the line (the first ones met), the remaining pairs are counted as covered by them.
func (k *c36Checker) checkState(w *c36World, ops []c36Op, askInner bool, stateKey string) {
	ir := w.outer
	if askInner {
		ir = w.inner
	}
	type headInfo struct {
		want               *c36Want
		emptyTail, anyTail bool
	}
	memo := map[string]*headInfo{}
	allTails := len(ops) <= 1
	for _, line := range k.lines {
		for pos := 0; pos <= len(line); pos++ {
			head := line[:pos]
			hi := memo[head]
			if hi == nil {
				hi = &headInfo{want: w.m.complete(head, askInner)}
				memo[head] = hi
				if !hi.want.Skip && len(hi.want.Names) > 0 {
					k.c.Nontrivial(stateKey + "|" + head)
				}
			}
			if hi.want.Skip {
				k.excluded++
				continue
			}
			if !allTails {
				if pos == len(line) {
					if hi.emptyTail {
						k.sameHead++
						continue
					}
					hi.emptyTail = true
				} else {
					if hi.anyTail {
						k.sameHead++
						continue
					}
					hi.anyTail = true
				}
			}
			k.queries++
			if len(hi.want.Names) > 0 {
				k.nonEmpt++
			}
			k.checkOne(w, ir, ops, askInner, line, pos, hi.want)
		}
	}
}

func (k *c36Checker) checkOne(w *c36World, ir *fast.Interp, ops []c36Op, askInner bool, line string, pos int, want *c36Want) {
	w.out.Reset()
	gotHead, got, gotTail := ir.CompleteWords(line, pos)
	cas := func() c36Case {
		return c36Case{Family: k.family, Unit: k.unit, Ops: append([]c36Op{}, ops...), Inner: askInner, Line: line, Pos: pos}
	}
	where := func() string {
		who := "outer"
		if askInner {
			who = "inner"
		}
		return fmt.Sprintf("after %v, %s.CompleteWords(%q, %d)", ops, who, line, pos)
	}
	if w.out.Len() != 0 && strings.Contains(w.out.String(), "panic in Interp.CompleteWords") {
		out := w.out.String()
		k.report("C36|panic|"+want.Qual, func() string { return fmt.Sprintf("%s panicked: %s", where(), strings.TrimSpace(out)) }, cas)
		return
	}
	// sorted + unique is checked on its own
	for i := 1; i < len(got); i++ {
		if got[i-1] >= got[i] {
			i := i
			k.report("C36|not-sorted-unique|"+want.Qual, func() string {
				return fmt.Sprintf("%s returned %q: not strictly increasing at index %d", where(), got, i)
			}, cas)
			break
		}
	}
	// exact set: got and want.Names are compared as sets (want.Names is sorted and unique)
	same := len(got) == len(want.Names)
	if same {
		for i := range got {
			if got[i] != want.Names[i] {
				same = false
				break
			}
		}
	}
	if !same {
		gotSet := map[string]bool{}
		for _, g := range got {
			gotSet[g] = true
		}
		wantSet := map[string]bool{}
		for _, n := range want.Names {
			wantSet[n] = true
		}
		classes := map[string]string{} // class -> example
		var extra, missing []string
		for _, g := range got {
			if !wantSet[g] {
				extra = append(extra, g)
				cl := "extra:" + want.classifyExtra(g)
				if _, ok := classes[cl]; !ok {
					classes[cl] = g
				}
			}
		}
		for _, n := range want.Names {
			if !gotSet[n] {
				missing = append(missing, n)
				cl := "missing:" + want.classifyMissing(n)
				if _, ok := classes[cl]; !ok {
					classes[cl] = n
				}
			}
		}
		var cls []string
		for cl := range classes {
			cls = append(cls, cl)
		}
		sort.Strings(cls)
		for _, cl := range cls {
			cl := cl
			k.report("C36|"+want.Qual+"|"+cl, func() string {
				return fmt.Sprintf("%s: reference %q, got %q; not valid there but offered: %q; valid there but not offered: %q (class %s, e.g. %q)",
					where(), want.Names, got, extra, missing, cl, classes[cl])
			}, cas)
		}
		if len(cls) > 0 {
			return
		}
		// same set, different order or duplicates: already reported by the sorted/unique test
	}
	// head + completion + tail reassemble the line with the word replaced at the cursor
	if gotTail != line[pos:] {
		k.report("C36|tail|"+want.Qual, func() string { return fmt.Sprintf("%s returned tail %q, want %q", where(), gotTail, line[pos:]) }, cas)
	}
	if len(want.Names) > 0 {
		if gotHead != want.Head {
			k.report("C36|head|"+want.Qual, func() string {
				return fmt.Sprintf("%s returned head %q, want %q (so that head+completion+tail = %q)", where(), gotHead, want.Head, want.Head+want.Names[0]+line[pos:])
			}, cas)
		}
	} else if gotHead+gotTail != line {
		k.report("C36|head-no-completion|"+want.Qual, func() string {
			return fmt.Sprintf("%s has no completion but head+tail = %q is not the line", where(), gotHead+gotTail)
		}, cas)
	}
}

// ---------------------------------------------------------------------------------------------
// enumeration

func c36Run(c *core.Ctx) {
	if c.NShards > 1 {
		// one interpreter thread per worker process: leave the cores to the other workers
		runtime.GOMAXPROCS(4)
	}
	maxLen := c.Pick(2, 3)
	c.Rule("every sequence of <=2 declarations (quick: the 2nd one from a reduced alphabet of 18; thorough: + every sequence of 3 whose 2nd and 3rd declarations come from that reduced alphabet) from {var, const (typed/untyped), func, struct type embedding E or *E with value/pointer methods and a non-embedded struct field, var of such a type or a pointer to it, import of strings/fmt plain or renamed} over names {a, ab, abc, b, Ab}, each declared in the top interpreter or (shadowing) in an inner Interp; " +
		"in every state every line `w`, `x.w`, `x.y.w`, ` f(x.w` (w over all prefixes of the names/members in play, \"\" and non-matching words) at every cursor position, asked on the outer and on the inner interpreter; " +
		"family line contexts: one state with ASCII and non-ASCII names × 27 texts before the chain (blanks, operators, brackets, earlier dots, closed literals and comments with 2/3/4-byte characters, combining marks, earlier non-ASCII identifiers) × every rune-wise prefix as single word, after x., after x.y., with blanks around the dots, and after a parenthesised variable (x). × 6 texts after the cursor; " +
		"family embedding lattice: 1434 struct types embedding 2-3 of {12 struct leaves with Ab ∈ {none, field, value method, pointer method} × ab ∈ {none, field, method}, by value or by pointer; 3 interfaces} directly, one level deeper, along two paths, with a shadowing own member, completed through a variable, a pointer variable and the type name, one and two steps, valid selectors decided by go/types LookupFieldOrMethod; " +
		"non-trivial = distinct (state, text before the cursor) pairs for which the reference offers at least one completion")
	c.Assume("predeclared identifiers of the interpreter are the Go 1.18 universe without comparable/iota plus gomacro's documented builtins (Eval, EvalKeepUntyped, EvalType, Interp, MacroExpand, MacroExpand1, MacroExpandCodeWalk, Parse, Pointer); keywords are Go's 25 plus `macro` (plus `template` only with C++-style generics)",
		"with 'contracts are interfaces' generics (the default) basic types have the operator methods documented in README/doc (Add, Sub, …, Cmp, Equal, Less; string: Add, Index, Len, Slice): they are valid selectors and belong to the reference",
		"a type name before the dot is completed like a value of that type (contract taken from fast/repl.go: `{type,value}.method`), although Go rejects `T.field`",
		"members of an imported package = names of imports.Packages[path].Binds and .Types; members of an imported type = exported fields and methods seen by reflect",
		"the text after the cursor is only handed through: in states reached by 2+ declarations each distinct text-before-the-cursor is executed with an empty and with a non-empty rest of the line, further (line, cursor) pairs with the same text before the cursor are counted as covered (cursor_positions_covered_by_identical_text_before_cursor); in states reached by <=1 declaration every pair is executed",
		"the cursor is on a character boundary; identifiers are scanned by runes as the Go spec defines them (letter = '_' or category L, digit = category Nd); blanks (space, tab) may surround the dots of a chain",
		"a dot after something that is not an identifier (`(x).w`) is outside the documented reach of the completer: offering nothing is accepted, anything offered must be a field or method of x",
		"excluded as unspecified: selectors on an untyped constant; a name declared as type and as value/package in scopes visible together (gomacro keeps two namespaces)")
	lines := c36Lines()
	k := &c36Checker{c: c, lines: lines}
	states := map[string]bool{}
	seqNo := 0
	trans := 0
	var visit func(prefix []c36Op, m *c36Model)
	visit = func(prefix []c36Op, m *c36Model) {
		if c.Expired() {
			return
		}
		seqNo++
		states[m.key()] = true // model state of every sequence (all workers compute the same set)
		if c.Mine(seqNo) {
			c36RunSequence(c, k, prefix, &trans)
		}
		n := len(prefix)
		if n >= maxLen {
			return
		}
		for _, o := range c36NextOps(m) {
			if c.Quick() && n == 1 && !c36Reduced(o) {
				continue // quick: the 2nd declaration comes from the reduced alphabet
			}
			if n == 2 && !(c36Reduced(prefix[1]) && c36Reduced(o)) {
				continue // length 3 (thorough): the 2nd and 3rd declaration from the reduced alphabet
			}
			m2 := m.clone()
			m2.apply(o)
			visit(append(append([]c36Op{}, prefix...), o), m2)
		}
	}
	// the two single-state families first (cheap; never cut short by the deadline of the sequence enumeration)
	c36ContextFamily(c, k, nil)
	c36EmbeddedFamily(c, k, nil)
	if os.Getenv("VERIF_C36_FAMILIES_ONLY") != "" {
		c.Cap("development run: declaration sequences skipped (VERIF_C36_FAMILIES_ONLY)")
	} else {
		visit(nil, c36NewModel())
	}
	if c.Shard == 0 {
		c.States(len(states)) // distinct model states reached; identical in every worker, reported once
	}
	c.Set("sequences_enumerated", seqNo)
	c.Transitions(trans)
	c.Eval(k.queries)
	c.Count("queries_with_nonempty_reference", k.nonEmpt)
	c.Count("queries_excluded_unspecified", k.excluded)
	c.Count("cursor_positions_covered_by_identical_text_before_cursor", k.sameHead)
	c.Set("lines_per_state", len(lines))
	c.Set("max_sequence_length", maxLen)
}

// c36RunSequence replays one declaration sequence on fresh interpreters and checks the final state.
func c36RunSequence(c *core.Ctx, k *c36Checker, ops []c36Op, trans *int) {
	w := c36NewWorld()
	for _, o := range ops {
		if msg := w.apply(o); msg != "" {
			// the declaration alphabet is made of valid declarations: a rejection is reported, the sequence is not explored
			c.Violation("C36|declaration-rejected|"+o.Kind, fmt.Sprintf("after %v the declaration %q is rejected: %s", ops, o.Source(), msg), c36Case{Ops: ops})
			c.Count("sequences_not_explored", 1)
			return
		}
		*trans++
	}
	c.Count("sequences", 1)
	c.Traces(1)
	key := w.m.key()
	k.checkState(w, ops, false, key+"|outer")
	if w.inner != nil {
		k.checkState(w, ops, true, key+"|inner")
	}
	if c.WantSample() && len(ops) >= 2 {
		line := "Ab.a"
		want := w.m.complete(line, false)
		c.Sample(map[string]interface{}{"declarations": fmt.Sprint(ops), "line": line, "reference_completions": want.Names, "lines_checked": len(k.lines)})
	}
}

func c36Replay(c *core.Ctx, raw json.RawMessage) {
	var cas c36Case
	if err := json.Unmarshal(raw, &cas); err != nil {
		panic(err)
	}
	switch cas.Family {
	case "context":
		c36ContextFamily(c, &c36Checker{c: c}, &cas)
		return
	case "embedded":
		c36EmbeddedFamily(c, &c36Checker{c: c}, &cas)
		return
	}
	w := c36NewWorld()
	for _, o := range cas.Ops {
		if msg := w.apply(o); msg != "" {
			c.Violation("C36|declaration-rejected|"+o.Kind, fmt.Sprintf("the declaration %q is rejected: %s", o.Source(), msg), cas)
			return
		}
	}
	if cas.Line == "" && cas.Pos == 0 {
		return
	}
	k := &c36Checker{c: c}
	ir := w.outer
	if cas.Inner {
		if w.inner == nil {
			w.inner = fast.NewInnerInterp(w.outer, "inner", "")
		}
		ir = w.inner
	}
	want := w.m.complete(cas.Line[:cas.Pos], cas.Inner)
	if want.Skip {
		return
	}
	k.checkOne(w, ir, cas.Ops, cas.Inner, cas.Line, cas.Pos, want)
}
