package props

// C19 driver: one interpreter with a program declared, the REAL debugger of fast/debug behind a recording wrapper,
// and a scripted Readline feeding it command lines (so command lookup, abbreviations and empty-line repeat of
// fast/debug/cmd.go + debugger.go are code under test).

import (
	"fmt"
	"go/token"
	"strings"
	"time"

	"github.com/cosmos72/gomacro/base"
	"github.com/cosmos72/gomacro/fast"
	"github.com/cosmos72/gomacro/fast/debug"

	"verif/harness/h"
	"verif/harness/twin"
)

type c19Event struct {
	Kind  string `json:"kind"` // at | bp
	Depth int    `json:"depth"`
	IP    int    `json:"ip"`
	Pos   string `json:"pos"` // "line:col" | "syn" (synthetic statement: the debugger does not prompt) | "end" (IP past the positions: end-of-code sentinel)
	Clock int    `json:"clock"`
}

func (e c19Event) prompts() bool { return e.Pos != "syn" }
func (e c19Event) key() string {
	return fmt.Sprintf("%s|%d|%d|%s|%d", e.Kind, e.Depth, e.IP, e.Pos, e.Clock)
}
func (e c19Event) String() string {
	return fmt.Sprintf("%s depth=%d ip=%d pos=%s clock=%d", e.Kind, e.Depth, e.IP, e.Pos, e.Clock)
}

type c19RL struct {
	q          []string
	reads      int
	unexpected int
}

func (r *c19RL) Read(prompt string) ([]byte, error) {
	r.reads++
	if len(r.q) == 0 {
		r.unexpected++
		return []byte("continue\n"), nil
	}
	s := r.q[0]
	r.q = r.q[1:]
	return []byte(s + "\n"), nil
}

type c19Killed struct{ Why string }

type c19Rec struct {
	g         *base.Globals
	real      *debug.Debugger
	rl        *c19RL
	script    func(stop int, ev c19Event) []string
	events    []c19Event
	stops     []int // indices into events
	anomalies []string
	killed    string
	budget    int
}

func (d *c19Rec) kill(why string) fast.DebugOp {
	d.killed = why
	var v interface{} = c19Killed{why}
	return fast.DebugOp{Depth: 0, Panic: &v}
}

func (d *c19Rec) consult(ir *fast.Interp, env *fast.Env, bp bool) fast.DebugOp {
	ev := c19Event{Kind: "at", Depth: env.CallDepth, IP: env.IP, Clock: h.Len()}
	if bp {
		ev.Kind = "bp"
	}
	switch {
	case env.IP >= len(env.DebugPos):
		ev.Pos = "end"
	case env.DebugPos[env.IP] == token.NoPos:
		ev.Pos = "syn"
	default:
		_, pos := d.g.Fileset.Source(env.DebugPos[env.IP])
		ev.Pos = fmt.Sprintf("%d:%d", pos.Line, pos.Column)
	}
	d.events = append(d.events, ev)
	if len(d.events) > d.budget {
		return d.kill("step-budget")
	}
	call := func() fast.DebugOp {
		if bp {
			return d.real.Breakpoint(ir, env)
		}
		return d.real.At(ir, env)
	}
	before := d.rl.reads
	if !ev.prompts() {
		op := call()
		if d.rl.reads != before {
			d.anomalies = append(d.anomalies, "debugger prompted at a synthetic statement: "+ev.String())
		}
		return op
	}
	if ev.Pos == "end" {
		// the debugger is about to prompt at the end-of-code sentinel of a function (no such statement exists). This is
		// reported by the stop-rule oracle; the run is ended here because commands given at such a stop can make the
		// executor spin forever (the sentinel never signals the return while single-stepping is on)
		d.stops = append(d.stops, len(d.events)-1)
		return d.kill("stop-past-end-of-function")
	}
	lines := d.script(len(d.stops), ev)
	d.stops = append(d.stops, len(d.events)-1)
	d.rl.q = append(d.rl.q[:0], lines...)
	op := call()
	if d.rl.reads == before {
		d.anomalies = append(d.anomalies, "debugger did not prompt at "+ev.String())
	}
	if len(d.rl.q) != 0 {
		d.anomalies = append(d.anomalies, fmt.Sprintf("debugger left %d command lines unread at %s", len(d.rl.q), ev.String()))
		d.rl.q = d.rl.q[:0]
	}
	return op
}

func (d *c19Rec) At(ir *fast.Interp, env *fast.Env) fast.DebugOp { return d.consult(ir, env, false) }
func (d *c19Rec) Breakpoint(ir *fast.Interp, env *fast.Env) fast.DebugOp {
	return d.consult(ir, env, true)
}

// c19World is one interpreter with one program declared.
type c19World struct {
	t    *twin.Interp
	ir   *fast.Interp
	g    *base.Globals
	prog c19Prog
	e    *fast.Expr
	runs int
}

func newC19World(p c19Prog, optDebugger bool) *c19World {
	w := &c19World{t: twin.NewFast(), prog: p}
	w.ir = w.t.Interp
	w.g = &w.ir.Comp.Globals
	if optDebugger {
		w.g.Options |= base.OptDebugger
	}
	w.ir.SetDebugger(&c12Stub{g: w.g})
	w.ir.Eval(p.Decls)
	w.e = w.ir.Compile(p.Main)
	return w
}

type c19Result struct {
	Events    []c19Event
	Stops     []int
	Out       string
	Anomalies []string
	Killed    string
	Hung      bool
	Unexpect  int
	Follow    string
	State     c12State
}

const c19Follow = "O(c19f1(2))"

// run executes the program once. start = "debug" (Interp.DebugExpr: single-step from the first statement) or
// "run" (Interp.RunExpr: the debugger is entered at the first breakpoint). script gives the command lines for each stop.
func (w *c19World) run(start string, script func(stop int, ev c19Event) []string) c19Result {
	w.runs++
	rl := &c19RL{}
	rec := &c19Rec{g: w.g, real: &debug.Debugger{}, rl: rl, script: script, budget: 20000}
	w.g.Readline = rl
	w.ir.SetDebugger(rec)
	w.t.Out.Reset()
	done := make(chan struct{})
	hung := make(chan bool, 1)
	go func() {
		select {
		case <-done:
			hung <- false
		case <-time.After(60 * time.Second):
			// not an oracle: only turns a genuine hang (reported as such) into a finite run
			w.ir.Interrupt(nil)
			hung <- true
		}
	}()
	out := h.Exec(func() {
		if start == "debug" {
			w.ir.DebugExpr(w.e)
		} else {
			w.ir.RunExpr(w.e)
		}
	})
	close(done)
	res := c19Result{Events: rec.events, Stops: rec.stops, Out: out, Anomalies: rec.anomalies, Killed: rec.killed, Hung: <-hung, Unexpect: rl.unexpected}
	// follow-up: a plain evaluation under a debugger stub that only continues at breakpoints
	stub := &c12Stub{g: w.g, limit: 50}
	w.ir.SetDebugger(stub)
	res.Follow = h.Exec(func() { w.ir.Eval(c19Follow) }) + fmt.Sprintf(" dbg[%d]=%s", stub.calls, strings.Join(stub.log, ","))
	res.State = c12Snap(w.ir)
	return res
}

// reference: the same program never debugged (breakpoints answered with continue by a stub)
func c19Reference(p c19Prog, optDebugger bool) (out, follow string, st c12State) {
	w := newC19World(p, optDebugger)
	stub := &c12Stub{g: w.g, limit: 50}
	w.ir.SetDebugger(stub)
	out = h.Exec(func() { w.ir.RunExpr(w.e) })
	stub2 := &c12Stub{g: w.g, limit: 50}
	w.ir.SetDebugger(stub2)
	follow = h.Exec(func() { w.ir.Eval(c19Follow) }) + fmt.Sprintf(" dbg[%d]=%s", stub2.calls, strings.Join(stub2.log, ","))
	return out, follow, c12Snap(w.ir)
}

// ---------------------------------------------------------------------------
// command spelling

var c19Spell = map[string][]string{
	"step":     {"step", "s", "st", "ste", "  step  "},
	"next":     {"next", "n", "ne", "nex", "next  "},
	"finish":   {"finish", "f", "fi", "fin", "finis"},
	"continue": {"continue", "c", "co", "cont", "continu"},
}

var c19Inert = []string{"list", "vars", "backtrace", "?", "bogus", "p 6*7", "l", "v", "help", "stepx"}

// c19Lines spells the moving command cmd for stop number i of a run identified by salt: possibly an abbreviation, possibly
// preceded by an inert command, possibly an empty line when the previous moving command line was the same command.
var c19SpellCount = map[string]int{}

func c19Lines(salt uint32, i int, cmd string, prevCmd string, prevPlain bool) (lines []string, plain bool) {
	x := salt*2654435761 + uint32(i)*40503 + 17
	x ^= x >> 13
	x *= 0x5bd1e995
	x ^= x >> 15
	v := c19Spell[cmd]
	if cmd == prevCmd && prevPlain && x%3 == 0 {
		// the previous line read by the debugger was this very command: an empty line repeats it
		c19SpellCount["spelling_empty_line_repeat"]++
		return []string{""}, true
	}
	if (x>>4)%5 == 0 {
		in := c19Inert[int(x>>8)%len(c19Inert)]
		c19SpellCount["spelling_inert_command_first: "+in]++
		// an inert command that the debugger recognises becomes the "last command": never follow it with an empty line
		return []string{in, v[int(x>>16)%len(v)]}, true
	}
	sp := v[int(x>>16)%len(v)]
	if sp != cmd {
		c19SpellCount["spelling_abbreviation_or_blanks"]++
	} else {
		c19SpellCount["spelling_full_name"]++
	}
	return []string{sp}, true
}

func c19Script(salt uint32, cmds []string, tail string, spell bool) func(stop int, ev c19Event) []string {
	prev := ""
	prevPlain := false
	return func(stop int, ev c19Event) []string {
		cmd := tail
		if stop < len(cmds) {
			cmd = cmds[stop]
		}
		if !spell {
			prev, prevPlain = cmd, true
			return []string{cmd}
		}
		lines, plain := c19Lines(salt, stop, cmd, prev, prevPlain)
		prev, prevPlain = cmd, plain
		return lines
	}
}
