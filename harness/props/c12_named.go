package props

// C12, second probe family: "named" probes.
//
// The probes of c12.go nest FUNCTION LITERALS: every frame of such a probe is captured by a closure, and a captured
// frame is never returned to the interpreter's pool of recycled frames; all their functions have the signature func().
// Two dimensions of the space are therefore absent from them: (1) the specialisation of the function prologue/epilogue
// chosen from the signature (func0ret0, func1ret0, func0ret1, func1ret1, func2ret0, and the generic fallback used for
// every other signature: slices, interfaces, named types, three or more parameters, several results, variadic, methods),
// (2) frames that are NOT captured, i.e. eligible for recycling, with deferred calls whose callee is not a closure of
// the function (compiled function, top-level function, method value).
//
// A named probe renders the same constructs with top-level functions declared by earlier (completed) evaluations, so
// that no frame is captured, and gives the functions of each level one of the signature shapes below. The panic is
// injected at every dynamic hook call exactly as for the literal probes; the oracle is unchanged (hidden state incl.
// pool consistency + battery against a never-faulted interpreter). The battery starts with two items that take EVERY
// frame of the pool for a function whose deferred call recovers although nothing panics (c12_util.go), so that whatever
// the aborted evaluation left attached to a recycled frame is observed by a later evaluation.

import (
	"fmt"
	"strings"
)

// c12Shape is a signature shape: how the functions of one level are declared and called.
type c12Shape struct {
	Name    string
	Recv    string // receiver declaration, "" for plain functions
	RecvVar string // the variable the method is called on
	Params  string
	Results string
	Args    string
	Ret     string
}

// the declarations shared by the named probes (evaluated as part of the probe's declarations)
const c12NamedPrelude = `type c12MT struct{ n int }; var c12mt c12MT; var c12mp = &c12MT{}; type c12MyInt int`

var c12Shapes = []c12Shape{
	{Name: "f0r0", Ret: "return"},
	{Name: "f1r0", Params: "a int", Args: "1", Ret: "return"},
	{Name: "f0r1", Results: "int", Ret: "return 1"},
	{Name: "f1r1", Params: "a int", Results: "int", Args: "1", Ret: "return a"},
	{Name: "f1r1str", Params: "a string", Results: "bool", Args: `"s"`, Ret: "return a == \"\""},
	{Name: "f2r0", Params: "a int, b string", Args: `1, "s"`, Ret: "return"},
	{Name: "slice", Params: "xs []int", Results: "int", Args: "[]int{1, 2}", Ret: "return len(xs)"},
	{Name: "f3r2", Params: "a, b, c int", Results: "(int, string)", Args: "1, 2, 3", Ret: `return a + b + c, "r"`},
	{Name: "variadic", Params: "a int, rest ...int", Results: "int", Args: "1, 2, 3", Ret: "return a + len(rest)"},
	{Name: "iface", Params: "e error", Results: "(r interface{})", Args: "nil", Ret: "return e"},
	{Name: "namedtype", Params: "a c12MyInt", Results: "c12MyInt", Args: "c12MyInt(1)", Ret: "return a"},
	{Name: "method", Recv: "(t c12MT)", RecvVar: "c12mt", Params: "a int", Results: "int", Args: "1", Ret: "return a + t.n"},
	{Name: "ptrmethod", Recv: "(t *c12MT)", RecvVar: "c12mp", Ret: "return"},
	{Name: "ptrmethod-implicit-addr", Recv: "(t *c12MT)", RecvVar: "c12mt", Params: "a int", Args: "1", Ret: "return"},
}

// shapes used for the inner levels of deeper nestings: one optimised without and one with parameter and result, the
// generic fallback, a method
var c12ReducedShapes = []string{"f0r0", "f1r1", "slice", "method"}

func c12ShapeByName(name string) (c12Shape, bool) {
	for _, s := range c12Shapes {
		if s.Name == name {
			return s, true
		}
	}
	return c12Shape{}, false
}

func (s c12Shape) decl(name, body string) string {
	recv := ""
	if s.Recv != "" {
		recv = s.Recv + " "
	}
	res := ""
	if s.Results != "" {
		res = " " + s.Results
	}
	return "func " + recv + name + "(" + s.Params + ")" + res + " {\n" + body + "\n}"
}

func (s c12Shape) call(name string) string {
	if s.RecvVar != "" {
		name = s.RecvVar + "." + name
	}
	return name + "(" + s.Args + ")"
}

var c12NamedConstructs = []string{"call", "defer", "loop", "rethrow", "panicdefer", "callback"}

// c12NamedRender renders one construct at nesting level i around hole: declarations and the statement that runs it.
// Every function ends in an explicit return (or a panic), see the note in c12.go.
func c12NamedRender(cons string, i int, s c12Shape, hole string) (decls []string, stmt string) {
	n := fmt.Sprintf("c12n%d", i)
	body := "h()\n" + hole + "\nh()\n"
	switch cons {
	case "call":
		return []string{s.decl(n, body+s.Ret)}, s.call(n)
	case "defer":
		// two deferred calls, none of them a closure: a compiled function and a top-level function (or method value)
		return []string{
			s.decl(n+"d", body+s.Ret),
			s.decl(n, "defer h()\ndefer "+s.call(n+"d")+"\nh()\n"+s.Ret),
		}, s.call(n)
	case "loop":
		// the body declares a local: one block frame per iteration
		return nil, fmt.Sprintf("for i%d := 0; i%d < 2; i%d++ {\nl%d := i%d + 1\nh()\n%s\n_ = l%d\nh()\n}", i, i, i, i, i, hole, i)
	case "rethrow":
		return []string{
			s.decl(n+"r", "rec := recover()\nh()\nif rec != nil {\npanic(rec)\n}\nh()\n"+s.Ret),
			s.decl(n, "defer "+s.call(n+"r")+"\n"+body+s.Ret),
		}, s.call(n)
	case "panicdefer":
		return []string{
			s.decl(n+"s", "rec := recover()\nif str, _ := rec.(string); rec != nil && str != \"p1\" {\nh()\npanic(rec)\n}\nh()\n"+s.Ret),
			s.decl(n+"d", body+s.Ret),
			s.decl(n, "defer "+s.call(n+"s")+"\ndefer "+s.call(n+"d")+"\nh()\npanic(\"p1\")"),
		}, s.call(n)
	case "callback":
		// the compiled function calls back a top-level function; the hook takes a func(), whatever the shape
		return []string{"func " + n + "cb() {\n" + body + "return\n}"}, "hcb(" + n + "cb)"
	}
	panic("C12: unknown named construct " + cons)
}

func c12NamedProbeByNames(path, shapes []string) (c12Probe, bool) {
	if len(path) != len(shapes) {
		return c12Probe{}, false
	}
	src := "h()"
	var decls []string
	for i := len(path) - 1; i >= 0; i-- {
		s, ok := c12ShapeByName(shapes[i])
		if !ok {
			return c12Probe{}, false
		}
		found := false
		for _, k := range c12NamedConstructs {
			found = found || k == path[i]
		}
		if !found {
			return c12Probe{}, false
		}
		d, st := c12NamedRender(path[i], i, s, src)
		// inner functions are declared first: every declaration only refers to names declared before it
		decls = append(decls, d...)
		src = st
	}
	return c12Probe{Path: path, Style: "named", Shapes: shapes, Decls: append([]string{c12NamedPrelude}, decls...), Src: "h()\n" + src + "\nh()"}, true
}

// c12NamedProbes: depth 1 = every construct x every shape; depth 2 = every pair of constructs x (quick) the pairs of
// reduced shapes (s,s) and (s, successor of s) / (thorough) every shape outside x every reduced shape inside;
// depth 3 (thorough) = every triple of constructs, all levels of the same shape, optimised func() or generic.
func c12NamedProbes(depth int, thorough bool) []c12Probe {
	var all []string
	for _, s := range c12Shapes {
		all = append(all, s.Name)
	}
	var out []c12Probe
	seen := map[string]bool{}
	add := func(path, shapes []string) {
		// constructs without a function of their own ignore the shape: normalise it, keep one probe
		path, shapes = append([]string{}, path...), append([]string{}, shapes...)
		for i, k := range path {
			if k == "loop" || k == "callback" {
				shapes[i] = "f0r0"
			}
		}
		p, ok := c12NamedProbeByNames(path, shapes)
		if !ok {
			panic("C12: bad named probe " + strings.Join(path, ">"))
		}
		if !seen[p.String()] {
			seen[p.String()] = true
			out = append(out, p)
		}
	}
	switch depth {
	case 1:
		for _, k := range c12NamedConstructs {
			for _, s := range all {
				add([]string{k}, []string{s})
			}
		}
	case 2:
		for _, k1 := range c12NamedConstructs {
			for _, k2 := range c12NamedConstructs {
				if thorough {
					for _, s1 := range all {
						for _, s2 := range c12ReducedShapes {
							add([]string{k1, k2}, []string{s1, s2})
						}
					}
					continue
				}
				// quick: equal shapes and the cyclic successor (every reduced shape occurs outside and inside a different one)
				r := c12ReducedShapes
				for j, s1 := range r {
					add([]string{k1, k2}, []string{s1, s1})
					add([]string{k1, k2}, []string{s1, r[(j+1)%len(r)]})
				}
			}
		}
	case 3:
		for _, k1 := range c12NamedConstructs {
			for _, k2 := range c12NamedConstructs {
				for _, k3 := range c12NamedConstructs {
					for _, s := range []string{"f0r0", "slice"} {
						add([]string{k1, k2, k3}, []string{s, s, s})
					}
				}
			}
		}
	}
	return out
}
