package props

// C04 stage F — freshness: a constant converted to a REFERENCE type yields the exact value at EVERY execution of
// the conversion site, whatever the program did to the results of earlier executions.
//
// Stages U and T evaluate every constant expression once. The typed values of the basic kinds are immutable, so
// once is enough for them; but three conversion targets are mutable objects: *big.Int, *big.Rat, *big.Float (the
// extension named by the property; math/big arithmetic is done in place) and byte/rune slices converted from a
// constant string. For those "yields the exact value" has a second dimension: the site is executed again after a
// previous result was modified. An interpreter that folds the conversion when it compiles the site (or copies the
// number shallowly, or hands out the constant's own storage) is exact the first time only.
//
// alphabet
//   target      *big.Int, *big.Rat, *big.Float; []byte, []rune, []uint8, a named byte-slice type, a named rune-slice type
//   constant    one per go/constant representation (int64, *big.Int, *big.Rat, *big.Float) and sign/zero/rune/float-
//               syntax-integer variants; strings: empty, ASCII, multi-byte, invalid UTF-8, a constant expression
//   site form   where the conversion happens: var declaration, explicit conversion, assignment to a variable, return
//               (function, closure, two results), argument (fixed, variadic, append, of a compiled function), composite-literal element (slice,
//               array, map value, struct field positional and keyed), channel send, 2-value assignment, assignment
//               through pointer / to slice element / map element / field, conversion into an interface, a local named
//               constant, one package-level named constant used by two sites, a typed named constant (slices)
//   repetition  the site runs 3 times in a loop of one activation, and the function is called again after EACH mutation
//   mutation    every in-place operation class of the target: arithmetic that reuses the storage, sign flip, overwrite
//               with a small value, growth, zeroing, a direct write into the shared words (Bits), precision change;
//               slices: element write, append into the existing capacity
// oracle      go/constant exact value (as in stage T) / the bytes and code points of the constant string as compiled Go
//             produces them; the two clauses checked after every step: (a) every value handed out and not yet modified by
//             the harness is still exact, (b) no two executions hand out the same object.
// A form the interpreter rejects at compile time carries no claim, except 'var' and 'conv' (demanded by stage T).

import (
	"fmt"
	"go/constant"
	"math/big"
	"os"
	"reflect"
	"strings"

	"verif/harness/core"
	"verif/harness/twin"
)

type c04FTarget struct {
	T     string // type as written in the program
	Class string // signature class
	Decl  string // declaration the type needs
	Big   bool
	Rune  bool // slice of code points
}

var c04FTargets = []c04FTarget{
	{T: "*big.Int", Class: "*big.Int", Big: true},
	{T: "*big.Rat", Class: "*big.Rat", Big: true},
	{T: "*big.Float", Class: "*big.Float", Big: true},
	{T: "[]byte", Class: "byte-slice"},
	{T: "[]uint8", Class: "byte-slice"},
	{T: "c04FBytes", Class: "byte-slice", Decl: "type c04FBytes []byte"},
	{T: "[]rune", Class: "rune-slice", Rune: true},
	{T: "c04FRunes", Class: "rune-slice", Decl: "type c04FRunes []int32", Rune: true},
}

var c04FBigConsts = []string{"0", "7", "-1", "'a'", "1<<62", "1<<63", "1<<64 - 1", "1<<100", "-(1<<100) - 1", "2.0", "1e30", "0.5", "-0.75", "0.1", "1.0 / 3",
	"0x1p-200", "0x1p+5000", "0x1p-5000", "-0x1.8p+5000", "1e-400"}

var c04FStrConsts = []string{`""`, `"abc"`, `"é\x00z"`, `"\xff\xfe"`, `"a" + "bc"`, `"日本" + "é"`}

// c04FForm renders one site form. e(c) is the expression that converts constant c to the target in a typed context
// (c itself for the math/big targets, T(c) for slices); the body appends every value the form produces to 'out'.
type c04FForm struct {
	Name      string
	SliceOnly bool
	HookOnly  bool // only for the targets that have a compiled identity function (c04FHooks)
	Gen       func(T string, e func(c string) string, C string, id string) (decl, body string)
}

var c04FForms = []c04FForm{
	{Name: "var", Gen: func(T string, e func(string) string, C, id string) (string, string) {
		return "", "var v " + T + " = " + e(C) + "\nout = append(out, v)"
	}},
	{Name: "conv", Gen: func(T string, e func(string) string, C, id string) (string, string) {
		return "", "out = append(out, (" + T + ")(" + C + "))"
	}},
	{Name: "assign", Gen: func(T string, e func(string) string, C, id string) (string, string) {
		return "", "var v " + T + "\nv = " + e(C) + "\nout = append(out, v)"
	}},
	{Name: "define", Gen: func(T string, e func(string) string, C, id string) (string, string) {
		return "", "v, w := (" + T + ")(" + C + "), (" + T + ")(" + C + ")\nout = append(out, v, w)"
	}},
	{Name: "return", Gen: func(T string, e func(string) string, C, id string) (string, string) {
		return "func c04r" + id + "() " + T + " { return " + e(C) + " }", "out = append(out, c04r" + id + "())"
	}},
	{Name: "return-closure", Gen: func(T string, e func(string) string, C, id string) (string, string) {
		return "", "out = append(out, func() " + T + " { return " + e(C) + " }())"
	}},
	{Name: "return-2", Gen: func(T string, e func(string) string, C, id string) (string, string) {
		return "func c04r" + id + "() (" + T + ", " + T + ") { return " + e(C) + ", " + e(C) + " }", "v, w := c04r" + id + "()\nout = append(out, v, w)"
	}},
	{Name: "arg", Gen: func(T string, e func(string) string, C, id string) (string, string) {
		return "func c04a" + id + "(x " + T + ") " + T + " { return x }", "out = append(out, c04a" + id + "(" + e(C) + "))"
	}},
	{Name: "arg-compiled", HookOnly: true, Gen: func(T string, e func(string) string, C, id string) (string, string) {
		return "", "out = append(out, " + c04FHookName(T) + "(" + e(C) + "))"
	}},
	{Name: "arg-variadic", Gen: func(T string, e func(string) string, C, id string) (string, string) {
		return "func c04a" + id + "(xs ..." + T + ") []" + T + " { return xs }", "out = append(out, c04a" + id + "(" + e(C) + ", " + e(C) + ")...)"
	}},
	{Name: "arg-append", Gen: func(T string, e func(string) string, C, id string) (string, string) {
		return "", "out = append(out, " + e(C) + ")"
	}},
	{Name: "slice-elem", Gen: func(T string, e func(string) string, C, id string) (string, string) {
		return "", "out = append(out, []" + T + "{" + e(C) + ", " + e(C) + "}...)"
	}},
	{Name: "array-elem", Gen: func(T string, e func(string) string, C, id string) (string, string) {
		return "", "a := [2]" + T + "{1: " + e(C) + "}\nout = append(out, a[1])"
	}},
	{Name: "map-value", Gen: func(T string, e func(string) string, C, id string) (string, string) {
		return "", "out = append(out, map[int]" + T + "{0: " + e(C) + "}[0])"
	}},
	{Name: "field", Gen: func(T string, e func(string) string, C, id string) (string, string) {
		return "type c04S" + id + " struct{ f " + T + " }", "out = append(out, c04S" + id + "{" + e(C) + "}.f, c04S" + id + "{f: " + e(C) + "}.f)"
	}},
	{Name: "send", Gen: func(T string, e func(string) string, C, id string) (string, string) {
		return "", "ch := make(chan " + T + ", 1)\nch <- " + e(C) + "\nout = append(out, <-ch)"
	}},
	{Name: "assign-2", Gen: func(T string, e func(string) string, C, id string) (string, string) {
		return "", "var v, w " + T + "\nv, w = " + e(C) + ", " + e(C) + "\nout = append(out, v, w)"
	}},
	{Name: "assign-deref", Gen: func(T string, e func(string) string, C, id string) (string, string) {
		return "", "p := new(" + T + ")\n*p = " + e(C) + "\nout = append(out, *p)"
	}},
	{Name: "assign-index", Gen: func(T string, e func(string) string, C, id string) (string, string) {
		return "", "s := make([]" + T + ", 1)\ns[0] = " + e(C) + "\nout = append(out, s[0])"
	}},
	{Name: "assign-map", Gen: func(T string, e func(string) string, C, id string) (string, string) {
		return "", "m := map[int]" + T + "{}\nm[0] = " + e(C) + "\nout = append(out, m[0])"
	}},
	{Name: "assign-field", Gen: func(T string, e func(string) string, C, id string) (string, string) {
		return "type c04S" + id + " struct{ f " + T + " }", "var st c04S" + id + "\nst.f = " + e(C) + "\nout = append(out, st.f)"
	}},
	{Name: "interface", Gen: func(T string, e func(string) string, C, id string) (string, string) {
		return "", "var i interface{} = (" + T + ")(" + C + ")\nout = append(out, i.(" + T + "))"
	}},
	{Name: "captured", Gen: func(T string, e func(string) string, C, id string) (string, string) {
		return "", "var v " + T + "\nfunc() { v = " + e(C) + " }()\nout = append(out, v)"
	}},
	{Name: "local-const", Gen: func(T string, e func(string) string, C, id string) (string, string) {
		return "", "const k = " + C + "\nvar v " + T + " = " + e("k") + "\nout = append(out, v, (" + T + ")(k))"
	}},
	{Name: "named-const-2-sites", Gen: func(T string, e func(string) string, C, id string) (string, string) {
		k := "c04k" + id
		return "const " + k + " = " + C, "var v " + T + " = " + e(k) + "\nout = append(out, v, (" + T + ")(" + k + "))"
	}},
	{Name: "typed-const", SliceOnly: true, Gen: func(T string, e func(string) string, C, id string) (string, string) {
		k := "c04k" + id
		return "const " + k + " string = " + C, "const l string = " + C + "\nout = append(out, (" + T + ")(" + k + "), (" + T + ")(l))"
	}},
}

// c04FHooks are COMPILED identity functions declared in the interpreter (DeclFunc): the constant is converted in the
// argument list of a call to compiled code.
var c04FHooks = map[string]interface{}{
	"*big.Int":   func(x *big.Int) *big.Int { return x },
	"*big.Rat":   func(x *big.Rat) *big.Rat { return x },
	"*big.Float": func(x *big.Float) *big.Float { return x },
	"[]byte":     func(x []byte) []byte { return x },
	"[]rune":     func(x []rune) []rune { return x },
}

func c04FHookName(T string) string {
	return "c04FId_" + strings.NewReplacer("*", "", ".", "", "[", "", "]", "S").Replace(T)
}

// c04FWant is the exact expected value.
type c04FWant struct {
	Rat *big.Rat // math/big targets
	Str string   // slices
}

// c04FCase is one (target, constant, form): the unit of sharding, reporting and replay.
type c04FCase struct {
	Stage string `json:"stage"` // "fresh"
	T     string `json:"type"`
	Src   string `json:"src"`
	Form  string `json:"form"`
	Decl  string `json:"decl,omitempty"`
	Func  string `json:"func,omitempty"`
	Step  string `json:"step,omitempty"`
	Want  string `json:"want"`
	Got   string `json:"got_interpreter"`
}

func c04FTargetByT(t string) *c04FTarget {
	for i := range c04FTargets {
		if c04FTargets[i].T == t {
			return &c04FTargets[i]
		}
	}
	return nil
}

func c04FFormByName(n string) *c04FForm {
	for i := range c04FForms {
		if c04FForms[i].Name == n {
			return &c04FForms[i]
		}
	}
	return nil
}

// c04FExact compares one handed-out value with the expectation; "" = exact.
func c04FExact(tg *c04FTarget, x reflect.Value, want *c04FWant) (diff string) {
	defer func() {
		// a number whose words were overwritten through an alias may violate math/big's invariants
		if r := recover(); r != nil {
			diff = fmt.Sprintf("corrupted number (math/big panics: %v)", r)
		}
	}()
	if tg.Big {
		if x.Kind() != reflect.Ptr || x.IsNil() {
			return "nil or not a pointer: " + fmt.Sprint(x)
		}
		var got *big.Rat
		switch v := x.Interface().(type) {
		case *big.Int:
			got = new(big.Rat).SetInt(v)
		case *big.Rat:
			got = v
		case *big.Float:
			if v.IsInf() {
				return "Inf"
			}
			got, _ = v.Rat(nil)
		default:
			return fmt.Sprintf("wrong type %T", v)
		}
		if fmt.Sprintf("%T", x.Interface()) != "*big."+strings.TrimPrefix(tg.T, "*big.") {
			return fmt.Sprintf("wrong type %T", x.Interface())
		}
		if got.Cmp(want.Rat) != 0 {
			return c04Show(x.Interface())
		}
		return ""
	}
	if x.Kind() != reflect.Slice {
		return "not a slice: " + fmt.Sprint(x)
	}
	if x.IsNil() {
		return "nil slice" // compiled Go: []byte("") is empty, not nil
	}
	var exp []int64
	if tg.Rune {
		for _, r := range []rune(want.Str) {
			exp = append(exp, int64(r))
		}
	} else {
		for _, b := range []byte(want.Str) {
			exp = append(exp, int64(b))
		}
	}
	var got []int64
	for i := 0; i < x.Len(); i++ {
		if tg.Rune {
			got = append(got, x.Index(i).Int())
		} else {
			got = append(got, int64(x.Index(i).Uint()))
		}
	}
	if fmt.Sprint(got) != fmt.Sprint(exp) {
		return fmt.Sprint(got)
	}
	return ""
}

// c04FIdent is the identity of the object behind a handed-out value (0: none — empty slice without storage).
func c04FIdent(tg *c04FTarget, x reflect.Value) uintptr {
	if tg.Big {
		return x.Pointer()
	}
	if x.Cap() == 0 {
		return 0
	}
	return x.Pointer()
}

type c04FMutation struct {
	Name string
	Do   func(x reflect.Value)
}

func c04FMutations(tg *c04FTarget) []c04FMutation {
	one := big.NewInt(1)
	switch tg.T {
	case "*big.Int":
		m := func(n string, f func(x *big.Int)) c04FMutation {
			return c04FMutation{n, func(x reflect.Value) { f(x.Interface().(*big.Int)) }}
		}
		return []c04FMutation{
			m("Add(x,1)", func(x *big.Int) { x.Add(x, one) }),
			m("Neg(x)", func(x *big.Int) { x.Neg(x) }),
			m("SetInt64(12345)", func(x *big.Int) { x.SetInt64(12345) }),
			m("write Bits()[0]", func(x *big.Int) {
				if b := x.Bits(); len(b) > 0 {
					c04FBump(b)
				} else {
					x.SetInt64(3)
				}
			}),
			m("Lsh(x,70)", func(x *big.Int) { x.Lsh(x, 70); x.Add(x, one) }),
			m("Mul(x,x)+1", func(x *big.Int) { x.Mul(x, x); x.Add(x, one) }),
			m("Sub(x,x)-1", func(x *big.Int) { x.Sub(x, x); x.Sub(x, one) }),
			m("Rsh(x,1)+5", func(x *big.Int) { x.Rsh(x, 1); x.Add(x, big.NewInt(5)) }),
		}
	case "*big.Rat":
		m := func(n string, f func(x *big.Rat)) c04FMutation {
			return c04FMutation{n, func(x reflect.Value) { f(x.Interface().(*big.Rat)) }}
		}
		ratOne := big.NewRat(1, 1)
		return []c04FMutation{
			m("Add(x,1)", func(x *big.Rat) { x.Add(x, ratOne) }),
			m("Neg(x)-1", func(x *big.Rat) { x.Neg(x); x.Sub(x, ratOne) }),
			m("SetFrac64(7,3)", func(x *big.Rat) { x.SetFrac64(7, 3) }),
			m("write Num().Bits()[0]", func(x *big.Rat) {
				if b := x.Num().Bits(); len(b) > 0 {
					c04FBump(b)
				} else {
					x.SetInt64(3)
				}
			}),
			m("Inv(x+2)", func(x *big.Rat) {
				x.Add(x, big.NewRat(2, 1))
				if x.Sign() != 0 {
					x.Inv(x)
				} else {
					x.SetInt64(9)
				}
			}),
			m("Mul(x,x)+1", func(x *big.Rat) { x.Mul(x, x); x.Add(x, ratOne) }),
			m("Num().Add", func(x *big.Rat) { x.Num().Add(x.Num(), big.NewInt(11)) }),
			m("SetInt64(0)-1", func(x *big.Rat) { x.SetInt64(0); x.Sub(x, ratOne) }),
		}
	case "*big.Float":
		m := func(n string, f func(x *big.Float)) c04FMutation {
			return c04FMutation{n, func(x reflect.Value) { f(x.Interface().(*big.Float)) }}
		}
		return []c04FMutation{
			m("Add(x,x)+1", func(x *big.Float) { x.Add(x, x); x.Add(x, big.NewFloat(1)) }),
			m("Neg(x)-1", func(x *big.Float) { x.Neg(x); x.Sub(x, big.NewFloat(1)) }),
			m("SetInt64(5)", func(x *big.Float) { x.SetInt64(5) }),
			m("SetPrec(3)+SetInt64(3)", func(x *big.Float) { x.SetPrec(3); x.SetInt64(3) }),
			m("SetMantExp(x,3)+1", func(x *big.Float) { x.SetMantExp(x, 3); x.SetPrec(x.Prec() + 64); x.Add(x, big.NewFloat(1)) }),
			m("Mul(x,x)+1", func(x *big.Float) { x.SetPrec(x.Prec()*2 + 64); x.Mul(x, x); x.Add(x, big.NewFloat(1)) }),
			m("SetInf", func(x *big.Float) { x.SetInf(true) }),
			m("SetPrec(0)", func(x *big.Float) { x.SetPrec(0); x.SetPrec(64); x.SetInt64(-2) }),
		}
	}
	// slices
	return []c04FMutation{
		{"x[0]^=0x55", func(x reflect.Value) {
			if x.Len() > 0 {
				e := x.Index(0)
				if e.Kind() == reflect.Int32 {
					e.SetInt(e.Int() ^ 0x55)
				} else {
					e.SetUint(e.Uint() ^ 0x55)
				}
			}
		}},
		{"x[len-1]++", func(x reflect.Value) {
			if n := x.Len(); n > 0 {
				e := x.Index(n - 1)
				if e.Kind() == reflect.Int32 {
					e.SetInt(e.Int() + 1)
				} else {
					e.SetUint(e.Uint() + 1)
				}
			}
		}},
		{"append(x[:0],'Z')", func(x reflect.Value) {
			if x.Cap() > 0 {
				e := x.Slice(0, 1).Index(0)
				if e.Kind() == reflect.Int32 {
					e.SetInt('Z')
				} else {
					e.SetUint('Z')
				}
			}
		}},
		{"clear to cap", func(x reflect.Value) {
			y := x.Slice(0, x.Cap())
			for i := 0; i < y.Len(); i++ {
				y.Index(i).Set(reflect.Zero(y.Type().Elem()))
			}
		}},
	}
}

// c04FBump writes into the words of a number without going through its methods (the result stays normalised: the word never becomes 0).
func c04FBump(b []big.Word) {
	if b[0] > 4 {
		b[0] -= 3
	} else {
		b[0] += 3
	}
}

// c04FSource renders the declarations and the function of a case.
func c04FSource(tg *c04FTarget, form *c04FForm, C, id string) (decl, fname, src string) {
	e := func(c string) string { return c }
	if !tg.Big {
		e = func(c string) string { return tg.T + "(" + c + ")" }
	}
	d, body := form.Gen(tg.T, e, C, id)
	fname = "c04f" + id
	src = fmt.Sprintf("func %s(n int) []%s {\nvar out []%s\nfor i := 0; i < n; i++ {\n%s\n}\nreturn out\n}", fname, tg.T, tg.T, body)
	return d, fname, src
}

// c04FreshCases enumerates the cases of the stage in a fixed order.
func c04FreshCases(o *c04Oracle, emit func(cs *c04FCase, tg *c04FTarget, form *c04FForm, want *c04FWant)) {
	for ti := range c04FTargets {
		tg := &c04FTargets[ti]
		consts := c04FStrConsts
		if tg.Big {
			consts = c04FBigConsts
		}
		for _, C := range consts {
			kind, val, err := o.eval(C)
			if err != "" {
				panic("C04 stage F: go/types rejects the constant " + C + ": " + err)
			}
			want := &c04FWant{}
			wtxt := ""
			if tg.Big {
				r, real := c04Rat(val)
				if !real {
					panic("C04 stage F: constant without exact rational value: " + C)
				}
				switch tg.T {
				case "*big.Int":
					if !r.IsInt() {
						continue
					}
				case "*big.Float":
					if !c04IsPow2(r.Denom()) {
						continue
					}
				}
				want.Rat = r
				wtxt = tg.T + " " + c04Clip(r.String())
			} else {
				if val.Kind() != constant.String {
					panic("C04 stage F: not a string constant: " + C)
				}
				want.Str = constant.StringVal(val)
				wtxt = fmt.Sprintf("%s of %q", tg.T, want.Str)
			}
			_ = kind
			for fi := range c04FForms {
				form := &c04FForms[fi]
				if form.SliceOnly && tg.Big || form.HookOnly && c04FHooks[tg.T] == nil {
					continue
				}
				emit(&c04FCase{Stage: "fresh", T: tg.T, Src: C, Form: form.Name, Want: wtxt}, tg, form, want)
			}
		}
	}
}

func (w *c04World) runFresh(c *core.Ctx, o *c04Oracle) {
	i := 0
	c04FreshCases(o, func(cs *c04FCase, tg *c04FTarget, form *c04FForm, want *c04FWant) {
		i++
		if !c.Mine(i) || c.Expired() {
			return
		}
		w.checkFresh(c, cs, tg, form, want, false)
	})
	if c.Shard == 0 {
		c.Set("fresh_stage_cases", i)
	}
}

// checkFresh runs one case. confirm: the run on a fresh interpreter that precedes a report.
func (w *c04World) checkFresh(c *core.Ctx, cs *c04FCase, tg *c04FTarget, form *c04FForm, want *c04FWant, confirm bool) (sig, what string) {
	ir := w.interp(true)
	w.decls += 3
	w.fserial++
	id := fmt.Sprintf("F%d", w.fserial)
	decl, fname, src := c04FSource(tg, form, cs.Src, id)
	if tg.Decl != "" {
		decl = tg.Decl + "\n" + decl
	}
	cs.Decl, cs.Func = decl, src
	ctx := form.Name + "|" + tg.Class
	fail := func(kind, step, got, msg string) (string, string) {
		cs.Step, cs.Got = step, got
		sig := "C04|fresh|" + ctx + "|" + kind
		what := fmt.Sprintf("%s converted to %s, form %q, %s: %s (want %s, got %s)\n%s\n%s", cs.Src, tg.T, form.Name, step, msg, cs.Want, got, decl, src)
		if !confirm && os.Getenv("VERIF_C04_SURVEY") != "" {
			c.Count("survey:"+sig, 1)
		}
		if !confirm {
			// believe it only if a fresh interpreter fails the same way
			fresh := &c04World{}
			cs2 := *cs
			sig2, _ := fresh.checkFresh(c, &cs2, tg, form, want, true)
			if sig2 != sig {
				c.Violation("C04|nondeterministic", fmt.Sprintf("stage F: %s, then %q on a fresh interpreter: %s", sig, sig2, what), *cs)
			} else {
				c.Violation(sig, what, *cs)
			}
		}
		return sig, what
	}
	if !confirm {
		c.Eval(1)
	}
	// declarations + function
	var perr interface{}
	if !w.hasType("hooks") {
		for t, f := range c04FHooks {
			ir.DeclFunc(c04FHookName(t), f)
		}
		w.noteType("hooks")
	}
	if tg.Decl != "" && !w.hasType(tg.T) {
		if p := twin.Catch(func() { ir.Eval(tg.Decl) }); p != nil {
			panic(fmt.Sprintf("C04 stage F: cannot declare %s: %v", tg.Decl, p))
		}
		w.noteType(tg.T)
	}
	if d := strings.TrimPrefix(decl, tg.Decl); strings.TrimSpace(d) != "" {
		perr = twin.Catch(func() { ir.Eval(strings.TrimSpace(d)) })
	}
	if perr == nil {
		perr = twin.Catch(func() { ir.Eval(src) })
	}
	if perr != nil {
		if form.Name == "var" || form.Name == "conv" {
			return fail("rejected", "compile", "rejected: "+oneLineC04(fmt.Sprint(perr)), "the interpreter rejects the conversion")
		}
		if !confirm {
			c.Count("fresh_form_rejected_by_interpreter_no_claim|"+ctx, 1)
		}
		return "", ""
	}
	fv := ir.ValueOf(fname).ReflectValue()
	if !fv.IsValid() || fv.Kind() != reflect.Func {
		panic("C04 stage F: function not declared: " + fname)
	}
	type handed struct {
		v     reflect.Value
		step  string
		dirty bool
	}
	var live, last []*handed
	mutated := false
	idents := map[uintptr]string{}
	call := func(step string) (string, string, bool) {
		var outs []reflect.Value
		if p := twin.Catch(func() { outs = fv.Call([]reflect.Value{reflect.ValueOf(3)}) }); p != nil {
			s, w := fail("panic", step, "panic: "+oneLineC04(fmt.Sprint(p)), "executing the site panics")
			return s, w, false
		}
		res := outs[0]
		last = nil
		if res.Kind() != reflect.Slice || res.Len() < 3 {
			s, w := fail("result-count", step, fmt.Sprint(res), "the function did not return 3 or more values")
			return s, w, false
		}
		for i := 0; i < res.Len(); i++ {
			x := res.Index(i)
			if x.Kind() == reflect.Interface {
				x = x.Elem()
			}
			name := fmt.Sprintf("%s value #%d", step, i)
			if d := c04FExact(tg, x, want); d != "" {
				kind := "inexact-first-execution"
				if mutated {
					kind = "stale-after-mutation"
				}
				s, w := fail(kind, step, d, name+" is not the exact value of the constant")
				return s, w, false
			}
			if id := c04FIdent(tg, x); id != 0 {
				if prev, dup := idents[id]; dup {
					s, w := fail("aliased-results", step, fmt.Sprintf("%#x", id), name+" is the same object as "+prev)
					return s, w, false
				}
				idents[id] = name
			}
			hd := &handed{v: x, step: name}
			live, last = append(live, hd), append(last, hd)
		}
		return "", "", true
	}
	if s, wh, ok := call("call 1"); !ok {
		return s, wh
	}
	muts := c04FMutations(tg)
	changed := 0
	for mi, m := range muts {
		// the victim: a value of the latest call, a different loop iteration each time
		victim := last[mi%len(last)]
		m.Do(victim.v)
		victim.dirty, mutated = true, true
		if c04FExact(tg, victim.v, want) != "" {
			changed++
		}
		step := fmt.Sprintf("after %s on %s", m.Name, victim.step)
		for _, hd := range live {
			if hd.dirty {
				continue
			}
			if d := c04FExact(tg, hd.v, want); d != "" {
				return fail("shared-storage", step, d, hd.step+" changed although it was not touched")
			}
		}
		if s, wh, ok := call(fmt.Sprintf("call %d (%s)", mi+2, step)); !ok {
			return s, wh
		}
	}
	if !confirm {
		c.Eval(len(muts) + 1)
		c.Count("fresh_cases_run", 1)
		c.Count("fresh_values_checked", len(live))
		if changed > 0 {
			c.Nontrivial("f|" + form.Name + "|" + tg.T + "|" + cs.Src)
		}
	}
	return "", ""
}

func (w *c04World) hasType(t string) bool { return w.ftypes[w.ir][t] }
func (w *c04World) noteType(t string) {
	if w.ftypes == nil {
		w.ftypes = map[*twin.Interp]map[string]bool{}
	}
	if w.ftypes[w.ir] == nil {
		w.ftypes = map[*twin.Interp]map[string]bool{w.ir: {}}
	}
	w.ftypes[w.ir][t] = true
}

func c04FreshReplay(c *core.Ctx, cs *c04FCase) {
	tg, form := c04FTargetByT(cs.T), c04FFormByName(cs.Form)
	if tg == nil || form == nil {
		panic("C04 replay: unknown target/form " + cs.T + " " + cs.Form)
	}
	o := newC04Oracle()
	found := false
	c04FreshCases(o, func(x *c04FCase, t *c04FTarget, f *c04FForm, want *c04FWant) {
		if !found && t == tg && f == form && x.Src == cs.Src {
			found = true
			(&c04World{}).checkFresh(c, x, t, f, want, false)
		}
	})
	if !found {
		panic("C04 replay: case not in the stage-F alphabet")
	}
}
