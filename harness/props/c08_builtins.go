package props

import (
	"fmt"
	"strings"
)

// ---------------------------------------------------------------------------
// append: prefix s[:k] of a len 2 / cap 3 slice over a 4-element array, with the capacity left as is or limited
// to the length, n ∈ 0..3 appended elements given as arguments or spread from another slice; then the result is
// written through and the array observed: elements within the capacity must alias the array, growth must not.

func (g *c08Gen) genAppend() {
	for ki := range c08Kinds {
		k := &c08Kinds[ki]
		for pre := 0; pre <= 2; pre++ {
			for _, tight := range []bool{false, true} {
				for n := 0; n <= 3; n++ {
					for _, form := range []string{"args", "spread"} {
						x := fmt.Sprintf("s[:%d]", pre)
						capx := 3
						if tight {
							x = fmt.Sprintf("s[:%d:%d]", pre, pre)
							capx = pre
						}
						var call string
						if form == "args" {
							call = "append(x" + strings.Repeat(", $4", n) + ")"
							if n >= 2 {
								call = "append(x, $4, $5" + strings.Repeat(", $4", n-2) + ")"
							}
						} else {
							call = fmt.Sprintf("append(x, src[:%d]...)", n)
						}
						body := "b := [4]$E{$0, $1, $2, $3}\ns := b[0:2:3]\nsrc := []$E{$4, $5, $4}\n_ = src\nx := " + x + "\nt := " + call + "\nOnc(t)\nO(len(t), b)\n"
						if pre+n <= capx {
							body += "O(cap(t))\n" // no growth: the capacity is determined
						}
						body += "if len(t) > 0 {\nt[0] = $3\n}\nif len(t) > 1 {\nt[len(t)-1] = $2\n}\nOnc(t, s)\nO(b)\n"
						g.addK(k, "ap", fmt.Sprintf("append|%s|tight=%v", form, tight), fmt.Sprintf("prefix=%d n=%d cap(x)=%d", pre, n, capx), body)
					}
				}
			}
		}
		for _, c := range []struct{ name, tpl string }{
			{"nil-base", "var s []$E\nt := append(s, $0)\nu := append(s, $1)\nOnc(t, u, s)\nO(s == nil)\n"},
			{"nil-base-nothing", "var s []$E\nt := append(s)\nu := append(s, s...)\nO(t == nil, u == nil, len(t), len(u))\n"},
			{"empty-nonnil-base", "s := []$E{}\nt := append(s)\nO(t == nil, len(t))\n"},
			{"single-arg", "b := [3]$E{$0, $1, $2}\ns := b[:2]\nt := append(s)\nt[0] = $3\nO(b, t)\n"},
			{"spread-nil", "b := [3]$E{$0, $1, $2}\ns := b[:2]\nvar z []$E\nt := append(s, z...)\nt[0] = $3\nO(b, t)\n"},
			{"self", "b := [4]$E{$0, $1, $2, $3}\ns := b[:2]\nt := append(s, s...)\nO(t, b)\n"},
			{"self-overlap-shift-right", "b := [4]$E{$0, $1, $2, $3}\ns := b[:3]\nt := append(s[:1], s[:3]...)\nO(t, b)\n"},
			{"self-overlap-shift-left", "b := [4]$E{$0, $1, $2, $3}\ns := b[:4]\nt := append(s[:0], s[1:]...)\nO(t, b)\n"},
			{"delete-middle", "s := []$E{$0, $1, $2, $3}\ns = append(s[:1], s[2:]...)\nO(s, s[:4])\n"},
			{"insert-middle", "s := []$E{$0, $1, $2}\ns = append(s[:1], append([]$E{$5}, s[1:]...)...)\nOnc(s)\n"},
			{"chain-growth-aliasing", "s := make([]$E, 0, 2)\na := append(s, $0)\nb := append(s, $1)\nO(a, b)\nc := append(a, $2)\nd := append(c, $3)\nc[0] = $4\nOnc(a, c, d)\n"},
			{"loop-growth", "var s []$E\nvals := [3]$E{$0, $1, $2}\nfor i := 0; i < 9 && Fuel(); i++ {\ns = append(s, vals[i%3])\n}\nOnc(s)\nO(len(s), cap(s) >= len(s))\n"},
			{"append-to-field", "var st struct{ S []$E }\nst.S = append(st.S, $0, $1)\nOnc(st)\n"},
			{"append-to-map-elem", "m := map[string][]$E{}\nm[\"a\"] = append(m[\"a\"], $0)\nm[\"a\"] = append(m[\"a\"], $1)\nOnc(m)\n"},
			{"append-named-slice", "type L []$E\nvar l L\nl = append(l, $0)\nl = append(l, L{$1, $2}...)\nl = append(l, []$E{$3}...)\nOnc(l)\n"},
			{"append-array-slice-spread", "a := [3]$E{$0, $1, $2}\ns := append([]$E(nil), a[1:]...)\na[1] = $5\nOnc(s, a)\n"},
		} {
			g.addK(k, "ax", "append|"+c.name, c.name, c.tpl)
		}
	}
	for _, c := range []struct{ name, body string }{
		{"bytes-string-spread", "b := append([]byte(\"ab\"), \"cd\"...)\nOnc(b)\nvar e []byte\ne = append(e, \"\"...)\nO(e == nil)\n"},
		{"bytes-string-var-spread", "s := \"h\\u00e9\"\nb := append([]byte{1}, s...)\nOnc(b)\n"},
		{"interface-elems", "var s []interface{}\ns = append(s, 1, \"a\", nil, 2.5, []int{1})\nOnc(s)\n"},
		{"int-to-float-const", "s := append([]float64{}, 1, 2.5)\nOnc(s)\n"},
	} {
		g.add("ax", "append|"+c.name, c.name, c.body)
	}
	for _, bad := range []struct{ name, body string }{
		{"wrong-elem-type", "s := []int{1}\ns = append(s, \"a\")\nO(s)\n"},
		{"spread-non-slice", "s := []int{1}\ns = append(s, 5...)\nO(s)\n"},
		{"spread-plus-args", "s := []int{1}\nt := []int{2}\ns = append(s, 3, t...)\nO(s)\n"},
		{"append-to-array", "a := [2]int{1, 2}\ns := append(a, 3)\nO(s)\n"},
		{"append-no-args", "s := append()\nO(s)\n"},
		{"string-spread-to-ints", "s := []int{1}\ns = append(s, \"ab\"...)\nO(s)\n"},
		{"append-untyped-nil", "s := append(nil, 1)\nO(s)\n"},
	} {
		g.add("ax", "append|invalid|"+bad.name, bad.name, bad.body)
	}
}

// ---------------------------------------------------------------------------
// copy: destination b[i:i+dn], source b[j:j+sn] of ONE 6-element array for every offset and length, so that every
// overlap direction and distance occurs; copy as a statement (array observed) and, separately, its result value.

func (g *c08Gen) genCopy() {
	for ki := range c08Kinds {
		k := &c08Kinds[ki]
		maxn := 3
		if g.c.Quick() && k.name != "int" {
			maxn = -1 // quick: the whole offset/length product for int only …
		}
		for dn := 0; dn <= maxn; dn++ {
			for sn := 0; sn <= maxn; sn++ {
				for i := 0; i+dn <= 6; i++ {
					for j := 0; j+sn <= 6; j++ {
						if g.c.Quick() && (i > 4 || j > 4) {
							continue
						}
						body := fmt.Sprintf("b := [6]$E{$0, $1, $2, $3, $4, $5}\ncopy(b[%d:%d], b[%d:%d])\nO(b)\n", i, i+dn, j, j+sn)
						g.addK(k, "cp", "copy|overlap|stmt", fmt.Sprintf("dst=b[%d:%d] src=b[%d:%d]", i, i+dn, j, j+sn), body)
					}
				}
			}
		}
		if maxn < 0 {
			// … and for the other kinds the length-3 windows at every pair of offsets
			for i := 0; i+3 <= 6; i++ {
				for j := 0; j+3 <= 6; j++ {
					body := fmt.Sprintf("b := [6]$E{$0, $1, $2, $3, $4, $5}\ncopy(b[%d:%d], b[%d:%d])\nO(b)\n", i, i+3, j, j+3)
					g.addK(k, "cp", "copy|overlap|stmt", fmt.Sprintf("dst=b[%d:%d] src=b[%d:%d]", i, i+3, j, j+3), body)
				}
			}
		}
		// result value in different syntactic positions
		for dn := 0; dn <= 3; dn++ {
			for sn := 0; sn <= 3; sn++ {
				body := fmt.Sprintf("d := make([]$E, %d)\ns := []$E{$0, $1, $2}[:%d]\nn := copy(d, s)\nO(n, d)\n", dn, sn)
				g.addK(k, "cr", "copy|result|define", fmt.Sprintf("len(dst)=%d len(src)=%d", dn, sn), body)
			}
		}
		for _, c := range []struct{ name, tpl string }{
			{"result-as-argument", "d := make([]$E, 2)\ns := []$E{$0, $1, $2}\nO(copy(d, s))\nO(d)\n"},
			{"result-in-expression", "d := make([]$E, 2)\ns := []$E{$0, $1, $2}\nn := 10 + copy(d, s)\nO(n, d)\n"},
			{"result-assigned", "d := make([]$E, 2)\ns := []$E{$0, $1, $2}\nvar n int\nn = copy(d, s)\nO(n, d)\n"},
			{"result-to-interface", "d := make([]$E, 2)\ns := []$E{$0, $1, $2}\nvar x interface{} = copy(d, s)\nO(x, d)\n"},
			{"result-in-condition", "d := make([]$E, 2)\ns := []$E{$0, $1, $2}\nif copy(d, s) == 2 {\nO(\"two\")\n}\nO(d)\n"},
			{"result-returned", "f := func(d, s []$E) int { return copy(d, s) }\nd := make([]$E, 1)\nO(f(d, []$E{$0, $1}), d)\n"},
			{"result-discarded-blank", "d := make([]$E, 2)\n_ = copy(d, []$E{$0})\nO(d)\n"},
		} {
			g.addK(k, "cr", "copy|"+c.name, c.name, c.tpl)
		}
		for _, c := range []struct{ name, tpl string }{
			{"nil-dst", "var d []$E\ncopy(d, []$E{$0})\nO(d)\n"},
			{"nil-src", "d := []$E{$0, $1}\nvar s []$E\ncopy(d, s)\nO(d)\n"},
			{"distinct-arrays", "a := [3]$E{$0, $1, $2}\nb := [2]$E{$3, $4}\ncopy(a[1:], b[:])\nb[0] = $5\nO(a, b)\n"},
			{"named-slice-types", "type L []$E\nd := make(L, 2)\ncopy(d, []$E{$0, $1, $2})\ne := make([]$E, 1)\ncopy(e, d)\nO(d, e)\n"},
			{"through-pointer-to-array", "p := &[4]$E{$0, $1, $2, $3}\ncopy(p[1:], p[:])\nO(*p)\n"},
			{"struct-field-slices", "var st struct{ A, B []$E }\nst.A = []$E{$0, $1}\nst.B = make([]$E, 3)\ncopy(st.B[1:], st.A)\nO(st)\n"},
		} {
			g.addK(k, "cx", "copy|"+c.name, c.name, c.tpl)
		}
	}
	for _, c := range []struct{ name, body string }{
		{"string-to-bytes", "b := make([]byte, 3)\ncopy(b, \"h\\u00e9llo\")\nO(b)\n"},
		{"string-var-to-bytes", "s := \"xy\"\nb := []byte{1, 2, 3}\ncopy(b[1:], s)\nO(b)\n"},
		{"string-to-bytes-result", "b := make([]byte, 3)\nn := copy(b, \"hello\")\nm := copy(b, \"\")\nO(n, m, b)\n"},
		{"string-to-named-bytes", "type B []byte\nb := make(B, 2)\ncopy(b, \"qrs\")\nO(b)\n"},
	} {
		g.add("cx", "copy|"+c.name, c.name, c.body)
	}
	for _, bad := range []struct{ name, body string }{
		{"different-elem-types", "a := []int{1}\nb := []int8{2}\ncopy(a, b)\nO(a)\n"},
		{"dst-array", "a := [2]int{1, 2}\ncopy(a, []int{3})\nO(a)\n"},
		{"dst-string", "s := \"ab\"\ncopy(s, []byte{1})\nO(s)\n"},
		{"string-to-ints", "a := []int{1}\ncopy(a, \"x\")\nO(a)\n"},
		{"one-arg", "a := []int{1}\ncopy(a)\nO(a)\n"},
		{"src-array", "a := []int{1}\nb := [1]int{2}\ncopy(a, b)\nO(a)\n"},
	} {
		g.add("cx", "copy|invalid|"+bad.name, bad.name, bad.body)
	}
}

// ---------------------------------------------------------------------------
// maps: one script per (key kind, value kind); nil-map write, unhashable keys, NaN keys, non-addressable elements.

func (g *c08Gen) genMap() {
	for ki := range c08Kinds {
		kk := &c08Kinds[ki]
		for vi := range c08Kinds {
			vk := &c08Kinds[vi]
			if g.c.Quick() && !(kk.name == "int" || kk.name == "string" || vk.name == "int" || kk.name == vk.name) {
				continue
			}
			pre := kk.pre
			if vk.name == "ptr" && kk.name != "ptr" {
				pre = vk.pre
			}
			K := func(i int) string { return kk.v[i] }
			V := func(i int) string { return vk.v[i] }
			mt := "map[" + kk.typ + "]" + vk.typ
			body := pre +
				"m := " + mt + "{" + K(0) + ": " + V(0) + ", " + K(1) + ": " + V(1) + "}\n" +
				"O(len(m), m)\n" +
				"m[" + K(2) + "] = " + V(2) + "\n" +
				"m[" + K(0) + "] = " + V(3) + "\n" +
				"O(len(m), m[" + K(0) + "], m[" + K(2) + "], m[" + K(4) + "])\n" +
				"a, ok := m[" + K(1) + "]\nO(a, ok)\n" +
				"a, ok = m[" + K(4) + "]\nO(a, ok)\n" +
				"_, ok = m[" + K(2) + "]\nO(ok)\n" +
				"if w, has := m[" + K(5) + "]; !has {\nO(w)\n}\n" +
				"delete(m, " + K(1) + ")\ndelete(m, " + K(4) + ")\n" +
				"O(len(m), m)\n" +
				"kv := " + K(2) + "\ndelete(m, kv)\nm[kv] = " + V(5) + "\nO(m[kv], len(m))\n" +
				"var nm " + mt + "\n" +
				"O(len(nm), nm[" + K(0) + "], nm == nil)\n" +
				"a, ok = nm[" + K(0) + "]\nO(a, ok)\n" +
				"delete(nm, " + K(0) + ")\n" +
				"for range nm {\nO(\"never\")\n}\n" +
				"Site(1, func() {\nnm[" + K(0) + "] = " + V(0) + "\n})\n" +
				"O(nm)\n" +
				"mm := make(" + mt + ")\nmm[" + K(3) + "] = " + V(3) + "\nO(mm, len(mm))\n" +
				"pm := &mm\n(*pm)[" + K(4) + "] = " + V(4) + "\nO(len(*pm), mm)\n"
			g.add("mp", "map|script|key="+kk.name+"|val="+vk.name, mt, body)
		}
		// per value kind (key string)
		for _, c := range []struct{ name, tpl string }{
			{"nil-map-write-var-key", "var m map[string]$E\nk := \"a\"\nSite(1, func() {\nm[k] = $0\n})\nO(m == nil)\n"},
			{"nil-map-in-struct", "var st struct{ M map[string]$E }\nO(st.M[\"a\"], len(st.M))\nSite(1, func() {\nst.M[\"a\"] = $0\n})\n"},
			{"nil-inner-map", "m := map[string]map[string]$E{\"a\": nil}\nO(m[\"a\"][\"b\"], m[\"zz\"][\"b\"])\nSite(1, func() {\nm[\"a\"][\"b\"] = $0\n})\nm[\"a\"] = map[string]$E{}\nm[\"a\"][\"b\"] = $1\nO(m)\n"},
			{"map-of-slices", "m := map[string][]$E{}\nm[\"a\"] = append(m[\"a\"], $0)\nm[\"a\"][0] = $1\nO(len(m[\"zz\"]), m[\"zz\"] == nil)\nOnc(m)\n"},
			{"value-copy-semantics", "m := map[string]$E{\"a\": $0}\nv := m[\"a\"]\nm[\"a\"] = $1\nO(v, m)\n"},
			{"map-is-reference", "m := map[string]$E{\"a\": $0}\nn := m\nn[\"b\"] = $1\ndelete(n, \"a\")\nf := func(x map[string]$E) { x[\"c\"] = $2 }\nf(m)\nO(m, len(n))\n"},
			{"delete-during-range", "m := map[string]$E{\"a\": $0, \"b\": $1, \"c\": $2}\nfor k := range m {\ndelete(m, k)\n}\nO(len(m), m)\n"},
			{"comma-ok-existing-vars", "m := map[string]$E{\"a\": $0}\nvar v $E\nvar ok bool\nv, ok = m[\"a\"]\nO(v, ok)\nv, ok = m[\"b\"]\nO(v, ok)\n"},
			{"comma-ok-var-decl", "m := map[string]$E{\"a\": $0}\nvar v, ok = m[\"a\"]\nO(v, ok)\nvar w, ok2 = m[\"q\"]\nO(w, ok2)\n"},
			{"comma-ok-blank", "m := map[string]$E{\"a\": $0}\n_, ok := m[\"a\"]\nv, _ := m[\"a\"]\nO(v, ok)\n"},
			{"len-after-ops", "m := make(map[string]$E, 4)\nO(len(m))\nm[\"a\"] = $0\nm[\"a\"] = $1\nm[\"b\"] = $Z\nO(len(m))\ndelete(m, \"a\")\ndelete(m, \"a\")\nO(len(m), m)\n"},
		} {
			g.addK(kk, "mx", "map|"+c.name, c.name, c.tpl)
		}
	}
	for _, c := range []struct{ name, body string }{
		{"nan-keys", "z := 0.0\nnan := z / z\nm := map[float64]int{}\nm[nan] = 1\nm[nan] = 2\nv, ok := m[nan]\nO(len(m), v, ok)\ndelete(m, nan)\nO(len(m), m)\n"},
		{"negative-zero-key", "z := 0.0\nnz := -z\nm := map[float64]int{}\nm[z] = 1\nm[nz] = 2\nO(len(m), m[0])\n"},
		{"interface-keys", "m := map[interface{}]int{1: 1, \"a\": 2, [2]int{1, 2}: 3, 1.5: 4, nil: 5}\nO(len(m), m[1], m[\"a\"], m[[2]int{1, 2}], m[1.5], m[nil], m[int8(1)], m[2])\n"},
		{"interface-key-unhashable", "m := map[interface{}]int{}\nvar k interface{} = []int{1}\nSite(1, func() {\nm[k] = 1\n})\nSite(2, func() {\nO(m[k])\n})\nO(len(m))\n"},
		{"struct-elem-field-update", "type P struct {\nA int\nB string\n}\nm := map[string]P{\"a\": {1, \"x\"}}\nv := m[\"a\"]\nv.A = 9\nO(m)\nm[\"a\"] = v\nO(m)\n"},
		{"pointer-elem-field-update", "type P struct {\nA int\nB string\n}\nm := map[string]*P{\"a\": {1, \"x\"}}\nm[\"a\"].A = 9\nO(m)\nSite(1, func() {\nm[\"zz\"].A = 1\n})\n"},
		{"op-assign-elem", "m := map[string]int{\"a\": 1}\nm[\"a\"] += 5\nm[\"b\"]++\nm[\"c\"] -= 2\nO(m)\ns := map[int]string{}\ns[1] += \"x\"\ns[1] += \"y\"\nO(s)\n"},
		{"bool-key-and-elem", "m := map[bool]bool{true: false}\nO(m[true], m[false], len(m))\nm[false] = true\nO(m)\n"},
		{"array-key-var", "k := [2]int{1, 2}\nm := map[[2]int]string{k: \"a\"}\nk[0] = 5\nm[k] = \"b\"\nO(m, len(m))\n"},
		{"struct-key-elided", "type P struct {\nA int\nB string\n}\nm := map[P]int{{1, \"a\"}: 1, {A: 2}: 2}\nO(m[P{1, \"a\"}], m[P{2, \"\"}], m[P{}], len(m))\n"},
		{"map-len-cap-builtin-on-nil", "var m map[int]int\nO(len(m))\nvar s []int\nO(len(s), cap(s))\nvar p *[4]int\nO(len(p), cap(p))\nvar c chan int\nO(len(c), cap(c))\n"},
		{"map-func-values", "m := map[string]func(int) int{\"inc\": func(x int) int { return x + 1 }}\nO(m[\"inc\"](1), m[\"zz\"] == nil)\nSite(1, func() {\nO(m[\"zz\"](1))\n})\n"},
	} {
		g.add("mx", "map|"+c.name, c.name, c.body)
	}
	for _, bad := range []struct{ name, body string }{
		{"struct-elem-field-assign", "type P struct{ A int }\nm := map[string]P{\"a\": {1}}\nm[\"a\"].A = 2\nO(m)\n"},
		{"array-elem-index-assign", "m := map[string][2]int{\"a\": {1, 2}}\nm[\"a\"][0] = 2\nO(m)\n"},
		{"address-of-elem", "m := map[string]int{\"a\": 1}\np := &m[\"a\"]\nO(*p)\n"},
		{"slice-key", "m := map[[]int]int{}\nO(m)\n"},
		{"map-key-type", "m := map[map[int]int]int{}\nO(m)\n"},
		{"func-key", "m := map[func()]int{}\nO(m)\n"},
		{"struct-with-slice-key", "m := map[struct{ S []int }]int{}\nO(m)\n"},
		{"delete-wrong-key-type", "m := map[string]int{}\ndelete(m, 1)\nO(m)\n"},
		{"delete-non-map", "s := []int{1}\ndelete(s, 0)\nO(s)\n"},
		{"delete-one-arg", "m := map[string]int{}\ndelete(m)\nO(m)\n"},
		{"cap-of-map", "m := map[string]int{}\nO(cap(m))\n"},
		{"comma-ok-three", "m := map[string]int{}\na, b, c := m[\"a\"]\nO(a, b, c)\n"},
		{"map-compare", "m := map[string]int{}\nn := map[string]int{}\nO(m == n)\n"},
		{"wrong-value-type", "m := map[string]int{}\nm[\"a\"] = \"b\"\nO(m)\n"},
		{"len-of-int", "x := 5\nO(len(x))\n"},
		{"len-of-ptr-to-slice", "x := &[]int{1}\nO(len(x))\n"},
		{"cap-of-string", "x := \"abc\"\nO(cap(x))\n"},
	} {
		g.add("mx", "map|invalid|"+bad.name, bad.name, bad.body)
	}
}

// ---------------------------------------------------------------------------
// make / new

func (g *c08Gen) genMake() {
	sizes := []int{-1, 0, 2, 3}
	modes := []string{"lit", "var"}
	if g.c.Thorough() {
		modes = append(modes, "u8var", "i64var", "fconst", "kconst")
	}
	for ki := range c08Kinds {
		k := &c08Kinds[ki]
		for _, lm := range modes {
			for _, l := range sizes {
				ld, lx, ok := c08IdxMode(lm, "n", l)
				if !ok {
					continue
				}
				body := ld + "Site(1, func() {\ns := make([]$E, " + lx + ")\nO(s, len(s), cap(s), s == nil)\nif len(s) > 0 {\ns[len(s)-1] = $0\nO(s)\n}\n})\n"
				g.addK(k, "mk", "make|slice-len|"+lm, fmt.Sprintf("len=%d", l), body)
				for _, cm := range modes {
					if (lm != "lit" && lm != "var" || cm != "lit" && cm != "var") && lm != cm {
						continue // mixed modes only between literal and variable
					}
					for _, cp := range sizes {
						cd, cx, ok := c08IdxMode(cm, "m", cp)
						if !ok {
							continue
						}
						body := ld + cd + "Site(1, func() {\ns := make([]$E, " + lx + ", " + cx + ")\nO(s, len(s), cap(s))\nt := s[:cap(s)]\nif len(t) > 0 {\nt[len(t)-1] = $0\n}\nO(t)\n})\n"
						g.addK(k, "mk", "make|slice-len-cap|"+lm+"|"+cm, fmt.Sprintf("len=%d cap=%d", l, cp), body)
					}
				}
				// maps: a negative size hint in a variable is not an error; channels: it is
				g.addK(k, "mk", "make|map-size|"+lm, fmt.Sprintf("size=%d", l), ld+"Site(1, func() {\nm := make(map[string]$E, "+lx+")\nm[\"a\"] = $0\nO(m, len(m))\n})\n")
				g.addK(k, "mk", "make|chan-size|"+lm, fmt.Sprintf("size=%d", l), ld+"Site(1, func() {\nc := make(chan $E, "+lx+")\nO(c, len(c), cap(c))\n})\n")
			}
		}
		for _, c := range []struct{ name, tpl string }{
			{"new-elem", "p := new($E)\nO(*p, p != nil)\n*p = $0\nq := p\nO(*q)\n"},
			{"new-array", "p := new([3]$E)\nO(*p, len(p))\np[1] = $0\n(*p)[2] = $1\nO(*p)\n"},
			{"new-slice", "p := new([]$E)\nO(*p == nil, len(*p))\n*p = append(*p, $0)\nOnc(*p)\n"},
			{"new-map", "p := new(map[string]$E)\nO(*p == nil, len(*p))\nSite(1, func() {\n(*p)[\"a\"] = $0\n})\n*p = map[string]$E{}\n(*p)[\"a\"] = $1\nO(*p)\n"},
			{"new-struct", "p := new(struct {\nF $E\nG int\n})\nO(*p)\np.F = $0\np.G++\nO(*p, p.F)\n"},
			{"new-pointer", "p := new(*$E)\nO(*p == nil)\nSite(1, func() {\nO(**p)\n})\nv := $0\n*p = &v\nO(**p)\n"},
			{"new-named", "type N $E\np := new(N)\nvar z N\nO(*p == z)\n"},
			{"new-distinct", "p, q := new($E), new($E)\n*p = $0\nO(*q, p == q, *p)\n"},
			{"make-unbuffered-chan", "c := make(chan $E)\nO(c, len(c), cap(c), c == nil)\n"},
			{"make-map-no-size", "m := make(map[string]$E)\nO(m, len(m), m == nil)\n"},
			{"make-named-slice", "type L []$E\nl := make(L, 1, 2)\nl[0] = $0\nO(l, len(l), cap(l))\n"},
			{"make-named-map", "type M map[string]$E\nm := make(M)\nm[\"a\"] = $0\nO(m)\n"},
			{"make-zeroed-after-reuse", "s := make([]$E, 2)\ns[0], s[1] = $0, $1\ns = make([]$E, 2)\nO(s)\n"},
		} {
			g.addK(k, "nw", "new-make|"+c.name, c.name, c.tpl)
		}
	}
	for _, c := range []struct{ name, body string }{
		{"huge-len-var", "n := 1 << 62\nSite(1, func() {\ns := make([]int8, n)\nO(len(s))\n})\n"},
		{"huge-len-int-var", "n := 1 << 61\nSite(1, func() {\ns := make([]int, n)\nO(len(s))\n})\n"},
		{"huge-cap-var", "n := 1 << 62\nSite(1, func() {\ns := make([]int, 0, n)\nO(len(s))\n})\n"},
		{"len-expression", "a := []int{1, 2, 3}\ns := make([]string, len(a)-1, cap(a)*2)\nO(s, len(s), cap(s))\n"},
		{"typed-const-len", "const n int8 = 2\ns := make([]int, n, n+1)\nO(s)\n"},
	} {
		g.add("nw", "new-make|"+c.name, c.name, c.body)
	}
	for _, bad := range []struct{ name, body string }{
		{"make-array", "a := make([3]int)\nO(a)\n"},
		{"make-int", "a := make(int)\nO(a)\n"},
		{"make-slice-no-len", "a := make([]int)\nO(a)\n"},
		{"make-map-two-sizes", "a := make(map[string]int, 1, 2)\nO(a)\n"},
		{"make-slice-four-args", "a := make([]int, 1, 2, 3)\nO(a)\n"},
		{"make-float-var-len", "f := 2.0\na := make([]int, f)\nO(a)\n"},
		{"make-fractional-const-len", "a := make([]int, 2.5)\nO(a)\n"},
		{"make-string-len", "a := make([]int, \"2\")\nO(a)\n"},
		{"make-pointer", "a := make(*int)\nO(a)\n"},
		{"make-struct", "a := make(struct{ A int })\nO(a)\n"},
		{"new-of-value", "a := new(5)\nO(a)\n"},
		{"new-no-args", "a := new()\nO(a)\n"},
		{"new-two-args", "a := new(int, 2)\nO(a)\n"},
		{"make-huge-const", "a := make([]int, 1<<70)\nO(len(a))\n"},
	} {
		g.add("nw", "new-make|invalid|"+bad.name, bad.name, bad.body)
	}
}
