package props

// C30 — canonical printers for std go/types types and for the forked types, in the format of the
// fork's TypeString (go1.12 vintage) qualified by package path. The std printer applies the documented
// representation differences (byte/rune → uint8/int32, `any` → interface{}, interface embeddeds ordered
// by unique type name). With names=false the names of parameters and results are left out (used where
// only the shape of a signature is compared: the names are compared once, at the declaration).

import (
	"fmt"
	"go/types"
	"sort"
	"strings"

	ftypes "github.com/cosmos72/gomacro/go/types"

	"verif/harness/core"
)

func c30ForkQual(p *ftypes.Package) string { return p.Path() }

type c30StdPrinter struct {
	sb    strings.Builder
	names bool
}

func c30StdString(t types.Type) string {
	p := c30StdPrinter{names: true}
	p.write(t)
	return p.sb.String()
}

func c30StdSigString(s *types.Signature) string {
	p := c30StdPrinter{names: true}
	p.sig(s)
	return p.sb.String()
}

func c30StdSigShape(s *types.Signature) string {
	p := c30StdPrinter{names: false}
	p.sig(s)
	return p.sb.String()
}

func (p *c30StdPrinter) write(t types.Type) {
	sb := &p.sb
	switch t := types.Unalias(t).(type) {
	case nil:
		sb.WriteString("<nil>")
	case *types.Basic:
		if t.Kind() == types.UnsafePointer {
			sb.WriteString("unsafe.")
		}
		sb.WriteString(types.Typ[t.Kind()].Name())
	case *types.Array:
		fmt.Fprintf(sb, "[%d]", t.Len())
		p.write(t.Elem())
	case *types.Slice:
		sb.WriteString("[]")
		p.write(t.Elem())
	case *types.Struct:
		sb.WriteString("struct{")
		for i := 0; i < t.NumFields(); i++ {
			f := t.Field(i)
			if i > 0 {
				sb.WriteString("; ")
			}
			if !f.Embedded() {
				sb.WriteString(f.Name())
				sb.WriteByte(' ')
			}
			p.write(f.Type())
			if tag := t.Tag(i); tag != "" {
				fmt.Fprintf(sb, " %q", tag)
			}
		}
		sb.WriteByte('}')
	case *types.Pointer:
		sb.WriteByte('*')
		p.write(t.Elem())
	case *types.Tuple:
		p.tuple(t, false)
	case *types.Signature:
		sb.WriteString("func")
		p.sig(t)
	case *types.Interface:
		sb.WriteString("interface{")
		n := t.NumExplicitMethods()
		ms := make([]*types.Func, n)
		for i := range ms {
			ms[i] = t.ExplicitMethod(i)
		}
		sort.SliceStable(ms, func(i, j int) bool { return ms[i].Id() < ms[j].Id() })
		for i, m := range ms {
			if i > 0 {
				sb.WriteString("; ")
			}
			sb.WriteString(m.Name())
			p.sig(m.Type().(*types.Signature))
		}
		for i, e := range c30StdEmbeddeds(t) {
			if i > 0 || n > 0 {
				sb.WriteString("; ")
			}
			p.write(e)
		}
		sb.WriteByte('}')
	case *types.Map:
		sb.WriteString("map[")
		p.write(t.Key())
		sb.WriteByte(']')
		p.write(t.Elem())
	case *types.Chan:
		parens := false
		switch t.Dir() {
		case types.SendRecv:
			sb.WriteString("chan ")
			if c, _ := types.Unalias(t.Elem()).(*types.Chan); c != nil && c.Dir() == types.RecvOnly {
				parens = true
			}
		case types.SendOnly:
			sb.WriteString("chan<- ")
		case types.RecvOnly:
			sb.WriteString("<-chan ")
		}
		if parens {
			sb.WriteByte('(')
		}
		p.write(t.Elem())
		if parens {
			sb.WriteByte(')')
		}
	case *types.Named:
		if pk := t.Obj().Pkg(); pk != nil {
			sb.WriteString(pk.Path())
			sb.WriteByte('.')
		}
		sb.WriteString(t.Obj().Name())
		if t.TypeArgs().Len() > 0 || t.TypeParams().Len() > 0 {
			sb.WriteString("[‹generic›]")
		}
	default:
		fmt.Fprintf(sb, "‹%T›", t)
	}
}

// c30StdEmbeddeds returns the embedded types of a std interface in the fork's canonical order
// (stable sort by the unique name of defined types, "" for literals).
func c30StdEmbeddeds(t *types.Interface) []types.Type {
	es := make([]types.Type, t.NumEmbeddeds())
	for i := range es {
		es[i] = t.EmbeddedType(i)
	}
	key := func(e types.Type) string {
		if n, _ := types.Unalias(e).(*types.Named); n != nil {
			return n.Obj().Id()
		}
		return ""
	}
	sort.SliceStable(es, func(i, j int) bool { return key(es[i]) < key(es[j]) })
	return es
}

func (p *c30StdPrinter) tuple(tup *types.Tuple, variadic bool) {
	sb := &p.sb
	sb.WriteByte('(')
	if tup != nil {
		for i := 0; i < tup.Len(); i++ {
			v := tup.At(i)
			if i > 0 {
				sb.WriteString(", ")
			}
			if p.names && v.Name() != "" {
				sb.WriteString(v.Name())
				sb.WriteByte(' ')
			}
			typ := v.Type()
			if variadic && i == tup.Len()-1 {
				if s, ok := types.Unalias(typ).(*types.Slice); ok {
					sb.WriteString("...")
					typ = s.Elem()
				} else {
					p.write(typ)
					sb.WriteString("...")
					continue
				}
			}
			p.write(typ)
		}
	}
	sb.WriteByte(')')
}

func (p *c30StdPrinter) sig(sig *types.Signature) {
	p.tuple(sig.Params(), sig.Variadic())
	n := sig.Results().Len()
	if n == 0 {
		return
	}
	p.sb.WriteByte(' ')
	if n == 1 && (!p.names || sig.Results().At(0).Name() == "") {
		p.write(sig.Results().At(0).Type())
		return
	}
	p.tuple(sig.Results(), false)
}

// ---------------------------------------------------------------------------
// fork side

// c30ForkString is the fork's own TypeString (the "printed form" of the property).
func c30ForkString(t ftypes.Type) (s string) {
	if p := core.Catch(func() { s = ftypes.TypeString(t, c30ForkQual) }); p != nil {
		return fmt.Sprintf("‹TypeString panicked: %v›", p)
	}
	return s
}

func c30ForkSigString(s *ftypes.Signature) (out string) {
	if p := core.Catch(func() {
		out = strings.TrimPrefix(ftypes.TypeString(s, c30ForkQual), "func")
	}); p != nil {
		return fmt.Sprintf("‹panic %v›", p)
	}
	return out
}

// c30ForkSigShape prints a fork signature without parameter/result names (own printer).
func c30ForkSigShape(s *ftypes.Signature) (out string) {
	p := c30ForkPrinter{}
	if pnc := core.Catch(func() { p.sig(s) }); pnc != nil {
		return fmt.Sprintf("‹panic %v›", pnc)
	}
	return p.sb.String()
}

type c30ForkPrinter struct {
	sb strings.Builder
}

func (p *c30ForkPrinter) write(t ftypes.Type) {
	sb := &p.sb
	switch t := t.(type) {
	case nil:
		sb.WriteString("<nil>")
	case *ftypes.Basic:
		if t.Kind() == ftypes.UnsafePointer {
			sb.WriteString("unsafe.")
		}
		sb.WriteString(t.Name())
	case *ftypes.Array:
		fmt.Fprintf(sb, "[%d]", t.Len())
		p.write(t.Elem())
	case *ftypes.Slice:
		sb.WriteString("[]")
		p.write(t.Elem())
	case *ftypes.Struct:
		sb.WriteString("struct{")
		for i := 0; i < t.NumFields(); i++ {
			f := t.Field(i)
			if i > 0 {
				sb.WriteString("; ")
			}
			if !f.Embedded() {
				sb.WriteString(f.Name())
				sb.WriteByte(' ')
			}
			p.write(f.Type())
			if tag := t.Tag(i); tag != "" {
				fmt.Fprintf(sb, " %q", tag)
			}
		}
		sb.WriteByte('}')
	case *ftypes.Pointer:
		sb.WriteByte('*')
		p.write(t.Elem())
	case *ftypes.Tuple:
		p.tuple(t, false)
	case *ftypes.Signature:
		sb.WriteString("func")
		p.sig(t)
	case *ftypes.Interface:
		sb.WriteString("interface{")
		n := t.NumExplicitMethods()
		for i := 0; i < n; i++ {
			if i > 0 {
				sb.WriteString("; ")
			}
			m := t.ExplicitMethod(i)
			sb.WriteString(m.Name())
			p.sig(m.Type().(*ftypes.Signature))
		}
		for i := 0; i < t.NumEmbeddeds(); i++ {
			if i > 0 || n > 0 {
				sb.WriteString("; ")
			}
			p.write(t.EmbeddedType(i))
		}
		sb.WriteByte('}')
	case *ftypes.Map:
		sb.WriteString("map[")
		p.write(t.Key())
		sb.WriteByte(']')
		p.write(t.Elem())
	case *ftypes.Chan:
		parens := false
		switch t.Dir() {
		case ftypes.SendRecv:
			sb.WriteString("chan ")
			if c, _ := t.Elem().(*ftypes.Chan); c != nil && c.Dir() == ftypes.RecvOnly {
				parens = true
			}
		case ftypes.SendOnly:
			sb.WriteString("chan<- ")
		case ftypes.RecvOnly:
			sb.WriteString("<-chan ")
		}
		if parens {
			sb.WriteByte('(')
		}
		p.write(t.Elem())
		if parens {
			sb.WriteByte(')')
		}
	case *ftypes.Named:
		if o := t.Obj(); o != nil {
			if pk := o.Pkg(); pk != nil {
				sb.WriteString(pk.Path())
				sb.WriteByte('.')
			}
			sb.WriteString(o.Name())
		} else {
			sb.WriteString("‹Named w/o object›")
		}
	default:
		fmt.Fprintf(sb, "‹%T›", t)
	}
}

func (p *c30ForkPrinter) tuple(tup *ftypes.Tuple, variadic bool) {
	sb := &p.sb
	sb.WriteByte('(')
	if tup != nil {
		for i := 0; i < tup.Len(); i++ {
			if i > 0 {
				sb.WriteString(", ")
			}
			typ := tup.At(i).Type()
			if variadic && i == tup.Len()-1 {
				if s, ok := typ.(*ftypes.Slice); ok {
					sb.WriteString("...")
					typ = s.Elem()
				} else {
					p.write(typ)
					sb.WriteString("...")
					continue
				}
			}
			p.write(typ)
		}
	}
	sb.WriteByte(')')
}

func (p *c30ForkPrinter) sig(sig *ftypes.Signature) {
	p.tuple(sig.Params(), sig.Variadic())
	n := sig.Results().Len()
	if n == 0 {
		return
	}
	p.sb.WriteByte(' ')
	if n == 1 {
		p.write(sig.Results().At(0).Type())
		return
	}
	p.tuple(sig.Results(), false)
}
