package props

// C16 generator, second family — SPECS THAT DECLARE SEVERAL NAMES.
//
// The DAG family of c16_gen.go declares one name per declaration (plus iota groups whose names share one
// initialiser). The dependency extraction of base/dep/scope.go has separate code for specs with several names:
// per-name dependency lists are assembled from the dependencies of the (shared) type expression and of the
// initialiser of that name only (Scope.Vars, Scope.Consts with inherited type/initialisers, varsMultiValueExpr).
// A mistake there gives one name the dependencies of another one (aliasing, wrong index, union of all), which
// shows only when the names of ONE spec depend on DIFFERENT other declarations, and only in some textual orders.
//
// Alphabet (every combination, every permutation of the textual order of the chunks):
//   spec form   V  var a, b [τ] = i0, i1             C  const a, b [τ] = i0, i1
//               G  const ( a, b [τ] = iota+i0, iota*2+i1; c, d )   (type and initialisers inherited by c, d)
//               P  var ( a [τ] = i0; b [τ] = i1 )     M  var a, b [τ] = pair()   (multi-value form)
//   arity       2, 3 names
//   type τ      none | T | map[T]T | func(T) T | map[T]U | func(T, U) T | map[T]map[U]W | struct with 5 distinct
//               types | []T      (0..5 distinct type names, with and without repeated mentions: the dependency list
//               of the type expression has length 0..5 and, built by append + in-place dedup, spare capacity or not)
//   per-name initialiser   O  its own outside declaration (a var, a call of a func, a const: all distinct)
//                          L  a literal without dependencies      S  another name of the same spec
//                          Y  an outside declaration that itself depends on the first name of the spec
//   the outside declarations and the type declaration(s) are separate chunks.
//
// Third family — declarations USING mutually recursive types (functions with parameters/results of pointer-to-
// forward-declared types, variables, further types), in every textual order.

import (
	"fmt"
	"strings"
)

type c16TypeForm struct {
	Key   string
	Types []string              // type names (without suffix) the expression mentions
	Text  string                // the type expression ("" = no explicit type); names carry @
	Lit   func(e string) string // a value of the type built from the int expression e
	Obs   func(v string) string // an int observation of a value of the type
	Const bool                  // usable as the type of a constant
	ResTy string                // result type text for functions when Text == ""
}

var c16TypeForms = []c16TypeForm{
	{Key: "0", Text: "", Const: true, ResTy: "int",
		Lit: func(e string) string { return "(" + e + ")" }, Obs: func(v string) string { return v }},
	{Key: "1", Types: []string{"T"}, Text: "T@", Const: true,
		Lit: func(e string) string { return "T@(" + e + ")" }, Obs: func(v string) string { return "int(" + v + ")" }},
	{Key: "2", Types: []string{"T"}, Text: "map[T@]T@",
		Lit: func(e string) string { return "map[T@]T@{1: T@(" + e + ")}" }, Obs: func(v string) string { return "int(" + v + "[1])" }},
	{Key: "3", Types: []string{"T"}, Text: "func(T@) T@",
		Lit: func(e string) string { return "func(z T@) T@ { return z + T@(" + e + ") }" }, Obs: func(v string) string { return "int(" + v + "(1))" }},
	{Key: "4", Types: []string{"T", "U"}, Text: "map[T@]U@",
		Lit: func(e string) string { return "map[T@]U@{1: U@(" + e + ")}" }, Obs: func(v string) string { return "int(" + v + "[1])" }},
	{Key: "5", Types: []string{"T", "U"}, Text: "func(T@, U@) T@",
		Lit: func(e string) string { return "func(z T@, y U@) T@ { return z + T@(y) + T@(" + e + ") }" }, Obs: func(v string) string { return "int(" + v + "(1, 2))" }},
	{Key: "6", Types: []string{"T", "U", "W"}, Text: "map[T@]map[U@]W@",
		Lit: func(e string) string { return "map[T@]map[U@]W@{1: {2: W@(" + e + ")}}" }, Obs: func(v string) string { return "int(" + v + "[1][2])" }},
	{Key: "7", Types: []string{"T", "U", "W", "X", "Y"}, Text: "struct { p T@; q U@; r W@; s X@; t Y@ }",
		Lit: func(e string) string { return "struct { p T@; q U@; r W@; s X@; t Y@ }{p: T@(" + e + "), t: 1}" }, Obs: func(v string) string { return "int(" + v + ".p) + int(" + v + ".t)" }},
	{Key: "8", Types: []string{"T"}, Text: "[]T@",
		Lit: func(e string) string { return "[]T@{T@(" + e + ")}" }, Obs: func(v string) string { return "int(" + v + "[0])" }},
}

var c16SpecNames = []string{"a@", "b@", "c@"}

// c16SpecSet renders one set of the family. form: V C G P M; pattern: one letter per name (O L S Y); outside: v f k.
// ok=false: the combination does not exist (e.g. a constant of map type).
func c16SpecSet(form byte, tf c16TypeForm, pattern string, outside byte) (c16Set, bool) {
	n := len(pattern)
	isConst := form == 'C' || form == 'G'
	if isConst && (!tf.Const || outside != 'k') {
		return c16Set{}, false
	}
	if !isConst && outside == 'k' && (!tf.Const || strings.Contains(pattern, "Y")) {
		return c16Set{}, false
	}
	if form == 'M' && (pattern != "OO" && pattern != "OOO" || outside == 'k') {
		return c16Set{}, false
	}
	if form == 'G' && strings.Contains(pattern, "S") {
		return c16Set{}, false // iota + a sibling: fine in Go, but the inherited row would refer to itself
	}
	s := c16Set{ID: fmt.Sprintf("sp%c%sn%d%s%c", form, tf.Key, n, pattern, outside), MustBeValid: true}
	switch form {
	case 'V':
		s.Class = "multi-name-var-spec"
	case 'C':
		s.Class = "multi-name-const-spec"
	case 'G':
		s.Class = "const-group-inheriting-multi-name-spec"
	case 'P':
		s.Class = "var-group-of-specs"
	case 'M':
		s.Class = "multi-value-var-spec"
	}
	if tf.Text != "" {
		s.Class += "-typed"
	}
	ty := tf.Text
	resTy := tf.Text
	if resTy == "" {
		resTy = tf.ResTy
	}
	// chunk 0: the spec; chunk 1: the types (if any); then the outside declarations
	typeChunk := -1
	var chunks []string
	var deps [][]int
	chunks = append(chunks, "") // filled below
	deps = append(deps, nil)
	if len(tf.Types) == 1 {
		typeChunk = len(chunks)
		chunks = append(chunks, "type "+tf.Types[0]+"@ int")
		deps = append(deps, nil)
	} else if len(tf.Types) > 1 {
		typeChunk = len(chunks)
		var l []string
		for _, t := range tf.Types {
			l = append(l, t+"@ int")
		}
		chunks = append(chunks, "type ( "+strings.Join(l, "; ")+" )")
		deps = append(deps, nil)
	}
	if typeChunk >= 0 {
		deps[0] = append(deps[0], typeChunk)
	}
	inits := make([]string, n)
	for i := 0; i < n; i++ {
		val := fmt.Sprint(10 + 3*i)
		switch pattern[i] {
		case 'L':
			if isConst {
				inits[i] = fmt.Sprint(20 + i)
			} else {
				inits[i] = tf.Lit(fmt.Sprint(20 + i))
			}
		case 'S':
			if i == 0 {
				inits[i] = c16SpecNames[n-1]
			} else {
				inits[i] = c16SpecNames[0]
			}
		case 'O', 'Y':
			body := tf.Lit(val)
			dep := []int{}
			if typeChunk >= 0 {
				dep = append(dep, typeChunk)
			}
			if pattern[i] == 'Y' {
				body = "a@"
				dep = append(dep, 0)
			}
			var d string
			switch outside {
			case 'v':
				d = fmt.Sprintf("var x%d@ = %s", i, body)
				inits[i] = fmt.Sprintf("x%d@", i)
			case 'f':
				d = fmt.Sprintf("func f%d@() %s { return %s }", i, resTy, body)
				inits[i] = fmt.Sprintf("f%d@()", i)
			case 'k':
				if pattern[i] == 'Y' {
					d = fmt.Sprintf("const k%d@ = a@ + 1", i)
				} else {
					d = fmt.Sprintf("const k%d@ = %s", i, val)
				}
				inits[i] = fmt.Sprintf("k%d@", i)
				if typeChunk >= 0 && pattern[i] != 'Y' {
					dep = dep[:0] // an untyped constant does not mention the type
				}
			}
			deps[0] = append(deps[0], len(chunks))
			chunks = append(chunks, d)
			deps = append(deps, dep)
		}
	}
	names := c16SpecNames[:n]
	var obs []string
	for _, nm := range names {
		obs = append(obs, tf.Obs(nm))
	}
	sp := func(t string) string {
		if t == "" {
			return ""
		}
		return " " + t
	}
	switch form {
	case 'V':
		chunks[0] = fmt.Sprintf("var %s%s = %s", strings.Join(names, ", "), sp(ty), strings.Join(inits, ", "))
	case 'C':
		chunks[0] = fmt.Sprintf("const %s%s = %s", strings.Join(names, ", "), sp(ty), strings.Join(inits, ", "))
	case 'G':
		var row2, e []string
		for i, nm := range names {
			row2 = append(row2, strings.Replace(nm, "@", "2@", 1))
			e = append(e, fmt.Sprintf("iota*%d + %s", 100*(i+1), inits[i]))
		}
		chunks[0] = fmt.Sprintf("const ( %s%s = %s; %s )", strings.Join(names, ", "), sp(ty), strings.Join(e, ", "), strings.Join(row2, ", "))
		for _, nm := range row2 {
			obs = append(obs, tf.Obs(nm))
		}
	case 'P':
		var l []string
		for i, nm := range names {
			l = append(l, fmt.Sprintf("%s%s = %s", nm, sp(ty), inits[i]))
		}
		chunks[0] = "var ( " + strings.Join(l, "; ") + " )"
	case 'M':
		var rt []string
		for range names {
			rt = append(rt, resTy)
		}
		chunks[0] = fmt.Sprintf("var %s%s = pair@()", strings.Join(names, ", "), sp(ty))
		pd := []int{}
		if typeChunk >= 0 {
			pd = append(pd, typeChunk)
		}
		for k := range chunks {
			if k != 0 && k != typeChunk {
				pd = append(pd, k)
			}
		}
		deps[0] = []int{len(chunks)}
		if typeChunk >= 0 {
			deps[0] = append(deps[0], typeChunk)
		}
		chunks = append(chunks, fmt.Sprintf("func pair@() (%s) { return %s }", strings.Join(rt, ", "), strings.Join(inits, ", ")))
		deps = append(deps, pd)
	}
	s.Decls = chunks
	s.ChunkDeps = deps
	s.Obs = "O(" + strings.Join(obs, ", ") + ")"
	return s, true
}

// c16SpecSets enumerates the family for a tier.
func c16SpecSets(thorough bool) []c16Set {
	var out []c16Set
	pat2 := []string{"OO", "OL", "LO", "OS", "SO", "OY", "LS"}
	pat3 := []string{"OOO", "LOO", "OLO", "OOL", "OSO", "OOS", "SOO", "OYO", "OOY"}
	for _, tf := range c16TypeForms {
		for _, form := range []byte{'V', 'C', 'G', 'P', 'M'} {
			for _, outside := range []byte{'v', 'f', 'k'} {
				for _, p := range pat2 {
					if s, ok := c16SpecSet(form, tf, p, outside); ok {
						out = append(out, s)
					}
				}
				// three names (5-6 chunks, 120-720 orders): quick keeps the var spec with variables outside, for every type form
				for _, p := range pat3 {
					if !thorough && !(form == 'V' && outside == 'v' && (p == "OOO" || p == "OLO" || p == "OSO")) {
						continue
					}
					if s, ok := c16SpecSet(form, tf, p, outside); ok {
						out = append(out, s)
					}
				}
			}
		}
	}
	return out
}

// c16RecUsers: declarations that USE mutually recursive (through pointers) struct types. Go accepts all of them.
var c16RecUsers = func() []c16Set {
	ab := []string{"type A@ struct { b *B@; n int }", "type B@ struct { a *A@; m int }"}
	// the observations build their values by field assignment: composite literals that nest a pointer to the partner type
	// are a family of their own (lit*) so that a defect of those literals does not mask the declarations under test
	mk := "var a A@; var b B@; a.n = 6; b.m = 5; a.b = &b; b.a = &a; "
	users := []struct{ id, decl, obs string }{
		{"fptr", "func f@(a *A@) *B@ { return a.b }", mk + "O(f@(&a).m)"},
		{"fptr2", "func f@(b *B@) *A@ { return b.a }", mk + "O(f@(&b).n)"},
		{"fval", "func f@(a A@) int { return a.n + 1 }", "O(f@(A@{n: 3}))"},
		{"fres", "func f@() *A@ { a := &A@{n: 1}; a.b = &B@{m: 2}; return a }", "O(f@().b.m, f@().n)"},
		{"fresb", "func f@(n int) *B@ { return &B@{m: n} }", "O(f@(4).m)"},
		{"flocal", "func f@() int { var b B@; b.a = &A@{n: 7}; return b.a.n }", "O(f@())"},
		{"fslice", "func f@(as []*A@) (r int) { for _, a := range as { r += a.n }; return }", "O(f@([]*A@{{n: 1}, {n: 2}}))"},
		{"fboth", "func f@(a *A@, b *B@) (*B@, *A@) { return a.b, b.a }", mk + "x, y := f@(&a, &b); O(x.m, y.n)"},
		{"vnil", "var v@ *B@", "O(v@ == nil)"},
		{"vptr", "var v@ = &A@{n: 3}", "O(v@.n, v@.b == nil)"},
		{"vval", "var v@ B@", "O(v@.m, v@.a == nil)"},
		{"vfunc", "var v@ = func(a *A@) *B@ { return a.b }", mk + "O(v@(&a).m)"},
		{"tuser", "type C@ struct { pa *A@; pb *B@ }", mk + "c := C@{pa: &a, pb: &b}; O(c.pa.n, c.pb.m)"},
		{"tfunc", "type F@ func(*A@) *B@", mk + "var f F@ = func(a *A@) *B@ { return a.b }; O(f(&a).m)"},
	}
	var out []c16Set
	for _, u := range users {
		class := "declaration-using-mutually-recursive-types"
		if u.id == "tuser" {
			class = "struct-type-with-pointers-to-both-mutually-recursive-types"
		}
		out = append(out, c16Set{ID: "rec" + u.id, Class: class, MustBeValid: true,
			Decls: append(append([]string{}, ab...), u.decl), Obs: u.obs, ChunkDeps: [][]int{{1}, {0}, {0, 1}}})
	}
	lits := []struct{ id, decl, obs string }{
		{"ab", "var v@ = &A@{n: 3, b: &B@{m: 4}}", "O(v@.n, v@.b.m)"},
		{"ba", "var v@ = &B@{m: 3, a: &A@{n: 4}}", "O(v@.m, v@.a.n)"},
		{"val", "var v@ = A@{n: 1, b: &B@{m: 2}}", "O(v@.n, v@.b.m)"},
		{"fn", "func f@() *A@ { return &A@{b: &B@{m: 2}} }", "O(f@().b.m)"},
		{"obsab", "const k@ = 1", "a := &A@{b: &B@{m: 6}}; O(a.b.m, k@)"},
		{"obsba", "const k@ = 1", "b := &B@{a: &A@{n: 6}}; O(b.a.n, k@)"},
	}
	for _, u := range lits {
		dep := []int{0, 1}
		if strings.HasPrefix(u.id, "obs") {
			dep = nil
		}
		out = append(out, c16Set{ID: "reclit" + u.id, Class: "composite-literal-nesting-pointer-to-mutually-recursive-partner-type", MustBeValid: true,
			Decls: append(append([]string{}, ab...), u.decl), Obs: u.obs, ChunkDeps: [][]int{{1}, {0}, dep}})
	}
	// self-recursive type and a function walking it; two users at once
	out = append(out,
		c16Set{ID: "recself", Class: "declaration-using-self-recursive-type", MustBeValid: true,
			Decls: []string{"type L@ struct { next *L@; v int }", "func tail@(l *L@) *L@ { for l.next != nil { l = l.next }; return l }", "var l@ = &L@{&L@{nil, 2}, 1}"},
			Obs:   "O(tail@(l@).v)", ChunkDeps: [][]int{{0}, {0}, {0}}},
		// a struct holding one of the types BY VALUE next to a pointer to the other one
		c16Set{ID: "recbyvalue", Class: "struct-holding-mutually-recursive-type-by-value", MustBeValid: true,
			Decls: append(append([]string{}, ab...), "type C@ struct { a A@; pb *B@ }"),
			Obs:   "c := C@{a: A@{n: 2}, pb: &B@{m: 3}}; O(c.a.n, c.pb.m)", ChunkDeps: [][]int{{1}, {0}, {0, 1}}},
		// reading a nil pointer-to-partner field (no literal nests a pointer to the partner type)
		c16Set{ID: "recnilread", Class: "nil-pointer-to-partner-field-of-mutually-recursive-type-read", MustBeValid: true,
			Decls: append(append([]string{}, ab...), "var v@ = &A@{n: 8}", "var w@ = &B@{m: 9}"),
			Obs:   "x := v@.b; y := w@.a; O(x == nil, y == nil, v@.n, w@.m)", ChunkDeps: [][]int{{1}, {0}, {0, 1}, {0, 1}}},
		c16Set{ID: "rec2users", Class: "nil-pointer-to-partner-field-of-mutually-recursive-type-read", MustBeValid: true,
			Decls: append(append([]string{}, ab...), "func f@(a *A@) *B@ { return a.b }", "var v@ = f@(&A@{n: 8})"),
			Obs:   "O(v@ == nil)", ChunkDeps: [][]int{{1}, {0}, {0, 1}, {0, 1, 2}}},
	)
	return out
}()
