package props

// C34 — generic-contract (CTI) methods on unnamed basic and container types agree with the Go operators / builtins.
//
// Part 1 (basic kinds): every method name of the generated per-kind table × every basic kind × operand shape
// {var, typed const, untyped const, const receiver} × boundary value grid; a call that does not compile is counted as
// "not offered", one that compiles must return what the native Go operator (generic instantiation per kind, same
// functions as C01) returns, panics included.
// Part 2 (containers): slice / array (pointer receiver) / map / chan / string methods over several element kinds,
// driven with natively built containers; the reference is the Go builtin or operator written in plain Go.

import (
	"encoding/json"
	"fmt"
	"reflect"
	"strings"

	"verif/harness/core"
	"verif/harness/h"
	"verif/harness/native"
	"verif/harness/twin"
)

func init() {
	core.Register(&core.Check{ID: "C34", Level: "exploration", Workers: -1, Run: c34Run, Replay: c34Replay})
	regC34[int]("int")
	regC34[int8]("int8")
	regC34[int16]("int16")
	regC34[int32]("int32")
	regC34[int64]("int64")
	regC34[uint]("uint")
	regC34[uint8]("uint8")
	regC34[uint16]("uint16")
	regC34[uint32]("uint32")
	regC34[uint64]("uint64")
	regC34[uintptr]("uintptr")
	regC34[float32]("float32")
	regC34[float64]("float64")
	regC34[string]("string")
	c01Drivers["complex64|complex64|proj"] = &c01Drv[complex64, complex64, float32]{floaty: true,
		ops: map[string]func(complex64, complex64) float32{"real": func(a, _ complex64) float32 { return real(a) }, "imag": func(a, _ complex64) float32 { return imag(a) }},
		nt:  func(x, _ complex64, r float32) bool { return r != 0 }}
	c01Drivers["complex128|complex128|proj"] = &c01Drv[complex128, complex128, float64]{floaty: true,
		ops: map[string]func(complex128, complex128) float64{"real": func(a, _ complex128) float64 { return real(a) }, "imag": func(a, _ complex128) float64 { return imag(a) }},
		nt:  func(x, _ complex128, r float64) bool { return r != 0 }}
}

func regC34[T native.Ordered](kind string) {
	c01Drivers[kind+"|"+kind+"|cmp3"] = &c01Drv[T, T, int]{ops: map[string]func(T, T) int{"cmp": native.Cmp[T]},
		nt: func(x, y T, r int) bool { return r != 0 }}
}

// method name -> (class, operator of the C01 driver tables)
type c34Method struct {
	name  string
	class string // bin3: z.M(a,b) | un2: z.M(a) | rel: a.M(b) | shift: z.M(a, n uint8) | proj: a.M()
	op    string
}

var c34Methods = []c34Method{
	{"Add", "bin3", "+"}, {"Sub", "bin3", "-"}, {"Mul", "bin3", "*"}, {"Quo", "bin3", "/"}, {"Rem", "bin3", "%"},
	{"And", "bin3", "&"}, {"Or", "bin3", "|"}, {"Xor", "bin3", "^"}, {"AndNot", "bin3", "&^"},
	{"Neg", "un2", "u-"}, {"Not", "un2", "u^"},
	{"Equal", "rel", "=="}, {"Less", "rel", "<"}, {"Cmp", "rel", "cmp"},
	{"Lsh", "shift", "<<"}, {"Rsh", "shift", ">>"},
	{"Real", "proj", "real"}, {"Imag", "proj", "imag"},
}

type c34Unit struct {
	M     string `json:"method"`
	K     string `json:"kind"`
	Shape string `json:"shape"`          // vv vc cv cc | v c (one-operand methods)
	Form  string `json:"form,omitempty"` // L typed const, U untyped const, R constant receiver with variable operands
	CX    string `json:"cx,omitempty"`
	CY    string `json:"cy,omitempty"`
	Store string `json:"store"` // local | top
}

type c34Case struct {
	Unit *c34Unit `json:"unit,omitempty"`
	X    string   `json:"x,omitempty"`
	Y    string   `json:"y,omitempty"`
	Scen string   `json:"container_scenario,omitempty"`
	Arg  int      `json:"argument_tuple,omitempty"`
	Src  string   `json:"source,omitempty"`
	Want string   `json:"want_compiled_go,omitempty"`
	Got  string   `json:"got_interpreter,omitempty"`
}

func c34Lookup(name string) *c34Method {
	for i := range c34Methods {
		if c34Methods[i].name == name {
			return &c34Methods[i]
		}
	}
	return nil
}

func (u *c34Unit) method() *c34Method { return c34Lookup(u.M) }

// operator and driver; nil driver: Go has no such operator for the kind.
func (u *c34Unit) driver() (c01Driver, string) {
	m := u.method()
	op := m.op
	var d c01Driver
	switch m.class {
	case "bin3", "un2":
		if m.name == "Not" && u.K == "bool" {
			op = "u!"
		}
		d = c01Driver_(u.K, u.K, false)
	case "rel":
		if op == "cmp" {
			d = c01Drivers[u.K+"|"+u.K+"|cmp3"]
		} else {
			d = c01Driver_(u.K, u.K, true)
		}
	case "shift":
		d = c01ShiftDriver(u.K, "uint8")
	case "proj":
		d = c01Drivers[u.K+"|"+u.K+"|proj"]
	}
	if d == nil || !d.Has(op) {
		return nil, op
	}
	return d, op
}

func (u *c34Unit) ky() string {
	if u.method().class == "shift" {
		return "uint8"
	}
	return u.K
}

func (u *c34Unit) resultType() string {
	m := u.method()
	switch {
	case m.op == "cmp":
		return "int"
	case m.class == "rel":
		return "bool"
	case m.class == "proj" && u.K == "complex64":
		return "float32"
	case m.class == "proj" && u.K == "complex128":
		return "float64"
	case m.class == "proj":
		return u.K // will not compile anyway
	}
	return u.K
}

func (u *c34Unit) oneOperand() bool { c := u.method().class; return c == "un2" || c == "proj" }
func (u *c34Unit) hasA() bool       { return u.Shape == "vv" || u.Shape == "vc" || u.Shape == "v" }
func (u *c34Unit) hasB() bool       { return u.Shape == "vv" || u.Shape == "cv" }

func (u *c34Unit) source() (fn, setter, expr string) {
	m := u.method()
	tx, ty, R := u.K, u.ky(), u.resultType()
	va, vb := "a", "b"
	if u.Store == "top" {
		va, vb = "ga_"+tx, "gb_"+ty
	}
	ct := func(enc string, form byte) string {
		v := c01Dec(enc)
		if form == 'U' {
			return c01Untyped(v, false)
		}
		return c01Typed(v)
	}
	ex, ey := va, vb
	switch u.Shape {
	case "vc":
		ey = ct(u.CY, u.Form[0])
	case "cv", "c":
		ex = ct(u.CX, u.Form[0])
	case "cc":
		ex, ey = ct(u.CX, u.Form[0]), ct(u.CY, u.Form[1])
	}
	// receiver: the first operand, unless it is an untyped constant (then a typed zero value) or Form R
	recv := ex
	if u.Form == "R" || (u.hasA() == false && strings.HasPrefix(u.Form, "U")) {
		recv = c01Typed(c01Vals(tx, tierCore, false)[1])
	}
	var E string
	switch m.class {
	case "bin3", "shift":
		E = fmt.Sprintf("%s.%s(%s, %s)", recv, m.name, ex, ey)
	case "un2":
		E = fmt.Sprintf("%s.%s(%s)", recv, m.name, ex)
	case "rel":
		E = fmt.Sprintf("%s.%s(%s)", ex, m.name, ey)
	case "proj":
		E = fmt.Sprintf("%s.%s()", ex, m.name)
	}
	var params []string
	assign := ""
	if u.hasA() {
		if u.Store == "top" {
			params = append(params, "p "+tx)
			assign += va + " = p; "
		} else {
			params = append(params, "a "+tx)
		}
	}
	if u.hasB() {
		if u.Store == "top" {
			params = append(params, "q "+ty)
			assign += vb + " = q; "
		} else {
			params = append(params, "b "+ty)
		}
	}
	ps := strings.Join(params, ", ")
	if u.Store == "top" {
		if len(params) > 0 {
			setter = "(func(" + ps + ") bool { " + assign + "return true })"
		}
		return "", setter, E
	}
	return "(func(" + ps + ") " + R + " { return " + E + " })", "", ""
}

func (u *c34Unit) build(w *c01World) (cl *c01Callable, src string, err string) {
	fn, setter, expr := u.source()
	src = fn
	if fn == "" {
		src = expr
		if setter != "" {
			src = setter + " ; " + expr
		}
	}
	perr := twin.Catch(func() {
		cl = &c01Callable{ir: w.ir}
		switch {
		case u.hasA() && u.hasB():
			cl.arity = "xy"
		case u.hasA():
			cl.arity = "x"
		case u.hasB():
			cl.arity = "y"
		}
		if fn != "" {
			v, _ := w.ir.Eval1(fn)
			cl.fn = v.Interface()
			return
		}
		if setter != "" {
			v, _ := w.ir.Eval1(setter)
			cl.set = v.Interface()
		}
		cl.expr = w.ir.Compile(expr)
		if cl.expr == nil {
			panic("Compile returned nil expression")
		}
	})
	if w.ir.Out.Len() > 1<<16 {
		w.ir.Out.Reset()
	}
	if perr != nil {
		return nil, src, fmt.Sprint(perr)
	}
	return cl, src, ""
}

func (u *c34Unit) sig(fail string) string {
	s := "C34|" + u.M + "|" + u.K + "|" + u.Shape
	if u.Form != "" {
		s += ":" + u.Form
	}
	return s + "|" + fail
}

type c34Runner struct {
	c      *core.Ctx
	w      *c01World
	enum   *c01Enum
	replay bool
}

func (r *c34Runner) grid(u *c34Unit) (xs, ys []interface{}, coreX, coreY []bool) {
	cu := c01Unit{Op: u.method().op, KX: u.K, KY: u.ky(), Shape: u.Shape, CX: u.CX, CY: u.CY}
	if u.method().class == "shift" {
		cu.Op = "<<"
	}
	if u.oneOperand() {
		cu.Op = "u-"
	}
	xs, ys, coreX, coreY = r.enum.grid(&cu)
	if u.method().class == "shift" && u.hasB() {
		// the count parameter is uint8: every count 0..255 in the full tier
		if r.enum.tier == tierFull {
			ys, coreY = nil, nil
			in := map[string]bool{}
			for _, v := range r.enum.counts("uint8", tierCore) {
				in[c01Enc(v)] = true
			}
			for i := 0; i < 256; i++ {
				ys = append(ys, uint8(i))
				coreY = append(coreY, in[c01Enc(uint8(i))])
			}
		}
	}
	return
}

func (r *c34Runner) runUnit(u *c34Unit) (compiled bool) {
	c := r.c
	cl, src, cerr := u.build(r.w)
	if cerr != "" {
		return false
	}
	drv, op := u.driver()
	if drv == nil {
		// the method compiles although Go has no such operator for the kind: nothing to compare with
		c.Count("compiles_without_go_operator:"+u.M+"|"+u.K, 1)
		return true
	}
	xs, ys, coreX, coreY := r.grid(u)
	nontriv := make([]bool, len(xs)*len(ys))
	nmis := 0
	drv.Run(op, cl, xs, ys, nontriv, func(i, j int, want, got string) {
		nmis++
		if nmis > 20 {
			return
		}
		fail := c01FailKind(want, got)
		cas := c34Case{Unit: u, Src: src, Want: want, Got: got}
		if u.hasA() {
			cas.X = c01Enc(xs[i])
		}
		if u.hasB() {
			cas.Y = c01Enc(ys[j])
		}
		sig := u.sig(fail)
		c.Count("viol:"+sig, 1)
		c.Violation(sig, fmt.Sprintf("%s on %s [%s%s]: x=%s y=%s : Go operator %s gives %s, method gives %s   source: %s",
			u.M, u.K, u.Shape, u.Form, c01Show(operandOrNil(u.hasA(), xs[i])), c01Show(operandOrNil(u.hasB(), ys[j])), op, want, got, src), cas)
	})
	c.Eval(len(xs) * len(ys))
	c.Count("basic_method_evaluations", len(xs)*len(ys))
	key := fmt.Sprintf("%s|%s|%s|%s|%s|%s|%s", u.M, u.K, u.Shape, u.Form, u.CX, u.CY, u.Store)
	for i := range xs {
		for j := range ys {
			if nontriv[i*len(ys)+j] && coreX[i] && coreY[j] {
				c.Nontrivial(key + "|" + c01Enc(xs[i]) + "|" + c01Enc(ys[j]))
			}
		}
	}
	if c.WantSample() && u.Shape == "vv" && (u.M == "AndNot" || u.M == "Cmp" || u.M == "Rsh") {
		i, j := len(xs)/2, len(ys)/2
		c.Sample(map[string]interface{}{"unit": u, "source": src, "x": c01Show(xs[i]), "y": c01Show(ys[j]), "compiled_go": drv.Native(op, xs[i], ys[j]), "grid": len(xs) * len(ys)})
	}
	return true
}

func (r *c34Runner) eachBasic(f func(u *c34Unit) bool) {
	for _, k := range c01Kinds {
		for _, m := range c34Methods {
			one := m.class == "un2" || m.class == "proj"
			base := &c34Unit{M: m.name, K: k, Shape: "vv", Store: "local"}
			if one {
				base.Shape = "v"
			}
			if !f(base) {
				continue // not offered for this kind: the remaining shapes cannot compile either
			}
			u2 := *base
			u2.Store = "top"
			f(&u2)
			r2 := *base
			r2.Form = "R"
			f(&r2)
			drv, _ := base.driver()
			if drv == nil {
				continue
			}
			cop := m.op
			if len(cop) > 2 || cop == "u^" || cop == "u-" {
				cop = "+"
			}
			consts := r.enum.consts(k, cop, tierCore, false)
			if r.enum.tier == tierFull {
				consts = r.enum.consts(k, cop, tierFull, false)
			}
			if one {
				for _, cv := range consts {
					f(&c34Unit{M: m.name, K: k, Shape: "c", Form: "L", CX: c01Enc(cv), Store: "local"})
				}
				continue
			}
			yconsts := consts
			if m.class == "shift" {
				yconsts = r.enum.counts("uint8", r.enum.tier)
			}
			for _, cv := range yconsts {
				f(&c34Unit{M: m.name, K: k, Shape: "vc", Form: "L", CY: c01Enc(cv), Store: "local"})
				f(&c34Unit{M: m.name, K: k, Shape: "vc", Form: "U", CY: c01Enc(cv), Store: "local"})
			}
			for _, cv := range consts {
				f(&c34Unit{M: m.name, K: k, Shape: "cv", Form: "L", CX: c01Enc(cv), Store: "local"})
				if m.class != "rel" { // a.M(b): the receiver would be an untyped constant
					f(&c34Unit{M: m.name, K: k, Shape: "cv", Form: "U", CX: c01Enc(cv), Store: "local"})
				}
			}
			cc := r.enum.consts(k, cop, tierCore, false)
			ccy := cc
			if m.class == "shift" {
				ccy = r.enum.counts("uint8", tierCore)
			}
			for _, cx := range cc {
				for _, cy := range ccy {
					f(&c34Unit{M: m.name, K: k, Shape: "cc", Form: "LL", CX: c01Enc(cx), CY: c01Enc(cy), Store: "local"})
				}
			}
		}
	}
}

func c34Run(c *core.Ctx) {
	c.Rule("part 1: method name (Add Sub Mul Quo Rem And Or Xor AndNot Neg Not Equal Less Cmp Lsh Rsh Real Imag) × 17 basic kinds × operand shape " +
		"{variables (function parameters / globals), typed constant argument, untyped constant argument, constant receiver, all constant} × boundary value grid " +
		"(Lsh/Rsh: every uint8 count in the thorough tier), compared with the native Go operator instantiated for the kind; calls that do not compile are counted as not offered. " +
		"part 2: container methods (Len Cap Index SetIndex AddrIndex Append AppendString Copy CopyString Slice Slice3 TryIndex DelIndex Send Recv TrySend TryRecv Close) on slices, arrays, maps, " +
		"channels and strings of several element kinds over container states × index/argument alphabets, compared (results, final container state, panic class) with the Go builtin/operator written in Go. " +
		"part 2b (memory): Append in its call forms (spread operand, method value, chained, receiver as its own operand, 0/1/2 explicit arguments, the same call site evaluated twice), AppendString, Copy, CopyString, Slice, Slice3 " +
		"over receivers {nil, empty, capacity 0 inside an array, empty with spare capacity, full, spare capacity, capacity limited by a 3-index slice} × operands {nil, empty, full, spare capacity} × every small overlap of both inside one array; " +
		"array methods on an addressable array VALUE and Copy from a slice of the receiver itself: besides the values the complete sharing relation (slot identity over the full-capacity windows) result↔receiver, result↔operand, result↔result " +
		"and the effect of writing through every slot of the result on the backing arrays are compared with the builtin. " +
		"non-trivial = distinct (method, kind, shape, operands) whose Go outcome is a panic, a value different from both operands or true/non-zero; for containers every distinct (scenario, argument tuple)")
	c.Assume("native Go operators and builtins compiled by the installed toolchain are the reference",
		"Cmp is compared with the three-way comparison built from the Go operators < and >",
		"TryRecv/TrySend are compared with select-with-default; blocking Send/Recv states are not exercised",
		"the capacity of a slice returned by a GROWING append is implementation-defined and not compared; whether the result shares memory with the receiver or the operand is")
	c01TuneWorker()
	e := &c01Enum{c: c, tier: tierCore, stores: []string{"local"}, memo: map[string][]interface{}{}}
	if c.Thorough() {
		e.tier = tierFull
	}
	r := &c34Runner{c: c, w: newC01World(), enum: e}
	n := 0
	offered := map[string]bool{}
	r.eachBasic(func(u *c34Unit) bool {
		n++
		mk := u.M + "|" + u.K
		if u.Shape == "vv" || u.Shape == "v" {
			if u.Store == "local" && u.Form == "" {
				// every worker probes whether the method is offered (cheap), only the owner evaluates it
				_, _, cerr := u.build(r.w)
				offered[mk] = cerr == ""
				if c.Shard == 0 {
					if cerr == "" {
						c.Count("methods_offered", 1)
					} else {
						c.Count("methods_not_offered", 1)
					}
				}
				if cerr != "" {
					return false
				}
			}
		}
		if !c.Mine(n) || c.Expired() {
			return true
		}
		if !r.runUnit(u) {
			c.Count("shape_does_not_compile:"+u.Shape+u.Form, 1)
		} else {
			c.Count("units", 1)
		}
		return true
	})
	c.Count("basic_evaluations_where_go_panics", c01NativePanics)
	c34Containers(c, r.w, -1, "")
}

func c34Replay(c *core.Ctx, raw json.RawMessage) {
	var cas c34Case
	if err := json.Unmarshal(raw, &cas); err != nil {
		panic(err)
	}
	w := newC01World()
	if cas.Unit == nil {
		c34Containers(c, w, cas.Arg, cas.Scen)
		return
	}
	e := &c01Enum{c: c, tier: tierFull, stores: []string{"local"}, memo: map[string][]interface{}{}}
	r := &c34Runner{c: c, w: w, enum: e, replay: true}
	u := cas.Unit
	cl, src, cerr := u.build(w)
	if cerr != "" {
		fmt.Println("does not compile:", cerr)
		return
	}
	drv, op := u.driver()
	one := func(enc, cenc string) []interface{} {
		if enc != "" {
			return []interface{}{c01Dec(enc)}
		}
		if cenc != "" {
			return []interface{}{c01Dec(cenc)}
		}
		return nil
	}
	xs, ys := one(cas.X, u.CX), one(cas.Y, u.CY)
	if ys == nil {
		ys = xs
	}
	drv.Run(op, cl, xs, ys, nil, func(i, j int, want, got string) {
		r.c.Violation(u.sig(c01FailKind(want, got)), fmt.Sprintf("%s on %s: Go gives %s, method gives %s   source: %s", u.M, u.K, want, got, src), cas)
	})
}

// ---------------------------------------------------------------------------
// part 2: containers

// c34Scen is one container scenario: an interpreted function applied to natively built arguments.
type c34Scen struct {
	name string
	src  string                              // interpreter function literal
	nin  int                                 // >0: only the first nin elements of a tuple are passed (the others make backing arrays observable)
	args func() [][]interface{}              // fresh argument tuples (containers are mutable: built anew for each side)
	ref  func(a []interface{}) []interface{} // the Go builtin/operator, in Go
	post func(a, res []interface{}) []interface{}
}

func c34Outcome(res []interface{}, args []interface{}, p interface{}) string {
	var sb strings.Builder
	if p != nil {
		sb.WriteString("PANIC(" + h.PanicClass(p) + ")")
	} else {
		for _, r := range res {
			sb.WriteString(h.Fmt(r) + " ")
		}
	}
	sb.WriteString("| state:")
	for _, a := range args {
		sb.WriteString(" " + h.Fmt(a))
	}
	return sb.String()
}

func c34Containers(c *core.Ctx, w *c01World, onlyArg int, onlyScen string) {
	scens := c34Scenarios()
	for si, sc := range scens {
		if onlyScen != "" && sc.name != onlyScen {
			continue
		}
		if onlyScen == "" && !c.Mine(si) {
			continue
		}
		var fv reflect.Value
		perr := twin.Catch(func() {
			v, _ := w.ir.Eval1(sc.src)
			fv = reflect.ValueOf(v.Interface())
		})
		if perr != nil {
			c.Count("container_scenarios_not_compiled", 1)
			c.Count("not_compiled:"+sc.name, 1)
			continue
		}
		c.Count("container_scenarios", 1)
		wantArgs, gotArgs := sc.args(), sc.args()
		for ai := range wantArgs {
			if onlyArg >= 0 && ai != onlyArg {
				continue
			}
			c.Eval(1)
			c.Count("container_method_evaluations", 1)
			wa, ga := wantArgs[ai], gotArgs[ai]
			var wres, gres []interface{}
			wp := twin.Catch(func() {
				wres = sc.ref(wa)
				if sc.post != nil {
					wres = sc.post(wa, wres)
				}
			})
			gp := twin.Catch(func() {
				n := len(ga)
				if sc.nin > 0 {
					n = sc.nin
				}
				in := make([]reflect.Value, n)
				for i, a := range ga[:n] {
					in[i] = reflect.ValueOf(a)
				}
				for _, o := range fv.Call(in) {
					gres = append(gres, o.Interface())
				}
				if sc.post != nil {
					gres = sc.post(ga, gres)
				}
			})
			want, got := c34Outcome(wres, wa, wp), c34Outcome(gres, ga, gp)
			c.Nontrivial(sc.name + "|" + fmt.Sprint(ai) + "|" + want)
			if c.WantSample() && ai == len(wantArgs)/2 && strings.Contains(sc.name, "Slice3") {
				c.Sample(map[string]interface{}{"scenario": sc.name, "source": sc.src, "result_and_state": want})
			}
			if want != got {
				fail := "value"
				if wp != nil || gp != nil {
					fail = "panic"
				}
				sig := "C34|" + sc.name + "|" + fail
				c.Count("viol:"+sig, 1)
				c.Violation(sig, fmt.Sprintf("%s argument tuple %d: Go gives %s ; method gives %s   source: %s", sc.name, ai, want, got, sc.src),
					c34Case{Scen: sc.name, Arg: ai, Src: sc.src, Want: want, Got: got})
			}
		}
	}
}
