package props

// C26 generators: line-template alphabet, continuation-token sweep, file sweep.

import (
	"fmt"
	"strings"
	"sync/atomic"

	"verif/harness/core"
)

type c26Template struct {
	name      string
	text      string // one or more complete lines
	firstOnly bool   // only meaningful as the first template of a sequence
}

// c26Alphabet: every template is made of complete lines. Sequences are filtered by go/parser: those that form a list
// of complete statements get the boundary and parse-alone checks; all lexically valid ones get the lossless and
// lexical-state checks.
func c26Alphabet() []c26Template {
	t := func(name, text string) c26Template { return c26Template{name: name, text: text} }
	return []c26Template{
		// complete statements on one line
		t("assign", "a = 1\n"),
		t("call", "f(a, b)\n"),
		t("inc", "a++\n"),
		t("dec", "a--\n"),
		t("return", "return\n"),
		t("break", "break\n"),
		t("fallthrough", "fallthrough\n"),
		t("string-with-openers", "s := \"a(b[c{ // /* ' \\\" `\"\n"),
		t("runes-with-quotes", "r := '\"' + '\\'' + '(' + '`'\n"),
		t("raw-one-line", "w := `raw ( [ { \" ' // /* \\`\n"),
		t("stmt-trailing-line-comment", "x := y // trailing ( \" comment\n"),
		t("block-comment-around", "/* c ( ' */ z := 1 /* d \" */\n"),
		t("label-same-line", "L: a = 2\n"),
		t("two-statements", "a = 1; b--\n"),
		// lines that must be continued
		t("ends-plus", "a = b +\n"),
		t("ends-minus", "a = b -\n"),
		t("ends-slash", "a = b /\n"),
		t("ends-andand-comment", "a = b && // why\n"),
		t("ends-assign", "a =\n"),
		t("ends-comma-depth0", "a, b = 1,\n"),
		t("ends-lparen", "f(\n"),
		t("ends-lbrack", "a = c[\n"),
		t("ends-lbrace", "v := []int{\n"),
		t("ends-comma-inside", "b,\n"),
		t("if-open", "if a {\n"),
		t("else-open", "} else {\n"),
		t("ends-go", "go\n"),
		t("ends-defer-comment", "defer // later\n"),
		t("ends-func", "var g = func\n"),
		t("label-alone", "L:\n"),
		t("ends-dot", "a = b.\n"),
		// continuations and closers
		t("operand", "c\n"),
		t("close-paren", "c)\n"),
		t("close-brack", "c]\n"),
		t("close-brace", "}\n"),
		t("func-rest", "() {}\n"),
		// multi-line tokens
		t("raw-open", "s = `raw1 ( \"\n"),
		t("middle-garbage", "mid \" ' ( // /* line\n"),
		t("raw-close", "end` + x\n"),
		t("comment-open", "/* open ( ' \"\n"),
		t("comment-close", "close ` */ y = 2\n"),
		t("comment-close-only", "*/\n"),
		t("comment-banner-stars", "/******** banner ********/\n"),
		t("comment-three-stars", "a = 6 /***/\n"),
		t("comment-close-two-stars", "close **/ y = 3\n"),
		// comments, blanks, separators
		t("line-comment", "// comment { \" ' `\n"),
		t("blank", "\n"),
		t("spaces", "  \t\n"),
		c26Template{name: "shebang", text: "#!/usr/bin/env gomacro\n", firstOnly: true},
		t("paragraph-separator", "a = 3\u2029b = 4\n"),
		t("comment-paragraph-separator", "// note\u2029a = 5 *\n"),
		t("string-with-tab", "s = \"tab\there\"\n"),
		// carriage return + newline line ends
		t("crlf-statement", "a = 7\r\n"),
		t("crlf-ends-plus", "a = b +\r\n"),
	}
}

// c26Sweep: every token after which Go continues a statement on the next line x context variants.
func c26Sweep() (texts []string, names []string) {
	binops := []string{"+", "-", "*", "/", "%", "&", "|", "^", "<<", ">>", "&^", "&&", "||", "==", "!=", "<", "<=", ">", ">="}
	type form struct{ name, head, tail string }
	var forms []form
	for _, op := range binops {
		forms = append(forms, form{"binary " + op, "a = b " + op, "c"})
	}
	for _, op := range []string{"=", ":=", "+=", "-=", "*=", "/=", "%=", "&=", "|=", "^=", "<<=", ">>=", "&^="} {
		forms = append(forms, form{"assign " + op, "a " + op, "c"})
	}
	forms = append(forms,
		form{"send <-", "ch <-", "c"},
		form{"comma depth 0", "a, b = c,", "d"},
		form{"comma in var", "var a, b = c,", "d"},
		form{"unary !", "a = !", "c"},
		form{"lparen", "f(", "c)"},
		form{"lparen comma", "f(a,", "c)"},
		form{"lbrack", "a = b[", "c]"},
		form{"lbrace", "v := T{", "c}"},
		form{"lbrace comma", "v := T{a,", "c}"},
		form{"func body", "func g() {", "}"},
		form{"if else", "if a {\n} else {", "}"},
		form{"else newline brace", "if a {\n} else", "{\n}"},
		form{"keyword go", "go", "f()"},
		form{"keyword defer", "defer", "f()"},
		form{"keyword func", "var g = func", "() {}"},
		form{"keyword var", "var", "a int"},
		form{"keyword const", "const", "a = 1"},
		form{"keyword type", "type", "t int"},
		form{"keyword if", "if", "a {\n}"},
		form{"keyword for", "for", "a {\n}"},
		form{"keyword switch", "switch", "a {\n}"},
		form{"keyword select", "select", "{\n}"},
		form{"keyword goto", "goto", "L"},
		form{"keyword return value", "return", "a"}, // complete after 'return': the newline ends the statement
		form{"keyword map", "var m map", "[int]int"},
		form{"keyword chan", "var c chan", "int"},
		form{"keyword struct", "type t struct", "{\n}"},
		form{"keyword interface", "type t interface", "{\n}"},
		form{"keyword range", "for a = range", "b {\n}"},
		form{"keyword case", "switch {\ncase", "a:\n}"},
		form{"label", "L:", "a = 1"},
		form{"dot", "a = b.", "c"},
		form{"inc complete", "a++", "b--"},
		form{"dec complete", "a--", "b++"},
		form{"rparen complete", "f(a)", "(b).c()"},
		form{"rbrack complete", "a = b[1]", "*p = 2"},
		form{"literal complete", "a = 1", "-b.c()"},
		form{"string complete", "a = \"s\"", "+b.c()"},
	)
	prefixes := []struct{ name, text string }{{"none", ""}, {"comment", "// lead\n"}, {"block-comment-same-line", "/* x */ "}, {"statement", "z = 0\n"}, {"long-comment", "// a rather long leading comment line\n"}}
	trailers := []struct{ name, text string }{{"none", ""}, {"line-comment", " // note"}, {"block-comment", " /* note */"}, {"spaces", "  \t"}, {"comment-keyword", " // go on for"}}
	between := []struct{ name, text string }{{"none", ""}, {"blank", "\n"}, {"comment", "// between\n"}, {"block-comment-lines", "/* a\nb */\n"}}
	after := []struct{ name, text string }{{"none", ""}, {"statement", "y = 9\n"}}
	for _, f := range forms {
		for _, p := range prefixes {
			for _, tr := range trailers {
				for _, b := range between {
					for _, a := range after {
						texts = append(texts, p.text+f.head+tr.text+"\n"+b.text+f.tail+"\n"+a.text)
						names = append(names, fmt.Sprintf("sweep %s|prefix %s|trailer %s|between %s|after %s", f.name, p.name, tr.name, b.name, a.name))
					}
				}
			}
		}
	}
	return
}

func c26Run(c *core.Ctx) {
	c.Rule("inputs: (1) all sequences of <= L templates from a 54-template alphabet of complete lines (complete statements; lines ending in operators, comma, opening brackets, keywords, label, dot; closers; raw strings and general comments opened/continued/closed on separate lines; comments; blank lines; general comments ending in runs of '*'; '#!' first line; U+2029; literal TAB in a string; CR LF line ends); " +
		"(2) a sweep of every binary/assignment operator, comma, bracket and keyword at the line end x 5 prefixes x 5 trailers (comments, spaces) x 4 interposed lines x 2 followers; (3) every extension-free file of GOROOT/src and /repo (quick: every 4th); " +
		"(4) lines around the buffer sizes T of the readers (bufio's 4096 and its multiples, 65536; thorough up to 131072): 28 lexical contexts (identifier, number, string with escapes, rune, raw string, comments of each form, '#!', every operator class, inc/dec, keywords, selectors, brackets, multi-byte characters, U+2029, CR LF, continuation lines, lines of multi-line raw strings and comments) as a repeated unit shifted by every pad so that byte T of the line is each byte of the unit, " +
		"and 30 line ends (identifier, number, ++, --, operators, comma, label, comments, string, escaped quote, rune, raw string, brackets, CR, keywords, U+2029) with the line length taking every value from T-2 until the whole tail lies behind T, each alone and after a statement, followed by a bracketed multi-line statement. " +
		"Each lexically valid input (go/scanner reports no error) is read with ReadMultiline through a line-by-line Readline and through BufReadline over bufio.NewReader (with and without final newline), over a 16-byte bufio.Reader (every line exceeds the buffer) and over a source that delivers one byte per Read and the last one together with io.EOF (template sequences of length 4, thorough tier: the first three deliveries only), with and without ReadOptCollectAllComments. " +
		"Oracle: concatenation of chunks == input ('#!' -> '//', U+2029 -> newline as done by the Readline); no chunk before the end of input ends inside a raw string/comment or with an open bracket (token extents from go/scanner); " +
		"if go/parser accepts the input as a statement list (resp. file), every chunk end lies outside every top-level statement's extent (a chunk ending in '.' is exempt) and every non-comment chunk is accepted by go/parser on its own; " +
		"the chunks (text and first-token offset) of every bufio delivery of a newline-terminated text equal those of the line-by-line delivery. " +
		"distinct_nontrivial = distinct complete inputs for which the reader returned a chunk of >= 2 lines or >= 2 chunks")
	c.Assume("go/scanner and go/parser of Go 1.23 are the reference for token extents and statement extents",
		"'Go source' means lexically valid text: inputs on which go/scanner reports an error are not judged",
		"the replacement of U+2029 by a newline is part of the Readline, not of the splitting")
	vc := newVCollector()
	stats := make([]*c26Stats, 64)
	get := func(w int) *c26Stats {
		if stats[w] == nil {
			stats[w] = &c26Stats{}
		}
		return stats[w]
	}

	// (1) template sequences
	alpha := c26Alphabet()
	A := int64(len(alpha))
	L := c.Pick(3, 4)
	var total int64
	starts := []int64{}
	pow := int64(1)
	for l := 0; l <= L; l++ {
		starts = append(starts, total)
		total += pow
		pow *= A
	}
	parFor(c, total, 512, func(w int, i int64) {
		st := get(w)
		l := 0
		for l+1 < len(starts) && i >= starts[l+1] {
			l++
		}
		k := i - starts[l]
		var syms [8]int
		for j := l - 1; j >= 0; j-- {
			syms[j] = int(k % A)
			k /= A
		}
		var sb strings.Builder
		var nm []string
		for j := 0; j < l; j++ {
			t := alpha[syms[j]]
			if t.firstOnly && j > 0 {
				return
			}
			sb.WriteString(t.text)
			nm = append(nm, t.name)
		}
		if l == 0 {
			return
		}
		deliveries := c26AllDeliveries
		if l >= 4 {
			deliveries = c26BaseDeliveries // the longest sequences (thorough tier) are read through the three basic deliveries only
		}
		c26CheckND(c, vc, st, i, "templates "+strings.Join(nm, ","), sb.String(), true, deliveries)
	})
	c.Set("template_alphabet", len(alpha))
	c.Set("template_max_sequence", L)
	c.Set("template_sequences", total)
	base := total

	// (2) continuation sweep
	texts, names := c26Sweep()
	parFor(c, int64(len(texts)), 64, func(w int, i int64) {
		c26CheckN(c, vc, get(w), base+i, names[i], texts[i], true)
	})
	c.Set("sweep_inputs", len(texts))
	base += int64(len(texts))

	// (3) files
	files := everyKth(corpus(), c.Pick(4, 1))
	parFor(c, int64(len(files)), 4, func(w int, i int64) {
		if src := readFile(files[i].Path); src != nil && len(src) < 400000 {
			c26CheckN(c, vc, get(w), base+i, files[i].Path, string(src), false)
		}
	})
	c.Set("files_swept", len(files))
	base += int64(len(files))

	// (4) lines around the buffer sizes
	longTs := []int{4096, 8192, 65536}
	if c.Thorough() {
		longTs = []int{4096, 8192, 12288, 16384, 32768, 65536, 131072}
	}
	long := c26LongLines(longTs, func(T int) bool { return c.Thorough() || T < 65536 })
	var longComplete int64
	parFor(c, int64(len(long)), 8, func(w int, i int64) {
		st := get(w)
		before := st.complete
		c26CheckN(c, vc, st, base+i, long[i].name, long[i].text, true)
		atomic.AddInt64(&longComplete, st.complete-before)
	})
	c.Set("long_line_inputs", len(long))
	c.Set("long_line_inputs_complete_statement_lists", longComplete)
	c.Set("long_line_buffer_sizes", longTs)

	var tot c26Stats
	for _, s := range stats {
		if s != nil {
			tot.evals += s.evals
			tot.lossless += s.lossless
			tot.complete += s.complete
			tot.chunks += s.chunks
			tot.exemptDot += s.exemptDot
			tot.notLexical += s.notLexical
			tot.firstTokenDiff += s.firstTokenDiff
			tot.deliveryDiff += s.deliveryDiff
		}
	}
	c.Eval(int(tot.evals))
	c.Count("reads_lossless", int(tot.lossless))
	c.Count("inputs_complete_statement_lists", int(tot.complete))
	c.Count("chunks_returned", int(tot.chunks))
	c.Count("exempt_chunk_ends_in_dot", int(tot.exemptDot))
	c.Count("inputs_skipped_not_lexically_valid_or_extension", int(tot.notLexical))
	c.Count("info_firstToken_differs_from_go_scanner", int(tot.firstTokenDiff))
	c.Count("reads_differing_from_line_by_line_delivery", int(tot.deliveryDiff))
	vc.flush(c)
	c.Sample(map[string]string{"templates": "ends-plus,line-comment,operand", "text": "a = b +\n// comment { \" ' `\nc\n"})
	c.Sample(map[string]string{"sweep": names[len(names)/2], "text": texts[len(texts)/2]})
}

// c26CheckN runs c26Check and records non-triviality.
func c26CheckN(c *core.Ctx, vc *vcollector, st *c26Stats, idx int64, origin, text string, asStmts bool) {
	c26CheckND(c, vc, st, idx, origin, text, asStmts, c26AllDeliveries)
}

func c26CheckND(c *core.Ctx, vc *vcollector, st *c26Stats, idx int64, origin, text string, asStmts bool, deliveries []int) {
	before := st.complete
	c26CheckDeliveries(vc, st, idx, origin, text, asStmts, deliveries)
	if st.complete > before && strings.Count(strings.TrimRight(text, "\n"), "\n") >= 1 {
		c.Nontrivial(text)
	}
}
