package props

// C28 — the bounded universe of types. Types are described by terms (c28Term); a term is a
// recipe from which the forked go/types constructors build a *fresh* object graph every time
// (copy 0: no sharing of sub-objects at all, parameters unnamed; copy 1: sub-terms hash-consed,
// i.e. structurally equal components are the same object, parameters named), so that the set
// contains identical-but-distinct objects for every type and the `x == y` pointer shortcut of
// the implementation cannot carry the comparison.

import (
	"fmt"
	"go/token"
	"strings"

	"github.com/cosmos72/gomacro/go/types"
)

type c28Field struct {
	Name string
	Pkg  int // index into c28World.pkg: 0 = NO package (nil), 1 = a/p, 2 = b/p, 3 = a second *Package object with path a/p
	Emb  bool
	Tag  string
	T    *c28Term
}

type c28Method struct {
	Name   string
	Pkg    int
	Sig    *c28Term // func term without receiver
	Shared bool     // use the *types.Func object shared by all interfaces of the world (else a fresh one)
}

type c28Term struct {
	Op       string // atom ptr slice arr1 arr2 chanB chanS chanR map func struct iface
	Name     string // atom
	A        []*c28Term
	Recv     *c28Term
	Params   []*c28Term
	Results  []*c28Term
	Variadic bool
	Fields   []c28Field
	Methods  []c28Method
	Embeds   []string // names of named interface atoms
	key      string
	level    int
}

func (t *c28Term) String() string { return t.key }

func c28List(ts []*c28Term) string {
	var s []string
	for _, t := range ts {
		s = append(s, t.key)
	}
	return strings.Join(s, ",")
}

func (t *c28Term) mkKey() {
	switch t.Op {
	case "atom":
		t.key = t.Name
	case "map":
		t.key = "map(" + t.A[0].key + "," + t.A[1].key + ")"
	case "func":
		k := "func"
		if t.Recv != nil {
			k += "[recv " + t.Recv.key + "]"
		}
		k += "(" + c28List(t.Params)
		if t.Variadic {
			k += "..."
		}
		k += ")(" + c28List(t.Results) + ")"
		t.key = k
	case "struct":
		var s []string
		for _, f := range t.Fields {
			e := fmt.Sprintf("%s@%d %s", f.Name, f.Pkg, f.T.key)
			if f.Emb {
				e = "embedded " + e
			}
			if f.Tag != "" {
				e += " `" + f.Tag + "`"
			}
			s = append(s, e)
		}
		t.key = "struct{" + strings.Join(s, "; ") + "}"
	case "iface":
		var s []string
		for _, m := range t.Methods {
			e := fmt.Sprintf("%s@%d %s", m.Name, m.Pkg, m.Sig.key)
			if m.Shared {
				e += " #shared"
			}
			s = append(s, e)
		}
		for _, e := range t.Embeds {
			s = append(s, "embed "+e)
		}
		t.key = "interface{" + strings.Join(s, "; ") + "}"
	default:
		t.key = t.Op + "(" + t.A[0].key + ")"
	}
}

// c28World owns the packages, named types and shared method objects, and builds types from terms.
type c28World struct {
	pkg    [4]*types.Package // pkg[0] stays nil: fields/methods "in Universe scope / introduced via Eval" (types.NewField/NewFunc allow it)
	atoms  map[string]types.Type
	shared map[string]*types.Func // shared interface methods, by name@pkg+sig key
	memo   map[string]types.Type  // copy-1 hash-consing
}

var c28NamedIfaces = []string{"a/p.I", "b/p.I", "a/p.K"}

func newC28World() *c28World {
	w := &c28World{atoms: map[string]types.Type{}, shared: map[string]*types.Func{}, memo: map[string]types.Type{}}
	// two packages with the SAME name and different paths
	w.pkg[1] = types.NewPackage("a/p", "p")
	w.pkg[2] = types.NewPackage("b/p", "p")
	// a second, distinct *Package OBJECT for the path of pkg[1]: identifiers of the two are the same identifiers
	// (identity of unexported names is decided by the package PATH, not by the object and not by the package name)
	w.pkg[3] = types.NewPackage("a/p", "p")
	w.atoms["int"] = types.Typ[types.Int]
	w.atoms["string"] = types.Typ[types.String]
	w.atoms["bool"] = types.Typ[types.Bool]
	w.atoms["uint8"] = types.Typ[types.Uint8]
	w.atoms["byte"] = types.Universe.Lookup("byte").Type() // distinct *Basic object, same kind as uint8
	objA1 := types.NewTypeName(token.NoPos, w.pkg[1], "A", nil)
	w.atoms["a/p.A"] = types.NewNamed(objA1, types.Typ[types.Int], nil)
	// a second *Named object for the same declaration (same *TypeName): identical by definition
	w.atoms["a/p.A'"] = types.NewNamed(objA1, types.Typ[types.Int], nil)
	// an unexported named type: embedding it gives an unexported embedded field name, whose package is the package
	// of the FIELD (the embedding struct), not of the type
	w.atoms["a/p.t"] = types.NewNamed(types.NewTypeName(token.NoPos, w.pkg[1], "t", nil), types.Typ[types.Int], nil)
	objA2 := types.NewTypeName(token.NoPos, w.pkg[2], "A", nil)
	w.atoms["b/p.A"] = types.NewNamed(objA2, types.Typ[types.Int], nil)
	// named interfaces: a/p.I{P()}, b/p.I{Q() int} (same name, other package), a/p.K{} (empty)
	mkI := func(p int, name string, methods ...*types.Func) {
		obj := types.NewTypeName(token.NoPos, w.pkg[p], name, nil)
		it := types.NewInterfaceType(methods, nil)
		it.Complete()
		w.atoms[w.pkg[p].Path()+"."+name] = types.NewNamed(obj, it, nil)
	}
	mkI(1, "I", types.NewFunc(token.NoPos, w.pkg[1], "P", types.NewSignature(nil, nil, nil, false)))
	mkI(2, "I", types.NewFunc(token.NoPos, w.pkg[2], "Q", types.NewSignature(nil, nil,
		types.NewTuple(types.NewVar(token.NoPos, nil, "", types.Typ[types.Int])), false)))
	mkI(1, "K")
	return w
}

// build constructs the type for a term. copy 0: everything fresh; copy 1: hash-consed sub-terms, named params.
func (w *c28World) build(t *c28Term, copy int) types.Type {
	if t.Op == "atom" {
		return w.atoms[t.Name]
	}
	if copy == 1 {
		if typ, ok := w.memo[t.key]; ok {
			return typ
		}
	}
	typ := w.build1(t, copy)
	if copy == 1 {
		w.memo[t.key] = typ
	}
	return typ
}

func (w *c28World) tuple(ts []*c28Term, copy int, prefix string) *types.Tuple {
	if len(ts) == 0 {
		return nil
	}
	vars := make([]*types.Var, len(ts))
	for i, t := range ts {
		name := ""
		if copy == 1 {
			name = fmt.Sprintf("%s%d", prefix, i)
		}
		vars[i] = types.NewParam(token.NoPos, w.pkg[1+copy], name, w.build(t, copy))
	}
	return types.NewTuple(vars...)
}

func (w *c28World) signature(t *c28Term, copy int) *types.Signature {
	var recv *types.Var
	if t.Recv != nil {
		name := ""
		if copy == 1 {
			name = "r"
		}
		recv = types.NewVar(token.NoPos, w.pkg[1], name, w.build(t.Recv, copy))
	}
	return types.NewSignature(recv, w.tuple(t.Params, copy, "a"), w.tuple(t.Results, copy, "r"), t.Variadic)
}

func (w *c28World) build1(t *c28Term, copy int) types.Type {
	switch t.Op {
	case "ptr":
		return types.NewPointer(w.build(t.A[0], copy))
	case "slice":
		return types.NewSlice(w.build(t.A[0], copy))
	case "arr1":
		return types.NewArray(w.build(t.A[0], copy), 1)
	case "arr2":
		return types.NewArray(w.build(t.A[0], copy), 2)
	case "chanB":
		return types.NewChan(types.SendRecv, w.build(t.A[0], copy))
	case "chanS":
		return types.NewChan(types.SendOnly, w.build(t.A[0], copy))
	case "chanR":
		return types.NewChan(types.RecvOnly, w.build(t.A[0], copy))
	case "map":
		return types.NewMap(w.build(t.A[0], copy), w.build(t.A[1], copy))
	case "func":
		return w.signature(t, copy)
	case "struct":
		fields := make([]*types.Var, len(t.Fields))
		var tags []string
		for i, f := range t.Fields {
			fields[i] = types.NewField(token.NoPos, w.pkg[f.Pkg], f.Name, w.build(f.T, copy), f.Emb)
			if f.Tag != "" {
				for len(tags) < i {
					tags = append(tags, "")
				}
				tags = append(tags, f.Tag)
			}
		}
		return types.NewStruct(fields, tags)
	case "iface":
		methods := make([]*types.Func, len(t.Methods))
		for i, m := range t.Methods {
			if m.Shared {
				k := fmt.Sprintf("%s@%d %s", m.Name, m.Pkg, m.Sig.key)
				f := w.shared[k]
				if f == nil {
					f = types.NewFunc(token.NoPos, w.pkg[m.Pkg], m.Name, w.signature(m.Sig, 0))
					w.shared[k] = f
				}
				methods[i] = f
			} else {
				methods[i] = types.NewFunc(token.NoPos, w.pkg[m.Pkg], m.Name, w.signature(m.Sig, copy))
			}
		}
		embeds := make([]types.Type, len(t.Embeds))
		for i, e := range t.Embeds {
			embeds[i] = w.atoms[e]
		}
		it := types.NewInterfaceType(methods, embeds)
		it.Complete()
		return it
	}
	panic("c28: bad term " + t.Op)
}

// ---------------------------------------------------------------------------
// term enumeration

type c28Enum struct {
	terms []*c28Term
	seen  map[string]*c28Term
}

func (e *c28Enum) add(t *c28Term, level int) *c28Term {
	t.mkKey()
	if old, ok := e.seen[t.key]; ok {
		return old
	}
	t.level = level
	e.seen[t.key] = t
	e.terms = append(e.terms, t)
	return t
}

func (e *c28Enum) atom(name string) *c28Term {
	return e.add(&c28Term{Op: "atom", Name: name}, 0)
}

func (e *c28Enum) un(op string, x *c28Term, level int) *c28Term {
	return e.add(&c28Term{Op: op, A: []*c28Term{x}}, level)
}

func (e *c28Enum) fn(recv *c28Term, params, results []*c28Term, variadic bool, level int) *c28Term {
	return e.add(&c28Term{Op: "func", Recv: recv, Params: params, Results: results, Variadic: variadic}, level)
}

var c28Unary = []string{"ptr", "slice", "arr1", "arr2", "chanB", "chanS", "chanR"}

// lists returns all lists of length 0..max over the alphabet.
func c28Lists(alpha []*c28Term, max int) [][]*c28Term {
	out := [][]*c28Term{nil}
	prev := [][]*c28Term{nil}
	for n := 1; n <= max; n++ {
		var next [][]*c28Term
		for _, p := range prev {
			for _, a := range alpha {
				next = append(next, append(append([]*c28Term{}, p...), a))
			}
		}
		out = append(out, next...)
		prev = next
	}
	return out
}

// funcs adds function types: every (receiver, params, results) combination, plus for every variadic prefix and
// element type the variadic signature (prefix..., ...elem) AND its non-variadic twin (prefix..., []elem).
func (e *c28Enum) funcs(plists, rlists, vpre [][]*c28Term, vel []*c28Term, vrlists [][]*c28Term, recvs []*c28Term, level int) {
	for _, recv := range recvs {
		for _, rl := range rlists {
			for _, pl := range plists {
				e.fn(recv, pl, rl, false, level)
			}
		}
		for _, rl := range vrlists {
			for _, pre := range vpre {
				for _, el := range vel {
					sl := e.un("slice", el, level)
					pl := append(append([]*c28Term{}, pre...), sl)
					e.fn(recv, pl, rl, true, level)
					e.fn(recv, pl, rl, false, level)
				}
			}
		}
	}
}

func c28EmbName(t *c28Term) string {
	for t.Op != "atom" {
		t = t.A[0]
	}
	n := t.Name[strings.LastIndex(t.Name, ".")+1:]
	return strings.TrimSuffix(n, "'")
}

// structs adds the empty struct and every struct with 1..2 fields: first field = any name of {X exported declared in
// package 1 or 2, a unexported of package 1 or 2} x talpha x tags, or an embedded field from ealpha (named or
// pointer-to-named) x tags; second field from a small fixed list (exported, unexported of the other package,
// embedded, tagged); a few structs also in reversed field order.
func (e *c28Enum) structs(talpha []*c28Term, ealpha []*c28Term, tags []string, second []c28Field, level int) {
	// the package dimension of a field NAME: a/p, b/p, no package at all (nil), and a second package object of path a/p;
	// an exported name is the same identifier whatever the package, an unexported one only for equal package PATHS
	// (nil being a "path" of its own)
	names1 := []c28FieldName{{"X", 1}, {"X", 2}, {"X", 0}, {"a", 1}, {"a", 2}, {"a", 0}, {"a", 3}}
	var first []c28Field
	for i, n := range names1 {
		ta := talpha
		if n.pkg == 0 || n.pkg == 3 {
			ta = talpha[:1+i%2] // the package dimension is independent of the field type: one or two types are enough
		}
		for _, t := range ta {
			for _, tag := range tags {
				first = append(first, c28Field{Name: n.name, Pkg: n.pkg, T: t, Tag: tag})
			}
		}
	}
	for _, t := range ealpha {
		name := c28EmbName(t)
		pkgs := []int{1, 0}
		if !token.IsExported(name) {
			pkgs = []int{1, 2, 0, 3} // unexported embedded field name: the FIELD's package decides
		}
		for _, p := range pkgs {
			for _, tag := range tags {
				if tag != "" && p != 1 {
					continue // tags x packages: independent dimensions
				}
				first = append(first, c28Field{Name: name, Pkg: p, Emb: true, T: t, Tag: tag})
			}
		}
	}
	e.add(&c28Term{Op: "struct"}, level)
	id := func(f c28Field) string {
		if token.IsExported(f.Name) {
			return f.Name
		}
		p := f.Pkg
		if p == 3 {
			p = 1 // same path
		}
		return fmt.Sprintf("%d.%s", p, f.Name)
	}
	for i, f := range first {
		e.add(&c28Term{Op: "struct", Fields: []c28Field{f}}, level)
		for _, g := range second {
			if id(f) == id(g) {
				continue // NewStruct rejects duplicate field names
			}
			e.add(&c28Term{Op: "struct", Fields: []c28Field{f, g}}, level)
			if i%5 == 0 {
				e.add(&c28Term{Op: "struct", Fields: []c28Field{g, f}}, level)
			}
		}
	}
}

// ifaces adds interfaces with 0..2 explicit methods (M exported with every signature of sigs; N exported, m unexported
// of package 1 and of package 2 with sigs[0]), each with subsets of the named interfaces embedded (0..2 of a/p.I,
// b/p.I, a/p.K; the two same-named ones in both orders), built with fresh and with shared method objects.
func (e *c28Enum) ifaces(sigs []*c28Term, level int) {
	embed8 := [][]string{nil, {"a/p.I"}, {"b/p.I"}, {"a/p.K"}, {"a/p.I", "b/p.I"}, {"b/p.I", "a/p.I"}, {"a/p.I", "a/p.K"}, {"a/p.K", "b/p.I"}}
	embed4 := [][]string{nil, {"a/p.K"}, {"a/p.I"}, {"b/p.I", "a/p.I"}}
	var ms, rest []c28Method
	for _, s := range sigs {
		ms = append(ms, c28Method{Name: "M", Pkg: 1, Sig: s})
	}
	rest = []c28Method{{Name: "N", Pkg: 2, Sig: sigs[0]}, {Name: "m", Pkg: 1, Sig: sigs[0]}, {Name: "m", Pkg: 2, Sig: sigs[0]},
		// the unexported method name without package (nil) and in a second package object of path a/p
		{Name: "m", Pkg: 0, Sig: sigs[0]}, {Name: "m", Pkg: 3, Sig: sigs[0]}}
	singles := append(append([]c28Method{}, ms...), rest...)
	// exported names without package: the same identifier as in any package
	singles = append(singles, c28Method{Name: "M", Pkg: 0, Sig: sigs[0]}, c28Method{Name: "N", Pkg: 0, Sig: sigs[0]})
	var pairs [][]c28Method
	for _, m := range ms {
		for _, r := range rest {
			pairs = append(pairs, []c28Method{m, r})
		}
	}
	pairs = append(pairs, []c28Method{rest[0], rest[1]}, []c28Method{rest[0], rest[2]}, []c28Method{rest[1], rest[2]},
		// reversed orders: NewInterfaceType sorts the methods, so these must come out identical to the above
		[]c28Method{rest[0], ms[0]}, []c28Method{rest[2], rest[1]},
		// two same-spelled unexported methods whose packages are {nil, a/p}, {nil, b/p}, {a/p', b/p} (m@1 with m@3 would be a duplicate)
		[]c28Method{rest[0], rest[3]}, []c28Method{rest[3], rest[1]}, []c28Method{rest[3], rest[2]}, []c28Method{rest[2], rest[3]}, []c28Method{rest[4], rest[2]})
	emit := func(mset []c28Method, embeds [][]string) {
		for _, es := range embeds {
			for _, shared := range []bool{false, true} {
				if shared && len(mset) == 0 {
					continue
				}
				ms2 := make([]c28Method, len(mset))
				for i := range mset {
					ms2[i] = mset[i]
					ms2[i].Shared = shared
				}
				e.add(&c28Term{Op: "iface", Methods: ms2, Embeds: es}, level)
			}
		}
	}
	emit(nil, embed8)
	for _, m := range singles {
		emit([]c28Method{m}, embed8)
	}
	for _, p := range pairs {
		emit(p, embed4)
	}
}

func (e *c28Enum) byKey(k string) *c28Term {
	t := e.seen[k]
	if t == nil {
		panic("c28: no term " + k)
	}
	return t
}

func (e *c28Enum) levelTerms(level int) []*c28Term {
	var out []*c28Term
	for _, t := range e.terms {
		if t.level == level {
			out = append(out, t)
		}
	}
	return out
}

// c28Terms enumerates the universe. depth 2 (quick) / depth 3 over a reduced base (thorough).
func c28Terms(thorough bool) *c28Enum {
	e := &c28Enum{seen: map[string]*c28Term{}}
	var atoms []*c28Term
	for _, n := range []string{"int", "string", "bool", "byte", "uint8", "a/p.A", "a/p.A'", "b/p.A", "a/p.I", "b/p.I", "a/p.K", "a/p.t"} {
		atoms = append(atoms, e.atom(n))
	}
	at := e.byKey
	// ---- level 1
	for _, op := range c28Unary {
		for _, a := range atoms {
			e.un(op, a, 1)
		}
	}
	for _, k := range []string{"int", "string", "byte", "uint8", "a/p.A", "a/p.I"} {
		for _, v := range []string{"int", "b/p.A", "bool", "uint8"} {
			e.add(&c28Term{Op: "map", A: []*c28Term{at(k), at(v)}}, 1)
		}
	}
	L := func(ks ...string) []*c28Term {
		var out []*c28Term
		for _, k := range ks {
			out = append(out, at(k))
		}
		return out
	}
	LL := func(ls ...[]*c28Term) [][]*c28Term { return ls }
	e.funcs(c28Lists(L("int", "a/p.A"), 2), LL(nil, L("int"), L("int", "string"), L("string", "int")),
		LL(nil, L("int")), L("int", "a/p.A"), LL(nil, L("int")), []*c28Term{nil, at("a/p.A"), at("ptr(a/p.A)")}, 1)
	e.structs(L("int", "string"), L("a/p.A", "b/p.A", "ptr(a/p.A)", "a/p.t", "ptr(a/p.t)"), []string{"", `k:"v"`},
		[]c28Field{{Name: "Y", Pkg: 1, T: at("int")}, {Name: "a", Pkg: 2, T: at("string")}, {Name: "X", Pkg: 2, T: at("int")},
			{Name: "A", Pkg: 2, Emb: true, T: at("b/p.A"), Tag: `k:"v"`}}, 1)
	sig0 := e.fn(nil, nil, nil, false, 1)
	sig1 := e.fn(nil, L("int"), L("int"), false, 1)
	e.ifaces([]*c28Term{sig0, sig1}, 1)
	// explicit P(): same method set as the named a/p.I, no embedded interface
	e.add(&c28Term{Op: "iface", Methods: []c28Method{{Name: "P", Pkg: 1, Sig: sig0}}}, 1)
	l1 := e.levelTerms(1)

	// ---- level 2
	for _, op := range c28Unary {
		for _, a := range l1 {
			e.un(op, a, 2)
		}
	}
	k2 := []*c28Term{at("ptr(int)"), at("arr1(int)"), at("struct{X@1 int}"), at("chanB(int)"), at("a/p.A"), at("interface{M@1 func()()}"), at("arr2(byte)")}
	v2 := []*c28Term{at("slice(int)"), at("map(int,int)"), at("func()()"), at("struct{a@1 int}"), at("struct{a@2 int}"), at("struct{a@0 int}"), at("interface{m@0 func()()}"), at("interface{}"),
		at("interface{embed a/p.K}"), at("chanR(a/p.A)"), at("ptr(uint8)"), at("ptr(byte)")}
	for _, k := range k2 {
		for _, v := range v2 {
			e.add(&c28Term{Op: "map", A: []*c28Term{k, v}}, 2)
		}
	}
	f2 := L("ptr(int)", "slice(string)", "func()()", "struct{a@1 int}", "interface{m@1 func()()}")
	pl2 := c28Lists(f2[:3], 2)
	pl2 = append(pl2, f2[3:4], f2[4:5], L("struct{a@1 int}", "struct{a@2 int}"), L("struct{a@0 int}"), L("struct{a@3 int}"), L("interface{m@0 func()()}"))
	r2 := L("ptr(int)", "interface{m@2 func()()}")
	e.funcs(pl2, LL(nil, r2[:1], r2), LL(nil, f2[:1]), f2, LL(nil, r2[1:]), []*c28Term{nil, at("ptr(a/p.A)")}, 2)
	e.structs(L("slice(int)", "func[recv a/p.A]()()", "func()()", "interface{embed a/p.I}", "interface{P@1 func()()}", "struct{a@1 int}", "struct{a@2 int}", "struct{a@0 int}"),
		L("ptr(b/p.A)", "b/p.I"), []string{""},
		[]c28Field{{Name: "Y", Pkg: 1, T: at("slice(int)")}, {Name: "a", Pkg: 2, T: at("func()()")}, {Name: "I", Pkg: 2, Emb: true, T: at("b/p.I")}}, 2)
	sigs2 := []*c28Term{
		e.fn(nil, []*c28Term{at("ptr(int)")}, nil, false, 2),
		e.fn(nil, []*c28Term{at("slice(int)")}, nil, true, 2),
		e.fn(nil, []*c28Term{at("slice(int)")}, nil, false, 2),
		e.fn(nil, nil, []*c28Term{at("interface{}")}, false, 2),
		e.fn(nil, nil, []*c28Term{at("interface{embed a/p.K}")}, false, 2),
		e.fn(nil, []*c28Term{at("struct{a@1 int}")}, []*c28Term{at("struct{a@2 int}")}, false, 2),
		e.fn(nil, []*c28Term{at("struct{a@0 int}")}, []*c28Term{at("struct{a@2 int}")}, false, 2),
	}
	e.ifaces(sigs2, 2)
	if !thorough {
		return e
	}
	// ---- level 3 (thorough): unary constructors over every level-2 type, n-ary ones over level-2 representatives
	l2 := e.levelTerms(2)
	for _, op := range []string{"ptr", "slice", "arr2", "chanS", "chanR"} {
		for _, a := range l2 {
			e.un(op, a, 3)
		}
	}
	// representatives: every 37th level-2 term (deterministic spread over all constructor families)
	var rep []*c28Term
	for i, t := range l2 {
		if i%37 == 0 {
			rep = append(rep, t)
		}
	}
	for i, k := range rep {
		for j, v := range rep {
			if (i+j)%9 == 0 {
				e.add(&c28Term{Op: "map", A: []*c28Term{k, v}}, 3)
			}
		}
	}
	var rep8 []*c28Term
	for i, t := range rep {
		if i%16 == 0 {
			rep8 = append(rep8, t)
		}
	}
	e.funcs(c28Lists(rep8, 2), LL(nil, rep8[:1], rep8[:2]), LL(nil, rep8[:1]), rep8, LL(nil), []*c28Term{nil, rep8[1]}, 3)
	e.structs(rep8, L("ptr(b/p.A)"), []string{""}, []c28Field{{Name: "Y", Pkg: 1, T: rep8[0]}, {Name: "a", Pkg: 2, T: rep8[1]}}, 3)
	var sigs3 []*c28Term
	for _, t := range rep8 {
		sigs3 = append(sigs3, e.fn(nil, []*c28Term{t}, nil, false, 3))
	}
	e.ifaces(sigs3, 3)
	return e
}

// c28Type is one constructed type of the universe.
type c28Type struct {
	T    types.Type
	Term *c28Term
	Copy int
}

func (x *c28Type) Name() string { return fmt.Sprintf("%s#%d", x.Term.key, x.Copy) }

// c28Universe builds every term twice. Deterministic: same order, same sharing in every process.
func c28Universe(thorough bool) (*c28World, []c28Type) {
	w := newC28World()
	e := c28Terms(thorough)
	var out []c28Type
	for _, t := range e.terms {
		out = append(out, c28Type{T: w.build(t, 0), Term: t, Copy: 0})
		if t.Op != "atom" {
			out = append(out, c28Type{T: w.build(t, 1), Term: t, Copy: 1})
		}
	}
	return w, out
}

type c28FieldName struct {
	name string
	pkg  int
}
