package props

// C12 — a panic escaping an evaluation at ANY point leaves later evaluations unaffected.
//
// Fault enumeration. Probe programs are all nestings (depth <= 3, thorough: plain mode to depth 4) over
//   {call, deferred call, loop body, argument evaluation, recover-then-rethrow,
//    panic inside a defer while another panic is in flight, interpreted -> compiled -> interpreted callback}
// with a call of the compiled hook h() (or hv(), in expressions) at every statement boundary. A control run
// counts the N dynamic hook calls; then EVERY k in 1..N is one run on a fresh interpreter in which the k-th hook
// call panics. Three ways of running the probe: "plain" (Interp.RunExpr), "debug" (Interp.DebugExpr under a
// debugger that single-steps every statement, so the abort unwinds the single-step executor) and "kill" (the
// debugger itself aborts the evaluation at its k-th stop, like the debugger command kill). For some probes every pair
// (k1,k2) is run as two consecutive aborted evaluations in the same interpreter.
//
// A second family of probes ("named", c12_named.go) renders the constructs with top-level functions of every signature
// shape, so that the frames of the aborted calls are eligible for recycling.
//
// Oracle after the abort(s): (a) the hidden per-goroutine state (fast.VerifRunInfo) equals the idle state recorded in
// the same interpreter before the probe, and the pool of recycled frames is consistent; (b) the battery of
// evaluations of c12_util.go gives exactly the results it gives on an interpreter that never ran the probe.

import (
	"encoding/json"
	"fmt"
	"strings"

	"github.com/cosmos72/gomacro/base"
	"github.com/cosmos72/gomacro/fast"

	"verif/harness/core"
	"verif/harness/h"
	"verif/harness/twin"
)

func init() {
	core.Register(&core.Check{ID: "C12", Level: "fault_enumeration", Workers: -1, Run: c12Run, Replay: c12Replay})
}

type c12Cons struct {
	Name   string
	Render func(d int, hole string) string
}

const c12Prelude = `func c12add(a, b, c int) int { h(); return a + b + c }`

// Every function literal of the probes ends in an explicit return, and in the debugger modes the whole probe is wrapped
// in a function literal: single-stepping a function body that falls off its end never terminates (the end-of-code
// sentinel spinInterrupt does not signal SigReturn while Signals.Debug is set). That defect belongs to C19 and is
// reported there; C12 keeps clear of it.

var c12Constructs = []c12Cons{
	{"call", func(d int, hole string) string {
		return "(func() {\nh()\n" + hole + "\nh()\nreturn\n})()"
	}},
	{"defer", func(d int, hole string) string {
		return "(func() {\ndefer h()\ndefer func() {\nh()\n" + hole + "\nh()\nreturn\n}()\nh()\nreturn\n})()"
	}},
	{"loop", func(d int, hole string) string {
		return fmt.Sprintf("for i%d := 0; i%d < 2; i%d++ {\nh()\n%s\nh()\n}", d, d, d, hole)
	}},
	{"arg", func(d int, hole string) string {
		return "_ = c12add(hv(), func() int {\nh()\n" + hole + "\nh()\nreturn hv()\n}(), hv())"
	}},
	{"rethrow", func(d int, hole string) string {
		return "(func() {\ndefer func() {\nr := recover()\nh()\nif r != nil {\npanic(r)\n}\nh()\nreturn\n}()\nh()\n" + hole + "\nh()\nreturn\n})()"
	}},
	{"panicdefer", func(d int, hole string) string {
		// the hole runs inside a deferred call while "p1" is in flight; the outermost deferred call swallows p1 only
		return "(func() {\ndefer func() {\nr := recover()\nif s, _ := r.(string); r != nil && s != \"p1\" {\nh()\npanic(r)\n}\nh()\nreturn\n}()\n" +
			"defer func() {\nh()\n" + hole + "\nh()\nreturn\n}()\nh()\npanic(\"p1\")\n})()"
	}},
	{"callback", func(d int, hole string) string {
		return "hcb(func() {\nh()\n" + hole + "\nh()\nreturn\n})"
	}},
}

type c12Probe struct {
	Path   []string
	Src    string
	Style  string   // "" = nested function literals (closures) | "named" = top-level functions, see c12_named.go
	Shapes []string // named style: signature shape of the functions of each level
	Decls  []string // named style: declarations, one evaluation each, made before the probe runs
}

func (p c12Probe) String() string {
	s := strings.Join(p.Path, ">")
	if p.Style != "" {
		s = p.Style + ":" + s + "/" + strings.Join(p.Shapes, ">")
	}
	return s
}

func c12Build(path []int) c12Probe {
	src := "h()"
	names := make([]string, len(path))
	for i := len(path) - 1; i >= 0; i-- {
		src = c12Constructs[path[i]].Render(i, src)
		names[i] = c12Constructs[path[i]].Name
	}
	return c12Probe{Path: names, Src: "h()\n" + src + "\nh()"}
}

// c12Wrap is the form of the probe used in the debugger modes.
func c12Wrap(src string) string {
	return "(func() {\n" + src + "\nreturn\n})()"
}

func c12ProbeByNames(names []string) (c12Probe, bool) {
	var path []int
	for _, n := range names {
		found := false
		for ci, k := range c12Constructs {
			if k.Name == n {
				path = append(path, ci)
				found = true
			}
		}
		if !found {
			return c12Probe{}, false
		}
	}
	return c12Build(path), true
}

// c12Probes enumerates all nestings of exactly the given depth.
func c12Probes(depth int) []c12Probe {
	var out []c12Probe
	var rec func(cur []int)
	rec = func(cur []int) {
		if len(cur) == depth {
			out = append(out, c12Build(cur))
			return
		}
		for ci := range c12Constructs {
			rec(append(append([]int{}, cur...), ci))
		}
	}
	rec(nil)
	return out
}

type c12Case struct {
	Path   []string `json:"probe"`
	Style  string   `json:"style,omitempty"`  // "" | "named"
	Shapes []string `json:"shapes,omitempty"` // named style: one signature shape per level
	Mode   string   `json:"mode"`             // plain | debug | kill
	Faults []int    `json:"faults"`           // k of each consecutive aborted evaluation (0 = no fault)
	Src    string   `json:"source,omitempty"`
	Decls  []string `json:"declarations,omitempty"`
}

func c12CaseOf(p c12Probe, mode string, faults []int) c12Case {
	return c12Case{Path: p.Path, Style: p.Style, Shapes: p.Shapes, Mode: mode, Faults: faults}
}

// c12ProbeOfCase rebuilds the probe program of a case.
func c12ProbeOfCase(cas c12Case) (c12Probe, bool) {
	if cas.Style == "named" {
		return c12NamedProbeByNames(cas.Path, cas.Shapes)
	}
	return c12ProbeByNames(cas.Path)
}

type c12Outcome struct {
	N        int      // hook calls (or debugger stops, mode kill) of the last evaluation
	Aborted  []bool   // per evaluation
	Panics   []string // escaped panic per evaluation
	BadState []string // invariant violations after the last evaluation ("" = ok)
	BadWhen  int      // index of the evaluation after which the invariant failed first
	Loose    string   // loose fields after the last abort
	Battery  []string
}

// c12Setup makes a world in the given mode, ready to run a probe; returns the idle state.
func c12Setup(mode string) (*c12World, *c12Stub, c12State) {
	w := newC12World()
	ir := w.ir
	g := &ir.Comp.Globals
	var stub *c12Stub
	if mode != "plain" {
		g.Options |= base.OptDebugger
		stub = &c12Stub{g: g, step: true}
		ir.SetDebugger(stub)
	}
	ir.Eval(c12Prelude)
	if mode != "plain" {
		// idle = the state after a completed evaluation of the same kind
		ir.DebugExpr(ir.Compile("c12add(0, 0, 0)"))
	} else {
		ir.Eval("c12add(0, 0, 0)")
	}
	return w, stub, c12Snap(ir)
}

type c12KillStub struct {
	c12Stub
	n, k  int
	fired bool
}

func (d *c12KillStub) tick() fast.DebugOp {
	d.n++
	if d.n == d.k {
		d.fired = true
		var v interface{} = c12Boom{d.k}
		return fast.DebugOp{Depth: 0, Panic: &v}
	}
	return fast.DebugOpStep
}
func (d *c12KillStub) At(ir *fast.Interp, env *fast.Env) fast.DebugOp         { return d.tick() }
func (d *c12KillStub) Breakpoint(ir *fast.Interp, env *fast.Env) fast.DebugOp { return d.tick() }

// c12Exec runs one case on a fresh interpreter.
func c12Exec(cas c12Case, withBattery bool) c12Outcome {
	p, ok := c12ProbeOfCase(cas)
	if !ok {
		panic("C12: unknown probe " + strings.Join(cas.Path, ">") + " " + strings.Join(cas.Shapes, ">"))
	}
	w, _, idle := c12Setup(cas.Mode)
	ir := w.ir
	if len(cas.Faults) != 0 {
		for _, d := range p.Decls {
			ir.Eval(d) // completed evaluations: the idle state is not changed by them
		}
	}
	var out c12Outcome
	out.BadWhen = -1
	for ei, k := range cas.Faults {
		src := p.Src
		if cas.Mode != "plain" {
			src = c12Wrap(src)
		}
		e := ir.Compile(src)
		var kill *c12KillStub
		if cas.Mode == "kill" {
			kill = &c12KillStub{k: k}
			kill.g = &ir.Comp.Globals
			ir.SetDebugger(kill)
			w.arm(0, nil)
		} else {
			w.arm(k, c12PanicFault)
		}
		perr := twin.Catch(func() {
			h.Reset()
			if cas.Mode == "plain" {
				ir.RunExpr(e)
			} else {
				ir.DebugExpr(e)
			}
		})
		if kill != nil {
			out.N = kill.n
		} else {
			out.N = w.n
		}
		out.Aborted = append(out.Aborted, perr != nil)
		out.Panics = append(out.Panics, fmt.Sprint(perr))
		st := c12Snap(ir)
		if bad := c12Invariant(idle, st); len(bad) != 0 && out.BadWhen < 0 {
			out.BadState = bad
			out.BadWhen = ei
		}
		var ls []string
		for _, f := range c12LooseFields {
			if f != "PoolSize" {
				ls = append(ls, fmt.Sprintf("%s=%v", f, st[f]))
			}
		}
		out.Loose = strings.Join(ls, " ")
	}
	if withBattery {
		out.Battery = w.runBattery()
	}
	return out
}

// c12Ref computes the battery on an interpreter that never ran a probe (twice: it must be deterministic).
func c12Ref(mode string) []string {
	a := c12Exec(c12Case{Path: nil, Mode: mode, Faults: nil}, true).Battery
	b := c12Exec(c12Case{Path: nil, Mode: mode, Faults: nil}, true).Battery
	if i := c12DiffBattery(a, b); i >= 0 {
		panic(fmt.Sprintf("C12 harness: battery item %s is not deterministic on fresh interpreters", c12BatteryName(i)))
	}
	for i, r := range a {
		if strings.HasPrefix(r, "COMPILE-ERROR") {
			panic("C12 harness: battery item " + c12BatteryName(i) + ": " + r)
		}
	}
	return a
}

// c12Check runs a case, compares with the reference and reports. Returns the outcome.
func c12Check(c *core.Ctx, cas c12Case, ref []string) c12Outcome {
	out := c12Exec(cas, true)
	probe := strings.Join(cas.Path, ">")
	if cas.Style != "" {
		probe = cas.Style + ":" + probe + "/" + strings.Join(cas.Shapes, ">")
	}
	report := func(sig, what string) {
		// reproduce on fresh interpreters before reporting
		for i := 0; i < 4; i++ {
			again := c12Exec(cas, true)
			if fmt.Sprint(again.BadState) != fmt.Sprint(out.BadState) || c12DiffBattery(out.Battery, again.Battery) >= 0 {
				sig = "FLAKY|" + sig
				break
			}
		}
		cc := cas
		if p, ok := c12ProbeOfCase(cas); ok {
			cc.Src = p.Src
			cc.Decls = p.Decls
		}
		c.Violation(sig, what, cc)
	}
	if len(out.BadState) != 0 {
		report(fmt.Sprintf("C12|state|%s|%s|%s", c12BadFields(out.BadState), cas.Mode, probe),
			fmt.Sprintf("probe %s mode %s faults %v (escaped panic %v): hidden state after aborted evaluation #%d differs from idle: %s",
				probe, cas.Mode, cas.Faults, out.Panics, out.BadWhen+1, strings.Join(out.BadState, "; ")))
	}
	if i := c12DiffBattery(ref, out.Battery); i >= 0 {
		got := "(missing)"
		if i < len(out.Battery) {
			got = out.Battery[i]
		}
		want := "(none)"
		if i < len(ref) {
			want = ref[i]
		}
		report(fmt.Sprintf("C12|battery|%s|%s|%s", c12BatteryName(i), cas.Mode, probe),
			fmt.Sprintf("probe %s mode %s faults %v (escaped panic %v): later evaluation %q gives %q, on an interpreter that never ran the probe %q",
				probe, cas.Mode, cas.Faults, out.Panics, c12BatteryName(i), got, want))
	}
	return out
}

func c12Run(c *core.Ctx) {
	c.Rule("probe = nesting of depth d over 7 constructs {call, deferred call (+ deferred compiled hook), loop body, argument evaluation, recover-then-rethrow, " +
		"panic inside a deferred call while another panic is in flight, interpreted->compiled->interpreted callback}, hook call at every statement boundary; " +
		"one run per (probe, mode, k) with k = 1..N dynamic hook calls (mode kill: k = 1..N debugger stops) on a fresh interpreter, plus all pairs (k1,k2) of two consecutive " +
		"aborted evaluations for selected probes; after the abort: hidden-state invariant + battery of " + fmt.Sprint(len(c12Battery)) + " evaluations compared with a never-faulted interpreter. " +
		"second family, named probes: the constructs {call, deferred compiled function + deferred top-level function, loop body with a block-local, recover-then-rethrow, panic inside a deferred call, callback} rendered with "+
		"top-level functions declared by earlier evaluations (no frame is captured by a closure: frames are eligible for recycling; no deferred callee is a closure of the deferring function), "+
		fmt.Sprint(len(c12Shapes))+" signature shapes {func(), func(int), func() int, func(int) int, func(string) bool, func(int,string), slice parameter, 3 parameters + 2 results, variadic, interface parameter + named interface result, named types, value method, pointer method, pointer method with implicit address}: "+
		"depth 1 = every construct x every shape in the three modes, depth 2 = every pair of constructs x pairs of 4 reduced shapes (quick: (s,s) and (s,next s); thorough: every shape outside x reduced inside), thorough depth 3 with equal shapes; "+
		"the battery starts by taking every frame of the pool for a non-panicking function whose deferred call recovers. "+
		"non-trivial = distinct (probe, mode, fault points) whose evaluation was really aborted by a panic escaping Eval")
	c.Assume("probe programs only touch locals, so the aborted evaluation leaves no legitimate side effect behind",
		"Run.PanicFun/Run.Panic (stale after an escaped panic), Run.Interrupt and the pool fill level are recorded but not required to be restored: no later evaluation can observe them "+
			"as long as the frame registered in Run.PanicFun is never handed out again, which is checked (PoolLive = no pooled frame is reachable from PanicFun/DeferOfFun/CurrEnv; battery items pool-drain-*)")

	refs := map[string][]string{}
	for _, m := range []string{"plain", "debug", "kill"} {
		refs[m] = c12Ref(m)
	}

	type job struct {
		p     c12Probe
		modes []string
	}
	var jobs []job
	maxDepth := c.Pick(3, 4)
	literal := 0
	addLiteral := func(d int) {
		for _, p := range c12Probes(d) {
			modes := []string{"plain"}
			if d <= c.Pick(2, 3) {
				modes = []string{"plain", "debug", "kill"}
			}
			jobs = append(jobs, job{p, modes})
			literal++
		}
	}
	for d := 1; d <= maxDepth && d <= 3; d++ {
		addLiteral(d)
	}
	// named probes (c12_named.go): top-level functions of every signature shape, frames eligible for recycling
	for d := 1; d <= c.Pick(2, 3); d++ {
		for _, p := range c12NamedProbes(d, c.Thorough()) {
			modes := []string{"plain"}
			if d == 1 {
				modes = []string{"plain", "debug", "kill"}
			}
			jobs = append(jobs, job{p, modes})
		}
	}
	// the deepest literal nestings last: they are the first to go if the internal deadline is reached
	for d := 4; d <= maxDepth; d++ {
		addLiteral(d)
	}
	c.Set("probes", len(jobs))
	c.Set("probes_literal", literal)
	c.Set("probes_named", len(jobs)-literal)
	outcomes := map[string]bool{}
	idx := 0
	for _, j := range jobs {
		idx++
		if !c.Mine(idx) {
			continue
		}
		if c.Expired() {
			break
		}
		for _, mode := range j.modes {
			// control run: no fault
			ctl := c12Check(c, c12CaseOf(j.p, mode, []int{0}), refs[mode])
			c.Eval(1)
			c.Count("runs_"+mode, 1)
			if ctl.Aborted[0] {
				panic(fmt.Sprintf("C12 harness: probe %v mode %s aborts without a fault: %v", j.p, mode, ctl.Panics))
			}
			c.Count("hook_calls_control_total", ctl.N)
			for k := 1; k <= ctl.N; k++ {
				cas := c12CaseOf(j.p, mode, []int{k})
				out := c12Check(c, cas, refs[mode])
				c.Eval(1)
				c.Count("runs_"+mode, 1)
				if j.p.Style != "" {
					c.Count("runs_"+j.p.Style, 1)
				}
				c.Count("battery_evaluations", len(c12Battery))
				if out.Aborted[0] {
					c.Nontrivial(fmt.Sprintf("%v|%s|%d", j.p, mode, k))
					c.Count("aborted", 1)
				} else {
					c.Count("fault_swallowed", 1)
					c.Count("fault_swallowed_mode_"+mode, 1)
				}
				pv := out.Panics[0]
				if strings.HasPrefix(pv, "boom#") {
					pv = "boom#k"
				}
				outcomes[mode+" panic="+pv+" "+out.Loose] = true
				if c.WantSample() && k == ctl.N/2+1 && len(j.p.Path) >= 2 {
					c.Sample(map[string]interface{}{"probe": j.p.String(), "mode": mode, "N": ctl.N, "k": k, "escaped": out.Panics[0], "loose_state": out.Loose})
				}
			}
		}
	}

	// pairs of consecutive aborted evaluations
	var pairProbes []c12Probe
	if c.Quick() {
		for _, names := range [][]string{{"defer", "loop"}, {"rethrow", "callback"}, {"panicdefer", "call"}, {"arg", "defer"}} {
			p, _ := c12ProbeByNames(names)
			pairProbes = append(pairProbes, p)
		}
		for _, ps := range [][2]string{{"defer", "slice"}, {"panicdefer", "f1r1"}, {"rethrow", "method"}} {
			p, _ := c12NamedProbeByNames([]string{ps[0]}, []string{ps[1]})
			pairProbes = append(pairProbes, p)
		}
	} else {
		pairProbes = append(c12Probes(1), c12Probes(2)...)
		pairProbes = append(pairProbes, c12NamedProbes(1, true)...)
	}
	pairs := 0
	for _, p := range pairProbes {
		ctl := c12Exec(c12CaseOf(p, "plain", []int{0}), false)
		for k1 := 1; k1 <= ctl.N; k1++ {
			idx++
			if !c.Mine(idx) {
				continue
			}
			if c.Expired() {
				break
			}
			for k2 := 1; k2 <= ctl.N; k2++ {
				out := c12Check(c, c12CaseOf(p, "plain", []int{k1, k2}), refs["plain"])
				c.Eval(1)
				pairs++
				if out.Aborted[0] && out.Aborted[1] {
					c.Nontrivial(fmt.Sprintf("%v|pair|%d,%d", p, k1, k2))
				}
			}
		}
	}
	c.Count("pair_runs", pairs)
	if c.Shard == 0 {
		c.Set("pair_probe_count", len(pairProbes))
	}
	for o := range outcomes {
		c.Count("outcome: "+o, 1) // number of worker shards that saw this (escaped panic, loose state) combination
	}
}

func c12Replay(c *core.Ctx, raw json.RawMessage) {
	var cas c12Case
	if err := json.Unmarshal(raw, &cas); err != nil {
		panic(err)
	}
	c12Check(c, cas, c12Ref(cas.Mode))
}
