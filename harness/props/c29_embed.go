package props

// C29 — field and method lookup through embedded fields on RUN-TIME (emulated) types, i.e. the types interpreted code
// declares: named struct types made with NamedOf / StructOf / AddMethod. Types converted from reflect (unless their
// package table lists the wrapper methods) carry the
// promoted methods of their embedded fields as methods of their own (reflect lists the compiler's wrappers), so the
// breadth-first search over embedded fields and its visited-set are exercised by method lookups only on these types.
//
// Every type is built twice: with the universe constructors, and - the same declaration - with the STANDARD go/types
// constructors. The oracle for a selector T.name is the standard go/types.LookupFieldOrMethod (Go's selector rule:
// shallowest depth, exactly one hit, a named type met again deeper is ignored, met again at the same depth makes
// every hit in it ambiguous). Field names and method names are disjoint, so that the single selector lookup of Go
// can be compared with the two separate lookups FieldByName / MethodByName of xreflect.
//
// Bounded-exhaustive family:
//   leaves A{X,Y int; M(), (*A).MA()}, B{X,Y int; M()} (same underlying type as A), C{X,Z,u int; MC()},
//   S{*S; X int; M()}, S2{*S2; X int} (self-referencing)
//   8 definitions of middle types, each declared TWICE (Ld, Rd: two named types with identical underlying type):
//   {A} {*A} {B} {C} {A;C} {A;u int} {A;X int} {C}+method M
//   tops = every struct with 1 or 2 embedded elements (any leaf/middle/self type, by value or by pointer, distinct
//   names), each also with an own field X; every struct of 3 embedded elements over 8 types;
//   depth 3 = 14 named tops (diamond, diamond through different middles, pairs, shallow-before-deep, overrides, ...)
//   embedded alone, in all ordered pairs, and next to a leaf/middle.
//   Every field name, every embedded type name and every method name is looked up in every top, twice (the second
//   answer comes from the cache).

import (
	"fmt"
	"go/token"
	gotypes "go/types"
	r "reflect"
	"strings"

	xr "github.com/cosmos72/gomacro/xreflect"
)

type c29ENamed struct {
	name string
	x    xr.Type
	g    *gotypes.Named
}

// c29EField: an embedded named type (by value or pointer), or an own field of type int.
type c29EField struct {
	emb  string // name of the embedded named type, or ""
	ptr  bool
	name string // own field name
}

func (f c29EField) String() string {
	if f.emb == "" {
		return f.name + " int"
	}
	if f.ptr {
		return "*" + f.emb
	}
	return f.emb
}

func c29EKey(fs []c29EField) string {
	s := make([]string, len(fs))
	for i, f := range fs {
		s[i] = f.String()
	}
	return "struct{" + strings.Join(s, "; ") + "}"
}

type c29EWorld struct {
	u      *xr.Universe
	xpkg   *xr.Package
	gpkg   *gotypes.Package
	named  map[string]*c29ENamed
	order  []string // named types in declaration order
	fields []string // field names that occur anywhere
	meths  []string // method names that occur anywhere
}

func (w *c29EWorld) xstruct(fs []c29EField) xr.Type {
	xf := make([]xr.StructField, len(fs))
	for i, f := range fs {
		if f.emb != "" {
			t := w.named[f.emb].x
			if f.ptr {
				t = w.u.PtrTo(t)
			}
			xf[i] = xr.StructField{Type: t, Anonymous: true, Pkg: w.xpkg}
		} else {
			xf[i] = xr.StructField{Name: f.name, Type: w.u.BasicTypes[r.Int]}
			if !exactName(f.name) {
				xf[i].Pkg = w.xpkg
			}
		}
	}
	return w.u.StructOf(xf)
}

func (w *c29EWorld) gstruct(fs []c29EField) *gotypes.Struct {
	gf := make([]*gotypes.Var, len(fs))
	for i, f := range fs {
		if f.emb != "" {
			var t gotypes.Type = w.named[f.emb].g
			if f.ptr {
				t = gotypes.NewPointer(t)
			}
			gf[i] = gotypes.NewField(token.NoPos, w.gpkg, f.emb, t, true)
		} else {
			gf[i] = gotypes.NewField(token.NoPos, w.gpkg, f.name, gotypes.Typ[gotypes.Int], false)
		}
	}
	return gotypes.NewStruct(gf, nil)
}

// declare `type name struct{fs}`; fs may refer to name itself (through a pointer).
func (w *c29EWorld) declare(name string, fs []c29EField) *c29ENamed {
	n := &c29ENamed{name: name}
	n.x = w.u.NamedOf(name, "main")
	n.g = gotypes.NewNamed(gotypes.NewTypeName(token.NoPos, w.gpkg, name, nil), nil, nil)
	w.named[name] = n
	w.order = append(w.order, name)
	n.x.SetUnderlying(w.xstruct(fs))
	n.g.SetUnderlying(w.gstruct(fs))
	return n
}

func (w *c29EWorld) method(n *c29ENamed, name string, ptrRecv bool) {
	xrecv, grecv := n.x, gotypes.Type(n.g)
	if ptrRecv {
		xrecv, grecv = w.u.PtrTo(n.x), gotypes.NewPointer(n.g)
	}
	n.x.AddMethod(name, w.u.FuncOf([]xr.Type{xrecv}, nil, false))
	n.g.AddMethod(gotypes.NewFunc(token.NoPos, w.gpkg, name,
		gotypes.NewSignatureType(gotypes.NewVar(token.NoPos, w.gpkg, "", grecv), nil, nil, nil, nil, false)))
}

var c29EMidDefs = [][]c29EField{
	{{emb: "A"}},
	{{emb: "A", ptr: true}},
	{{emb: "B"}},
	{{emb: "C"}},
	{{emb: "A"}, {emb: "C"}},
	{{emb: "A"}, {name: "u"}},
	{{emb: "A"}, {name: "X"}},
	{{emb: "C"}}, // + method M
}

func newC29EWorld() *c29EWorld {
	w := &c29EWorld{u: xr.NewUniverse(), gpkg: gotypes.NewPackage("main", "main"), named: map[string]*c29ENamed{}}
	w.xpkg = w.u.LoadPackage("main")
	own := func(names ...string) []c29EField {
		var fs []c29EField
		for _, n := range names {
			fs = append(fs, c29EField{name: n})
		}
		return fs
	}
	a := w.declare("A", own("X", "Y"))
	w.method(a, "M", false)
	w.method(a, "MA", true)
	b := w.declare("B", own("X", "Y"))
	w.method(b, "M", false)
	c := w.declare("C", own("X", "Z", "u"))
	w.method(c, "MC", false)
	for d, def := range c29EMidDefs {
		for _, side := range []string{"L", "R"} {
			n := w.declare(fmt.Sprintf("%s%d", side, d), def)
			if d == 7 {
				w.method(n, "M", false)
			}
		}
	}
	s := w.declare("S", []c29EField{{emb: "S", ptr: true}, {name: "X"}})
	w.method(s, "M", false)
	w.declare("S2", []c29EField{{emb: "S2", ptr: true}, {name: "X"}})
	w.fields = []string{"X", "Y", "Z", "u"}
	w.meths = []string{"M", "MA", "MC"}
	return w
}

type c29ETop struct {
	key   string
	fs    []c29EField
	named string // "" = unnamed struct; else the name to declare it under
}

var c29ENamedTops = [][]c29EField{
	{{emb: "L0"}, {emb: "R0"}},                       // diamond: the embedding structs have identical underlying types too
	{{emb: "L0"}, {emb: "R5"}},                       // diamond through different middles
	{{emb: "L0", ptr: true}, {emb: "R0", ptr: true}}, // through pointers
	{{emb: "A"}, {emb: "B"}},                         // siblings with identical underlying type
	{{emb: "A", ptr: true}, {emb: "B", ptr: true}},
	{{emb: "L0"}, {emb: "A"}}, // deep first, then the same struct shallower
	{{emb: "A"}, {emb: "L0"}},
	{{emb: "L4"}, {emb: "R4"}},
	{{emb: "L6"}, {emb: "R0"}},              // X declared by L6 at depth 1
	{{emb: "L0"}, {emb: "R0"}, {name: "X"}}, // X at depth 0
	{{emb: "L7"}, {emb: "A"}},               // M declared by L7 and by A at depth 1
	{{emb: "L7"}, {emb: "L0"}},              // L7.M at depth 1 wins over L0.A.M
	{{emb: "S"}, {emb: "S2"}},
	{{emb: "S"}, {emb: "A"}},
}

// c29ETops enumerates the family (deterministic order). The named tops are declared by the caller, in order, before
// the first top that embeds one.
func c29ETops(w *c29EWorld) []c29ETop {
	var tops []c29ETop
	add := func(named string, fs ...c29EField) {
		fs = append([]c29EField{}, fs...)
		key := c29EKey(fs)
		if named != "" {
			key = "type " + named + " " + key
		}
		tops = append(tops, c29ETop{key: key, fs: fs, named: named})
	}
	var elems []c29EField
	for _, n := range w.order {
		elems = append(elems, c29EField{emb: n}, c29EField{emb: n, ptr: true})
	}
	ownX := c29EField{name: "X"}
	for _, e := range elems {
		add("", e)
		add("", e, ownX)
	}
	for _, e1 := range elems {
		for _, e2 := range elems {
			if e1.emb != e2.emb {
				add("", e1, e2)
				add("", e1, e2, ownX)
			}
		}
	}
	three := []string{"A", "B", "C", "L0", "R0", "L4", "R4", "L6"}
	for _, a := range three {
		for _, b := range three {
			for _, c := range three {
				if a != b && b != c && a != c {
					add("", c29EField{emb: a}, c29EField{emb: b}, c29EField{emb: c})
				}
			}
		}
	}
	// depth 3
	var ns []string
	for i, fs := range c29ENamedTops {
		name := fmt.Sprintf("N%d", i)
		ns = append(ns, name)
		add(name, fs...)
	}
	for _, n := range ns {
		add("", c29EField{emb: n})
	}
	for _, n1 := range ns {
		for _, n2 := range ns {
			if n1 != n2 {
				add("", c29EField{emb: n1}, c29EField{emb: n2})
			}
		}
	}
	for _, n := range ns {
		for _, e := range []c29EField{{emb: "A"}, {emb: "B", ptr: true}, {emb: "L0"}, {emb: "R5"}} {
			add("", c29EField{emb: n}, e)
			add("", e, c29EField{emb: n, ptr: true})
		}
	}
	return tops
}

func (k *c29Checker) embedViol(what string, top c29ETop, format string, args ...interface{}) {
	k.c.Violation("C29|embed-"+what, top.key+": "+fmt.Sprintf(format, args...),
		c29Case{Kind: "embed", Thorough: k.thorough, Recipe: top.key})
}

func c29CountClass(n int) string {
	switch {
	case n == 0:
		return "0"
	case n == 1:
		return "1"
	}
	return "many"
}

// embedCheck builds the world and checks every top (or only the one with key `only`; the named tops are always declared).
func (k *c29Checker) embedCheck(only string) {
	c := k.c
	var w *c29EWorld
	if p := catchPanic(func() { w = newC29EWorld() }); p != nil {
		c.Violation("C29|embed-panics|declaring", fmt.Sprintf("declaring the leaf and middle types panics: %v", p), c29Case{Kind: "embed", Thorough: k.thorough})
		return
	}
	k.u, k.order, k.consKey = w.u, "embed", ""
	tops := c29ETops(w)
	c.Set("embed_tops", len(tops))
	isField := map[string]bool{}
	for _, f := range w.fields {
		isField[f] = true
	}
	for _, top := range tops {
		if c.Expired() {
			return
		}
		if only != "" && top.key != only && top.named == "" {
			continue
		}
		top := top
		if p := catchPanic(func() {
			var xt xr.Type
			var gt gotypes.Type
			if top.named != "" {
				n := w.declare(top.named, top.fs)
				xt, gt = n.x, n.g
			} else {
				xt, gt = w.xstruct(top.fs), w.gstruct(top.fs)
			}
			if only != "" && top.key != only {
				return
			}
			c.Eval(1)
			names := append(append(append([]string{}, w.fields...), w.meths...), w.order...)
			for _, name := range names {
				pkgpath := ""
				if !exactName(name) {
					pkgpath = "main"
				}
				obj, index, _ := gotypes.LookupFieldOrMethod(gt, true, w.gpkg, name)
				wantF, wantM := "0", "0"
				field := isField[name] || w.named[name] != nil
				switch {
				case obj == nil && index != nil: // ambiguous
					if field {
						wantF = "many"
					} else {
						wantM = "many"
					}
				case obj == nil:
				default:
					if _, ok := obj.(*gotypes.Var); ok {
						wantF = "1"
					} else {
						wantM = "1"
					}
				}
				if wantF == "many" || wantM == "many" || len(index) > 1 {
					c.Nontrivial("emb|" + top.key + "|" + name)
				}
				c.Count("embed_selector_"+map[bool]string{true: "field", false: "method"}[field]+"_"+wantF+wantM, 1)
				for pass := 0; pass < 2; pass++ {
					f, fn := xt.FieldByName(name, pkgpath)
					m, mn := xt.MethodByName(name, pkgpath)
					c.Count("embed_lookups", 2)
					if got := c29CountClass(fn); got != wantF {
						k.embedViol(fmt.Sprintf("fieldbyname-count|want %s got %s", wantF, got), top,
							"FieldByName(%q) finds %d fields (index %v, pass %d); go/types selector lookup: %s", name, fn, f.Index, pass, c29ELookupText(obj, index))
						break
					}
					if got := c29CountClass(mn); got != wantM {
						k.embedViol(fmt.Sprintf("methodbyname-count|want %s got %s", wantM, got), top,
							"MethodByName(%q) finds %d methods (field index %v, pass %d); go/types selector lookup: %s", name, mn, m.FieldIndex, pass, c29ELookupText(obj, index))
						break
					}
					if wantF == "1" && fmt.Sprint(f.Index) != fmt.Sprint(index) {
						k.embedViol("fieldbyname-index", top, "FieldByName(%q).Index = %v (pass %d), go/types %v", name, f.Index, pass, index)
						break
					}
					if wantM == "1" && fmt.Sprint(m.FieldIndex) != fmt.Sprint(index[:len(index)-1]) {
						k.embedViol("methodbyname-fieldindex", top, "MethodByName(%q).FieldIndex = %v (pass %d), go/types path %v", name, m.FieldIndex, pass, index[:len(index)-1])
						break
					}
				}
			}
		}); p != nil {
			k.embedViol("panics|"+c29PanicClass(p), top, "panics: %v", p)
		}
	}
}

func c29ELookupText(obj gotypes.Object, index []int) string {
	switch {
	case obj == nil && index != nil:
		return fmt.Sprintf("ambiguous (first path %v)", index)
	case obj == nil:
		return "not found"
	}
	return fmt.Sprintf("%v at %v", obj, index)
}
