package props

// C08 family "escaped-addr": the address of a function's variable outlives the call. Go guarantees that the pointer
// keeps referring to that very variable: two calls give two distinct variables, later calls do not change *p.
// gomacro keeps bool/integer/float/complex variables in a frame's integer slots and recycles frames; &v marks the
// frame that owns v so that its slots are abandoned instead of recycled (fast/address.go, specialised by kind and
// by the distance between the owner frame and the frame in which & is evaluated).
// Alphabet: kind of v (the 16 integer-slot kinds + the element kinds of this check) × owner of v {param, local,
// named result, block variable, for-header variable} × chain of nested frames between the owner and the & operator
// (c06_nest.go) × maker form {declared function, function literal}. quick: kind × distance 0..4 in full (owner and
// chain rotating, declared makers) + owner × chain × form in full (kind rotating); thorough: kind × owner × chain in
// full (declared makers: all 64 wrapper pairs; literal makers: the quick chains). The maker is called three times and clob (see
// c08Clobber) runs in between, so that recycled integer slots are overwritten; in addition the programs of this
// family run with the frame poisoning of C06 when the harness is built with tag verif.

import (
	"fmt"
	"strings"

	"verif/harness/oracle"
)

type c08Basic struct {
	typ string
	v   [3]string
}

var c08Basics = []c08Basic{
	{"bool", [3]string{"true", "false", "true"}},
	{"int", [3]string{"11", "22", "33"}},
	{"int8", [3]string{"int8(-128)", "int8(7)", "int8(127)"}},
	{"int16", [3]string{"int16(-300)", "int16(7)", "int16(32767)"}},
	{"int32", [3]string{"int32(-70000)", "int32(7)", "int32(1 << 30)"}},
	{"int64", [3]string{"int64(-1 << 40)", "int64(7)", "int64(1 << 62)"}},
	{"uint", [3]string{"uint(11)", "uint(22)", "uint(33)"}},
	{"uint8", [3]string{"uint8(255)", "uint8(7)", "uint8(128)"}},
	{"uint16", [3]string{"uint16(65535)", "uint16(7)", "uint16(300)"}},
	{"uint32", [3]string{"uint32(1 << 31)", "uint32(7)", "uint32(70000)"}},
	{"uint64", [3]string{"uint64(1 << 63)", "uint64(7)", "uint64(1 << 40)"}},
	{"uintptr", [3]string{"uintptr(11)", "uintptr(22)", "uintptr(33)"}},
	{"float32", [3]string{"float32(1.5)", "float32(-2.25)", "float32(1e30)"}},
	{"float64", [3]string{"1.5", "-2.25", "1e300"}},
	{"complex64", [3]string{"complex64(1.5 + 2i)", "complex64(-2.25i)", "complex64(3)"}},
	{"complex128", [3]string{"1.5 + 2i", "-2.25i", "(3 + 0i)"}},
}

// c08AddrProgram renders one program; typ/v0..v2 describe the kind, pre are statements the values need.
// form "decl": the maker and the clobber functions are declared functions (package-level names carry the program
// id); form "lit": they are function literals bound to local variables. (gomacro gives the body of a function
// literal that declares variables a frame of its own, one below the frame of its parameters and results, and does
// not give that frame back to the pool when the function returns: distances and recycling differ between the forms.)
func c08AddrProgram(id, form, typ string, v [3]string, pre, owner, chain string) (decls, body string) {
	var d, w cw
	if pre != "" {
		w.f("%s", strings.TrimSuffix(pre, "\n"))
	}
	res := "*" + typ
	if owner == "result" {
		res = "(x *" + typ + ", rv " + typ + ")"
	}
	m := &w
	mk, sfx := "mk", ""
	if form == "decl" {
		m = &d
		sfx = "_" + id
		mk = "mk" + sfx
		m.f("func %s(pv %s) %s {", mk, typ, res)
	} else {
		m.f("mk := func(pv %s) %s {", typ, res)
	}
	m.f("k := 1\n_ = k")
	if owner != "result" {
		m.f("var x *%s", typ)
	}
	name, closeOwner := "v", ""
	switch owner {
	case "param":
		name = "pv"
	case "local":
		m.f("v := pv")
	case "result":
		name = "rv"
		m.f("rv = pv")
	case "blockvar":
		m.f("{\nv := pv\nw0 := 5\n_ = w0")
		closeOwner = "}"
	case "forvar":
		m.f("for i0, v := 0, pv; i0 < 1; i0++ {")
		closeOwner = "}"
	default:
		panic(owner)
	}
	op, cl := c06Chain(chain)
	if op != "" {
		m.f("%s", op)
	}
	m.f("x = &%s", name)
	if cl != "" {
		m.f("%s", cl)
	}
	if closeOwner != "" {
		m.f("%s", closeOwner)
	}
	if owner == "result" {
		m.f("return x, rv\n}")
	} else {
		m.f("return x\n}")
	}
	m.f("%s", c08Clobber(form == "decl", sfx))
	call := func(dst, val string) {
		if owner == "result" {
			w.f("%s, _ := %s(%s)", dst, mk, val)
		} else {
			w.f("%s := %s(%s)", dst, mk, val)
		}
	}
	call("p", v[0])
	call("q", v[1])
	w.f("n := %s", c08ClobCall(sfx, 1000))
	w.f("O(*p, *q, p == q, n)")
	w.f("*p = %s", v[2])
	w.f("n = %s", c08ClobCall(sfx, 3000))
	call("r", v[0])
	w.f("O(*p, *q, *r, p == r, q == r, n)")
	w.f("*r = %s\n*q = %s\nn = %s\nO(*p, *q, *r, n)", v[1], v[0], c08ClobCall(sfx, 5000))
	return d.String(), w.String()
}

// c08Clobber declares clob1..clob5: clobW has W int parameters, W int variables in its body and 8 nested blocks
// that each declare W int variables, so every frame it requests asks for exactly W integer slots. Block frames
// and function frames come from one LIFO pool, and a pooled frame is reused WITH its integer slots when it has
// room for the request: calling clob1 … clob5 in turn (c08ClobCall) overwrites the integer slots of the frames
// (up to 10 deep in the pool, up to 5 slots wide) that were recycled with their slots. Frames whose slots were
// abandoned because an address had been taken are unaffected.
func c08Clobber(declared bool, sfx string) string {
	var w cw
	for width := 1; width <= 5; width++ {
		var ps, bs, bv []string
		for i := 0; i < width; i++ {
			ps = append(ps, fmt.Sprintf("p%d", i))
			bs = append(bs, fmt.Sprintf("b%d", i))
			bv = append(bv, fmt.Sprintf("p%d+%d", i, 50+i))
		}
		if declared {
			w.f("func clob%d%s(%s int) int {", width, sfx, strings.Join(ps, ", "))
		} else {
			w.f("clob%d := func(%s int) int {", width, strings.Join(ps, ", "))
		}
		w.f("%s := %s", strings.Join(bs, ", "), strings.Join(bv, ", "))
		if width > 1 {
			w.f("b0 += %s", strings.Join(bs[1:], " + "))
		}
		const levels = 8
		for l := 0; l < levels; l++ {
			var names, vals []string
			for i := 0; i < width; i++ {
				names = append(names, fmt.Sprintf("c%d_%d", l, i))
				vals = append(vals, fmt.Sprintf("p0+%d", width*100+l*10+i))
			}
			w.f("{\n%s := %s\nb0 += %s", strings.Join(names, ", "), strings.Join(vals, ", "), strings.Join(names, " + "))
		}
		w.f("%sreturn b0\n}", strings.Repeat("}\n", levels))
	}
	return w.String()
}

// c08ClobCall is the expression running the five clobber passes with values derived from base.
func c08ClobCall(sfx string, base int) string {
	var calls []string
	for width := 1; width <= 5; width++ {
		var args []string
		for i := 0; i < width; i++ {
			args = append(args, fmt.Sprint(base+i))
		}
		calls = append(calls, fmt.Sprintf("clob%d%s(%s)", width, sfx, strings.Join(args, ", ")))
	}
	return strings.Join(calls, " + ")
}

func (g *c08Gen) genEscapedAddr() {
	type kd struct {
		name, typ, pre string
		v              [3]string
	}
	var kinds []kd
	for _, b := range c08Basics {
		kinds = append(kinds, kd{b.typ, b.typ, "", b.v})
	}
	nbasic := len(kinds)
	for ki := range c08Kinds {
		k := &c08Kinds[ki]
		if k.name == "int" || k.name == "int8" || k.name == "float64" {
			continue
		}
		kinds = append(kinds, kd{k.name, k.typ, k.pre, [3]string{k.v[0], k.v[1], k.v[2]}})
	}
	owners := []string{"param", "local", "result", "blockvar", "forvar"}
	add := func(k kd, form, owner, chain string) {
		g.n["ea"]++
		id := "ea" + fmt.Sprint(g.n["ea"])
		decls, body := c08AddrProgram(id, form, k.typ, k.v, k.pre, owner, chain)
		g.progs = append(g.progs, oracle.Prog{ID: id, Decls: decls,
			Body: "// sig: C08|escaped-addr|" + form + "|" + owner + "@" + chain + "|kind=" + k.name + "\n// case: " + fmt.Sprintf("distance %d", c06ChainDepth(chain)) + "\n" + body})
	}
	forms := []string{"decl", "lit"}
	if g.c.Thorough() {
		for _, k := range kinds {
			for _, ow := range owners {
				for _, ch := range c06Chains(true) {
					add(k, "decl", ow, ch)
				}
				for _, ch := range c06Chains(false) {
					add(k, "lit", ow, ch)
				}
			}
		}
		return
	}
	done := map[string]bool{}
	once := func(k kd, form, ow, ch string) {
		key := k.name + "|" + form + "|" + ow + "|" + ch
		if !done[key] {
			done[key] = true
			add(k, form, ow, ch)
		}
	}
	// kind × distance in full: declared makers (one frame for parameters, results and body: distance == depth of the chain)
	for ki, k := range kinds[:nbasic] {
		for depth := 0; depth <= 4; depth++ {
			chs := c06ExactChainsOfDepth(depth)
			once(k, "decl", owners[(ki+depth)%len(owners)], chs[ki%len(chs)])
		}
	}
	// owner × chain × form in full, the kind rotating
	i := 0
	for _, ow := range owners {
		for _, ch := range c06Chains(false) {
			for _, form := range forms {
				once(kinds[i%len(kinds)], form, ow, ch)
				i++
			}
		}
	}
}
