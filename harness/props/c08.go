package props

// C08 — composite types and builtins. Bounded-exhaustive families of small programs over
// element kinds × containers × boundary indices, twin-executed against compiled Go.
// Every program carries a header "// sig: <narrow class>" (violation signature) and "// case: <detail>".
// Operations that may panic at run time run inside Site(k, func(){...}) (hook of package h) so that the
// panic is recorded by class at that site; programs Go rejects at compile time must be rejected by the
// interpreter before execution (RejectInvalid).

import (
	"fmt"
	"os"
	"strconv"
	"strings"

	"verif/harness/core"
	"verif/harness/oracle"
	"verif/harness/twin"
)

// c08Kind is one element kind of the alphabet.
type c08Kind struct {
	name string
	typ  string
	v    [6]string // six distinct non-zero values (typed where the context could not type them)
	zero string
	pre  string // statements the values need
}

var c08Kinds = []c08Kind{
	{"int8", "int8", [6]string{"int8(-128)", "int8(7)", "int8(127)", "int8(-1)", "int8(64)", "int8(3)"}, "int8(0)", ""},
	{"int", "int", [6]string{"11", "22", "33", "44", "55", "66"}, "0", ""},
	{"string", "string", [6]string{`"a"`, `"bc"`, `"é"`, `"zz"`, `"\x00q"`, `"a longer string"`}, `""`, ""},
	{"float64", "float64", [6]string{"1.5", "-2.25", "0.1", "1e300", "5e-324", "3.0"}, "0.0", ""},
	{"struct", "struct{A int; B string}", [6]string{"struct{A int; B string}{1, \"p\"}", "struct{A int; B string}{2, \"q\"}", "struct{A int; B string}{A: 3}",
		"struct{A int; B string}{B: \"r\"}", "struct{A int; B string}{5, \"t\"}", "struct{A int; B string}{B: \"u\", A: 6}"}, "struct{A int; B string}{}", ""},
	{"array", "[2]int", [6]string{"[2]int{1, 2}", "[2]int{3, 4}", "[2]int{5}", "[2]int{1: 6}", "[2]int{7, 8}", "[2]int{9, 9}"}, "[2]int{}", ""},
	{"ptr", "*int", [6]string{"&x0", "&x1", "&x2", "&x3", "&x4", "&x5"}, "(*int)(nil)",
		"x0, x1, x2, x3, x4, x5 := 100, 200, 300, 400, 500, 600\n_, _, _, _, _, _ = x0, x1, x2, x3, x4, x5\n"},
}

func c08KindByName(n string) *c08Kind {
	for i := range c08Kinds {
		if c08Kinds[i].name == n {
			return &c08Kinds[i]
		}
	}
	panic("no kind " + n)
}

// sub expands $E (type), $Z (zero value), $0..$5 (values) in a template.
func (k *c08Kind) sub(tpl string) string {
	r := strings.NewReplacer("$E", k.typ, "$Z", k.zero, "$0", k.v[0], "$1", k.v[1], "$2", k.v[2], "$3", k.v[3], "$4", k.v[4], "$5", k.v[5])
	return r.Replace(tpl)
}

type c08Gen struct {
	c     *core.Ctx
	progs []oracle.Prog
	n     map[string]int
}

// add appends a program of family fam (short identifier prefix).
func (g *c08Gen) add(fam, sig, detail, body string) {
	g.n[fam]++
	id := fam + strconv.Itoa(g.n[fam])
	g.progs = append(g.progs, oracle.Prog{ID: id, Body: "// sig: C08|" + sig + "\n// case: " + detail + "\n" + body})
}

// addK is add for a template over one element kind.
func (g *c08Gen) addK(k *c08Kind, fam, sig, detail, tpl string) {
	g.add(fam, sig+"|kind="+k.name, detail, k.pre+k.sub(tpl))
}

func c08Sig(p *oracle.Prog, want, got string) string {
	sig := "C08|?"
	b := p.Body
	if strings.HasPrefix(b, "// sig: ") {
		if i := strings.Index(b, "\n"); i > 0 {
			sig = b[len("// sig: "):i]
		}
	}
	if want == "" && !strings.HasPrefix(got, "COMPILE-ERROR") {
		sig = c08RejectSig(sig, got)
	}
	sigLog(sig, p, want, got)
	return sig
}

// c08RejectSig is the signature of a program Go rejects at compile time and the interpreter executed: the class of
// the program (without the element kind; for the index/slice/make families without container and mode) and what
// the interpreter did with it (run-time panic class, or ran to completion).
func c08RejectSig(sig, got string) string {
	if i := strings.Index(sig, "|kind="); i >= 0 {
		sig = sig[:i]
	}
	parts := strings.Split(sig, "|")
	if len(parts) > 1 {
		switch parts[1] {
		case "index", "slice2", "slice3", "make":
			sig = "C08|" + parts[1]
			if parts[1] == "index" && len(parts) > 2 && (strings.HasPrefix(parts[2], "string") || parts[2] == "invalid") {
				sig = strings.Join(parts[:3], "|")
			}
			if parts[1] == "make" && len(parts) > 2 {
				sig = strings.Join(parts[:3], "|")
			}
		}
	}
	out := "runs"
	if i := strings.Index(got, "PANIC("); i >= 0 {
		cl := got[i+6:]
		if j := strings.Index(cl, ")"); j >= 0 {
			cl = cl[:j]
		}
		switch {
		case strings.Contains(cl, "unaddressable"):
			cl = "unaddressable"
		case strings.HasPrefix(cl, "rt:other:"):
			cl = "other"
		}
		out = "panics:" + cl
	}
	return strings.Replace(sig, "C08|", "C08|go-rejects|", 1) + "|" + out
}

// sigLog (debugging aid, VERIF_SIGLOG=1): one line per mismatch on the worker's stdout.
func sigLog(sig string, p *oracle.Prog, want, got string) {
	if os.Getenv("VERIF_SIGLOG") == "" {
		return
	}
	cs := ""
	if i := strings.Index(p.Body, "// case: "); i >= 0 {
		cs = p.Body[i+9:]
		if j := strings.Index(cs, "\n"); j >= 0 {
			cs = cs[:j]
		}
	}
	if len(got) > 200 {
		got = got[:200]
	}
	if len(want) > 200 {
		want = want[:200]
	}
	fmt.Printf("SIG\t%s\t%s\t%s\twant=%q\tgot=%q\n", sig, p.ID, cs, want, got)
}

func c08Programs(c *core.Ctx) []oracle.Prog {
	g := &c08Gen{c: c, n: map[string]int{}}
	g.genIndex()
	g.genSlice()
	g.genAppend()
	g.genCopy()
	g.genMap()
	g.genMake()
	g.genLit()
	g.genValueCopy()
	g.genNil()
	g.genStructPtr()
	g.genLitSeq()
	g.genEscapedAddr()
	g.genReenter()
	if f := os.Getenv("VERIF_C08_FAMILY"); f != "" { // development aid: restrict to the programs whose signature contains f
		var sel []oracle.Prog
		for _, p := range g.progs {
			if i := strings.Index(p.Body, "\n"); i > 0 && strings.Contains(p.Body[:i], f) {
				sel = append(sel, p)
			}
		}
		return sel
	}
	return g.progs
}

func init() {
	registerDiff(&diffSpec{
		ID: "C08",
		Rule: "families index/assign/address (containers × element kinds × i∈{-1,0,len-1,len,cap,cap+1} × const/var), 2- and 3-index slicing over all (lo,hi,max)∈{0..cap+1}^3 × const/var masks, append (prefix × cap limit × count × form, aliasing through the backing array), " +
			"copy (all dst/src offsets and lengths on one array), map scripts (key kind × value kind), make/new (len, cap ∈ {-1,0,2,3} × const/var), composite literals, array value copies, nil dereferences, struct/pointer places; " +
			"literal|seq: every sequence of at most L elements over {positional, key 0..K} (quick K=3 L=3, thorough K=4 L=4) for [K+1]T, [...]T, []T and (shorter in quick) nested / pointer to named slice / struct field / map value literals, plus every ordered subset of three struct fields as a keyed literal; " +
			"reenter: a composite literal (slice, keyed slice, array, &array, map value and key, struct, nested) or append/copy/index site entered again while one of its own operands is evaluated (recursion through the site), three activations with different values × element kind; " +
			"escaped-addr: &v returned from a function, v of the 16 integer-slot kinds and the element kinds × owner {param, local, named result, block variable, for-header variable} × chain of nested frames between owner and & over {block, for, if, switch, range, type switch, select, func literal} (quick: kind × distance 0..4 and owner × chain in full; thorough: full product with all wrapper pairs), three calls of the maker interleaved with a clobbering call; " +
			"element kinds {int8,int,string,float64,struct{A int;B string},[2]int,*int}. Non-trivial = distinct programs whose compiled-Go result contains a run-time panic or at least one non-zero observed value, plus every program Go rejects at compile time",
		Gen:           c08Programs,
		Sig:           c08Sig,
		RejectInvalid: true,
		Runner: func(p *oracle.Prog) twin.Result {
			if strings.HasPrefix(p.Body, "// sig: C08|escaped-addr|") {
				// frames returned to the pool are poisoned (c06_poison_on.go, tag verif): a stale pointer into a recycled
				// frame reads 0xDEADBEEF…; the family also detects recycling without it (clob)
				c06InstallPoison()
				defer c06UninstallPoison()
			}
			return twin.Run(twin.NewFast(), p)
		},
		Key: func(p *oracle.Prog, want string) string {
			if strings.Contains(want, "PANIC") || c08NonZero(want) {
				return p.ID + "|" + want
			}
			return ""
		},
		Assume: []string{"capacities after append beyond the capacity are implementation-defined and are not compared (Onc)",
			"panic messages are compared by class (bounds / nil / nilmap / …), not by text"},
	})
}

// c08NonZero: the result mentions a value other than the zero values of the alphabet.
func c08NonZero(want string) bool {
	toks := strings.FieldsFunc(want, func(r rune) bool { return strings.ContainsRune(" ,[]{}<>&=", r) })
	for _, f := range toks {
		switch f {
		case "int:0", "int8:0", `""`, "float64:0", "nilptr", "nil", "false", "nilmap", "map", "uint8:0":
			continue
		}
		if _, err := strconv.Atoi(f); err == nil {
			continue // site number
		}
		if len(f) > 1 && f[0] == 'c' {
			if _, err := strconv.Atoi(f[1:]); err == nil {
				continue // capacity
			}
		}
		return true
	}
	return false
}

// ---------------------------------------------------------------------------
// helpers shared by the families

func c08Idx(l, cp int) []int {
	var out []int
	seen := map[int]bool{}
	for _, i := range []int{-1, 0, l - 1, l, cp, cp + 1} {
		if !seen[i] {
			seen[i] = true
			out = append(out, i)
		}
	}
	return out
}

// c08IdxMode renders index value i in the given mode; returns (declarations, expression, ok).
func c08IdxMode(mode string, name string, i int) (string, string, bool) {
	switch mode {
	case "lit":
		return "", strconv.Itoa(i), true
	case "var":
		return fmt.Sprintf("%s := %d\n", name, i), name, true
	case "kconst":
		return fmt.Sprintf("const %s = %d\n", name, i), name, true
	case "u8var":
		if i < 0 {
			return "", "", false
		}
		return fmt.Sprintf("var %s uint8 = %d\n", name, i), name, true
	case "i64var":
		return fmt.Sprintf("var %s int64 = %d\n", name, i), name, true
	case "fconst":
		if i < 0 {
			return "", "", false
		}
		return "", fmt.Sprintf("%d.0", i), true
	}
	panic(mode)
}
