package props

// C06 families: call matrix, variadic/ellipsis, named results, recursion.

import (
	"fmt"
	"strings"

	"verif/harness/core"
	"verif/harness/oracle"
)

// c06S is one function signature: parameter kinds and result kinds.
type c06S struct {
	id   string
	P, R []c06K
}

func (s *c06S) params() string {
	var ps []string
	for i, k := range s.P {
		ps = append(ps, fmt.Sprintf("p%d %s", i, k.typ(s.id)))
	}
	return strings.Join(ps, ", ")
}

func (s *c06S) ptypes() string {
	var ps []string
	for _, k := range s.P {
		ps = append(ps, k.typ(s.id))
	}
	return strings.Join(ps, ", ")
}

func (s *c06S) results() string {
	var rs []string
	for _, k := range s.R {
		rs = append(rs, k.typ(s.id))
	}
	switch len(rs) {
	case 0:
		return ""
	case 1:
		return " " + rs[0]
	}
	return " (" + strings.Join(rs, ", ") + ")"
}

func (s *c06S) ftype() string { return "func(" + s.ptypes() + ")" + s.results() }

// body: records which function ran (tag), the receiver digest (if any) and the arguments as received; the results
// depend on every argument and on the tag number.
func (s *c06S) body(tag string, tagno int, recvDig string) string {
	var w cw
	w.f("\tS(%q)", tag)
	var args []string
	if recvDig != "" {
		args = append(args, recvDig)
	}
	d := fmt.Sprint(tagno)
	mul := []int{1, 7, 31, 127}
	for i, k := range s.P {
		args = append(args, fmt.Sprintf("p%d", i))
		d += fmt.Sprintf(" + %s*%d", k.dig(fmt.Sprintf("p%d", i)), mul[i])
	}
	if len(args) > 0 {
		w.f("\tO(%s)", strings.Join(args, ", "))
	}
	if len(s.R) > 0 {
		w.f("\td := %s", d)
		var rs []string
		for i, k := range s.R {
			rs = append(rs, k.from(s.id, fmt.Sprintf("d+%d", i)))
		}
		w.f("\treturn %s", strings.Join(rs, ", "))
	}
	return w.String()
}

func (s *c06S) decl(name, tag string, tagno int) string {
	return fmt.Sprintf("func %s(%s)%s {\n%s}\n", name, s.params(), s.results(), s.body(tag, tagno, ""))
}

func (s *c06S) lit(tag string, tagno int) string {
	return fmt.Sprintf("func(%s)%s {\n%s}", s.params(), s.results(), s.body(tag, tagno, ""))
}

func (s *c06S) method(recv, name, tag string, tagno int, recvDig, extra string) string {
	b := s.body(tag, tagno, recvDig)
	if extra != "" {
		// insert the extra statement (receiver mutation) after the argument record
		lines := strings.SplitAfter(b, "\n")
		k := 1
		if len(s.P) > 0 || recvDig != "" {
			k = 2
		}
		b = strings.Join(lines[:k], "") + "\t" + extra + "\n" + strings.Join(lines[k:], "")
	}
	return fmt.Sprintf("func (%s) %s(%s)%s {\n%s}\n", recv, name, s.params(), s.results(), b)
}

// c06Caller writes calls with the argument variables a0.. (or given argument expressions) and records the results;
// the way the results are consumed alternates (assignment to existing variables / forwarded to the variadic O).
type c06Caller struct {
	s *c06S
	w *cw
	n int
}

func (c *c06Caller) vars() []string {
	var as []string
	for i := range c.s.P {
		as = append(as, fmt.Sprintf("a%d", i))
	}
	return as
}

func (c *c06Caller) declVars(base int) {
	for i, k := range c.s.P {
		c.w.f("a%d := %s", i, k.lit(c.s.id, base+i))
		c.w.f("_ = a%d", i)
	}
	for i, k := range c.s.R {
		c.w.f("var r%d %s", i, k.typ(c.s.id))
		c.w.f("_ = r%d", i)
	}
}

func (c *c06Caller) label(l string) { c.w.f("S(%q)", "@"+l) }

func (c *c06Caller) callWith(callee string, args []string) {
	c.n++
	call := callee + "(" + strings.Join(args, ", ") + ")"
	switch len(c.s.R) {
	case 0:
		c.w.f("%s", call)
	case 1:
		if c.n%2 == 0 {
			c.w.f("O(%s)", call)
		} else {
			c.w.f("r0 = %s", call)
			c.w.f("O(r0)")
		}
	default:
		if c.n%2 == 0 {
			c.w.f("O(%s)", call)
		} else {
			c.w.f("r0, r1 = %s", call)
			c.w.f("O(r0, r1)")
		}
	}
}

func (c *c06Caller) call(callee string, pre ...string) {
	c.callWith(callee, append(append([]string{}, pre...), c.vars()...))
}

// lcall = label + call
func (c *c06Caller) lcall(l, callee string, pre ...string) {
	c.label(l)
	c.call(callee, pre...)
}

var c06CallGroups = []string{"site", "holder", "reassign", "method", "mvcopy", "mexpr", "mexprpv", "forward"}

var c06GroupCode = map[string]string{"site": "si", "holder": "ho", "reassign": "re", "method": "me", "mvcopy": "mv", "mexpr": "mx", "mexprpv": "mp", "forward": "fw"}

func c06CallProgram(group string, P, R []c06K, idx int) (oracle.Prog, bool) {
	id := fmt.Sprintf("c%s%d", c06GroupCode[group], idx)
	s := &c06S{id: id, P: P, R: R}
	basic := "basic"
	for _, k := range append(append([]c06K{}, P...), R...) {
		if k == c06Named || k == c06Struct {
			basic = "generic"
		}
	}
	var d, w cw
	d.f("%s", c06Prelude(id))
	ft := s.ftype()
	F, F2 := "F_"+id, "F2_"+id
	d.f("%s", s.decl(F, "F", 1))
	d.f("%s", s.decl(F2, "F2", 2))
	c := &c06Caller{s: s, w: &w}
	w.f("// call|%s/%s|a%d r%d|%s->%s", group, basic, len(P), len(R), c06Codes(P), c06Codes(R))
	c.declVars(20)
	switch group {
	case "site":
		var cargs, targs []string
		for i, k := range P {
			cargs = append(cargs, k.lit(id, 10+i))
			targs = append(targs, k.tlit(id, 90+i, 40+i))
		}
		c.label("decl-const")
		c.callWith(F, cargs)
		c.lcall("decl-var", F)
		w.f("{\nz := 1\n_ = z")
		c.lcall("decl-block1", F)
		w.f("{\ny := 2\n_ = y")
		c.lcall("decl-block2", F)
		w.f("}\n}")
		w.f("func() {")
		c.lcall("decl-clo1", F)
		w.f("func() {")
		c.lcall("decl-clo2", F)
		w.f("}()\n}()")
		w.f("g := %s", F)
		c.lcall("local-upn0", "g")
		w.f("{\nz := 1\n_ = z")
		c.lcall("local-upn1", "g")
		w.f("{\ny := 2\n_ = y")
		c.lcall("local-upn2", "g")
		w.f("{\nx := 3\n_ = x")
		c.lcall("local-upn3", "g")
		w.f("}\n}\n}")
		w.f("func() {")
		c.lcall("local-clo1", "g")
		w.f("func() {\nv := 4\n_ = v")
		c.lcall("local-clo2", "g")
		w.f("}()\n}()")
		w.f("l := %s", s.lit("lit", 3))
		c.lcall("lit-var", "l")
		c.lcall("lit-imm", "("+s.lit("imm", 4)+")")
		c.label("order")
		c.callWith(F, targs)
		c.callWith("g", targs)
		w.f("for i := 0; i < 2 && Fuel(); i++ {")
		c.lcall("loop-decl", F)
		c.lcall("loop-local", "g")
		w.f("}")
	case "holder":
		d.f("var GV_%s %s", id, ft)
		d.f("var GS_%s []%s", id, ft)
		d.f("type H_%s struct {\n\tf %s\n\tg %s\n}", id, ft, ft)
		d.f("func get_%s(second bool) %s {\n\tif second {\n\t\treturn %s\n\t}\n\treturn %s\n}", id, ft, F2, F)
		w.f("GV_%s = %s", id, F)
		c.lcall("global-var", "GV_"+id)
		w.f("{\nz := 1\n_ = z")
		c.lcall("global-var-block", "GV_"+id)
		w.f("}")
		w.f("func() {")
		c.lcall("global-var-clo", "GV_"+id)
		w.f("}()")
		w.f("fs := []%s{%s, %s}", ft, F, F2)
		c.lcall("slice", "fs[1]")
		c.call("fs[0]")
		w.f("m := map[string]%s{\"a\": %s, \"b\": %s}", ft, F, F2)
		c.lcall("map", "m[\"b\"]")
		w.f("h := H_%s{%s, %s}", id, F, F2)
		c.lcall("field", "h.g")
		w.f("ph := &h")
		c.lcall("field-ptr", "ph.f")
		c.lcall("returned", "get_"+id+"(true)")
		c.call("get_" + id + "(false)")
		w.f("GS_%s = append(GS_%s, %s, %s)", id, id, F2, F)
		c.lcall("global-slice", "GS_"+id+"[0]")
		w.f("var e interface{} = %s", F)
		c.lcall("assert", "e.("+ft+")")
		c.lcall("paren", "("+F+")")
		w.f("arr := [2]%s{%s, %s}", ft, F2, F)
		w.f("for _, fn := range arr {")
		c.lcall("range-var", "fn")
		w.f("}")
	case "reassign":
		d.f("var GV_%s %s", id, ft)
		d.f("func via_%s(%s)%s {\n\tS(\"via\")\n\t%sGV_%s(%s)\n}", id, s.params(), s.results(), map[bool]string{true: "return ", false: ""}[len(R) > 0], id, strings.Join(pnames(len(P)), ", "))
		w.f("for i := 0; i < 3 && Fuel(); i++ {\nif i == 1 {\nGV_%s = %s\n} else {\nGV_%s = %s\n}", id, F2, id, F)
		c.lcall("global-same-site", "GV_"+id)
		w.f("}")
		w.f("GV_%s = %s", id, F)
		c.lcall("via-1", "via_"+id)
		w.f("GV_%s = %s", id, F2)
		c.lcall("via-2", "via_"+id)
		w.f("GV_%s = %s", id, s.lit("lit", 3))
		c.lcall("via-3", "via_"+id)
		w.f("g := %s", F)
		w.f("for i := 0; i < 3 && Fuel(); i++ {\nif i == 1 {\ng = %s\n} else {\ng = %s\n}", F2, F)
		c.lcall("local-same-site", "g")
		w.f("func() {")
		c.lcall("local-same-site-clo", "g")
		w.f("}()")
		w.f("}")
		w.f("hs := []%s{%s, %s, %s}", ft, F, F2, F)
		w.f("for i := 0; i < 3 && Fuel(); i++ {")
		c.lcall("slice-same-site", "hs[i]")
		w.f("}")
	case "method", "mvcopy", "mexpr", "mexprpv":
		T, N := "T_"+id, "N_"+id
		d.f("%s", s.method("t "+T, "M", "T.M", 5, "t.A", ""))
		d.f("%s", s.method("t *"+T, "PM", "T.PM", 6, "t.A", "t.A += 100"))
		d.f("%s", s.method("n "+N, "M", "N.M", 7, "int(n)", ""))
		d.f("type I_%s interface {\n\tM(%s)%s\n}", id, s.ptypes(), s.results())
		w.f("t := %s{5, \"r\"}\npt := &t\nn := %s(6)\n_ = pt\n_ = n", T, N)
		if group == "method" {
			c.lcall("t.M", "t.M")
			c.lcall("pt.M", "pt.M")
			c.lcall("t.PM", "t.PM")
			w.f("O(t.A)")
			c.lcall("pt.PM", "pt.PM")
			w.f("O(t.A)")
			c.lcall("n.M", "n.M")
			c.lcall("lit.M", T+"{7, \"q\"}.M")
			c.lcall("conv.M", N+"(8).M")
			w.f("mv := t.M")
			c.lcall("mv", "mv")
			w.f("pmv := t.PM")
			c.lcall("pmv", "pmv")
			w.f("O(t.A)")
			w.f("nmv := n.M")
			c.lcall("nmv", "nmv")
			w.f("var i I_%s = t", id)
			c.lcall("iface-t", "i.M")
			w.f("im := i.M")
			c.lcall("iface-mv", "im")
			w.f("i = n")
			c.lcall("iface-n", "i.M")
			w.f("i = pt")
			c.lcall("iface-pt", "i.M")
			w.f("func() {")
			c.lcall("clo-t.M", "t.M")
			c.lcall("clo-mv", "mv")
			c.lcall("clo-iface", "i.M")
			w.f("}()")
			w.f("ts := []%s{{1, \"a\"}, {2, \"b\"}}", T)
			w.f("for j := range ts {")
			c.lcall("elem.PM", "ts[j].PM")
			w.f("}\nO(ts[0].A, ts[1].A)")
		} else if group == "mexpr" {
			c.lcall("mexpr", T+".M", "t")
			c.lcall("pmexpr", "(*"+T+").PM", "pt")
			w.f("O(t.A)")
			c.lcall("nmexpr", N+".M", "n")
			w.f("me := %s.M", T)
			c.lcall("mexpr-var", "me", "t")
			w.f("pme := (*%s).PM", T)
			c.lcall("pmexpr-var", "pme", "pt")
			w.f("O(t.A)")
			w.f("var i I_%s = t", id)
			c.lcall("iface-mexpr", "I_"+id+".M", "i")
			w.f("func() {")
			c.lcall("clo-mexpr", T+".M", "t")
			w.f("}()")
		} else if group == "mexprpv" {
			c.lcall("pmexpr-val", "(*"+T+").M", "pt")
			w.f("pv := (*%s).M", T)
			c.lcall("pmexpr-val-var", "pv", "pt")
		} else {
			w.f("mv := t.M\nt.A = 50")
			c.lcall("mv-after-mod", "mv")
			w.f("mv2 := pt.M\npt.A = 60")
			c.lcall("ptr-mv-after-mod", "mv2")
			w.f("pmv := t.PM\nt.A = 70")
			c.lcall("pmv-after-mod", "pmv")
			w.f("O(t.A)")
			w.f("nmv := n.M\nn = 9")
			c.lcall("nmv-after-mod", "nmv")
			w.f("var i I_%s = t\nim := i.M\nn2 := %s(1)\ni = n2", id, N)
			c.lcall("iface-mv-after-mod", "im")
			w.f("t.A = 80\nfunc() {\nmv3 := t.M\nt.A = 81")
			c.lcall("clo-mv-after-mod", "mv3")
			w.f("}()")
			w.f("ts := []%s{{1, \"a\"}, {2, \"b\"}}", T)
			w.f("var mvs []%s", ft)
			w.f("for _, e := range ts {\nmvs = append(mvs, e.M)\n}")
			w.f("for _, f := range mvs {")
			c.lcall("range-mv", "f")
			w.f("}")
			_ = N
		}
	case "forward":
		if len(R) == 0 {
			return oracle.Prog{}, false
		}
		// H takes exactly F's results
		hs := &c06S{id: id, P: R, R: nil}
		hr := &c06S{id: id, P: R, R: R[:1]}
		d.f("%s", hs.decl("H_"+id, "H", 8))
		d.f("%s", hr.decl("HR_"+id, "HR", 9))
		d.f("func VI_%s(xs ...interface{}) {\n\tS(\"VI\")\n\tO(len(xs))\n\tO(xs...)\n}", id)
		uniform := true
		for _, k := range R {
			if k != R[0] {
				uniform = false
			}
		}
		rt := R[0].typ(id)
		if uniform {
			d.f("func V_%s(xs ...%s) {\n\tS(\"V\")\n\tO(len(xs))\n\tfor _, x := range xs {\n\t\tO(x)\n\t}\n}", id, rt)
			d.f("func V1_%s(x0 %s, xs ...%s) int {\n\tS(\"V1\")\n\tO(x0, len(xs))\n\tfor _, x := range xs {\n\t\tO(x)\n\t}\n\treturn len(xs)\n}", id, rt, rt)
		}
		d.f("func wrap_%s(%s)%s {\n\tS(\"wrap\")\n\treturn %s(%s)\n}", id, s.params(), s.results(), F, strings.Join(pnames(len(P)), ", "))
		d.f("%s", hs.method("t T_"+id, "MH", "T.MH", 10, "t.A", ""))
		call := F + "(" + strings.Join(c.vars(), ", ") + ")"
		c.label("fwd")
		w.f("H_%s(%s)", id, call)
		c.label("fwd-ret")
		w.f("O(HR_%s(%s))", id, call)
		c.label("fwd-var")
		w.f("hv := H_%s\nhv(%s)", id, call)
		c.label("fwd-iface-variadic")
		w.f("VI_%s(%s)", id, call)
		if uniform {
			c.label("fwd-variadic")
			w.f("V_%s(%s)", id, call)
			c.label("fwd-variadic1")
			w.f("O(V1_%s(%s))", id, call)
		}
		c.label("fwd-lit")
		w.f("%s(%s)", "("+hs.lit("hlit", 11)+")", call)
		c.label("fwd-method")
		w.f("t := T_%s{5, \"r\"}\nt.MH(%s)", id, call)
		c.label("fwd-mv")
		w.f("mh := t.MH\nmh(%s)", call)
		c.lcall("fwd-return", "wrap_"+id)
		c.label("fwd-clo")
		w.f("func() {\nH_%s(%s)\n}()", id, call)
		c.label("fwd-lit-callee")
		w.f("H_%s(%s(%s))", id, "("+s.lit("flit", 12)+")", strings.Join(c.vars(), ", "))
	}
	return oracle.Prog{ID: id, Decls: d.String(), Body: w.String()}, true
}

func pnames(n int) []string {
	var ps []string
	for i := 0; i < n; i++ {
		ps = append(ps, fmt.Sprintf("p%d", i))
	}
	return ps
}

func c06CallPrograms(c *core.Ctx) []oracle.Prog {
	var progs []oracle.Prog
	idx := 0
	uniform := c.Quick()
	for a := 0; a <= 3; a++ {
		for r := 0; r <= 2; r++ {
			for _, P := range c06Tuples(a, c06Kinds, uniform) {
				for _, R := range c06Tuples(r, c06Kinds, uniform) {
					for _, g := range c06CallGroups {
						idx++
						if p, ok := c06CallProgram(g, P, R, idx); ok {
							progs = append(progs, p)
						}
					}
				}
			}
		}
	}
	if uniform {
		// quick: add the mixed signatures of arity<=2 with <=1 result for the "site" group (specialised stubs by kind pair)
		for a := 1; a <= 2; a++ {
			for r := 0; r <= 1; r++ {
				for _, P := range c06Tuples(a, c06Kinds, false) {
					for _, R := range c06Tuples(r, c06Kinds, false) {
						mixed := false
						for _, k := range append(append([]c06K{}, P...), R...) {
							if k != P[0] {
								mixed = true
							}
						}
						if !mixed {
							continue
						}
						idx++
						if p, ok := c06CallProgram("site", P, R, idx); ok {
							progs = append(progs, p)
						}
					}
				}
			}
		}
	}
	return progs
}

// ---------------------------------------------------------------------------
// variadic / ellipsis

func c06VariadicPrograms(c *core.Ctx) []oracle.Prog {
	var progs []oracle.Prog
	idx := 0
	for fixed := 0; fixed <= 2; fixed++ {
		for _, k := range c06Kinds {
			for nres := 0; nres <= 2; nres++ {
				idx++
				id := fmt.Sprintf("va%d", idx)
				kt := k.typ(id)
				var d, w cw
				d.f("%s", c06Prelude(id))
				w.f("// variadic|fixed%d res%d|%s", fixed, nres, k.name())
				fp, fa := "", ""
				for i := 0; i < fixed; i++ {
					fp += fmt.Sprintf("f%d int, ", i)
					fa += fmt.Sprintf("%d, ", 70+i)
				}
				res := [...]string{"", " int", " (int, " + kt + ")"}[nres]
				body := func(tag string, recv string) string {
					var b cw
					b.f("\tS(%q)", tag)
					args := recv
					for i := 0; i < fixed; i++ {
						args += fmt.Sprintf("f%d, ", i)
					}
					b.f("\tO(%slen(xs))", args)
					b.f("\tfor _, x := range xs {\n\t\tO(x)\n\t}")
					b.f("\tif len(xs) > 0 {\n\t\txs[0] = %s\n\t}", k.lit(id, 99))
					switch nres {
					case 1:
						b.f("\treturn len(xs)")
					case 2:
						b.f("\tif len(xs) > 1 {\n\t\treturn len(xs), xs[1]\n\t}\n\treturn len(xs), %s", k.lit(id, 98))
					}
					return b.String()
				}
				d.f("func V_%s(%sxs ...%s)%s {\n%s}", id, fp, kt, res, body("V", ""))
				d.f("func (t T_%s) MV(%sxs ...%s)%s {\n%s}", id, fp, kt, res, body("T.MV", "t.A, "))
				d.f("func nilcheck_%s(%sxs ...%s) bool {\n\treturn xs == nil\n}", id, fp, kt)
				if fixed+1 <= 2 {
					// pair returns exactly (fixed ints..., one element): forwarded into the variadic
					var rt, rv []string
					for i := 0; i < fixed; i++ {
						rt = append(rt, "int")
						rv = append(rv, fmt.Sprint(60+i))
					}
					rt = append(rt, kt)
					rv = append(rv, k.lit(id, 61))
					d.f("func tuple_%s() (%s) {\n\treturn %s\n}", id, strings.Join(rt, ", "), strings.Join(rv, ", "))
				}
				call := func(label, callee, extra string) {
					w.f("S(%q)", "@"+label)
					a := strings.TrimSuffix(strings.TrimSuffix(fa+extra, " "), ",")
					switch nres {
					case 0:
						w.f("%s(%s)", callee, a)
					default:
						w.f("O(%s(%s))", callee, a)
					}
				}
				V := "V_" + id
				call("extra0", V, "")
				call("extra1", V, k.lit(id, 1))
				call("extra2", V, k.lit(id, 1)+", "+k.lit(id, 2))
				call("extra3", V, k.lit(id, 1)+", "+k.lit(id, 2)+", "+k.lit(id, 3))
				call("nil-ellipsis", V, "nil...")
				w.f("sl := []%s{%s, %s}", kt, k.lit(id, 4), k.lit(id, 5))
				call("slice-ellipsis", V, "sl...")
				w.f("O(sl[0], sl[1])")
				call("lit-ellipsis", V, fmt.Sprintf("[]%s{%s}...", kt, k.lit(id, 6)))
				w.f("var ns []%s", kt)
				call("nilvar-ellipsis", V, "ns...")
				call("subslice-ellipsis", V, "sl[1:]...")
				w.f("O(sl[0], sl[1])")
				w.f("x1, x2 := %s, %s", k.lit(id, 7), k.lit(id, 8))
				call("vars-not-aliased", V, "x1, x2")
				w.f("O(x1, x2)")
				w.f("g := %s", V)
				call("local-var", "g", k.lit(id, 1)+", "+k.lit(id, 2))
				call("local-var-ellipsis", "g", "sl...")
				w.f("t := T_%s{3, \"m\"}", id)
				call("method", "t.MV", k.lit(id, 1))
				call("method-ellipsis", "t.MV", "sl...")
				w.f("mv := t.MV")
				call("method-value", "mv", k.lit(id, 1)+", "+k.lit(id, 2))
				w.f("func() {")
				call("closure", V, k.lit(id, 1))
				call("closure-ellipsis", V, "sl...")
				w.f("}()")
				if fixed+1 <= 2 {
					w.f("S(\"@forward-tuple\")")
					if nres == 0 {
						w.f("%s(tuple_%s())", V, id)
					} else {
						w.f("O(%s(tuple_%s()))", V, id)
					}
				}
				w.f("S(\"@nil-when-no-extra\")")
				w.f("O(nilcheck_%s(%s))", id, strings.TrimSuffix(fa, ", "))
				w.f("O(nilcheck_%s(%s))", id, fa+k.lit(id, 1))
				progs = append(progs, oracle.Prog{ID: id, Decls: d.String(), Body: w.String()})
			}
		}
	}
	return progs
}

// ---------------------------------------------------------------------------
// named results

func c06NamedResultPrograms(c *core.Ctx) []oracle.Prog {
	var progs []oracle.Prog
	idx := 0
	for nres := 1; nres <= 2; nres++ {
		for _, R := range c06Tuples(nres, c06Kinds, false) {
			idx++
			id := fmt.Sprintf("nr%d", idx)
			var d, w cw
			d.f("%s", c06Prelude(id))
			w.f("// named|res%d|%s", nres, c06Codes(R))
			var rdecl, rnames, lits, lits2 []string
			for i, k := range R {
				rdecl = append(rdecl, fmt.Sprintf("r%d %s", i, k.typ(id)))
				rnames = append(rnames, fmt.Sprintf("r%d", i))
				lits = append(lits, k.lit(id, 30+i))
				lits2 = append(lits2, k.lit(id, 40+i))
			}
			rd := "(" + strings.Join(rdecl, ", ") + ")"
			rn := strings.Join(rnames, ", ")
			set := func(ls []string) string {
				var ss []string
				for i := range R {
					ss = append(ss, fmt.Sprintf("r%d = %s", i, ls[i]))
				}
				return strings.Join(ss, "\n\t")
			}
			nexts := func() string {
				var ss []string
				for i, k := range R {
					ss = append(ss, k.next(fmt.Sprintf("r%d", i)))
				}
				return strings.Join(ss, "\n\t\t")
			}
			// zero: bare return of untouched results
			d.f("func zero_%s() %s {\n\treturn\n}", id, rd)
			// bare: assign then bare return
			d.f("func bare_%s() %s {\n\t%s\n\treturn\n}", id, rd, set(lits))
			// expl: assign, then return explicit other values
			d.f("func expl_%s() %s {\n\t%s\n\treturn %s\n}", id, rd, set(lits), strings.Join(lits2, ", "))
			// cond: early bare return inside nested block with a local
			d.f("func cond_%s(b bool) %s {\n\t%s\n\tif b {\n\t\tz := 1\n\t\t_ = z\n\t\t%s\n\t\treturn\n\t}\n\treturn %s\n}", id, rd, set(lits), nexts(), strings.Join(lits2, ", "))
			// clo: results captured and modified by a closure called before returning
			d.f("func clo_%s() %s {\n\t%s\n\tf := func() {\n\t\t%s\n\t}\n\tf()\n\tf()\n\treturn\n}", id, rd, set(lits), nexts())
			// self: results used as operands of the return expression (evaluated before assignment)
			d.f("func swap_%s() %s {\n\t%s\n\treturn %s\n}", id, rd, set(lits), strings.Join(reverse(rnames, R), ", "))
			// rec: recursion with named results, each level has its own results
			d.f("func rec_%s(n int) %s {\n\t%s\n\tif n > 0 {\n\t\t%s = rec_%s(n - 1)\n\t\t%s\n\t}\n\treturn\n}", id, rd, set(lits), rn, id, nexts())
			// ptr: address of a named result escapes into a global, value must survive later calls
			d.f("var gp_%s *%s", id, R[0].typ(id))
			d.f("func ptr_%s() %s {\n\t%s\n\tgp_%s = &r0\n\treturn\n}", id, rd, set(lits), id)
			// fwd: return f() with named results
			d.f("func fwd_%s() %s {\n\treturn expl_%s()\n}", id, rd, id)
			for _, f := range []string{"zero", "bare", "expl", "clo", "swap", "fwd"} {
				w.f("S(\"@%s\")\nO(%s_%s())", f, f, id)
			}
			w.f("S(\"@cond\")\nO(cond_%s(true))\nO(cond_%s(false))", id, id)
			w.f("S(\"@rec\")\nO(rec_%s(3))\nO(rec_%s(40))", id, id)
			w.f("S(\"@ptr\")\nO(ptr_%s())\nO(rec_%s(35))\nO(*gp_%s)", id, id, id)
			w.f("%s\nO(*gp_%s)\nO(bare_%s())", R[0].next("*gp_"+id), id, id)
			w.f("S(\"@assign\")")
			w.f("%s := bare_%s()\nO(%s)", strings.Join(vnames("v", nres), ", "), id, strings.Join(vnames("v", nres), ", "))
			w.f("%s = expl_%s()\nO(%s)", strings.Join(vnames("v", nres), ", "), id, strings.Join(vnames("v", nres), ", "))
			progs = append(progs, oracle.Prog{ID: id, Decls: d.String(), Body: w.String()})
		}
	}
	return progs
}

func vnames(p string, n int) []string {
	var vs []string
	for i := 0; i < n; i++ {
		vs = append(vs, fmt.Sprintf("%s%d", p, i))
	}
	return vs
}

// reverse returns the names reversed when the kinds allow it (same kinds), otherwise unchanged.
func reverse(names []string, R []c06K) []string {
	if len(names) == 2 && R[0] == R[1] {
		return []string{names[1], names[0]}
	}
	return names
}

// ---------------------------------------------------------------------------
// recursion around the pool capacity

var c06Depths = []int{1, 31, 32, 33, 70}

func c06RecursionPrograms(c *core.Ctx) []oracle.Prog {
	var progs []oracle.Prog
	idx := 0
	shapes := []string{"linear", "closures", "ptr-down", "funcvar", "method", "two-calls", "nested-blocks"}
	for _, k := range c06Kinds {
		for _, sh := range shapes {
			for _, depth := range c06Depths {
				idx++
				id := fmt.Sprintf("re%d", idx)
				kt := k.typ(id)
				var d, w cw
				d.f("%s", c06Prelude(id))
				w.f("// recursion|%s|%s|depth%d", sh, k.name(), depth)
				mk := func(e string) string { return k.from(id, e) }
				switch sh {
				case "linear":
					// locals of both slot classes set before the recursive call and verified after it
					d.f("func R_%s(n int, p %s) int {\n\ta := n*3 + 1\n\tv := %s\n\tif n <= 0 {\n\t\treturn %s\n\t}\n\tr := R_%s(n-1, v)\n\tif a != n*3+1 {\n\t\tS(\"corrupt\")\n\t\tO(n, a, v)\n\t}\n\treturn r + a + %s + %s\n}",
						id, kt, mk("n"), k.dig("p"), id, k.dig("v"), k.dig("p"))
					w.f("O(R_%s(%d, %s))\nO(R_%s(%d, %s))", id, depth, mk("1"), id, depth, mk("2"))
				case "closures":
					// every level appends a closure capturing its own locals; all are invoked after unwinding
					d.f("var fs_%s []func() %s", id, kt)
					d.f("func R_%s(n int) {\n\tv := %s\n\tfs_%s = append(fs_%s, func() %s {\n\t\told := v\n\t\t%s\n\t\treturn old\n\t})\n\tif n > 0 {\n\t\tR_%s(n - 1)\n\t}\n}", id, mk("n"), id, id, kt, k.next("v"), id)
					w.f("R_%s(%d)\nR_%s(2)", id, depth, id)
					w.f("for round := 0; round < 2; round++ {\nfor _, f := range fs_%s {\nO(f())\n}\n}", id)
				case "ptr-down":
					// each level passes the address of its local down; the deepest level writes through all of them
					d.f("var ps_%s []*%s", id, kt)
					d.f("func R_%s(n int) int {\n\tv := %s\n\tc := n\n\tps_%s = append(ps_%s, &v)\n\tpc := &c\n\tif n > 0 {\n\t\tR_%s(n - 1)\n\t} else {\n\t\tfor _, p := range ps_%s {\n\t\t\t%s\n\t\t}\n\t}\n\t*pc += 1000\n\tO(v, c)\n\treturn c\n}", id, mk("n"), id, id, id, id, k.next("*p"))
					w.f("O(R_%s(%d))\nO(R_%s(1))\nfor _, p := range ps_%s {\nO(*p)\n}", id, depth, id, id)
				case "funcvar":
					// recursion through a local function variable (closure calling itself)
					w.f("var rec func(n int, p %s) int", kt)
					w.f("rec = func(n int, p %s) int {\n\ta := n + 7\n\tv := %s\n\tif n <= 0 {\n\t\treturn %s\n\t}\n\tr := rec(n-1, v)\n\tif a != n+7 {\n\t\tS(\"corrupt\")\n\t}\n\treturn r + a + %s\n}", kt, mk("n"), k.dig("p"), k.dig("v"))
					w.f("O(rec(%d, %s))\nO(rec(%d, %s))", depth, mk("1"), depth, mk("3"))
				case "method":
					d.f("func (t *T_%s) R(n int, p %s) int {\n\ta := n*2 + t.A\n\tv := p\n\tt.A++\n\tif n <= 0 {\n\t\treturn %s\n\t}\n\tr := t.R(n-1, %s)\n\treturn r + a + %s\n}", id, kt, k.dig("v"), mk("n"), k.dig("v"))
					w.f("t := &T_%s{1, \"m\"}\nO(t.R(%d, %s))\nmv := t.R\nO(mv(%d, %s))\nO(t.A)", id, depth, mk("1"), depth, mk("2"))
				case "two-calls":
					// two recursive calls per level at the bottom levels only (bounded work), locals live across both
					d.f("func R_%s(n int, p %s) int {\n\ta := n + 11\n\tv := p\n\tif n <= 0 {\n\t\treturn 1\n\t}\n\tr := R_%s(n-1, %s)\n\tif n <= 3 {\n\t\tr += R_%s(n-1, v)\n\t}\n\tif a != n+11 {\n\t\tS(\"corrupt\")\n\t}\n\treturn r + %s\n}", id, kt, id, mk("n"), id, k.dig("v"))
					w.f("O(R_%s(%d, %s))", id, depth, mk("2"))
				case "nested-blocks":
					// the recursive call is made from a nested block frame with its own locals
					d.f("func R_%s(n int, p %s) int {\n\ta := n + 13\n\tr := 0\n\t{\n\t\tb := n + 17\n\t\tv := p\n\t\tfor i := 0; i < 1 && Fuel(); i++ {\n\t\t\tw := %s\n\t\t\tif n > 0 {\n\t\t\t\tr = R_%s(n-1, w)\n\t\t\t}\n\t\t\tr += %s\n\t\t}\n\t\tr += b - n + %s\n\t}\n\treturn r + a - n\n}", id, kt, mk("n"), id, k.dig("w"), k.dig("v"))
					w.f("O(R_%s(%d, %s))", id, depth, mk("2"))
				}
				progs = append(progs, oracle.Prog{ID: id, Decls: d.String(), Body: w.String()})
			}
		}
	}
	return progs
}
