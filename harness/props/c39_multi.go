package props

// C39, second part of the corpus and of the driver:
//
//  1. invocation shapes. The command processes a LIST of file and directory arguments with one interpreter
//     (cmd.Main loops over the arguments, EvalDir over the *.gomacro files of a directory) and its collected
//     imports / declarations / statements / package name live in the shared Globals: what is written for the
//     k-th source must not depend on the sources processed before it. Packages g… are preprocessed in groups:
//     2 or 3 file arguments, a directory with 2 or 3 files, file+directory mixes, a macro source before / after
//     a macro-free one — × rotations of the import shapes so that consecutive sources have different imports.
//  2. sources whose ':'-prefixed (force-evaluated) chunks are statements and expressions, not only declarations:
//     they run at preprocessing time (a macro reads the state they build) and nothing of them is written.

import (
	"bytes"
	"fmt"
	"io/ioutil"
	"os"
	"path/filepath"
	"sort"
	"strings"

	"github.com/cosmos72/gomacro/cmd"

	"verif/harness/core"
)

// c39Inv is one invocation of the command with several arguments.
type c39Inv struct {
	Name  string     `json:"name"`
	Shape string     `json:"shape"`
	Args  [][]string `json:"args"` // package names per argument
	IsDir []bool     `json:"is_dir"`
}

// c39InvCase is the replayable form: the sources of all members.
type c39InvCase struct {
	Inv  c39Inv   `json:"invocation"`
	Pkgs []c39Pkg `json:"packages"`
}

var c39InvList []c39Inv

type c39Shape struct {
	name string
	args []int // number of files per argument; 0 = a single file argument, n>0 = a directory with n files
	// macro[i]: the i-th member (in processing order) is a macro-using source
	macro map[int]bool
}

var c39Shapes = []c39Shape{
	{"files2", []int{0, 0}, nil},
	{"files3", []int{0, 0, 0}, nil},
	{"dir2", []int{2}, nil},
	{"dir3", []int{3}, nil},
	{"file+dir2", []int{0, 2}, nil},
	{"dir2+file", []int{2, 0}, nil},
	{"dir2+dir2", []int{2, 2}, nil},
	{"macrofile+file", []int{0, 0}, map[int]bool{0: true}},
	{"file+macrofile+file", []int{0, 0, 0}, map[int]bool{1: true}},
	{"dir(macro,plain)", []int{2}, map[int]bool{0: true}},
}

// c39GroupCorpus appends the members of the multi-argument invocations to pkgs.
func c39GroupCorpus(c *core.Ctx, bodies []string) []c39Pkg {
	c39InvList = nil
	var pkgs []c39Pkg
	k := 0
	nf := len(c39Forms)
	rot := 4
	for si, sh := range c39Shapes {
		for r := 0; r < rot; r++ {
			if c.Quick() && sh.macro != nil && r > 1 {
				continue
			}
			inv := c39Inv{Name: fmt.Sprintf("inv%d_%d", si, r), Shape: sh.name}
			pos := 0
			prevKind := ""
			for _, nfiles := range sh.args {
				n := nfiles
				if n == 0 {
					n = 1
				}
				var names []string
				for j := 0; j < n; j++ {
					// fixed-width names: the order of the files of a directory is the order of their names
					name := fmt.Sprintf("g%04d", k)
					var p c39Pkg
					if sh.macro[pos] {
						mc := c39Macros[(si+r+pos)%len(c39Macros)]
						args := mc.args[(r+pos)%len(mc.args)]
						p = c39MacroPkg(name, mc, args, c39Wraps[(r+pos)%len(c39Wraps)])
					} else {
						// consecutive members differ in import shape, in the imported packages and in the declaration forms
						shape := r + pos
						forms := []int{(k*7 + 1) % nf, (k*11 + 5) % nf}
						if pos%2 == 1 {
							forms = append(forms, c39FormIndex("strings-renamed-import")) // an import the neighbours do not have
						}
						seen := map[int]bool{}
						var uniq []int
						var fnames []string
						for _, f := range forms {
							if !seen[f] {
								seen[f] = true
								uniq = append(uniq, f)
								fnames = append(fnames, c39Forms[f].name)
							}
						}
						var bs []string
						if len(bodies) > 0 {
							bs = []string{bodies[(k*37)%len(bodies)]}
						}
						src := c39Render(name, shape, uniq, bs, nil)
						p = c39Pkg{Name: name, Src: src, Ref: src, Class: strings.Join(fnames, "+")}
					}
					// the mechanism class of the member: what was processed before it by the same interpreter
					switch {
					case pos == 0:
						p.Inv = "first-source"
					case nfiles > 0 && j > 0:
						p.Inv = "dir-sibling" // EvalDir -> EvalFile, no return to Main in between
					case nfiles > 0:
						p.Inv = "dir-head-after-" + prevKind
					default:
						p.Inv = "file-after-" + prevKind
					}
					p.InvShape = fmt.Sprintf("%s#%d", sh.name, pos)
					p.InvName = inv.Name
					pkgs = append(pkgs, p)
					names = append(names, name)
					k++
					pos++
				}
				inv.Args = append(inv.Args, names)
				inv.IsDir = append(inv.IsDir, nfiles > 0)
				if prevKind = "file"; nfiles > 0 {
					prevKind = "dir"
				}
			}
			c39InvList = append(c39InvList, inv)
		}
	}
	return pkgs
}

// c39InvCaseOf returns the replayable invocation of a group member (nil for a package preprocessed alone).
func c39InvCaseOf(p *c39Pkg, byName map[string]*c39Pkg) *c39InvCase {
	if p.InvName == "" {
		return nil
	}
	for i := range c39InvList {
		inv := &c39InvList[i]
		if inv.Name != p.InvName {
			continue
		}
		ic := &c39InvCase{Inv: *inv}
		for _, names := range inv.Args {
			for _, n := range names {
				if q := byName[n]; q != nil {
					ic.Pkgs = append(ic.Pkgs, *q)
				}
			}
		}
		return ic
	}
	return nil
}

func c39FormIndex(name string) int {
	for i := range c39Forms {
		if c39Forms[i].name == name {
			return i
		}
	}
	panic("C39: no declaration form " + name)
}

// c39RunInvocation writes the sources of one invocation under dir/<inv.Name>/a<i>/, runs the command ONCE on all
// arguments and returns the written files by package name ("" = none) and the messages printed.
func c39RunInvocation(dir string, inv *c39Inv, byName map[string]*c39Pkg) (outs map[string]string, msgs string, err error) {
	idir := filepath.Join(dir, inv.Name)
	os.RemoveAll(idir)
	args := []string{"-m", "-w", "-f"}
	where := map[string]string{}
	for i, names := range inv.Args {
		adir := filepath.Join(idir, fmt.Sprintf("a%d", i))
		if err := os.MkdirAll(adir, 0o755); err != nil {
			return nil, "", err
		}
		for _, n := range names {
			p := byName[n]
			if p == nil {
				return nil, "", fmt.Errorf("C39: invocation %s refers to unknown package %s", inv.Name, n)
			}
			in := filepath.Join(adir, n+".gomacro")
			if err := ioutil.WriteFile(in, []byte(p.Src), 0o644); err != nil {
				return nil, "", err
			}
			where[n] = filepath.Join(adir, n+".go")
			if !inv.IsDir[i] {
				args = append(args, in)
			}
		}
		if inv.IsDir[i] {
			args = append(args, adir)
		}
	}
	var buf bytes.Buffer
	cm := cmd.New()
	g := &cm.Interp.Comp.Globals
	g.Stdout = &buf
	g.Stderr = &buf
	var rec interface{}
	func() {
		defer func() { rec = recover() }()
		err = cm.Main(args)
	}()
	if rec != nil {
		return nil, buf.String(), fmt.Errorf("gomacro command panicked: %v", rec)
	}
	if err != nil {
		return nil, buf.String(), err
	}
	outs = map[string]string{}
	for n, f := range where {
		data, rerr := ioutil.ReadFile(f)
		if rerr == nil {
			outs[n] = string(data)
		} else {
			outs[n] = ""
		}
	}
	return outs, buf.String(), nil
}

// c39OneInvocation preprocesses one multi-argument invocation, checks every member statically and leaves the outputs
// where Finish expects them (dir/<name>/<name>.go). only != "": report only that member (replay).
func c39OneInvocation(c *core.Ctx, dir string, inv *c39Inv, byName map[string]*c39Pkg, only string) map[string]string {
	var members []c39Pkg
	var order []string
	for _, names := range inv.Args {
		sorted := append([]string{}, names...)
		sort.Strings(sorted)
		for _, n := range sorted {
			order = append(order, n)
			if p := byName[n]; p != nil {
				members = append(members, *p)
			}
		}
	}
	invCase := &c39InvCase{Inv: *inv, Pkgs: members}
	outs, msgs, err := c39RunInvocation(dir, inv, byName)
	res := map[string]string{}
	for _, n := range order {
		p := byName[n]
		if only != "" && n != only {
			continue
		}
		c.Eval(1)
		cas := c39Case{Pkg: *p, Inv: invCase}
		if err != nil {
			c.Violation("C39|command-failed|"+p.sigClass(), fmt.Sprintf("gomacro -m -w -f <%s: %v> failed: %v\nmessages: %s", inv.Shape, inv.Args, err, msgs), cas)
			continue
		}
		out := outs[n]
		cas.Output = out
		if out == "" {
			c.Violation("C39|no-output|"+p.sigClass(), fmt.Sprintf("gomacro -m -w -f <%s: %v> wrote no %s.go; messages: %s\n%s", inv.Shape, inv.Args, n, msgs, p.Src), cas)
			continue
		}
		for _, d := range c39Static(p, out) {
			c.Violation("C39|"+d[0]+"|"+p.sigClass(), fmt.Sprintf("package %s (%s), member %s of one invocation with arguments %v: %s\nmessages: %s\n--- written\n%s", p.Name, p.Class, p.InvShape+" ("+p.Inv+")", inv.Args, d[1], strings.TrimSpace(msgs), out), cas)
		}
		pdir := filepath.Join(dir, n)
		os.MkdirAll(pdir, 0o755)
		ioutil.WriteFile(filepath.Join(pdir, n+".go"), []byte(out), 0o644)
		res[n] = out
	}
	os.RemoveAll(filepath.Join(dir, inv.Name))
	return res
}

// ---------------------------------------------------------------------------------------------
// force-evaluated chunks that are statements / expressions

// c39Chunk is one ':' chunk of the alphabet: its source text and its effect on the preprocessing-time state.
type c39Chunk struct {
	name string
	src  string
	eff  func(st *c39State)
}

// c39State is the reference model of the preprocessing-time state built by the chunks.
type c39State struct {
	tab         []int
	base, other int
}

var c39Chunks = []c39Chunk{
	{"for3", ":for i := 0; i < 4; i++ {\n\ttab = append(tab, i*i+base)\n}", func(st *c39State) {
		for i := 0; i < 4; i++ {
			st.tab = append(st.tab, i*i+st.base)
		}
	}},
	{"assign", ":base = 10", func(st *c39State) { st.base = 10 }},
	{"incdec", ":base++", func(st *c39State) { st.base++ }},
	{"opassign", ":base += 5", func(st *c39State) { st.base += 5 }},
	{"if", ":if len(tab) > 2 {\n\tbase *= 3\n} else {\n\tbase -= 2\n}", func(st *c39State) {
		if len(st.tab) > 2 {
			st.base *= 3
		} else {
			st.base -= 2
		}
	}},
	{"append", ":tab = append(tab, 70+len(tab))", func(st *c39State) { st.tab = append(st.tab, 70+len(st.tab)) }},
	{"call", ":fill(2)", func(st *c39State) {
		for i := 0; i < 2; i++ {
			st.tab = append(st.tab, 40+i)
		}
	}},
	{"range", ":for i, v := range tab {\n\ttab[i] = v + 1\n\tbase += v\n}", func(st *c39State) {
		for i, v := range st.tab {
			st.tab[i] = v + 1
			st.base += v
		}
	}},
	{"switch", ":switch {\ncase base > 9:\n\ttab = append(tab, 1)\ndefault:\n\ttab = append(tab, 2)\n}", func(st *c39State) {
		if st.base > 9 {
			st.tab = append(st.tab, 1)
		} else {
			st.tab = append(st.tab, 2)
		}
	}},
	{"block", ":{\n\tt := base\n\tbase = len(tab)\n\ttab = append(tab, t)\n}", func(st *c39State) {
		t := st.base
		st.base = len(st.tab)
		st.tab = append(st.tab, t)
	}},
	{"expr", ":len(tab) + base", func(st *c39State) {}},
	{"define", ":extra := base + 100\n\n:tab = append(tab, extra)", func(st *c39State) { st.tab = append(st.tab, st.base+100) }},
	{"multi-assign", ":base, other = other, base+1", func(st *c39State) { st.base, st.other = st.other, st.base+1 }},
}

// c39Lookup is the expansion of `look; k`: the literal tab[k%len(tab)]*1000 + base (0 for an empty table).
func (st *c39State) lookup(k int) int {
	if len(st.tab) == 0 {
		return st.base
	}
	return st.tab[k%len(st.tab)]*1000 + st.base
}

const c39ForcePrelude = `:import (
	"go/ast"
	"go/token"
	"strconv"
)

:var tab []int

:var base, other = 1, 7

:func fill(n int) {
	for i := 0; i < n; i++ {
		tab = append(tab, 40+i)
	}
}

:macro look(arg ast.Node) ast.Node {
	if stmt, ok := arg.(*ast.ExprStmt); ok {
		arg = stmt.X
	}
	k, _ := strconv.Atoi(arg.(*ast.BasicLit).Value)
	v := base
	if len(tab) != 0 {
		v = tab[k%len(tab)]*1000 + base
	}
	lit := &ast.BasicLit{Kind: token.INT, Value: strconv.Itoa(v)}
	return ~"{O(~,lit)}
}

`

// c39ForceCorpus: every sequence of at most L chunks (quick 2 over a 7-chunk core alphabet + every single chunk,
// thorough 2 over the full alphabet and 3 over the core) placed before the first use of the macro, and every single
// chunk placed BETWEEN two functions that use the macro (the second sees the new state).
func c39ForceCorpus(c *core.Ctx, k0 int) []c39Pkg {
	var pkgs []c39Pkg
	k := k0
	head := func(name string) (string, string) {
		return "package " + name + "\n\n", "import (\n\t. \"orc/h\"\n)\n\n"
	}
	add := func(class string, before []int, between []int) {
		name := fmt.Sprintf("m%d", k)
		k++
		st := &c39State{base: 1, other: 7}
		var src strings.Builder
		pk, imports := head(name)
		src.WriteString(pk + imports + c39ForcePrelude)
		for _, ci := range before {
			src.WriteString(c39Chunks[ci].src + "\n\n")
			c39Chunks[ci].eff(st)
		}
		p0 := "func P0() {\n\tlook; 1\n\tlook; 2\n\tS(\"p0\")\n}\n\n"
		r0 := fmt.Sprintf("func P0() {\n\tO(%d)\n\tO(%d)\n\tS(\"p0\")\n}\n\n", st.lookup(1), st.lookup(2))
		src.WriteString(p0)
		ref := pk + imports + r0
		run := "func Run() string { return Exec(P0) }\n"
		if between != nil {
			// a package-level variable between the two uses: declarations around forced chunks keep their order
			src.WriteString("var mid = 3\n\n")
			ref += "var mid = 3\n\n"
			for _, ci := range between {
				src.WriteString(c39Chunks[ci].src + "\n\n")
				c39Chunks[ci].eff(st)
			}
			src.WriteString("func P1() {\n\tlook; 0\n\tlook; 3\n\tO(mid)\n}\n\n")
			ref += fmt.Sprintf("func P1() {\n\tO(%d)\n\tO(%d)\n\tO(mid)\n}\n\n", st.lookup(0), st.lookup(3))
			run = "func Run() string { return Exec(P0) + \"|\" + Exec(P1) }\n"
		}
		src.WriteString(run)
		ref += run
		pkgs = append(pkgs, c39Pkg{Name: name, Src: src.String(), Ref: ref, Macro: true, Class: "macro-forced-" + class})
	}
	names := func(seq []int) string {
		var out []string
		for _, ci := range seq {
			out = append(out, c39Chunks[ci].name)
		}
		return strings.Join(out, ",")
	}
	all := len(c39Chunks)
	core := 7
	add("none", nil, nil)
	for i := 0; i < all; i++ {
		add("before:"+names([]int{i}), []int{i}, nil)
		add("between:"+names([]int{i}), []int{0}, []int{i})
	}
	n2 := c.Pick(core, all)
	for i := 0; i < n2; i++ {
		for j := 0; j < n2; j++ {
			add("before:"+names([]int{i, j}), []int{i, j}, nil)
		}
	}
	if c.Thorough() {
		for i := 0; i < core; i++ {
			for j := 0; j < core; j++ {
				for l := 0; l < core; l++ {
					add("before:"+names([]int{i, j, l}), []int{i, j, l}, nil)
				}
				add("between:"+names([]int{i, j}), []int{0}, []int{i, j})
			}
		}
	}
	return pkgs
}
