package props

// C25 — printing a syntax tree with the forked printer and reparsing it yields the same tree, and
// printing the reparsed tree yields the same text.
//
// Parts (all in worker processes, the macro parts need an interpreter):
//   A  every corpus file (forked parser, valid, no type parameters): the top-level node list is
//      printed as a file (package clause + declarations) with gomacro's printer configuration;
//      the text is reparsed with the *standard* go/parser (must succeed; independent reference)
//      and with the forked parser; each reparsed declaration must be structurally identical to
//      the original one; printing the fork-reparsed tree must give the same text.
//   S  every top-level declaration and every statement directly inside a function body goes through
//      base/output.Stringer (the interpreter's node pretty-printer), is reparsed with the forked parser
//      and compared with the original node.
//   X  every adjacent operator pair (binary×unary, unary×unary) through Stringer and back
//   B  every corpus declaration after MacroExpandCodewalk (a tree built by the macro machinery from
//      a valid tree): Stringer → forked parser → identical tree; reprint identical.
//   C  every expansion produced by the C20 macro programs; D every tree produced by the C21 templates
//      (in both interpreters): Stringer → forked parser → identical tree; reprint identical.
//
// Structural identity for this property (normalisation N25, applied to both sides):
//   * positions ignored, except the flag positions CallExpr.Ellipsis / TypeSpec.Assign / GenDecl.Lparen (validity)
//   * ParenExpr is transparent: go/printer documents that it strips redundant parentheses and adds the
//     ones required by precedence; grouping is encoded by the tree shape, which is compared
//   * EmptyStmt elements of statement lists are transparent (go/printer drops them: "ignore empty statements")
//   * Obj/Scope/comments/Unresolved ignored (see c22_ast.go)

import (
	"bytes"
	"encoding/json"
	"fmt"
	"go/ast"
	stdparser "go/parser"
	"go/token"
	"os"
	"strings"
	"time"

	"github.com/cosmos72/gomacro/base/output"
	"github.com/cosmos72/gomacro/go/etoken"
	"github.com/cosmos72/gomacro/go/printer"

	"verif/harness/core"
)

func init() {
	core.Register(&core.Check{ID: "C25", Level: "exploration", Workers: -1, Run: c25Run, Replay: c25Replay})
}

var c25Config = printer.Config{Mode: printer.UseSpaces | printer.TabIndent, Tabwidth: 8} // the configuration base/output uses

var c25Eq = &eqOpts{Pos: posFlags, StripParens: true, DropEmpty: true, Norm: c25Norm}

// c25Norm: go/printer prints an else branch that is neither a block nor an if statement (macro expansion
// unwraps one-statement blocks) inside braces ("permit it but print so that it can be parsed without errors"):
// "else s" and "else { s }" are the same tree for this property.
func c25Norm(n ast.Node) ast.Node {
	if x, ok := n.(*ast.IfStmt); ok && x != nil && x.Else != nil {
		if e, ok := x.Else.(*ast.BlockStmt); ok {
			var real []ast.Stmt
			for _, s := range e.List {
				if _, isEmpty := s.(*ast.EmptyStmt); !isEmpty {
					real = append(real, s)
				}
			}
			switch len(real) {
			case 0:
				c := *x
				c.Else = &ast.EmptyStmt{}
				return &c
			case 1:
				if _, isDecl := real[0].(*ast.DeclStmt); !isDecl {
					c := *x
					c.Else = real[0]
					return &c
				}
			}
		}
	}
	return n
}

type c25Case struct {
	Part  string `json:"part"`
	File  string `json:"file,omitempty"`
	Index int    `json:"index"`         // declaration index (A,S,B) / program index (C,D)
	Sub   int    `json:"sub,omitempty"` // S: statement index inside the function body, -1 = the declaration itself
	Src   string `json:"src,omitempty"`
	Text  string `json:"printed,omitempty"`
}

func c25Print(fset *token.FileSet, node interface{}) (string, error) {
	return c25PrintCfg(&c25Config, fset, node)
}

func c25PrintCfg(cfg *printer.Config, fset *token.FileSet, node interface{}) (string, error) {
	var buf bytes.Buffer
	var err error
	if p := core.Catch(func() { err = cfg.Fprint(&buf, fset, node) }); p != nil {
		return "", fmt.Errorf("printer panics: %v", p)
	}
	return buf.String(), err
}

// c25FileOf assembles the node list returned by the forked parser into an *ast.File (nil if the
// list is not "package clause followed by declarations").
func c25FileOf(nodes []ast.Node) (*ast.File, []ast.Node) {
	if len(nodes) == 0 {
		return nil, nil
	}
	pk, ok := nodes[0].(*ast.GenDecl)
	if !ok || pk.Tok != token.PACKAGE || len(pk.Specs) != 1 {
		return nil, nil
	}
	vs, ok := pk.Specs[0].(*ast.ValueSpec)
	if !ok || len(vs.Names) != 1 || vs.Values != nil {
		return nil, nil
	}
	f := &ast.File{Package: pk.TokPos, Name: vs.Names[0]}
	for _, n := range nodes[1:] {
		d, ok := n.(ast.Decl)
		if !ok {
			return nil, nil
		}
		f.Decls = append(f.Decls, d)
	}
	return f, nodes[1:]
}

func c25Class(d string) string {
	c := c22DiffClass(d)
	// keep the last two path elements: enough to name the construct
	parts := strings.Split(c, "/")
	if len(parts) > 2 {
		parts = parts[len(parts)-2:]
	}
	return strings.Join(parts, "/")
}

func firstDiffLine(a, b string) string {
	la, lb := strings.Split(a, "\n"), strings.Split(b, "\n")
	for i := 0; i < len(la) || i < len(lb); i++ {
		var x, y string
		if i < len(la) {
			x = la[i]
		}
		if i < len(lb) {
			y = lb[i]
		}
		if x != y {
			return fmt.Sprintf("line %d: %q vs %q", i+1, x, y)
		}
	}
	return "(equal)"
}

// c25CheckFile is part A for one file with the printer configuration base/output uses.
func c25CheckFile(c *core.Ctx, pf *parsedFile) { c25CheckFileCfg(c, pf, 0) }

// c25CheckFileCfg is part A for one file under printer configuration c25Configs[cfgIdx]
// (configurations other than 0 are only used for the literal files of part L; they get their own signature class).
func c25CheckFileCfg(c *core.Ctx, pf *parsedFile, cfgIdx int) {
	cfg := &c25Configs[cfgIdx]
	A := "A"
	if cfgIdx != 0 {
		A = "A(" + c25ConfigNames[cfgIdx] + ")"
	}
	file, decls := c25FileOf(pf.Nodes)
	if file == nil {
		c.Count("A_files_not_package+decls", 1)
		return
	}
	c.Eval(1)
	cas := c25Case{Part: "A", File: pf.Path, Sub: cfgIdx}
	p1, err := c25PrintCfg(cfg, &pf.Fset.FileSet, file)
	if err != nil {
		c25Viol(c, "C25|"+A+"|print-error", fmt.Sprintf("%s: printer fails: %v", pf.Path, err), cas)
		return
	}
	// reference reparse: standard parser
	sset := token.NewFileSet()
	std, err := stdparser.ParseFile(sset, "p1.go", p1, stdparser.SkipObjectResolution)
	if err != nil {
		c25Viol(c, "C25|"+A+"|output-not-valid-go", fmt.Sprintf("%s: printed file is rejected by go/parser: %v", pf.Path, err), cas)
		return
	}
	if std.Name.Name != file.Name.Name {
		c25Viol(c, "C25|"+A+"|package-name", fmt.Sprintf("%s: package %s printed as %s", pf.Path, file.Name.Name, std.Name.Name), cas)
	}
	if len(std.Decls) != len(decls) {
		c25Viol(c, "C25|"+A+"|decl-count", fmt.Sprintf("%s: %d declarations, reparsed %d", pf.Path, len(decls), len(std.Decls)), cas)
		return
	}
	for i := range decls {
		if d := astDiff(decls[i], std.Decls[i], c25Eq); d != "" {
			cas.Index = i
			c25Viol(c, "C25|"+A+"|std-reparse|"+c25Class(d), fmt.Sprintf("%s decl %d: tree reparsed (go/parser) from the printed text differs: %s", pf.Path, i, d), cas)
			break
		}
	}
	// fork reparse + idempotence
	fset2, nodes2, perr, panicked := forkParse("p1.go", []byte(p1), 0)
	if panicked != nil {
		c.Count("A_fork_reparse_panics(C24)", 1)
		return
	}
	if perr != nil {
		c25Viol(c, "C25|"+A+"|fork-reparse-error", fmt.Sprintf("%s: forked parser rejects the printed text: %v", pf.Path, perr), cas)
		return
	}
	file2, decls2 := c25FileOf(nodes2)
	if file2 == nil || len(decls2) != len(decls) {
		c25Viol(c, "C25|"+A+"|decl-count", fmt.Sprintf("%s: %d declarations, fork-reparsed %d", pf.Path, len(decls), len(decls2)), cas)
		return
	}
	for i := range decls {
		if d := astDiff(decls[i], decls2[i], c25Eq); d != "" {
			cas.Index = i
			c25Viol(c, "C25|"+A+"|fork-reparse|"+c25Class(d), fmt.Sprintf("%s decl %d: tree reparsed (forked parser) from the printed text differs: %s", pf.Path, i, d), cas)
			break
		}
	}
	p2, err := c25PrintCfg(cfg, &fset2.FileSet, file2)
	if err != nil {
		c25Viol(c, "C25|"+A+"|reprint-error", fmt.Sprintf("%s: printing the reparsed tree fails: %v", pf.Path, err), cas)
		return
	}
	if p2 != p1 {
		c25Viol(c, "C25|"+A+"|not-idempotent", fmt.Sprintf("%s: printing the reparsed tree gives different text: %s", pf.Path, firstDiffLine(p1, p2)), cas)
	}
	c.Nontrivial(A + "|" + pf.Path)
	c.Count("A_files", 1)
	c.Count("A_decls", len(decls))
	c.Count("A_printed_bytes", len(p1))
	if string(pf.Src) != p1 {
		c.Count("A_files_text_changed_by_printing", 1)
	}
}

// c25Single sends one node through the interpreter's Stringer, reparses the text with the forked parser and compares.
// ctx "top": the text is parsed as top-level input; "func": inside a function body (statements and expressions:
// at top level the forked parser deliberately reads a leading "func" as a declaration);
// "switch"/"select": the node is a case / communication clause.
// Returns the printed text ("" when the node could not be printed).
func c25Single(c *core.Ctx, st *output.Stringer, n ast.Node, part string, cas c25Case, ctx string) string {
	if _, isEmpty := n.(*ast.EmptyStmt); isEmpty {
		return "" // prints as nothing
	}
	if why := c25IllFormed(n); why != "" {
		c.Count(part+"_skipped_not_syntactically_valid("+why+")", 1)
		return ""
	}
	c.Eval(1)
	var text string
	if p := core.Catch(func() { text = st.Sprintf("%v", n) }); p != nil {
		c25Viol(c, "C25|"+part+"|stringer-panics|"+astTypeName(n), fmt.Sprintf("Stringer panics on %s: %v", astBrief(n), p), cas)
		return ""
	}
	cas.Text = clip(text, 2000)
	if strings.HasPrefix(text, "error pretty-printing") || strings.HasPrefix(text, "go/printer: unsupported node type") {
		c25Viol(c, "C25|"+part+"|stringer-fails|"+astTypeName(n), fmt.Sprintf("Stringer cannot print %s: %s", astBrief(n), clip(text, 200)), cas)
		return ""
	}
	fset2, got, problem := c25Reparse(text, ctx)
	if problem == "panic" {
		c.Count(part+"_fork_reparse_panics(C24)", 1)
		return text
	}
	if problem != "" && part != "A" && part != "S" && c25BareCompositeInHeader(n) {
		c25Viol(c, "C25|"+part+"|reparse-error|composite-literal-in-control-clause-lost-its-parentheses", fmt.Sprintf("printed %s does not parse back: %s\n%s", astBrief(n), problem, clip(text, 400)), cas)
		return text
	}
	if problem != "" {
		c25Viol(c, "C25|"+part+"|reparse-error|"+c25ErrClass(n, problem), fmt.Sprintf("printed %s does not parse back (context %s): %s\n%s", astBrief(n), ctx, problem, clip(text, 400)), cas)
		return text
	}
	if d := astDiff(c25Unwrap(n), c25Unwrap(got), c25Eq); d != "" {
		c25Viol(c, "C25|"+part+"|reparse|"+c25Class(d), fmt.Sprintf("tree reparsed from the printed text differs: %s\n%s", d, clip(text, 400)), cas)
		return text
	}
	// idempotence: print the reparsed node again
	st2 := *st
	st2.Fileset = fset2
	var text2 string
	if p := core.Catch(func() { text2 = st2.Sprintf("%v", c25Unwrap(got)) }); p != nil {
		c25Viol(c, "C25|"+part+"|reprint-panics", fmt.Sprintf("printing the reparsed node panics: %v", p), cas)
		return text
	}
	c.Nontrivial(part + "|" + text)
	if text1 := st.Sprintf("%v", c25Unwrap(n)); text2 != text1 {
		cls := astTypeName(c25Unwrap(n))
		if part != "A" && part != "S" && c25Squeeze(text1) == c25Squeeze(text2) {
			cls = "layout-only" // same tokens; line breaks / indentation / trailing commas differ
		}
		c25Viol(c, "C25|"+part+"|not-idempotent|"+cls, fmt.Sprintf("printing the reparsed tree gives different text: %s", firstDiffLine(text1, text2)), cas)
	}
	return text
}

// c25Reparse parses text in the given context with the forked parser and returns the single node it denotes.
func c25Reparse(text, ctx string) (*etoken.FileSet, ast.Node, string) {
	src := text
	switch ctx {
	case "func":
		src = "func _() {\n" + text + "\n}"
	case "switch":
		src = "func _() {\nswitch {\n" + text + "\n}\n}"
	case "typeswitch":
		src = "func _() {\nswitch x.(type) {\n" + text + "\n}\n}"
	case "select":
		src = "func _() {\nselect {\n" + text + "\n}\n}"
	}
	fset2, nodes2, perr, panicked := forkParse("single.go", []byte(src), 0)
	if panicked != nil {
		return nil, nil, "panic"
	}
	if perr != nil {
		return nil, nil, perr.Error()
	}
	if len(nodes2) != 1 {
		return nil, nil, fmt.Sprintf("reparses as %d top-level nodes instead of 1", len(nodes2))
	}
	if ctx == "top" {
		return fset2, nodes2[0], ""
	}
	fd, ok := nodes2[0].(*ast.FuncDecl)
	if !ok || fd.Body == nil {
		return nil, nil, "wrapper function lost"
	}
	list := fd.Body.List
	switch ctx {
	case "switch":
		if len(list) == 1 {
			if sw, ok := list[0].(*ast.SwitchStmt); ok {
				list = sw.Body.List
			}
		}
	case "typeswitch":
		if len(list) == 1 {
			if sw, ok := list[0].(*ast.TypeSwitchStmt); ok {
				list = sw.Body.List
			}
		}
	case "select":
		if len(list) == 1 {
			if sw, ok := list[0].(*ast.SelectStmt); ok {
				list = sw.Body.List
			}
		}
	}
	var real []ast.Stmt
	for _, s := range list {
		if _, isEmpty := s.(*ast.EmptyStmt); !isEmpty {
			real = append(real, s)
		}
	}
	if len(real) != 1 {
		return nil, nil, fmt.Sprintf("reparses as %d statements instead of 1", len(real))
	}
	return fset2, real[0], ""
}

// c25Unwrap removes the statement wrapper the forked parser's top level removes as well (ExprStmt → expression).
func c25Unwrap(n ast.Node) ast.Node {
	switch x := n.(type) {
	case *ast.ExprStmt:
		if x != nil {
			return x.X
		}
	case *ast.DeclStmt:
		if x != nil {
			return x.Decl
		}
	}
	return n
}

func c25ErrClass(n ast.Node, msg string) string {
	if i := strings.Index(msg, ": "); i >= 0 {
		msg = msg[i+2:]
	}
	if i := strings.Index(msg, " (and "); i >= 0 {
		msg = msg[:i]
	}
	return astTypeName(n) + "|" + msg
}

func clip(s string, n int) string {
	if len(s) > n {
		return s[:n] + "…"
	}
	return s
}

// c25CheckSingles is part S for one file.
func c25CheckSingles(c *core.Ctx, pf *parsedFile, onlyDecl, onlySub int) {
	st := &output.Stringer{Fileset: pf.Fset}
	for i, n := range pf.Nodes {
		if onlyDecl >= 0 && i != onlyDecl {
			continue
		}
		if gd, ok := n.(*ast.GenDecl); ok && gd.Tok == token.PACKAGE {
			continue
		}
		if onlySub < 0 || onlyDecl < 0 {
			c25Single(c, st, n, "S", c25Case{Part: "S", File: pf.Path, Index: i, Sub: -1}, "top")
			c.Count("S_decls", 1)
		}
		if fd, ok := n.(*ast.FuncDecl); ok && fd.Body != nil {
			for j, s := range fd.Body.List {
				if onlyDecl >= 0 && onlySub >= 0 && j != onlySub {
					continue
				}
				if _, isEmpty := s.(*ast.EmptyStmt); isEmpty {
					continue
				}
				c25Single(c, st, s, "S", c25Case{Part: "S", File: pf.Path, Index: i, Sub: j}, "func")
				c.Count("S_stmts", 1)
			}
		}
	}
}

func c25Run(c *core.Ctx) {
	c.Rule("part A: every valid corpus file printed as a file, reparsed by go/parser and by the forked parser, compared declaration by declaration, reprinted; " +
		"part S: every top-level declaration and every statement directly inside a function body through base/output.Stringer, reparsed and compared; " +
		"part B: every corpus declaration after MacroExpandCodewalk; parts C/D: every tree produced by the C20 macro programs and C21 quasiquote templates; " +
		"part L: generated files = every literal spelling (INT/FLOAT/IMAG/CHAR/STRING/raw STRING; the textual ones with every raw byte class a token may contain: TAB, VT, FF, CR, blanks, controls, line breaks and trailing blanks in raw strings...) x 30 syntactic positions, plus all ordered pairs of 14 special literals in the multi-line/aligned positions, each through parts A (4 printer configurations), S and B; " +
		"non-trivial = distinct files (A) / distinct printed texts (S,B,C,D) that were printed, reparsed and compared")
	c.Assume("structural identity ignores positions (except the three flag positions), redundant ParenExpr nodes and EmptyStmt list elements: go/printer documents that it normalises these",
		"files with type parameters / rejected by go/parser / on which the forked parser fails (C24) are skipped and counted")
	paths := corpusPaths(c)
	c.Set("corpus_files_selected", len(paths))
	n := 0
	for i, p := range paths {
		n++
		if !c.Mine(i) {
			continue
		}
		if c.Expired() {
			break
		}
		pf := loadCorpusFile(p)
		c.Count("files_"+pf.Status, 1)
		if pf.Status != stOK {
			continue
		}
		if c25MultiReceiver(pf.Nodes) {
			// syntactically accepted, but not Go (go/types test data): gomacro uses the second receiver slot for its generics extension
			c.Count("files_skipped_method_with_several_receivers", 1)
			continue
		}
		c25CheckFile(c, pf)
		c25CheckSingles(c, pf, -1, -1)
		c25MacroParts(c, pf, i)
		if c.WantSample() && i%40 == 3 {
			c.Sample(map[string]interface{}{"file": pf.Path, "decls": len(pf.Nodes)})
		}
	}
	t0 := time.Now()
	c25LiteralFiles(c, n)
	if os.Getenv("VERIF_TIMING") != "" { // diagnostics only
		c.Count("timing_ms_part_L_summed_over_workers", int(time.Since(t0).Milliseconds()))
		c.Count("timing_ms_before_part_L_summed_over_workers", int(t0.Sub(c.Start).Milliseconds()))
	}
	c25OperatorPairs(c)
	c25GeneratedParts(c)
}

// part L: the literal files of c25_lits.go through parts A (four printer configurations), S and B.
func c25LiteralFiles(c *core.Ctx, shardOffset int) {
	srcs := c25LitSources()
	c.Set("L_literal_files", len(srcs))
	c.Set("L_literals", len(c25Lits()))
	c.Set("L_positions", len(c25LitPositions))
	c.Set("L_printer_configurations", strings.Join(c25ConfigNames, ", "))
	for i := range srcs {
		if !c.Mine(shardOffset + i) {
			continue
		}
		if c.Expired() {
			break
		}
		pf := c25Load(fmt.Sprintf("%s%d", c25LitPrefix, i))
		c.Count("L_files_"+pf.Status, 1)
		if pf.Status != stOK {
			if pf.Status == stStdReject {
				c.Count("L_generator_produced_invalid_file("+clip(pf.Detail, 80)+")", 1)
			}
			continue
		}
		for k := range c25Configs {
			c25CheckFileCfg(c, pf, k)
		}
		c25CheckSingles(c, pf, -1, -1)
		c25MacroParts(c, pf, i)
	}
}

// part X: every adjacent operator pair — "a BINOP UNOP b" for every binary × unary operator and "UNOP UNOP a"
// for every pair of unary operators, written with a separating blank so that no ParenExpr is involved:
// the printer must keep the two operator tokens from fusing into another token (-- ++ && &^ <- /*).
func c25OperatorPairs(c *core.Ctx) {
	unary := []string{"+", "-", "!", "^", "*", "&", "<-"}
	binary := []string{"+", "-", "*", "/", "%", "&", "|", "^", "<<", ">>", "&^", "&&", "||", "==", "<", ">", "!=", "<=", ">="}
	var srcs []string
	for _, b := range binary {
		for _, u := range unary {
			srcs = append(srcs, "x = a "+b+" "+u+"b")
		}
	}
	for _, u1 := range unary {
		for _, u2 := range unary {
			srcs = append(srcs, "x = "+u1+" "+u2+"a")
		}
	}
	st := &output.Stringer{Fileset: etoken.NewFileSet()}
	for i, src := range srcs {
		if !c.Mine(i) {
			continue
		}
		fset, n, problem := c25Reparse(src, "func")
		if problem != "" {
			c.Count("X_snippets_not_parseable", 1)
			continue
		}
		st.Fileset = fset
		c25Single(c, st, n, "X", c25Case{Part: "X", Index: i, Src: src}, "func")
		c.Count("X_operator_pairs", 1)
	}
}

func c25Replay(c *core.Ctx, raw json.RawMessage) {
	var cas c25Case
	if err := json.Unmarshal(raw, &cas); err != nil {
		panic(err)
	}
	switch cas.Part {
	case "A":
		pf := c25Load(cas.File)
		if pf.Status == stOK && cas.Sub >= 0 && cas.Sub < len(c25Configs) {
			c25CheckFileCfg(c, pf, cas.Sub)
		}
	case "S":
		pf := c25Load(cas.File)
		if pf.Status == stOK {
			c25CheckSingles(c, pf, cas.Index, cas.Sub)
		}
	case "X":
		if fset, n, problem := c25Reparse(cas.Src, "func"); problem == "" {
			c25Single(c, &output.Stringer{Fileset: fset}, n, "X", cas, "func")
		}
	default:
		c25ReplayMacro(c, &cas)
	}
}

var _ = etoken.NewFileSet

func c25Viol(c *core.Ctx, sig, what string, cas c25Case) {
	if os.Getenv("VERIF_DEBUG_SIGS") != "" {
		fmt.Printf("SIG %s\t%s\n", sig, oneLineClip(what, 300))
	}
	c.Violation(sig, what, cas)
}

func oneLineClip(s string, n int) string {
	return clip(strings.ReplaceAll(s, "\n", " ⏎ "), n)
}

// c25Squeeze removes white space and the commas go/printer adds before a line break.
func c25Squeeze(s string) string {
	var sb strings.Builder
	for _, r := range s {
		switch r {
		case ' ', '\t', '\n', ',':
		default:
			sb.WriteRune(r)
		}
	}
	return sb.String()
}

// c25IllFormed names the reason why a tree is not a syntactically valid tree at all (only possible for trees
// assembled by quasiquote with an empty splice): nothing a printer could print as valid source.
func c25IllFormed(n ast.Node) (why string) {
	astWalk(n, func(x ast.Node) bool {
		switch y := x.(type) {
		case *ast.AssignStmt:
			if len(y.Lhs) == 0 || len(y.Rhs) == 0 {
				why = "assignment without operands"
			}
		case *ast.CallExpr:
			if y.Ellipsis.IsValid() && len(y.Args) == 0 {
				why = "f(...) without arguments"
			}
		case *ast.ValueSpec:
			if len(y.Names) == 0 {
				why = "declaration without names"
			}
		}
		return why == ""
	})
	return
}

// c25BareCompositeInHeader: some if/for/switch/range header contains a composite literal of a named type that
// is not enclosed in parentheses, a call or an index (the Go grammar needs parentheses there).
func c25BareCompositeInHeader(n ast.Node) bool {
	found := false
	var inHeader func(e ast.Node)
	inHeader = func(e ast.Node) {
		astWalk(e, func(x ast.Node) bool {
			switch y := x.(type) {
			case *ast.CallExpr:
				inHeader(y.Fun) // the arguments are protected by the call's parentheses, the function part is not
				return false
			case *ast.IndexExpr:
				inHeader(y.X)
				return false
			case *ast.SliceExpr:
				inHeader(y.X)
				return false
			case *ast.ParenExpr, *ast.FuncLit, *ast.BlockStmt:
				return false
			case *ast.CompositeLit:
				switch y.Type.(type) {
				case *ast.Ident, *ast.SelectorExpr:
					found = true
				}
				return false
			}
			return true
		})
	}
	astWalk(n, func(x ast.Node) bool {
		switch y := x.(type) {
		case *ast.IfStmt:
			inHeader(y.Init)
			inHeader(y.Cond)
		case *ast.ForStmt:
			inHeader(y.Init)
			inHeader(y.Cond)
			inHeader(y.Post)
		case *ast.RangeStmt:
			inHeader(y.X)
		case *ast.SwitchStmt:
			inHeader(y.Init)
			inHeader(y.Tag)
		case *ast.TypeSwitchStmt:
			inHeader(y.Init)
			inHeader(y.Assign)
		}
		return !found
	})
	return found
}

func c25MultiReceiver(nodes []ast.Node) bool {
	for _, n := range nodes {
		if fd, ok := n.(*ast.FuncDecl); ok && fd.Recv != nil && len(fd.Recv.List) > 1 {
			return true
		}
	}
	return false
}
