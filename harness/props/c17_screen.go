package props

// C17 — screening for non-termination. graph.Sort can loop for ever (appending forward declarations) on some
// cyclic inputs; a goroutine cannot be killed, so inputs on which the forward-declaration branch can be
// reached at all ("risky": a type lies on a cycle of the superset graph) are first sorted once in a child
// process (`mc replay <probe file>`). The child runs the sorts on a dedicated OS thread and gives up on an input when
// that thread has burnt c17HangCPU of CPU time on it (a sort of such an input takes microseconds; CPU time of the
// sorting thread, not wall time, so the criterion does not depend on machine load, GC or scheduling); it then reports
// HANG and exits, and the parent starts a new child for the remaining inputs.

import (
	"bufio"
	"encoding/json"
	"fmt"
	"go/ast"
	"io/ioutil"
	"os"
	"os/exec"
	"path/filepath"
	"runtime"
	"strconv"
	"strings"
	"syscall"
	"time"

	"github.com/cosmos72/gomacro/go/etoken"

	"verif/harness/core"
)

const c17HangCPU = 300 * time.Millisecond

type c17Probe struct {
	Inputs [][]c17Chunk `json:"inputs"`
}

// threadCPU returns the CPU time consumed by thread tid of this process.
func threadCPU(tid int) time.Duration {
	return procCPU(fmt.Sprintf("/proc/self/task/%d/stat", tid))
}

// c17ProbeChild is the child side: sort every input once on a dedicated OS thread, report progress on stdout.
// An input is given up when that thread alone has consumed c17HangCPU on it.
func c17ProbeChild(p *c17Probe) {
	type job struct {
		nodes []ast.Node
		fset  *etoken.FileSet
	}
	jobs := make(chan job)
	done := make(chan struct{})
	tidCh := make(chan int)
	go func() {
		runtime.LockOSThread()
		tidCh <- syscall.Gettid()
		for j := range jobs {
			c17Sort(j.nodes, j.fset)
			done <- struct{}{}
		}
	}()
	tid := <-tidCh
	w := bufio.NewWriter(os.Stdout)
	for i, chunks := range p.Inputs {
		nodes, fset, err := c17Parse(c17Source(chunks))
		if err == nil {
			jobs <- job{nodes, fset}
			start := time.Duration(-1)
		wait:
			for {
				select {
				case <-done:
					break wait
				case <-time.After(5 * time.Millisecond):
					now := threadCPU(tid)
					if start < 0 {
						start = now
					} else if now-start > c17HangCPU {
						fmt.Fprintf(w, "HANG %d\n", i)
						w.Flush()
						os.Exit(0)
					}
				}
			}
		}
		if i%64 == 63 || i == len(p.Inputs)-1 {
			fmt.Fprintf(w, "PROBE %d\n", i)
			w.Flush()
		}
	}
}

// childCPU returns the CPU time (user+system) consumed so far by process pid.
func childCPU(pid int) time.Duration {
	return procCPU(fmt.Sprintf("/proc/%d/stat", pid))
}

func procCPU(path string) time.Duration {
	data, err := ioutil.ReadFile(path)
	if err != nil {
		return 0
	}
	s := string(data)
	if i := strings.LastIndexByte(s, ')'); i >= 0 {
		s = s[i+1:]
	}
	f := strings.Fields(s)
	if len(f) < 13 {
		return 0
	}
	ut, _ := strconv.Atoi(f[11])
	st, _ := strconv.Atoi(f[12])
	return time.Duration(ut+st) * 10 * time.Millisecond // CLK_TCK = 100
}

// c17Screen returns the indices of the inputs on which the sorter does not terminate (at most maxHangs of them:
// screening stops there and stopped=the index of the first input that was not screened, else -1).
func c17Screen(inputs [][]c17Chunk, tag string, maxHangs int) (hangs []int, stopped int) {
	dir := filepath.Join(core.VerifDir, "work", "C17")
	os.MkdirAll(dir, 0o755)
	base := 0
	for base < len(inputs) {
		if len(hangs) >= maxHangs {
			return hangs, base
		}
		file := filepath.Join(dir, "probe-"+tag+"-"+strconv.Itoa(base)+".json")
		body, _ := json.Marshal(map[string]interface{}{"property": "C17", "signature": "probe", "what": "", "case": map[string]interface{}{"probe": c17Probe{Inputs: inputs[base:]}}})
		if err := ioutil.WriteFile(file, body, 0o644); err != nil {
			panic(err)
		}
		exe, _ := os.Executable()
		cmd := exec.Command(exe, "replay", file)
		stdout, _ := cmd.StdoutPipe()
		if err := cmd.Start(); err != nil {
			panic(err)
		}
		type msg struct {
			hang bool
			n    int
		}
		lines := make(chan msg, 1024)
		go func() {
			sc := bufio.NewScanner(stdout)
			for sc.Scan() {
				t := sc.Text()
				if strings.HasPrefix(t, "PROBE ") {
					n, _ := strconv.Atoi(t[6:])
					lines <- msg{false, n}
				} else if strings.HasPrefix(t, "HANG ") {
					n, _ := strconv.Atoi(t[5:])
					lines <- msg{true, n}
				}
			}
			close(lines)
		}()
		done, hang := -1, -1
		cpuAtProgress := time.Duration(0)
		lastProgress := time.Now()
		killed := false
	wait:
		for {
			select {
			case m, ok := <-lines:
				if !ok {
					break wait
				}
				if m.hang {
					hang = m.n
				} else {
					done = m.n
				}
				cpuAtProgress = childCPU(cmd.Process.Pid)
				lastProgress = time.Now()
			case <-time.After(time.Second):
				// the child itself is stuck (not expected): kill it; this is a harness failure
				if childCPU(cmd.Process.Pid)-cpuAtProgress > 60*time.Second || time.Since(lastProgress) > 20*time.Minute {
					cmd.Process.Kill()
					killed = true
					break wait
				}
			}
		}
		cmd.Wait()
		os.Remove(file)
		switch {
		case killed:
			panic("c17 screening child got stuck without reporting")
		case hang >= 0:
			hangs = append(hangs, base+hang)
			base += hang + 1
		case done == len(inputs)-base-1:
			return hangs, -1
		default:
			panic(fmt.Sprintf("c17 screening child ended after input %d of %d without reporting a hang", done, len(inputs)-base))
		}
	}
	return hangs, -1
}

// reportHang records the non-termination of the sorter on one input.
func (k *c17Checker) reportHang(chunks []c17Chunk, an *c17Analysis, reps int) {
	src := c17Source(chunks)
	class := "no-unbreakable-cycle-in-reference"
	if an.loopType {
		class = "unbreakable-cycle-with-type-on-a-cycle"
	} else if an.expectLoop {
		class = "unbreakable-cycle"
	}
	k.viol("C17|hang|"+class, fmt.Sprintf("dep.Sorter.All() does not terminate (more than %v of CPU time on this input; graph.Sort keeps appending forward type declarations that break nothing) instead of reporting a declaration loop on\n%s", c17HangCPU, src),
		c17Case{Part: k.part, Chunks: chunks, Reps: reps})
}
