package props

// C22 — the uniform syntax-tree wrapper (ast2) round-trips every node losslessly.
//
// Domain: every node of every tree obtained by parsing the corpus (GOROOT/src + /repo) with the
// forked parser, plus a generator instantiating every go/ast node type with every own token / flag
// field at each of its values and every optional child present/absent (c22_gen.go), plus gomacro
// extension nodes obtained by parsing extension syntax.
//
// Per node n (a = ToAst(n)):
//   R1  ToNode(a) is n (same pointer)
//   R2  a.Size() equals the number of child slots of the go/ast struct counted by reflection
//       (independent of ast2; for the five variable-length wrappers: the length of the list),
//       and Get(i) / Set(i, Get(i)) work for every i < Size
//   R3  c := a.New(); [Append(nil) × Size for the variable-length wrappers, as MacroExpandCodewalk does];
//       c.Set(i, a.Get(i)) for all i  ⇒  ToNode(c) is a *new* node of the same type whose own tokens, flags,
//       literal and name are equal to n's and whose children are n's children
//   R4  the same through New() + Append(Get(i)) for the variable-length wrappers (as quasiquote does)
//   R5  n itself is not modified by any of this
// Positions: the property is position-insensitive, so only the three positions that are syntax flags
// (CallExpr.Ellipsis, TypeSpec.Assign, GenDecl.Lparen) are compared (by validity). Own positions that a
// copy does not preserve are *counted* per field in the evidence (own_position_not_copied), not reported.

import (
	"encoding/json"
	"fmt"
	"go/ast"
	"go/token"
	"reflect"
	"sort"
	"strings"
	"sync"

	"github.com/cosmos72/gomacro/ast2"

	"verif/harness/core"
)

func init() {
	core.Register(&core.Check{ID: "C22", Level: "exploration", Run: c22Run, Replay: c22Replay})
}

type c22Case struct {
	Kind  string `json:"kind"`           // "corpus" | "generated" | "extension"
	File  string `json:"file,omitempty"` // corpus: path
	Src   string `json:"src,omitempty"`  // extension: source text
	Index int    `json:"index"`          // pre-order index of the node (corpus/extension) or generator index
	Node  string `json:"node"`           // canonical dump of the node
	Rule  string `json:"rule"`
}

type c22Fail struct {
	Sig, What, Rule string
}

// c22Result of checking one node.
type c22Result struct {
	fails   []c22Fail
	posLost []string // "Type.Field" own positions not preserved by the copy
}

var c22VarLen = map[string]bool{"BlockStmt": true, "FieldList": true, "File": true, "GenDecl": true, "ReturnStmt": true}

// c22WellFormed tells whether the node's own fields are mutually consistent as go/ast documents them.
// Ill-formed combinations (never produced by a parser) are outside the property's domain.
func c22WellFormed(n ast.Node) (bool, string) {
	switch x := n.(type) {
	case *ast.SliceExpr:
		if x.Slice3 != (x.Max != nil) {
			return false, "SliceExpr.Slice3 != (Max != nil)"
		}
	case *ast.Package:
		return false, "ast.Package (ast2 documents it as unsupported: Get/Set are TODO stubs; no gomacro parser entry point produces it)"
	}
	return true, ""
}

func shallowSnapshot(n ast.Node) []interface{} {
	v := reflect.ValueOf(n).Elem()
	out := make([]interface{}, 0, v.NumField()+4)
	ptrOf := func(f reflect.Value) uintptr {
		switch f.Kind() {
		case reflect.Ptr, reflect.Map:
			return f.Pointer()
		case reflect.Interface:
			if f.IsNil() {
				return 0
			}
			return f.Elem().Pointer()
		}
		panic("shallowSnapshot: unexpected kind " + f.Kind().String())
	}
	for i, k := 0, v.NumField(); i < k; i++ {
		f := v.Field(i)
		switch f.Kind() {
		case reflect.Slice:
			out = append(out, f.Pointer(), f.Len())
			for j, l := 0, f.Len(); j < l; j++ {
				out = append(out, ptrOf(f.Index(j)))
			}
		case reflect.Ptr, reflect.Map, reflect.Interface:
			out = append(out, ptrOf(f))
		default:
			out = append(out, f.Interface())
		}
	}
	return out
}

func c22CheckNode(n ast.Node) (res c22Result) {
	tn := astTypeName(n)
	fail := func(rule, sig, format string, args ...interface{}) {
		res.fails = append(res.fails, c22Fail{Sig: "C22|" + rule + "|" + sig, What: fmt.Sprintf(format, args...), Rule: rule})
	}
	var a ast2.AstWithNode
	if p := core.Catch(func() { a = ast2.ToAst(n) }); p != nil {
		fail("R1", tn+"|ToAst-panics", "ToAst(%s) panics: %v", astBrief(n), p)
		return
	}
	if a == nil {
		fail("R1", tn+"|ToAst-nil", "ToAst(%s) returned nil for a non-nil node", astBrief(n))
		return
	}
	// R1
	var back ast.Node
	if p := core.Catch(func() { back = ast2.ToNode(a) }); p != nil {
		fail("R1", tn+"|ToNode-panics", "ToNode(ToAst(%s)) panics: %v", astBrief(n), p)
		return
	}
	if back != n {
		fail("R1", tn+"|ToNode-differs", "ToNode(ToAst(n)) is not n for %s: got %s", astBrief(n), astBrief(back))
	}
	before := shallowSnapshot(n)

	// R2
	v := reflect.ValueOf(n).Elem()
	plan := astPlanOf(v.Type())
	var size int
	if p := core.Catch(func() { size = a.Size() }); p != nil {
		fail("R2", tn+"|Size-panics", "Size() of %s panics: %v", astBrief(n), p)
		return
	}
	want := plan.NChild
	if c22VarLen[tn] {
		for _, af := range plan.Fields {
			if af.Kind == fkSlice {
				want = v.Field(af.Idx).Len()
			}
		}
	}
	if size != want {
		fail("R2", tn+"|Size", "%s: Size()=%d but the go/ast struct has %d child slots", astBrief(n), size, want)
	}
	kids := make([]ast2.Ast, size)
	for i := 0; i < size; i++ {
		if p := core.Catch(func() { kids[i] = a.Get(i) }); p != nil {
			fail("R2", tn+"|Get-panics", "%s: Get(%d) with Size()=%d panics: %v", astBrief(n), i, size, p)
			return
		}
	}

	// R3 / R4
	build := func(appendOnly bool) ast.Node {
		var m ast.Node
		how := "New+Set"
		if appendOnly {
			how = "New+Append"
		}
		p := core.Catch(func() {
			c := a.New()
			if cs, ok := c.(ast2.AstWithSlice); ok {
				if appendOnly {
					for i := 0; i < size; i++ {
						cs = cs.Append(kids[i])
					}
					c = cs
				} else {
					for cs.Size() < size {
						cs = cs.Append(nil)
					}
					c = cs
				}
			}
			if !appendOnly {
				for i := 0; i < size; i++ {
					c.Set(i, kids[i])
				}
			}
			m = ast2.ToNode(c)
		})
		if p != nil {
			fail("R3", tn+"|"+how+"-panics", "%s: %s copy protocol panics: %v", astBrief(n), how, p)
			return nil
		}
		if isNilNode(m) {
			fail("R3", tn+"|"+how+"-nil", "%s: %s copy is nil", astBrief(n), how)
			return nil
		}
		if m == n {
			fail("R3", tn+"|"+how+"-not-fresh", "%s: New() returned the receiver's node, not a copy", astBrief(n))
			return nil
		}
		if d := astDiff(n, m, &eqOpts{Pos: posFlags, SamePtrOK: true}); d != "" {
			fail("R3", tn+"|"+how+"|"+c22DiffClass(d), "%s: copy built by %s differs: %s", astBrief(n), how, d)
		}
		return m
	}
	m := build(false)
	if _, ok := a.(ast2.AstWithSlice); ok {
		build(true)
	}
	// own positions (informational)
	if m != nil && reflect.TypeOf(m) == reflect.TypeOf(n) {
		vm := reflect.ValueOf(m).Elem()
		for _, af := range plan.Fields {
			if af.Kind == fkPos && v.Field(af.Idx).Int() != vm.Field(af.Idx).Int() {
				res.posLost = append(res.posLost, tn+"."+af.Name)
			}
		}
	}
	// R5
	after := shallowSnapshot(n)
	if !reflect.DeepEqual(before, after) {
		fail("R5", tn+"|original-modified", "%s: the original node was modified by Get/New/Set on its wrapper", astBrief(n))
	}
	return
}

// c22DiffClass reduces a diff description to its field path without indices ("/SliceExpr.Slice3").
func c22DiffClass(d string) string {
	if i := strings.Index(d, ":"); i >= 0 {
		d = d[:i]
	}
	var sb strings.Builder
	skip := false
	for _, r := range d {
		if r == '[' {
			skip = true
		} else if r == ']' {
			skip = false
		} else if !skip {
			sb.WriteRune(r)
		}
	}
	return sb.String()
}

type c22Tally struct {
	mu      sync.Mutex
	posLost map[string]int
	types   map[string]int
	illform map[string]int
}

func (t *c22Tally) add(res *c22Result, tn string) {
	t.mu.Lock()
	t.types[tn]++
	for _, p := range res.posLost {
		t.posLost[p]++
	}
	t.mu.Unlock()
}

// c22Tree checks every node of one tree; returns number of nodes. report is called for each failure.
func c22Tree(c *core.Ctx, t *c22Tally, root ast.Node, base int, report func(idx int, n ast.Node, f c22Fail)) int {
	idx := base
	local := map[string]int{}
	localPos := map[string]int{}
	astWalk(root, func(n ast.Node) bool {
		i := idx
		idx++
		if ok, why := c22WellFormed(n); !ok {
			t.mu.Lock()
			t.illform[why]++
			t.mu.Unlock()
			return true
		}
		res := c22CheckNode(n)
		local[astTypeName(n)]++
		for _, p := range res.posLost {
			localPos[p]++
		}
		for _, f := range res.fails {
			report(i, n, f)
		}
		return true
	})
	t.mu.Lock()
	for k, v := range local {
		t.types[k] += v
	}
	for k, v := range localPos {
		t.posLost[k] += v
	}
	t.mu.Unlock()
	return idx - base
}

func c22Run(c *core.Ctx) {
	c.Rule("every node of every corpus tree (forked parser) + every generated node (each go/ast node type × each value of each own token/flag field × each subset of optional children × list lengths 0..2) + extension-syntax trees is wrapped, read, copied through New/Set (and New/Append) and compared with the original; " +
		"non-trivial = distinct (node type, own tokens and flags, which children are present) shapes checked")
	c.Assume("Go 1.18 type-parameter syntax (TypeParams fields, IndexListExpr) is outside gomacro's syntax: files using it are skipped and counted",
		"identifier resolution data (Obj, Scope, Unresolved) and comments are not part of the syntax tree being round-tripped",
		"positions are not compared (the property is position-insensitive) except the three positions that are syntax flags: CallExpr.Ellipsis, TypeSpec.Assign, GenDecl.Lparen (by validity)",
		"ill-formed flag/child combinations no parser produces (SliceExpr.Slice3 without Max and vice versa) and ast.Package (documented as unsupported stub in ast2) are outside the domain and counted as illformed_skipped")
	tally := &c22Tally{posLost: map[string]int{}, types: map[string]int{}, illform: map[string]int{}}

	type viol struct {
		sig, what string
		cas       c22Case
	}
	var vmu sync.Mutex
	var viols []viol
	addViol := func(kind, file, src string, idx int, n ast.Node, f c22Fail) {
		dump := astDump(n)
		if len(dump) > 400 {
			dump = dump[:400] + "…"
		}
		vmu.Lock()
		viols = append(viols, viol{f.Sig, f.What, c22Case{Kind: kind, File: file, Src: src, Index: idx, Node: dump, Rule: f.Rule}})
		vmu.Unlock()
	}
	shape := func(n ast.Node) string {
		// shape key: brief + presence of children
		var sb strings.Builder
		sb.WriteString(astBrief(n))
		v := reflect.ValueOf(n).Elem()
		for _, af := range astPlanOf(v.Type()).Fields {
			switch af.Kind {
			case fkNode:
				if rvNode(v.Field(af.Idx)) != nil {
					sb.WriteString(" +" + af.Name)
				}
			case fkSlice:
				l := v.Field(af.Idx).Len()
				if l > 2 {
					l = 2
				}
				fmt.Fprintf(&sb, " %s#%d", af.Name, l)
			}
		}
		return sb.String()
	}

	// 1. generated nodes
	gen := c22Generate()
	for i, n := range gen {
		i := i
		k := c22Tree(c, tally, n, 0, func(idx int, node ast.Node, f c22Fail) { addViol("generated", "", "", i, node, f) })
		c.Eval(k)
		c.Nontrivial(shape(n))
		if c.WantSample() && i%997 == 5 {
			c.Sample(map[string]interface{}{"generated": astDump(n)})
		}
	}
	c.Set("generated_roots", len(gen))

	// 2. extension syntax
	for i, src := range c22ExtensionSources() {
		_, nodes, err, panicked := forkParse("ext.go", []byte(src), 0)
		if panicked != nil || err != nil {
			panic(fmt.Sprintf("C22 generator error: extension source %q does not parse: %v %v", src, err, panicked))
		}
		base := 0
		for _, n := range nodes {
			src := src
			k := c22Tree(c, tally, n, base, func(idx int, node ast.Node, f c22Fail) { addViol("extension", "", src, idx, node, f) })
			base += k
			c.Eval(k)
			astWalk(n, func(x ast.Node) bool { c.Nontrivial(shape(x)); return true })
		}
		if i < 3 {
			c.Sample(map[string]interface{}{"extension": src, "nodes": base})
		}
	}

	// 3. corpus
	paths := corpusPaths(c)
	var nodesTotal int64
	var nmu sync.Mutex
	corpusShapes := map[string]bool{}
	forEachCorpusFile(c, paths, parallelism(), func(int) bool { return true }, func(i int, pf *parsedFile) {
		base := 0
		seen := map[string]bool{}
		for _, n := range pf.Nodes {
			k := c22Tree(c, tally, n, base, func(idx int, node ast.Node, f c22Fail) { addViol("corpus", pf.Path, "", idx, node, f) })
			base += k
			astWalk(n, func(x ast.Node) bool {
				switch x.(type) {
				case *ast.Ident, *ast.BasicLit:
					return true
				}
				seen[shape(x)] = true
				return true
			})
		}
		for s := range seen {
			c.Nontrivial(s)
		}
		c.Eval(base)
		nmu.Lock()
		nodesTotal += int64(base)
		for s := range seen {
			corpusShapes[s] = true
		}
		nmu.Unlock()
		if c.WantSample() && i%50 == 7 {
			c.Sample(map[string]interface{}{"file": pf.Path, "nodes": base})
		}
	})
	c.Set("corpus_files_selected", len(paths))
	c.Set("corpus_nodes", nodesTotal)
	c.Set("corpus_distinct_shapes", len(corpusShapes))

	// deterministic reporting order
	sort.Slice(viols, func(i, j int) bool {
		a, b := viols[i], viols[j]
		if a.sig != b.sig {
			return a.sig < b.sig
		}
		if a.cas.Kind != b.cas.Kind {
			return a.cas.Kind < b.cas.Kind
		}
		if a.cas.File != b.cas.File {
			return a.cas.File < b.cas.File
		}
		return a.cas.Index < b.cas.Index
	})
	for _, v := range viols {
		c.Violation(v.sig, v.what, v.cas)
	}
	c.Set("node_types_checked", len(tally.types))
	c.Set("nodes_per_type", tally.types)
	c.Set("own_position_not_copied", tally.posLost)
	c.Set("illformed_skipped", tally.illform)
}

func c22Replay(c *core.Ctx, raw json.RawMessage) {
	var cas c22Case
	if err := json.Unmarshal(raw, &cas); err != nil {
		panic(err)
	}
	tally := &c22Tally{posLost: map[string]int{}, types: map[string]int{}, illform: map[string]int{}}
	report := func(want int) func(idx int, n ast.Node, f c22Fail) {
		return func(idx int, n ast.Node, f c22Fail) {
			if idx == want {
				c.Violation(f.Sig, f.What, cas)
			}
		}
	}
	switch cas.Kind {
	case "generated":
		gen := c22Generate()
		if cas.Index < len(gen) {
			c22Tree(c, tally, gen[cas.Index], 0, func(idx int, n ast.Node, f c22Fail) { c.Violation(f.Sig, f.What, cas) })
		}
	case "extension":
		_, nodes, _, _ := forkParse("ext.go", []byte(cas.Src), 0)
		base := 0
		for _, n := range nodes {
			base += c22Tree(c, tally, n, base, report(cas.Index))
		}
	case "corpus":
		pf := loadCorpusFile(cas.File)
		base := 0
		for _, n := range pf.Nodes {
			base += c22Tree(c, tally, n, base, report(cas.Index))
		}
	}
}

var _ = token.NoPos
