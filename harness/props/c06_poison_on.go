//go:build verif
// +build verif

package props

// Frame poisoning for C06: gomacro (build tag verif) calls fast.VerifHooks.FreeEnv right before a frame is
// put back into the per-goroutine pool. We overwrite every slot of the frame, so that a read through a stale
// reference to a recycled frame cannot coincide with the value Go expects:
//   - integer slots get 0xDEADBEEFDEADBEEF (the whole capacity, not only the current length),
//   - reflect.Value slots get a sentinel of a private struct type (any typed extraction panics or prints it).
// The escaped Ints of a frame whose integer slots had their address taken were already detached by freeEnv
// (env.Ints = nil) when the hook runs, so legitimately escaped pointers are not touched.
// VERIF_C06_POISON=0 disables the hook (the check must pass either way).

import (
	"github.com/cosmos72/gomacro/fast"
	xr "github.com/cosmos72/gomacro/xreflect"
	"os"
)

type c06Poisoned struct{ PoisonedFrameSlot string }

var c06Sentinel = xr.ValueOf(c06Poisoned{"read of a recycled frame"})

var c06PoisonCount int

func c06PoisonEnabled() bool { return os.Getenv("VERIF_C06_POISON") != "0" }

func c06InstallPoison() bool {
	if !c06PoisonEnabled() {
		fast.VerifHooks.FreeEnv = nil
		return false
	}
	fast.VerifHooks.FreeEnv = func(env *fast.Env) {
		c06PoisonCount++
		ints := env.Ints[:cap(env.Ints)]
		for i := range ints {
			ints[i] = 0xDEADBEEFDEADBEEF
		}
		vals := env.Vals[:cap(env.Vals)]
		for i := range vals {
			vals[i] = c06Sentinel
		}
	}
	return true
}

func c06UninstallPoison() { fast.VerifHooks.FreeEnv = nil }
