package props

// C31 part B — interface proxies P_*: every func field is replaced by a reflect.MakeFunc recorder, every
// method is called THROUGH THE INTERFACE (itab dispatch on a value of the proxied interface type) with
// per-position distinct sentinels; the recorder of exactly the right field must be called exactly once with
// the proxy's Object first and the arguments unchanged, and its per-position distinct results must come back
// unchanged.

import (
	"fmt"
	"reflect"
	"sort"
	"strings"
	"unsafe"

	"github.com/cosmos72/gomacro/imports"

	"verif/harness/core"
)

// c31Obj is the dynamic type of proxy Objects and of sentinels for empty interfaces.
type c31Obj struct{ ID int }

// c31Err implements error (and fmt.Stringer).
type c31Err struct{ ID int }

func (e *c31Err) Error() string  { return fmt.Sprintf("c31err#%d", e.ID) }
func (e *c31Err) String() string { return fmt.Sprintf("c31err#%d", e.ID) }

const c31MaxExhaustiveParams = 5 // 3^5 = 243 calls per method; above: per-position variation

// ---- sentinel factory -------------------------------------------------------------------------

type c31Sentinels struct {
	impl       map[reflect.Type]reflect.Type // interface type -> concrete type to instantiate (nil entry = none found)
	proxies    map[reflect.Type]reflect.Type // interface type -> proxy struct type (from the tables)
	candidates []reflect.Type                // every table type, sorted by (pkg path, name)
	degenerate map[string]bool               // types for which fewer than 3 (bool: 2) distinct values exist
}

func newC31Sentinels() *c31Sentinels {
	s := &c31Sentinels{impl: map[reflect.Type]reflect.Type{}, proxies: map[reflect.Type]reflect.Type{}, degenerate: map[string]bool{}}
	for _, path := range c31Paths(true) {
		pkg := imports.Packages[path]
		var names []string
		for n := range pkg.Types {
			names = append(names, n)
		}
		sort.Strings(names)
		for _, n := range names {
			t := pkg.Types[n]
			if t == nil {
				continue
			}
			s.candidates = append(s.candidates, t)
			if p := pkg.Proxies[n]; p != nil && t.Kind() == reflect.Interface {
				if _, dup := s.proxies[t]; !dup && p.Kind() == reflect.Struct && reflect.PtrTo(p).Implements(t) {
					s.proxies[t] = p
				}
			}
		}
	}
	return s
}

var (
	c31ObjPtrType = reflect.TypeOf((*c31Obj)(nil))
	c31ErrPtrType = reflect.TypeOf((*c31Err)(nil))
)

// implementer returns a concrete type whose values can be stored in interface type it: a pointer type (instantiate
// with reflect.New of its Elem) or a value type (instantiate recursively); nil if none is known.
func (s *c31Sentinels) implementer(it reflect.Type) reflect.Type {
	if t, ok := s.impl[it]; ok {
		return t
	}
	var found reflect.Type
	switch {
	case it.NumMethod() == 0:
		found = c31ObjPtrType
	case c31ErrPtrType.Implements(it):
		found = c31ErrPtrType
	case s.proxies[it] != nil:
		found = reflect.PtrTo(s.proxies[it])
	default:
		for _, c := range s.candidates {
			if c.Kind() == reflect.Interface {
				continue
			}
			if reflect.PtrTo(c).Implements(it) && c.Size() > 0 {
				found = reflect.PtrTo(c)
				break
			}
		}
	}
	s.impl[it] = found
	return found
}

// settable returns a settable view of struct field v (bypassing the unexported-field restriction).
func c31Settable(v reflect.Value) reflect.Value {
	if v.CanSet() {
		return v
	}
	return reflect.NewAt(v.Type(), unsafe.Pointer(v.UnsafeAddr())).Elem()
}

// make returns a value of exactly type t (interface kinds included) that differs for different salts wherever the
// type has enough values. depth limits recursion into structs/arrays.
func (s *c31Sentinels) make(t reflect.Type, salt int, depth int) reflect.Value {
	v := reflect.New(t).Elem()
	switch t.Kind() {
	case reflect.Bool:
		v.SetBool(salt%3 != 1) // alphabet index 0 -> false, 1,2 -> true  (salt = 1 + 3*pos + idx)
		s.degenerate["bool"] = true
	case reflect.Int, reflect.Int8, reflect.Int16, reflect.Int32, reflect.Int64:
		v.SetInt(int64(10 + salt%110))
	case reflect.Uint, reflect.Uint8, reflect.Uint16, reflect.Uint32, reflect.Uint64, reflect.Uintptr:
		v.SetUint(uint64(10 + salt%110))
	case reflect.Float32, reflect.Float64:
		v.SetFloat(float64(salt) + 0.5)
	case reflect.Complex64, reflect.Complex128:
		v.SetComplex(complex(float64(salt)+0.5, float64(salt)+0.25))
	case reflect.String:
		v.SetString(fmt.Sprintf("s%d", salt))
	case reflect.Ptr:
		if t.Elem().Size() == 0 {
			s.degenerate[t.String()] = true
		}
		v.Set(reflect.New(t.Elem()))
	case reflect.UnsafePointer:
		v.SetPointer(unsafe.Pointer(new([8]byte)))
	case reflect.Slice:
		n := 1 + salt%3
		sl := reflect.MakeSlice(t, n, n+1)
		if depth > 0 {
			for i := 0; i < n; i++ {
				sl.Index(i).Set(s.make(t.Elem(), salt*7+i+1, depth-1))
			}
		}
		v.Set(sl)
	case reflect.Map:
		v.Set(reflect.MakeMap(t))
	case reflect.Chan:
		ch := reflect.MakeChan(reflect.ChanOf(reflect.BothDir, t.Elem()), 0)
		v.Set(ch.Convert(t))
	case reflect.Func:
		outs := make([]reflect.Type, t.NumOut())
		for i := range outs {
			outs[i] = t.Out(i)
		}
		v.Set(reflect.MakeFunc(t, func([]reflect.Value) []reflect.Value {
			res := make([]reflect.Value, len(outs))
			for i, o := range outs {
				res[i] = reflect.Zero(o)
			}
			return res
		}))
	case reflect.Interface:
		if t.NumMethod() == 0 {
			// vary the dynamic type too
			switch salt % 3 {
			case 0:
				v.Set(reflect.ValueOf(fmt.Sprintf("any%d", salt)))
			case 1:
				v.Set(reflect.ValueOf(&c31Obj{salt}))
			default:
				v.Set(reflect.ValueOf(1000 + salt))
			}
			break
		}
		impl := s.implementer(t)
		switch {
		case impl == nil:
			s.degenerate[t.String()] = true // only the nil interface is available
		case impl == c31ErrPtrType:
			v.Set(reflect.ValueOf(&c31Err{salt}))
		default:
			v.Set(reflect.New(impl.Elem())) // distinct allocation = distinct identity; its methods are never called
		}
	case reflect.Array:
		if depth > 0 {
			for i := 0; i < t.Len() && i < 8; i++ {
				v.Index(i).Set(s.make(t.Elem(), salt*5+i+1, depth-1))
			}
		}
	case reflect.Struct:
		if depth > 0 {
			for i := 0; i < t.NumField(); i++ {
				ft := t.Field(i).Type
				switch ft.Kind() {
				case reflect.Func, reflect.Chan, reflect.Map:
					continue // leave zero
				}
				c31Settable(v.Field(i)).Set(s.make(ft, salt*11+i+1, depth-1))
			}
		}
		if t.Size() == 0 {
			s.degenerate[t.String()] = true
		}
	}
	return v
}

// funcID returns the closure pointer of a func value (reflect's Pointer() is the same stub for every MakeFunc).
func c31FuncID(v reflect.Value) (unsafe.Pointer, bool) {
	if v.IsNil() {
		return nil, true
	}
	if !v.CanInterface() {
		return nil, false
	}
	p := reflect.New(v.Type())
	p.Elem().Set(v)
	return *(*unsafe.Pointer)(p.UnsafePointer()), true
}

// c31Same reports whether b is "a, unchanged": equal scalars, identical pointers/maps/chans/funcs, slices with the
// same backing array, length and capacity, interfaces with the same dynamic type and same value, recursively for
// arrays and structs (unexported fields included).
func c31Same(a, b reflect.Value) bool {
	if a.IsValid() != b.IsValid() {
		return false
	}
	if !a.IsValid() {
		return true
	}
	if a.Type() != b.Type() {
		return false
	}
	switch a.Kind() {
	case reflect.Bool:
		return a.Bool() == b.Bool()
	case reflect.Int, reflect.Int8, reflect.Int16, reflect.Int32, reflect.Int64:
		return a.Int() == b.Int()
	case reflect.Uint, reflect.Uint8, reflect.Uint16, reflect.Uint32, reflect.Uint64, reflect.Uintptr:
		return a.Uint() == b.Uint()
	case reflect.Float32, reflect.Float64:
		return a.Float() == b.Float()
	case reflect.Complex64, reflect.Complex128:
		return a.Complex() == b.Complex()
	case reflect.String:
		return a.String() == b.String()
	case reflect.Ptr, reflect.Map, reflect.Chan, reflect.UnsafePointer:
		return a.Pointer() == b.Pointer()
	case reflect.Func:
		pa, ok1 := c31FuncID(a)
		pb, ok2 := c31FuncID(b)
		if !ok1 || !ok2 {
			return a.IsNil() == b.IsNil()
		}
		return pa == pb
	case reflect.Slice:
		if a.IsNil() != b.IsNil() || a.Len() != b.Len() || a.Cap() != b.Cap() {
			return false
		}
		return a.Pointer() == b.Pointer()
	case reflect.Interface:
		if a.IsNil() || b.IsNil() {
			return a.IsNil() == b.IsNil()
		}
		return c31Same(a.Elem(), b.Elem())
	case reflect.Array:
		for i := 0; i < a.Len(); i++ {
			if !c31Same(a.Index(i), b.Index(i)) {
				return false
			}
		}
		return true
	case reflect.Struct:
		for i := 0; i < a.NumField(); i++ {
			if !c31Same(a.Field(i), b.Field(i)) {
				return false
			}
		}
		return true
	}
	return false
}

func c31Show(v reflect.Value) string {
	if !v.IsValid() {
		return "<invalid>"
	}
	switch v.Kind() {
	case reflect.Ptr, reflect.Map, reflect.Chan, reflect.UnsafePointer:
		return fmt.Sprintf("(%v)%#x", v.Type(), v.Pointer())
	case reflect.Slice:
		return fmt.Sprintf("(%v)[%#x len=%d cap=%d]", v.Type(), v.Pointer(), v.Len(), v.Cap())
	case reflect.Func:
		p, _ := c31FuncID(v)
		return fmt.Sprintf("(%v)closure@%p", v.Type(), p)
	case reflect.Interface:
		if v.IsNil() {
			return fmt.Sprintf("(%v)nil", v.Type())
		}
		return fmt.Sprintf("%v{%s}", v.Type(), c31Show(v.Elem()))
	}
	if v.CanInterface() {
		s := fmt.Sprintf("(%v)%v", v.Type(), v.Interface())
		if len(s) > 80 {
			s = s[:80] + "…"
		}
		return s
	}
	return fmt.Sprintf("(%v)…", v.Type())
}

// ---- one proxy call ---------------------------------------------------------------------------

type c31Call struct {
	field string
	args  []reflect.Value
}

type c31ProxyCase struct {
	path, name string
	it, pt     reflect.Type
}

// c31ProxyCall performs ONE call of method mi of the proxy with the given alphabet indices and returns "" or the
// (kind, description) of the first discrepancy. varN < 0: variadic arguments are passed as a slice (CallSlice);
// varN >= 0: the method is called with varN individual variadic arguments (Call).
func (s *c31Sentinels) proxyCall(pc *c31ProxyCase, mname string, argIdx, outIdx []int, varN int) (kind, what string) {
	it, pt := pc.it, pc.pt
	pv := reflect.New(pt)
	obj := &c31Obj{ID: 424242}
	pv.Elem().Field(0).Set(reflect.ValueOf(obj))
	var calls []c31Call
	var wantOuts []reflect.Value
	for f := 1; f < pt.NumField(); f++ {
		sf := pt.Field(f)
		if sf.Type.Kind() != reflect.Func {
			return "shape", fmt.Sprintf("field %s of %v is not a func", sf.Name, pt)
		}
		fname, ft := sf.Name, sf.Type
		pv.Elem().Field(f).Set(reflect.MakeFunc(ft, func(args []reflect.Value) []reflect.Value {
			calls = append(calls, c31Call{fname, append([]reflect.Value(nil), args...)})
			res := make([]reflect.Value, ft.NumOut())
			for i := range res {
				idx := 0
				if i < len(outIdx) {
					idx = outIdx[i]
				}
				res[i] = s.make(ft.Out(i), 301+3*i+idx, 2)
			}
			if fname == mname+"_" {
				wantOuts = res
			}
			return res
		}))
	}
	iv := reflect.New(it).Elem()
	iv.Set(pv) // *P_x stored in a value of the interface type: the call below goes through the itab
	m := iv.MethodByName(mname)
	if !m.IsValid() {
		return "shape", fmt.Sprintf("interface %v has no method %s", it, mname)
	}
	mt := m.Type()
	n := mt.NumIn()
	args := make([]reflect.Value, 0, n+2)
	for p := 0; p < n; p++ {
		idx := 0
		if p < len(argIdx) {
			idx = argIdx[p]
		}
		if mt.IsVariadic() && p == n-1 {
			st := mt.In(p)
			if varN >= 0 {
				for k := 0; k < varN; k++ {
					args = append(args, s.make(st.Elem(), 1+3*p+idx+17*k, 2))
				}
				break
			}
			// slice form: alphabet = nil, 1 element, 2 elements
			switch idx {
			case 0:
				args = append(args, reflect.Zero(st))
			default:
				sl := reflect.MakeSlice(st, idx, idx)
				for k := 0; k < idx; k++ {
					sl.Index(k).Set(s.make(st.Elem(), 1+3*p+idx+17*k, 2))
				}
				args = append(args, sl)
			}
			continue
		}
		args = append(args, s.make(mt.In(p), 1+3*p+idx, 2))
	}
	var outs []reflect.Value
	if p := core.Catch(func() {
		if mt.IsVariadic() && varN < 0 {
			outs = m.CallSlice(args)
		} else {
			outs = m.Call(args)
		}
	}); p != nil {
		return "panic", fmt.Sprintf("calling %s panics: %v", mname, p)
	}
	if len(calls) != 1 || calls[0].field != mname+"_" {
		var got []string
		for _, c := range calls {
			got = append(got, c.field)
		}
		return "called", fmt.Sprintf("method %s must call field %s_ exactly once; fields called: %v", mname, mname, got)
	}
	rec := calls[0].args
	if len(rec) < 1 || rec[0].Kind() != reflect.Interface || rec[0].IsNil() || rec[0].Elem().Kind() != reflect.Ptr || rec[0].Elem().Pointer() != reflect.ValueOf(obj).Pointer() {
		got := "<none>"
		if len(rec) > 0 {
			got = c31Show(rec[0])
		}
		return "object", fmt.Sprintf("method %s: first argument of %s_ must be the proxy's Object %p, got %s", mname, mname, obj, got)
	}
	rec = rec[1:]
	if mt.IsVariadic() && varN >= 0 {
		// individual variadic arguments: the recorder sees them packed into a fresh slice
		if len(rec) != n {
			return "args", fmt.Sprintf("method %s: %s_ received %d arguments after the object, expected %d", mname, mname, len(rec), n)
		}
		for p := 0; p < n-1; p++ {
			if !c31Same(args[p], rec[p]) {
				return "args", fmt.Sprintf("method %s: argument %d passed as %s, received by %s_ as %s", mname, p, c31Show(args[p]), mname, c31Show(rec[p]))
			}
		}
		vs := rec[n-1]
		if vs.Kind() != reflect.Slice || vs.Len() != varN {
			return "variadic", fmt.Sprintf("method %s called with %d variadic arguments, %s_ received %s", mname, varN, mname, c31Show(vs))
		}
		for k := 0; k < varN; k++ {
			if !c31Same(args[n-1+k], vs.Index(k)) {
				return "variadic", fmt.Sprintf("method %s: variadic argument %d passed as %s, received by %s_ as %s", mname, k, c31Show(args[n-1+k]), mname, c31Show(vs.Index(k)))
			}
		}
	} else {
		if len(rec) != len(args) {
			return "args", fmt.Sprintf("method %s: %s_ received %d arguments after the object, expected %d", mname, mname, len(rec), len(args))
		}
		for p := range args {
			if !c31Same(args[p], rec[p]) {
				k := "args"
				if mt.IsVariadic() && p == n-1 {
					k = "variadic"
				}
				return k, fmt.Sprintf("method %s: argument %d passed as %s, received by %s_ as %s", mname, p, c31Show(args[p]), mname, c31Show(rec[p]))
			}
		}
	}
	if len(outs) != len(wantOuts) {
		return "results", fmt.Sprintf("method %s returned %d results, %s_ returned %d", mname, len(outs), mname, len(wantOuts))
	}
	for i := range outs {
		if !c31Same(wantOuts[i], outs[i]) {
			return "results", fmt.Sprintf("method %s: result %d returned by %s_ as %s, came back as %s", mname, i, mname, c31Show(wantOuts[i]), c31Show(outs[i]))
		}
	}
	return "", ""
}

// c31Combos enumerates index vectors over a 3-value alphabet: all 3^n when n <= c31MaxExhaustiveParams, otherwise
// per-position variation (each position takes each of the 3 values while the others stay at 0).
func c31Combos(n int) (combos [][]int, exhaustive bool) {
	if n == 0 {
		return [][]int{{}}, true
	}
	if n <= c31MaxExhaustiveParams {
		total := 1
		for i := 0; i < n; i++ {
			total *= 3
		}
		for k := 0; k < total; k++ {
			v := make([]int, n)
			x := k
			for i := 0; i < n; i++ {
				v[i] = x % 3
				x /= 3
			}
			combos = append(combos, v)
		}
		return combos, true
	}
	combos = append(combos, make([]int, n))
	for i := 0; i < n; i++ {
		for c := 1; c < 3; c++ {
			v := make([]int, n)
			v[i] = c
			combos = append(combos, v)
		}
	}
	return combos, false
}

func c31ProxySig(pc *c31ProxyCase, meth, kind string) string {
	return fmt.Sprintf("C31|proxy|%s.%s.%s|%s", pc.path, pc.pt.Name(), meth, kind)
}

// c31ProxyList returns every (path, interface name) with a proxy, sorted.
func c31ProxyList() []c31ProxyCase {
	var l []c31ProxyCase
	for _, path := range c31Paths(true) {
		pkg := imports.Packages[path]
		var names []string
		for n := range pkg.Proxies {
			names = append(names, n)
		}
		sort.Strings(names)
		for _, n := range names {
			l = append(l, c31ProxyCase{path: path, name: n, it: pkg.Types[n], pt: pkg.Proxies[n]})
		}
	}
	return l
}

func c31RunProxies(c *core.Ctx) {
	s := newC31Sentinels()
	if c.Shard == 0 {
		c31ProxySelfTest(c, s)
	}
	// Validate()-facts of every table (the loader relies on them)
	for i, path := range c31Paths(true) {
		if !c.Mine(i) {
			continue
		}
		pkg := imports.Packages[path]
		c.Eval(1)
		c.Count("B_validate_calls", 1)
		if p := core.Catch(func() { pkg.Validate(path) }); p != nil {
			c.Violation("C31|validate|"+path, fmt.Sprintf("imports.Package.Validate(%q) panics: %v", path, p), c31Case{Part: "B", Pkg: path})
		}
	}
	capped := 0
	sampled := false
	for i, pc := range c31ProxyList() {
		if !c.Mine(i) {
			continue
		}
		if c.Expired() {
			return
		}
		pc := pc
		c.Count("proxies", 1)
		if pc.it == nil || pc.it.Kind() != reflect.Interface || pc.pt == nil || pc.pt.Kind() != reflect.Struct ||
			pc.pt.NumField() < 1 || pc.pt.Field(0).Name != "Object" || !reflect.PtrTo(pc.pt).Implements(pc.it) {
			c.Violation(fmt.Sprintf("C31|proxy|%s.%s|shape", pc.path, pc.name), fmt.Sprintf("proxy %v for %s.%s (%v) is not a struct{Object; funcs} whose pointer implements the interface", pc.pt, pc.path, pc.name, pc.it), c31Case{Part: "B", Pkg: pc.path, Name: pc.name})
			continue
		}
		for mi := 0; mi < pc.it.NumMethod(); mi++ {
			meth := pc.it.Method(mi)
			c.Count("proxy_methods", 1)
			mt := meth.Type
			nin, nout := mt.NumIn(), mt.NumOut()
			c.Nontrivial(fmt.Sprintf("B|%s.%s.%s", pc.path, pc.pt.Name(), meth.Name))
			if mt.IsVariadic() {
				c.Count("proxy_methods_variadic", 1)
			}
			report := func(kind, what string, argIdx, outIdx []int, varN int) {
				c.Violation(c31ProxySig(&pc, meth.Name, kind), fmt.Sprintf("%s.%s (proxy for %s.%s): %s", pc.path, pc.pt.Name(), pc.path, pc.name, what),
					c31Case{Part: "B", Pkg: pc.path, Name: pc.name, Meth: meth.Name, Args: argIdx, Outs: outIdx, VarN: varN})
			}
			calls, perPos := s.enumerateMethod(&pc, meth, report)
			c.Eval(calls)
			c.Count("proxy_calls", calls)
			if perPos {
				capped++
				c.Count("proxy_methods_per_position_only", 1)
			}
			argCombos, _ := c31Combos(nin)
			outCombos, _ := c31Combos(nout)
			if !sampled && c.Shard == 0 && nin >= 2 && nout >= 1 {
				sampled = true
				c.Sample(map[string]interface{}{"part": "B", "proxy": pc.path + "." + pc.pt.Name(), "method": meth.Name, "type": mt.String(),
					"arg_combinations": len(argCombos), "result_combinations": len(outCombos)})
			}
		}
	}
	var dg []string
	for k := range s.degenerate {
		dg = append(dg, k)
	}
	sort.Strings(dg)
	if len(dg) > 0 {
		c.Set(fmt.Sprintf("B_reduced_alphabet_types_shard%02d", c.Shard), strings.Join(dg, ", "))
	}
}

func c31ReplayProxy(c *core.Ctx, cs *c31Case) {
	s := newC31Sentinels()
	for _, pc := range c31ProxyList() {
		if pc.path != cs.Pkg || pc.name != cs.Name {
			continue
		}
		pc := pc
		if cs.Meth == "" {
			if pc.it == nil || pc.pt == nil || pc.pt.Kind() != reflect.Struct || !reflect.PtrTo(pc.pt).Implements(pc.it) {
				c.Violation(fmt.Sprintf("C31|proxy|%s.%s|shape", pc.path, pc.name), "proxy shape", cs)
			}
			return
		}
		if kind, what := s.proxyCall(&pc, cs.Meth, cs.Args, cs.Outs, cs.VarN); kind != "" {
			c.Violation(c31ProxySig(&pc, cs.Meth, kind), what, cs)
		}
		return
	}
	if cs.Name == "" {
		pkg, ok := imports.Packages[cs.Pkg]
		if ok {
			if p := core.Catch(func() { pkg.Validate(cs.Pkg) }); p != nil {
				c.Violation("C31|validate|"+cs.Pkg, fmt.Sprint(p), cs)
			}
		}
	}
}
