package props

// C17 enumeration: what is fed to the sorter.

import (
	"fmt"
	"go/ast"
	"go/importer"
	"go/parser"
	"go/token"
	"go/types"
	"io/ioutil"
	"os"
	"path/filepath"
	"sort"
	"strings"

	"verif/harness/core"
)

var c17Kinds = []byte{'C', 'V', 'T', 'F'}

// plain dependency placement per source kind (used for back edges in part A)
func c17Plain(kind byte) int {
	switch kind {
	case 'T':
		return c17PlaceIdx["t-ptr"]
	case 'F':
		return c17PlaceIdx["s-d0"]
	}
	return c17PlaceIdx["v-direct"]
}

type c17Enum struct {
	c          *core.Ctx
	k          *c17Checker
	n          int // running input number (sharding)
	types      *c17TypesCheck
	pending    []c17Pending
	hangs      [2]int
	hangBudget int
}

type c17Pending struct {
	part   string
	chunks []c17Chunk
	an     *c17Analysis
	reps   int
	cross  bool
	key    string
	n      int
}

// one queues one input if it belongs to this shard; queued inputs are screened for non-termination
// in a child process (flush) before they are sorted in-process.
// repsLo is used when no type lies on a cycle (the sorter is then deterministic by construction apart from the
// minimum search over a map), repsHi when the forward-declaration branch can be reached.
func (e *c17Enum) one(part string, chunks []c17Chunk, repsLo, repsHi int, crossCheck bool, key string) {
	e.n++
	if !e.c.Mine(e.n) {
		return
	}
	an := c17Analyze(chunks)
	reps := repsLo
	if an.risky {
		reps = repsHi
	}
	e.pending = append(e.pending, c17Pending{part, chunks, an, reps, crossCheck, key, e.n})
	if len(e.pending) >= 4000 {
		e.flush()
	}
}

func (e *c17Enum) flush() {
	pend := e.pending
	e.pending = nil
	if len(pend) == 0 {
		return
	}
	// screening in a child process (see c17_screen.go). Every detected hang costs CPU time, and on a tree with the
	// non-termination defect a large part of the cyclic inputs hangs: after hangBudget detected hangs per worker the
	// inputs of the class that hangs (reference: unbreakable cycle in a run with a type on a cycle) are no longer executed;
	// they are counted and the run is reported as not exhaustive.
	skipped := map[int]bool{}
	hangs := map[int]bool{}
	// two classes are screened with separate budgets: inputs whose reference graph has an unbreakable cycle in a run
	// with a type on a cycle (the class that hangs on a tree with the defect), and all other risky inputs
	for class := 0; class < 2; class++ {
		var risky [][]c17Chunk
		var riskyIdx []int
		for i := range pend {
			if !pend[i].an.risky || pend[i].an.err != "" || pend[i].an.loopType != (class == 0) {
				continue
			}
			risky = append(risky, pend[i].chunks)
			riskyIdx = append(riskyIdx, i)
		}
		budget := e.hangBudget
		if class == 1 {
			budget = 20
		}
		if len(risky) == 0 {
			continue
		}
		if e.hangs[class] >= budget {
			for _, i := range riskyIdx {
				skipped[i] = true
			}
			continue
		}
		e.c.Count("screened_in_child_process", len(risky))
		hs, stopped := c17Screen(risky, fmt.Sprintf("%d-%d-%d", e.c.Shard, pend[0].n, class), budget-e.hangs[class])
		for _, h := range hs {
			hangs[riskyIdx[h]] = true
			e.hangs[class]++
		}
		if stopped >= 0 {
			for j := stopped; j < len(risky); j++ {
				skipped[riskyIdx[j]] = true
			}
		}
	}
	for i := range pend {
		p := &pend[i]
		if e.c.Expired() {
			return
		}
		if skipped[i] {
			e.c.Count("inputs_not_executed_because_their_class_does_not_terminate", 1)
			e.c.Cap("the sorter does not terminate on inputs with an unbreakable cycle involving a type: after the first detected hangs per worker such inputs are counted but not executed")
			continue
		}
		e.k.part = p.part
		var out string
		if hangs[i] {
			out = "hang"
			e.k.reportHang(p.chunks, p.an, p.reps)
		} else {
			out = e.k.check(p.chunks, p.an, p.reps)
		}
		e.c.Count("outcome:"+out, 1)
		e.c.Count("inputs:"+p.part, 1)
		if out != "sorted" || p.key != "" {
			e.c.Nontrivial(p.part + "|" + c17Source(p.chunks))
		}
		if p.cross {
			e.types.crossCheck(e.c, p.an)
		}
		if e.c.WantSample() && (out == "sorted+typefwd" || (out == "sorted" && p.n%97 == 0)) {
			e.c.Sample(map[string]interface{}{"part": p.part, "input": c17Source(p.chunks), "outcome": out, "sorted_times": p.reps})
		}
	}
}

func c17Run(c *core.Ctx) {
	c.Rule("every input is parsed by gomacro's parser and sorted by dep.Sorter R times in one process; all distinct results are validated in lock-step against an " +
		"independent free-identifier analysis (std go/ast, cross-checked with go/types on the inputs that type-check and on GOROOT/test programs) and the reference order " +
		"'earliest in source among ready'. non-trivial = distinct inputs whose expected result is not simply the source order with no shadowing involved: a declaration must move, " +
		"a forward type declaration or a declaration loop is expected, a shadowed/non-reference occurrence of a declared name is present, or runs of different phases are mixed")
	c.Assume("determinism sub-check is by repetition (R sorts per input in one process): Go's map iteration order cannot be controlled; a difference once seen is a proof, absence is probabilistic (miss probability (1-p)^R for a minority outcome of probability p)")
	e := &c17Enum{c: c, k: &c17Checker{c: c}, types: newC17TypesCheck(), hangBudget: c.Pick(6, 30)}
	repsAcyclic, repsCyclic := c.Pick(16, 32), c.Pick(64, 128)
	c.Set("sorts_per_input", map[string]string{
		"A,B(n<=3)": fmt.Sprintf("%d, %d when a type lies on a cycle", repsAcyclic, repsCyclic),
		"B(n=4)":    fmt.Sprintf("%d, %d when a type lies on a cycle", c.Pick(4, 8), c.Pick(16, 64)),
		"B(n=5)":    "thorough only: 4, 32 when a type lies on a cycle",
		"C":         fmt.Sprint(repsAcyclic), "D": fmt.Sprint(repsCyclic * 2)})

	// C17_PARTS (debugging aid only): restrict the run to some parts, e.g. C17_PARTS=AV; a restricted run is reported as capped
	parts := os.Getenv("C17_PARTS")
	want := func(p string) bool { return parts == "" || strings.Contains(parts, p) }
	if parts != "" {
		c.Cap("restricted to parts " + parts + " by C17_PARTS")
	}
	// ---- part D: hand-written special shapes
	for i, sp := range c17Specials {
		if !want("D") {
			break
		}
		var chunks []c17Chunk
		for _, line := range strings.Split(sp, "\n") {
			chunks = append(chunks, c17Chunk{Class: "decl", Text: line})
		}
		e.one("D:special", chunks, repsCyclic*2, repsCyclic*2, true, fmt.Sprint("special", i))
	}

	e.flush()

	// ---- part A: one reference, every placement x source kind x target kind x source order x back edge
	for _, ks := range c17Kinds {
		if !want("A") {
			break
		}
		var places []int
		places = append(places, c17Applicable(ks, true)...)
		places = append(places, c17Applicable(ks, false)...)
		for _, kt := range c17Kinds {
			for _, pl := range places {
				for order := 0; order < 2; order++ {
					for back := 0; back < 2; back++ {
						// the referring declaration is S, the target is X
						s := c17Decl{Kind: ks, Refs: []c17Ref{{To: 1, Place: pl}}}
						x := c17Decl{Kind: kt}
						if back == 1 {
							x.Refs = []c17Ref{{To: 0, Place: c17Plain(kt)}}
						}
						var decls []c17Decl
						if order == 0 {
							s.Name, x.Name = c17Name(0, ks), c17Name(1, kt)
							decls = []c17Decl{s, x}
						} else {
							x.Name, s.Name = c17Name(0, kt), c17Name(1, ks)
							s.Refs[0].To = 0
							if back == 1 {
								x.Refs[0].To = 1
							}
							decls = []c17Decl{x, s}
						}
						e.one("A:placements", c17RenderDecls(decls), repsAcyclic, repsCyclic, true, c17Placements[pl].Name)
						c.Count("placement_inputs", 1)
					}
				}
			}
		}
	}
	c.Set("placements", len(c17Placements))
	e.flush()
	if c.Expired() {
		return
	}

	// ---- part C: sequences mixing package clauses, imports, declarations and statements
	if want("C") {
		e.mixes(c.Pick(4, 5), repsAcyclic)
	}

	e.flush()

	// ---- part V: validation of the reference analysis itself on GOROOT/test programs
	if want("V") {
		e.types.corpus(c, c.Pick(400, 100000))
	}
	if !want("B") {
		return
	}

	// ---- part B: all directed graphs on n declarations x all kind vectors
	maxN := c.Pick(4, 4)
	for n := 1; n <= maxN; n++ {
		variants := 1
		if n <= 3 {
			variants = c.Pick(2, 6)
		} else if c.Thorough() {
			variants = 2
		}
		lo, hi := repsAcyclic, repsCyclic
		if n == 4 {
			lo, hi = c.Pick(4, 8), c.Pick(16, 64)
		}
		// quick, n = 4: every digraph and every kind vector, but only the pairs with (graph+vector) mod 4 == 0
		stride := 1
		if n == 4 && c.Quick() {
			stride = 4
			c.Set("n4_pairs", "quick: every digraph x every kind vector with (graph index + vector index) mod 4 == 0; thorough: full product")
		}
		e.graphs(n, nil, variants, lo, hi, n <= 3 || c.Thorough(), stride)
		e.flush()
		if c.Expired() {
			return
		}
	}
	if c.Thorough() {
		// n = 5: all 2^20 digraphs for a fixed list of kind vectors (stated bound; not all 4^5 vectors)
		vecs := []string{"TTTTT", "VVVVV", "FFFFF", "TVFCT"}
		c.Set("n5_kind_vectors", vecs)
		for _, v := range vecs {
			e.graphs(5, []byte(v), 1, 4, 32, false, 1)
			if c.Expired() {
				return
			}
		}
	}
	e.flush()
}

// graphs enumerates all digraphs on n nodes; kinds == nil: all kind vectors.
func (e *c17Enum) graphs(n int, kinds []byte, variants, repsAcyclic, repsCyclic int, crossCheck bool, stride int) {
	c := e.c
	type pair struct{ i, j int }
	var pairs []pair
	for i := 0; i < n; i++ {
		for j := 0; j < n; j++ {
			if i != j {
				pairs = append(pairs, pair{i, j})
			}
		}
	}
	var vecs [][]byte
	if kinds != nil {
		vecs = [][]byte{kinds}
	} else {
		total := 1
		for i := 0; i < n; i++ {
			total *= 4
		}
		for v := 0; v < total; v++ {
			vec := make([]byte, n)
			x := v
			for i := 0; i < n; i++ {
				vec[i] = c17Kinds[x%4]
				x /= 4
			}
			vecs = append(vecs, vec)
		}
	}
	deps := map[byte][]int{}
	decoys := map[byte][]int{}
	for _, k := range c17Kinds {
		deps[k] = c17Applicable(k, true)
		decoys[k] = c17Applicable(k, false)
	}
	part := fmt.Sprintf("B:graphs-n%d", n)
	for vi, vec := range vecs {
		if c.Expired() {
			return
		}
		for g := 0; g < 1<<uint(len(pairs)); g++ {
			if (g+vi)%stride != 0 {
				continue
			}
			for v := 0; v < variants; v++ {
				e.n++
				if !c.Mine(e.n) {
					continue
				}
				e.n-- // one() counts again
				decls := make([]c17Decl, n)
				for i := 0; i < n; i++ {
					decls[i] = c17Decl{Kind: vec[i], Name: c17Name(i, vec[i])}
				}
				hasDecoy := false
				for pi, p := range pairs {
					k := vec[p.i]
					if g>>uint(pi)&1 == 1 {
						l := deps[k]
						decls[p.i].Refs = append(decls[p.i].Refs, c17Ref{To: p.j, Place: l[(g*7+p.i*3+p.j*5+v*11+vi)%len(l)]})
					} else if (g+p.i+2*p.j+v)%3 == 0 {
						l := decoys[k]
						if len(l) > 0 {
							decls[p.i].Refs = append(decls[p.i].Refs, c17Ref{To: p.j, Place: l[(g*5+p.i*7+p.j*3+v*13+vi)%len(l)]})
							hasDecoy = true
						}
					}
				}
				key := ""
				if hasDecoy {
					key = "decoy"
				}
				e.one(part, c17RenderDecls(decls), repsAcyclic, repsCyclic, crossCheck, key)
			}
		}
	}
}

// mixes enumerates all sequences up to length maxLen over an alphabet of package clauses, imports, declarations
// (each at most once) and statements.
func (e *c17Enum) mixes(maxLen int, reps int) {
	alphabet := []c17Chunk{
		{Class: "package", Text: "package main", Items: []string{"Package"}},
		{Class: "import", Text: `import "fmt"`, Items: []string{"Import"}},
		{Class: "import", Text: `import ( "os"; str "strings" )`, Items: []string{"Import", "Import"}},
		{Class: "decl", Text: "var ma = mb + mf()"},
		{Class: "decl", Text: "var mb = 2"},
		{Class: "decl", Text: "func mf() int { return mb }"},
		{Class: "stmt", Text: "mb = ma", Items: []string{"Stmt"}},
		{Class: "stmt", Text: "mf()", Items: []string{"Expr"}},
		{Class: "stmt", Text: "if mb > 0 { mb-- }", Items: []string{"Stmt"}},
	}
	var rec func(seq []int)
	rec = func(seq []int) {
		if len(seq) > 0 {
			chunks := make([]c17Chunk, len(seq))
			for i, a := range seq {
				chunks[i] = alphabet[a]
			}
			e.one("C:mixed-phases", chunks, reps, reps, false, "mix")
		}
		if len(seq) == maxLen || e.c.Expired() {
			return
		}
		for a := range alphabet {
			if alphabet[a].Class == "decl" {
				used := false
				for _, b := range seq {
					if b == a {
						used = true
					}
				}
				if used {
					continue
				}
			}
			rec(append(seq, a))
		}
	}
	rec(nil)
}

var c17Specials = []string{
	// the confirmed defect: three mutually referring struct types + a variable
	"type A struct { B *B }\ntype B struct { C *C; A *A }\ntype C struct { A *A; B *B }\nvar x A",
	"var x A\ntype C struct { A *A; B *B }\ntype B struct { C *C; A *A }\ntype A struct { B *B }",
	"type A struct { b *B; c *C }\ntype B struct { a *A; c *C }\ntype C struct { a *A; b *B }\ntype D struct { a A; b B; c C }\nvar x D",
	// grouped declarations
	"var ( a = b; b = c )\nconst c = 1",
	"type ( A struct{ b *B }; B struct{ a *A } )",
	"const ( a = iota + k; b; c )\nconst k = 10",
	"const ( a, b = iota, k; c, d )\nconst k = 10",
	"const ( a T = iota; b; c )\ntype T int",
	"var a, b = f()\nfunc f() (int, int) { return c, c }\nvar c = 1",
	"var a, b = c, d\nvar c, d = 1, a",
	"var a, b int = c, 2\nvar c = b",
	// multi-name specs: every name has its own value dependencies
	"const a, b = 1, k\nconst k = 2",
	"const a, b = k, 1\nconst k = 2",
	"const k = 2\nconst a, b = 1, k",
	"const ( a, b = k, 1; c, d )\nconst k = 2",
	"var a, b = 1, k\nvar k = 2",
	"var a, b = k, 1\nvar k = 2",
	"var a, b, c = 1, k, m\nvar m = k\nvar k = 2",
	"var a, b T = 1, k\nvar k T = 2\ntype T int",
	// methods
	"func (t T) M() int { return v }\ntype T struct{}\nvar v = 1",
	"func (t *T) M() int { return t.n }\nvar v = T{}.M\ntype T struct{ n int }",
	// self references
	"type L struct { next *L }\nvar l L",
	"func f(n int) int { if n == 0 { return 0 }; return f(n-1) }\nvar v = f(3)",
	"var v = func() int { return v }()",
	// blank
	"var _ = a\nvar a = 1",
	"var a = 1\nvar _ = a",
	// function-only and var-only cycles
	"func f() { g() }\nfunc g() { f() }",
	"func g() { f() }\nvar v = g\nfunc f() { g() }",
	"var a = b\nvar b = a",
	"var a = f()\nfunc f() int { return a }",
	"func f() int { return a }\nvar a = f()",
	// type cycles with something else on the cycle
	"type T [len(v)]int\nvar v T",
	"type T struct { p *U }\ntype U [c]int\nconst c = len(T{}.p)",
	// types via alias and embedded
	"type A = B\ntype B struct{ *A }",
	"type I interface { M() J }\ntype J interface { N() I }\nvar i I",
	// generic-free long chains
	"var a = b\nvar b = c\nvar c = d\nvar d = e\nvar e = f\nvar f = 1",
	"var f = 1\nvar e = f\nvar d = e\nvar c = d\nvar b = c\nvar a = b",
}

// ---------------------------------------------------------------------------
// cross-check of the reference analysis with go/types

type c17TypesCheck struct {
	imp types.Importer
}

func newC17TypesCheck() *c17TypesCheck {
	return &c17TypesCheck{imp: importer.ForCompiler(token.NewFileSet(), "source", nil)}
}

// crossCheck compares the reference analysis of every run of declarations with go/types (when the run type-checks).
func (t *c17TypesCheck) crossCheck(c *core.Ctx, an *c17Analysis) {
	for _, d := range an.decl {
		t.compare(c, d.units, d.file, d.fset, d.src, "generated")
	}
}

func (t *c17TypesCheck) compare(c *core.Ctx, units []*refUnit, f *ast.File, fset *token.FileSet, src, origin string) {
	deps, ok := refTypesDeps(f, fset, t.imp)
	if !ok {
		c.Count("oracle_crosscheck_skipped_not_typechecking:"+origin, 1)
		return
	}
	c.Count("oracle_crosscheck_inputs:"+origin, 1)
	count := map[string]int{}
	for _, u := range units {
		count[u.Name]++
	}
	for _, u := range units {
		if u.Kind == "Method" || u.Name == "_" || count[u.Name] > 1 || u.Generic {
			continue
		}
		want, have := deps[u.Name], u.Deps
		c.Count("oracle_crosscheck_units:"+origin, 1)
		if !sameStrings(want, have) && !(len(want) == 0 && len(have) == 0) {
			if implicitConstRepetition(f, u.Name) {
				// a local const group with implicit repetition re-checks the same identifiers in another scope:
				// types.Info.Uses keeps only the last resolution (e.g. GOROOT/test/const8.go), so it cannot serve as reference here
				c.Count("oracle_crosscheck_units_skipped_implicit_const_repetition", 1)
				continue
			}
			c.Violation("C17|harness|reference-analysis-differs-from-go/types",
				fmt.Sprintf("reference analysis of %s: %v, go/types Uses: %v (%s)\n%s", u.Name, have, want, origin, src), map[string]string{"src": src})
		}
	}
}

// implicitConstRepetition tells whether the function declaration `name` contains a const group whose specs inherit expressions.
func implicitConstRepetition(f *ast.File, name string) bool {
	found := false
	for _, d := range f.Decls {
		fd, ok := d.(*ast.FuncDecl)
		if !ok || fd.Name.Name != name || fd.Body == nil {
			continue
		}
		ast.Inspect(fd.Body, func(n ast.Node) bool {
			if gd, ok := n.(*ast.GenDecl); ok && gd.Tok == token.CONST {
				for _, sp := range gd.Specs {
					if vs, ok := sp.(*ast.ValueSpec); ok && vs.Values == nil {
						found = true
					}
				}
			}
			return true
		})
	}
	return found
}

// corpus runs the cross-check on the single-file programs of GOROOT/test.
func (t *c17TypesCheck) corpus(c *core.Ctx, max int) {
	files, _ := filepath.Glob("/usr/share/go-1.23/test/*.go")
	more, _ := filepath.Glob("/usr/share/go-1.23/test/*/*.go")
	files = append(files, more...)
	sort.Strings(files)
	if len(files) > max {
		files = files[:max]
	}
	c.Set("oracle_corpus_files", len(files))
	for i, path := range files {
		if !c.Mine(i) {
			continue
		}
		if c.Expired() {
			return
		}
		data, err := ioutil.ReadFile(path)
		if err != nil {
			continue
		}
		fset := token.NewFileSet()
		f, err := parser.ParseFile(fset, path, data, parser.SkipObjectResolution)
		if err != nil {
			continue
		}
		var units []*refUnit
		if p := core.Catch(func() { units = refAnalyzeFile(fset, f) }); p != nil {
			c.Violation("C17|harness|reference-analysis-panic", fmt.Sprintf("%s: %v", path, p), map[string]string{"file": path})
			continue
		}
		t.compare(c, units, f, fset, path, "goroot-test")
	}
}
