package props

// C37 — REPL command lookup: BFS over command tables (full state deduplication, sound
// because lookup is specified as a function of the table content) plus an un-merged
// enumeration of all Add/Del sequences to a small depth (to test that very claim:
// slice layout after removals is hidden state). Every lookup of every prefix is
// compared with a linear-scan model in every visited state.

import (
	"bytes"
	"encoding/json"
	"fmt"
	"io"
	"sort"
	"strings"

	"github.com/cosmos72/gomacro/base"
	"github.com/cosmos72/gomacro/fast"

	"verif/harness/core"
)

func init() {
	core.Register(&core.Check{ID: "C37", Level: "model_checking", Run: c37Run, Replay: c37Replay})
}

var c37Names = []string{"a", "ab", "abc", "abd", "b", "ba", "e", "en", "env", "envy"}

type c37Op struct {
	Del  bool   `json:"del"`
	Name string `json:"name"`
}

type c37Case struct {
	Ops    []c37Op `json:"ops"`
	Lookup string  `json:"lookup"`
	ViaCmd bool    `json:"via_interp_cmd"`
}

type c37World struct {
	ir       *fast.Interp
	envOrig  fast.Cmd
	defaults []string // default command names other than env
	invoked  []string
	gen      int
	stderr   bytes.Buffer
}

func newC37World() *c37World {
	w := &c37World{}
	w.ir = fast.New()
	g := &w.ir.Comp.Globals
	g.Stderr = &w.stderr
	g.Stdout = &w.stderr
	for _, cmd := range fast.Commands.List() {
		if cmd.Name == "env" {
			w.envOrig = cmd
		} else {
			known := false
			for _, n := range c37Names {
				if n == cmd.Name {
					known = true
				}
			}
			if !known {
				w.defaults = append(w.defaults, cmd.Name)
			}
		}
	}
	return w
}

// reset brings the global table back to the defaults with fresh buckets for the alphabet's letters.
func (w *c37World) reset() map[string]string {
	for _, n := range c37Names {
		fast.Commands.Del(n)
	}
	// "env" (a default) is part of the alphabet: it starts absent and is re-added by Add ops as a recording command
	return map[string]string{}
}

func (w *c37World) apply(model map[string]string, op c37Op) (ok bool, msg string) {
	if op.Del {
		_, had := model[op.Name]
		got := fast.Commands.Del(op.Name)
		delete(model, op.Name)
		if got != had {
			return false, fmt.Sprintf("Del(%q) returned %v, model %v", op.Name, got, had)
		}
		return true, ""
	}
	w.gen++
	name := op.Name
	help := fmt.Sprintf("%s#%d", name, w.gen)
	cmd := fast.Cmd{Name: name, Help: help, Func: func(ir *fast.Interp, arg string, opt base.CmdOpt) (string, base.CmdOpt) {
		w.invoked = append(w.invoked, help+"("+arg+")")
		return "", opt
	}}
	if !fast.Commands.Add(cmd) {
		return false, fmt.Sprintf("Add(%q) returned false", name)
	}
	model[name] = help
	return true, ""
}

// modelLookup is the linear-scan reference: exact name or unique prefix ⇒ that command;
// several ⇒ ambiguity listing exactly the candidates (sorted); none ⇒ io.EOF.
func (w *c37World) modelLookup(model map[string]string, prefix string) (help string, cands []string) {
	if prefix == "" {
		return "", nil
	}
	all := map[string]string{}
	for k, v := range model {
		all[k] = v
	}
	for _, d := range w.defaults {
		all[d] = "default:" + d
	}
	if h, ok := all[prefix]; ok {
		return h, []string{prefix}
	}
	for n := range all {
		if strings.HasPrefix(n, prefix) {
			cands = append(cands, n)
		}
	}
	sort.Strings(cands)
	if len(cands) == 1 {
		return all[cands[0]], cands
	}
	return "", cands
}

func c37Prefixes() []string {
	seen := map[string]bool{}
	var out []string
	add := func(s string) {
		if !seen[s] {
			seen[s] = true
			out = append(out, s)
		}
	}
	add("")
	for _, n := range c37Names {
		for i := 1; i <= len(n); i++ {
			add(n[:i])
		}
	}
	for _, s := range []string{"x", "abcd", "envyy", "ac", "c", "q", "qu", "h", "he", "hx", "bb", "eo"} {
		add(s)
	}
	return out
}

// checkState compares every lookup in the current table with the model. Returns evaluations done.
func (w *c37World) checkState(c *core.Ctx, model map[string]string, ops []c37Op, prefixes []string, viaCmd bool) int {
	n := 0
	// List() must be the sorted union
	var want []string
	for k := range model {
		want = append(want, k)
	}
	want = append(want, w.defaults...)
	sort.Strings(want)
	var got []string
	for _, cmd := range fast.Commands.List() {
		got = append(got, cmd.Name)
	}
	if strings.Join(got, " ") != strings.Join(want, " ") {
		c.Violation("C37|List", fmt.Sprintf("after %v List()=%v, model %v", ops, got, want), c37Case{Ops: ops})
	}
	for _, p := range prefixes {
		n++
		mh, cands := w.modelLookup(model, p)
		cmd, err := fast.Commands.Lookup(p)
		cas := c37Case{Ops: append([]c37Op{}, ops...), Lookup: p}
		switch {
		case len(cands) == 0:
			if err != io.EOF {
				c.Violation("C37|nomatch", fmt.Sprintf("Lookup(%q) with table %v: want io.EOF, got cmd=%q err=%v", p, want, cmd.Name, err), cas)
			}
		case mh != "":
			exact := cands[0] == p && len(cands) == 1
			sig := "C37|unique-prefix"
			if _, isName := model[p]; isName || contains(w.defaults, p) {
				sig = "C37|exact-name-that-prefixes-others"
				_ = exact
			}
			if err != nil {
				c.Violation(sig, fmt.Sprintf("Lookup(%q) with table %v: want command %q, got err=%v", p, want, cands[0], err), cas)
			} else if strings.HasPrefix(mh, "default:") {
				if cmd.Name != cands[0] {
					c.Violation(sig, fmt.Sprintf("Lookup(%q): want %q got %q", p, cands[0], cmd.Name), cas)
				}
			} else if cmd.Help != mh {
				c.Violation(sig, fmt.Sprintf("Lookup(%q) with table %v: want command %q, got %q", p, want, mh, cmd.Help), cas)
			}
		default:
			if err == nil || err == io.EOF {
				c.Violation("C37|ambiguous", fmt.Sprintf("Lookup(%q) with table %v: want ambiguity %v, got cmd=%q err=%v", p, want, cands, cmd.Name, err), cas)
			} else if err.Error() != strings.Join(cands, " ") {
				c.Violation("C37|ambiguous-list", fmt.Sprintf("Lookup(%q) with table %v: want candidates %v, got %q", p, want, cands, err.Error()), cas)
			}
		}
		if viaCmd && p != "" {
			// Interp.Cmd: unique ⇒ Func invoked with the argument; ambiguous ⇒ warning, nothing evaluated;
			// none ⇒ the text is handed back to be evaluated as code.
			n++
			cas.ViaCmd = true
			if strings.HasPrefix(mh, "default:") || (mh == "" && len(cands) == 0 && false) {
				continue // do not run the real default commands (quit, help, ...)
			}
			w.invoked = w.invoked[:0]
			w.stderr.Reset()
			src, opt := w.ir.Cmd(":" + p + " arg1")
			switch {
			case len(cands) == 0:
				if src != " "+p+" arg1" || opt&base.CmdOptForceEval == 0 || len(w.invoked) != 0 {
					c.Violation("C37|cmd-unknown-as-code", fmt.Sprintf("Cmd(%q): want text handed back for evaluation, got src=%q opt=%v invoked=%v", ":"+p+" arg1", src, opt, w.invoked), cas)
				}
			case mh != "":
				if src != "" || len(w.invoked) != 1 || w.invoked[0] != mh+"(arg1)" {
					sig := "C37|cmd-dispatch"
					if _, isName := model[p]; isName {
						sig = "C37|exact-name-that-prefixes-others"
					}
					c.Violation(sig, fmt.Sprintf("Cmd(%q) table %v: want %s(arg1) invoked, got src=%q invoked=%v stderr=%q", ":"+p+" arg1", want, mh, src, w.invoked, w.stderr.String()), cas)
				}
			default:
				if src != "" || len(w.invoked) != 0 || !strings.Contains(w.stderr.String(), "ambiguous") {
					c.Violation("C37|cmd-ambiguous", fmt.Sprintf("Cmd(%q): want ambiguity warning, got src=%q invoked=%v stderr=%q", ":"+p, src, w.invoked, w.stderr.String()), cas)
				}
			}
		}
	}
	return n
}

func contains(v []string, s string) bool {
	for _, x := range v {
		if x == s {
			return true
		}
	}
	return false
}

func c37Key(model map[string]string) string {
	var ks []string
	for k := range model {
		ks = append(ks, k)
	}
	sort.Strings(ks)
	return strings.Join(ks, ",")
}

func c37Run(c *core.Ctx) {
	w := newC37World()
	prefixes := c37Prefixes()
	c.Rule("BFS over command tables (state = set of registered names from a 10-name alphabet sharing prefixes, on top of the default commands); " +
		"in every state every prefix of every name (+ non-matching strings) is looked up through Cmds.Lookup and Interp.Cmd and compared with a linear-scan model; " +
		"plus all Add/Del sequences to depth D without state merging. non-trivial = distinct (table, prefix) pairs whose model answer is a unique-prefix hit, an exact-name hit or an ambiguity")
	c.Assume("lookup behaviour is a function of the table content (tested by the un-merged sequence enumeration)")

	var ops []c37Op
	for _, n := range c37Names {
		ops = append(ops, c37Op{false, n})
	}
	for _, n := range c37Names {
		ops = append(ops, c37Op{true, n})
	}

	// --- BFS with deduplication
	type node struct{ path []c37Op }
	init := w.reset()
	seen := map[string]bool{c37Key(init): true}
	frontier := []node{{nil}}
	w.checkState(c, init, nil, prefixes, true)
	states, trans := 1, 0
	maxDepth := 0
	for len(frontier) > 0 {
		cur := frontier[0]
		frontier = frontier[1:]
		for _, op := range ops {
			model := w.reset()
			for _, o := range cur.path {
				w.apply(model, o)
			}
			path := append(append([]c37Op{}, cur.path...), op)
			if ok, msg := w.apply(model, op); !ok {
				c.Violation("C37|op-result", msg, c37Case{Ops: path})
			}
			trans++
			k := c37Key(model)
			if !seen[k] {
				seen[k] = true
				states++
				if len(path) > maxDepth {
					maxDepth = len(path)
				}
				frontier = append(frontier, node{path})
				n := w.checkState(c, model, path, prefixes, true)
				c.Eval(n)
				for _, p := range prefixes {
					if _, cands := w.modelLookup(model, p); len(cands) > 0 {
						c.Nontrivial(k + "|" + p)
					}
				}
				if c.WantSample() && len(path) >= 3 {
					c.Sample(map[string]interface{}{"ops": path, "table": k, "lookups": len(prefixes)})
				}
			} else {
				// same content reached by another history: must answer identically (differential oracle)
				c.Eval(w.checkState(c, model, path, prefixes, false))
			}
		}
	}
	c.States(states)
	c.Transitions(trans)
	c.Set("bfs_max_depth", maxDepth)

	// --- un-merged sequences
	depth := c.Pick(3, 4)
	seqs := 0
	var rec func(path []c37Op)
	rec = func(path []c37Op) {
		if len(path) == depth {
			model := w.reset()
			for _, o := range path {
				w.apply(model, o)
			}
			seqs++
			c.Eval(w.checkState(c, model, path, prefixes, false))
			return
		}
		for _, op := range ops {
			rec(append(path, op))
		}
	}
	rec(nil)
	c.Traces(trans + seqs)
	c.Set("unmerged_sequences", seqs)
	c.Set("unmerged_depth", depth)
	c.Set("prefixes_per_state", len(prefixes))
}

func c37Replay(c *core.Ctx, raw json.RawMessage) {
	var cas c37Case
	if err := json.Unmarshal(raw, &cas); err != nil {
		panic(err)
	}
	w := newC37World()
	model := w.reset()
	for _, o := range cas.Ops {
		w.apply(model, o)
	}
	w.checkState(c, model, cas.Ops, []string{cas.Lookup}, cas.ViaCmd)
}
