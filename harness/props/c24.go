package props

// C24 — the forked parser (go/parser of gomacro) parses extension-free, type-parameter-free Go exactly like
// the standard go/parser, positions included; and reports a syntax error whenever go/parser does.

import (
	"encoding/json"
	"fmt"
	"go/ast"
	stdparser "go/parser"
	"go/token"
	"reflect"
	"strconv"
	"strings"

	"github.com/cosmos72/gomacro/go/etoken"
	gparser "github.com/cosmos72/gomacro/go/parser"

	"verif/harness/core"
	"verif/harness/oracle"
)

func init() {
	core.Register(&core.Check{ID: "C24", Level: "exploration", Run: c24Run, Replay: c24Replay})
}

type c24Case struct {
	Origin     string `json:"origin"`
	Src        string `json:"src"`
	KnownValid bool   `json:"known_valid_go"`
	TypeCheck  bool   `json:"validity_decided_by_go_types"`
}

// ---------------------------------------------------------------------------
// running both parsers

type c24Std struct {
	file *ast.File
	base int
	err  error
}

func c24ParseStd(name string, src []byte) (r c24Std) {
	fset := token.NewFileSet()
	defer func() {
		if p := recover(); p != nil {
			r.err = fmt.Errorf("go/parser panic: %v", p)
		}
	}()
	r.base = fset.Base()
	r.file, r.err = stdparser.ParseFile(fset, name, src, stdparser.SkipObjectResolution)
	return
}

type c24Fork struct {
	nodes []ast.Node
	base  int
	err   error
	panic string
}

func c24ParseFork(name string, src []byte) (r c24Fork) {
	fset := etoken.NewFileSet()
	r.base = fset.Base()
	defer func() {
		if p := recover(); p != nil {
			r.panic = fmt.Sprint(p)
		}
	}()
	var p gparser.Parser
	p.Configure(0, '~')
	p.Init(fset, name, 0, src)
	r.nodes, r.err = p.Parse()
	return
}

// ---------------------------------------------------------------------------
// classification of the input language

// c24Generic reports whether the (valid) file uses type parameters / type arguments / constraint elements.
func c24Generic(f *ast.File) (why string) {
	isInst := func(x ast.Expr) bool {
		for {
			switch t := x.(type) {
			case *ast.StarExpr:
				x = t.X
				continue
			case *ast.ParenExpr:
				x = t.X
				continue
			case *ast.IndexExpr, *ast.IndexListExpr:
				return true
			}
			return false
		}
	}
	ast.Inspect(f, func(n ast.Node) bool {
		if why != "" {
			return false
		}
		switch n := n.(type) {
		case *ast.FuncType:
			if n.TypeParams != nil {
				why = "type parameters"
			}
		case *ast.TypeSpec:
			if n.TypeParams != nil {
				why = "type parameters"
			} else if n.Type != nil && isInst(n.Type) {
				why = "type arguments"
			}
		case *ast.IndexListExpr:
			why = "type arguments"
		case *ast.Field:
			if n.Type != nil && isInst(n.Type) {
				why = "type arguments"
			}
		case *ast.ValueSpec:
			if n.Type != nil && isInst(n.Type) {
				why = "type arguments"
			}
		case *ast.ArrayType:
			if isInst(n.Elt) {
				why = "type arguments"
			}
		case *ast.MapType:
			if isInst(n.Key) || isInst(n.Value) {
				why = "type arguments"
			}
		case *ast.ChanType:
			if isInst(n.Value) {
				why = "type arguments"
			}
		case *ast.Ellipsis:
			if n.Elt != nil && isInst(n.Elt) {
				why = "type arguments"
			}
		case *ast.CompositeLit:
			if n.Type != nil && isInst(n.Type) {
				why = "type arguments"
			}
		case *ast.TypeAssertExpr:
			if n.Type != nil && isInst(n.Type) {
				why = "type arguments"
			}
		case *ast.TypeSwitchStmt:
			for _, cc := range n.Body.List {
				if cc, ok := cc.(*ast.CaseClause); ok {
					for _, t := range cc.List {
						if isInst(t) {
							why = "type arguments"
						}
					}
				}
			}
		case *ast.InterfaceType:
			if n.Methods != nil {
				for _, m := range n.Methods.List {
					if len(m.Names) > 0 {
						continue
					}
					switch m.Type.(type) {
					case *ast.Ident, *ast.SelectorExpr:
					default:
						why = "constraint interface element"
					}
				}
			}
		}
		return true
	})
	return why
}

// ---------------------------------------------------------------------------
// structural comparison including positions

type c24Differ struct {
	sbase, fbase int
	path         []string
	diff         string // first difference (empty: equal)
	field        string // NodeType.Field of the first difference
}

var (
	c24PosType     = reflect.TypeOf(token.NoPos)
	c24ObjPtrType  = reflect.TypeOf((*ast.Object)(nil))
	c24ScopeType   = reflect.TypeOf((*ast.Scope)(nil))
	c24CommentType = reflect.TypeOf((*ast.CommentGroup)(nil))
)

func (d *c24Differ) fail(format string, args ...interface{}) {
	if d.diff == "" {
		d.diff = strings.Join(d.path, "") + ": " + fmt.Sprintf(format, args...)
	}
}

func (d *c24Differ) cmp(s, f reflect.Value, owner string) {
	if d.diff != "" {
		return
	}
	if s.Type() != f.Type() {
		d.field = owner
		d.fail("go/parser has %v, fork has %v", s.Type(), f.Type())
		return
	}
	switch s.Kind() {
	case reflect.Interface:
		if s.IsNil() != f.IsNil() {
			d.field = owner
			d.fail("go/parser %s, fork %s", c24Nilness(s), c24Nilness(f))
			return
		}
		if s.IsNil() {
			return
		}
		se, fe := s.Elem(), f.Elem()
		if se.Type() != fe.Type() {
			d.field = owner
			d.fail("go/parser has %v, fork has %v", se.Type(), fe.Type())
			return
		}
		d.cmp(se, fe, owner)
	case reflect.Ptr:
		if s.Type() == c24ObjPtrType || s.Type() == c24ScopeType {
			return // identifier resolution is not compared
		}
		if s.IsNil() != f.IsNil() {
			d.field = owner
			d.fail("go/parser %s, fork %s", c24Nilness(s), c24Nilness(f))
			return
		}
		if s.IsNil() {
			return
		}
		d.path = append(d.path, ".(*"+s.Type().Elem().Name()+")")
		d.cmp(s.Elem(), f.Elem(), owner)
		d.path = d.path[:len(d.path)-1]
	case reflect.Struct:
		tn := s.Type().Name()
		for i := 0; i < s.NumField(); i++ {
			fld := s.Type().Field(i)
			d.path = append(d.path, "."+fld.Name)
			d.cmp(s.Field(i), f.Field(i), tn+"."+fld.Name)
			d.path = d.path[:len(d.path)-1]
			if d.diff != "" {
				return
			}
		}
	case reflect.Slice:
		if s.Len() != f.Len() {
			d.field = owner
			d.fail("go/parser has %d elements, fork has %d", s.Len(), f.Len())
			return
		}
		for i := 0; i < s.Len(); i++ {
			d.path = append(d.path, "["+strconv.Itoa(i)+"]")
			d.cmp(s.Index(i), f.Index(i), owner)
			d.path = d.path[:len(d.path)-1]
			if d.diff != "" {
				return
			}
		}
	case reflect.Int, reflect.Int8, reflect.Int16, reflect.Int32, reflect.Int64:
		a, b := s.Int(), f.Int()
		if s.Type() == c24PosType {
			if a != 0 {
				a -= int64(d.sbase)
			} else {
				a = -1
			}
			if b != 0 {
				b -= int64(d.fbase)
			} else {
				b = -1
			}
			if a != b {
				d.field = owner
				d.fail("position (byte offset, -1 = NoPos): go/parser %d, fork %d", a, b)
			}
			return
		}
		if a != b {
			d.field = owner
			d.fail("go/parser %v, fork %v", s.Interface(), f.Interface())
		}
	case reflect.Bool:
		if s.Bool() != f.Bool() {
			d.field = owner
			d.fail("go/parser %v, fork %v", s.Bool(), f.Bool())
		}
	case reflect.String:
		if s.String() != f.String() {
			d.field = owner
			d.fail("go/parser %q, fork %q", s.String(), f.String())
		}
	case reflect.Map:
		// only ast.Scope has maps; not reached
	default:
		d.fail("harness: unsupported kind %v", s.Kind())
	}
}

func c24Nilness(v reflect.Value) string {
	if v.IsNil() {
		return "nil"
	}
	if v.Kind() == reflect.Interface {
		return fmt.Sprintf("a %v", v.Elem().Type())
	}
	return "non-nil"
}

// c24Compare compares the fork's top-level nodes with the standard parser's declarations.
func c24Compare(std c24Std, fork c24Fork) (field, diff string) {
	nodes := fork.nodes
	// the fork represents the package clause as a GenDecl with Tok == PACKAGE
	if len(nodes) > 0 {
		if g, ok := nodes[0].(*ast.GenDecl); ok && g.Tok == token.PACKAGE {
			ok := len(g.Specs) == 1
			if ok {
				vs, _ := g.Specs[0].(*ast.ValueSpec)
				ok = vs != nil && len(vs.Names) == 1 && vs.Names[0].Name == std.file.Name.Name &&
					int(vs.Names[0].NamePos)-fork.base == int(std.file.Name.NamePos)-std.base &&
					int(g.TokPos)-fork.base == int(std.file.Package)-std.base
			}
			if !ok {
				return "package-clause", "package clause differs"
			}
			nodes = nodes[1:]
		} else {
			return "package-clause", fmt.Sprintf("first node of the fork is a %T, not the package clause", nodes[0])
		}
	} else {
		return "package-clause", "fork returned no nodes"
	}
	if len(nodes) != len(std.file.Decls) {
		return "File.Decls", fmt.Sprintf("go/parser has %d top-level declarations, fork has %d nodes", len(std.file.Decls), len(nodes))
	}
	for i, sd := range std.file.Decls {
		fd, isDecl := nodes[i].(ast.Decl)
		if !isDecl {
			return "File.Decls", fmt.Sprintf("Decls[%d]: go/parser has %T, fork has the non-declaration %T", i, sd, nodes[i])
		}
		d := &c24Differ{sbase: std.base, fbase: fork.base, path: []string{fmt.Sprintf("Decls[%d]", i)}}
		d.cmp(reflect.ValueOf(&sd).Elem(), reflect.ValueOf(&fd).Elem(), "File.Decls")
		if d.diff != "" {
			return d.field, d.diff
		}
	}
	return "", ""
}

// ---------------------------------------------------------------------------

func c24ErrClass(err error) string {
	msg := err.Error()
	// "f.go:3:4: expected ';', found 'IDENT' x (and 3 more errors)"
	if i := strings.Index(msg, ": "); i >= 0 {
		msg = msg[i+2:]
	}
	if i := strings.Index(msg, " (and "); i >= 0 {
		msg = msg[:i]
	}
	if i := strings.Index(msg, ", found"); i >= 0 {
		msg = msg[:i]
	}
	if len(msg) > 60 {
		msg = msg[:60]
	}
	return msg
}

type c24Stats struct {
	evals, valid, generic, ext, invalid, invalidBoth, identicalDecls int64
	undecided                                                        map[string]int64
	lenient                                                          map[string]int64
}

func newC24Stats() *c24Stats {
	return &c24Stats{undecided: map[string]int64{}, lenient: map[string]int64{}}
}

// c24Input is one input of the enumeration.
type c24Input struct {
	idx    int64
	origin string
	src    []byte
	// knownValid: the text is known to be valid Go whenever go/parser accepts it (files compiled as part of GOROOT/src or
	// /repo, generator output). Otherwise validity is decided by typeCheck (if set) or left undecided.
	knownValid bool
	typeCheck  bool // the text is a self-contained package: go/types decides validity
}

// c24Check runs one input.
func c24Check(vc *vcollector, ks *keyset, st *c24Stats, in c24Input, w *c23Worker) {
	src, origin, idx := in.src, in.origin, in.idx
	mk := func(what string) func() (string, interface{}) {
		return func() (string, interface{}) {
			s := string(src)
			q := s
			if len(q) > 400 {
				q = q[:400] + "…"
			}
			return fmt.Sprintf("%s: %s\n%s", origin, what, q), c24Case{Origin: origin, Src: s, KnownValid: in.knownValid, TypeCheck: in.typeCheck}
		}
	}
	// lexical extensions?
	w.w.tick()
	w.w.scanStd("f.go", src, true, &w.stdC)
	if c23UsesExtension(&w.stdC) {
		st.ext++
		return
	}
	std := c24ParseStd("f.go", src)
	if std.err == nil {
		if why := c24Generic(std.file); why != "" {
			st.generic++
			return
		}
	}
	fork := c24ParseFork("f.go", src)
	st.evals++
	isValid := func() bool {
		if in.knownValid {
			return true
		}
		if in.typeCheck {
			_, _, terr := oracle.CheckSource(string(src))
			return terr == nil
		}
		return false
	}
	if std.err == nil {
		st.valid++
		ks.add([]byte("valid|" + origin))
		switch {
		case fork.panic != "":
			vc.add(idx, "C24|valid|fork panics|"+fork.panic, mk("go/parser accepts, but the forked parser panics: "+fork.panic))
		case fork.err != nil:
			// go/parser accepts more than Go (it leaves several checks to the type checker): the fork rejecting such a text
			// is a violation only if the text is valid Go.
			if isValid() {
				vc.add(idx, "C24|valid|fork rejects|"+c24ErrClass(fork.err), mk("valid Go, but the forked parser reports: "+fork.err.Error()))
			} else {
				st.undecided["fork rejects: "+c24ErrClass(fork.err)]++
			}
		default:
			field, diff := c24Compare(std, fork)
			if diff == "" {
				st.identicalDecls += int64(len(std.file.Decls))
			} else if isValid() {
				vc.add(idx, "C24|valid|differs|"+field, mk("AST differs at "+diff))
			} else {
				st.undecided["AST differs at "+field]++
			}
		}
		return
	}
	st.invalid++
	ks.add([]byte("invalid|" + c24ErrClass(std.err)))
	switch {
	case fork.panic != "":
		vc.add(idx, "C24|invalid|fork panics|"+fork.panic, mk("go/parser reports "+std.err.Error()+"; the forked parser panics: "+fork.panic))
	case fork.err == nil:
		class := c24Leniency(fork.nodes, src, fork.base)
		if class != "" {
			st.lenient[class]++
		} else if c24EllipsisArrayOutsideLiteral(fork.nodes) {
			vc.add(idx, "C24|invalid|fork accepts|array type [...]T outside a composite literal", mk("go/parser reports "+std.err.Error()+"; the forked parser reports no error"))
		} else {
			vc.add(idx, "C24|invalid|fork accepts|"+c24ErrClass(std.err), mk("go/parser reports "+std.err.Error()+"; the forked parser reports no error"))
		}
	default:
		st.invalidBoth++
	}
}

// c24Leniency explains why the fork may legitimately accept a text that go/parser rejects: the fork's result shows
// one of the interpreter's documented syntax extensions (top-level statements and expressions, imports and package
// clauses anywhere, blocks and quotations inside expressions, statements other than case clauses in a switch body,
// index lists and "func" methods of the interpreter's own generics). Returns "" when no extension is visible.
func c24Leniency(nodes []ast.Node, src []byte, base int) (class string) {
	seenDecl := false
	if len(nodes) == 0 {
		return "no package clause"
	} else if g, ok := nodes[0].(*ast.GenDecl); !ok || g.Tok != token.PACKAGE {
		return "no package clause"
	}
	for i, n := range nodes {
		if g, ok := n.(*ast.GenDecl); ok {
			if g.Tok == token.PACKAGE {
				if i == 0 {
					continue
				}
				return "package clause not first"
			}
			if g.Tok == token.IMPORT {
				if seenDecl {
					return "import after other declarations"
				}
				continue
			}
		}
		if _, ok := n.(ast.Decl); !ok {
			return "top-level statement or expression"
		}
		seenDecl = true
	}
	for _, n := range nodes {
		ast.Inspect(n, func(n ast.Node) bool {
			if class != "" {
				return false
			}
			switch n := n.(type) {
			case *ast.UnaryExpr:
				switch n.Op {
				case etoken.MACRO, etoken.QUOTE, etoken.QUASIQUOTE, etoken.UNQUOTE, etoken.UNQUOTE_SPLICE:
					class = "block or quotation inside an expression"
				}
			case *ast.DeclStmt:
				switch d := n.Decl.(type) {
				case *ast.GenDecl:
					if d.Tok == token.IMPORT || d.Tok == token.PACKAGE {
						class = "import or package clause inside a function"
					}
				case *ast.FuncDecl:
					class = "function declaration inside a function"
				}
			case *ast.SwitchStmt:
				for _, s := range n.Body.List {
					if _, ok := s.(*ast.CaseClause); !ok {
						class = "statement other than a case clause in a switch body"
					}
				}
			case *ast.TypeSwitchStmt:
				for _, s := range n.Body.List {
					if _, ok := s.(*ast.CaseClause); !ok {
						class = "statement other than a case clause in a switch body"
					}
				}
			case *ast.IndexExpr:
				if cl, ok := n.Index.(*ast.CompositeLit); ok && cl.Type == nil {
					class = "index list (interpreter generics)"
				}
			case *ast.InterfaceType:
				if n.Methods != nil {
					for _, m := range n.Methods.List {
						if len(m.Names) == 0 {
							continue
						}
						if _, ok := m.Type.(*ast.MapType); ok {
							class = "func method in interface (interpreter generics)"
						}
						// "func Name(...)" inside an interface: look at the token in front of the name
						off := int(m.Names[0].NamePos) - base
						for off > 0 && (src[off-1] == ' ' || src[off-1] == '\t') {
							off--
						}
						if off >= 4 && string(src[off-4:off]) == "func" {
							class = "func method in interface (interpreter generics)"
						}
					}
				}
			}
			return true
		})
		if class != "" {
			return class
		}
	}
	return ""
}

func c24Run(c *core.Ctx) {
	c.Rule("inputs: (1) every *.go file of GOROOT/src and /repo (quick: every 3rd) that has no type parameters/arguments/constraint elements (AST scan) and no lexical extension ('~', '#', macro); " +
		"(2) the C05 generator's programs wrapped in a file; (3) for N small files (handcrafted dense files, generated programs, GOROOT files) every single-token deletion, duplication and adjacent swap. " +
		"Oracle go/parser of Go 1.23 (comments off): if it accepts, the fork (Configure(0,'~'), Init, Parse) must not panic, every top-level declaration must be deeply equal including all positions (ast.Object/Scope ignored), " +
		"and the fork must accept, both when the text is valid Go (file outside testdata/, generator output, or accepted by go/types for self-contained edit seeds; otherwise a rejection or difference is counted as undecided because go/parser accepts more than Go); " +
		"if go/parser reports an error, the fork must report an error too, unless its result shows one of the interpreter's documented syntax extensions (counted per extension). " +
		"distinct_nontrivial = distinct inputs accepted by go/parser and compared + distinct go/parser error classes on invalid inputs")
	c.Assume("go/parser and go/types of the installed Go 1.23 are the reference", "etoken.GENERICS = GENERICS_V2_CTI as configured by gomacro's main()",
		"files of GOROOT/src and /repo outside testdata directories are valid Go")
	vc := newVCollector()
	nw := 64
	stats := make([]*c24Stats, nw)
	keys := make([]*keyset, nw)
	scans := make([]*c23Worker, nw)
	get := func(w int) (*c24Stats, *keyset, *c23Worker) {
		if stats[w] == nil {
			stats[w] = newC24Stats()
			keys[w] = newKeyset(c)
			scans[w] = &c23Worker{keys: keys[w]}
		}
		return stats[w], keys[w], scans[w]
	}

	// (1) files
	files := everyKth(corpus(), c.Pick(3, 1))
	parFor(c, int64(len(files)), 4, func(w int, i int64) {
		st, ks, sc := get(w)
		if src := readFile(files[i].Path); src != nil {
			p := files[i].Path
			c24Check(vc, ks, st, c24Input{idx: i, origin: p, src: src, knownValid: !strings.Contains(p, "/testdata/")}, sc)
		}
	})
	c.Set("files_considered", len(files))
	base := int64(len(files))

	// (2) generated programs
	progs := c05Gen_(c)
	parFor(c, int64(len(progs)), 64, func(w int, i int64) {
		st, ks, sc := get(w)
		src := "package p\n\n" + progs[i].Source()
		c24Check(vc, ks, st, c24Input{idx: base + i, origin: "generated C05 program " + progs[i].ID, src: []byte(src), knownValid: true}, sc)
	})
	c.Set("generated_programs", len(progs))
	base += int64(len(progs))

	// (3) token-level edits
	seeds := c24Seeds(c.Pick(14, 40), progs)
	type job struct{ seed, tok, kind int }
	var jobs []job
	for si, s := range seeds {
		for ti := range s.toks {
			for k := 0; k < 3; k++ {
				if k == 2 && ti+1 >= len(s.toks) {
					continue
				}
				jobs = append(jobs, job{si, ti, k})
			}
		}
	}
	parFor(c, int64(len(jobs)), 32, func(w int, i int64) {
		st, ks, sc := get(w)
		j := jobs[i]
		s := seeds[j.seed]
		m, what := s.edit(j.tok, j.kind)
		c24Check(vc, ks, st, c24Input{idx: base + i, origin: fmt.Sprintf("%s: %s", s.name, what), src: m, typeCheck: s.selfContained}, sc)
	})
	c.Set("edit_seed_files", len(seeds))
	c.Set("edit_inputs", len(jobs))
	base += int64(len(jobs))

	// (4) the type grammar in every context (c24_types.go)
	c.Set("type_family_inputs", c24TypeFamily(c, vc, get, base))

	tot := newC24Stats()
	for _, s := range stats {
		if s == nil {
			continue
		}
		tot.evals += s.evals
		tot.valid += s.valid
		tot.generic += s.generic
		tot.ext += s.ext
		tot.invalid += s.invalid
		tot.invalidBoth += s.invalidBoth
		tot.identicalDecls += s.identicalDecls
		for k, v := range s.lenient {
			tot.lenient[k] += v
		}
		for k, v := range s.undecided {
			tot.undecided[k] += v
		}
	}
	c.Eval(int(tot.evals))
	c.Count("accepted_by_go_parser_and_compared", int(tot.valid))
	c.Count("skipped_generic", int(tot.generic))
	c.Count("skipped_lexical_extension", int(tot.ext))
	c.Count("rejected_by_go_parser", int(tot.invalid))
	c.Count("rejected_by_both", int(tot.invalidBoth))
	c.Count("identical_declarations", int(tot.identicalDecls))
	for k, v := range tot.lenient {
		c.Count("rejected_by_go_parser_accepted_through_extension["+k+"]", int(v))
	}
	nund := int64(0)
	for k, v := range tot.undecided {
		c.Count("undecided_not_known_valid_go["+k+"]", int(v))
		nund += v
	}
	c.Count("undecided_total", int(nund))
	vc.flush(c)
	var names []string
	for _, s := range seeds {
		names = append(names, s.name)
	}
	c.Sample(map[string]interface{}{"edit_seeds": names})
}

func c24Replay(c *core.Ctx, raw json.RawMessage) {
	var cas c24Case
	if err := json.Unmarshal(raw, &cas); err != nil {
		panic(err)
	}
	vc := newVCollector()
	st := newC24Stats()
	ks := newKeyset(c)
	c24Check(vc, ks, st, c24Input{origin: cas.Origin, src: []byte(cas.Src), knownValid: cas.KnownValid, typeCheck: cas.TypeCheck}, &c23Worker{keys: ks})
	vc.flush(c)
}
