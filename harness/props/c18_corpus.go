package props

// C18-own corpus: programs that exercise the LEXICAL / SYNTACTIC layer and the REPL-only input forms, which the
// corpora borrowed from the other twin-execution checks never touch (they contain only plain ASCII sources,
// "\n" line ends, no comments worth mentioning, no byte inside a literal that a source copy could normalise,
// no identifier that some optional extension reserves, and nothing that is not a Go declaration).
//
// Families (all deterministic, bounded-exhaustive over the stated alphabets):
//
//	lit-byte   every byte/rune of an alphabet B placed at the first, a middle and the last position of every literal kind
//	           {interpreted string (in an expression, a constant declaration, a composite-literal key, a case clause),
//	           raw string, rune, the comments next to a literal}
//	lit-lines  every ordered pair of "source line shapes" (trailing/leading blanks, tabs, empty, comment look-alikes,
//	           quotes, brackets, REPL-command look-alikes ...) as the two lines of a raw string literal
//	lit-form   unusual but valid spellings of numeric, rune and string literals
//	ident      every word of a list W (keywords of the optional extensions, names special to gomacro or to newer Go)
//	           used as an ordinary identifier in every declaring position P (local, top-level statement start, parameter,
//	           result, field, method, type, constant, label, function, import alias, default import name ...)
//	layout     base programs re-emitted token by token (std go/scanner) under every separator x line-end policy
//	           (blank, TAB, block comment, CRLF, explicit ';', one single line, line comments, blank lines, block comments
//	           spanning lines, //line directives) and under source wrappers (BOM, leading comments, #!, no final newline,
//	           very long comment / string / line)
//	repl       every sequence (bounded length) over an alphabet of REPL inputs: plain statements, declarations,
//	           ':'-prefixed force-eval inputs, interpreter commands, package clause, macro declaration and call
//
// The oracle is the one of C18: configuration 0 (no option) of the same generics mode, and the other generics mode.

import (
	"fmt"
	goparser "go/parser"
	goscanner "go/scanner"
	gotoken "go/token"
	"strings"
)

// c18Own is one program of the own corpus. Either Src+Call (declarations, then one call evaluated under h.Exec)
// or Inputs (a sequence of REPL inputs).
type c18Own struct {
	ID      string   `json:"id"`
	Fam     string   `json:"family"`
	Imports []string `json:"imports,omitempty"`
	Src     string   `json:"src,omitempty"`
	Call    string   `json:"call,omitempty"`
	Inputs  []string `json:"inputs,omitempty"`
	// GoDecls: Src must be accepted by the standard go/parser as a list of top-level declarations (generator sanity)
	GoDecls bool `json:"-"`
}

func (p *c18Own) Text() string {
	if p.Inputs != nil {
		return strings.Join(p.Inputs, "\n")
	}
	s := ""
	for _, im := range p.Imports {
		s += fmt.Sprintf("import %q\n", im)
	}
	return s + p.Src + "\n" + p.Call
}

// c18OwnCorpus returns the own corpus of the given tier. Deterministic.
func c18OwnCorpus(thorough bool) []c18Own {
	var out []c18Own
	out = append(out, c18LitByte(thorough)...)
	out = append(out, c18LitLines(thorough)...)
	out = append(out, c18LitForms()...)
	idents := c18Idents(thorough)
	for _, p := range idents {
		if !c18Pollutes(&p) {
			out = append(out, p)
		}
	}
	out = append(out, c18Layouts(thorough)...)
	out = append(out, c18Repl(thorough)...)
	// the programs that (re)declare a word of W at top level come last: the interpreters are shared by the programs
	for _, p := range idents {
		if c18Pollutes(&p) {
			out = append(out, p)
		}
	}
	return out
}

func c18Pollutes(p *c18Own) bool {
	return strings.HasPrefix(p.Fam, "ident|top") || strings.HasPrefix(p.Fam, "ident|import")
}

// c18OwnSanity checks the generator: unique ids, and the programs flagged GoDecls are syntactically valid Go.
func c18OwnSanity(progs []c18Own) error {
	seen := map[string]bool{}
	for i := range progs {
		p := &progs[i]
		if seen[p.ID] {
			return fmt.Errorf("C18 own corpus: duplicate id %s", p.ID)
		}
		seen[p.ID] = true
		if p.GoDecls {
			fset := gotoken.NewFileSet()
			if _, err := goparser.ParseFile(fset, "p.go", "package p\n"+p.Src, 0); err != nil {
				return fmt.Errorf("C18 own corpus: program %s is not syntactically valid Go: %v\n%s", p.ID, err, p.Src)
			}
		}
	}
	return nil
}

// ---------------------------------------------------------------------------------------------------------------
// lit-byte

type c18Byte struct {
	name string
	s    string
}

// c18ByteAlphabet: every ASCII control byte and blank that can appear inside a literal, DEL, and a few runes whose
// UTF-8 encoding a "normalising" source copy could touch. Thorough: also every printable ASCII byte.
func c18ByteAlphabet(thorough bool) []c18Byte {
	var bs []c18Byte
	quick := map[int]bool{0x01: true, 0x08: true, '\t': true, 0x0b: true, 0x0c: true, '\r': true, 0x1a: true, 0x1b: true, 0x1f: true, ' ': true}
	for b := 1; b <= 0x20; b++ {
		if b == '\n' {
			continue // a newline is only legal inside a raw string: family lit-lines
		}
		if thorough || quick[b] {
			bs = append(bs, c18Byte{fmt.Sprintf("x%02x", b), string([]byte{byte(b)})})
		}
	}
	bs = append(bs, c18Byte{"x7f", "\x7f"}, c18Byte{"sp2", "  "}, c18Byte{"tabsp", "\t "}, c18Byte{"sptab", " \t"}, c18Byte{"tab2", "\t\t"}, c18Byte{"crlf", "\r\n"})
	for _, r := range []rune{0x85, 0xA0, 0xE9, 0x2028, 0x2029, 0x3000, 0xFEFF, 0xFFFD, 0x1F600} {
		if thorough || r == 0x85 || r == 0xA0 || r == 0x2028 || r == 0xFEFF || r == 0x1F600 {
			bs = append(bs, c18Byte{fmt.Sprintf("u%04x", r), string(r)})
		}
	}
	if thorough {
		for b := 0x21; b <= 0x7e; b++ {
			bs = append(bs, c18Byte{fmt.Sprintf("x%02x", b), string([]byte{byte(b)})})
		}
	}
	return bs
}

func c18LitByte(thorough bool) []c18Own {
	var out []c18Own
	add := func(kind, bname, body, decls string) {
		id := "lb_" + kind + "_" + bname
		src := decls + "func P_" + id + "() {\n" + body + "\n}\n"
		src = strings.Replace(src, "ID", id, -1)
		out = append(out, c18Own{ID: id, Fam: "lit-byte|" + kind, Src: src, Call: "P_" + id + "()"})
	}
	for _, b := range c18ByteAlphabet(thorough) {
		x := b.s
		crlf := b.name == "crlf"
		// interpreted string: '"', '\\' and newline would change the token structure
		if x != "\"" && x != "\\" && !crlf {
			// in an expression, in a constant declaration, as a key of a composite literal and in a case clause
			add("str", b.name, "O(len(\""+x+"\"), []byte(\""+x+"ab\"), []byte(\"a"+x+"b\"), []byte(\"ab"+x+"\"))\nT(1)\n"+
				"O([]byte(c_ID), len(c_ID))\n"+
				"m := map[string]int{\"k"+x+"\": Ti(2, 7), \"k\": 8}\nO(m)\nswitch Ts(3, \"k\" + string([]byte{"+c18ByteList(x)+"})) {\ncase \"k"+x+"\":\nT(4)\ndefault:\nT(5)\n}",
				"const c_ID = \"<"+x+">\"\n")
		}
		if x != "`" {
			add("raw", b.name, "O(len(`"+x+"`), []byte(`"+x+"ab`), []byte(`a"+x+"b`), []byte(`ab"+x+"`))\nT(1)", "")
		}
		if x != "'" && x != "\\" && len([]rune(x)) == 1 {
			add("rune", b.name, "r := '"+x+"'\nO(r, string(r))\nT(1)", "")
		}
		// the same byte in the comments around a literal must not reach the literal
		if !strings.Contains(x, "\r") {
			add("cmt", b.name, "s := /*"+x+"*/ \"a b\" //"+x+"\nO([]byte(s)) /*"+x+x+"*/\nT(1)", "")
		}
	}
	return out
}

func c18ByteList(s string) string {
	var parts []string
	for _, c := range []byte(s) {
		parts = append(parts, fmt.Sprint(c))
	}
	return strings.Join(parts, ", ")
}

// ---------------------------------------------------------------------------------------------------------------
// lit-lines

var c18LineShapes = []struct{ name, s string }{
	{"a", "a"}, {"empty", ""}, {"sp", " "}, {"tab", "\t"}, {"a_sp", "a "}, {"a_tab", "a\t"}, {"sp_a", " a"}, {"tab_a", "\ta"},
	{"sp4_a", "    a"}, {"a_sp_b", "a  b"}, {"lcmt", "//c"}, {"a_lcmt", "a //c"}, {"bopen", "/*"}, {"bclose", "*/"}, {"bcmt", "/* c */"},
	{"dq", "\""}, {"sq", "'"}, {"bs", "\\"}, {"bsn", "\\n"}, {"bst", "\\t"}, {"lbrace", "{"}, {"rbrace", "}"}, {"lpar", "("}, {"semi", ";"},
	{"cmd", ":env"}, {"line", "//line x.go:7"}, {"pkg", "package x"}, {"tilde", "~quote{a}"}, {"hash", "#!x"}, {"cr", "a\r"}, {"ff", "\f"},
}

func c18LitLines(thorough bool) []c18Own {
	var out []c18Own
	n := len(c18LineShapes)
	for i := 0; i < n; i++ {
		a := c18LineShapes[i]
		id := "ll_" + a.name
		var body strings.Builder
		// the shape alone between two line ends, then every ordered pair (a, b)
		body.WriteString("O([]byte(`\n" + a.s + "\n`))\n")
		for j := 0; j < n; j++ {
			b := c18LineShapes[j]
			body.WriteString("O([]byte(`" + a.s + "\n" + b.s + "`))\n")
		}
		body.WriteString("T(1)")
		src := "func P_" + id + "() {\n" + body.String() + "\n}\n"
		out = append(out, c18Own{ID: id, Fam: "lit-lines", Src: src, Call: "P_" + id + "()", GoDecls: true})
	}
	return out
}

// ---------------------------------------------------------------------------------------------------------------
// lit-form

func c18LitForms() []c18Own {
	groups := map[string][]string{
		"int":    {"0", "007", "0o17", "0O17", "0b1011", "0B11", "0xFf", "0XaB", "1_000_000", "0x_FF_FF", "0b_1", "0_7", "9223372036854775807", "-9223372036854775808"},
		"float":  {"1.", ".5", "1e3", "1E+3", "1e-3", "0x1p-2", "0X1.8P+1", "1_0.2_5", "0.1e1_0", "00.5", "09.5", "1e0", "0x.8p1", "1.7976931348623157e308", "5e-324"},
		"imag":   {"1i", "0123i", "0o17i", "0x10i", "1.5i", ".5i", "1e2i", "0b11i", "0x1p-1i"},
		"rune":   {`'a'`, `'\''`, `'"'`, `'\\'`, `'\a'`, `'\b'`, `'\f'`, `'\n'`, `'\r'`, `'\t'`, `'\v'`, `'\000'`, `'\377'`, `'\x00'`, `'\xff'`, `'\u00e9'`, `'\U0001F600'`, `'é'`, `'€'`, `'😀'`, `' '`},
		"string": {`""`, "``", `"\a\b\f\n\r\t\v\\\""`, `"\000\377"`, `"\x00\xff\xfe"`, `"\u00e9\U0001F600"`, `"é€😀"`, `"'"`, "`\\n\\t\"'`", `"\\t"`, `"a"+"b"`, "`a`+\"\\tb\"", `"//"`, `"/*"`, `"*/"`, `"\u2028\u2029\ufeff"`},
	}
	var out []c18Own
	for _, g := range []string{"int", "float", "imag", "rune", "string"} {
		id := "lf_" + g
		var body strings.Builder
		for i, l := range groups[g] {
			if g == "string" {
				body.WriteString(fmt.Sprintf("O([]byte(%s), len(%s))\n", l, l))
			} else {
				body.WriteString(fmt.Sprintf("O(%s)\n", l))
			}
			// the same literal as a typed variable, as a constant and inside a larger expression
			switch g {
			case "int":
				body.WriteString(fmt.Sprintf("{ const c = %s; v := int64(c); O(v, c == %s) }\n", l, l))
			case "float":
				body.WriteString(fmt.Sprintf("{ const c = %s; v := float64(c); O(v, float32(v), c/2) }\n", l))
			case "imag":
				body.WriteString(fmt.Sprintf("{ const c = %s; v := complex128(c); O(v, imag(c), real(c), complex64(c)) }\n", l))
			case "rune":
				body.WriteString(fmt.Sprintf("{ const c = %s; v := c; O(v, string(rune(c)), c+1) }\n", l))
			}
			body.WriteString(fmt.Sprintf("T(%d)\n", i))
		}
		src := "func P_" + id + "() {\n" + body.String() + "}\n"
		out = append(out, c18Own{ID: id, Fam: "lit-form|" + g, Src: src, Call: "P_" + id + "()", GoDecls: true})
	}
	return out
}

// ---------------------------------------------------------------------------------------------------------------
// ident

// c18Words: keywords of gomacro's optional extensions (with and without the '~' that normally introduces them),
// words reserved by other generics designs, predeclared names of newer Go versions, names of gomacro's own builtins,
// and names of the methods that the "contracts are interfaces" generics add to the basic types.
var c18Words = []string{
	"template", "macro", "quote", "quasiquote", "unquote", "unquote_splice", "lambda", "typecase", "function",
	"contract", "concept", "constraint", "generic", "typename", "where", "of", "any", "comparable", "Type",
	"hash", "splice", "Eval", "Env", "Interp", "MacroExpand", "Values", "min", "max", "clear",
	"Add", "Len", "Index", "Less", "Equal", "Cmp", "Not", "Slice", "Send",
}

// c18IdentPositions: %W is the word, %I the program id.
var c18IdentPositions = []struct {
	name  string
	src   string // declarations (top level)
	call  string
	quick bool
}{
	{"local", "func P_%I() {\n%W := Ti(1, 6)\n%W++\nO(%W * 6)\n}\n", "P_%I()", true},
	{"localvar", "func P_%I() {\nvar %W, z int = Ti(1, 6), 2\n%W += z\nO(%W)\n}\n", "P_%I()", false},
	{"stmtstart", "func P_%I() {\nvar %W [2]int\n%W[0] = Ti(1, 4)\n%W[1]++\nO(%W)\n}\n", "P_%I()", true},
	{"param", "func f_%I(%W string, n int) string {\nout := \"\"\nfor i := 0; i < n && Fuel(); i++ {\nout += %W\n}\nreturn out\n}\nfunc P_%I() {\nO(f_%I(Ts(1, \"ab\"), 3))\n}\n", "P_%I()", true},
	{"paramonly", "func f_%I(%W, z int) int {\nreturn %W*10 + z\n}\nfunc P_%I() {\nO(f_%I(Ti(1, 4), 2))\n}\n", "P_%I()", false},
	{"result", "func f_%I(a int) (%W int, err error) {\n%W = a * 2\nreturn\n}\nfunc P_%I() {\nv, e := f_%I(Ti(1, 4))\nO(v, e == nil)\n}\n", "P_%I()", true},
	{"field", "type s_%I struct {\n%W string\nn int\n}\nfunc P_%I() {\np := s_%I{%W: Ts(1, \"index\"), n: 2}\nq := &p\nq.%W += \"!\"\nO(p.%W, p)\n}\n", "P_%I()", true},
	{"method", "type r_%I int\nfunc (r r_%I) %W(k r_%I) r_%I {\nreturn r*100 + k\n}\nfunc P_%I() {\nx := r_%I(Ti(1, 3))\nf := x.%W\nO(int(x.%W(4)), int(f(5)), int(r_%I.%W(x, 6)))\n}\n", "P_%I()", true},
	{"ifacemethod", "type i_%I interface {\n%W() int\n}\ntype r_%I struct{ v int }\nfunc (r r_%I) %W() int {\nreturn r.v + 1\n}\nfunc P_%I() {\nvar x i_%I = r_%I{Ti(1, 3)}\n_, ok := interface{}(x).(i_%I)\nO(x.%W(), ok)\n}\n", "P_%I()", true},
	{"localtype", "func P_%I() {\ntype %W struct{ a, b int }\nx := %W{Ti(1, 3), 4}\nvar y []%W\ny = append(y, x)\nO(x, len(y))\n}\n", "P_%I()", true},
	{"localconst", "func P_%I() {\nconst %W = 40\nO(%W + Ti(1, 2))\n}\n", "P_%I()", false},
	{"label", "func P_%I() {\nn := 0\n%W:\nfor i := 0; i < 3 && Fuel(); i++ {\nfor j := 0; j < 3 && Fuel(); j++ {\nn++\nif j == 1 {\ncontinue %W\n}\nif i == 2 {\nbreak %W\n}\nT(i*10 + j)\n}\n}\nO(n)\n}\n", "P_%I()", true},
	{"closure", "func P_%I() {\n%W := Ti(1, 1)\nf := func(d int) int {\n%W += d\nreturn %W\n}\nf(2)\nO(f(3), %W)\n}\n", "P_%I()", false},
	{"rangevar", "func P_%I() {\ns := 0\nfor _, %W := range []int{Ti(1, 1), 2, 3} {\ns = s*10 + %W\n}\nO(s)\n}\n", "P_%I()", false},
	{"typeswitch", "func P_%I() {\nvar x interface{} = Ti(1, 5)\nswitch %W := x.(type) {\ncase int:\nO(%W + 1)\ndefault:\nO(%W)\n}\n}\n", "P_%I()", false},
	{"importalias", "import %W \"strings\"\nfunc P_%I() {\nO(%W.Repeat(Ts(1, \"ab\"), 2))\n}\n", "P_%I()", true},
	// top-level (REPL) positions: the word starts a top-level statement or is declared at top level
	{"topdefine", "%W := Ti(1, 6)\n%W = %W * 7\n", "O(%W)", true},
	{"topvar", "var %W = Ti(1, 6)\n", "O(%W + 1)", true},
	{"topconst", "const %W = 41\n", "O(%W + Ti(1, 1))", false},
	{"toptype", "type %W struct{ a int }\n", "O(%W{Ti(1, 3)})", true},
	{"topfunc", "func %W(a int) int {\nreturn a + 1\n}\n", "O(%W(Ti(1, 3)))", true},
	{"topexpr", "var %W = Ti(1, 6)\n%W++\n", "O(%W)", false},
}

func c18Idents(thorough bool) []c18Own {
	var out []c18Own
	quickWords := map[string]bool{"template": true, "macro": true, "quote": true, "lambda": true, "typecase": true, "function": true, "contract": true,
		"any": true, "comparable": true, "Eval": true, "Interp": true, "Add": true, "Len": true}
	for _, w := range c18Words {
		if !thorough && !quickWords[w] {
			continue
		}
		for _, pos := range c18IdentPositions {
			if !thorough && !pos.quick {
				continue
			}
			id := "id_" + pos.name + "_" + w
			rep := strings.NewReplacer("%W", w, "%I", id)
			// top-level redefinitions of the same word by different programs are legal in the interpreter
			// (every program declares what it uses); GoDecls only for the positions that are plain declarations
			godecls := !strings.HasPrefix(pos.name, "top") || pos.name == "topvar" || pos.name == "topconst" || pos.name == "toptype" || pos.name == "topfunc"
			out = append(out, c18Own{ID: id, Fam: "ident|" + pos.name, Src: rep.Replace(pos.src), Call: rep.Replace(pos.call), GoDecls: godecls && pos.name != "importalias"})
		}
	}
	// user-declared methods whose names are those of the methods that the "contracts are interfaces" generics add to the
	// basic, slice, map ... types, and interfaces made of such names
	for i, src := range []string{
		"type n_ID int\nfunc (n n_ID) Add(m n_ID) n_ID { return n*10 + m }\nfunc (n n_ID) Len() int { return 77 }\ntype sl_ID []int\nfunc (s sl_ID) Len() int { return 99 }\nfunc (s sl_ID) Index(i int) int { return -s[i] }\ntype mp_ID map[string]int\nfunc (m mp_ID) Len() int { return -len(m) }\ntype i_ID interface { Len() int }\n" +
			"func P_ID() {\nx := n_ID(Ti(1, 3))\ns := sl_ID{1, 2}\nvar i i_ID = s\nvar j i_ID = x\nvar k i_ID = mp_ID{\"a\": 1}\nO(int(x.Add(4)), x.Len(), s.Len(), s.Index(1), i.Len(), j.Len(), k.Len())\nf := s.Len\ng := n_ID.Add\nO(f(), int(g(x, 5)))\n}\n",
		"type st_ID string\nfunc (s st_ID) Less(o st_ID) bool { return len(s) < len(o) }\nfunc (s st_ID) Equal(o st_ID) bool { return false }\ntype ch_ID chan int\nfunc (c ch_ID) Send(v int) { c <- v * 2 }\nfunc (c ch_ID) Cap() int { return -1 }\ntype ar_ID [2]int\nfunc (a *ar_ID) SetIndex(i, v int) { a[i] = v + 100 }\n" +
			"func P_ID() {\nc := make(ch_ID, 1)\nc.Send(Ti(1, 4))\nvar a ar_ID\na.SetIndex(1, 2)\nO(st_ID(\"abc\").Less(\"d\"), st_ID(\"a\").Equal(\"a\"), <-c, c.Cap(), a)\n}\n",
		// which types can have methods at all depends on the generics mode: methods reached through unnamed structs
		// (embedded value, pointer, interface), and methods of named function and map types
		"type pt_ID struct{ x, y int }\nfunc (p pt_ID) area() int { return p.x * p.y }\nfunc (p *pt_ID) grow(k int) { p.x += k }\ntype fn_ID func(int) int\nfunc (f fn_ID) twice(v int) int { return f(f(v)) }\n" +
			"type mp_ID map[string]int\nfunc (m mp_ID) get(k string) int { return m[k] + 1 }\ntype namer_ID interface{ name() string }\ntype nm_ID string\nfunc (n nm_ID) name() string { return string(n) + \"!\" }\n" +
			"func P_ID() {\nvar u struct {\npt_ID\ntag string\n}\nu.pt_ID = pt_ID{Ti(1, 2), 3}\nu.grow(2)\npu := &u\nvar w struct{ *pt_ID }\nw.pt_ID = &pt_ID{5, 6}\nw.grow(1)\nvar e struct{ namer_ID }\ne.namer_ID = nm_ID(\"n\")\n" +
			"O(u.area(), pu.area(), w.area(), e.name(), fn_ID(func(v int) int { return v + 3 }).twice(1), mp_ID{\"a\": 1}.get(\"a\"))\nf := u.area\ng := pu.grow\ng(1)\nO(f(), u.x)\n}\n",
	} {
		id := fmt.Sprintf("id_ctimethod_%d", i)
		out = append(out, c18Own{ID: id, Fam: "ident|ctimethod", Src: strings.Replace(src, "ID", id, -1), Call: "P_" + id + "()", GoDecls: true})
	}
	// default name of an imported package that is a word of W
	for _, path := range []string{"text/template", "html/template"} {
		id := "id_importdefault_" + strings.Replace(path, "/", "_", -1)
		out = append(out, c18Own{ID: id, Fam: "ident|importdefault", Imports: []string{path},
			Src: "func P_" + id + "() {\nO(template.HTMLEscapeString(Ts(1, \"<a>\")))\n}\n", Call: "P_" + id + "()", GoDecls: true})
	}
	return out
}

// ---------------------------------------------------------------------------------------------------------------
// layout

var c18LayoutBases = []struct{ name, src string }{
	{"ctl", `type acc_ID struct {
	n    int
	tags []string
}

func (a *acc_ID) add(k int, s string) int {
	a.n += k
	a.tags = append(a.tags, s)
	return a.n
}

func fib_ID(n int) int {
	if n < 2 {
		return n
	}
	return fib_ID(n-1) + fib_ID(n-2)
}

func P_ID() {
	a := &acc_ID{}
	for i := 0; i < 4 && Fuel(); i++ {
		switch {
		case i%2 == 0:
			a.add(Ti(i, fib_ID(i+5)), "e v e n")
		default:
			a.add(-i, "odd\t'q'")
		}
	}
	m := map[string][]int{"x y": {1, 2}, "z": nil}
	m["x y"] = append(m["x y"], a.n)
	defer func() {
		r := recover()
		O(r != nil, a.n, a.tags, m)
	}()
	var p *acc_ID
	T(9)
	O(p.n)
	T(10)
}
`},
	{"expr", `const k_ID = 3

var tbl_ID = [...]string{0: "zero", 2: "two // not a comment", 1: "/* one */"}

func pick_ID(i int, fs ...func(int) int) (res int, ok bool) {
	if i < len(fs) {
		res, ok = fs[i](i+k_ID), true
	}
	return
}

func P_ID() {
	x, y := Ti(1, 7), 2
	z := x<<uint(y) | x&^y - -y + +x*y/3%5
	O(z, x > y && !(z <= x) || y != 2, tbl_ID, len(tbl_ID[2]))
	v, ok := pick_ID(1, func(a int) int { return a * 2 }, func(a int) int { return a - 1 })
	O(v, ok)
	c := make(chan rune, 2)
	c <- 'a'
	c <- '\t'
	close(c)
	for r := range c {
		O(r)
	}
	var e interface{} = tbl_ID[:2]
	if s, ok := e.([]string); ok {
		O(s[1:], cap(s))
	}
}
`},
	{"flow", `func step_ID(n int) (out []int) {
	defer func() {
		if r := recover(); r != nil {
			out = append(out, -1)
		}
	}()
outer:
	for i := 0; Fuel(); i++ {
		for j := i; j < n; j++ {
			if j == 3 {
				continue outer
			}
			if i == 5 {
				break outer
			}
			out = append(out, i*10+j)
		}
		if i > n {
			return append(out, 77)
		}
	}
	out = append(out, 99)
	var arr [2]int
	idx := n
	arr[idx%4] = 1
	return append(out, arr[0])
}

func P_ID() {
	O(step_ID(Ti(1, 4)))
	O(step_ID(Ti(2, 6)))
	O(step_ID(Ti(3, 7)))
}
`},
}

// c18HdrBase: constructs next to the places where the parser consults the generics mode (index expressions followed by '{'
// in statement headers, interface bodies, qualified and parenthesised types, composite literal types).
const c18HdrBase = `type pt_ID struct{ x, y int }

type grid_ID [2][2]int

type namer_ID interface{ name() string }

type shape_ID interface {
	area() int
	namer_ID
}

func (p pt_ID) area() int { return p.x * p.y }

func (p *pt_ID) name() string { return "pt" }

func P_ID() {
	a := []bool{true, false}
	g := grid_ID{{1, 2}, {3, 4}}
	m := map[string][]int{"k": {5, 6}}
	fs := []func(int) bool{func(n int) bool { return n > 1 }}
	i := Ti(1, 0)
	if a[i] {
		T(2)
	}
	if !a[i+1] && g[1][i] == 3 {
		T(3)
	}
	for _, v := range m["k"] {
		O(v)
	}
	switch g[i][1] {
	case 2:
		T(4)
	}
	for j := 0; fs[0](g[1][1]-j) && Fuel(); j++ {
		T(5)
	}
	if v, ok := m["k"]; ok && len(v) == 2 {
		T(6)
	}
	var s shape_ID = &pt_ID{2, 3}
	var n namer_ID = &pt_ID{7, 8}
	if x, ok := interface{}(g[1]).([2]int); ok {
		O(x, n.name(), s.area(), s.name(), (*pt_ID).name(&pt_ID{}), pt_ID.area(pt_ID{4, 5}))
	}
	q := (*pt_ID)(nil)
	b := []byte("x\ty")
	var ch <-chan int = make(chan int)
	select {
	case <-ch:
	default:
		O(q == nil, b, [...]string{2: "c"}, struct{ a, b int }{1, 2}, map[pt_ID]int{{1, 2}: 3})
	}
}
`

func init() {
	c18LayoutBases = append(c18LayoutBases, struct{ name, src string }{"hdr", c18HdrBase})
}

type c18Sep struct{ name, s string }

var c18Seps = []c18Sep{{"sp", " "}, {"tab", "\t"}, {"mix", " \t  "}, {"cmt", " /*c*/ "}, {"cmtq", " /* ' \" ` { ( */ "}}

// line-end policies: what replaces an automatically inserted semicolon ("%n" = running number)
var c18Eols = []c18Sep{
	{"lf", "\n"}, {"crlf", "\r\n"}, {"semi", ";\n"}, {"oneline", "; "}, {"lcmt", " // c '1' \"2 { (\n"}, {"blank", "\n\n\n\t\n  \n"},
	{"bcmt", "\n/* block\n   comment } ) */\n"}, {"linedir", "\n//line gen%n.go:%n00\n"}, {"linedirblk", "\n/*line blk.go:%n:3*/ "},
}

// c18Emit re-emits src token by token.
func c18Emit(src string, sep, eol string) string {
	fset := gotoken.NewFileSet()
	f := fset.AddFile("", fset.Base(), len(src))
	var s goscanner.Scanner
	s.Init(f, []byte(src), nil, 0)
	var sb strings.Builder
	n := 0
	first := true
	for {
		_, tok, lit := s.Scan()
		if tok == gotoken.EOF {
			break
		}
		if tok == gotoken.SEMICOLON && lit == "\n" {
			n++
			sb.WriteString(strings.Replace(eol, "%n", fmt.Sprint(n), -1))
			first = true
			continue
		}
		if !first {
			sb.WriteString(sep)
		}
		first = false
		switch {
		case tok == gotoken.SEMICOLON:
			sb.WriteString(";")
		case lit != "":
			sb.WriteString(lit)
		default:
			sb.WriteString(tok.String())
		}
	}
	return sb.String()
}

func c18Layouts(thorough bool) []c18Own {
	var out []c18Own
	long := strings.Repeat("long comment ' \" ", 400)   // 6800 bytes: longer than a bufio buffer
	huge := strings.Repeat("x", 70000)                  // longer than 64 KiB
	lstr := strings.Repeat("long string ' // /* ", 300) // 6000 bytes, no double quote, no back quote
	for _, b := range c18LayoutBases {
		add := func(name, text string, godecls bool) {
			id := "lay_" + b.name + "_" + name
			out = append(out, c18Own{ID: id, Fam: "layout|" + name, Src: strings.Replace(text, "ID", id, -1), Call: "P_" + id + "()", GoDecls: godecls})
		}
		add("asis", b.src, true)
		for _, sp := range c18Seps {
			for _, el := range c18Eols {
				if !thorough && sp.name != "sp" && el.name != "lf" && !(sp.name == "tab" && el.name == "crlf") && !(sp.name == "cmt" && el.name == "oneline") {
					continue // quick: each policy alone plus two mixed ones; thorough: the full product
				}
				add(sp.name+"_"+el.name, c18Emit(b.src, sp.s, el.s), true)
			}
		}
		plain := c18Emit(b.src, " ", "\n")
		add("bom", "\xef\xbb\xbf"+plain, false)
		add("leadcmt", "// leading comment\n/* and a block\n   comment */\n\n// another\n"+plain, true)
		add("shebang", "#!/usr/bin/env gomacro\n"+plain, false)
		add("nofinalnl", strings.TrimRight(plain, "\n"), true)
		add("trailsp", strings.Replace(plain, "\n", " \t \n", -1), true)
		add("longcmt", "// "+long+"\n"+strings.Replace(plain, "\n", " // "+long+"\n", 3), true)
		add("longblk", "/* "+long+"\n"+long+" */\n"+plain, true)
		add("hugecmt", "// "+huge+"\n"+plain+"/* "+huge+" */\n", true)
		add("longstr", plain+"\nvar ls_ID = \""+lstr[:5000]+"\"\nvar lr_ID = `"+lstr[:4000]+"\n"+lstr[:4500]+"`\nfunc Q_ID() {\nP_ID()\nO(len(ls_ID), len(lr_ID), ls_ID[4090:4100], lr_ID[3995:4005])\n}\n", true)
		add("longline", c18Emit(b.src+strings.Replace(b.src, "ID", "IDb", -1)+strings.Replace(b.src, "ID", "IDc", -1), " ", "; "), true)
		add("indent", strings.Replace(plain, "\n", "\n\t\t\t\t\t\t\t\t\t\t\t\t", -1), true)
	}
	// the long-string variant has a second entry point
	for i := range out {
		if strings.HasSuffix(out[i].Fam, "|longstr") {
			out[i].Call = "Q_" + out[i].ID + "()"
		}
	}
	return out
}

// ---------------------------------------------------------------------------------------------------------------
// repl

// c18ReplAlphabet: one REPL input per letter; %I = sequence id, %K = position in the sequence (trace point).
var c18ReplAlphabet = []struct{ name, in string }{
	{"stmt", "v_%I = Ti(%K, v_%I*2+1)"},
	{"expr", "Ti(%K, v_%I) + 1"},
	{"decl", "func f%K_%I() int { return Ti(%K, v_%I+5) }; v_%I = f%K_%I()"},
	{"forced-stmt", ":v_%I = Ti(%K, v_%I*2+1)"},
	{"forced-expr", ":1+Ti(%K, 2)"},
	{"forced-const", ":1+2"},
	{"forced-decl", ":func g%K_%I() int { return Ti(%K, v_%I+7) }"},
	{"forced-sp", ": v_%I += Ti(%K, 3)"},
	{"forced-multi", ":{\nv_%I -= Ti(%K, 1)\n}"},
	{"define", "w%K_%I := Ti(%K, v_%I); v_%I += w%K_%I"},
	{"help", ":help"},
	{"copyright", ":copyright"},
	{"package", "package main"},
	{"import", "import \"strings\"; v_%I += Ti(%K, len(strings.Repeat(\"ab\", 2)))"},
	{"panic", "v_%I = Ti(%K, v_%I) / zero_%I"},
	{"forced-panic", ":v_%I = Ti(%K, v_%I) / zero_%I"},
	{"macrocall", "second_%I; T(%K * 100); v_%I += Ti(%K, 1); T(%K * 101)"},
	{"forced-macrocall", ":second_%I; T(%K * 100); v_%I += Ti(%K, 2); T(%K * 101)"},
	{"forced-macrodecl", ":macro third%K_%I(a, b, c interface{}) interface{} { return c }"},
	{"comment", "// only a comment"},
	{"forced-cmt", ":// forced comment"},
	{"quasiquote", "q%K_%I := ~\"{x + ~,{v_%I}}; T(%K)"},
}

// c18ReplShortOnly: inputs that are not used as the third input of a sequence (they add little to their siblings)
var c18ReplShortOnly = map[string]bool{"expr": true, "import": true, "comment": true, "quasiquote": true, "copyright": true, "forced-cmt": true}

func c18Repl(thorough bool) []c18Own {
	var out []c18Own
	n := len(c18ReplAlphabet)
	maxlen := 2
	if thorough {
		maxlen = 3
	}
	var rec func(prefix []int)
	rec = func(prefix []int) {
		plain := 0
		for _, l := range prefix {
			if nm := c18ReplAlphabet[l].name; !strings.HasPrefix(nm, "forced") && nm != "help" && nm != "copyright" && nm != "package" {
				plain++
			}
		}
		// quick: sequences of two or more inputs without any REPL-only input are left to the thorough tier
		if len(prefix) > 0 && (thorough || len(prefix) == 1 || plain < len(prefix)) {
			names := make([]string, len(prefix))
			for i, l := range prefix {
				names[i] = fmt.Sprint(l)
			}
			id := "rp_" + strings.Join(names, "_")
			inputs := []string{strings.Replace("var v_%I, zero_%I = 1, 0", "%I", id, -1),
				strings.Replace("macro second_%I(a, b, c interface{}) interface{} { return b }", "%I", id, -1)}
			for i, l := range prefix {
				rep := strings.NewReplacer("%I", id, "%K", fmt.Sprint(i+1))
				inputs = append(inputs, rep.Replace(c18ReplAlphabet[l].in))
			}
			// epilogue: two plain inputs that show whether evaluation still happens and what the state is
			inputs = append(inputs, strings.Replace("v_%I = Ti(8, v_%I + 1)", "%I", id, -1), strings.Replace("O(v_%I)", "%I", id, -1))
			fam := make([]string, len(prefix))
			for i, l := range prefix {
				fam[i] = c18ReplAlphabet[l].name
			}
			out = append(out, c18Own{ID: id, Fam: "repl|" + strings.Join(fam, ","), Inputs: inputs})
		}
		if len(prefix) == maxlen {
			return
		}
		for l := 0; l < n; l++ {
			if len(prefix) == 2 && c18ReplShortOnly[c18ReplAlphabet[l].name] {
				continue
			}
			rec(append(prefix[:len(prefix):len(prefix)], l))
		}
	}
	rec(nil)
	return out
}
