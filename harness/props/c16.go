package props

// C16 — package-level declarations in ONE evaluation may be written in any order.
//
// Every dependency DAG over <= N declarations of kinds {const, const group with iota, var, type, func}
// (c16_gen.go) x EVERY permutation of the textual order is evaluated as a single Eval; the values of all
// names are then read back and compared with compiled Go (one build per declaration set: in Go the order of
// package-level declarations is irrelevant). Cyclic sets: go/types decides accept/reject.
// c16_spec.go adds two generated families: specs declaring several names whose initialisers depend on different
// declarations (per-name dependency lists of base/dep/scope.go Vars/Consts), and declarations using mutually
// recursive types.

import (
	"encoding/json"
	"fmt"
	"os"
	"sort"
	"strings"

	"verif/harness/core"
	"verif/harness/h"
	"verif/harness/oracle"
	"verif/harness/twin"
)

func init() {
	core.Register(&core.Check{ID: "C16", Level: "exploration", Workers: -1,
		Prepare: func(c *core.Ctx) error { _, _, _, err := c16Corpus(c); return err },
		Run:     c16Run, Replay: c16Replay})
}

type c16Case struct {
	Set  c16Set `json:"set"`
	Perm []int  `json:"perm"`
	Want string `json:"want_compiled_go"`
	Got  string `json:"got_interpreter"`
	// GoRejects: go/types rejects the set (then only "the interpreter says declaration loop => Go rejects" is checked)
	GoRejects bool   `json:"go_rejects,omitempty"`
	Source    string `json:"source"`
}

// c16Sets enumerates the declaration sets of the tier.
func c16Sets(c *core.Ctx) []c16Set {
	sets := append([]c16Set{}, c16Cyclic...)
	sets = append(sets, c16RecUsers...)
	sets = append(sets, c16SpecSets(c.Thorough())...)
	if only := os.Getenv("C16_ONLY"); only != "" {
		// development aid: restrict the run to the hand-written/generated Decls-sets whose ID starts with the prefix
		var f []c16Set
		for _, s := range sets {
			if strings.HasPrefix(s.ID, only) {
				f = append(f, s)
			}
		}
		return f
	}
	addDAGs := func(n int, kinds []byte, vectors [][]byte, variants int) {
		type pair struct{ i, j int }
		for vi, vec := range vectors {
			var pairs []pair
			for i := 0; i < n; i++ {
				for j := 0; j < i; j++ {
					if c16Legal(vec[i], vec[j]) {
						pairs = append(pairs, pair{i, j})
					}
				}
			}
			for g := 0; g < 1<<uint(len(pairs)); g++ {
				for v := 0; v < variants; v++ {
					s := c16Set{ID: fmt.Sprintf("n%dk%de%dv%d", n, vi, g, v)}
					for i := 0; i < n; i++ {
						s.Nodes = append(s.Nodes, c16Node{Kind: vec[i]})
					}
					for pi, p := range pairs {
						if g>>uint(pi)&1 == 1 {
							s.Nodes[p.i].Refs = append(s.Nodes[p.i].Refs, c16Ref{To: p.j, Place: g*7 + pi*3 + v*5 + vi})
						}
					}
					// decoys: V and F nodes mention (shadowed) names of nodes they do not refer to, in either direction
					for i := 0; i < n; i++ {
						if vec[i] != 'V' && vec[i] != 'F' {
							continue
						}
						for j := 0; j < n; j++ {
							if i == j || (g+i*3+j+v)%4 != 0 {
								continue
							}
							has := false
							for _, r := range s.Nodes[i].Refs {
								if r.To == j {
									has = true
								}
							}
							if !has {
								s.Nodes[i].Refs = append(s.Nodes[i].Refs, c16Ref{To: j, Place: g + i + j*2 + v, Decoy: true})
							}
						}
					}
					sets = append(sets, s)
				}
			}
		}
	}
	allVectors := func(n int, kinds []byte) [][]byte {
		total := 1
		for i := 0; i < n; i++ {
			total *= len(kinds)
		}
		var out [][]byte
		for x := 0; x < total; x++ {
			vec := make([]byte, n)
			y := x
			for i := 0; i < n; i++ {
				vec[i] = kinds[y%len(kinds)]
				y /= len(kinds)
			}
			out = append(out, vec)
		}
		return out
	}
	four := []byte{'C', 'V', 'T', 'F'}
	for n := 1; n <= 3; n++ {
		addDAGs(n, c16Kinds, allVectors(n, c16Kinds), c.Pick(1, 3))
	}
	if c.Quick() {
		addDAGs(4, four, allVectors(4, four), 1)
	} else {
		addDAGs(4, c16Kinds, allVectors(4, c16Kinds), 1)
		var vecs [][]byte
		for _, v := range []string{"CVTFV", "TTVFF", "CGVFF", "VVFFV", "TCTVF", "FFFVV", "GCTVF", "TTTVF"} {
			vecs = append(vecs, []byte(v))
		}
		addDAGs(5, c16Kinds, vecs, 1)
	}
	return sets
}

func (s *c16Set) prog() oracle.Prog {
	decls, obs := s.render(s.ID)
	return oracle.Prog{ID: s.ID, Decls: strings.Join(decls, "\n"), Body: obs}
}

// c16Corpus classifies the sets with go/types and computes the compiled-Go results of the valid ones.
func c16Corpus(c *core.Ctx) (sets []c16Set, rejected map[string]string, want map[string]string, err error) {
	sets = c16Sets(c)
	progs := make([]oracle.Prog, len(sets))
	seen := map[string]bool{}
	for i := range sets {
		if seen[sets[i].ID] {
			return nil, nil, nil, fmt.Errorf("duplicate set id %s", sets[i].ID)
		}
		seen[sets[i].ID] = true
		progs[i] = sets[i].prog()
	}
	verdict, err := oracle.Classify("C16-"+c.Tier, progs)
	if err != nil {
		return nil, nil, nil, err
	}
	rejected = map[string]string{}
	var valid []oracle.Prog
	for i := range progs {
		if msg := verdict[progs[i].ID]; msg != "" {
			if sets[i].Decls == nil || sets[i].MustBeValid {
				return nil, nil, nil, fmt.Errorf("generator error: DAG set %s is not valid Go: %s\n%s", progs[i].ID, msg, progs[i].Source())
			}
			rejected[progs[i].ID] = msg
		} else {
			valid = append(valid, progs[i])
		}
	}
	want, err = oracle.GoResults("C16-"+c.Tier, valid)
	return
}

func permutations(n int) [][]int {
	var out [][]int
	p := make([]int, n)
	for i := range p {
		p[i] = i
	}
	var rec func(k int)
	rec = func(k int) {
		if k == n {
			out = append(out, append([]int{}, p...))
			return
		}
		for i := k; i < n; i++ {
			p[k], p[i] = p[i], p[k]
			rec(k + 1)
			p[k], p[i] = p[i], p[k]
		}
	}
	rec(0)
	return out
}

// c16Eval evaluates one permutation of one set in ir (names carry the suffix sfx) and returns the observation
// or the error. phase tells where it failed: "" | "compile" | "run" | "observe".
func c16Eval(ir *twin.Interp, s *c16Set, perm []int, sfx string) (got, src, phase string) {
	decls, obs := s.render(sfx)
	var sb strings.Builder
	for _, k := range perm {
		sb.WriteString(decls[k])
		sb.WriteByte('\n')
	}
	src = sb.String()
	h.Reset()
	if p := twin.Catch(func() { ir.Eval(src) }); p != nil {
		return "ERROR: " + c16OneLineErr(p), src, "eval"
	}
	pf := "func P_" + sfx + "() {\n" + obs + "\n}"
	if p := twin.Catch(func() { ir.Eval(pf) }); p != nil {
		return "OBSERVE-ERROR: " + c16OneLineErr(p), src, "observe"
	}
	h.Reset()
	var res string
	if p := twin.Catch(func() { res = h.Exec(func() { ir.Eval("P_" + sfx + "()") }) }); p != nil {
		return "OBSERVE-PANIC: " + c16OneLineErr(p), src, "observe"
	}
	return res, src, ""
}

func c16OneLineErr(p interface{}) string {
	s := strings.TrimSpace(fmt.Sprint(p))
	return strings.Join(strings.Fields(s), " ")
}

// c16Signature classifies a disagreement by its cause as far as it can be determined from the source alone.
func c16Signature(s *c16Set, src, got string) (sig, why string) {
	var chunks []c17Chunk
	for _, line := range strings.Split(strings.TrimSpace(src), "\n") {
		chunks = append(chunks, c17Chunk{Class: "decl", Text: line})
	}
	an := c17Analyze(chunks)
	if an.err == "" && len(an.decl) == 1 {
		d := an.decl[0]
		// function-only cycle?
		funcs := &refGraph{Names: d.ref.Names, Kind: d.ref.Kind, Idx: d.ref.Idx, Deps: d.ref.Deps}
		onlyFuncCycle := funcs.hasCycle(func(from, to string) bool {
			k1, k2 := d.ref.Kind[from], d.ref.Kind[to]
			return (k1 == "Func" || k1 == "Method") && (k2 == "Func" || k2 == "Method")
		})
		// the sorter's dependency lists (only when it cannot hang: no type on a cycle)
		if !an.risky {
			if nodes, fset, err := c17Parse(src); err == nil {
				items, perr := c17Sort(nodes, fset)
				if perr == "" {
					impl := map[string][]string{}
					for _, it := range items {
						if it.Kind != "TypeFwd" {
							l := append([]string{}, it.Deps...)
							sort.Strings(l)
							impl[it.Name] = l
						}
					}
					for _, u := range d.units {
						have, ok := impl[u.Name]
						if !ok || sameStrings(have, u.Deps) {
							continue
						}
						for _, n := range diffStrings(u.Deps, have) {
							return "C16|sorter-deps|" + depsClass(u, d.ref.Idx, n, true), fmt.Sprintf("%s %s refers to %s but the dependency sorter does not list it", u.Kind, u.Name, n)
						}
						for _, n := range diffStrings(have, u.Deps) {
							if _, in := d.ref.Kind[n]; in {
								return "C16|sorter-deps|" + depsClass(u, d.ref.Idx, n, false), fmt.Sprintf("%s %s has no free occurrence of %s but the dependency sorter lists it", u.Kind, u.Name, n)
							}
						}
					}
				} else if strings.HasPrefix(perr, "declaration loop") && !an.expectLoop {
					k := &c17Checker{}
					if s, w := k.explainByDeps(chunks, an); s != "" {
						return strings.Replace(s, "C17|deps|", "C16|sorter-deps|", 1), w
					}
				}
			}
		}
		if onlyFuncCycle {
			return "C16|func-cycle", "the set contains mutually recursive functions (a dependency cycle made of function bodies only), which Go accepts"
		}
	}
	if s.Class != "" {
		kind := "wrong-value"
		switch {
		case strings.Contains(got, "declaration loop"):
			kind = "declaration-loop"
		case strings.HasPrefix(got, "ERROR"):
			kind = "eval-error"
		case strings.HasPrefix(got, "OBSERVE"), strings.Contains(got, "PANIC"):
			kind = "use-fails"
		}
		return "C16|" + s.Class + "|" + kind, ""
	}
	cls := "other"
	switch {
	case strings.Contains(got, "declaration loop"):
		cls = "declaration-loop"
	case strings.Contains(got, "undefined identifier"):
		cls = "undefined-identifier"
	case strings.HasPrefix(got, "ERROR"):
		cls = "eval-error"
	case strings.HasPrefix(got, "OBSERVE"):
		cls = "observe-error"
	default:
		cls = "wrong-value"
	}
	return "C16|mismatch|" + cls, ""
}

// needsMove tells whether some declaration precedes, in the permuted text, a declaration it refers to.
func c16NeedsMove(s *c16Set, perm []int) bool {
	if s.Nodes == nil {
		if s.ChunkDeps == nil {
			return true
		}
		pos := make([]int, len(perm))
		for at, k := range perm {
			pos[k] = at
		}
		for i, l := range s.ChunkDeps {
			for _, j := range l {
				if i != j && pos[j] > pos[i] {
					return true
				}
			}
		}
		return false
	}
	pos := make([]int, len(perm))
	for at, k := range perm {
		pos[k] = at
	}
	for i := range s.Nodes {
		for _, r := range s.Nodes[i].Refs {
			if !r.Decoy && pos[r.To] > pos[i] {
				return true
			}
		}
	}
	return false
}

func c16Run(c *core.Ctx) {
	c.Rule("every declaration set (all DAGs over <= N declarations with node i referring to nodes j<i, kinds const / const group with iota / var / type / func, references placed in initialisers, type expressions, " +
		"function bodies at several block depths and closures, with shadowing decoys; plus hand-written cyclic sets; plus the generated family of specs declaring several names " +
		"(var / const / const group inheriting type and initialisers / var group / multi-value form; 2-3 names; 9 type expressions with 0-5 distinct type names and repeated mentions; per-name initialisers referring to DISTINCT outside vars, funcs, consts, " +
		"to literals, to sibling names or to an outside declaration that depends on a sibling); plus declarations using mutually recursive types (funcs, vars, types, literals, nil partner fields)) " +
		"x EVERY permutation of its textual order is evaluated as one Eval and the values of all names are compared with compiled Go. " +
		"non-trivial = distinct (set, permutation) pairs in which some declaration textually precedes a declaration it refers to (the sorter must move something), or the set is a hand-written cyclic one")
	c.Assume("the Go toolchain installed in the image (go1.23.5) is the reference for 'compiled Go'; go/types decides which cyclic sets are valid Go",
		"all permutations of one set are evaluated in one interpreter with per-permutation name suffixes; the first and the last permutation of every set, and every disagreement, are (re-)evaluated on a fresh interpreter")
	sets, rejected, want, err := c16Corpus(c)
	if err != nil {
		panic(err)
	}
	c.Set("declaration_sets", len(sets))
	c.Set("sets_go_rejects", len(rejected))
	c.Set("go_rejected_sets", rejected)
	for si := range sets {
		if !c.Mine(si) {
			continue
		}
		if c.Expired() {
			return
		}
		s := &sets[si]
		n := len(s.Nodes)
		if s.Decls != nil {
			n = len(s.Decls)
		}
		perms := permutations(n)
		ir := twin.NewFast()
		for pi, perm := range perms {
			sfx := fmt.Sprintf("%sp%d", s.ID, pi)
			got, src, _ := c16Eval(ir, s, perm, sfx)
			if pi == 0 || pi == len(perms)-1 {
				// the same permutation on a fresh interpreter must agree with the shared one
				got2, _, _ := c16Eval(twin.NewFast(), s, perm, sfx)
				if got2 != got {
					c.Count("shared_vs_fresh_interpreter_disagree", 1)
					got = got2
				}
				c.Eval(1)
			}
			c16Judge(c, s, perm, sfx, src, got, want[s.ID], rejected[s.ID], true)
		}
	}
}

// c16Judge compares one evaluation with the oracle. confirm: re-run on a fresh interpreter before reporting.
func c16Judge(c *core.Ctx, s *c16Set, perm []int, sfx, src, got, want, goRejects string, confirm bool) {
	c.Eval(1)
	if c16NeedsMove(s, perm) {
		c.Nontrivial(src)
	}
	cas := c16Case{Set: *s, Perm: perm, Want: want, Got: got, Source: src}
	if goRejects != "" {
		cas.GoRejects = true
		// Go rejects the set: the interpreter is free, count what it does
		switch {
		case strings.Contains(got, "declaration loop"):
			c.Count("go-rejected sets: interpreter reports declaration loop", 1)
		case strings.HasPrefix(got, "ERROR"), strings.HasPrefix(got, "OBSERVE-ERROR"):
			c.Count("go-rejected sets: interpreter reports another error", 1)
		default:
			c.Count("go-rejected sets: interpreter accepts", 1)
		}
		return
	}
	// names in the interpreter carry the per-permutation suffix: the observation does not contain names, compare directly
	if got == want {
		c.Count("agree", 1)
		if c.WantSample() && c16NeedsMove(s, perm) && len(perm) >= 3 {
			c.Sample(map[string]string{"evaluated_as_one_input": src, "values": want})
		}
		return
	}
	if confirm {
		got2, _, _ := c16Eval(twin.NewFast(), s, perm, sfx)
		if got2 == want {
			// only the shared interpreter disagrees: hidden state from earlier permutations, not this property
			c.Count("disagreement_only_on_shared_interpreter", 1)
			return
		}
		got = got2
		cas.Got = got
	}
	sig, why := c16Signature(s, src, got)
	if os.Getenv("C16_DEBUG") != "" {
		c.Count(fmt.Sprintf("debug: %s perm=%v sig=%s got=%q", s.ID, perm, sig, got), 1)
	}
	c.Count("cases_by_signature:"+sig, 1)
	if why != "" {
		why = "\ncause: " + why
	}
	c.Violation(sig, fmt.Sprintf("compiled Go: %q   interpreter (one Eval, fresh interpreter): %q%s\ninput:\n%s", want, got, why, src), cas)
}

func c16Replay(c *core.Ctx, raw json.RawMessage) {
	var cas c16Case
	if err := json.Unmarshal(raw, &cas); err != nil {
		panic(err)
	}
	s := &cas.Set
	sfx := s.ID + "r"
	goRejects := ""
	if cas.GoRejects {
		goRejects = "rejected"
	}
	for i := 0; i < 5; i++ {
		got, src, _ := c16Eval(twin.NewFast(), s, cas.Perm, sfx)
		c16Judge(c, s, cas.Perm, sfx, src, got, cas.Want, goRejects, false)
	}
}
