package props

// C01 — typed expressions over basic types evaluate exactly as compiled Go.
//
// Bounded-exhaustive product: operator × operand kind(s) × constness shape {var∘var, var∘const, const∘var,
// const∘const} × constant spelling {T(lit), untyped lit, untyped float lit, named typed const} × storage shape of the
// variable operands (global / local / captured at closure depth 1..4 / nested blocks / global read from depth 0..3;
// integer slot or boxed) × boundary value alphabets. One interpreter function (or top-level expression) is compiled
// per unit and run over the whole value grid.
//
// Oracles: run-time value and panic class = native Go operators (generic functions of package native, instantiated
// per kind, linked into this binary); well-typedness and static type = std go/types (oracle.PkgScope).
// Expressions that Go rejects are outside the property ("every well-typed expression"): they are counted, and whether
// the interpreter accepts them is recorded as coverage information only.

import (
	"encoding/json"
	"fmt"
	"go/types"
	"os"
	"runtime"
	"runtime/debug"
	"sort"
	"strconv"
	"strings"

	"github.com/cosmos72/gomacro/fast"

	"verif/harness/core"
	"verif/harness/oracle"
	"verif/harness/twin"
)

func init() {
	core.Register(&core.Check{ID: "C01", Level: "exploration", Workers: -1, Run: c01Run, Replay: c01Replay})
}

type c01Unit struct {
	Op    string `json:"op"`             // Go spelling; unary operators are "u-", "u+", "u^", "u!"
	KX    string `json:"kx"`             // kind of the left (or only) operand
	KY    string `json:"ky,omitempty"`   // kind of the right operand
	Shape string `json:"shape"`          // vv vc cv cc | v c (unary)
	Form  string `json:"form,omitempty"` // spelling of the constant operand(s): L=T(lit) U=untyped F=untyped with ".0" N=named typed const
	CX    string `json:"cx,omitempty"`   // encoded constant operands
	CY    string `json:"cy,omitempty"`
	Store string `json:"store"` // storage shape of the variable operands
}

type c01Case struct {
	Unit c01Unit `json:"unit"`
	X    string  `json:"x,omitempty"`
	Y    string  `json:"y,omitempty"`
	Src  string  `json:"source,omitempty"`
	Want string  `json:"want_compiled_go,omitempty"`
	Got  string  `json:"got_interpreter,omitempty"`
}

var c01OpName = map[string]string{"+": "ADD", "-": "SUB", "*": "MUL", "/": "QUO", "%": "REM", "&": "AND", "|": "OR", "^": "XOR", "&^": "ANDNOT",
	"<<": "SHL", ">>": "SHR", "==": "EQL", "!=": "NEQ", "<": "LSS", "<=": "LEQ", ">": "GTR", ">=": "GEQ", "&&": "LAND", "||": "LOR",
	"u+": "UPLUS", "u-": "UMINUS", "u^": "UXOR", "u!": "UNOT"}

var (
	c01ArithOps = []string{"+", "-", "*", "/", "%", "&", "|", "^", "&^", "&&", "||"}
	c01CmpOps   = []string{"==", "!=", "<", "<=", ">", ">="}
	c01UnaryOps = []string{"u+", "u-", "u^", "u!"}
	c01ShiftOps = []string{"<<", ">>"}
)

func (u *c01Unit) isShift() bool { return u.Op == "<<" || u.Op == ">>" }
func (u *c01Unit) isCmp() bool {
	switch u.Op {
	case "==", "!=", "<", "<=", ">", ">=":
		return true
	}
	return false
}
func (u *c01Unit) isUnary() bool { return strings.HasPrefix(u.Op, "u") }
func (u *c01Unit) ky() string {
	if u.KY == "" {
		return u.KX
	}
	return u.KY
}
func (u *c01Unit) resultType() string {
	if u.isCmp() {
		return "bool"
	}
	return u.KX
}
func (u *c01Unit) hasA() bool { return u.Shape == "vv" || u.Shape == "vc" || u.Shape == "v" }
func (u *c01Unit) hasB() bool { return u.Shape == "vv" || u.Shape == "cv" }

func (u *c01Unit) driver() c01Driver {
	switch {
	case u.isShift():
		return c01ShiftDriver(u.KX, u.ky())
	case u.KX != u.ky():
		return nil
	case u.isCmp():
		return c01Driver_(u.KX, u.KX, true)
	}
	return c01Driver_(u.KX, u.KX, false)
}

// groupKey identifies the Go expression of the unit (named typed constants are spelled as conversions for go/types).
func (u *c01Unit) groupKey() string {
	return u.Op + "|" + u.KX + "|" + u.KY + "|" + u.Shape + "|" + strings.ReplaceAll(u.Form, "N", "L") + "|" + u.CX + "|" + u.CY
}

func (u *c01Unit) key() string {
	return u.Op + "|" + u.KX + "|" + u.KY + "|" + u.Shape + "|" + u.Form + "|" + u.CX + "|" + u.CY + "|" + u.Store
}

// ---- source generation -------------------------------------------------------

func c01StoreGlobal(st string) bool {
	return st == "top" || st == "btop" || strings.HasPrefix(st, "g") || strings.HasPrefix(st, "bg")
}
func c01StoreBoxed(st string) bool { return st == "btop" || strings.HasPrefix(st, "bg") }

func c01Blocks(k int, inner string) string {
	s := inner
	for i := k; i >= 1; i-- {
		s = fmt.Sprintf("{ y%d := %d; _ = y%d; %s }", i, i, i, s)
	}
	return s
}

func c01Nest(k int, R, inner string) string {
	s := inner
	for i := k; i >= 1; i-- {
		s = fmt.Sprintf("return func() %s { z%d := %d; _ = z%d; %s }()", R, i, i, i, s)
	}
	return s
}

// operand spelling; decl receives named-constant declarations.
func c01ConstText(enc string, form byte, name string, decl *string) string {
	v := c01Dec(enc)
	switch form {
	case 'U':
		return c01Untyped(v, false)
	case 'F':
		return c01Untyped(v, true)
	case 'N':
		if decl != nil {
			*decl += fmt.Sprintf("const %s %s = %s; ", name, c01KindOf(v), c01Untyped(v, false))
			return name
		}
	}
	return c01Typed(v)
}

func (u *c01Unit) expr(a, b string) string {
	if u.isUnary() {
		return u.Op[1:] + "(" + a + ")"
	}
	return a + " " + u.Op + " " + b
}

// operands returns the operand spellings given the variable names; named constants are declared into decl
// (decl == nil: oracle spelling, named constants written as typed conversions).
func (u *c01Unit) operands(va, vb string, decl *string) (string, string) {
	ex, ey := va, vb
	switch u.Shape {
	case "vc":
		ey = c01ConstText(u.CY, u.Form[0], "cn2", decl)
	case "cv":
		ex = c01ConstText(u.CX, u.Form[0], "cn1", decl)
	case "c":
		ex = c01ConstText(u.CX, u.Form[0], "cn1", decl)
	case "cc":
		ex = c01ConstText(u.CX, u.Form[0], "cn1", decl)
		ey = c01ConstText(u.CY, u.Form[1], "cn2", decl)
	}
	return ex, ey
}

func (u *c01Unit) oracleExpr() string {
	ex, ey := u.operands("a", "b", nil)
	return u.expr(ex, ey)
}

// source returns the interpreter source of the unit: for top-level shapes (setter, expression), else (function literal, "").
func (u *c01Unit) source() (fn string, setter string, expr string) {
	tx, ty, R := u.KX, u.ky(), u.resultType()
	st := u.Store
	global := c01StoreGlobal(st)
	va, vb := "a", "b"
	if global {
		pre := "g"
		if c01StoreBoxed(st) {
			pre = "x"
		}
		va, vb = pre+"a_"+tx, pre+"b_"+ty
	}
	decl := ""
	ex, ey := u.operands(va, vb, &decl)
	E := u.expr(ex, ey)
	var params []string
	assign := ""
	if u.hasA() {
		if global {
			params = append(params, "p "+tx)
			assign += va + " = p; "
		} else {
			params = append(params, "a "+tx)
		}
	}
	if u.hasB() {
		if global {
			params = append(params, "q "+ty)
			assign += vb + " = q; "
		} else if st == "capmix" {
			params = append(params, "q "+ty)
		} else {
			params = append(params, "b "+ty)
		}
	}
	ps := strings.Join(params, ", ")
	depth := func(prefix string) int {
		var k int
		fmt.Sscanf(strings.TrimPrefix(st, prefix), "%d", &k)
		return k
	}
	ret := "return " + E
	var body string
	switch {
	case st == "top" || st == "btop":
		if len(params) > 0 {
			// (the setter returns a value: a one-parameter function without results takes another call path)
			setter = "(func(" + ps + ") bool { " + assign + "return true })"
		}
		return "", setter, E
	case strings.HasPrefix(st, "gfunc"):
		body = decl + assign + c01Nest(depth("gfunc"), R, ret)
	case strings.HasPrefix(st, "bgfunc"):
		body = decl + assign + c01Nest(depth("bgfunc"), R, ret)
	case strings.HasPrefix(st, "gblk"):
		body = decl + assign + c01Blocks(depth("gblk"), ret)
	case strings.HasPrefix(st, "bgblk"):
		body = decl + assign + c01Blocks(depth("bgblk"), ret)
	case st == "local":
		body = decl + ret
	case st == "cap2nolocal":
		body = decl + fmt.Sprintf("return func() %s { return func() %s { %s }() }()", R, R, ret)
	case st == "capmix":
		body = decl + fmt.Sprintf("return func(b %s) %s { z1 := 1; _ = z1; return func() %s { z2 := 2; _ = z2; %s }() }(q)", ty, R, R, ret)
	case strings.HasPrefix(st, "cap") && strings.Contains(st, "blk"):
		var k, j int
		fmt.Sscanf(st, "cap%dblk%d", &k, &j)
		body = decl + c01Nest(k, R, c01Blocks(j, ret))
	case strings.HasPrefix(st, "cap"):
		body = decl + c01Nest(depth("cap"), R, ret)
	case strings.HasPrefix(st, "blk"):
		body = decl + c01Blocks(depth("blk"), ret)
	default:
		panic("unknown store " + st)
	}
	return "(func(" + ps + ") " + R + " { " + body + " })", "", ""
}

// ---- world: one interpreter with int-slot and boxed globals of every kind -----------------

type c01World struct {
	ir     *twin.Interp
	scopes map[string]*c01Scope
}

func newC01World() *c01World {
	w := &c01World{ir: twin.NewFast(), scopes: map[string]*c01Scope{}}
	ir := w.ir
	var sb strings.Builder
	for _, k := range c01Kinds {
		fmt.Fprintf(&sb, "var ga_%s %s\nvar gb_%s %s\n", k, k, k, k)
	}
	ir.Eval(sb.String())
	// freeze the integer-slot array of the file scope (address of a slot taken), fill it up to its capacity:
	// every variable declared afterwards is boxed (reflect.Value storage) whatever its kind.
	ir.Eval("var gfreeze int\nvar gfreezep = &gfreeze")
	env := ir.PrepareEnv()
	n := cap(env.Ints) - ir.Comp.IntBindNum
	if n > 0 {
		sb.Reset()
		sb.WriteString("var pad0")
		for i := 1; i < n; i++ {
			fmt.Fprintf(&sb, ", pad%d", i)
		}
		sb.WriteString(" int")
		ir.Eval(sb.String())
	}
	sb.Reset()
	for _, k := range c01Kinds {
		fmt.Fprintf(&sb, "var xa_%s %s\nvar xb_%s %s\n", k, k, k, k)
	}
	ir.Eval(sb.String())
	for _, k := range c01Kinds {
		for _, pre := range []string{"ga_", "gb_", "xa_", "xb_"} {
			sym := ir.Comp.TryResolve(pre + k)
			wantBoxed := pre[0] == 'x' || k == "string"
			if sym == nil || (sym.Desc.Class() == fast.VarBind) != wantBoxed || (sym.Desc.Class() == fast.IntBind) == wantBoxed {
				panic(fmt.Sprintf("harness error: global %s%s has storage class %v (boxed wanted: %v)", pre, k, sym.Desc.Class(), wantBoxed))
			}
		}
	}
	ir.Out.Reset()
	return w
}

func (w *c01World) scope(tx, ty string) *c01Scope {
	k := tx + "|" + ty
	if s := w.scopes[k]; s != nil {
		return s
	}
	s, err := newC01Scope(fmt.Sprintf("var a %s\nvar b %s\n", tx, ty))
	if err != nil {
		panic(err)
	}
	w.scopes[k] = s
	return s
}

// build compiles the unit; err != "" means the interpreter rejected it.
func (w *c01World) build(u *c01Unit) (cl *c01Callable, src string, err string) {
	fn, setter, expr := u.source()
	src = fn
	if fn == "" {
		src = expr
		if setter != "" {
			src = setter + " ; " + expr
		}
	}
	perr := twin.Catch(func() {
		cl = &c01Callable{ir: w.ir}
		switch {
		case u.hasA() && u.hasB():
			cl.arity = "xy"
		case u.hasA():
			cl.arity = "x"
		case u.hasB():
			cl.arity = "y"
		}
		if fn != "" {
			v, _ := w.ir.Eval1(fn)
			cl.fn = v.Interface()
			return
		}
		if setter != "" {
			v, _ := w.ir.Eval1(setter)
			cl.set = v.Interface()
		}
		e := w.ir.Compile(expr)
		if e == nil {
			panic("Compile returned nil expression")
		}
		cl.expr = e
		cl.cnst = e.Const()
		if e.Untyped() {
			cl.typ = "untyped:" + e.DefaultType().ReflectType().String()
		} else if e.Type != nil {
			cl.typ = e.Type.ReflectType().String()
		}
	})
	if w.ir.Out.Len() > 1<<16 {
		w.ir.Out.Reset()
	}
	if perr != nil {
		return nil, src, fmt.Sprint(perr)
	}
	return cl, src, ""
}

// ---- enumeration ---------------------------------------------------------------

// Storage shapes and the variable-read path they reach (measured with an instrumented identifier.go: a function with
// parameters is one frame, a nested block with locals +1, a closure without locals +1, a closure with locals +2):
//
//	local upn0 | blk1 upn1 | blk2, cap1, cap2nolocal upn2 | blk3 upn3 | cap2 upn4 | cap2blk1 upn5 | cap3 upn6 | cap4 upn8
//	(upn>=3 is the generic Env.Up path, all three remainders mod 3 covered); capmix: the two operands at different depths.
//	globals: top upn0 | gfunc0 upn1 | gblk1 upn2 | gfunc1.. file-scope path (upn 3,5,7); b*: same with boxed globals.
var c01StoresQuick = []string{"local", "top", "gfunc0", "gblk1", "gfunc1", "btop", "bgfunc0", "bgblk1", "bgfunc1", "blk1", "cap1", "blk3", "cap2", "cap2blk1"}
var c01StoresFull = []string{"local", "top", "gfunc0", "gblk1", "gfunc1", "gfunc2", "gfunc3", "btop", "bgfunc0", "bgblk1", "bgfunc1", "bgfunc2", "bgfunc3",
	"blk1", "blk2", "cap1", "blk3", "cap2", "cap2blk1", "cap3", "cap4", "cap2nolocal", "capmix"}

type c01Enum struct {
	c      *core.Ctx
	tier   int
	stores []string
	memo   map[string][]interface{}
}

func (e *c01Enum) vals(kind string, tier int, all8 bool) []interface{} {
	k := fmt.Sprint("v|", kind, tier, all8)
	if v, ok := e.memo[k]; ok {
		return v
	}
	v := c01Vals(kind, tier, all8)
	e.memo[k] = v
	return v
}

func (e *c01Enum) consts(kind, op string, tier int, all8 bool) []interface{} {
	k := fmt.Sprint("c|", kind, op, tier, all8)
	if v, ok := e.memo[k]; ok {
		return v
	}
	v := c01Consts(kind, op, tier, all8)
	e.memo[k] = v
	return v
}

func (e *c01Enum) counts(kind string, tier int) []interface{} {
	k := fmt.Sprint("s|", kind, tier)
	if v, ok := e.memo[k]; ok {
		return v
	}
	v := c01ShiftCounts(kind, tier)
	e.memo[k] = v
	return v
}

func (e *c01Enum) constCounts(kind string, tier int) []interface{} {
	k := fmt.Sprint("sc|", kind, tier)
	if v, ok := e.memo[k]; ok {
		return v
	}
	// constant counts: the non-negative counts plus (rejected by Go, counted) -1
	var out []interface{}
	for _, v := range c01ShiftCounts(kind, tier) {
		out = append(out, v)
	}
	e.memo[k] = out
	return out
}

// c01FloatSpellable: the untyped-float spelling ("8.0") is used only for constants of magnitude <= 2^53, which a
// float64 represents exactly (how the interpreter converts larger untyped float constants to integers is C04's subject).
func c01FloatSpellable(kind string, cv interface{}) bool {
	fam := c01Family(kind)
	if fam == "bool" || fam == "string" || c01Untyped(cv, true) == c01Untyped(cv, false) {
		return false
	}
	if fam == "int" || fam == "uint" {
		mag, err := strconv.ParseUint(strings.TrimPrefix(fmt.Sprintf("%d", cv), "-"), 10, 64)
		return err == nil && mag <= 1<<53
	}
	return true
}

// skipStore: shapes that make no sense for the unit.
func c01SkipStore(u *c01Unit) bool {
	st := u.Store
	nvars := 0
	allString := true
	if u.hasA() {
		nvars++
		if u.KX != "string" {
			allString = false
		}
	}
	if u.hasB() {
		nvars++
		if u.ky() != "string" {
			allString = false
		}
	}
	if nvars == 0 {
		return st != "local" && st != "top"
	}
	if st == "capmix" && nvars != 2 {
		return true
	}
	if c01StoreBoxed(st) && allString {
		return true // string globals are always boxed: same as the g* shapes
	}
	return false
}

// each calls f for every unit of the tier, in a fixed order.
func (e *c01Enum) each(f func(u *c01Unit)) {
	emit := func(u c01Unit) {
		if !c01SkipStore(&u) {
			f(&u)
		}
	}
	full := e.tier == tierFull
	for _, k := range c01Kinds {
		var ops []string
		for _, op := range append(append([]string{}, c01ArithOps...), c01CmpOps...) {
			u := c01Unit{Op: op, KX: k, KY: k}
			if d := u.driver(); d != nil && d.Has(op) {
				ops = append(ops, op)
			}
		}
		is8 := full && (k == "int8" || k == "uint8")
		for _, op := range ops {
			for _, st := range e.stores {
				emit(c01Unit{Op: op, KX: k, KY: k, Shape: "vv", Store: st})
			}
			cs := e.consts(k, op, e.tier, false)
			var cs8 []interface{}
			if is8 {
				cs8 = e.consts(k, op, e.tier, true)
			}
			for _, shape := range []string{"vc", "cv"} {
				mk := func(cv interface{}, form, st string) {
					u := c01Unit{Op: op, KX: k, KY: k, Shape: shape, Form: form, Store: st}
					if shape == "vc" {
						u.CY = c01Enc(cv)
					} else {
						u.CX = c01Enc(cv)
					}
					emit(u)
				}
				for _, cv := range cs {
					for _, st := range e.stores {
						mk(cv, "L", st)
					}
					for _, st := range []string{"local", "cap1"} {
						mk(cv, "U", st)
						mk(cv, "N", st)
						if c01FloatSpellable(k, cv) {
							mk(cv, "F", st)
						}
					}
				}
				// 8-bit kinds: every constant 0..255 on the base shapes (the remaining ones were done above)
				if is8 {
					in := map[string]bool{}
					for _, cv := range cs {
						in[c01Enc(cv)] = true
					}
					for _, cv := range cs8 {
						if in[c01Enc(cv)] {
							continue
						}
						for _, st := range []string{"local", "top", "btop", "cap2"} {
							mk(cv, "L", st)
						}
						mk(cv, "U", "local")
					}
				}
			}
			// const ∘ const (constant folding runs the var∘var closure on constant operands): full × core alphabet for the
			// T(lit) spelling, core × core for the other spellings
			csCore := e.consts(k, op, tierCore, false)
			inCore := map[string]bool{}
			for _, cv := range csCore {
				inCore[c01Enc(cv)] = true
			}
			for _, cx := range cs {
				for _, cy := range csCore {
					u := c01Unit{Op: op, KX: k, KY: k, Shape: "cc", CX: c01Enc(cx), CY: c01Enc(cy)}
					forms := [][2]string{{"LL", "top"}, {"LL", "local"}, {"NN", "local"}, {"LU", "top"}, {"UL", "top"}}
					if !inCore[u.CX] {
						forms = forms[:2]
					}
					for _, fs := range forms {
						u.Form, u.Store = fs[0], fs[1]
						emit(u)
					}
				}
			}
		}
		// unary
		for _, op := range c01UnaryOps {
			u := c01Unit{Op: op, KX: k}
			if d := u.driver(); d == nil || !d.Has(op) {
				continue
			}
			for _, st := range e.stores {
				emit(c01Unit{Op: op, KX: k, Shape: "v", Store: st})
			}
			for _, cv := range e.consts(k, op, e.tier, is8) {
				for _, fs := range [][2]string{{"L", "top"}, {"L", "local"}, {"N", "local"}} {
					emit(c01Unit{Op: op, KX: k, Shape: "c", Form: fs[0], CX: c01Enc(cv), Store: fs[1]})
				}
			}
		}
	}
	// shifts: every (operand kind, count kind)
	for _, kx := range c01IntKinds {
		for _, ky := range c01IntKinds {
			for _, op := range c01ShiftOps {
				for _, st := range e.stores {
					emit(c01Unit{Op: op, KX: kx, KY: ky, Shape: "vv", Store: st})
				}
				// constant count
				for _, cv := range e.counts(ky, e.tier) {
					for _, st := range e.stores {
						emit(c01Unit{Op: op, KX: kx, KY: ky, Shape: "vc", Form: "L", CY: c01Enc(cv), Store: st})
					}
					for _, st := range []string{"local", "cap1"} {
						emit(c01Unit{Op: op, KX: kx, KY: ky, Shape: "vc", Form: "N", CY: c01Enc(cv), Store: st})
					}
					if ky == "int" || ky == "uint64" {
						// untyped constant count (converted by the interpreter to uint64)
						emit(c01Unit{Op: op, KX: kx, KY: ky, Shape: "vc", Form: "U", CY: c01Enc(cv), Store: "local"})
						if c01FloatSpellable(ky, cv) {
							emit(c01Unit{Op: op, KX: kx, KY: ky, Shape: "vc", Form: "F", CY: c01Enc(cv), Store: "local"})
						}
					}
				}
				// constant left operand, variable count (untyped left operand excluded: documented interpreter limitation,
				// the type of an untyped constant shifted by a variable depends on the context)
				for _, cv := range e.consts(kx, op, tierCore, false) {
					for _, st := range e.stores {
						emit(c01Unit{Op: op, KX: kx, KY: ky, Shape: "cv", Form: "L", CX: c01Enc(cv), Store: st})
					}
					emit(c01Unit{Op: op, KX: kx, KY: ky, Shape: "cv", Form: "N", CX: c01Enc(cv), Store: "local"})
				}
				// const ∘ const (quick tier: four count kinds; the count is converted to uint64 at compile time)
				if !full && ky != "int" && ky != "int8" && ky != "uint" && ky != "uint64" {
					continue
				}
				for _, cx := range e.consts(kx, op, tierCore, false) {
					for _, cy := range e.counts(ky, e.tier) {
						u := c01Unit{Op: op, KX: kx, KY: ky, Shape: "cc", CX: c01Enc(cx), CY: c01Enc(cy)}
						for _, fs := range [][2]string{{"LL", "top"}, {"LL", "local"}, {"NN", "local"}} {
							u.Form, u.Store = fs[0], fs[1]
							emit(u)
						}
						if ky == "int" && c01Dec(u.CY).(int) >= 0 {
							u.Form, u.Store = "LU", "top"
							emit(u)
						}
					}
				}
			}
		}
	}
	// mixed kinds: Go rejects them; recorded as coverage only
	for _, p := range [][2]string{{"int", "int8"}, {"int8", "uint8"}, {"float32", "float64"}, {"int", "float64"}, {"complex64", "complex128"},
		{"string", "int"}, {"bool", "int"}, {"uint", "uintptr"}, {"int32", "int64"}} {
		for _, op := range []string{"+", "-", "*", "/", "%", "&", "|", "^", "&^", "==", "<", "&&"} {
			emit(c01Unit{Op: op, KX: p[0], KY: p[1], Shape: "vv", Store: "local"})
			emit(c01Unit{Op: op, KX: p[0], KY: p[1], Shape: "vc", Form: "L", CY: c01Enc(c01Vals(p[1], tierCore, false)[1]), Store: "local"})
		}
	}
}

// grid returns the operand value grid of a unit and, per index, whether the value belongs to the core alphabet.
func (e *c01Enum) grid(u *c01Unit) (xs, ys []interface{}, coreX, coreY []bool) {
	tier := e.tier
	all8 := tier == tierFull
	mark := func(vs []interface{}, kind string, counts bool) []bool {
		var cores []interface{}
		if counts {
			cores = e.counts(kind, tierCore)
		} else {
			cores = e.vals(kind, tierCore, false)
		}
		in := map[string]bool{}
		for _, v := range cores {
			in[c01Enc(v)] = true
		}
		out := make([]bool, len(vs))
		for i, v := range vs {
			out[i] = in[c01Enc(v)]
		}
		return out
	}
	one := func(enc string) ([]interface{}, []bool) { return []interface{}{c01Dec(enc)}, []bool{true} }
	if u.hasA() {
		a8 := all8 && !u.isShift()
		xs = e.vals(u.KX, tier, a8)
		coreX = mark(xs, u.KX, false)
	} else {
		xs, coreX = one(u.CX)
	}
	switch {
	case u.isUnary():
		ys, coreY = xs[:1], []bool{true}
	case u.hasB() && u.isShift():
		ys = e.counts(u.ky(), tier)
		coreY = mark(ys, u.ky(), true)
	case u.hasB():
		ys = e.vals(u.ky(), tier, all8)
		coreY = mark(ys, u.ky(), false)
	default:
		ys, coreY = one(u.CY)
	}
	return
}

// ---- signatures ----------------------------------------------------------------

func c01FailKind(want, got string) string {
	switch {
	case strings.HasPrefix(got, "TYPE("):
		return "type"
	case strings.HasPrefix(got, "REJECTED"):
		return "rejected"
	case strings.HasPrefix(got, "PANIC(") || strings.HasPrefix(want, "PANIC("):
		return "panic"
	}
	return "value"
}

func (u *c01Unit) shapeText() string {
	op := u.Op
	switch u.Shape {
	case "vv":
		return "var" + op + "var"
	case "vc":
		return "var" + op + "const"
	case "cv":
		return "const" + op + "var"
	case "cc":
		return "const" + op + "const"
	case "v":
		return op[1:] + "var"
	case "c":
		return op[1:] + "const"
	}
	return u.Shape
}

func (u *c01Unit) constClass() string {
	cls := func(enc string, count bool) string {
		v := c01Dec(enc)
		if count && u.isShift() {
			var n int64
			var un uint64
			s := fmt.Sprintf("%d", v)
			if _, err := fmt.Sscan(s, &n); err != nil {
				fmt.Sscan(s, &un)
				n = 1 << 62
			}
			switch {
			case n < 0:
				return "negative"
			case n == 0:
				return "0"
			case n < int64(c01Width(u.KX)):
				return "lt-width"
			}
			return "ge-width"
		}
		return c01ConstClass(v)
	}
	switch u.Shape {
	case "vc":
		return "c=" + cls(u.CY, true)
	case "cv", "c":
		return "c=" + cls(u.CX, false)
	case "cc":
		return "c=" + cls(u.CX, false) + "," + cls(u.CY, true)
	}
	return "-"
}

// c01Sig: operator-level signature when the failure also occurs with plain local operands (baseFails),
// otherwise a storage-level signature (the operator is fine, reading the operand from that storage is not).
func c01Sig(u *c01Unit, fail string, baseFails bool) string {
	if !baseFails {
		ks := u.KX
		if u.hasB() && u.ky() != u.KX {
			if u.hasA() {
				ks += "," + u.ky()
			} else {
				ks = u.ky()
			}
		}
		return "C01|storage|" + u.Store + "|" + ks + "|" + fail
	}
	fam := c01Family(u.KX)
	if u.isShift() || u.ky() != u.KX {
		fam += "," + c01Family(u.ky())
	}
	if fail == "rejected" && strings.Contains(u.Form, "F") {
		// the rejection is about the spelling of the constant (untyped floating-point literal with an integral value)
		return "C01|" + c01OpName[u.Op] + "|" + fam + "|" + u.shapeText() + "|untyped-float-literal|rejected"
	}
	return "C01|" + c01OpName[u.Op] + "|" + fam + "|" + u.shapeText() + "|" + u.constClass() + "|" + fail
}

// ---- running -------------------------------------------------------------------

type c01Runner struct {
	c        *core.Ctx
	w        *c01World
	enum     *c01Enum
	confirms map[string]int
	nconfirm int
	replay   bool

	lastOText string
	lastInfo  oracle.ExprInfo
}

func c01RejectClass(msg string) string {
	switch {
	case strings.Contains(msg, "overflows"), strings.Contains(msg, "overflow"):
		return "constant-overflow"
	case strings.Contains(msg, "division by zero"):
		return "division-by-zero"
	case strings.Contains(msg, "mismatched types"):
		return "mismatched-types"
	case strings.Contains(msg, "negative shift"), strings.Contains(msg, "invalid shift"):
		return "invalid-shift"
	case strings.Contains(msg, "truncated"), strings.Contains(msg, "cannot use"), strings.Contains(msg, "cannot convert"):
		return "not-representable"
	case strings.Contains(msg, "not defined"), strings.Contains(msg, "invalid operation"):
		return "operator-not-defined"
	}
	return "other"
}

func c01DefaultType(t string) string {
	switch t {
	case "untyped bool":
		return "bool"
	case "untyped int":
		return "int"
	case "untyped rune":
		return "int32"
	case "untyped float":
		return "float64"
	case "untyped complex":
		return "complex128"
	case "untyped string":
		return "string"
	}
	return t
}

var _ = types.Typ

func (r *c01Runner) runUnit(u *c01Unit, xs, ys []interface{}, coreX, coreY []bool) {
	c := r.c
	drv := u.driver()
	otext := u.KX + "|" + u.ky() + "|" + u.oracleExpr()
	if otext != r.lastOText {
		r.lastOText, r.lastInfo = otext, r.w.scope(u.KX, u.ky()).Eval(u.oracleExpr())
	}
	info := r.lastInfo
	if info.Err != nil {
		// not a well-typed Go expression: outside the property. Record what the interpreter does with it.
		c.Eval(1)
		cls := c01RejectClass(info.Err.Error())
		c.Count("go_rejects:"+cls, 1)
		if _, _, cerr := r.w.build(u); cerr == "" {
			c.Count("go_rejects_but_interpreter_accepts:"+cls, 1)
		}
		return
	}
	if drv == nil || !drv.Has(u.Op) {
		panic(fmt.Sprintf("harness error: go/types accepts %q for %s,%s but no native driver", u.oracleExpr(), u.KX, u.ky()))
	}
	cl, src, cerr := r.w.build(u)
	c.Count("units:"+u.Shape, 1)
	report := func(x, y interface{}, want, got string) {
		fail := c01FailKind(want, got)
		base := r.baseFails(u, x, y, fail)
		sig := c01Sig(u, fail, base)
		cas := c01Case{Unit: *u, Src: src, Want: want, Got: got}
		if u.hasA() {
			cas.X = c01Enc(x)
		}
		if u.hasB() {
			cas.Y = c01Enc(y)
		}
		if !r.replay && r.confirms[sig] < 1 && r.nconfirm < 60 {
			// believe a mismatch only if a fresh interpreter reproduces it (first case of each signature)
			r.confirms[sig]++
			r.nconfirm++
			got2 := c01FreshOutcome(u, x, y)
			if got2 != got {
				sig = "C01|order-dependent|" + c01OpName[u.Op] + "|" + u.Shape + "|" + u.Store
				got = got + " (fresh interpreter: " + got2 + ")"
			}
		}
		what := fmt.Sprintf("%s  [%s %s, %s, storage %s]  x=%s y=%s : compiled Go %s, interpreter %s   source: %s",
			u.oracleExpr(), u.KX, u.ky(), u.shapeText(), u.Store, c01Show(operandOrNil(u.hasA(), x)), c01Show(operandOrNil(u.hasB(), y)), want, got, src)
		c.Count("viol:"+sig, 1)
		if df := os.Getenv("C01_DUMP"); df != "" && r.confirms["dump:"+sig] == 0 {
			r.confirms["dump:"+sig] = 1
			if f, err := os.OpenFile(fmt.Sprintf("%s.%d", df, c.Shard), os.O_APPEND|os.O_CREATE|os.O_WRONLY, 0o644); err == nil {
				fmt.Fprintf(f, "%s\t%s\n", sig, what)
				f.Close()
			}
		}
		c.Violation(sig, what, cas)
	}
	if cerr != "" {
		c.Eval(1)
		report(xs[0], ys[0], "accepted by go/types, type "+info.Type, "REJECTED: "+cerr)
		return
	}
	// static type (observable at top level)
	if cl.expr != nil && u.Store == "top" {
		want := c01DefaultType(info.Type)
		got := strings.TrimPrefix(cl.typ, "untyped:")
		c.Count("static_types_compared", 1)
		if got != want {
			report(xs[0], ys[0], "static type "+want, "TYPE("+got+")")
		}
	}
	nontriv := make([]bool, len(xs)*len(ys))
	nmis := 0
	drv.Run(u.Op, cl, xs, ys, nontriv, func(i, j int, want, got string) {
		nmis++
		if nmis <= 40 {
			report(xs[i], ys[j], want, got)
		} else {
			c.Count("mismatches_beyond_40_per_unit", 1)
		}
	})
	c.Eval(len(xs) * len(ys))
	c.Count("evals:"+u.Shape, len(xs)*len(ys))
	uk := u.key()
	nt := 0
	for i := range xs {
		for j := range ys {
			if nontriv[i*len(ys)+j] {
				nt++
				if coreX[i] && coreY[j] {
					c.Nontrivial(uk + "|" + c01Enc(xs[i]) + "|" + c01Enc(ys[j]))
				}
			}
		}
	}
	c.Count("nontrivial_evaluations", nt)
	if c.WantSample() && nt > 0 && (u.Shape == "vc" || u.Store == "cap2blk1") {
		i, j := len(xs)/2, len(ys)/2
		c.Sample(map[string]interface{}{"unit": u, "source": src, "x": c01Show(xs[i]), "y": c01Show(ys[j]), "compiled_go": drv.Native(u.Op, xs[i], ys[j]), "grid": len(xs) * len(ys)})
	}
}

func operandOrNil(has bool, v interface{}) interface{} {
	if has {
		return v
	}
	return nil
}

// baseFails: does the same (operator, kinds, constness, constants, values) also fail with plain local operands?
func (r *c01Runner) baseFails(u *c01Unit, x, y interface{}, fail string) bool {
	if u.Store == "local" || (u.Store == "top" && (u.Shape == "cc" || u.Shape == "c") && fail == "type") {
		return true
	}
	b := *u
	b.Store = "local"
	if c01SkipStore(&b) {
		return true
	}
	return c01OutcomeIn(r.w, &b, x, y) != u.driver().Native(u.Op, x, y)
}

// c01OutcomeIn evaluates one pair of one unit in the given world and returns the canonical interpreter outcome
// ("REJECTED: …" when it does not compile). Matching outcomes are returned in the native canonical form.
func c01OutcomeIn(w *c01World, u *c01Unit, x, y interface{}) string {
	cl, _, cerr := w.build(u)
	if cerr != "" {
		return "REJECTED: " + cerr
	}
	drv := u.driver()
	out := drv.Native(u.Op, x, y)
	drv.Run(u.Op, cl, []interface{}{x}, []interface{}{y}, nil, func(i, j int, want, got string) { out = got })
	return out
}

func c01FreshOutcome(u *c01Unit, x, y interface{}) string {
	return c01OutcomeIn(newC01World(), u, x, y)
}

// c01TuneWorker: a worker process runs one interpreter thread; two Ps and a lazier collector avoid that 16 workers
// × 16 collector threads fight for the cores.
func c01TuneWorker() {
	runtime.GOMAXPROCS(2)
	debug.SetGCPercent(400)
}

func c01Run(c *core.Ctx) {
	c.Rule("product of operator (9 arithmetic/bitwise, 2 shifts, 6 comparisons, 2 logical, 4 unary) × operand kind (16 basic kinds + string; shifts: 11×11 operand/count kinds) " +
		"× constness {var∘var, var∘const, const∘var, const∘const} × constant spelling {T(lit), untyped, untyped float, named typed const} " +
		"× storage of the variable operands {function parameter, global at top level, global read from closure depth 0..3, same with boxed (non integer-slot) globals, " +
		"parameter captured at closure depth 1..4, nested blocks, closures without locals, operands at different depths} × boundary value grid; " +
		"each unit is compiled once and run over the grid, results compared with native Go operators (generic instantiation per kind), well-typedness/static type with go/types. " +
		"non-trivial = distinct (unit, x, y) with x, y in the core alphabet whose Go outcome is a run-time panic, a result different from both operands (arithmetic, shift, unary) or true (comparison, logical)")
	c.Assume("native Go operators compiled by the installed toolchain (go1.23.5, amd64) inside generic functions are the reference for 'compiled Go'",
		"expressions rejected by go/types are outside the property (\"every well-typed expression\"); whether the interpreter accepts them is recorded, not judged",
		"untyped constant as left operand of a non-constant shift is excluded (interpreter documents it as a known limitation)")
	c01TuneWorker()
	e := &c01Enum{c: c, tier: tierCore, stores: c01StoresQuick, memo: map[string][]interface{}{}}
	if c.Thorough() {
		e.tier, e.stores = tierFull, c01StoresFull
	}
	if os.Getenv("C01_COUNT") != "" {
		if c.Shard == 0 {
			cnt := map[string][2]int{}
			e.each(func(u *c01Unit) {
				xs, ys, _, _ := e.grid(u)
				k := u.Shape
				if u.isShift() {
					k += "-shift"
				}
				if u.isUnary() {
					k += "-unary"
				}
				v := cnt[k]
				v[0]++
				v[1] += len(xs) * len(ys)
				cnt[k] = v
			})
			fmt.Println("C01 units/evals by shape:", cnt)
		}
		return
	}
	r := &c01Runner{c: c, w: newC01World(), enum: e, confirms: map[string]int{}}
	// units with the same Go expression (they differ in storage shape / equivalent spelling only) form a group;
	// groups are the sharding unit, so the go/types verdict is computed once per group
	n, g := 0, 0
	units := 0
	stop := false
	last := ""
	e.each(func(u *c01Unit) {
		n++
		if t := u.groupKey(); t != last {
			last = t
			g++
		}
		if stop || !c.Mine(g) {
			return
		}
		if n%64 == 0 && c.Expired() {
			stop = true
			return
		}
		units++
		xs, ys, cx, cy := e.grid(u)
		r.runUnit(u, xs, ys, cx, cy)
	})
	c.Count("units_total", units)
	c.Count("evaluations_where_go_panics", c01NativePanics)
	c.Set("storage_shapes", e.stores)
}

func c01Replay(c *core.Ctx, raw json.RawMessage) {
	var cas c01Case
	if err := json.Unmarshal(raw, &cas); err != nil {
		panic(err)
	}
	u := &cas.Unit
	r := &c01Runner{c: c, w: newC01World(), confirms: map[string]int{}, replay: true}
	one := func(enc, cenc string) []interface{} {
		if enc != "" {
			return []interface{}{c01Dec(enc)}
		}
		if cenc != "" {
			return []interface{}{c01Dec(cenc)}
		}
		return nil
	}
	xs := one(cas.X, u.CX)
	ys := one(cas.Y, u.CY)
	if ys == nil {
		ys = xs
	}
	r.runUnit(u, xs, ys, []bool{true}, []bool{true})
}

var _ = sort.Strings
